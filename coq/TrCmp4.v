(* TrCmp4.v -- C04, the two halves of the undo machinery composed (part 1): the abstract line-table predicate `T` of
   TrUndoBase.urep instantiated with the CONCRETE line table of TrSpliceAll.lbuf_at (`Tc`: the pointer array ln, the array
   ln_glob, one live block per line, pairwise distinct), its frame property, and `replace_sim`: the translated lbuf_replace
   itself (TrCmp4Rep.tr_lbuf_replace_p) maps a memory that represents a model state (log AND text: urep Tc) to a memory that
   represents UndoDefs.lbuf_replace of it -- the statement TrUndo.replace_oracle assumes of its oracle, with the side
   conditions under which the C text really does it written out:
     - the text argument is NULL or the start/inside of a string at the START of a live block that is not the struct and not
       part of the line table (the log's own strings, the caller's buffer), shorter than 2 GB;
     - the splice is inside the table and the new line count fits an int (splice_ok);
     - ln != NULL, i.e. capacity > 0 (part of Tc), and the capacity the growth loop reaches fits an int;
     - every mark row r is an int and r + n_ins - n_del does not overflow where the C text computes it (row_fits). *)
From Coq Require Import List ZArith NArith Bool Lia.
From NV Require Import Bytes GenConsts CLite CLiteProps GenCFuncs CLiteTac CLiteExt TrLbufBase UndoDefs TrUndoBase TrUndo.
From NV Require Import TrLbufMarks TrSplice TrSpliceMarks TrSpliceAll TrSpliceModels TrCmp4Str TrCmp4Rep.
From NV Require IoDefs TrLbuf.
Import ListNotations.
Local Open Scope Z_scope.

(* ------------------------------------------------------------------ the concrete table predicate *)
Definition Tc : Tpred := fun m cs fp t =>
  exists bln bgl lbs (lnblk glblk : block) cap (globs : list Z),
    cs = [VPtr bln 0; VPtr bgl 0; VInt (Z.of_nat (length t)); VInt (Z.of_nat cap)] /\ fp = bln :: bgl :: lbs /\
    nth_error m bln = Some lnblk /\ nth_error m bgl = Some glblk /\ length lnblk = cap /\ length glblk = cap /\
    (forall i, (i < length t)%nat -> nth_error lnblk i = Some (VPtr (nth i lbs O) 0)) /\
    (forall i, (i < length t)%nat -> nth_error glblk i = Some (VInt (nth i globs 0))) /\
    length lbs = length t /\ length globs = length t /\
    (forall i, (i < length t)%nat -> str_at m (nth i lbs O) (nth i t [])) /\
    NoDup (bln :: bgl :: lbs) /\ (length t <= cap)%nat /\ (0 < cap)%nat.

Theorem Tc_frame : T_frame Tc.
Proof.
  intros m m' cs fp t (bln & bgl & lbs & lnblk & glblk & cap & globs & Ecs & Efp & Hln & Hgl & Lln & Lgl & Cln & Cgl & Llbs & Lglobs & Hstr & Hnd & Hcap & Hcap0) K.
  exists bln, bgl, lbs, lnblk, glblk, cap, globs. subst fp.
  split; [exact Ecs|]. split; [reflexivity|]. split; [rewrite K by (left; reflexivity); exact Hln|].
  split; [rewrite K by (right; left; reflexivity); exact Hgl|].
  do 6 (split; [assumption|]). split; [|tauto].
  intros i Hi. unfold str_at. rewrite K; [apply Hstr; exact Hi|]. right. right. apply nth_In. lia.
Qed.

(* ------------------------------------------------------------------ urep Tc <-> lbuf_at *)
Definition marks_of (blk : block) : list Z := map (cellz blk) (List.seq 0 32).
Lemma marks_of_len blk : length (marks_of blk) = 32%nat.
Proof. unfold marks_of. rewrite map_length, seq_length. reflexivity. Qed.
Lemma marks_of_nth blk k z : (k < 32)%nat -> nth_error blk k = Some (VInt z) -> nth k (marks_of blk) 0 = z.
Proof.
  intros Hk H. unfold marks_of. rewrite (nth_indep _ 0 (cellz blk 0)) by (rewrite map_length, seq_length; exact Hk).
  rewrite map_nth, seq_nth by exact Hk. unfold cellz. cbn [Nat.add]. rewrite H. reflexivity.
Qed.

Lemma cell_of_hc (blk : block) j v : length blk = LBUF_CELLS -> (j < 75)%nat -> hc blk j = v -> nth_error blk j = Some v.
Proof. intros L Hj <-. unfold hc. apply nth_error_nth'. rewrite L. exact Hj. Qed.
Lemma hc_of_cell (blk : block) j v : nth_error blk j = Some v -> hc blk j = v.
Proof. intro H. unfold hc. apply nth_error_nth. exact H. Qed.

(* the blocks the log owns are live *)
Lemma sown_live m v s b : sown m v s -> In b (ptr_block v) -> (b < length m)%nat.
Proof.
  destruct s as [t|]; cbn [sown]; [|intros -> []]. intros (_ & b0 & -> & (blk & H & _)) [<-|[]]. apply nth_error_Some. congruence.
Qed.
Lemma ent_blocks_live m hblk i lo b : ent_rep m hblk i lo -> In b (ent_blocks hblk i) -> (b < length m)%nat.
Proof.
  intros [H0 H1 _ _ _ _ _ H7 _] Hb. rewrite ent_blocks_eq in Hb.
  apply in_app_or in Hb. destruct Hb as [Hb|Hb]; [apply (sown_live _ _ _ _ H0 Hb)|].
  apply in_app_or in Hb. destruct Hb as [Hb|Hb]; [apply (sown_live _ _ _ _ H1 Hb)|].
  destruct H7 as [[E7 E8]|(bm & bo & E7 & E8 & _ & mb & ob & Hm & Ho & _)]; rewrite E7, E8 in Hb; cbn [ptr_block app In] in Hb; [tauto|].
  destruct Hb as [<-|[<-|[]]]; apply nth_error_Some; congruence.
Qed.
Lemma owned_live T m bl blk bh hblk lb b : urep T m bl blk bh hblk lb -> In b (owned bl bh hblk (length (hist lb))) -> (b < length m)%nat.
Proof.
  intros R [<-|[<-|Hb]].
  - apply nth_error_Some. rewrite (u_blk _ _ _ _ _ _ _ R). discriminate.
  - apply nth_error_Some. rewrite (u_hblk _ _ _ _ _ _ _ R). discriminate.
  - unfold log_blocks in Hb. apply in_flat_map in Hb. destruct Hb as (i & Hi & Hb). apply in_seq in Hi.
    apply (ent_blocks_live m hblk i _ b (u_ents _ _ _ _ _ _ _ R i ltac:(lia)) Hb).
Qed.

(* the struct, the table cells and the footprint of a represented state are a line buffer in the sense of TrSpliceAll *)
Lemma urep_lbuf_at m bl blk bh hblk lb fp : urep Tc m bl blk bh hblk lb -> Tc m (tcells blk) fp (ln lb) -> ~ In bl fp ->
  (forall k, (k < 32)%nat -> exists z, nth_error blk k = Some (VInt z)) ->
  exists bln bgl lbs globs cap, fp = bln :: bgl :: lbs /\ lbuf_at m bl blk bln bgl lbs (ln lb) globs (marks_of blk) cap.
Proof.
  intros R (bln & bgl & lbs & lnblk & glblk & cap & globs & Ecs & Efp & Hln & Hgl & Lln & Lgl & Cln & Cgl & Llbs & Lglobs & Hstr & Hnd & Hcap & Hcap0) Hnb Hmk.
  pose proof (u_len _ _ _ _ _ _ _ R) as L. unfold tcells in Ecs. injection Ecs as E64 E65 E66 E67.
  exists bln, bgl, lbs, globs, cap. split; [exact Efp|]. subst fp.
  constructor.
  - exists lnblk, glblk. split; [|split; assumption]. constructor; try assumption.
    + apply (u_blk _ _ _ _ _ _ _ R).
    + apply (cell_of_hc blk 64 _ L ltac:(lia) E64).
    + apply (cell_of_hc blk 65 _ L ltac:(lia) E65).
    + apply (cell_of_hc blk 66 _ L ltac:(lia) E66).
    + apply (cell_of_hc blk 67 _ L ltac:(lia) E67).
    + cbn [In] in Hnb. inversion Hnd as [|? ? X _]; subst. cbn [In] in X. repeat split; intro; subst; tauto.
  - exact Llbs.
  - exact Lglobs.
  - exact Hstr.
  - constructor; assumption.
  - split; assumption.
  - split; [apply marks_of_len|]. intros k Hk. destruct (Hmk k Hk) as [z Hz]. rewrite (marks_of_nth blk k z Hk Hz). exact Hz.
Qed.
Lemma lbuf_at_Tc m bl blk bln bgl lbs lines globs mk cap : lbuf_at m bl blk bln bgl lbs lines globs mk cap ->
  Tc m (tcells blk) (bln :: bgl :: lbs) lines /\ ~ In bl (bln :: bgl :: lbs).
Proof.
  intros [(lnblk & glblk & T & Cln & Cgl) Hlbs Hglobs Hstr Hnd [Hcap Hcap0] _].
  destruct T as [Tb Tl Tln Tgl Tn Tsz Tlnb Tglb Tlnl Tgll _]. assert (X : ~ In bl (bln :: bgl :: lbs)) by (inversion Hnd; assumption).
  assert (Y : NoDup (bln :: bgl :: lbs)) by (inversion Hnd; assumption). split; [|exact X].
  exists bln, bgl, lbs, lnblk, glblk, cap, globs. unfold tcells.
  unfold L_ln, L_ln_glob, L_ln_n, L_ln_sz in Tln, Tgl, Tn, Tsz.
  rewrite (hc_of_cell _ _ _ Tln), (hc_of_cell _ _ _ Tgl), (hc_of_cell _ _ _ Tn), (hc_of_cell _ _ _ Tsz).
  repeat (split; [first [reflexivity | assumption]|]). assumption.
Qed.

(* ------------------------------------------------------------------ the side conditions of one splice, on the memory it starts from *)
(* the text argument as TrCmp4Rep wants it, outside the struct and the table *)
Definition text_arg (m : mem) (bl : nat) (fp : list nat) (sv : val) (s : option (list N)) : Prop :=
  s_textp m (bl :: fp) sv (txt s) (is_null s).
(* marks and capacity *)
Definition fits (blk : block) (n : nat) (s : option (list N)) (p nd : nat) (cap' : Z) : Prop :=
  let ni := linecount s in
  let need := Z.of_nat n + Z.of_nat ni - Z.of_nat nd in
  (forall k, (k < 32)%nat -> exists z, nth_error blk k = Some (VInt z) /\ row_fits (Z.of_nat p) (Z.of_nat nd) (Z.of_nat ni) z) /\
  (exists cap, nth_error blk L_ln_sz = Some (VInt (Z.of_nat cap)) /\ IoDefs.grow (IoDefs.grow_fuel need) need (Z.of_nat cap) = Some cap') /\
  cap' <= 2147483647.

(* a string the log owns is such an argument *)
Lemma sown_text_arg T m bl blk bh hblk lb fp v s : urep T m bl blk bh hblk lb ->
  (forall b, In b fp -> ~ In b (owned bl bh hblk (length (hist lb)))) ->
  sown m v s -> (forall b, In b (ptr_block v) -> In b (log_blocks hblk 0 (length (hist lb)))) ->
  (forall t, s = Some t -> Z.of_nat (length t) + 2 <= 2147483647) -> text_arg m bl fp v s.
Proof.
  intros R Hfp Hs Hin Hlen. unfold text_arg. destruct s as [t|]; cbn [sown txt is_null] in *; [|subst v; constructor].
  destruct Hs as (Hn & b & -> & (blk0 & Hb & _ & Hc)).
  change (VPtr b 0) with (VPtr b (Z.of_nat 0)). change t with (skipn 0 t) at 1.
  apply stp_ptr.
  - cbn [Z.to_nat skipn] in Hc.
    exists (skipn (S (length t)) blk0). rewrite Hb. f_equal. rewrite <- Hc. symmetry. apply firstn_skipn.
  - exact Hn.
  - lia.
  - apply Hlen. reflexivity.
  - assert (Hl : In b (log_blocks hblk 0 (length (hist lb)))) by (apply Hin; left; reflexivity).
    intros [<-|X].
    + pose proof (u_own _ _ _ _ _ _ _ R) as Ho. inversion Ho as [|? ? N _]. apply N. right. exact Hl.
    + apply (Hfp b X). right. right. exact Hl.
Qed.

(* ------------------------------------------------------------------ replace_sim *)
Lemma i31_le a b : i31 b -> (a <= b)%nat -> i31 a.
Proof. unfold i31. lia. Qed.

Theorem replace_sim (m : mem) bl (blk : block) bh (hblk : block) lb fp sv s p nd cap' d fuel :
  urep Tc m bl blk bh hblk lb ->
  Tc m (tcells blk) fp (ln lb) -> (forall b, In b fp -> ~ In b (owned bl bh hblk (length (hist lb)))) ->
  text_arg m bl fp sv s -> splice_ok lb s p nd -> fits blk (length (ln lb)) s p nd cap' ->
  (splice_fuel (length (ln lb)) (linecount s) nd <= fuel)%nat ->
  exists (m' : mem) (blk' : block) fp',
    callf cprog fuel (S (S (S d))) F_lbuf_replace [VPtr bl 0; sv; VInt (Z.of_nat p); VInt (Z.of_nat nd)] m = Ok (VUndef, m') /\
    urep Tc m' bl blk' bh hblk (lbuf_replace lb s p nd) /\
    Tc m' (tcells blk') fp' (ln (lbuf_replace lb s p nd)) /\
    (forall b, In b fp' -> ~ In b (owned bl bh hblk (length (hist lb))) /\ (b < length m')%nat) /\
    (length m <= length m')%nat /\
    (forall c, (c < length m)%nat -> c <> bl -> ~ In c fp -> nth_error m' c = nth_error m c) /\
    nth_error blk' L_ln_sz = Some (VInt cap') /\
    (forall k, (k < 32)%nat -> nth_error blk' k = Some (VInt (nth k (splice_marks (is_null s) p nd (linecount s) (marks_of blk)) 0))).
Proof.
  intros R HT Hfp Harg (Hpos & Hsz) (Hmk & (cap & Ccap & Hgrow) & Hcap') Hfuel.
  pose proof R as [Hb L I Cn Rn Cq Ch Csz Cnn Cu Cz Cl Rg Hh Hl He Ho _].
  assert (Nbl : ~ In bl fp) by (intros X; apply (Hfp bl X); left; reflexivity).
  destruct (urep_lbuf_at m bl blk bh hblk lb fp R HT Nbl (fun k Hk => let (z, H) := Hmk k Hk in ex_intro _ z (proj1 H)))
    as (bln & bgl & lbs & globs & cap0 & Efp & At). subst fp.
  assert (Ecap : cap0 = cap).
  { destruct At as [(lnblk & glblk & T & _) _ _ _ _ _ _]. pose proof (t_sz _ _ _ _ _ _ _ _ _ T) as X. rewrite Ccap in X. injection X as X. lia. }
  subst cap0.
  destruct (splice_is_undo lb s p nd) as [E1 E2].
  assert (Llbs0 : length lbs = length (ln lb)) by (destruct At as [_ X _ _ _ _ _]; exact X).
  assert (Hfit : Forall (row_fits (Z.of_nat p) (Z.of_nat nd) (Z.of_nat (IoDefs.linecount (txt s)))) (marks_of blk)).
  { rewrite <- E2. apply Forall_forall. intros x Hx. destruct (In_nth _ _ 0 Hx) as (k & Hk & <-). rewrite marks_of_len in Hk.
    destruct (Hmk k Hk) as (z & Hz & Hr). rewrite (marks_of_nth blk k z Hk Hz). exact Hr. }
  assert (G1 : Z.of_nat (length (ln lb)) + Z.of_nat (IoDefs.linecount (txt s)) <= 2147483647) by (rewrite <- E2; unfold i31 in Hsz; lia).
  rewrite E2 in Hgrow, Hfuel.
  destruct (tr_lbuf_replace_p m bl blk bln bgl lbs (ln lb) globs (marks_of blk) cap sv (txt s) (is_null s) p nd cap' d fuel At Harg Hpos
              G1 Hgrow Hcap' Hfit Hfuel)
    as (m' & blk' & bln' & bgl' & base & C & At' & P1 & P2 & P3 & P4 & Fr & _ & A1 & A2 & Hi68 & Off).
  assert (At2 : lbuf_at m' bl blk' bln' bgl' (splice lbs (List.seq base (linecount s)) p nd) (ln (lbuf_replace lb s p nd))
                  (splice_globs globs p nd (linecount s)) (splice_marks (is_null s) p nd (linecount s) (marks_of blk)) (Z.to_nat cap')).
  { rewrite E2. replace (ln (lbuf_replace lb s p nd)) with (splice (ln lb) (IoDefs.split_lines (txt s)) p nd) by (symmetry; exact E1). exact At'. }
  clear At'. rename At2 into At'.
  destruct (lbuf_at_Tc _ _ _ _ _ _ _ _ _ _ At') as (HT' & Nbl').
  set (fp' := bln' :: bgl' :: splice lbs (List.seq base (linecount s)) p nd) in *.
  (* the new footprint: old table blocks or fresh ones, all live *)
  assert (Hfp' : forall b, In b fp' -> ~ In b (owned bl bh hblk (length (hist lb))) /\ (b < length m')%nat).
  { assert (Old : forall b, (length m <= b)%nat -> ~ In b (owned bl bh hblk (length (hist lb)))).
    { intros b Hge X. pose proof (owned_live _ _ _ _ _ _ _ b R X). lia. }
    destruct At' as [(lnblk' & glblk' & T' & _) Llbs' _ Hstr' _ _ _].
    intros b [<-|[<-|X]].
    - split; [|apply nth_error_Some; rewrite (t_lnb _ _ _ _ _ _ _ _ _ T'); discriminate].
      destruct A1 as [->|[Y _]]; [apply Hfp; left; reflexivity|apply Old; exact Y].
    - split; [|apply nth_error_Some; rewrite (t_glb _ _ _ _ _ _ _ _ _ T'); discriminate].
      destruct A2 as [->|[Y _]]; [apply Hfp; right; left; reflexivity|apply Old; exact Y].
    - split.
      + destruct (splice_in_old lbs base _ p nd b ltac:(lia) X) as [Y|Y];
          [apply Hfp; right; right; exact Y|apply Old; lia].
      + destruct (In_nth _ _ O X) as (i & Hi & <-). rewrite Llbs' in Hi. pose proof (Hstr' i Hi) as Y. unfold str_at in Y.
        apply nth_error_Some. rewrite Y. discriminate. }
  assert (Keep : forall b, In b (owned bl bh hblk (length (hist lb))) -> b <> bl -> nth_error m' b = nth_error m b).
  { intros b Hob Nb. apply Fr; [apply (owned_live _ _ _ _ _ _ _ b R Hob)|]. intros [X|X]; [congruence|]. apply (Hfp b X Hob). }
  assert (Nhl : bh <> bl) by (intro X; subst; inversion Ho as [|? ? Hn _]; apply Hn; left; reflexivity).
  destruct At' as [(lnblk' & glblk' & T' & Cln' & Cgl') Llbs' Lglobs' Hstr' Hnd' Hcap2 [Lmk' Hmk']].
  pose proof T' as [Tb Tl Tln Tgl Tn Tsz Tlnb Tglb Tlnl Tgll Tne].
  exists m', blk', fp'. split; [exact C|]. split.
  { constructor; cbn [lbuf_replace set_ln ln hist hist_u hist_sz useq useq_zero useq_last];
      try (rewrite Hi68 by (unfold L_useq, L_hist, L_hist_sz, L_hist_n, L_hist_u, L_useq_zero, L_useq_last; lia); assumption); try assumption.
    - intros j Hj. destruct (Nat.lt_ge_cases j 32) as [X|X]; [eexists; apply Hmk'; exact X|]. apply Off; [lia|]. apply I. exact Hj.
    - unfold replace. rewrite !app_length, firstn_length, skipn_length. unfold i31 in *. unfold linecount in Hsz. lia.
    - rewrite Keep by (try assumption; right; left; reflexivity). exact Hh.
    - intros i Hi. apply (ent_rep_keeps m); [apply He; exact Hi|]. intros b Hbe.
      assert (Hin : In b (log_blocks hblk 0 (length (hist lb)))) by (apply (in_log_blocks hblk i); assumption).
      apply Keep; [right; right; exact Hin|]. intro X. subst b. inversion Ho as [|? ? Hn _]. apply Hn. right. exact Hin.
    - exists fp'. split; [exact HT'|exact Hfp']. }
  split; [exact HT'|]. split; [exact Hfp'|]. split; [exact P4|]. split.
  { intros c Hc N1 N2. apply Fr; [exact Hc|]. intros [X|X]; [congruence|contradiction]. }
  split.
  { rewrite Tsz. f_equal. f_equal. lia. }
  intros k Hk. apply Hmk'. exact Hk.
Qed.
