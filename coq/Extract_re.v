(* Extract_re.v -- extraction of the regex.c / rset.c model to OCaml (ExtrOcamlBasic only). *)
From Coq Require Import List NArith ZArith Extraction ExtrOcamlBasic.
From NV Require Import Bytes GenConsts ReSyntax ReParse ReEmit ReVM RsetDefs ReStateDefs.
Definition all_types : nat * N * Z := (0%nat, 0%N, 0%Z).
Extraction "re_model.ml" all_types regcomp regexec rset_make rset_find rset_find_d rset_pattern re_groupcount
  count zlen nlen emit_n parse_pat grpnum brk_len depth rset_shape ngroups parse_bad re_groupcount_opt somes
  session_gen session regcomp_st rset_make_st regcomp_seq rset_make_seq flag_after.
