(* Properties_C15.v -- C15: the global command runs its command list once per matching line, undone as one step.
   Statements only; every proof is `exact <lemma>`.  Model: ec_glob / glob_loop / glob_scan of ExDefs.v over
   the line buffer whose ln_glob bits (and ghost identities) travel with the lines in lbuf_replace. *)
From Coq Require Import List NArith ZArith Bool.
From NV Require Import Bytes ExDefs ExSpec ExProps GlobDefs GlobProps.
Import ListNotations.

(* FULL STATEMENT AIMED AT: for ec_glob on range [b,e), the visited identities have no repetition, are increasing in
   original index, are identities of the original range only (never of a line an execution created), contain every
   original-range line present when the scan passes it, and the body runs iff the line matches at that moment.
   PROVED HERE, for an arbitrary command-list executor satisfying good_exec (marks only travel with surviving lines +
   tracks_low): from any loop state satisfying the loop invariant ginv (the visited line first, the still-marked
   identities a subsequence of M0), the identities visited by the loop of ec_glob are `first` followed by a
   SUBSEQUENCE of the originally marked identities M0 -- hence no repetition when M0 has none, original order, only
   original lines, never an inserted line.  The trace records per visit whether the body ran: by construction of
   glob_loop_vis exactly when (no match) = not.  MISSING: that ec_glob's marking loop establishes ginv with
   M0 = the identities of rows b+1..e-1; completeness (no mark is left at exit); good_exec for the concrete commands
   (C15_single_commands_track_low is not proved; KF-GLOB-LOW shows it is false for multi-command bodies). *)
Theorem C15_visits_partial : forall dep rfind exec, good_exec exec dep ->
  forall M0 first pat body not fuel i s vis,
  ginv dep M0 first i (lns (lb s)) (map fst vis) ->
  let '(s', vis') := glob_loop_vis rfind exec fuel i pat body not dep s vis in
  (exists vs, map fst vis' = first :: vs /\ sub vs M0) \/ vis' = vis.
Proof. exact glob_visits. Qed.
Print Assumptions C15_visits_partial.

(* the instrumented loop is the loop the model (and the extracted driver) runs *)
Theorem C15_trace_erasure : forall dep rfind exec pat body not fuel i s vis,
  fst (glob_loop_vis rfind exec fuel i pat body not dep s vis) = glob_loop rfind exec fuel i pat body not dep s.
Proof. exact glob_loop_vis_erase. Qed.
Print Assumptions C15_trace_erasure.

(* termination: whatever the fuel, the loop makes at most 1 + |M0| visits (every iteration consumes one mark) *)
Theorem C15_terminates : forall dep rfind exec, good_exec exec dep ->
  forall M0 first pat body not fuel i s vis,
  ginv dep M0 first i (lns (lb s)) (map fst vis) ->
  (length (snd (glob_loop_vis rfind exec fuel i pat body not dep s vis)) <= Nat.max (length vis) (1 + length M0))%nat.
Proof. exact glob_iterations_bounded. Qed.
Print Assumptions C15_terminates.

(* one undo step: no command of a global's body bumps the undo sequence number (every simple command except the
   filter and write; nested globals, given the same of the executor), and every history entry an edit appends is
   stamped with the current sequence number -- so all edits of one global share one number and lbuf_undo's loop
   (C04) takes them back together.  ec_at (@) does bump: it is outside the property's command list. *)
Theorem C15_one_undo : forall rvalid rfind filter readfile curpath,
  (forall a loc cmd arg txt s, is a [33%N] = false -> is a [119%N] = false -> is a [119%N; 33%N] = false ->
     sq (fst (ex_simple rvalid rfind filter readfile curpath a loc cmd arg txt s)) = sq s) /\
  (forall exec, (forall ln s, sq (fst (exec ln s)) = sq s) ->
     forall fuel loc cmd arg s, sq (fst (ec_glob rvalid rfind exec fuel loc cmd arg s)) = sq s) /\
  (forall t b e l, lbuf_edit t b e l = l \/
     exists lo, hist (lbuf_edit t b e l) = firstn (hist_u l) (hist l) ++ [lo] /\ o_seq lo = useq l).
Proof. exact (fun rvalid rfind filter readfile curpath =>
  conj (simple_sq rvalid rfind filter readfile curpath) (conj (glob_sq rvalid rfind) lbuf_edit_stamp)). Qed.
Print Assumptions C15_one_undo.

(* the hypotheses are satisfiable: an executor that does nothing satisfies good_exec, and ginv holds at the start
   of a scan over three lines of which the last two are marked *)
Example C15_nonvacuous :
  good_exec (fun _ s => (s, 0%Z)) 1%N /\
  ginv 1%N [1; 2]%nat 0%nat 0%nat [mkline 0 0%N []; mkline 1 2%N []; mkline 2 2%N []] [].
Proof.
  split.
  - intros body s s' r E H0 Hc. inversion E; subst. split; [apply sub_refl|]. intros j Hj. apply Hc. Lia.lia.
  - split; [intros j Hj; assert (j = 0)%nat by Lia.lia; subst; reflexivity|].
    exists (@nil nat). split; [reflexivity|]. cbn. apply sub_refl.
Qed.
