(* Properties_C15.v -- C15: the global command runs its command list once per matching line, undone as one step.
   Statements only; every proof is `exact <lemma>`.  Model: ec_glob / glob_loop / glob_scan of ExDefs.v over
   the line buffer whose ln_glob bits (and ghost identities) travel with the lines in lbuf_replace. *)
From Coq Require Import List NArith ZArith Bool.
From NV Require Import Bytes ExDefs ExSpec ExProps GlobDefs GlobProps GlobTrack GlobUniq GlobNest.
Import ListNotations.

(* THE VISIT THEOREM.  ec_glob, after resolving its range [b, b+n+1) and compiling the pattern, runs
     for (i = beg + 1; i < end; i++) lbuf_globset(xb, i, xgdep);     = globset_range n (S b)
     i = beg; while (i < lbuf_len(xb)) { ... }                        = glob_loop (= glob_loop_x without trace and exit kind)
   For an arbitrary command-list executor that is good_exec (marks only travel with surviving lines + tracks_low) and
   never drops the mark of an identity satisfying `keeps`, from any buffer without stale marks of this depth:
   * the identities visited are the line b first, followed by a SUBSEQUENCE of the identities of rows b+1..b+n of the
     original buffer (M0) -- so each original-range line is visited at most once (identities are distinct), in
     increasing original order, never a line outside the range and never a line an execution created; the trace
     records per visit whether the command list ran: by construction of the loop exactly when (no match) = not,
     evaluated on the line's text at the time of the visit;
   * when the scan ends normally (x = 0: not by a failing command list, not by fuel) no mark is left and every
     original-range identity whose mark no execution dropped has been visited (completeness).
   In the model a mark is dropped only by lbuf_replace removing (or over-replacing) its line: replace_mids_sub/mknew.
   The concrete forms are below: C15_visits_every_remaining_line (completeness with "still in the buffer"),
   C15_single_commands_track_low / _preserve_identities (every single command of the list is such an executor).
   WHAT IS NOT PROVED: good_exec for a nested global, u, !, @ as the command; good_exec for command lists of SEVERAL
   commands is false in general (KF-GLOB-LOW, refuted by the corpus case). *)
Theorem C15_visits : forall dep rfind exec keeps,
  good_exec exec dep -> keeps_exec exec dep keeps ->
  forall s b n pat body not fuel,
  nomarks dep (lns (lb s)) -> (b < length (lns (lb s)))%nat ->
  let M0 := map lid (firstn n (skipn (S b) (lns (lb s)))) in
  let first := lid (nth b (lns (lb s)) dline) in
  let '(s', vis', x) := glob_loop_x rfind exec fuel b pat body not dep (set_lb s (globset_range n (S b) dep (lb s))) [] in
  ((exists vs, map fst vis' = first :: vs /\ sub vs M0) \/ vis' = []) /\
  (x = 0%N -> exists vs, map fst vis' = first :: vs /\ sub vs M0 /\ mids dep (lns (lb s')) = [] /\
                         (forall m, In m M0 -> keeps m -> In m vs)).
Proof. exact glob_visits_from_marking. Qed.
Print Assumptions C15_visits.

(* the loop-level statement (from any state satisfying the loop invariant), kept from the first version *)
Theorem C15_visits_loop : forall dep rfind exec, good_exec exec dep ->
  forall M0 first pat body not fuel i s vis,
  ginv dep M0 first i (lns (lb s)) (map fst vis) ->
  let '(s', vis') := glob_loop_vis rfind exec fuel i pat body not dep s vis in
  (exists vs, map fst vis' = first :: vs /\ sub vs M0) \/ vis' = vis.
Proof. exact glob_visits. Qed.
Print Assumptions C15_visits_loop.

(* ec_glob's marking loop establishes the loop invariant with M0 = the identities of rows b+1 .. b+n *)
Theorem C15_marking_establishes_invariant : forall dep l b n, nomarks dep (lns l) ->
  ginv dep (map lid (firstn n (skipn (S b) (lns l)))) (lid (nth b (lns l) dline)) b (lns (globset_range n (S b) dep l)) [].
Proof. exact marking_ginv_lbuf. Qed.
Print Assumptions C15_marking_establishes_invariant.

(* the final sweep of ec_glob leaves no mark of its depth anywhere in the buffer, whatever state the loop ended in
   (also after a failed command list, also when executions moved marked lines past the old end of the range): the
   next global of the same depth starts from `nomarks`; and no edit ever creates a mark (sub), so `nomarks` lasts *)
Theorem C15_sweep_clears_all_marks : forall dep l, nomarks dep (lns (globclear (length (lns l)) 0 dep l)).
Proof. exact sweep_nomarks. Qed.
Print Assumptions C15_sweep_clears_all_marks.

(* tracks_low + "marks only travel with surviving lines" for every single command of the property's list that does
   not run other commands: a i c (with any text), d, s, pu, r, and p k y = rs ec and the null command, with ANY address
   (absolute, relative, `;`).  Hence such a command is a good executor (second part).  Not covered: a nested global
   as the command, u, !, @, w; several commands in one list (false: KF-GLOB-LOW). *)
Theorem C15_single_commands_track_low : forall dep rvalid rfind filter readfile curpath a loc cmd arg txt,
  In a track_cmds ->
  (forall s, (0 <= xrow s)%Z -> clean_below dep (S (Z.to_nat (xrow s))) (lns (lb s)) ->
     let s' := fst (ex_simple rvalid rfind filter readfile curpath a loc cmd arg txt s) in
     sub (mids dep (lns (lb s'))) (mids dep (lns (lb s))) /\
     clean_below dep (Z.to_nat (Z.min (xrow s) (xrow s'))) (lns (lb s'))) /\
  good_exec (fun _ s => ex_simple rvalid rfind filter readfile curpath a loc cmd arg txt s) dep.
Proof. exact single_commands_track_low. Qed.
Print Assumptions C15_single_commands_track_low.

(* completeness made concrete: a global whose command list is ONE command that never takes a line out of the buffer
   (a, i with any text, pu, r, s, p, k, y, =; any address) visits, when its scan ends normally, line beg and then EVERY
   line of the original range, each once, in order, and leaves no mark *)
Theorem C15_nondeleting_command_visits_all : forall dep rvalid rfind filter readfile curpath a loc cmd arg txt,
  In a keep_cmds -> (hd0 cmd =? 99)%N = false ->
  forall s b n pat body not fuel,
  nomarks dep (lns (lb s)) -> (b < length (lns (lb s)))%nat ->
  let M0 := map lid (firstn n (skipn (S b) (lns (lb s)))) in
  let first := lid (nth b (lns (lb s)) dline) in
  let '(s', vis', x) := glob_loop_x rfind (fun _ s => ex_simple rvalid rfind filter readfile curpath a loc cmd arg txt s)
                          fuel b pat body not dep (set_lb s (globset_range n (S b) dep (lb s))) [] in
  x = 0%N -> exists vs, map fst vis' = first :: vs /\ sub vs M0 /\ (forall m, In m M0 -> In m vs) /\ mids dep (lns (lb s')) = [].
Proof. exact nondeleting_global_visits_all. Qed.
Print Assumptions C15_nondeleting_command_visits_all.

(* COMPLETENESS IN THE PROPERTY'S WORDS ("each line of the original range that still exists is visited"), for an arbitrary
   executor that is good_exec and pres_exec (keeps identities unique, only grows nextid, drops a mark only together with
   its line, never brings an identity back): from a buffer with unique identities and no stale marks, when the scan ends
   normally every identity of the original range that is still in the buffer has been visited (and the visits are line beg
   + a subsequence of the range, no mark is left, identities are still unique) *)
Theorem C15_visits_every_remaining_line : forall dep rfind exec,
  good_exec exec dep -> pres_exec exec dep ->
  forall s b n pat body not fuel,
  uniq (lb s) -> nomarks dep (lns (lb s)) -> (b < length (lns (lb s)))%nat ->
  let M0 := map lid (firstn n (skipn (S b) (lns (lb s)))) in
  let first := lid (nth b (lns (lb s)) dline) in
  let '(s', vis', x) := glob_loop_x rfind exec fuel b pat body not dep (set_lb s (globset_range n (S b) dep (lb s))) [] in
  x = 0%N -> exists vs, map fst vis' = first :: vs /\ sub vs M0 /\ mids dep (lns (lb s')) = [] /\ uniq (lb s') /\
                        (forall m, In m M0 -> In m (map lid (lns (lb s'))) -> In m vs).
Proof. exact glob_present_from_marking. Qed.
Print Assumptions C15_visits_every_remaining_line.

(* ... and every single command of the list -- a i c d s pu r (p k y = rs ec null), any address, any text -- is such an
   executor; lbuf_replace is pres_lb for every splice; the initial buffer has unique identities *)
Theorem C15_single_commands_preserve_identities : forall dep rvalid rfind filter readfile curpath a loc cmd arg txt,
  In a track_cmds ->
  pres_exec (fun _ s => ex_simple rvalid rfind filter readfile curpath a loc cmd arg txt s) dep.
Proof. exact single_pres_exec. Qed.
Print Assumptions C15_single_commands_preserve_identities.

Theorem C15_replace_preserves_identities : forall dep s pos n_del l, pres_lb dep l (lbuf_replace s pos n_del l).
Proof. exact replace_pres. Qed.
Print Assumptions C15_replace_preserves_identities.

Theorem C15_initial_identities_unique : forall data, uniq (init_lbuf data).
Proof. exact uniq_init. Qed.
Print Assumptions C15_initial_identities_unique.

(* lbuf_replace: marks only travel with surviving lines, new lines are born unmarked (any splice, any text); a splice
   that puts in at least as many lines as it takes out drops no mark *)
Theorem C15_replace_marks : forall dep s pos n_del l,
  sub (mids dep (lns (lbuf_replace s pos n_del l))) (mids dep (lns l)) /\
  ((n_del <= length (match s with Some b => split_lines b | None => [] end))%nat ->
   mids dep (lns (lbuf_replace s pos n_del l)) = mids dep (lns l)).
Proof. exact (fun dep s pos n_del l => conj (replace_mids_sub dep s pos n_del l) (replace_mids_eq dep s pos n_del l)). Qed.
Print Assumptions C15_replace_marks.

(* the re-allocation branch of lbuf_replace (capacity 512, 1024, ...), at the level of the C array: the ln_glob
   entries in use are the same after the loop as before, whatever malloc returned, and the table does not shrink *)
Theorem C15_marks_survive_table_growth : forall junk fuel arr n need, (n <= length arr)%nat ->
  firstn n (glob_grow junk fuel arr n need) = firstn n arr /\ (length arr <= length (glob_grow junk fuel arr n need))%nat.
Proof. exact glob_grow_keeps. Qed.
Print Assumptions C15_marks_survive_table_growth.

(* the instrumented loops are the loop the model (and the extracted driver) runs *)
Theorem C15_trace_erasure : forall dep rfind exec pat body not fuel i s vis,
  fst (glob_loop_vis rfind exec fuel i pat body not dep s vis) = glob_loop rfind exec fuel i pat body not dep s /\
  fst (glob_loop_x rfind exec fuel i pat body not dep s vis) = glob_loop_vis rfind exec fuel i pat body not dep s vis.
Proof. exact trace_erasure. Qed.
Print Assumptions C15_trace_erasure.

(* termination: whatever the fuel, the loop makes at most 1 + |M0| visits (every iteration consumes one mark) *)
Theorem C15_terminates : forall dep rfind exec, good_exec exec dep ->
  forall M0 first pat body not fuel i s vis,
  ginv dep M0 first i (lns (lb s)) (map fst vis) ->
  (length (snd (glob_loop_vis rfind exec fuel i pat body not dep s vis)) <= Nat.max (length vis) (1 + length M0))%nat.
Proof. exact glob_iterations_bounded. Qed.
Print Assumptions C15_terminates.

(* one undo step: no command of a global's body bumps the undo sequence number (every simple command except the
   filter and write; nested globals, given the same of the executor), and every history entry an edit appends is
   stamped with the current sequence number -- so all edits of one global share one number and lbuf_undo's loop
   (C04) takes them back together.  ec_at (@) does bump: it is outside the property's command list. *)
Theorem C15_one_undo : forall rvalid rfind filter readfile curpath,
  (forall a loc cmd arg txt s, is a [33%N] = false -> is a [119%N] = false -> is a [119%N; 33%N] = false ->
     sq (fst (ex_simple rvalid rfind filter readfile curpath a loc cmd arg txt s)) = sq s) /\
  (forall exec, (forall ln s, sq (fst (exec ln s)) = sq s) ->
     forall fuel loc cmd arg s, sq (fst (ec_glob rvalid rfind exec fuel loc cmd arg s)) = sq s) /\
  (forall t b e l, lbuf_edit t b e l = l \/
     exists lo, hist (lbuf_edit t b e l) = firstn (hist_u l) (hist l) ++ [lo] /\ o_seq lo = useq l).
Proof. exact (fun rvalid rfind filter readfile curpath =>
  conj (simple_sq rvalid rfind filter readfile curpath) (conj (glob_sq rvalid rfind) lbuf_edit_stamp)). Qed.
Print Assumptions C15_one_undo.

(* the hypotheses are satisfiable: an executor that does nothing satisfies good_exec, and ginv holds at the start
   of a scan over three lines of which the last two are marked *)
Example C15_nonvacuous :
  nomarks 1%N [mkline 0 0%N []; mkline 1 0%N []; mkline 2 0%N []] /\
  keeps_exec (fun _ s => (s, 0%Z)) 1%N (fun _ => True) /\
  good_exec (fun _ s => (s, 0%Z)) 1%N /\
  ginv 1%N [1; 2]%nat 0%nat 0%nat [mkline 0 0%N []; mkline 1 2%N []; mkline 2 2%N []] [].
Proof.
  split; [repeat constructor|]. split; [intros body s s' r m E _ I; inversion E; subst; exact I|].
  split.
  - intros body s s' r E H0 Hc. inversion E; subst. split; [apply sub_refl|]. intros j Hj. apply Hc. Lia.lia.
  - split; [intros j Hj; assert (j = 0)%nat by Lia.lia; subst; reflexivity|].
    exists (@nil nat). split; [reflexivity|]. cbn. apply sub_refl.
Qed.

(* ------------------------------------------------------------------------------------------ *)
(* ANY COMMAND LIST AS THE EXECUTOR, AND THE STATE IN WHICH A GLOBAL STARTS (coq/GlobNest.v).
   C15_any_command_list_tracks: for ANY command line run by ex_exec -- several commands, nested globals (which mark and
   sweep at deeper depths), u, !, @, w -- from ANY state, and for every depth dep up to the nesting depth of that state (the
   depths of the enclosing globals; for the executor of a global these include its own depth): the nesting depth is
   restored, identities stay unique and nextid only grows, a mark of depth dep is dropped only together with its line, no
   identity returns (pres_lb), and no mark of depth dep appears (sub (mids') (mids)).  These are pres_exec and the first half
   of good_exec for every executor ex_exec f 0, restricted to the states in which a global runs its command list.
   The second half of good_exec (tracks_low: no still-marked line above min(i, xrow')) is FALSE for such lists -- KF-GLOB-LOW
   for several commands, and C15_undo_is_not_a_good_executor for the single command u -- so C15_visits is not instantiated
   for them. *)
Theorem C15_any_command_list_tracks : forall rvalid rfind filter readfile curpath fuel body s s' r dep,
  ex_exec rvalid rfind filter readfile curpath fuel 0 body s = (s', r) -> (dep <= xgdep s)%nat ->
  xgdep s' = xgdep s /\ pres_lb (N.of_nat dep) (lb s) (lb s') /\
  sub (mids (N.of_nat dep) (lns (lb s'))) (mids (N.of_nat dep) (lns (lb s))).
Proof. exact any_list_pres. Qed.
Print Assumptions C15_any_command_list_tracks.

Theorem C15_undo_is_not_a_good_executor : ~ good_exec (fun _ s => ec_undo s) 1%N.
Proof. exact undo_not_good_exec. Qed.
Print Assumptions C15_undo_is_not_a_good_executor.

(* EVERY GLOBAL STARTS CLEAN.  GI s = identities unique and below nextid, and no line carries a mark of any depth above
   the nesting depth of s.  It holds in the initial state, after every command line of any script (ex_main), and between
   the commands of a line (ex_exec from any GI state, any rest of a line) -- so whenever ec_glob starts at nesting depth d
   its buffer satisfies `uniq` and `nomarks (d+1)`, the two hypotheses of C15_visits_every_remaining_line / C15_visits. *)
Theorem C15_global_starts_clean : forall rvalid rfind filter readfile curpath,
  (forall data input wa, GI (init_st data input wa)) /\
  (forall fuel ret ln s, GI s -> GI (fst (ex_exec rvalid rfind filter readfile curpath fuel ret ln s))) /\
  (forall n fuel s, GI s -> GI (ex_main rvalid rfind filter readfile curpath n fuel s)) /\
  (forall s, GI s -> uniq (lb s) /\ nomarks (N.of_nat (S (xgdep s))) (lns (lb s))).
Proof. exact (fun rvalid rfind filter readfile curpath =>
  conj GI_init (conj (GI_ex_exec rvalid rfind filter readfile curpath) (conj (GI_ex_main rvalid rfind filter readfile curpath)
  (fun s H => conj (proj1 H) (proj2 H (S (xgdep s)) (le_n _)))))). Qed.
Print Assumptions C15_global_starts_clean.

(* the model's restart index is the repaired C expression i = MAX(0, MIN(i, xrow)) (/repo 5d2c325) *)
Theorem C15_restart_index_clamped : forall (i : nat) (x : Z),
  Z.to_nat (Z.min (Z.of_nat i) x) = Z.to_nat (Z.max 0 (Z.min (Z.of_nat i) x)).
Proof. exact restart_clamped. Qed.
Print Assumptions C15_restart_index_clamped.

(* ------------------------------------------------------------------------------------------ *)
(* THE MODEL IS THE C TEXT (coq/TrLbufGlob.v): lbuf_globset / lbuf_globget of /repo/lbuf.c, translated by tools/c2clite.py into
   CLite terms (coq/GenCFuncs.v, whitelist tools/c2clite.d/50_lbuf.list), RUN on a memory in which block bl is the struct lbuf
   (cell 65 = ln_glob points to block bg) and block bg is the char array ln_glob holding the bits of the model's lines
   (TrLbufGlob.glob_rep: cell i = the char (signed) whose byte is lgl of line i, lgl < 256; cells beyond the lines: anything).
   For every line pos of the buffer and every nesting depth 0..7 the call returns what ExDefs computes (N.testbit) and leaves
   the memory in which exactly cell pos of ln_glob is changed to the model's new bits (N.setbit / N.clearbit) -- no load or
   store outside a block, no overflow.  dep <= 7 CANNOT be dropped: the bit 1 << dep is computed in int and stored into a char. *)
From NV Require CLite CLiteProps GenCFuncs TrLbufBase TrLbufGlob.
Section C15_translated.
Import CLite CLiteProps GenCFuncs TrLbufBase TrLbufGlob.

Theorem C15_tr_lbuf_globset : forall m bl blk bg gblk (l : lbuf) pos x dep d fuel,
  nth_error m bl = Some blk -> nth_error blk L_ln_glob = Some (VPtr bg 0) -> glob_rep m bg gblk (lns l) ->
  nth_error (lns l) pos = Some x -> (dep <= 7)%N ->
  let gblk' := upd gblk pos (VInt (sb (N.setbit (lgl x) dep))) in
  callf cprog fuel (S d) F_lbuf_globset [VPtr bl 0; VInt (Z.of_nat pos); VInt (Z.of_N dep)] m = Ok (VUndef, upd m bg gblk')
  /\ glob_rep (upd m bg gblk') bg gblk' (lns (lbuf_globset l pos dep)).
Proof. exact tr_lbuf_globset. Qed.
Print Assumptions C15_tr_lbuf_globset.

Theorem C15_tr_lbuf_globget : forall m bl blk bg gblk (l : lbuf) pos x dep d fuel,
  nth_error m bl = Some blk -> nth_error blk L_ln_glob = Some (VPtr bg 0) -> glob_rep m bg gblk (lns l) ->
  nth_error (lns l) pos = Some x -> (dep <= 7)%N ->
  let gblk' := upd gblk pos (VInt (sb (N.clearbit (lgl x) dep))) in
  callf cprog fuel (S d) F_lbuf_globget [VPtr bl 0; VInt (Z.of_nat pos); VInt (Z.of_N dep)] m
    = Ok (VInt (b2z (snd (lbuf_globget l pos dep))), upd m bg gblk')
  /\ glob_rep (upd m bg gblk') bg gblk' (lns (fst (lbuf_globget l pos dep))).
Proof. exact tr_lbuf_globget. Qed.
Print Assumptions C15_tr_lbuf_globget.

(* WHAT THE C TEXT DOES AT NESTING DEPTH 8..30 (found while proving the two theorems above; the model has no such limit):
   lbuf_globset stores NOTHING (the mark is lost: a global nested 8 deep visits only its first line), and lbuf_globget
   answers with the DEPTH-7 mark of the line (a char with bit 7 set is negative and sign-extends into every higher bit)
   and clears nothing -- so in ec_glob `while (i < lbuf_len(xb) && !lbuf_globget(xb, i, xgdep)) i++` stops at the same line
   for ever when the enclosing depth-7 global has marked it: `g/a/g/a/g/a/g/a/g/a/g/a/%g/a/%g/a/p` on a four-line file of
   a's does not terminate (observed on the real editor).  At depth 31 and above 1 << dep is undefined behaviour. *)
Theorem C15_tr_lbuf_globset_depth8_lost : forall m bl blk bg gblk (l : lbuf) pos x dep d fuel,
  nth_error m bl = Some blk -> nth_error blk L_ln_glob = Some (VPtr bg 0) -> glob_rep m bg gblk (lns l) ->
  nth_error (lns l) pos = Some x -> (8 <= dep <= 30)%N ->
  callf cprog fuel (S d) F_lbuf_globset [VPtr bl 0; VInt (Z.of_nat pos); VInt (Z.of_N dep)] m = Ok (VUndef, m).
Proof. exact tr_lbuf_globset_lost. Qed.
Print Assumptions C15_tr_lbuf_globset_depth8_lost.

Theorem C15_tr_lbuf_globget_depth8_reads_depth7 : forall m bl blk bg gblk (l : lbuf) pos x dep d fuel,
  nth_error m bl = Some blk -> nth_error blk L_ln_glob = Some (VPtr bg 0) -> glob_rep m bg gblk (lns l) ->
  nth_error (lns l) pos = Some x -> (8 <= dep <= 30)%N ->
  callf cprog fuel (S d) F_lbuf_globget [VPtr bl 0; VInt (Z.of_nat pos); VInt (Z.of_N dep)] m
    = Ok (VInt (b2z (glob_marked 7 x)), m).
Proof. exact tr_lbuf_globget_high. Qed.
Print Assumptions C15_tr_lbuf_globget_depth8_reads_depth7.

Theorem C15_tr_lbuf_globset_depth31_undefined : forall m bl blk bg gblk (l : lbuf) pos x dep d fuel,
  nth_error m bl = Some blk -> nth_error blk L_ln_glob = Some (VPtr bg 0) -> glob_rep m bg gblk (lns l) ->
  nth_error (lns l) pos = Some x -> (31 <= dep)%N ->
  callf cprog fuel (S d) F_lbuf_globset [VPtr bl 0; VInt (Z.of_nat pos); VInt (Z.of_N dep)] m = Err EOverflow.
Proof. exact tr_lbuf_globset_overflow. Qed.
Print Assumptions C15_tr_lbuf_globset_depth31_undefined.

(* not vacuous, and the translated functions RUN: a three-line buffer whose lines carry the bits 0, 2 (depth 1), 128 (depth 7);
   the struct in block 12, ln_glob (capacity 4) in block 13.  globset(1, 2) stores 6 into cell 1;
   globget(1, 1) returns 1 and stores 0; globget(2, 7) returns 1 on the negative char and stores 0; globget(0, 1) returns 0;
   at depth 8 globset changes nothing and globget reports the depth-7 mark of line 2 without clearing it *)
Example C15_tr_nonvacuous :
  let l0 := mklb [mkline 0 0 [97]; mkline 1 2 [98]; mkline 2 128 [99]]%N [] [] 0 1 0 0 3 in
  let blk0 := repeat (VInt (-1)) 32 ++ repeat (VInt 0) 32 ++
              [VInt 0; VPtr 13 0; VInt 3; VInt 4; VInt 1; VInt 0; VInt 0; VInt 0; VInt 0; VInt 0; VInt 0] in
  let g0 := [VInt 0; VInt 2; VInt (-128); VInt 77] in
  let m0 := repeat [] 12 ++ [blk0; g0] in
  let run f (pos dep : Z) m := callf cprog 1 2 f [VPtr 12 0; VInt pos; VInt dep] m in
  glob_rep m0 13 g0 (lns l0) /\
  run F_lbuf_globset 1%Z 2%Z m0 = Ok (VUndef, upd m0 13 [VInt 0; VInt 6; VInt (-128); VInt 77]) /\
  lgl (nth 1 (lns (lbuf_globset l0 1 2)) dline) = 6%N /\
  run F_lbuf_globget 1%Z 1%Z m0 = Ok (VInt 1, upd m0 13 [VInt 0; VInt 0; VInt (-128); VInt 77]) /\
  run F_lbuf_globget 2%Z 7%Z m0 = Ok (VInt 1, upd m0 13 [VInt 0; VInt 2; VInt 0; VInt 77]) /\
  run F_lbuf_globget 0%Z 1%Z m0 = Ok (VInt 0, upd m0 13 g0) /\
  run F_lbuf_globset 0%Z 8%Z m0 = Ok (VUndef, upd m0 13 g0) /\ upd m0 13 g0 = m0 /\
  run F_lbuf_globget 2%Z 8%Z m0 = Ok (VInt 1, upd m0 13 g0) /\
  run F_lbuf_globget 5%Z 1%Z m0 = Err EOob.
Proof.
  cbv zeta. split.
  { split; [reflexivity|]. intros [|[|[|i]]] y Hy; cbn in Hy; [inversion Hy; subst; split; reflexivity ..|destruct i; discriminate]. }
  vm_compute. repeat split.
Qed.
End C15_translated.

(* ------------------------------------------------------------------------------------------ *)
(* THE NESTING LIMIT (/repo daf82c9: `if (xgdep >= 7) { ex_show("global nesting too deep"); return 1; }` at the top of ec_glob;
   ExDefs.ec_glob has the same guard).  coq/GlobDepthDefs.v instruments the interpreter (glob_loop, ec_glob, ec_at, ex_exec,
   ex_main) with the trace of the depths it hands to lbuf_globset / lbuf_globget -- one entry for the marking loop, one per scan
   `while (... !lbuf_globget(xb, i, xgdep))`, one for the final sweep of every global, nested ones included. *)
From NV Require Import GenConsts GlobDepthDefs GlobDepth.

(* the instrumented interpreter computes exactly what ExDefs computes *)
Theorem C15_depth_trace_erasure : forall rvalid rfind filter readfile curpath,
  (forall fuel ret ln s, fst (ex_exec_d rvalid rfind filter readfile curpath fuel ret ln s)
                         = ex_exec rvalid rfind filter readfile curpath fuel ret ln s) /\
  (forall n fuel s, fst (ex_main_d rvalid rfind filter readfile curpath n fuel s)
                    = ex_main rvalid rfind filter readfile curpath n fuel s).
Proof. exact (fun rvalid rfind filter readfile curpath =>
  conj (ex_exec_d_erase rvalid rfind filter readfile curpath) (ex_main_d_erase rvalid rfind filter readfile curpath)). Qed.
Print Assumptions C15_depth_trace_erasure.

(* EVERY DEPTH HANDED TO lbuf_globset / lbuf_globget IS ONE OF 1..7: for any script (ex_main) and any command line with any
   rest (ex_exec), from ANY state -- in particular from every state reachable from one with xgdep = 0; the guard is tested
   where the depth is computed, so no invariant of the reachable states is needed.  1 << dep therefore fits the char of
   ln_glob[] in every call (the hypothesis `dep <= 7` of C15_tr_lbuf_globset / C15_tr_lbuf_globget). *)
Theorem C15_mark_depths_between_1_and_7 : forall rvalid rfind filter readfile curpath,
  (forall n fuel s, Forall (fun d => (1 <= d <= 7)%N) (snd (ex_main_d rvalid rfind filter readfile curpath n fuel s))) /\
  (forall fuel ret ln s, Forall (fun d => (1 <= d <= 7)%N) (snd (ex_exec_d rvalid rfind filter readfile curpath fuel ret ln s))).
Proof. exact (fun rvalid rfind filter readfile curpath =>
  conj (ex_main_d_ok rvalid rfind filter readfile curpath) (ex_exec_d_ok rvalid rfind filter readfile curpath)). Qed.
Print Assumptions C15_mark_depths_between_1_and_7.

(* A GLOBAL AT LEVEL 8 FAILS WITHOUT TOUCHING LINES OR MARKS: started inside seven enclosing globals (xgdep >= 7) it returns 1
   and the state is the old one plus the message -- whatever the address, the pattern, the command list and the executor *)
Theorem C15_global_at_level_8_refused : forall rvalid rfind exec fuel loc cmd arg s, (7 <= xgdep s)%nat ->
  ec_glob rvalid rfind exec fuel loc cmd arg s = (emit s (OMsg M_GDEEP), 1%Z) /\
  lb (emit s (OMsg M_GDEEP)) = lb s /\ xrow (emit s (OMsg M_GDEEP)) = xrow s /\ xgdep (emit s (OMsg M_GDEEP)) = xgdep s.
Proof. exact (fun rvalid rfind exec fuel loc cmd arg s H =>
  conj (glob_too_deep rvalid rfind exec fuel loc cmd arg s H) (conj eq_refl (conj eq_refl eq_refl))). Qed.
Print Assumptions C15_global_at_level_8_refused.

(* the model's limit is the constant of the C text (GenConsts.GLOB_DEPMAX is regenerated from ec_glob of /repo/ex.c on every run;
   a tree without the guard yields 2^30 and this proof fails) *)
Theorem C15_nesting_limit_is_the_C_constant : Z.of_nat GDEPMAX = GLOB_DEPMAX.
Proof. exact gdepmax_is_c. Qed.
Print Assumptions C15_nesting_limit_is_the_C_constant.

(* the two inputs that found the defect, on the model (pattern a on a1..a4; k = 7 / 8 times `g/a/` in front of `%g/a/p` = 8 / 9
   levels): the script ends at the end of its input (no fuel exhaustion), the four depth-7 executions are refused with the
   message, p never runs, lines and marks are those of the file just read, the deepest depth used is 7; with 7 levels p runs
   16 times *)
Example C15_nesting_nonvacuous : forall k, k = 7%nat \/ k = 8%nat ->
  out (fst (deep_run k)) = repeat (OMsg M_GDEEP) 4 /\ flags (fst (deep_run k)) = F_EOF /\
  lns (lb (fst (deep_run k))) = lns (init_lbuf [97;49;10;97;50;10;97;51;10;97;52;10]%N) /\
  fold_right N.max 0%N (snd (deep_run k)) = 7%N /\
  length (List.filter is_line (out (fst (deep_run 6)))) = 16%nat.
Proof. exact deep_example. Qed.

(* ... so the translation theorems apply to every call the interpreter makes: for every depth of the trace of any script from
   any state, lbuf_globset / lbuf_globget of /repo/lbuf.c (CLite translation) compute what the model computes *)
From NV Require GlobDepthTr.
Section C15_translated_depths.
Import CLite CLiteProps GenCFuncs TrLbufBase TrLbufGlob GlobDepthTr.
Theorem C15_mark_depths_meet_translation_hypothesis : forall rvalid rfind filter readfile curpath n fuel s dep,
  In dep (snd (ex_main_d rvalid rfind filter readfile curpath n fuel s)) ->
  forall m bl blk bg gblk (l : ExDefs.lbuf) pos x d cf,
  nth_error m bl = Some blk -> nth_error blk L_ln_glob = Some (VPtr bg 0) -> glob_rep m bg gblk (ExDefs.lns l) ->
  nth_error (ExDefs.lns l) pos = Some x ->
  (let gblk' := upd gblk pos (VInt (sb (N.setbit (ExDefs.lgl x) dep))) in
   callf cprog cf (S d) F_lbuf_globset [VPtr bl 0; VInt (Z.of_nat pos); VInt (Z.of_N dep)] m = Ok (VUndef, upd m bg gblk')
   /\ glob_rep (upd m bg gblk') bg gblk' (ExDefs.lns (ExDefs.lbuf_globset l pos dep))) /\
  (let gblk' := upd gblk pos (VInt (sb (N.clearbit (ExDefs.lgl x) dep))) in
   callf cprog cf (S d) F_lbuf_globget [VPtr bl 0; VInt (Z.of_nat pos); VInt (Z.of_N dep)] m
     = Ok (VInt (b2z (snd (ExDefs.lbuf_globget l pos dep))), upd m bg gblk')
   /\ glob_rep (upd m bg gblk') bg gblk' (ExDefs.lns (fst (ExDefs.lbuf_globget l pos dep)))).
Proof. exact depths_translated. Qed.
Print Assumptions C15_mark_depths_meet_translation_hypothesis.
End C15_translated_depths.
