(* Properties_C15.v -- C15: the global command runs its command list once per matching line, undone as one step.
   Statements only; every proof is `exact <lemma>`.  Model: ec_glob / glob_loop / glob_scan of ExDefs.v over
   the line buffer whose ln_glob bits (and ghost identities) travel with the lines in lbuf_replace. *)
From Coq Require Import List NArith ZArith Bool.
From NV Require Import Bytes ExDefs ExSpec ExProps GlobDefs GlobProps GlobTrack GlobUniq GlobNest.
Import ListNotations.

(* THE VISIT THEOREM.  ec_glob, after resolving its range [b, b+n+1) and compiling the pattern, runs
     for (i = beg + 1; i < end; i++) lbuf_globset(xb, i, xgdep);     = globset_range n (S b)
     i = beg; while (i < lbuf_len(xb)) { ... }                        = glob_loop (= glob_loop_x without trace and exit kind)
   For an arbitrary command-list executor that is good_exec (marks only travel with surviving lines + tracks_low) and
   never drops the mark of an identity satisfying `keeps`, from any buffer without stale marks of this depth:
   * the identities visited are the line b first, followed by a SUBSEQUENCE of the identities of rows b+1..b+n of the
     original buffer (M0) -- so each original-range line is visited at most once (identities are distinct), in
     increasing original order, never a line outside the range and never a line an execution created; the trace
     records per visit whether the command list ran: by construction of the loop exactly when (no match) = not,
     evaluated on the line's text at the time of the visit;
   * when the scan ends normally (x = 0: not by a failing command list, not by fuel) no mark is left and every
     original-range identity whose mark no execution dropped has been visited (completeness).
   In the model a mark is dropped only by lbuf_replace removing (or over-replacing) its line: replace_mids_sub/mknew.
   The concrete forms are below: C15_visits_every_remaining_line (completeness with "still in the buffer"),
   C15_single_commands_track_low / _preserve_identities (every single command of the list is such an executor).
   WHAT IS NOT PROVED: good_exec for a nested global, u, !, @ as the command; good_exec for command lists of SEVERAL
   commands is false in general (KF-GLOB-LOW, refuted by the corpus case). *)
Theorem C15_visits : forall dep rfind exec keeps,
  good_exec exec dep -> keeps_exec exec dep keeps ->
  forall s b n pat body not fuel,
  nomarks dep (lns (lb s)) -> (b < length (lns (lb s)))%nat ->
  let M0 := map lid (firstn n (skipn (S b) (lns (lb s)))) in
  let first := lid (nth b (lns (lb s)) dline) in
  let '(s', vis', x) := glob_loop_x rfind exec fuel b pat body not dep (set_lb s (globset_range n (S b) dep (lb s))) [] in
  ((exists vs, map fst vis' = first :: vs /\ sub vs M0) \/ vis' = []) /\
  (x = 0%N -> exists vs, map fst vis' = first :: vs /\ sub vs M0 /\ mids dep (lns (lb s')) = [] /\
                         (forall m, In m M0 -> keeps m -> In m vs)).
Proof. exact glob_visits_from_marking. Qed.
Print Assumptions C15_visits.

(* the loop-level statement (from any state satisfying the loop invariant), kept from the first version *)
Theorem C15_visits_loop : forall dep rfind exec, good_exec exec dep ->
  forall M0 first pat body not fuel i s vis,
  ginv dep M0 first i (lns (lb s)) (map fst vis) ->
  let '(s', vis') := glob_loop_vis rfind exec fuel i pat body not dep s vis in
  (exists vs, map fst vis' = first :: vs /\ sub vs M0) \/ vis' = vis.
Proof. exact glob_visits. Qed.
Print Assumptions C15_visits_loop.

(* ec_glob's marking loop establishes the loop invariant with M0 = the identities of rows b+1 .. b+n *)
Theorem C15_marking_establishes_invariant : forall dep l b n, nomarks dep (lns l) ->
  ginv dep (map lid (firstn n (skipn (S b) (lns l)))) (lid (nth b (lns l) dline)) b (lns (globset_range n (S b) dep l)) [].
Proof. exact marking_ginv_lbuf. Qed.
Print Assumptions C15_marking_establishes_invariant.

(* the final sweep of ec_glob leaves no mark of its depth anywhere in the buffer, whatever state the loop ended in
   (also after a failed command list, also when executions moved marked lines past the old end of the range): the
   next global of the same depth starts from `nomarks`; and no edit ever creates a mark (sub), so `nomarks` lasts *)
Theorem C15_sweep_clears_all_marks : forall dep l, nomarks dep (lns (globclear (length (lns l)) 0 dep l)).
Proof. exact sweep_nomarks. Qed.
Print Assumptions C15_sweep_clears_all_marks.

(* tracks_low + "marks only travel with surviving lines" for every single command of the property's list that does
   not run other commands: a i c (with any text), d, s, pu, r, and p k y = rs ec and the null command, with ANY address
   (absolute, relative, `;`).  Hence such a command is a good executor (second part).  Not covered: a nested global
   as the command, u, !, @, w; several commands in one list (false: KF-GLOB-LOW). *)
Theorem C15_single_commands_track_low : forall dep rvalid rfind filter readfile curpath a loc cmd arg txt,
  In a track_cmds ->
  (forall s, (0 <= xrow s)%Z -> clean_below dep (S (Z.to_nat (xrow s))) (lns (lb s)) ->
     let s' := fst (ex_simple rvalid rfind filter readfile curpath a loc cmd arg txt s) in
     sub (mids dep (lns (lb s'))) (mids dep (lns (lb s))) /\
     clean_below dep (Z.to_nat (Z.min (xrow s) (xrow s'))) (lns (lb s'))) /\
  good_exec (fun _ s => ex_simple rvalid rfind filter readfile curpath a loc cmd arg txt s) dep.
Proof. exact single_commands_track_low. Qed.
Print Assumptions C15_single_commands_track_low.

(* completeness made concrete: a global whose command list is ONE command that never takes a line out of the buffer
   (a, i with any text, pu, r, s, p, k, y, =; any address) visits, when its scan ends normally, line beg and then EVERY
   line of the original range, each once, in order, and leaves no mark *)
Theorem C15_nondeleting_command_visits_all : forall dep rvalid rfind filter readfile curpath a loc cmd arg txt,
  In a keep_cmds -> (hd0 cmd =? 99)%N = false ->
  forall s b n pat body not fuel,
  nomarks dep (lns (lb s)) -> (b < length (lns (lb s)))%nat ->
  let M0 := map lid (firstn n (skipn (S b) (lns (lb s)))) in
  let first := lid (nth b (lns (lb s)) dline) in
  let '(s', vis', x) := glob_loop_x rfind (fun _ s => ex_simple rvalid rfind filter readfile curpath a loc cmd arg txt s)
                          fuel b pat body not dep (set_lb s (globset_range n (S b) dep (lb s))) [] in
  x = 0%N -> exists vs, map fst vis' = first :: vs /\ sub vs M0 /\ (forall m, In m M0 -> In m vs) /\ mids dep (lns (lb s')) = [].
Proof. exact nondeleting_global_visits_all. Qed.
Print Assumptions C15_nondeleting_command_visits_all.

(* COMPLETENESS IN THE PROPERTY'S WORDS ("each line of the original range that still exists is visited"), for an arbitrary
   executor that is good_exec and pres_exec (keeps identities unique, only grows nextid, drops a mark only together with
   its line, never brings an identity back): from a buffer with unique identities and no stale marks, when the scan ends
   normally every identity of the original range that is still in the buffer has been visited (and the visits are line beg
   + a subsequence of the range, no mark is left, identities are still unique) *)
Theorem C15_visits_every_remaining_line : forall dep rfind exec,
  good_exec exec dep -> pres_exec exec dep ->
  forall s b n pat body not fuel,
  uniq (lb s) -> nomarks dep (lns (lb s)) -> (b < length (lns (lb s)))%nat ->
  let M0 := map lid (firstn n (skipn (S b) (lns (lb s)))) in
  let first := lid (nth b (lns (lb s)) dline) in
  let '(s', vis', x) := glob_loop_x rfind exec fuel b pat body not dep (set_lb s (globset_range n (S b) dep (lb s))) [] in
  x = 0%N -> exists vs, map fst vis' = first :: vs /\ sub vs M0 /\ mids dep (lns (lb s')) = [] /\ uniq (lb s') /\
                        (forall m, In m M0 -> In m (map lid (lns (lb s'))) -> In m vs).
Proof. exact glob_present_from_marking. Qed.
Print Assumptions C15_visits_every_remaining_line.

(* ... and every single command of the list -- a i c d s pu r (p k y = rs ec null), any address, any text -- is such an
   executor; lbuf_replace is pres_lb for every splice; the initial buffer has unique identities *)
Theorem C15_single_commands_preserve_identities : forall dep rvalid rfind filter readfile curpath a loc cmd arg txt,
  In a track_cmds ->
  pres_exec (fun _ s => ex_simple rvalid rfind filter readfile curpath a loc cmd arg txt s) dep.
Proof. exact single_pres_exec. Qed.
Print Assumptions C15_single_commands_preserve_identities.

Theorem C15_replace_preserves_identities : forall dep s pos n_del l, pres_lb dep l (lbuf_replace s pos n_del l).
Proof. exact replace_pres. Qed.
Print Assumptions C15_replace_preserves_identities.

Theorem C15_initial_identities_unique : forall data, uniq (init_lbuf data).
Proof. exact uniq_init. Qed.
Print Assumptions C15_initial_identities_unique.

(* lbuf_replace: marks only travel with surviving lines, new lines are born unmarked (any splice, any text); a splice
   that puts in at least as many lines as it takes out drops no mark *)
Theorem C15_replace_marks : forall dep s pos n_del l,
  sub (mids dep (lns (lbuf_replace s pos n_del l))) (mids dep (lns l)) /\
  ((n_del <= length (match s with Some b => split_lines b | None => [] end))%nat ->
   mids dep (lns (lbuf_replace s pos n_del l)) = mids dep (lns l)).
Proof. exact (fun dep s pos n_del l => conj (replace_mids_sub dep s pos n_del l) (replace_mids_eq dep s pos n_del l)). Qed.
Print Assumptions C15_replace_marks.

(* the re-allocation branch of lbuf_replace (capacity 512, 1024, ...), at the level of the C array: the ln_glob
   entries in use are the same after the loop as before, whatever malloc returned, and the table does not shrink *)
Theorem C15_marks_survive_table_growth : forall junk fuel arr n need, (n <= length arr)%nat ->
  firstn n (glob_grow junk fuel arr n need) = firstn n arr /\ (length arr <= length (glob_grow junk fuel arr n need))%nat.
Proof. exact glob_grow_keeps. Qed.
Print Assumptions C15_marks_survive_table_growth.

(* the instrumented loops are the loop the model (and the extracted driver) runs *)
Theorem C15_trace_erasure : forall dep rfind exec pat body not fuel i s vis,
  fst (glob_loop_vis rfind exec fuel i pat body not dep s vis) = glob_loop rfind exec fuel i pat body not dep s /\
  fst (glob_loop_x rfind exec fuel i pat body not dep s vis) = glob_loop_vis rfind exec fuel i pat body not dep s vis.
Proof. exact trace_erasure. Qed.
Print Assumptions C15_trace_erasure.

(* termination: whatever the fuel, the loop makes at most 1 + |M0| visits (every iteration consumes one mark) *)
Theorem C15_terminates : forall dep rfind exec, good_exec exec dep ->
  forall M0 first pat body not fuel i s vis,
  ginv dep M0 first i (lns (lb s)) (map fst vis) ->
  (length (snd (glob_loop_vis rfind exec fuel i pat body not dep s vis)) <= Nat.max (length vis) (1 + length M0))%nat.
Proof. exact glob_iterations_bounded. Qed.
Print Assumptions C15_terminates.

(* one undo step: no command of a global's body bumps the undo sequence number (every simple command except the
   filter and write; nested globals, given the same of the executor), and every history entry an edit appends is
   stamped with the current sequence number -- so all edits of one global share one number and lbuf_undo's loop
   (C04) takes them back together.  ec_at (@) does bump: it is outside the property's command list. *)
Theorem C15_one_undo : forall rvalid rfind filter readfile curpath,
  (forall a loc cmd arg txt s, is a [33%N] = false -> is a [119%N] = false -> is a [119%N; 33%N] = false ->
     sq (fst (ex_simple rvalid rfind filter readfile curpath a loc cmd arg txt s)) = sq s) /\
  (forall exec, (forall ln s, sq (fst (exec ln s)) = sq s) ->
     forall fuel loc cmd arg s, sq (fst (ec_glob rvalid rfind exec fuel loc cmd arg s)) = sq s) /\
  (forall t b e l, lbuf_edit t b e l = l \/
     exists lo, hist (lbuf_edit t b e l) = firstn (hist_u l) (hist l) ++ [lo] /\ o_seq lo = useq l).
Proof. exact (fun rvalid rfind filter readfile curpath =>
  conj (simple_sq rvalid rfind filter readfile curpath) (conj (glob_sq rvalid rfind) lbuf_edit_stamp)). Qed.
Print Assumptions C15_one_undo.

(* the hypotheses are satisfiable: an executor that does nothing satisfies good_exec, and ginv holds at the start
   of a scan over three lines of which the last two are marked *)
Example C15_nonvacuous :
  nomarks 1%N [mkline 0 0%N []; mkline 1 0%N []; mkline 2 0%N []] /\
  keeps_exec (fun _ s => (s, 0%Z)) 1%N (fun _ => True) /\
  good_exec (fun _ s => (s, 0%Z)) 1%N /\
  ginv 1%N [1; 2]%nat 0%nat 0%nat [mkline 0 0%N []; mkline 1 2%N []; mkline 2 2%N []] [].
Proof.
  split; [repeat constructor|]. split; [intros body s s' r m E _ I; inversion E; subst; exact I|].
  split.
  - intros body s s' r E H0 Hc. inversion E; subst. split; [apply sub_refl|]. intros j Hj. apply Hc. Lia.lia.
  - split; [intros j Hj; assert (j = 0)%nat by Lia.lia; subst; reflexivity|].
    exists (@nil nat). split; [reflexivity|]. cbn. apply sub_refl.
Qed.

(* ------------------------------------------------------------------------------------------ *)
(* ANY COMMAND LIST AS THE EXECUTOR, AND THE STATE IN WHICH A GLOBAL STARTS (coq/GlobNest.v).
   C15_any_command_list_tracks: for ANY command line run by ex_exec -- several commands, nested globals (which mark and
   sweep at deeper depths), u, !, @, w -- from ANY state, and for every depth dep up to the nesting depth of that state (the
   depths of the enclosing globals; for the executor of a global these include its own depth): the nesting depth is
   restored, identities stay unique and nextid only grows, a mark of depth dep is dropped only together with its line, no
   identity returns (pres_lb), and no mark of depth dep appears (sub (mids') (mids)).  These are pres_exec and the first half
   of good_exec for every executor ex_exec f 0, restricted to the states in which a global runs its command list.
   The second half of good_exec (tracks_low: no still-marked line above min(i, xrow')) is FALSE for such lists -- KF-GLOB-LOW
   for several commands, and C15_undo_is_not_a_good_executor for the single command u -- so C15_visits is not instantiated
   for them. *)
Theorem C15_any_command_list_tracks : forall rvalid rfind filter readfile curpath fuel body s s' r dep,
  ex_exec rvalid rfind filter readfile curpath fuel 0 body s = (s', r) -> (dep <= xgdep s)%nat ->
  xgdep s' = xgdep s /\ pres_lb (N.of_nat dep) (lb s) (lb s') /\
  sub (mids (N.of_nat dep) (lns (lb s'))) (mids (N.of_nat dep) (lns (lb s))).
Proof. exact any_list_pres. Qed.
Print Assumptions C15_any_command_list_tracks.

Theorem C15_undo_is_not_a_good_executor : ~ good_exec (fun _ s => ec_undo s) 1%N.
Proof. exact undo_not_good_exec. Qed.
Print Assumptions C15_undo_is_not_a_good_executor.

(* EVERY GLOBAL STARTS CLEAN.  GI s = identities unique and below nextid, and no line carries a mark of any depth above
   the nesting depth of s.  It holds in the initial state, after every command line of any script (ex_main), and between
   the commands of a line (ex_exec from any GI state, any rest of a line) -- so whenever ec_glob starts at nesting depth d
   its buffer satisfies `uniq` and `nomarks (d+1)`, the two hypotheses of C15_visits_every_remaining_line / C15_visits. *)
Theorem C15_global_starts_clean : forall rvalid rfind filter readfile curpath,
  (forall data input wa, GI (init_st data input wa)) /\
  (forall fuel ret ln s, GI s -> GI (fst (ex_exec rvalid rfind filter readfile curpath fuel ret ln s))) /\
  (forall n fuel s, GI s -> GI (ex_main rvalid rfind filter readfile curpath n fuel s)) /\
  (forall s, GI s -> uniq (lb s) /\ nomarks (N.of_nat (S (xgdep s))) (lns (lb s))).
Proof. exact (fun rvalid rfind filter readfile curpath =>
  conj GI_init (conj (GI_ex_exec rvalid rfind filter readfile curpath) (conj (GI_ex_main rvalid rfind filter readfile curpath)
  (fun s H => conj (proj1 H) (proj2 H (S (xgdep s)) (le_n _)))))). Qed.
Print Assumptions C15_global_starts_clean.

(* the model's restart index is the repaired C expression i = MAX(0, MIN(i, xrow)) (/repo 5d2c325) *)
Theorem C15_restart_index_clamped : forall (i : nat) (x : Z),
  Z.to_nat (Z.min (Z.of_nat i) x) = Z.to_nat (Z.max 0 (Z.min (Z.of_nat i) x)).
Proof. exact restart_clamped. Qed.
Print Assumptions C15_restart_index_clamped.

(* ------------------------------------------------------------------------------------------ *)
(* THE MODEL IS THE C TEXT (coq/TrLbufGlob.v): lbuf_globset / lbuf_globget of /repo/lbuf.c, translated by tools/c2clite.py into
   CLite terms (coq/GenCFuncs.v, whitelist tools/c2clite.d/50_lbuf.list), RUN on a memory in which block bl is the struct lbuf
   (cell 65 = ln_glob points to block bg) and block bg is the char array ln_glob holding the bits of the model's lines
   (TrLbufGlob.glob_rep: cell i = the char (signed) whose byte is lgl of line i, lgl < 256; cells beyond the lines: anything).
   For every line pos of the buffer and every nesting depth 0..7 the call returns what ExDefs computes (N.testbit) and leaves
   the memory in which exactly cell pos of ln_glob is changed to the model's new bits (N.setbit / N.clearbit) -- no load or
   store outside a block, no overflow.  dep <= 7 CANNOT be dropped: the bit 1 << dep is computed in int and stored into a char. *)
From NV Require CLite CLiteProps GenCFuncs TrLbufBase TrLbufGlob.
Section C15_translated.
Import CLite CLiteProps GenCFuncs TrLbufBase TrLbufGlob.

Theorem C15_tr_lbuf_globset : forall m bl blk bg gblk (l : lbuf) pos x dep d fuel,
  nth_error m bl = Some blk -> nth_error blk L_ln_glob = Some (VPtr bg 0) -> glob_rep m bg gblk (lns l) ->
  nth_error (lns l) pos = Some x -> (dep <= 7)%N ->
  let gblk' := upd gblk pos (VInt (sb (N.setbit (lgl x) dep))) in
  callf cprog fuel (S d) F_lbuf_globset [VPtr bl 0; VInt (Z.of_nat pos); VInt (Z.of_N dep)] m = Ok (VUndef, upd m bg gblk')
  /\ glob_rep (upd m bg gblk') bg gblk' (lns (lbuf_globset l pos dep)).
Proof. exact tr_lbuf_globset. Qed.
Print Assumptions C15_tr_lbuf_globset.

Theorem C15_tr_lbuf_globget : forall m bl blk bg gblk (l : lbuf) pos x dep d fuel,
  nth_error m bl = Some blk -> nth_error blk L_ln_glob = Some (VPtr bg 0) -> glob_rep m bg gblk (lns l) ->
  nth_error (lns l) pos = Some x -> (dep <= 7)%N ->
  let gblk' := upd gblk pos (VInt (sb (N.clearbit (lgl x) dep))) in
  callf cprog fuel (S d) F_lbuf_globget [VPtr bl 0; VInt (Z.of_nat pos); VInt (Z.of_N dep)] m
    = Ok (VInt (b2z (snd (lbuf_globget l pos dep))), upd m bg gblk')
  /\ glob_rep (upd m bg gblk') bg gblk' (lns (fst (lbuf_globget l pos dep))).
Proof. exact tr_lbuf_globget. Qed.
Print Assumptions C15_tr_lbuf_globget.

(* WHAT THE C TEXT DOES AT NESTING DEPTH 8..30 (found while proving the two theorems above; the model has no such limit):
   lbuf_globset stores NOTHING (the mark is lost: a global nested 8 deep visits only its first line), and lbuf_globget
   answers with the DEPTH-7 mark of the line (a char with bit 7 set is negative and sign-extends into every higher bit)
   and clears nothing -- so in ec_glob `while (i < lbuf_len(xb) && !lbuf_globget(xb, i, xgdep)) i++` stops at the same line
   for ever when the enclosing depth-7 global has marked it: `g/a/g/a/g/a/g/a/g/a/g/a/%g/a/%g/a/p` on a four-line file of
   a's does not terminate (observed on the real editor).  At depth 31 and above 1 << dep is undefined behaviour. *)
Theorem C15_tr_lbuf_globset_depth8_lost : forall m bl blk bg gblk (l : lbuf) pos x dep d fuel,
  nth_error m bl = Some blk -> nth_error blk L_ln_glob = Some (VPtr bg 0) -> glob_rep m bg gblk (lns l) ->
  nth_error (lns l) pos = Some x -> (8 <= dep <= 30)%N ->
  callf cprog fuel (S d) F_lbuf_globset [VPtr bl 0; VInt (Z.of_nat pos); VInt (Z.of_N dep)] m = Ok (VUndef, m).
Proof. exact tr_lbuf_globset_lost. Qed.
Print Assumptions C15_tr_lbuf_globset_depth8_lost.

Theorem C15_tr_lbuf_globget_depth8_reads_depth7 : forall m bl blk bg gblk (l : lbuf) pos x dep d fuel,
  nth_error m bl = Some blk -> nth_error blk L_ln_glob = Some (VPtr bg 0) -> glob_rep m bg gblk (lns l) ->
  nth_error (lns l) pos = Some x -> (8 <= dep <= 30)%N ->
  callf cprog fuel (S d) F_lbuf_globget [VPtr bl 0; VInt (Z.of_nat pos); VInt (Z.of_N dep)] m
    = Ok (VInt (b2z (glob_marked 7 x)), m).
Proof. exact tr_lbuf_globget_high. Qed.
Print Assumptions C15_tr_lbuf_globget_depth8_reads_depth7.

Theorem C15_tr_lbuf_globset_depth31_undefined : forall m bl blk bg gblk (l : lbuf) pos x dep d fuel,
  nth_error m bl = Some blk -> nth_error blk L_ln_glob = Some (VPtr bg 0) -> glob_rep m bg gblk (lns l) ->
  nth_error (lns l) pos = Some x -> (31 <= dep)%N ->
  callf cprog fuel (S d) F_lbuf_globset [VPtr bl 0; VInt (Z.of_nat pos); VInt (Z.of_N dep)] m = Err EOverflow.
Proof. exact tr_lbuf_globset_overflow. Qed.
Print Assumptions C15_tr_lbuf_globset_depth31_undefined.

(* not vacuous, and the translated functions RUN: a three-line buffer whose lines carry the bits 0, 2 (depth 1), 128 (depth 7);
   the struct in block 12, ln_glob (capacity 4) in block 13.  globset(1, 2) stores 6 into cell 1;
   globget(1, 1) returns 1 and stores 0; globget(2, 7) returns 1 on the negative char and stores 0; globget(0, 1) returns 0;
   at depth 8 globset changes nothing and globget reports the depth-7 mark of line 2 without clearing it *)
Example C15_tr_nonvacuous :
  let l0 := mklb [mkline 0 0 [97]; mkline 1 2 [98]; mkline 2 128 [99]]%N [] [] 0 1 0 0 3 in
  let blk0 := repeat (VInt (-1)) 32 ++ repeat (VInt 0) 32 ++
              [VInt 0; VPtr 13 0; VInt 3; VInt 4; VInt 1; VInt 0; VInt 0; VInt 0; VInt 0; VInt 0; VInt 0] in
  let g0 := [VInt 0; VInt 2; VInt (-128); VInt 77] in
  let m0 := repeat [] 12 ++ [blk0; g0] in
  let run f (pos dep : Z) m := callf cprog 1 2 f [VPtr 12 0; VInt pos; VInt dep] m in
  glob_rep m0 13 g0 (lns l0) /\
  run F_lbuf_globset 1%Z 2%Z m0 = Ok (VUndef, upd m0 13 [VInt 0; VInt 6; VInt (-128); VInt 77]) /\
  lgl (nth 1 (lns (lbuf_globset l0 1 2)) dline) = 6%N /\
  run F_lbuf_globget 1%Z 1%Z m0 = Ok (VInt 1, upd m0 13 [VInt 0; VInt 0; VInt (-128); VInt 77]) /\
  run F_lbuf_globget 2%Z 7%Z m0 = Ok (VInt 1, upd m0 13 [VInt 0; VInt 2; VInt 0; VInt 77]) /\
  run F_lbuf_globget 0%Z 1%Z m0 = Ok (VInt 0, upd m0 13 g0) /\
  run F_lbuf_globset 0%Z 8%Z m0 = Ok (VUndef, upd m0 13 g0) /\ upd m0 13 g0 = m0 /\
  run F_lbuf_globget 2%Z 8%Z m0 = Ok (VInt 1, upd m0 13 g0) /\
  run F_lbuf_globget 5%Z 1%Z m0 = Err EOob.
Proof.
  cbv zeta. split.
  { split; [reflexivity|]. intros [|[|[|i]]] y Hy; cbn in Hy; [inversion Hy; subst; split; reflexivity ..|destruct i; discriminate]. }
  vm_compute. repeat split.
Qed.
End C15_translated.

(* ------------------------------------------------------------------------------------------ *)
(* THE NESTING LIMIT (/repo daf82c9: `if (xgdep >= 7) { ex_show("global nesting too deep"); return 1; }` at the top of ec_glob;
   ExDefs.ec_glob has the same guard).  coq/GlobDepthDefs.v instruments the interpreter (glob_loop, ec_glob, ec_at, ex_exec,
   ex_main) with the trace of the depths it hands to lbuf_globset / lbuf_globget -- one entry for the marking loop, one per scan
   `while (... !lbuf_globget(xb, i, xgdep))`, one for the final sweep of every global, nested ones included. *)
From NV Require Import GenConsts GlobDepthDefs GlobDepth.

(* the instrumented interpreter computes exactly what ExDefs computes *)
Theorem C15_depth_trace_erasure : forall rvalid rfind filter readfile curpath,
  (forall fuel ret ln s, fst (ex_exec_d rvalid rfind filter readfile curpath fuel ret ln s)
                         = ex_exec rvalid rfind filter readfile curpath fuel ret ln s) /\
  (forall n fuel s, fst (ex_main_d rvalid rfind filter readfile curpath n fuel s)
                    = ex_main rvalid rfind filter readfile curpath n fuel s).
Proof. exact (fun rvalid rfind filter readfile curpath =>
  conj (ex_exec_d_erase rvalid rfind filter readfile curpath) (ex_main_d_erase rvalid rfind filter readfile curpath)). Qed.
Print Assumptions C15_depth_trace_erasure.

(* EVERY DEPTH HANDED TO lbuf_globset / lbuf_globget IS ONE OF 1..7: for any script (ex_main) and any command line with any
   rest (ex_exec), from ANY state -- in particular from every state reachable from one with xgdep = 0; the guard is tested
   where the depth is computed, so no invariant of the reachable states is needed.  1 << dep therefore fits the char of
   ln_glob[] in every call (the hypothesis `dep <= 7` of C15_tr_lbuf_globset / C15_tr_lbuf_globget). *)
Theorem C15_mark_depths_between_1_and_7 : forall rvalid rfind filter readfile curpath,
  (forall n fuel s, Forall (fun d => (1 <= d <= 7)%N) (snd (ex_main_d rvalid rfind filter readfile curpath n fuel s))) /\
  (forall fuel ret ln s, Forall (fun d => (1 <= d <= 7)%N) (snd (ex_exec_d rvalid rfind filter readfile curpath fuel ret ln s))).
Proof. exact (fun rvalid rfind filter readfile curpath =>
  conj (ex_main_d_ok rvalid rfind filter readfile curpath) (ex_exec_d_ok rvalid rfind filter readfile curpath)). Qed.
Print Assumptions C15_mark_depths_between_1_and_7.

(* A GLOBAL AT LEVEL 8 FAILS WITHOUT TOUCHING LINES OR MARKS: started inside seven enclosing globals (xgdep >= 7) it returns 1
   and the state is the old one plus the message -- whatever the address, the pattern, the command list and the executor *)
Theorem C15_global_at_level_8_refused : forall rvalid rfind exec fuel loc cmd arg s, (7 <= xgdep s)%nat ->
  ec_glob rvalid rfind exec fuel loc cmd arg s = (emit s (OMsg M_GDEEP), 1%Z) /\
  lb (emit s (OMsg M_GDEEP)) = lb s /\ xrow (emit s (OMsg M_GDEEP)) = xrow s /\ xgdep (emit s (OMsg M_GDEEP)) = xgdep s.
Proof. exact (fun rvalid rfind exec fuel loc cmd arg s H =>
  conj (glob_too_deep rvalid rfind exec fuel loc cmd arg s H) (conj eq_refl (conj eq_refl eq_refl))). Qed.
Print Assumptions C15_global_at_level_8_refused.

(* the model's limit is the constant of the C text (GenConsts.GLOB_DEPMAX is regenerated from ec_glob of /repo/ex.c on every run;
   a tree without the guard yields 2^30 and this proof fails) *)
Theorem C15_nesting_limit_is_the_C_constant : Z.of_nat GDEPMAX = GLOB_DEPMAX.
Proof. exact gdepmax_is_c. Qed.
Print Assumptions C15_nesting_limit_is_the_C_constant.

(* the two inputs that found the defect, on the model (pattern a on a1..a4; k = 7 / 8 times `g/a/` in front of `%g/a/p` = 8 / 9
   levels): the script ends at the end of its input (no fuel exhaustion), the four depth-7 executions are refused with the
   message, p never runs, lines and marks are those of the file just read, the deepest depth used is 7; with 7 levels p runs
   16 times *)
Example C15_nesting_nonvacuous : forall k, k = 7%nat \/ k = 8%nat ->
  out (fst (deep_run k)) = repeat (OMsg M_GDEEP) 4 /\ flags (fst (deep_run k)) = F_EOF /\
  lns (lb (fst (deep_run k))) = lns (init_lbuf [97;49;10;97;50;10;97;51;10;97;52;10]%N) /\
  fold_right N.max 0%N (snd (deep_run k)) = 7%N /\
  length (List.filter is_line (out (fst (deep_run 6)))) = 16%nat.
Proof. exact deep_example. Qed.

(* ... so the translation theorems apply to every call the interpreter makes: for every depth of the trace of any script from
   any state, lbuf_globset / lbuf_globget of /repo/lbuf.c (CLite translation) compute what the model computes *)
From NV Require GlobDepthTr.
Section C15_translated_depths.
Import CLite CLiteProps GenCFuncs TrLbufBase TrLbufGlob GlobDepthTr.
Theorem C15_mark_depths_meet_translation_hypothesis : forall rvalid rfind filter readfile curpath n fuel s dep,
  In dep (snd (ex_main_d rvalid rfind filter readfile curpath n fuel s)) ->
  forall m bl blk bg gblk (l : ExDefs.lbuf) pos x d cf,
  nth_error m bl = Some blk -> nth_error blk L_ln_glob = Some (VPtr bg 0) -> glob_rep m bg gblk (ExDefs.lns l) ->
  nth_error (ExDefs.lns l) pos = Some x ->
  (let gblk' := upd gblk pos (VInt (sb (N.setbit (ExDefs.lgl x) dep))) in
   callf cprog cf (S d) F_lbuf_globset [VPtr bl 0; VInt (Z.of_nat pos); VInt (Z.of_N dep)] m = Ok (VUndef, upd m bg gblk')
   /\ glob_rep (upd m bg gblk') bg gblk' (ExDefs.lns (ExDefs.lbuf_globset l pos dep))) /\
  (let gblk' := upd gblk pos (VInt (sb (N.clearbit (ExDefs.lgl x) dep))) in
   callf cprog cf (S d) F_lbuf_globget [VPtr bl 0; VInt (Z.of_nat pos); VInt (Z.of_N dep)] m
     = Ok (VInt (b2z (snd (ExDefs.lbuf_globget l pos dep))), upd m bg gblk')
   /\ glob_rep (upd m bg gblk') bg gblk' (ExDefs.lns (fst (ExDefs.lbuf_globget l pos dep)))).
Proof. exact depths_translated. Qed.
Print Assumptions C15_mark_depths_meet_translation_hypothesis.
End C15_translated_depths.

(* ------------------------------------------------------------------------------------------ *)
(* THE LOOPS OF ec_glob ARE THE MODEL'S LOOPS, ON THE C TEXT (coq/TrGlob.v).  /repo/ex.c ec_glob, translated by tools/c2clite.py into the
   CLite term GenCFuncs.cf_ec_glob (whitelist tools/c2clite.d/99zz_glob.list), is -- TrGlob.ec_glob_shape, by reflexivity -- the sequence
   frame; nesting guard; default range; ex_region/ex_zero; not; pattern; xgdep++; marking loop; i = beg; visit loop; final sweep; xgdep--;
   rstr_free; return 0, with the loops TrGlob.mark_loop / scan_loop / sweep_loop / visit_loop.  The theorems below RUN these statements
   (CLite.exec) for `cx ext fuel d` = CLiteExt.callx ext cprog fuel (S d): the translated callees ex_lbuf, lbuf_len, lbuf_get, lbuf_globset,
   lbuf_globget run as C text; the calls to rstr_find, ex_exec, rstr_free go to the oracle `ext`, for EVERY oracle that satisfies
     find_oracle : rstr_find on the line pointer of row i answers negative exactly when the model's matcher finds nothing in that line;
     exec_oracle : THE SIMULATION HYPOTHESIS -- from a memory that represents the model state s (st_rep: SOME line buffer behind bufs[0].lb
                   with the lines and ln_glob marks of s, xrow, xgdep; the blocks are existential because the executor may re-allocate the whole
                   buffer), ex_exec(s) returns r and leaves a memory that represents `exec body s`, r = 0 iff the model's result is 0;
     both leave the blocks of ec_glob's own frame (fr: the cells of the locals beg, end, s) untouched.
   B bounds the number of lines of every represented buffer (the inner loops run on the fuel of the outer one). *)
From NV Require CLiteExt TrGlob.
Section C15_translated_loops.
Import CLite CLiteProps GenCFuncs CLiteExt TrLbufBase TrLbufGlob TrGlob.

(* (1) for (i = beg + 1; i < end; i++) lbuf_globset(xb, i, xgdep)  =  globset_range *)
Theorem C15_tr_marking_loop : forall ext fuel d v0 v1 v2 v3 v9 bre b5 b6 b7 b10 nt fr dep, (dep <= 7)%N ->
  forall y n i (l : ExDefs.lbuf) gblk m ln fuel' e, In b7 fr ->
  mrep (keep fr) y gblk m (LB l) -> cell_at m G_xgdep (Z.of_N dep) -> cell_at m b7 e -> i32 e ->
  (0 <= i)%Z -> (e <= Z.of_nat (length (LB l)))%Z -> n = Z.to_nat (e - i) -> (n < fuel')%nat ->
  exists gblk', exec (cx ext fuel d) fuel' mark_loop (ST v0 v1 v2 v3 v9 bre b5 b6 b7 b10 nt i ln m)
                = ONormal (ST v0 v1 v2 v3 v9 bre b5 b6 b7 b10 nt (Z.max i e) ln (CLiteProps.upd m (y_bg y) gblk')) /\
                mrep (keep fr) y gblk' (CLiteProps.upd m (y_bg y) gblk') (LB (ExDefs.globset_range n (Z.to_nat i) dep l)).
Proof. exact tr_glob_mark_loop. Qed.
Print Assumptions C15_tr_marking_loop.

(* (2) while (i < lbuf_len(xb) && !lbuf_globget(xb, i, xgdep)) i++  =  glob_scan: the index of the first marked row at or after i (the
   length if there is none), that row's mark cleared, nothing else changed *)
Theorem C15_tr_scan_loop : forall ext fuel d v0 v1 v2 v3 v9 bre b5 b6 b7 b10 nt fr dep, (dep <= 7)%N ->
  forall y n i (l : ExDefs.lbuf) gblk m ln fuel',
  mrep (keep fr) y gblk m (LB l) -> cell_at m G_xgdep (Z.of_N dep) -> (i + n = length (LB l))%nat -> (n < fuel')%nat ->
  exists gblk', exec (cx ext fuel d) fuel' scan_loop (ST v0 v1 v2 v3 v9 bre b5 b6 b7 b10 nt (Z.of_nat i) ln m)
                = ONormal (ST v0 v1 v2 v3 v9 bre b5 b6 b7 b10 nt (Z.of_nat (fst (ExDefs.glob_scan i dep l))) ln (CLiteProps.upd m (y_bg y) gblk')) /\
                mrep (keep fr) y gblk' (CLiteProps.upd m (y_bg y) gblk') (LB (snd (ExDefs.glob_scan i dep l))).
Proof. exact tr_glob_scan_loop. Qed.
Print Assumptions C15_tr_scan_loop.

(* (3) for (i = 0; i < lbuf_len(xb); i++) lbuf_globget(xb, i, xgdep)  =  globclear over the WHOLE buffer *)
Theorem C15_tr_final_sweep : forall ext fuel d v0 v1 v2 v3 v9 bre b5 b6 b7 b10 nt fr dep, (dep <= 7)%N ->
  forall y n i (l : ExDefs.lbuf) gblk m ln fuel',
  mrep (keep fr) y gblk m (LB l) -> cell_at m G_xgdep (Z.of_N dep) -> (i + n = length (LB l))%nat -> (n < fuel')%nat ->
  exists gblk', exec (cx ext fuel d) fuel' sweep_loop (ST v0 v1 v2 v3 v9 bre b5 b6 b7 b10 nt (Z.of_nat i) ln m)
                = ONormal (ST v0 v1 v2 v3 v9 bre b5 b6 b7 b10 nt (Z.of_nat (length (LB l))) ln (CLiteProps.upd m (y_bg y) gblk')) /\
                mrep (keep fr) y gblk' (CLiteProps.upd m (y_bg y) gblk') (LB (ExDefs.globclear n i dep l)).
Proof. exact tr_glob_sweep_loop. Qed.
Print Assumptions C15_tr_final_sweep.

(* (4) ONE VISIT: ln = lbuf_get(xb, i); if ((rstr_find(re, ln, ...) < 0) == not) { xrow = i; if (ex_exec(s)) break; i = MAX(0, MIN(i, xrow)); }
   scan  =  one unfolding of glob_loop: the command list runs exactly when (no match) = not, on the state with xrow = i; a failing list
   ends the loop (OBreak) in the executor's state; otherwise the scan restarts at max(0, min(i, xrow')) of the executor's state *)
Theorem C15_tr_visit_step : forall ext fuel d v0 v1 v2 v3 v9 bre b5 b6 b7 b10 nt fr dep, (dep <= 7)%N ->
  forall B rfind mexec pat body bs os, ~ In G_xrow fr -> In b10 fr ->
  find_oracle ext bre b5 fr B rfind pat -> exec_oracle ext fr B mexec body bs os -> exec_keeps_depth mexec body ->
  forall m s iM x ln fuel', st_rep fr B m s -> dep = N.of_nat (ExDefs.xgdep s) -> nth_error (LB (ExDefs.lb s)) iM = Some x ->
  nth_error m b10 = Some [VPtr bs os] -> (B <= fuel')%nat ->
  let run := Bool.eqb (negb (hit_of rfind pat x)) nt in
  let s1 := if run then fst (mexec body (ExDefs.set_xrow s (Z.of_nat iM))) else s in
  let r := if run then snd (mexec body (ExDefs.set_xrow s (Z.of_nat iM))) else 0%Z in
  let i1 := if run then Z.to_nat (Z.min (Z.of_nat iM) (ExDefs.xrow s1)) else iM in
  if run && negb (r =? 0)%Z then
    exists lnv m', exec (cx ext fuel d) (S fuel') visit_body (ST v0 v1 v2 v3 v9 bre b5 b6 b7 b10 nt (Z.of_nat iM) ln m)
                   = OBreak (ST v0 v1 v2 v3 v9 bre b5 b6 b7 b10 nt (Z.of_nat iM) lnv m') /\ st_rep fr B m' s1 /\ keeps fr m m'
  else
    exists iC lnv m', exec (cx ext fuel d) (S fuel') visit_body (ST v0 v1 v2 v3 v9 bre b5 b6 b7 b10 nt (Z.of_nat iM) ln m)
                      = ONormal (ST v0 v1 v2 v3 v9 bre b5 b6 b7 b10 nt iC lnv m') /\
      st_rep fr B m' (ExDefs.set_lb s1 (snd (ExDefs.glob_scan i1 dep (ExDefs.lb s1)))) /\ keeps fr m m' /\
      (iC = Z.of_nat (fst (ExDefs.glob_scan i1 dep (ExDefs.lb s1))) \/
       ((Z.of_nat (length (LB (ExDefs.lb s1))) <= iC)%Z /\ (length (LB (ExDefs.lb s1)) <= fst (ExDefs.glob_scan i1 dep (ExDefs.lb s1)))%nat)).
Proof. exact tr_glob_visit_step. Qed.
Print Assumptions C15_tr_visit_step.

(* (5) THE VISIT LOOP IN SIMULATION WITH glob_loop.  From a memory that represents s, with the C index equal to the model's (or both beyond the
   end), whenever the model's loop does not run out of its fuel (exit kind 0: the scan ran off the end; 1: a command list failed), the
   translated C loop -- for every oracle satisfying the two hypotheses -- ends normally in a memory that represents the model's final state
   `glob_loop ... s`: the same lines, the same ln_glob marks, the same xrow and xgdep.  The proof is an induction on the model's fuel in which
   every oracle call ex_exec(s) is matched with the model's call `exec body (set_xrow s i)` on a memory that represents that state: the C loop
   visits the rows the model visits (C15_visits: row beg, then a subsequence of the originally marked identities), in the same order, and runs
   the command list at the same visits. *)
Theorem C15_tr_visit_loop : forall ext fuel d v0 v1 v2 v3 v9 bre b5 b6 b7 b10 nt fr dep, (dep <= 7)%N ->
  forall B rfind mexec pat body bs os, ~ In G_xrow fr -> In b10 fr ->
  find_oracle ext bre b5 fr B rfind pat -> exec_oracle ext fr B mexec body bs os -> exec_keeps_depth mexec body ->
  forall fuelM iM s vis iC m ln fuelC,
  st_rep fr B m s -> dep = N.of_nat (ExDefs.xgdep s) -> nth_error m b10 = Some [VPtr bs os] ->
  (iC = Z.of_nat iM \/ ((Z.of_nat (length (LB (ExDefs.lb s))) <= iC)%Z /\ (length (LB (ExDefs.lb s)) <= iM)%nat)) ->
  (fuelM + B < fuelC)%nat ->
  snd (glob_loop_x rfind mexec fuelM iM pat body nt dep s vis) <> 2%N ->
  exists iC' ln' m', exec (cx ext fuel d) fuelC visit_loop (ST v0 v1 v2 v3 v9 bre b5 b6 b7 b10 nt iC ln m)
                     = ONormal (ST v0 v1 v2 v3 v9 bre b5 b6 b7 b10 nt iC' ln' m') /\
    st_rep fr B m' (ExDefs.glob_loop rfind mexec fuelM iM pat body nt dep s) /\ keeps fr m m' /\
    ExDefs.xgdep (ExDefs.glob_loop rfind mexec fuelM iM pat body nt dep s) = ExDefs.xgdep s.
Proof. exact tr_glob_visit_loop. Qed.
Print Assumptions C15_tr_visit_loop.

(* (6) THE TAIL OF ec_glob -- everything after the pattern was compiled: xgdep++; marking loop; i = beg; visit loop; final sweep; xgdep--;
   rstr_free(re); return 0 -- is the tail of ExDefs.ec_glob (s3 .. s6, result 0): from a memory that represents s with beg = b, end = e in
   the cells of the locals, the function returns 0 in a memory that represents set_gdep s6 (xgdep s): all marks of the depth cleared over the
   WHOLE buffer, the nesting depth given back. *)
Theorem C15_tr_glob_tail : forall ext fuel d v0 v1 v2 v3 v9 bre b5 b6 b7 b10 nt fr dep, (dep <= 7)%N ->
  forall B rfind mexec pat body bs os, ~ In G_xrow fr -> ~ In G_xgdep fr -> In b10 fr ->
  find_oracle ext bre b5 fr B rfind pat -> exec_oracle ext fr B mexec body bs os -> exec_keeps_depth mexec body ->
  In b6 fr -> In b7 fr -> free_oracle ext bre fr B ->
  forall m s b e v11 v12 fuelM fuelC,
  st_rep fr B m s -> dep = N.of_nat (S (ExDefs.xgdep s)) ->
  cell_at m b6 b -> cell_at m b7 e -> (0 <= b < 2147483647)%Z -> (e <= Z.of_nat (length (LB (ExDefs.lb s))))%Z -> i32 e ->
  nth_error m b10 = Some [VPtr bs os] -> (fuelM + B < fuelC)%nat ->
  let s3 := ExDefs.set_gdep s (S (ExDefs.xgdep s)) in
  let s4 := ExDefs.set_lb s3 (ExDefs.globset_range (Z.to_nat (e - b - 1)) (Z.to_nat (b + 1)) dep (ExDefs.lb s3)) in
  snd (glob_loop_x rfind mexec fuelM (Z.to_nat b) pat body nt dep s4 []) <> 2%N ->
  let s5 := ExDefs.glob_loop rfind mexec fuelM (Z.to_nat b) pat body nt dep s4 in
  let s6 := ExDefs.set_lb s5 (ExDefs.globclear (length (ExDefs.lns (ExDefs.lb s5))) 0 dep (ExDefs.lb s5)) in
  exists i' ln' m',
    exec (cx ext fuel d) fuelC glob_tail
      (CLite.mkst [v0; v1; v2; v3; VPtr bre 0; VPtr b5 0; VPtr b6 0; VPtr b7 0; VInt (b2z nt); v9; VPtr b10 0; v11; v12] m)
    = OReturn (VInt 0) (ST v0 v1 v2 v3 v9 bre b5 b6 b7 b10 nt i' ln' m') /\ st_rep fr B m' (ExDefs.set_gdep s6 (ExDefs.xgdep s)).
Proof. exact tr_glob_tail. Qed.
Print Assumptions C15_tr_glob_tail.

(* the translated ec_glob IS these pieces (the pattern part glob_pat is followed by glob_tail), and its nesting guard: called with xgdep >= 7 the
   whole function -- callx on F_ec_glob -- calls ex_show, returns 1 and does nothing else (C15_global_at_level_8_refused on the C text) *)
Theorem C15_tr_ec_glob_shape : fn_body cf_ec_glob =
  glob_frame (SSeq glob_guard (SSeq glob_pct (SSeq glob_region (SSeq glob_not (seq_app glob_pat glob_tail))))).
Proof. exact ec_glob_shape. Qed.
Print Assumptions C15_tr_ec_glob_shape.

Theorem C15_tr_ec_glob_too_deep : forall ext fuel d vloc vcmd ba oa vtxt (m : mem) g v m',
  cell_at m G_xgdep g -> (7 <= g)%Z -> i32 g ->
  ext X_ex_show [VPtr guard_msg_block 0] (glob_entry_mem m (VPtr ba oa)) = Ok (v, m') ->      (* guard_msg_block: the string literal passed to ex_show *)
  callx ext cprog fuel (S (S d)) F_ec_glob [vloc; vcmd; VPtr ba oa; vtxt] m = Ok (VInt 1, m').
Proof. exact tr_ec_glob_too_deep. Qed.
Print Assumptions C15_tr_ec_glob_too_deep.

(* NOT VACUOUS, and the translated loops RUN.  The program's globals with bufs[0].lb -> block NB (a struct lbuf: ln -> NB+1, ln_glob -> NB+2,
   ln_n = 3) and xgdep = 1; ln_glob = [0; 0; 4; 77] (row 2 carries the depth-2 mark of an enclosing global, capacity 4), end = 3 in block NB+3.
   The marking loop from i = 1 stores 2 and 6 into cells 1 and 2; the scan from 0 then stops at row 1 and clears its mark; the model computes
   the same bits.  Second part: the oracle hypotheses of the visit loop are satisfiable (an oracle whose rstr_find always matches and whose
   ex_exec does nothing, with the model executor that does nothing). *)
Example C15_tr_loops_run :
  let NB := length cglobals in
  let blk0 := repeat (VInt (-1)) 32 ++ repeat (VInt 0) 32 ++
              [VPtr (NB + 1) 0; VPtr (NB + 2) 0; VInt 3; VInt 4; VInt 1; VInt 0; VInt 0; VInt 0; VInt 0; VInt 0; VInt 0] in
  let m0 := CLiteProps.upd (CLiteProps.upd cglobals G_bufs (CLiteProps.upd gb_bufs 33 (VPtr NB 0))) G_xgdep [VInt 1]
            ++ [blk0; [VPtr 0 0; VPtr 0 0; VPtr 0 0; VInt 0]; [VInt 0; VInt 0; VInt 4; VInt 77]; [VInt 3]] in
  let st i m := ST (VInt 0) (VInt 0) (VInt 0) (VInt 0) (VInt 0) 0 0 0 (NB + 3) 0 false i (VInt 0) m in
  let l0 := mklb [mkline 0 0 [97]; mkline 1 0 [98]; mkline 2 4 [99]]%N [] [] 0 1 0 0 3 in
  let m1 := CLiteProps.upd m0 (NB + 2) [VInt 0; VInt 2; VInt 6; VInt 77] in
  exec (callf cprog 10 3) 10 mark_loop (st 1%Z m0) = ONormal (st 3%Z m1) /\
  map lgl (lns (globset_range 2 1 1 l0)) = [0; 2; 6]%N /\
  exec (callf cprog 10 3) 10 scan_loop (st 0%Z m1) = ONormal (st 1%Z (CLiteProps.upd m0 (NB + 2) [VInt 0; VInt 0; VInt 6; VInt 77])) /\
  fst (glob_scan 0 1 (globset_range 2 1 1 l0)) = 1%nat /\ map lgl (lns (snd (glob_scan 0 1 (globset_range 2 1 1 l0)))) = [0; 0; 6]%N /\
  exec (callf cprog 10 3) 10 sweep_loop (st 0%Z m1) = ONormal (st 3%Z (CLiteProps.upd m0 (NB + 2) [VInt 0; VInt 0; VInt 4; VInt 77])) /\
  map lgl (lns (globclear 3 0 1 (globset_range 2 1 1 l0))) = [0; 0; 4]%N /\
  (forall bre b5 fr B pat body bs os,
     let ext := fun (f : nat) (_ : list val) (m : mem) => if Nat.eqb f X_rstr_find || Nat.eqb f X_ex_exec then Ok (VInt 0, m) else Err EShape in
     find_oracle ext bre b5 fr B (fun _ _ _ => Some (0, 0)%nat) pat /\
     exec_oracle ext fr B (fun _ s => (s, 0%Z)) body bs os /\ exec_keeps_depth (fun _ s => (s, 0%Z)) body).
Proof. exact loops_run. Qed.
End C15_translated_loops.

(* ------------------------------------------------------------------------------------------ *)
(* ec_glob AS A WHOLE (callx on F_ec_glob), relative to the run of its first part glob_prefix = guard; default range; ex_region/ex_zero; not; pattern
   (whose calls -- strcpy, ex_region, ex_zero, strchr, re_read, ex_kwdset, free, ex_kwd, rstr_make -- are NOT walked by a theorem, except the guard and
   `not` below): the frame of ec_glob is five fresh blocks behind the caller's memory (glob_entry_st); an early exit of the first part is the result of
   the function; when the first part runs through into a memory representing the model state s, the function returns 0 in a memory that represents the
   model's tail of ec_glob from s (marking, visits, sweep; nesting depth given back). *)
Section C15_translated_ec_glob.
Import CLite CLiteProps GenCFuncs CLiteExt TrLbufBase TrLbufGlob TrGlob.

Theorem C15_tr_ec_glob_early_exit : forall ext fuel d vloc vcmd ba oa vtxt (m : mem) v st1,
  exec (cx ext fuel d) fuel glob_prefix (glob_entry_st m vloc vcmd (VPtr ba oa) vtxt) = OReturn v st1 ->
  callx ext cprog fuel (S (S d)) F_ec_glob [vloc; vcmd; VPtr ba oa; vtxt] m = Ok (v, memm st1).
Proof. exact tr_ec_glob_early. Qed.
Print Assumptions C15_tr_ec_glob_early_exit.

Theorem C15_tr_ec_glob : forall ext fuel d vloc vcmd ba oa vtxt (m : mem) bre nt m1 fr dep B rfind mexec pat body bs os s b e fuelM,
  let b5 := length m in let b6 := (length m + 1)%nat in let b7 := (length m + 2)%nat in let b9 := (length m + 3)%nat in let b10 := (length m + 4)%nat in
  exec (cx ext fuel d) fuel glob_prefix (glob_entry_st m vloc vcmd (VPtr ba oa) vtxt)
  = ONormal (CLite.mkst [vloc; vcmd; VPtr ba oa; vtxt; VPtr bre 0; VPtr b5 0; VPtr b6 0; VPtr b7 0; VInt (b2z nt); VPtr b9 0; VPtr b10 0; VUndef; VUndef] m1) ->
  (dep <= 7)%N -> ~ In G_xrow fr -> ~ In G_xgdep fr -> In b10 fr -> In b6 fr -> In b7 fr ->
  find_oracle ext bre b5 fr B rfind pat -> exec_oracle ext fr B mexec body bs os -> exec_keeps_depth mexec body -> free_oracle ext bre fr B ->
  st_rep fr B m1 s -> dep = N.of_nat (S (ExDefs.xgdep s)) ->
  cell_at m1 b6 b -> cell_at m1 b7 e -> (0 <= b < 2147483647)%Z -> (e <= Z.of_nat (length (LB (ExDefs.lb s))))%Z -> i32 e ->
  nth_error m1 b10 = Some [VPtr bs os] -> (fuelM + B < fuel)%nat ->
  let s3 := ExDefs.set_gdep s (S (ExDefs.xgdep s)) in
  let s4 := ExDefs.set_lb s3 (ExDefs.globset_range (Z.to_nat (e - b - 1)) (Z.to_nat (b + 1)) dep (ExDefs.lb s3)) in
  snd (glob_loop_x rfind mexec fuelM (Z.to_nat b) pat body nt dep s4 []) <> 2%N ->
  let s5 := ExDefs.glob_loop rfind mexec fuelM (Z.to_nat b) pat body nt dep s4 in
  let s6 := ExDefs.set_lb s5 (ExDefs.globclear (length (ExDefs.lns (ExDefs.lb s5))) 0 dep (ExDefs.lb s5)) in
  exists m', callx ext cprog fuel (S (S d)) F_ec_glob [vloc; vcmd; VPtr ba oa; vtxt] m = Ok (VInt 0, m') /\
             st_rep fr B m' (ExDefs.set_gdep s6 (ExDefs.xgdep s)).
Proof. exact tr_ec_glob_run. Qed.
Print Assumptions C15_tr_ec_glob.

(* two statements of the first part, run: the guard lets a global at nesting depth < 7 pass unchanged, and
   not = strchr(cmd, '!') || cmd[0] == 'v' is the model's `mem 33 cmd || (hd0 cmd =? 118)` for every command name *)
Theorem C15_tr_guard_passes_below_7 : forall call f lc (m : mem) g, cell_at m G_xgdep g -> (g < 7)%Z -> i32 g ->
  exec call f glob_guard (CLite.mkst lc m) = ONormal (CLite.mkst lc m).
Proof. exact glob_guard_pass. Qed.
Print Assumptions C15_tr_guard_passes_below_7.

Theorem C15_tr_not_from_command_name : forall call f (m : mem) bcmd cmd v0 v2 v3 v4 v5 v6 v7 v8 v9 v10 v11 v12, str_at m bcmd cmd -> nonul cmd ->
  exec call f glob_not (CLite.mkst [v0; VPtr bcmd 0; v2; v3; v4; v5; v6; v7; v8; v9; v10; v11; v12] m)
  = ONormal (CLite.mkst [v0; VPtr bcmd 0; v2; v3; v4; v5; v6; v7; VInt (b2z (ExDefs.mem 33 cmd || (hd0 cmd =? 118)%N)); v9; v10; v11; v12] m).
Proof. exact glob_not_ok. Qed.
Print Assumptions C15_tr_not_from_command_name.
End C15_translated_ec_glob.

(* ------------------------------------------------------------------------------------------ *)
(* THE MODEL IS THE C TEXT (coq/TrSplice*.v): ln_glob under lbuf_replace of /repo/lbuf.c, on the translated C text
   (tools/c2clite.d/55_splice.list).  C15_tr_lbuf_replace: from any memory holding a line buffer (TrSpliceAll.lbuf_at: the
   struct, the pointer array ln[], the char array ln_glob[] whose first |lines| cells hold `globs`, one live block per line)
   the translated lbuf_replace returns Ok and the new memory holds, next to the spliced lines, the ln_glob values
   splice_globs globs pos n_del n_ins -- when the arrays grow the values are COPIED into the new array, the tails move with
   their lines, and C15_tr_splice_is_ex: these are the values of ExDefs.lbuf_replace (ExDefs.mknew): the first min(n_del, n_ins)
   rows inherit ln_glob, the added rows are cleared, the rows outside the range keep theirs. *)
From NV Require CLite CLiteProps GenCFuncs TrSpliceMarks TrSpliceAll TrSpliceModels.
Section C15_translated_splice.
Local Open Scope Z_scope.

Theorem C15_tr_lbuf_replace : forall (m : CLite.mem) lb blk bln bgl lbs lines globs mk cap sv t nul pos nd cap' d fuel,
  let n := length lines in let ni := IoDefs.linecount t in
  let need := Z.of_nat n + Z.of_nat ni - Z.of_nat nd in
  TrSpliceAll.lbuf_at m lb blk bln bgl lbs lines globs mk cap ->
  TrSpliceAll.s_text m (lb :: bln :: bgl :: lbs) sv t nul ->
  (pos + nd <= n)%nat ->
  Z.of_nat n + Z.of_nat ni <= 2147483647 ->
  IoDefs.grow (IoDefs.grow_fuel need) need (Z.of_nat cap) = Some cap' -> cap' <= 2147483647 ->
  Forall (TrSpliceMarks.row_fits (Z.of_nat pos) (Z.of_nat nd) (Z.of_nat ni)) mk ->
  (TrSpliceAll.splice_fuel n ni nd <= fuel)%nat ->
  exists m' blk' bln' bgl' base,
    CLite.callf GenCFuncs.cprog fuel (S (S (S d))) GenCFuncs.F_lbuf_replace
      [CLite.VPtr lb 0; sv; CLite.VInt (Z.of_nat pos); CLite.VInt (Z.of_nat nd)] m = CLite.Ok (CLite.VUndef, m')
    /\ TrSpliceAll.lbuf_at m' lb blk' bln' bgl' (TrSpliceAll.splice lbs (List.seq base ni) pos nd)
         (TrSpliceAll.splice lines (IoDefs.split_lines t) pos nd)
         (TrSpliceAll.splice_globs globs pos nd ni) (TrSpliceAll.splice_marks nul pos nd ni mk) (Z.to_nat cap')
    /\ need < cap' /\ Z.of_nat cap <= cap'
    /\ (length m <= base)%nat /\ (length m <= length m')%nat
    /\ (forall c, (c < length m)%nat -> ~ In c (lb :: bln :: bgl :: lbs) -> nth_error m' c = nth_error m c)
    /\ (forall b, In b (firstn nd (skipn pos lbs)) -> nth_error m' b = Some [])
    /\ TrSplice.arr_kept m m' bln bln' /\ TrSplice.arr_kept m m' bgl bgl'
    /\ (forall j, (68 <= j)%nat -> nth_error blk' j = nth_error blk j).
Proof. exact TrSpliceAll.tr_lbuf_replace. Qed.
Print Assumptions C15_tr_lbuf_replace.

Theorem C15_tr_splice_is_ex : forall (xl : ExDefs.lbuf) s pos nd,
  (pos + nd <= length (ExDefs.lns xl))%nat -> length (ExDefs.marks xl) = 32%nat ->
  let xl' := ExDefs.lbuf_replace s pos nd xl in
  let ni := IoDefs.linecount (TrSpliceModels.txt s) in
  map TrSpliceModels.addnl (map ExDefs.ltxt (ExDefs.lns xl'))
    = TrSpliceAll.splice (map TrSpliceModels.addnl (map ExDefs.ltxt (ExDefs.lns xl))) (IoDefs.split_lines (TrSpliceModels.txt s)) pos nd
  /\ map TrSpliceModels.zgl (ExDefs.lns xl') = TrSpliceAll.splice_globs (map TrSpliceModels.zgl (ExDefs.lns xl)) pos nd ni
  /\ map fst (ExDefs.marks xl') = TrSpliceAll.splice_marks (TrSpliceModels.is_null s) pos nd ni (map fst (ExDefs.marks xl)).
Proof. exact TrSpliceModels.splice_is_ex. Qed.
Print Assumptions C15_tr_splice_is_ex.

(* not vacuous: the two-line buffer of TrSpliceModels.ex_mem with ln_glob = 0, 2; replacing line 1 by two lines makes the arrays
   grow: the new ln_glob array holds 0, 2 (inherited by the replacing line), 0 (the added line) *)
Example C15_tr_lbuf_replace_glob_runs :
  let G := TrSpliceModels.ex_G in
  TrSpliceAll.lbuf_at TrSpliceModels.ex_mem G TrSpliceModels.ex_blk (G + 1) (G + 2) [G + 3; G + 4]%nat TrSpliceModels.ex_lines [0; 2] (repeat (-1) 32) 3 /\
  match CLite.callf GenCFuncs.cprog 38 3 GenCFuncs.F_lbuf_replace [CLite.VPtr G 0; CLite.VPtr (G + 5) 0; CLite.VInt 1; CLite.VInt 1] TrSpliceModels.ex_mem with
  | CLite.Ok (_, m') => Some (nth (G + 7) m' [], nth (G + 2) m' [CLite.VUndef])
  | CLite.Err _ => None
  end = Some ([CLite.VInt 0; CLite.VInt 2; CLite.VInt 0; CLite.VUndef; CLite.VUndef; CLite.VUndef], []) /\
  TrSpliceAll.splice_globs [0; 2] 1 1 2 = [0; 2; 0].
Proof. cbv zeta. split; [exact TrSpliceModels.ex_at|]. vm_compute. repeat split. Qed.
End C15_translated_splice.
