(* RstrEngine4.v -- C12, part 4: the start-position loop of regexec on a valid UTF-8 line tries the
   character boundaries; the spec scans every byte position; they agree because no simple pattern
   can start strictly inside a multi-byte character (this is where the validity of the line and
   of the literal is used).  Then rset_find on the compiled simple pattern. *)
From Coq Require Import List NArith ZArith Bool Arith Lia ZifyBool ZifyNat ZifyN.
From NV Require Import Bytes GenConsts UcDefs UcSpec UcProps UcSegProps RstrDefs RstrProps ReSyntax ReParse ReEmit ReVM RsetDefs ReProps6 ReProps11 RstrEngine RstrEngine2 RstrEngine3.
Import ListNotations.
Local Open Scope N_scope.

Lemma skipn_cons_nth (L : bytes) : forall i, (i < length L)%nat -> skipn i L = nth i L 0 :: skipn (S i) L.
Proof.
  induction L as [|x L IH]; intros i Hi; [cbn in Hi; lia|]. destruct i as [|i]; [reflexivity|].
  cbn [skipn nth]. cbn [length] in Hi. rewrite IH by lia. reflexivity.
Qed.

(* a position strictly inside a multi-byte character satisfies no simple pattern but the empty one *)
Lemma sat_inside sp ic nb (L : bytes) i : lit_valid (p_lit sp) ->
  contb (nth i L 0) -> 128 <= nth (i - 1) L 0 -> (0 < i < length L)%nat ->
  sat_b sp ic nb L i = true -> forall j, sat_b sp ic nb L j = true.
Proof.
  intros Hv Hb Hb' Hi Hsat. destruct sp as [b1 b2 lit b3 b4]. cbn [p_lit] in Hv. unfold sat_b in *.
  cbn [p_lbeg p_wbeg p_lit p_wend p_lend] in *.
  repeat (apply andb_true_iff in Hsat; destruct Hsat as [Hsat ?]).
  unfold contb in Hb.
  assert (Wb : RstrDefs.isword (nth i L 0) = true) by (apply isword_hi; lia).
  assert (Wb' : RstrDefs.isword (nth (i - 1) L 0) = true) by (apply isword_hi; lia).
  destruct lit as [|x lit'].
  - cbn [length] in *. rewrite Nat.add_0_r in *.
    destruct b1. { cbn [implb] in *. destruct (Nat.eqb_spec i 0); [lia|discriminate]. }
    destruct b2. { cbn [implb] in *. rewrite Wb' in *. destruct (Nat.eqb_spec i 0); [lia|discriminate]. }
    destruct b3. { cbn [implb] in *. rewrite Wb in *. cbn in *. rewrite andb_false_r in *. discriminate. }
    destruct b4. { cbn [implb] in *. apply N.eqb_eq in H. lia. }
    intro j. reflexivity.
  - exfalso. destruct Hv as (lcs & El & Hs). destruct lcs as [|c lcs]; [discriminate|]. inversion Hs as [|? ? Hc Hs']; subst.
    rewrite chars_cons in El. destruct (enc_decomp c Hc) as (l & t & E & _ & Hl). rewrite E in El. cbn [app] in El.
    inversion El; subst x.
    unfold lit_at in Hsat. rewrite (skipn_cons_nth L i) in Hsat by lia. cbn [length firstn map eqb_bytes] in Hsat.
    apply andb_true_iff in Hsat. destruct Hsat as [Hsat _]. apply N.eqb_eq in Hsat.
    unfold fold_case, tolower in Hsat.
    destruct ic; [|lia].
    destruct ((65 <=? nth i L 0) && (nth i L 0 <=? 90)) eqn:C1; destruct ((65 <=? l) && (l <=? 90)) eqn:C2; lia.
Qed.

Lemma find_skip (sat : nat -> bool) i i' m : (i <= i' <= m)%nat -> (forall j, (i <= j < i')%nat -> sat j = false) ->
  find sat (seq i (m - i)) = find sat (seq i' (m - i')).
Proof.
  intros H Hf. replace (m - i)%nat with ((i' - i) + (m - i'))%nat by lia. rewrite seq_app, find_app.
  rewrite find_all_false. { replace (i + (i' - i))%nat with i' by lia. reflexivity. }
  intros j Hj. apply in_seq in Hj. apply Hf. lia.
Qed.

Lemma chars_snoc cs c : chars (cs ++ [c]) = chars cs ++ encode c.
Proof. rewrite chars_app. cbn [chars flat_map]. now rewrite app_nil_r. Qed.

(* ------------------------------------------------------------------------------------------ *)
Section Loop.
  Variables (d : nat) (P : list instr) (flg : Z) (cs : list N).
  Hypothesis Hs : Forall scalar cs.
  Variable sat : nat -> bool.
  Variable res_at : nat -> st.
  Let L := chars cs ++ [10].
  Let n := length (chars cs).
  Hypothesis Hbd : forall cs1 cs2, cs = cs1 ++ cs2 ->
    re_recmatch d P flg L (length (chars cs1)) =
    if sat (length (chars cs1)) then (Found [] (res_at (length (chars cs1))), 0%N) else (Fail, 0%N).
  Hypothesis Hend : (forall j, (j <= n)%nat -> sat j = false) -> re_recmatch d P flg L (S n) = (Fail, 0%N).
  Hypothesis Hin : forall cs1 c cs2 i, cs = cs1 ++ c :: cs2 ->
    (length (chars cs1) < i < length (chars cs1) + length (encode c))%nat -> sat i = true -> forall j, sat j = true.

  Lemma Lnz o : (o <= n)%nat -> nth o L 0 <> 0.
  Proof.
    intro Ho. apply nth_line_nz; [|exact Ho]. intro Hin0.
    pose proof (chars_nonul cs Hs) as Hn. unfold nonul in Hn. rewrite Forall_forall in Hn.
    specialize (Hn 0 Hin0). unfold byte_ok in Hn. lia.
  Qed.
  Lemma Llen : length L = S n.
  Proof. unfold L, n. rewrite app_length. cbn. lia. Qed.

  Lemma loop_from : forall cs2 cs1 k o, cs = cs1 ++ cs2 ->
    (forall j, (j < length (chars cs1))%nat -> sat j = false) -> (length cs2 + 3 <= k)%nat -> (o <= n)%nat ->
    re_loop d P flg L k o (length (chars cs1)) =
    match find sat (seq (length (chars cs1)) (S n - length (chars cs1))) with
    | Some j => (Ok (Some (res_at j)), 0%N)
    | None => (Ok None, 0%N)
    end.
  Proof.
    induction cs2 as [|c cs2 IH]; intros cs1 k o E Hlt Hk Ho.
    - rewrite app_nil_r in E. subst cs1. fold n. replace (S n - n)%nat with 1%nat by lia. cbn [seq find].
      destruct k as [|[|[|k]]]; try (cbn [length] in Hk; lia).
      cbn [re_loop]. rewrite (rdk_nth _ L o) by (rewrite Llen; lia).
      destruct (N.eqb_spec (nth o L 0) 0) as [E0|_]; [exfalso; exact (Lnz o Ho E0)|].
      rewrite (rdk_nth _ L n) by (rewrite Llen; lia).
      pose proof (Hbd cs [] ltac:(now rewrite app_nil_r)) as R. fold n in R. rewrite R.
      destruct (sat n) eqn:Esat; [reflexivity|].
      assert (U : re_uclen_at L n = 1%nat).
      { unfold re_uclen_at, L, n. rewrite skipn_app_exact. reflexivity. }
      rewrite U. cbn [re_loop].
      destruct (N.eqb_spec (nth n L 0) 0) as [E0|_]; [exfalso; exact (Lnz n ltac:(lia) E0)|].
      rewrite (rdk_nth _ L (n + 1)) by (rewrite Llen; lia).
      replace (n + 1)%nat with (S n) by lia.
      rewrite Hend.
      2:{ intros j Hj. destruct (Nat.eq_dec j n) as [->|]; [exact Esat|]. apply Hlt. fold n. lia. }
      assert (Z0 : nth (S n) L 0 = 0) by (apply nth_overflow; rewrite Llen; lia).
      rewrite Z0. reflexivity.
    - set (i := length (chars cs1)).
      assert (Hc : scalar c). { rewrite E in Hs. apply Forall_app in Hs. destruct Hs as [_ Hs']. now inversion Hs'. }
      assert (Hn : (i + length (encode c) + length (chars cs2) = n)%nat).
      { unfold i, n. rewrite E, chars_app, chars_cons, !app_length. lia. }
      pose proof (encode_nonempty c Hc) as Hpos.
      destruct k as [|k]; [lia|]. cbn [length] in Hk.
      cbn [re_loop]. rewrite (rdk_nth _ L o) by (rewrite Llen; lia).
      destruct (N.eqb_spec (nth o L 0) 0) as [E0|_]; [exfalso; exact (Lnz o Ho E0)|].
      rewrite (rdk_nth _ L i) by (rewrite Llen; lia).
      pose proof (Hbd cs1 (c :: cs2) E) as R. fold i in R. rewrite R.
      replace (S n - i)%nat with (S (n - i)) by lia. cbn [seq find].
      destruct (sat i) eqn:Esat; [reflexivity|].
      assert (U : re_uclen_at L i = length (encode c)).
      { unfold re_uclen_at, L, i. rewrite E, chars_app, chars_cons, <- !app_assoc. rewrite skipn_app_exact.
        apply re_uclen_encode. exact Hc. }
      rewrite U.
      assert (Ei' : (i + length (encode c))%nat = length (chars (cs1 ++ [c]))).
      { rewrite chars_snoc, app_length. reflexivity. }
      assert (Hfalse : forall j, (j < i + length (encode c))%nat -> sat j = false).
      { intros j Hj. destruct (Nat.lt_ge_cases j i) as [H1|H1]; [apply Hlt; exact H1|].
        destruct (Nat.eq_dec j i) as [->|Hne]; [exact Esat|].
        destruct (sat j) eqn:Ej; [|reflexivity].
        rewrite <- Esat. symmetry. apply (Hin cs1 c cs2 j E); [fold i; lia|exact Ej]. }
      rewrite Ei'. rewrite (IH (cs1 ++ [c]) k i).
      + rewrite <- Ei'.
        assert (F : find sat (seq (S i) (n - i)) = find sat (seq (i + length (encode c)) (S n - (i + length (encode c))))).
        { replace (n - i)%nat with (S n - S i)%nat by lia. apply find_skip; [lia|]. intros j Hj. apply Hfalse. lia. }
        rewrite F. destruct (find sat (seq (i + length (encode c)) (S n - (i + length (encode c))))); reflexivity.
      + rewrite E, <- app_assoc. reflexivity.
      + rewrite <- Ei'. exact Hfalse.
      + lia.
      + lia.
  Qed.

  Lemma loop_top : re_loop d P flg L (length L + 2) 0 0 =
    match find sat (seq 0 (S n)) with
    | Some j => (Ok (Some (res_at j)), 0%N)
    | None => (Ok None, 0%N)
    end.
  Proof.
    pose proof (loop_from cs [] (length L + 2) 0 eq_refl) as K. cbn [chars flat_map length] in K.
    rewrite Nat.sub_0_r in K. apply K; [intros j Hj; lia| |lia].
    rewrite Llen. pose proof (length_cs_le_chars cs Hs). fold n in H. lia.
  Qed.
End Loop.
