(* ReProps11.v -- the matcher never reads or steps past a terminator: for every atom, line and position
   inside the line ratom_match returns a position or a mismatch, never the out-of-bounds result; hence
   neither re_rec nor regexec ever report OOB (since fix 6b15ed7: uc_len is cut at the terminator, uc_dec
   does not read the missing bytes of a truncated sequence, the ignore-case literal loop compares lengths). *)
From Coq Require Import List Arith Lia Bool ZArith NArith ZifyN ZifyBool ZifyNat.
From NV Require Import Bytes GenConsts ReSyntax ReParse ReEmit ReVM ReSem RsetDefs ReProps ReProps2 ReProps3 ReProps5 ReProps6 ReProps7 ReProps8 ReProps10.
Import ListNotations.
Local Open Scope N_scope.

Definition isok {A} (x : res A) : Prop := exists v, x = Ok v.

Lemma uclen_at_le s i : (i + re_uclen_at s i <= Nat.max i (length s))%nat.
Proof. unfold re_uclen_at. pose proof (re_uclen_le (skipn i s)). rewrite skipn_length in H. lia. Qed.

Lemma ucdec_ok s i : (i <= length s)%nat -> isok (re_ucdec s i).
Proof.
  intro Hi. unfold re_ucdec, isok.
  destruct (rdk_in SUcDec s i Hi) as [c R0]. rewrite R0. cbn [bind].
  destruct (negb (bit c 128 && bit c 64)) eqn:B0; [eauto|].
  destruct (Nat.ltb (re_uclen_at s i) (re_ucfull c)) eqn:T; [eauto|].
  apply Nat.ltb_ge in T. pose proof (uclen_at_le s i) as U. unfold re_ucfull in T. rewrite B0 in T.
  destruct (negb (bit c 32)).
  { destruct (rdk_in SUcDec s (i + 1) ltac:(lia)) as [c1 R1]. rewrite R1. cbn [bind]. eauto. }
  destruct (negb (bit c 16)).
  { destruct (rdk_in SUcDec s (i + 1) ltac:(lia)) as [c1 R1]. rewrite R1. cbn [bind].
    destruct (rdk_in SUcDec s (i + 2) ltac:(lia)) as [c2 R2]. rewrite R2. cbn [bind]. eauto. }
  destruct (negb (bit c 8)); [|eauto].
  destruct (rdk_in SUcDec s (i + 1) ltac:(lia)) as [c1 R1]. rewrite R1. cbn [bind].
  destruct (rdk_in SUcDec s (i + 2) ltac:(lia)) as [c2 R2]. rewrite R2. cbn [bind].
  destruct (rdk_in SUcDec s (i + 3) ltac:(lia)) as [c3 R3]. rewrite R3. cbn [bind]. eauto.
Qed.

Lemma chr_icase_ok flg line a p0 : forall k pos, (pos <= length a)%nat -> (p0 + pos <= length line)%nat -> (length a - pos < k)%nat ->
  isok (chr_icase flg line k a p0 pos).
Proof.
  induction k as [|k IH]; intros pos Hp Hl Hk; [lia|]. cbn [chr_icase].
  destruct (nthb a pos =? 0) eqn:E0.
  { apply Nat.leb_le in Hl. rewrite Hl. eexists; reflexivity. }
  assert (Hlt : (pos < length a)%nat). { destruct (le_lt_dec (length a) pos); [rewrite nthb_beyond in E0 by assumption; discriminate | assumption]. }
  destruct (ucdec_ok a pos Hp) as [c1 D1]. rewrite D1. cbn [bind].
  destruct (ucdec_ok line (p0 + pos) Hl) as [c2 D2]. rewrite D2. cbn [bind].
  destruct ((fold (has flg REG_ICASE) c1 =? fold (has flg REG_ICASE) c2) && Nat.eqb (re_uclen_at a pos) (re_uclen_at line (p0 + pos))) eqn:C; [|eexists; reflexivity].
  apply andb_prop in C. destruct C as [_ C]. apply Nat.eqb_eq in C.
  pose proof (uclen_at_le a pos). pose proof (uclen_at_le line (p0 + pos)).
  assert (1 <= re_uclen_at a pos)%nat by (unfold re_uclen_at; apply re_uclen_pos; rewrite hd0_skipn; lia).
  apply IH; lia.
Qed.

Lemma brk_len_le p : (brk_len p <= Nat.max 1 (length p))%nat.
Proof.
  unfold brk_len.
  set (n1 := if nthb p 1 =? 94 then 2%nat else 1%nat).
  set (n2 := if nthb p n1 =? 93 then S n1 else n1).
  assert (H1 : (n1 <= Nat.max 1 (length p))%nat).
  { subst n1. destruct (nthb p 1 =? 94) eqn:E; [|lia]. destruct (le_lt_dec (length p) 1); [rewrite nthb_beyond in E by lia; discriminate | lia]. }
  assert (H2 : (n2 <= Nat.max 1 (length p))%nat).
  { subst n2. destruct (nthb p n1 =? 93) eqn:E; [|lia]. destruct (le_lt_dec (length p) n1); [rewrite nthb_beyond in E by lia; discriminate | lia]. }
  pose proof (brk_body_le false (skipn n2 p)) as B. rewrite skipn_length in B.
  destruct (nthb p (n2 + brk_body false (skipn n2 p)) =? 93) eqn:E; [|lia].
  destruct (le_lt_dec (length p) (n2 + brk_body false (skipn n2 p))); [rewrite nthb_beyond in E by lia; discriminate | lia].
Qed.

Section Brk.
  Variable icase : bool.
  Variable c : N.
  Variable rec_cls : bytes -> res bool.

  Lemma cls_hit_ok cl q : (forall cc cp, In (cc, cp) cl -> isok (rec_cls cp)) -> isok (cls_hit rec_cls cl q).
  Proof.
    induction cl as [|[cc cp] rest IH]; intro H; cbn [cls_hit]; [eexists; reflexivity|].
    destruct (prefixb cc q); [|apply IH; intros; eapply H; right; eauto].
    destruct (H cc cp (or_introl eq_refl)) as [r R]. rewrite R. cbn [bind].
    destruct (negb r); [eexists; reflexivity|]. apply IH. intros; eapply H; right; eauto.
  Qed.

  Lemma brk_loop_ok (Hcls : forall cc cp, In (cc, cp) brk_classes -> isok (rec_cls cp)) :
    forall k p isp0 nt, (length p < k)%nat -> isok (brk_loop icase c rec_cls k p isp0 nt).
  Proof.
    induction k as [|k IH]; intros p isp0 nt Hk; [lia|]. cbn [brk_loop].
    destruct ((hd0 p =? 0) || (negb isp0 && (hd0 p =? 93))) eqn:E0; [eexists; reflexivity|].
    assert (Hnz : hd0 p <> 0) by (destruct (hd0 p =? 0) eqn:E; [discriminate | lia]).
    assert (Hp : p <> []) by (intro; subst; cbn in Hnz; congruence).
    assert (Lp : (1 <= length p)%nat) by (destruct p; [contradiction | cbn; lia]).
    destruct ((hd0 p =? 91) && (nthb p 1 =? 58)).
    - destruct (cls_hit_ok brk_classes (tl p) Hcls) as [hit H]. rewrite H. cbn [bind].
      destruct hit; [eexists; reflexivity|].
      pose proof (brk_len_le p) as BL. rewrite adv_in by lia. cbn [bind].
      apply IH. rewrite skipn_length.
      assert (1 <= brk_len p)%nat. { unfold brk_len. destruct (nthb p 1 =? 94); destruct (nthb p _ =? 93); destruct (nthb p _ =? 93); lia. }
      lia.
    - destruct (ucdec_ok p 0 ltac:(lia)) as [b D]. rewrite D. cbn [bind].
      pose proof (re_uclen_pos p Hnz) as U1. pose proof (re_uclen_le p) as U2.
      rewrite adv_in by lia. cbn [bind].
      set (p1 := skipn (re_uclen p) p). assert (L1 : (length p1 < length p)%nat) by (subst p1; rewrite skipn_length; lia).
      destruct ((hd0 p1 =? 45) && negb (nthb p1 1 =? 0) && negb (nthb p1 1 =? 93)) eqn:R.
      + destruct (ucdec_ok (tl p1) 0 ltac:(lia)) as [e D2]. rewrite D2. cbn [bind].
        rewrite adv_in by apply re_uclen_le. cbn [bind].
        destruct ((fold icase b <=? c) && (c <=? fold icase e)); [eexists; reflexivity|].
        apply IH. rewrite skipn_length. pose proof (sfx_len _ _ (sfx_tl p1)). lia.
      + cbn [bind]. destruct ((fold icase b <=? c) && (c <=? fold icase b)); [eexists; reflexivity|]. apply IH. lia.
  Qed.
End Brk.

Lemma isok_nf {A} (x : res A) : x <> NoFuel -> (forall w, x <> OOB w) -> isok x.
Proof. destruct x; intros H1 H2; [eexists; reflexivity | exfalso; eapply H2; reflexivity | contradiction]. Qed.

(* a class body is scanned without entering the class branch, so the inner matcher is never called *)
Lemma brk_match1_ok icase cp c : In cp (map snd brk_classes) -> isok (brk_match 1 icase cp c).
Proof.
  intro Hin. cbn [brk_match].
  assert (Hflat : noclsb cp = true).
  { pose proof classes_flat as F. rewrite forallb_forall in F. apply in_map_iff in Hin. destruct Hin as ([cc cp'] & E & I). cbn in E. subst cp'. apply (F _ I). }
  (* the inner matcher (fuel 0) is never reached: replace it by a total one *)
  assert (G : forall k p isp0 nt, (exists j, p = skipn j cp) -> (length p < k)%nat ->
              brk_loop icase (fold icase c) (fun cp0 => brk_match 0 icase cp0 (fold icase c)) k p isp0 nt =
              brk_loop icase (fold icase c) (fun _ => Ok true) k p isp0 nt).
  { induction k as [|k IH]; intros p isp0 nt [j ->] Hk; [lia|]. cbn [brk_loop].
    destruct ((hd0 (skipn j cp) =? 0) || (negb isp0 && (hd0 (skipn j cp) =? 93))) eqn:E0; [reflexivity|].
    assert (Hnz : hd0 (skipn j cp) <> 0) by (destruct (hd0 (skipn j cp) =? 0) eqn:E; [discriminate | lia]).
    assert (Hj : (j < length cp)%nat). { destruct (le_lt_dec (length cp) j); [|assumption]. rewrite skipn_all2 in Hnz by assumption. cbn in Hnz. congruence. }
    assert (Hno : (hd0 (skipn j cp) =? 91) && (nthb (skipn j cp) 1 =? 58) = false).
    { unfold noclsb in Hflat. rewrite forallb_forall in Hflat. specialize (Hflat j ltac:(apply in_seq; lia)).
      rewrite hd0_skipn, nthb_skipn. replace (j + 1)%nat with (S j) by lia. destruct ((nthb cp j =? 91) && (nthb cp (S j) =? 58)); [discriminate | reflexivity]. }
    rewrite Hno.
    destruct (re_ucdec (skipn j cp) 0); cbn [bind]; try reflexivity.
    pose proof (re_uclen_pos _ Hnz) as U1. pose proof (re_uclen_le (skipn j cp)) as U2.
    rewrite adv_in by lia. cbn [bind]. rewrite skipn_skipn.
    set (j1 := (j + re_uclen (skipn j cp))%nat).
    assert (L1 : (length (skipn j1 cp) < length (skipn j cp))%nat) by (subst j1; rewrite !skipn_length in *; lia).
    destruct ((hd0 (skipn j1 cp) =? 45) && negb (nthb (skipn j1 cp) 1 =? 0) && negb (nthb (skipn j1 cp) 1 =? 93)).
    - assert (Et : tl (skipn j1 cp) = skipn (S j1) cp). { replace (S j1) with (j1 + 1)%nat by lia. rewrite <- skipn_skipn. destruct (skipn j1 cp); reflexivity. }
      rewrite Et. destruct (re_ucdec (skipn (S j1) cp) 0); cbn [bind]; try reflexivity.
      remember (skipn (S j1) cp) as q eqn:Eq.
      pose proof (re_uclen_le q). rewrite adv_in by lia. cbn [bind].
      destruct ((fold icase a <=? fold icase c) && (fold icase c <=? fold icase a0)); [reflexivity|].
      apply IH; [exists (S j1 + re_uclen q)%nat; rewrite Eq; apply skipn_skipn|].
      rewrite skipn_length. assert (length q <= length (skipn j1 cp))%nat by (rewrite Eq, !skipn_length; lia). lia.
    - cbn [bind]. destruct ((fold icase a <=? fold icase c) && (fold icase c <=? fold icase a)); [reflexivity|].
      apply IH; [exists j1; reflexivity | lia]. }
  destruct (hd0 cp =? 94).
  - rewrite G; [|exists 1%nat; destruct cp; reflexivity | lia].
    apply brk_loop_ok; [intros; eexists; reflexivity | lia].
  - rewrite G; [|exists 0%nat; reflexivity | lia].
    apply brk_loop_ok; [intros; eexists; reflexivity | lia].
Qed.

Lemma brk_match2_ok icase brk c : isok (brk_match 2 icase brk c).
Proof.
  cbn [brk_match]. apply brk_loop_ok; [|lia].
  intros cc cp Hin. apply brk_match1_ok. apply in_map_iff. exists (cc, cp). split; [reflexivity | exact Hin].
Qed.

Theorem ratom_match_ok flg line a p : (p <= length line)%nat -> isok (ratom_match flg line a p).
Proof.
  intro Hp. destruct a; cbn [ratom_match].
  - destruct (negb (has flg REG_ICASE)); [destruct (prefixb s (skipn p line)); eexists; reflexivity|]. apply chr_icase_ok; lia.
  - destruct (rdk_in SOther line p Hp) as [c R]. rewrite R. cbn [bind].
    destruct ((c =? 0) || (c =? 10) && has flg REG_NEWLINE); [eexists; reflexivity|].
    pose proof (uclen_at_le line p). assert (L : Nat.leb (p + re_uclen_at line p) (length line) = true) by (apply Nat.leb_le; lia). rewrite L. eexists; reflexivity.
  - destruct (ucdec_ok line p Hp) as [c D]. rewrite D. cbn [bind].
    destruct ((c =? 0) || (c =? 10) && has flg REG_NEWLINE); [eexists; reflexivity|].
    destruct (rdk_in SOther line p Hp) as [c0 R]. rewrite R. cbn [bind].
    pose proof (uclen_at_le line p). assert (L : Nat.leb (p + re_uclen_at line p) (length line) = true) by (apply Nat.leb_le; lia). rewrite L. cbn [negb].
    destruct (brk_match2_ok (has flg REG_ICASE) (tl s) c) as [r B]. rewrite B. cbn [bind]. destruct r; eexists; reflexivity.
  - destruct (Nat.eqb p 0); [destruct (has flg REG_NOTBOL); eexists; reflexivity|].
    destruct (nthb line (p - 1) =? 10); [|eexists; reflexivity].
    destruct (rdk_in SOther line p Hp) as [c R]. rewrite R. cbn [bind]. destruct (has flg REG_NEWLINE && negb (c =? 0)); eexists; reflexivity.
  - destruct (rdk_in SOther line p Hp) as [c R]. rewrite R. cbn [bind].
    destruct (c =? 0); [destruct (has flg REG_NOTEOL); eexists; reflexivity|]. destruct (c =? 10); [destruct (has flg REG_NEWLINE); eexists; reflexivity | eexists; reflexivity].
  - destruct (rdk_in SOther line p Hp) as [c R]. rewrite R. cbn [bind]. destruct ((Nat.eqb p 0 || negb (prev_isword line p)) && isword c); eexists; reflexivity.
  - destruct (rdk_in SOther line p Hp) as [c R]. rewrite R. cbn [bind]. destruct (negb (Nat.eqb p 0) && prev_isword line p && ((c =? 0) || negb (isword c))); eexists; reflexivity.
Qed.
