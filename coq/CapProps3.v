(* CapProps3.v -- C05: lemmas about the insert-mode helper buffers of CapDefs3.v *)
From Coq Require Import List NArith ZArith Bool Lia ZifyBool ZifyNat ZifyN.
From NV Require Import Bytes GenConsts GenCap UcDefs CapDefs CapProps CapDefs2 CapProps2 CapDefs3.
Import ListNotations.
Local Open Scope Z_scope.

Lemma tag_size : 1 <= TAGSZ.
Proof. now vm_compute. Qed.
Lemma ai_size : 1 <= AISZ.
Proof. now vm_compute. Qed.

(* ---------------------------------------------------------------------------------------- *)
(* uc_next on an arbitrary string of non-NUL bytes (valid UTF-8 or not): it moves by at least one
   byte and never past the terminator *)

Lemma skip_cont_le s : (skip_cont s <= length s)%nat.
Proof. induction s as [|b r IH]; cbn; [lia|]. destruct (is_cont b); cbn; lia. Qed.

Lemma uc_end_lt b r : (UcDefs.uc_end (b :: r) < length (b :: r))%nat.
Proof.
  unfold UcDefs.uc_end. destruct (negb (bit b 128)); [cbn; lia|].
  destruct (is_lead b).
  - pose proof (skip_cont_le r). cbn [length]. lia.
  - pose proof (skip_cont_le (b :: r)). cbn [length] in *. lia.
Qed.

Lemma nonul_nthb s i : nonul s -> (i < length s)%nat -> nthb s i <> 0%N.
Proof.
  intros F Hi. unfold nthb. pose proof (nth_In s 0%N Hi) as I.
  unfold nonul in F. rewrite Forall_forall in F. specialize (F _ I). unfold byte_ok in F. lia.
Qed.

Lemma uc_next_bounds s : nonul s -> s <> [] -> (1 <= UcDefs.uc_next s <= length s)%nat.
Proof.
  intros F Hne. destruct s as [|b r]; [congruence|].
  pose proof (uc_end_lt b r) as E. unfold UcDefs.uc_next.
  pose proof (nonul_nthb (b :: r) _ F E) as NZ.
  destruct (N.eqb_spec (nthb (b :: r) (UcDefs.uc_end (b :: r))) 0); [congruence|]. lia.
Qed.

Lemma nonul_skipn n s : nonul s -> nonul (skipn n s).
Proof. unfold nonul. apply Forall_skipn'. Qed.

(* ---------------------------------------------------------------------------------------- *)
(* (1) vi_help                                                                               *)

(* what the scan keeps true: end, when set, is behind the pointer; beg is set as soon as a word was seen,
   it is behind the pointer, and outside a word the last word's end is set and not before its beginning *)
Definition hinv (st : hscan) : Prop :=
  (forall e, h_end st = Some e -> (e <= h_pos st)%nat) /\
  match h_beg st with
  | None => h_last st <> 1%N
  | Some b => (b <= h_pos st)%nat /\ (h_last st <> 1%N -> exists e, h_end st = Some e /\ (b <= e)%nat)
  end.

Lemma help_scan_ok : forall fuel s st, nonul s -> (length s < fuel)%nat -> hinv st ->
  exists st', help_scan fuel s st = Ok st' /\ hinv st' /\ h_pos st' = (h_pos st + length s)%nat.
Proof.
  induction fuel as [|f IH]; intros s st F L I; [lia|].
  destruct s as [|b r].
  { exists st. cbn. repeat split; try apply I. lia. }
  cbn [help_scan].
  set (s := b :: r) in *.
  assert (Hne : s <> []) by (subst s; congruence).
  pose proof (uc_next_bounds s F Hne) as NB.
  destruct (Nat.ltb_spec (length s) (UcDefs.uc_next s)); [lia|].
  set (kind := UcDefs.uc_kind s).
  set (st1 := mkH kind (h_pos st + UcDefs.uc_next s)
                  (if negb (h_last st =? 1)%N && (kind =? 1)%N then Some (h_pos st) else h_beg st)
                  (if (h_last st =? 1)%N && negb (kind =? 1)%N then Some (h_pos st) else h_end st)).
  assert (I1 : hinv st1).
  { destruct I as (IE & IB). unfold hinv, st1. cbn [h_last h_pos h_beg h_end].
    destruct (N.eqb_spec (h_last st) 1) as [L1|L1], (N.eqb_spec kind 1) as [K1|K1]; cbn [negb andb].
    - (* inside a word, still inside *)
      split; [intros e He; specialize (IE e He); lia|].
      destruct (h_beg st) as [b0|]; [|congruence]. destruct IB as (B1 & _). split; [lia|]. intro C; congruence.
    - (* the word ends here *)
      split; [intros e He; inversion He; lia|].
      destruct (h_beg st) as [b0|]; [|congruence]. destruct IB as (B1 & _). split; [lia|].
      intros _. exists (h_pos st). split; [reflexivity|lia].
    - (* a word begins here *)
      split; [intros e He; specialize (IE e He); lia|].
      split; [lia|]. intro C; congruence.
    - (* outside a word, still outside *)
      split; [intros e He; specialize (IE e He); lia|].
      destruct (h_beg st) as [b0|]; [|exact K1]. destruct IB as (B1 & B2). split; [lia|].
      intros _. apply B2. exact L1. }
  destruct (IH (skipn (UcDefs.uc_next s) s) st1) as (st' & E & I' & P').
  - apply nonul_skipn. exact F.
  - rewrite skipn_length. lia.
  - exact I1.
  - exists st'. split; [exact E|]. split; [exact I'|].
    rewrite P'. unfold st1. cbn [h_pos]. rewrite skipn_length. lia.
Qed.

Lemma hinv_init : hinv (mkH 0 0 None None).
Proof. split; cbn; [intros e He; discriminate|discriminate]. Qed.

Lemma firstn_skipn_length (A : Type) (l : list A) b n :
  (b + n <= length l)%nat -> length (firstn n (skipn b l)) = n.
Proof. intro H. rewrite firstn_length, skipn_length. lia. Qed.

(* the word handed to tag_find: the code's cut keeps it below TAGSZ bytes, whatever the line *)
Lemma vi_help_tag_fits ln : nonul ln ->
  exists r, vi_help_tag ln = Ok r /\
    match r with
    | None => True
    | Some t => Z.of_nat (length t) < TAGSZ /\
                exists b, (b + length t <= length ln)%nat /\ t = firstn (length t) (skipn b ln)
    end.
Proof.
  intro F. pose proof tag_size as TS. unfold vi_help_tag, vi_help_tag_gen.
  destruct (help_scan_ok (S (length ln)) ln (mkH 0 0 None None) F) as (st & E & (IE & IB) & P); [lia|exact hinv_init|].
  rewrite E. cbn [bind]. cbn [h_pos] in P. rewrite Nat.add_0_l in P.
  destruct (h_beg st) as [b|]; [|exists None; split; [reflexivity|exact I]].
  destruct IB as (B1 & B2).
  assert (EN : exists e, (if (h_last st =? 1)%N then Some (h_pos st) else h_end st) = Some e /\ (b <= e <= length ln)%nat).
  { destruct (N.eqb_spec (h_last st) 1) as [L1|L1].
    - exists (h_pos st). split; [reflexivity|lia].
    - destruct (B2 L1) as (e & He & Hbe). exists e. split; [exact He|]. specialize (IE e He). lia. }
  destruct EN as (e & -> & Hbe & Hel).
  set (len := Z.of_nat e - Z.of_nat b).
  assert (Hlen : 0 <= len) by (subst len; lia).
  set (n := help_cut CutBytes (skipn b ln) len).
  assert (Hn : 0 <= n < TAGSZ /\ n <= len).
  { subst n. unfold help_cut. destruct (Z.ltb_spec (len + 1) 0); [lia|]. cbn [orb].
    destruct (Z.ltb_spec TAGSZ (len + 1)); lia. }
  unfold tag_copy.
  destruct (Z.ltb_spec n 0); [lia|]. destruct (Z.ltb_spec TAGSZ n); [lia|]. cbn [orb].
  destruct (Z.ltb_spec (Z.of_nat (length ln) + 1) (Z.of_nat b + n)); [subst len; lia|].
  rewrite ixw_ok by lia. cbn [bind].
  eexists. split; [reflexivity|]. cbn beta iota.
  assert (LT : length (firstn (Z.to_nat n) (skipn b ln)) = Z.to_nat n).
  { apply firstn_skipn_length. subst len. lia. }
  rewrite LT. split; [lia|]. exists b. split; [subst len; lia|reflexivity].
Qed.

(* ---------------------------------------------------------------------------------------- *)
(* (2) ai[]                                                                                  *)

Lemma ai_fill_ok : forall fuel k n, 0 <= n -> n <= ai_max -> (Z.to_nat (k - n) < fuel)%nat ->
  exists m, ai_fill fuel k n = Ok m /\ n <= m <= ai_max.
Proof.
  pose proof ai_size as SZ. unfold ai_max in *.
  induction fuel as [|f IH]; intros k n H0 H1 HF; [lia|].
  cbn [ai_fill]. unfold ai_max.
  destruct (Z.ltb_spec n (AISZ - 1)), (Z.ltb_spec n k); cbn [andb]; try (exists n; split; [reflexivity|lia]).
  rewrite ixw_ok by lia. cbn [bind].
  destruct (IH k (n + 1)) as (m & E & Hm); try lia.
  exists m. split; [exact E|lia].
Qed.

Lemma ai_init_ok k : exists n, ai_init k = Ok n /\ 0 <= n <= ai_max.
Proof.
  pose proof ai_size as SZ. unfold ai_init.
  destruct (ai_fill_ok (S (Z.to_nat k)) k 0) as (m & E & Hm); try (unfold ai_max; lia).
  rewrite E. cbn [bind]. unfold ai_max in *. rewrite ixw_ok by lia. cbn [bind]. exists m. split; [reflexivity|lia].
Qed.

Lemma ai_step_ok len o : 0 <= len <= ai_max -> aiop_ok o -> exists len', ai_step len o = Ok len' /\ 0 <= len' <= ai_max.
Proof.
  pose proof ai_size as SZ. unfold ai_max. intros H HO. destruct o as [| |sp pe xai]; cbn [ai_step]; unfold ai_max.
  - destruct (Z.ltb_spec len (AISZ - 1)); [|exists len; split; [reflexivity|lia]].
    rewrite !ixw_ok by lia. cbn [bind]. eexists; split; [reflexivity|lia].
  - destruct (Z.ltb_spec 0 len); [|exists len; split; [reflexivity|lia]].
    rewrite ixw_ok by lia. cbn [bind]. eexists; split; [reflexivity|lia].
  - cbn in HO. destruct pe.
    + cbv zeta.
      set (new := if AISZ - 1 <? len + sp then AISZ - 1 - len else sp).
      assert (0 <= new /\ len + new <= AISZ - 1) by (subst new; destruct (Z.ltb_spec (AISZ - 1) (len + sp)); lia).
      destruct (Z.ltb_spec new 0); [lia|]. destruct (Z.ltb_spec len 0); [lia|].
      destruct (Z.ltb_spec AISZ (len + new)); [lia|]. cbn [orb].
      rewrite ixw_ok by lia. cbn [bind].
      destruct xai; [eexists; split; [reflexivity|lia]|].
      rewrite ixw_ok by lia. cbn [bind]. exists 0. split; [reflexivity|lia].
    + cbn [bind]. destruct xai; [exists len; split; [reflexivity|lia]|].
      rewrite ixw_ok by lia. cbn [bind]. exists 0. split; [reflexivity|lia].
Qed.

Lemma ai_run_ok : forall ops len, 0 <= len <= ai_max -> Forall aiop_ok ops ->
  exists len', ai_run len ops = Ok len' /\ 0 <= len' <= ai_max.
Proof.
  induction ops as [|o r IH]; intros len H F; [exists len; split; [reflexivity|exact H]|].
  inversion F; subst. cbn [ai_run].
  destruct (ai_step_ok len o H) as (l1 & E & H1); [assumption|]. rewrite E. cbn [bind]. apply IH; assumption.
Qed.

Lemma ai_bounded k ops : Forall aiop_ok ops ->
  exists n len, ai_init k = Ok n /\ ai_run n ops = Ok len /\ 0 <= len /\ len < AISZ.
Proof.
  intro F. destruct (ai_init_ok k) as (n & E & Hn). destruct (ai_run_ok ops n Hn F) as (len & E2 & H2).
  exists n, len. unfold ai_max in *. repeat split; try assumption; lia.
Qed.

(* ---------------------------------------------------------------------------------------- *)
(* (3) uc_trim                                                                               *)

Lemma uc_len_pos t : nonul t -> t <> [] -> (1 <= UcDefs.uc_len t)%nat.
Proof.
  intros F Hne. destruct t as [|b r]; [congruence|]. inversion F as [|? ? Hb _]; subst. unfold byte_ok in Hb.
  unfold UcDefs.uc_len, UcDefs.uc_len_b. cbn [hd0].
  destruct (negb (bit b 128 && bit b 64)).
  - destruct (N.ltb_spec 0 b); lia.
  - destruct (negb (bit b 32)); [lia|]. destruct (negb (bit b 16)); [lia|]. destruct (negb (bit b 8)); lia.
Qed.

Lemma uc_len_head a c : a <> [] -> UcDefs.uc_len (a ++ c) = UcDefs.uc_len a.
Proof. destruct a; [congruence|reflexivity]. Qed.

(* the loop: it stops after k more bytes, those bytes are whole characters, and it stopped because the string ended
   or because the next character announces more bytes than are left *)
Lemma trim_at_spec : forall fuel t i, nonul t -> (length t < fuel)%nat ->
  exists k, trim_at fuel t i = Ok (i + k)%nat /\ (k <= length t)%nat /\ wholechars (firstn k t) /\
            (k = length t \/ (length t < k + UcDefs.uc_len (skipn k t))%nat).
Proof.
  induction fuel as [|f IH]; intros t i F L; [lia|].
  destruct t as [|b r].
  { exists 0%nat. cbn [trim_at length firstn]. split; [rewrite Nat.add_0_r; reflexivity|]. split; [lia|]. split; [constructor|left; reflexivity]. }
  cbn [trim_at]. set (t := b :: r) in *.
  assert (Hne : t <> []) by (subst t; congruence).
  pose proof (uc_len_pos t F Hne) as LP.
  destruct (Nat.leb_spec (UcDefs.uc_len t) (length t)) as [Hfit|Hno].
  - destruct (IH (skipn (UcDefs.uc_len t) t) (i + UcDefs.uc_len t)%nat) as (k & E & Hk & W & Stop).
    + apply nonul_skipn. exact F.
    + rewrite skipn_length. lia.
    + rewrite skipn_length in Hk.
      exists (UcDefs.uc_len t + k)%nat. split; [rewrite E; f_equal; lia|]. split; [lia|]. split.
      * apply wc_cons.
        -- intro C. apply (f_equal (@length N)) in C. rewrite firstn_length in C. cbn [length] in C. lia.
        -- assert (HL : length (firstn (UcDefs.uc_len t + k) t) = (UcDefs.uc_len t + k)%nat) by (rewrite firstn_length; lia).
           assert (HU : UcDefs.uc_len (firstn (UcDefs.uc_len t + k) t) = UcDefs.uc_len t).
           { subst t. destruct (UcDefs.uc_len (b :: r) + k)%nat eqn:EE; [lia|reflexivity]. }
           rewrite HU, HL. lia.
        -- assert (HU : UcDefs.uc_len (firstn (UcDefs.uc_len t + k) t) = UcDefs.uc_len t).
           { subst t. destruct (UcDefs.uc_len (b :: r) + k)%nat eqn:EE; [lia|reflexivity]. }
           rewrite HU. rewrite <- firstn_skipn_comm. exact W.
      * rewrite skipn_length in Stop. rewrite skipn_skipn in Stop.
        replace (k + UcDefs.uc_len t)%nat with (UcDefs.uc_len t + k)%nat in Stop by lia.
        destruct Stop as [S1|S1]; [left; lia|right; lia].
  - exists 0%nat. split; [rewrite Nat.add_0_r; reflexivity|]. split; [lia|]. split; [constructor|]. right. cbn [skipn]. lia.
Qed.

(* on a string of whole characters the loop runs to the end *)
Lemma trim_at_whole : forall fuel t i, wholechars t -> (length t < fuel)%nat -> trim_at fuel t i = Ok (i + length t)%nat.
Proof.
  induction fuel as [|f IH]; intros t i W L; [lia|].
  destruct W as [|t Hne HL W]; [cbn; f_equal; lia|].
  destruct t as [|b r]; [congruence|]. cbn [trim_at]. set (t := b :: r) in *.
  destruct (Nat.leb_spec (UcDefs.uc_len t) (length t)); [|lia].
  rewrite IH; [|exact W|rewrite skipn_length; lia]. rewrite skipn_length. f_equal. lia.
Qed.

Lemma uc_trim_spec s : nonul s ->
  exists i, uc_trim s = Ok (firstn i s) /\ (i <= length s)%nat /\ wholechars (firstn i s) /\
            (i = length s \/ (length s < i + UcDefs.uc_len (skipn i s))%nat) /\
            uc_trim (firstn i s) = Ok (firstn i s).
Proof.
  intro F. unfold uc_trim at 1.
  destruct (trim_at_spec (S (length s)) s 0 F) as (k & E & Hk & W & Stop); [lia|].
  rewrite E. cbn [bind]. rewrite Nat.add_0_l. destruct (Nat.leb_spec k (length s)); [|lia].
  exists k. split; [reflexivity|]. split; [exact Hk|]. split; [exact W|]. split; [exact Stop|].
  unfold uc_trim. rewrite trim_at_whole; [|exact W|lia]. cbn [bind]. rewrite Nat.add_0_l, Nat.leb_refl.
  f_equal. apply firstn_all.
Qed.

(* what is kept of a string of whole characters that was first cut to size - 1 bytes: whole characters of the string
   itself, fewer than size bytes *)
Lemma cut_store_spec size s : nonul s -> wholechars s ->
  exists i, cut_store size s = Ok (firstn i s) /\ (i <= size - 1)%nat /\ (i <= length s)%nat /\ wholechars (firstn i s).
Proof.
  intros F _. unfold cut_store.
  destruct (uc_trim_spec (firstn (size - 1) s)) as (i & E & Hi & W & _).
  { unfold nonul. apply Forall_firstn'. exact F. }
  rewrite firstn_length in Hi. rewrite firstn_firstn in E, W.
  replace (Nat.min i (size - 1)) with i in E, W by lia.
  exists i. split; [exact E|]. split; [lia|]. split; [lia|exact W].
Qed.
