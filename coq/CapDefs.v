(* CapDefs.v -- C05: capacity models of the fixed-size buffers that input can reach.
   No proofs here (the model must extract even when a proof breaks).

   Conventions (DESIGN.md section 2): a C string is the list of its bytes, the terminator is
   implicit at index [length s]; a read at an index beyond the terminator is [OobRd]; a
   destination buffer has an explicit capacity and a write when no room is left is [OobWr];
   loops run on fuel and running out is [NoFuel].  The three are distinct from every value.

   Modelled, branch by branch:
     ex.c    ex_loc ex_cmd ex_idx ex_arg ex_txt (the "rs" scan) ex_exec (parse loop, length guard)
             ex_lineno (syntax, marks and searches through oracles)  ex_region  cutword  ec_set (destinations)  ex_plus
     term.c  term_push term_read term_cmd (ibuf/icmd bookkeeping)                                *)
From Coq Require Import List NArith ZArith Bool.
From NV Require Import Bytes GenConsts GenExCmds.
Import ListNotations.

Inductive res (A : Type) : Type := Ok (a : A) | OobRd | OobWr | NoFuel.
Arguments Ok {A} a.
Arguments OobRd {A}.
Arguments OobWr {A}.
Arguments NoFuel {A}.

Definition bind {A B} (r : res A) (f : A -> res B) : res B :=
  match r with Ok a => f a | OobRd => OobRd | OobWr => OobWr | NoFuel => NoFuel end.
Notation "'do' x <- e ; f" := (bind e (fun x => f)) (at level 200, x name, e at level 100, f at level 200).

(* ---------------------------------------------------------------------------------------- *)
(* checked memory                                                                            *)

(* s[i]: the bytes, then the terminator, then nothing *)
Definition rd (s : bytes) (i : nat) : res N :=
  match nth_error s i with
  | Some b => Ok b
  | None => if Nat.eqb i (length s) then Ok 0%N else OobRd
  end.

(* a destination buffer written front to back ( *dst++ = c ): bytes written so far (last first)
   and the room that is left; the capacity is [length wbuf + wroom] and never changes *)
Definition W : Type := (list N * nat)%type.
Definition newbuf (cap : nat) : W := ([], cap).
Definition wroom (w : W) : nat := snd w.
Definition wlen (w : W) : nat := length (fst w).
Definition wcap (w : W) : nat := (wlen w + wroom w)%nat.
Definition wr (w : W) (b : N) : res W :=
  match snd w with
  | O => OobWr
  | S r => Ok (b :: fst w, r)
  end.
(* the C string found in the buffer afterwards (without the terminator just written) *)
Definition wstr (w : W) : bytes := match fst w with [] => [] | _ :: r => rev r end.

Local Open Scope N_scope.

Definition mem (c : N) (set : list N) : bool := existsb (N.eqb c) set.
Definition is_blank (c : N) : bool := (c =? 32) || (c =? 9).
Definition is_colon_blank (c : N) : bool := (c =? 58) || (c =? 32) || (c =? 9).
Definition c_isalpha (c : N) : bool := ((65 <=? c) && (c <=? 90)) || ((97 <=? c) && (c <=? 122)).
Definition c_isdigit (c : N) : bool := (48 <=? c) && (c <=? 57).
Definition c_isspace (c : N) : bool := (c =? 32) || ((9 <=? c) && (c <=? 13)).

(* while (pre( *src)) src++;   (pre is false on the terminator) *)
Fixpoint skip_while (fuel : nat) (pre : N -> bool) (s : bytes) (i : nat) : res nat :=
  match fuel with
  | O => NoFuel
  | S f => do c <- rd s i; if pre c then skip_while f pre s (S i) else Ok i
  end.

(* *dst++ = *src++; *)
Definition copy1 (s : bytes) (i : nat) (w : W) : res (nat * W) :=
  do c <- rd s i; do w' <- wr w c; Ok (S i, w').

(* if ( *src == '\\' && src[1]) *dst++ = *src++; *)
Definition esc (s : bytes) (i : nat) (w : W) : res (nat * W) :=
  do c <- rd s i;
  if c =? 92 then (do c1 <- rd s (S i); if c1 =? 0 then Ok (i, w) else copy1 s i w)
  else Ok (i, w).

(* while ( *src && !stop( *src)) { esc; *dst++ = *src++; } *)
Fixpoint copy_until (fuel : nat) (stop : N -> bool) (s : bytes) (i : nat) (w : W) : res (nat * W) :=
  match fuel with
  | O => NoFuel
  | S f =>
    do c <- rd s i;
    if (c =? 0) || stop c then Ok (i, w) else
    do iw <- esc s i w;
    do iw' <- copy1 s (fst iw) (snd iw);
    copy_until f stop s (fst iw') (snd iw')
  end.

(* ---------------------------------------------------------------------------------------- *)
(* ex.c: ex_loc                                                                              *)

Fixpoint loc_main (fuel : nat) (s : bytes) (i : nat) (w : W) : res (nat * W) :=
  match fuel with
  | O => NoFuel
  | S f =>
    do c <- rd s i;
    if (c =? 0) || negb (mem c exloc_set) then Ok (i, w) else
    do iw1 <- (if c =? 39 then copy1 s i w else Ok (i, w));
    do c2 <- rd s (fst iw1);
    do iw2 <- (if (c2 =? 47) || (c2 =? 63)
               then (do iw <- copy1 s (fst iw1) (snd iw1);
                     copy_until (S (length s)) (N.eqb c2) s (fst iw) (snd iw))
               else Ok iw1);
    do c3 <- rd s (fst iw2);
    do iw3 <- (if c3 =? 0 then Ok iw2 else copy1 s (fst iw2) (snd iw2));
    loc_main f s (fst iw3) (snd iw3)
  end.

Definition ex_loc (s : bytes) (i : nat) (w : W) : res (nat * W) :=
  do i1 <- skip_while (S (length s)) is_colon_blank s i;
  do iw <- loc_main (S (length s)) s i1 w;
  do w' <- wr (snd iw) 0;
  Ok (fst iw, w').

(* ---------------------------------------------------------------------------------------- *)
(* ex.c: ex_cmd    (n = cmd - cmd0)                                                          *)

Fixpoint cmd_loop (fuel : nat) (s : bytes) (i : nat) (w : W) (n : nat) : res (nat * W) :=
  match fuel with
  | O => NoFuel
  | S f =>
    do c <- rd s i;
    if c_isalpha c && Nat.ltb n 16 then
      (do w' <- wr w c;
       if (c =? 107) && Nat.eqb (S n) 1 then Ok (S i, w') else cmd_loop f s (S i) w' (S n))
    else Ok (i, w)
  end.

Definition ex_cmd (s : bytes) (i : nat) (w : W) : res (nat * W) :=
  do i1 <- skip_while (S (length s)) is_blank s i;
  do iw <- cmd_loop (S (length s)) s i1 w 0;
  do c <- rd s (fst iw);
  do iw2 <- (if (c =? 33) || (c =? 61) || (c =? 64) then copy1 s (fst iw) (snd iw) else Ok iw);
  do w' <- wr (snd iw2) 0;
  Ok (fst iw2, w').

(* ---------------------------------------------------------------------------------------- *)
(* ex.c: ex_idx over the generated command table                                             *)

Fixpoint bytes_eqb (a b : bytes) : bool :=
  match a, b with
  | [], [] => true
  | x :: a', y :: b' => (x =? y) && bytes_eqb a' b'
  | _, _ => false
  end.

Fixpoint idx_from (tab : list (bytes * bytes)) (cmd : bytes) (k : nat) : option (nat * bytes) :=
  match tab with
  | [] => None
  | (ab, nm) :: r => if bytes_eqb ab cmd || bytes_eqb nm cmd then Some (k, ab) else idx_from r cmd (S k)
  end.
Definition ex_idx (cmd : bytes) : option (nat * bytes) := idx_from excmds_tab cmd 0.
(* the string handed to ex_arg/ex_txt: the abbreviation, or "unknown" *)
Definition excmd_of (cmd : bytes) : bytes :=
  match ex_idx cmd with Some (_, ab) => ab | None => [117; 110; 107; 110; 111; 119; 110] end.
Definition ch0 (e : bytes) : N := nthb e 0.
Definition ch1 (e : bytes) : N := if ch0 e =? 0 then 0 else nthb e 1.

(* ---------------------------------------------------------------------------------------- *)
(* ex.c: ex_arg                                                                              *)

Fixpoint arg_sub (fuel : nat) (s : bytes) (delim : N) (i : nat) (w : W) (cnt : nat) : res (nat * W) :=
  match fuel with
  | O => NoFuel
  | S f =>
    do c <- rd s i;
    if (c =? 0) || (c =? 10) || Nat.eqb cnt 0 then Ok (i, w) else
    let cnt' := if c =? delim then pred cnt else cnt in
    do iw <- esc s i w;
    do iw' <- copy1 s (fst iw) (snd iw);
    arg_sub f s delim (fst iw') (snd iw') cnt'
  end.

Definition stop_nl (c : N) : bool := c =? 10.
Definition stop_tail (c : N) : bool := (c =? 10) || (c =? 124) || (c =? 34).
Definition not_nl (c : N) : bool := negb (c =? 0) && negb (c =? 10).

Definition ex_arg (s : bytes) (i : nat) (w : W) (c0 c1 : N) : res (nat * W) :=
  let F := S (length s) in
  do i1 <- skip_while F is_blank s i;
  do c <- rd s i1;
  do iw <-
    (if (c0 =? 33) || (c0 =? 103) || (c0 =? 118) || (((c0 =? 114) || (c0 =? 119)) && (c1 =? 0) && (c =? 33))
     then copy_until F stop_nl s i1 w
     else if ((c0 =? 115) && negb (c1 =? 101)) || (c0 =? 38) || (c0 =? 126)
     then (if negb (c =? 0) && negb (c =? 10) && negb (c =? 124) && negb (c =? 92) && negb (c =? 34)
           then (do iw0 <- copy1 s i1 w; arg_sub F s c (fst iw0) (snd iw0) 2)
           else Ok (i1, w))
     else Ok (i1, w));
  do iw2 <- copy_until F stop_tail s (fst iw) (snd iw);
  do c2 <- rd s (fst iw2);
  do i3 <- (if c2 =? 34 then skip_while F not_nl s (fst iw2) else Ok (fst iw2));
  do c3 <- rd s i3;
  do w' <- wr (snd iw2) 0;
  Ok (if (c3 =? 10) || (c3 =? 124) then S i3 else i3, w').

(* ---------------------------------------------------------------------------------------- *)
(* ex.c: ex_txt, only the part that moves src: the "rs" command with text on the same line   *)

Fixpoint txt_rs (fuel : nat) (s : bytes) (i : nat) : res nat :=
  match fuel with
  | O => NoFuel
  | S f =>
    do a <- rd s i;
    if a =? 0 then Ok i else
    if a =? 10 then
      (do b <- rd s (S i);
       if b =? 46 then (do c <- rd s (S (S i)); if c =? 10 then Ok i else txt_rs f s (S i))
       else txt_rs f s (S i))
    else txt_rs f s (S i)
  end.

Definition ex_txt_src (s : bytes) (i : nat) (c0 c1 : N) : res nat :=
  if (c0 =? 114) && (c1 =? 115) then
    (do a <- rd s i;
     if a =? 0 then Ok i else
     do j <- txt_rs (S (length s)) s i;
     do b <- rd s j;
     Ok (if b =? 0 then j else (j + 3)%nat))
  else Ok i.

(* ---------------------------------------------------------------------------------------- *)
(* ex.c: ex_exec -- the length guard and the parse loop (dispatch is not part of this model)  *)

Record parsed : Type := mkParsed { p_loc : bytes; p_cmd : bytes; p_idx : Z; p_arg : bytes; p_next : nat }.

Definition excap : nat := Z.to_nat EXLEN.

Definition parse_one (s : bytes) (i : nat) : res parsed :=
  do l <- ex_loc s i (newbuf excap);
  do c <- ex_cmd s (fst l) (newbuf excap);
  let cmd := wstr (snd c) in
  let e := excmd_of cmd in
  do a <- ex_arg s (fst c) (newbuf excap) (ch0 e) (ch1 e);
  do j <- ex_txt_src s (fst a) (ch0 e) (ch1 e);
  Ok (mkParsed (wstr (snd l)) cmd
        (match ex_idx cmd with Some (k, _) => Z.of_nat k | None => (-1)%Z end)
        (wstr (snd a)) j).

Fixpoint exec_loop (fuel : nat) (s : bytes) (i : nat) : res (list parsed) :=
  match fuel with
  | O => NoFuel
  | S f =>
    do c <- rd s i;
    if c =? 0 then Ok [] else
    do p <- parse_one s i;
    do r <- exec_loop f s (p_next p);
    Ok (p :: r)
  end.

(* strlen: the bytes before the first NUL *)
Fixpoint cstrlen (s : bytes) : nat :=
  match s with [] => O | b :: r => if b =? 0 then O else S (cstrlen r) end.

Inductive exec_out : Type := TooLong | Parsed (r : res (list parsed)).
Definition ex_exec (ln : bytes) : exec_out :=
  if (EXLEN <=? Z.of_nat (cstrlen ln))%Z then TooLong else Parsed (exec_loop (S (length ln)) ln 0).
(* the same without the guard: what the three scanners do when a longer line reaches them *)
Definition ex_exec_unguarded (ln : bytes) : res (list parsed) := exec_loop (S (length ln)) ln 0.

(* ---------------------------------------------------------------------------------------- *)
(* ex.c: cutword and the destinations of ec_set (tok[EXLEN], opt[EXLEN]); ex_plus (pls[EXLEN]) *)

Fixpoint cut_copy (fuel : nat) (s : bytes) (i : nat) (w : W) : res (nat * W) :=
  match fuel with
  | O => NoFuel
  | S f =>
    do c <- rd s i;
    if (c =? 0) || c_isspace c then Ok (i, w) else
    do iw <- copy1 s i w; cut_copy f s (fst iw) (snd iw)
  end.

Definition cutword (s : bytes) (i : nat) (w : W) : res (nat * W) :=
  let F := S (length s) in
  do i1 <- skip_while F c_isspace s i;
  do iw <- cut_copy F s i1 w;
  do i2 <- skip_while F c_isspace s (fst iw);
  do w' <- wr (snd iw) 0;
  Ok (i2, w').

(* strcpy(dst, src + k) *)
Fixpoint strcpy_from (fuel : nat) (s : bytes) (i : nat) (w : W) : res W :=
  match fuel with
  | O => NoFuel
  | S f => do c <- rd s i; do w' <- wr w c; if c =? 0 then Ok w' else strcpy_from f s (S i) w'
  end.

Fixpoint index_of (c : N) (s : bytes) : option nat :=
  match s with [] => None | b :: r => if b =? c then Some O else option_map S (index_of c r) end.

(* ec_set up to the option lookup: returns (opt, value text offset) *)
Definition ec_set_bufs (arg : bytes) : res (bytes * bytes) :=
  do c <- rd arg 0;
  if c =? 0 then Ok ([], []) else
  do t <- cutword arg 0 (newbuf excap);
  let tok := wstr (snd t) in
  let F := S (length tok) in
  if (nthb tok 0 =? 110) && (nthb tok 1 =? 111) then
    (do o <- strcpy_from F tok 2 (newbuf excap); Ok (tok, wstr o))
  else
    match index_of 61 tok with
    | Some k => do o <- strcpy_from (S k) (firstn k tok) 0 (newbuf excap); Ok (tok, wstr o)
    | None => do o <- strcpy_from F tok 0 (newbuf excap); Ok (tok, wstr o)
    end.

(* ex_plus: "+cmd" in front of a file name: pls[EXLEN] filled from arg *)
Fixpoint plus_loop (fuel : nat) (s : bytes) (i : nat) (w : W) : res (nat * W) :=
  match fuel with
  | O => NoFuel
  | S f =>
    do c <- rd s i;
    if (c =? 0) || (c =? 32) then Ok (i, w) else
    do i1 <- (if c =? 92 then (do b <- rd s (S i); Ok (if b =? 0 then i else S i)) else Ok i);
    do iw <- copy1 s i1 w;
    plus_loop f s (fst iw) (snd iw)
  end.

Definition ex_plus (s : bytes) (i : nat) (w : W) : res (nat * W) :=
  let F := S (length s) in
  do i1 <- skip_while F (fun c => c =? 32) s i;
  if Nat.eqb (wroom w) 0 then OobWr else          (* *dst = '\0' *)
  do c <- rd s i1;
  if negb (c =? 43) then Ok (i1, w) else
  do iw <- plus_loop F s i1 w;
  do w' <- wr (snd iw) 0;
  do i2 <- skip_while F is_blank s (fst iw);
  Ok (i2, w').

(* ---------------------------------------------------------------------------------------- *)
(* ex.c: ex_lineno and ex_region                                                             *)

Local Open Scope Z_scope.

Fixpoint digits_val (fuel : nat) (s : bytes) (i : nat) (acc : Z) : res (Z * nat) :=
  match fuel with
  | O => NoFuel
  | S f => do c <- rd s i;
           if c_isdigit c then digits_val f s (S i) (acc * 10 + (Z.of_N c - 48)) else Ok (acc, i)
  end.

(* the  while ( **num == '-' || **num == '+')  n += atoi(( *num)++) ...  loop *)
Fixpoint offsets (fuel : nat) (s : bytes) (i : nat) (n : Z) : res (Z * nat) :=
  match fuel with
  | O => NoFuel
  | S f =>
    do c <- rd s i;
    if (c =? 45)%N || (c =? 43)%N then
      (do d <- digits_val (S (length s)) s (S i) 0;
       offsets f s (snd d) (if (c =? 45)%N then n - fst d else n + fst d))
    else Ok (n, i)
  end.

Section Lineno.
  (* the buffer and what is looked up in it: number of lines, marks ( lbuf_jump: None = unset ),
     searches ( ex_search at a position of the address string: row or failure, and the position
     after the pattern ) *)
  Variable len : Z.
  Variable mark : N -> option Z.
  Variable search : Z -> bytes -> nat -> option Z * nat.

  (* returns (n, new position); n = -2 is the failure value of the C code *)
  Definition ex_lineno (xrow : Z) (s : bytes) (i : nat) : res (Z * nat) :=
    do c <- rd s i;
    do r <-
      (if (c =? 46)%N then Ok (Some (xrow, S i))
       else if (c =? 36)%N then Ok (Some (len - 1, S i))
       else if (c =? 39)%N then
         (do m <- rd s (S i);
          match mark m with None => Ok None | Some n => Ok (Some (n, S (S i))) end)
       else if (c =? 47)%N || (c =? 63)%N then
         (match search xrow s i with (Some n, j) => if n <? 0 then Ok None else Ok (Some (n, j)) | (None, _) => Ok None end)
       else if c_isdigit c then (do d <- digits_val (S (length s)) s i 0; Ok (Some (fst d - 1, snd d)))
       else Ok (Some (xrow, i)));
    match r with
    | None => Ok (-2, i)
    | Some (n, j) => offsets (S (length s)) s j n
    end.
End Lineno.

Inductive region : Type := RFail | ROk (beg end_ : Z).

Section Region.
  Variable len : Z.                                  (* lbuf_len(xb) *)
  (* ex_lineno as seen from ex_region: any integer, any new position *)
  Variable lineno : Z -> bytes -> nat -> res (Z * nat).

  Fixpoint region_loop (fuel : nat) (s : bytes) (i : nat) (xrow : Z) (naddr : nat) (beg end_ : Z)
    : res (option (Z * Z) * Z) :=
    match fuel with
    | O => NoFuel
    | S f =>
      do c <- rd s i;
      if (c =? 0)%N then Ok (Some (beg, end_), xrow) else
      do r <- lineno xrow s i;
      let end1 := fst r + 1 in
      let beg1 := match naddr with O => end1 - 1 | _ => end_ - 1 end in
      if end1 <? 0 then Ok (None, xrow) else
      do j <- skip_while (S (length s)) (fun c => negb (c =? 0)%N && negb (c =? 59)%N && negb (c =? 44)%N) s (snd r);
      do c2 <- rd s j;
      if (c2 =? 0)%N then Ok (Some (beg1, end1), xrow) else
      region_loop f s (S j) (if (c2 =? 59)%N then end1 - 1 else xrow) (S naddr) beg1 end1
    end.

  (* returns the region and the value of xrow afterwards *)
  Definition ex_region (loc : bytes) (xrow : Z) : res (region * Z) :=
    if bytes_eqb loc [37%N] then Ok (ROk 0 (Z.max 0 len), xrow) else
    do c <- rd loc 0;
    if (c =? 0)%N then
      Ok (if (xrow <? 0) || (len <? xrow) then RFail else ROk xrow (if xrow =? len then xrow else xrow + 1), xrow)
    else
    do r <- region_loop (S (length loc)) loc 0 xrow 0 0 0;
    match fst r with
    | None => Ok (RFail, snd r)
    | Some (b, e) =>
      let b := if (b <? 0) && (e =? 0) then 0 else b in
      if (b <? 0) || (len <=? b) then Ok (RFail, snd r) else
      if (e <? b) || (len <? e) then Ok (RFail, snd r) else
      Ok (ROk b e, snd r)
    end.
End Region.

(* ---------------------------------------------------------------------------------------- *)
(* term.c: ibuf[IBUFSZ], icmd[ICMDSZ]                                                        *)

Record tstate : Type := mkT { ibuf_pos : Z; ibuf_cnt : Z; icmd_pos : Z }.
Definition t_init : tstate := mkT 0 0 0.

Inductive top : Type :=
| TPush (n : Z)                  (* term_push(s, n), n >= 0 bytes available at s *)
| TRead (refill : option Z)      (* term_read(); when ibuf is used up read(0, ibuf, 1) returns refill bytes (None: poll/read failed) *)
| TCmd.                          (* term_cmd() *)

(* memory model of the two arrays: a memcpy/store outside [0, size) is OobWr, a load outside the
   filled part is OobRd *)
Definition t_step (t : tstate) (o : top) : res tstate :=
  match o with
  | TPush n =>
    let n' := Z.min n (IBUFSZ - ibuf_cnt t) in
    let len := ibuf_cnt t - ibuf_pos t in
    (* memmove(ibuf + pos + n', ibuf + pos, len): the unread keys move up by n' ... *)
    if (n' <? 0) || (len <? 0) || (ibuf_pos t <? 0) || (IBUFSZ <? ibuf_pos t + len) then OobRd else
    if IBUFSZ <? ibuf_pos t + n' + len then OobWr
    (* ... memcpy(ibuf + pos, s, n'): the pushed keys are read first; the read part is not reclaimed *)
    else Ok (mkT (ibuf_pos t) (ibuf_cnt t + n') (icmd_pos t))
  | TRead refill =>
    let fill :=
      if ibuf_cnt t <=? ibuf_pos t then
        match refill with
        | Some n => if n <=? 0 then None else Some (mkT 0 n (icmd_pos t))
        | None => None
        end
      else Some t in
    match fill with
    | None => Ok t                                    (* return -1 before anything is stored *)
    | Some t1 =>
      if (ibuf_pos t1 <? ibuf_cnt t1) && ((ibuf_pos t1 <? 0) || (IBUFSZ <=? ibuf_pos t1)) then OobRd else
      let t2 := if ibuf_pos t1 <? ibuf_cnt t1 then mkT (ibuf_pos t1 + 1) (ibuf_cnt t1) (icmd_pos t1) else t1 in
      if icmd_pos t2 <? ICMDSZ then
        (if icmd_pos t2 <? 0 then OobWr else Ok (mkT (ibuf_pos t2) (ibuf_cnt t2) (icmd_pos t2 + 1)))
      else Ok t2
    end
  | TCmd => Ok (mkT (ibuf_pos t) (ibuf_cnt t) 0)
  end.

Fixpoint t_run (t : tstate) (ops : list top) : res tstate :=
  match ops with
  | [] => Ok t
  | o :: r => do t' <- t_step t o; t_run t' r
  end.

(* the same step with the clip of term_push removed / the icmd test removed: used to show that
   the model has teeth (Properties_C05: the unclipped variants do overflow) *)
Definition t_step_noclip (t : tstate) (o : top) : res tstate :=
  match o with
  | TPush n => if IBUFSZ <? ibuf_cnt t + n then OobWr else Ok (mkT (ibuf_pos t) (ibuf_cnt t + n) (icmd_pos t))
  | _ => t_step t o
  end.
