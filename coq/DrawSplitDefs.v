(* DrawSplitDefs.v -- C19, two windows (^Ws): the geometry vi_switch() hands to term_window(), the whole screen as one list
   of rows (text rows and message row of the upper window, then those of the lower one), the `:` case of the main loop of
   vi() -- which command lines are followed by the repaint of both windows -- and the tail of vi() after an ex command that
   wrote to the terminal and stopped at "[enter to continue]" (vi_wait() resets the scroll region to the whole screen).
   Rows are abstract as in DrawDefs.v (`f i` = what vi_drawrow draws for buffer row i of that window's buffer).
   Executable; no proofs here (DrawSplitProps.v). *)
From Coq Require Import List Arith ZArith NArith Bool.
From NV Require Import TermEmu DrawDefs.
Import ListNotations.

(* vi_switch(id) with w_cnt windows on a terminal of `rows` rows: (beg, text rows) = the arguments of term_window(beg, cnt - 1):
     int beg = 0, cnt = term_rowx();
     if (w_cnt == 2) { int half = cnt / 2; beg = id == 0 ? 0 : half; cnt = id == 0 ? half : term_rowx() - half; } *)
Definition geom (rows wcnt id : nat) : nat * nat :=
  if wcnt =? 2 then
    let half := rows / 2 in
    if id =? 0 then (0, half - 1) else (half, rows - half - 1)
  else (0, rows - 1).

(* the `:` case of vi(): after ex_command(ln) every command line but exactly ":w" sets mod = VC_ALL
     if (strcmp(ln, ":w") != 0) mod = VC_ALL; *)
Fixpoint bytes_eqb (a b : list N) : bool :=
  match a, b with
  | [], [] => true
  | x :: a, y :: b => (x =? y)%N && bytes_eqb a b
  | _, _ => false
  end.
Fixpoint bytes_prefix (p s : list N) : bool :=
  match p, s with
  | [], _ => true
  | x :: p, y :: s => (x =? y)%N && bytes_prefix p s
  | _ :: _, [] => false
  end.
Definition COLON_W : list N := [58; 119]%N.                                   (* ":w" *)
Definition colon_repaints (ln : list N) : bool := negb (bytes_eqb ln COLON_W).
(* NOT vi.c: "every command line that starts with :w" -- here because the theorems say where it goes wrong *)
Definition colon_repaints_prefix (ln : list N) : bool := negb (bytes_prefix COLON_W ln).
(* ec_write(): the argument of `:w` names a command when it starts with '!': ex_print(NULL); cmd_pipe(path + 1, ibuf, 0);
   -- the child writes to the terminal itself, vi_printed goes negative and vi_wait() stops at "[enter to continue]" *)
Definition COLON_W_BANG : list N := [58; 119; 32; 33]%N.                      (* ":w !" *)
Definition write_to_command (ln : list N) : bool := bytes_prefix COLON_W_BANG ln.

Section Split.
Variable R : Type.

(* the rows [beg, beg + h) of the screen *)
Definition rows_at (beg h : nat) (scr : list R) : list R := firstn h (skipn beg scr).

(* vi_drawagain(xcol, -1) in the window whose first screen row is beg: term_pos(i - xtop, 0) adds win_beg *)
Definition drawwin (f : nat -> R) (beg top h : nat) (scr : list R) : list R :=
  fold_left (fun s i => set_nth (beg + i) (f (top + i)) s) (seq 0 h) scr.
(* ... followed by vi_drawmsg(): the message row is the row below the text rows *)
Definition drawwin_msg (f : nat -> R) (msg : R) (beg top h : nat) (scr : list R) : list R :=
  set_nth (beg + h) msg (drawwin f beg top h scr).

(* a window: xtop, xrow (w_top, w_row for the one that is not active) and the length of its buffer *)
Record view := mkView { v_top : Z; v_row : Z; v_len : Z }.

Record sstate := mkS {
  s_rows : nat;                 (* term_rowx() *)
  s_cur : nat;                  (* w_cur *)
  s_act : view;                 (* the active window *)
  s_oth : view;                 (* the other one *)
  s_region : nat * nat;         (* win_beg, win_rows of term.c = what term_rows() answers *)
  s_scr : list R }.

Definition view_fix (h : nat) (v : view) : view :=
  let '(t, r) := wfix (v_top v) (v_row v) (Z.of_nat h) (v_len v) in mkView t r (v_len v).

(* The tail of vi() with two windows after a `:` command line that printed through ex_print(NULL) / more than one line
   (vi_printed < 0 or > 1).  `junk` is what the command, the child process and the prompt left on the screen: any rows.
   `repaint` = (mod == VC_ALL).
       vi_wfix();                                       -- xrows is still the active window's height
       vi_wait();                                       -- term_window(0, term_rowx() - 1); "[enter to continue]"
       if (mod & VC_ALT && w_cnt > 1) { vi_switch(1 - id); vi_wfix(); vi_drawagain(.., -1); vi_switch(id); }
       if (mod & VC_WIN) vi_drawagain(xcol, -1); *)
Definition tail_after_wait (repaint : bool) (fa fo : nat -> R) (msga msgo : R) (junk : list R) (s : sstate) : sstate :=
  let rows := s_rows s in
  let id := s_cur s in
  let '(ba, ha) := geom rows 2 id in
  let '(bo, ho) := geom rows 2 (1 - id) in
  let act := view_fix ha (s_act s) in
  if repaint then
    let oth := view_fix ho (s_oth s) in
    let scr := drawwin_msg fo msgo bo (Z.to_nat (v_top oth)) ho junk in
    let scr := drawwin_msg fa msga ba (Z.to_nat (v_top act)) ha scr in
    mkS rows id act oth (ba, ha) scr
  else
    mkS rows id act (s_oth s) (0, rows - 1) junk.

(* ^Wx: vi_wswap() flips w_cur (the window moves into the other half); since fix 9a0f0fa the `^W x` case calls vi_switch(w_cur) at
   once, so term_rows() is the height of the NEW half when the tail of vi() runs; then mod = VC_ALL:
       vi_wfix();                                       -- fixed = true: the new half's height; before 9a0f0fa: the old region's
       vi_switch(1 - id); vi_wfix(); vi_drawagain(.., -1); vi_switch(id);  vi_drawagain(xcol, -1); *)
Definition wswap_tail (fixed : bool) (fa fo : nat -> R) (msga msgo : R) (s : sstate) : sstate :=
  let rows := s_rows s in
  let id := 1 - s_cur s in
  let '(ba, ha) := geom rows 2 id in
  let '(bo, ho) := geom rows 2 (1 - id) in
  let hfix := if fixed then ha else snd (s_region s) in
  let act := view_fix hfix (s_act s) in
  let oth := view_fix ho (s_oth s) in
  let scr := drawwin_msg fo msgo bo (Z.to_nat (v_top oth)) ho (s_scr s) in
  let scr := drawwin_msg fa msga ba (Z.to_nat (v_top act)) ha scr in
  mkS rows id act oth (ba, ha) scr.

(* each window shows a true window of its buffer, the cursor line of each is inside it, and the scroll region of the
   terminal (= the height every later vi_wfix / vi_drawupdate / term_room works with) is the active window's *)
Definition in_view (h : nat) (v : view) : Prop :=
  (0 <= v_top v /\ v_top v <= v_row v < v_top v + Z.of_nat h)%Z.
Definition split_inv (fa fo : nat -> R) (s : sstate) : Prop :=
  let '(ba, ha) := geom (s_rows s) 2 (s_cur s) in
  let '(bo, ho) := geom (s_rows s) 2 (1 - s_cur s) in
  rows_at ba ha (s_scr s) = win R fa (Z.to_nat (v_top (s_act s))) ha /\
  rows_at bo ho (s_scr s) = win R fo (Z.to_nat (v_top (s_oth s))) ho /\
  s_region s = (ba, ha) /\
  in_view ha (s_act s) /\ in_view ho (s_oth s) /\
  length (s_scr s) = s_rows s.
End Split.
