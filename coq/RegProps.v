(* RegProps.v -- C08_registers: proofs about the reg.c mirror. *)
From Coq Require Import List NArith ZArith Lia Bool ZifyN ZifyBool ZifyNat.
From NV Require Import Bytes UcDefs RegDefs.
Import ListNotations.
Local Open Scope N_scope.

Lemma upd_same R c v : upd R c v c = v.
Proof. unfold upd. rewrite N.eqb_refl. reflexivity. Qed.
Lemma upd_other R c v d : d <> c -> upd R c v d = R d.
Proof. intro H. unfold upd. apply N.eqb_neq in H. rewrite H. reflexivity. Qed.

(* the rotation only writes digit slots 2..9 *)
Lemma rot_step_other R d x : 49 <= d <= 56 -> x <> d + 1 -> rot_step R d x = R x.
Proof.
  intros Hd Hx. unfold rot_step, reg_get. destruct (N.eqb_spec d 34); [lia|].
  destruct (R d) as [[s l]|]; [|reflexivity]. unfold reg_putraw.
  assert (c_isupper (d + 1) = false) by (unfold c_isupper; lia).
  unfold c_tolower. rewrite H. apply upd_other. exact Hx.
Qed.
Lemma rot_step_hit R d v : 49 <= d <= 56 -> R d = Some v -> rot_step R d (d + 1) = Some v.
Proof.
  intros Hd Hv. unfold rot_step, reg_get. destruct (N.eqb_spec d 34); [lia|]. rewrite Hv. destruct v as [s l].
  unfold reg_putraw. assert (c_isupper (d + 1) = false) by (unfold c_isupper; lia).
  unfold c_tolower. rewrite H. cbn [app]. apply upd_same.
Qed.
Lemma rot_step_miss R d : 49 <= d <= 56 -> R d = None -> rot_step R d = R.
Proof. intros Hd Hv. unfold rot_step, reg_get. destruct (N.eqb_spec d 34); [lia|]. rewrite Hv. reflexivity. Qed.

Lemma fold_rot_other ds : forall R x, Forall (fun d => 49 <= d <= 56 /\ x <> d + 1) ds -> fold_left rot_step ds R x = R x.
Proof.
  induction ds as [|d ds IH]; intros R x H; cbn [fold_left]; [reflexivity|].
  inversion H as [|? ? [Hd Hx] Hr]; subst. rewrite IH by exact Hr. apply rot_step_other; assumption.
Qed.

Lemma rotate_split hi d lo R :
  Forall (fun d' => 49 <= d' <= 56 /\ d < d') hi -> Forall (fun d' => 49 <= d' <= 56 /\ d' < d) lo -> 49 <= d <= 56 ->
  fold_left rot_step (hi ++ d :: lo) R (d + 1) = match R d with Some v => Some v | None => R (d + 1) end.
Proof.
  intros Hh Hl Hd. rewrite fold_left_app. cbn [fold_left].
  rewrite fold_rot_other by (eapply Forall_impl; [|exact Hl]; cbv beta; intros; lia).
  set (R1 := fold_left rot_step hi R).
  assert (E1 : R1 d = R d) by (apply fold_rot_other; eapply Forall_impl; [|exact Hh]; cbv beta; intros; lia).
  assert (E2 : R1 (d + 1) = R (d + 1)) by (apply fold_rot_other; eapply Forall_impl; [|exact Hh]; cbv beta; intros; lia).
  destruct (R d) as [v|] eqn:Ev.
  - apply rot_step_hit; [exact Hd|]. rewrite E1. reflexivity.
  - rewrite rot_step_miss by (try rewrite E1; auto). exact E2.
Qed.

(* slot i+1 after the rotation = slot i before it (when slot i is set), for i = 1..8 *)
Lemma rotate_spec R : forall d, 49 <= d <= 56 ->
  rotate R (d + 1) = match R d with Some v => Some v | None => R (d + 1) end.
Proof.
  intros d Hd. unfold rotate, rot_digits.
  assert (C : d = 56 \/ d = 55 \/ d = 54 \/ d = 53 \/ d = 52 \/ d = 51 \/ d = 50 \/ d = 49) by lia.
  destruct C as [->|[->|[->|[->|[->|[->|[->| ->]]]]]]].
  - apply (rotate_split [] 56 [55; 54; 53; 52; 51; 50; 49]); repeat constructor; lia.
  - apply (rotate_split [56] 55 [54; 53; 52; 51; 50; 49]); repeat constructor; lia.
  - apply (rotate_split [56; 55] 54 [53; 52; 51; 50; 49]); repeat constructor; lia.
  - apply (rotate_split [56; 55; 54] 53 [52; 51; 50; 49]); repeat constructor; lia.
  - apply (rotate_split [56; 55; 54; 53] 52 [51; 50; 49]); repeat constructor; lia.
  - apply (rotate_split [56; 55; 54; 53; 52] 51 [50; 49]); repeat constructor; lia.
  - apply (rotate_split [56; 55; 54; 53; 52; 51] 50 [49]); repeat constructor; lia.
  - apply (rotate_split [56; 55; 54; 53; 52; 51; 50] 49 []); repeat constructor; lia.
Qed.
(* the rotation touches nothing but the slots 2..9 *)
Lemma rotate_other R x : ~ (50 <= x <= 57) -> rotate R x = R x.
Proof. intro H. unfold rotate, rot_digits. apply fold_rot_other. repeat constructor; lia. Qed.

(* ---------- reg_put ---------- *)
Definition rot_cond (c : N) (s : bytes) (ln : bool) : bool := (ln || has_nl s) && (N.eqb c 0 || c_isalpha c).

Lemma tolower_not_upper c : c_isupper c = false -> c_tolower c = c.
Proof. intro H. unfold c_tolower. rewrite H. reflexivity. Qed.

(* a lower-case, digit or unnamed register then holds exactly what was put *)
Lemma put_get_plain R c s ln : c_isupper c = false -> c <> 34 -> reg_get (reg_put R c s ln) c = Some (s, ln).
Proof.
  intros Hu Hq. unfold reg_get. apply N.eqb_neq in Hq. rewrite Hq. unfold reg_put, reg_putraw at 1.
  rewrite Hu, (tolower_not_upper c Hu). cbn [app]. apply upd_same.
Qed.
(* an upper-case name appends to the lower-case register *)
Lemma put_get_upper R c s ln : c_isupper c = true ->
  reg_get (reg_put R c s ln) (c + 32) =
  Some ((match R (c + 32) with Some (b, _) => b | None => [] end) ++ s, ln).
Proof.
  intros Hu. assert (Hc : 65 <= c <= 90) by (unfold c_isupper in Hu; lia).
  unfold reg_get. destruct (N.eqb_spec (c + 32) 34); [lia|]. unfold reg_put, reg_putraw at 1.
  rewrite Hu. unfold c_tolower. rewrite Hu. rewrite upd_same. f_equal. f_equal. f_equal.
  fold (rot_cond c s ln). destruct (rot_cond c s ln); [|reflexivity].
  unfold reg_putraw. change (c_isupper 49) with false. change (c_tolower 49) with 49. cbv iota.
  rewrite upd_other by lia. rewrite rotate_other by lia. reflexivity.
Qed.
(* a line-wise or multi-line put into the unnamed or an alphabetic register shifts 1->2->...->9 and
   stores the text in 1 *)
Lemma put_rotates R c s ln : rot_cond c s ln = true ->
  reg_put R c s ln 49 = Some (s, ln) /\
  forall d, 49 <= d <= 56 -> reg_put R c s ln (d + 1) = match R d with Some v => Some v | None => R (d + 1) end.
Proof.
  intros Hr. unfold reg_put. fold (rot_cond c s ln). rewrite Hr.
  assert (Hlc : ~ (49 <= c_tolower c <= 57)).
  { unfold rot_cond in Hr. apply andb_true_iff in Hr. destruct Hr as [_ Hr].
    assert (C : c = 0 \/ 65 <= c <= 90 \/ 97 <= c <= 122) by (unfold c_isalpha, c_isupper, c_islower in Hr; lia).
    unfold c_tolower, c_isupper. destruct C as [->|[C|C]].
    - cbn. lia.
    - destruct (N.leb_spec 65 c); [|lia]. destruct (N.leb_spec c 90); [|lia]. cbn [andb]. lia.
    - destruct (N.leb_spec c 90); [lia|]. rewrite andb_false_r. lia. }
  assert (H49 : c_isupper 49 = false) by reflexivity.
  split.
  - unfold reg_putraw at 1. rewrite upd_other by lia. unfold reg_putraw. change (c_isupper 49) with false. change (c_tolower 49) with 49.
    cbv iota. cbn [app]. apply upd_same.
  - intros d Hd. unfold reg_putraw at 1. rewrite upd_other by lia. unfold reg_putraw. change (c_isupper 49) with false. change (c_tolower 49) with 49.
    cbv iota. rewrite upd_other by lia. apply rotate_spec, Hd.
Qed.
(* nothing else changes *)
Lemma put_frame R c s ln x : x <> c_tolower c -> (rot_cond c s ln = true -> ~ (49 <= x <= 57)) ->
  reg_put R c s ln x = R x.
Proof.
  intros Hx Hr. unfold reg_put. fold (rot_cond c s ln). unfold reg_putraw at 1. rewrite upd_other by exact Hx.
  destruct (rot_cond c s ln); [|reflexivity]. specialize (Hr eq_refl).
  unfold reg_putraw. change (c_isupper 49) with false. change (c_tolower 49) with 49. cbv iota.
  rewrite upd_other by lia. apply rotate_other. lia.
Qed.
