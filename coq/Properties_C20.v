(* Properties_C20.v -- C20: each open buffer keeps its own text, position and dirty state across switches.
   Statements only; proofs are in BufsProps.v.  All theorems are stated for an ARBITRARY line-buffer
   payload type L with arbitrary operations Lo (lbuf.c is abstract here): whatever the operations on the
   current buffer do, the table code does not let them reach any other buffer. *)
From Coq Require Import List ZArith NArith Bool Permutation.
From NV Require Import GenConsts BufsDefs BufsProps BufsWf BufsReach.
Import ListNotations.

(* bufs_switch(idx): the table right before the rotation (`saved`) differs from the old table in slot 0 only --
   the buffer being left gets the globals as its saved view and the useq++ of lbuf_modified (its command ends),
   i.e. no buffer's text, history, marks or dirty flag changes; then slots 0..idx are rotated (a permutation)
   and the globals are loaded from the buffer that is now current.  bufs_cnt and the file system are untouched. *)
Theorem C20_switch_permutes : forall (L Op Out : Type) (Lo : lops L Op Out) (s : st L) (idx : nat),
  let s' := bufs_switch Lo s idx in
  bufs s' = switch (saved Lo s) idx /\ Permutation (bufs s') (saved Lo s) /\
  (forall j, (1 <= j)%nat -> nth_error (saved Lo s) j = nth_error (bufs s) j) /\
  (forall b, nth_error (bufs s) 0 = Some (Some b) ->
     nth_error (saved Lo s) 0 = Some (Some (bump Lo (set_view b (xv s))))) /\
  xv s' = match slot0 s' with Some b => b_view b | None => viewz end /\
  cnt s' = cnt s /\ fs s' = fs s.
Proof. intros L Op Out Lo. exact (switch_permutes Lo). Qed.
Print Assumptions C20_switch_permutes.

(* Well-formedness of the table: wf s says that the ids of the occupied slots are pairwise distinct, positive and at most
   bufs_cnt and that the occupied slots are a prefix of the 16 slots (BufsWf.wf: the list of optional ids is
   map Some ks ++ repeat None (16 - |ks|) with NoDup ks).  It holds after ex_init and is preserved by EVERY command
   (also by a 17th :e, which replaces slot 15), hence in every reachable state; so "a buffer with id n" is THE buffer. *)
Theorem C20_wf_reachable : forall (L Op Out : Type) (Lo : lops L Op Out) files argv (cs : list (cmd Op)),
  wf (fst (ex_init Lo files argv)) /\
  (forall s c, wf s -> wf (fst (ex_command Lo s c))) /\
  wf (run Lo (fst (ex_init Lo files argv)) cs).
Proof.
  intros L Op Out Lo files argv cs. split; [apply wf_init|]. split; [intros s c; apply wf_step|]. apply wf_run, wf_init.
Qed.
Print Assumptions C20_wf_reachable.
Theorem C20_wf_reading : forall (L : Type) (s : st L), wf s ->
  length (bufs s) = NB /\ (0 <= cnt s)%Z /\
  (forall i j b b', nth_error (bufs s) i = Some (Some b) -> nth_error (bufs s) j = Some (Some b') -> b_id b = b_id b' -> i = j) /\
  (forall i b, nth_error (bufs s) i = Some (Some b) -> (0 < b_id b <= cnt s)%Z) /\
  (forall i j b, nth_error (bufs s) i = Some (Some b) -> (j <= i)%nat -> exists b', nth_error (bufs s) j = Some (Some b')).
Proof.
  intros L s W. split; [apply wf_length; exact W|]. split; [apply wf_cnt; exact W|].
  split; [intros i j b b'; apply wf_unique; exact W|]. split; [intros i b; apply wf_bound; exact W|]. intros i j b; apply wf_prefix; exact W.
Qed.
Print Assumptions C20_wf_reading.

(* One command (any of :e :e! :ew :e # :b :b n :b + :b - :b % # ^ :b ! :next :prev :q :q! :w :w path, set wa,
   or ANY operation on the current buffer), issued while the table has 16 slots and -- if it allocates a new
   buffer -- a free slot: every buffer b that was not current (slot j >= 1) is still in the table with the same
   id, path, saved view (row, off, top, left, td) and mtime and an lbuf that differs at most by the useq++ of
   lbuf_modified (text, history, marks and dirty flag are functions of the other fields); and if b has become the
   current buffer, the globals xrow/xoff/xtop/xleft/xtd are exactly its saved view. *)
Theorem C20_isolation_step : forall (L Op Out : Type) (Lo : lops L Op Out) (s : st L) (c : cmd Op),
  length (bufs s) = NB -> c <> CBufRenum ->
  (In None (bufs s) \/ cnt (fst (ex_command Lo s c)) = cnt s) ->
  forall j b, (1 <= j)%nat -> nth_error (bufs s) j = Some (Some b) ->
  exists j' b', nth_error (bufs (fst (ex_command Lo s c))) j' = Some (Some b') /\ same_buf Lo b b' /\
                (j' = 0%nat -> xv (fst (ex_command Lo s c)) = b_view b).
Proof. intros L Op Out Lo s c Hl Hr Hroom. exact (frame_step Lo s c Hl Hr Hroom). Qed.
Print Assumptions C20_isolation_step.

(* Whole histories: for every command sequence that stays within 16 buffers (safe), a buffer that is not current
   at the start either is still there at the end, never having been current, unchanged -- or there is a first
   command after which it is the current buffer, unchanged, with the globals equal to its saved view
   ("returning to a buffer restores its saved row/offset"). *)
Theorem C20_isolation_ids : forall (L Op Out : Type) (Lo : lops L Op Out) (cs : list (cmd Op)) (s : st L) (j : nat) (b : buf L),
  length (bufs s) = NB -> (1 <= j)%nat -> nth_error (bufs s) j = Some (Some b) -> safe Lo s cs ->
  (exists j' b', (1 <= j')%nat /\ nth_error (bufs (run Lo s cs)) j' = Some (Some b') /\ same_buf Lo b b')
  \/ (exists pre c post b', cs = pre ++ c :: post /\ slot0 (run Lo s (pre ++ [c])) = Some b' /\ same_buf Lo b b' /\
                            xv (run Lo s (pre ++ [c])) = b_view b).
Proof. intros L Op Out Lo. exact (isolation_run Lo). Qed.
Print Assumptions C20_isolation_ids.

(* `b ~` (bufs_number): every buffer stays in its slot and keeps path, lbuf, saved view and mtime; only ids change -- in a
   well-formed table the buffer in slot j gets id j + 1 (ids 1..n in most-recently-used order). *)
Theorem C20_renumber : forall (L : Type) (s : st L) (j : nat) (b : buf L),
  wf s -> nth_error (bufs s) j = Some (Some b) ->
  nth_error (bufs (bufs_number s)) j = Some (Some (set_id b (Z.of_nat j + 1))) /\ xv (bufs_number s) = xv s /\ fs (bufs_number s) = fs s.
Proof. intros L. exact (@number_spec L). Qed.
Print Assumptions C20_renumber.

(* The history theorem for ALL command sequences within 16 buffers, `b ~` included: as C20_isolation_ids, with "unchanged"
   read modulo the id (same path, saved view, mtime, lbuf up to the useq counter) -- renumbering is the only command
   that changes the id of a buffer (C20_isolation_step / C20_isolation_ids for histories without it). *)
Theorem C20_isolation : forall (L Op Out : Type) (Lo : lops L Op Out) (cs : list (cmd Op)) (s : st L) (j : nat) (b : buf L),
  length (bufs s) = NB -> (1 <= j)%nat -> nth_error (bufs s) j = Some (Some b) -> safe_all Lo s cs ->
  (exists j' b', (1 <= j')%nat /\ nth_error (bufs (run Lo s cs)) j' = Some (Some b') /\ same_mod_id Lo b b')
  \/ (exists pre c post b', cs = pre ++ c :: post /\ slot0 (run Lo s (pre ++ [c])) = Some b' /\ same_mod_id Lo b b' /\
                            xv (run Lo s (pre ++ [c])) = b_view b).
Proof. intros L Op Out Lo. exact (isolation_all Lo). Qed.
Print Assumptions C20_isolation.

(* Command lines `c1|c2|...` (ex_line: every command of the line runs, then ONE closing lbuf_modified; bufs_switch ends the
   command for the buffer being left -- repo commit 75e4c2f): the history theorem at the granularity of single commands
   inside lines.  For every list of command lines within 16 buffers, a buffer that is not current at the start either is
   still in a slot >= 1 at the end, unchanged (modulo id), or there is a first command -- possibly in the MIDDLE of a line --
   after which it is the current buffer, unchanged, with the globals equal to its saved view.  Lines of one command are
   ex_command (run_lines_single), and well-formedness is preserved by every line. *)
Theorem C20_isolation_lines : forall (L Op Out : Type) (Lo : lops L Op Out) (ls : list (list (cmd Op))) (s : st L) (j : nat) (b : buf L),
  length (bufs s) = NB -> (1 <= j)%nat -> nth_error (bufs s) j = Some (Some b) -> safe_lines Lo s ls ->
  (exists j' b', (1 <= j')%nat /\ nth_error (bufs (run_lines Lo s ls)) j' = Some (Some b') /\ same_mod_id Lo b b')
  \/ (exists pre l1 c l2 post b', ls = pre ++ (l1 ++ c :: l2) :: post /\
        slot0 (fst (ex_exec Lo (fst (exec_all Lo (run_lines Lo s pre) l1)) c)) = Some b' /\ same_mod_id Lo b b' /\
        xv (fst (ex_exec Lo (fst (exec_all Lo (run_lines Lo s pre) l1)) c)) = b_view b).
Proof. intros L Op Out Lo. exact (isolation_lines Lo). Qed.
Print Assumptions C20_isolation_lines.
Theorem C20_lines : forall (L Op Out : Type) (Lo : lops L Op Out),
  (forall cs s, run_lines Lo s (map (fun c => [c]) cs) = run Lo s cs) /\
  (forall cs (s : st L), wf s -> wf (fst (ex_line Lo s cs))).
Proof. intros L Op Out Lo. split; [apply run_lines_single|apply wf_line]. Qed.
Print Assumptions C20_lines.

(* :b n reaches a buffer with id n (the first slot holding that id; ids are unique in reachable states), as it was
   left, with its saved view loaded and without touching the file system; and such a slot is found whenever one exists. *)
Theorem C20_reaches_id : forall (L Op Out : Type) (Lo : lops L Op Out) (s : st L) (n : Z) (i : nat),
  first_idx (has_id n) (bufs s) = Some i -> (1 <= i)%nat -> (xwa s = true \/ dirty_at Lo s 0 = false) ->
  let s' := fst (ec_buffer_id Lo s n) in
  exists b, nth_error (bufs s) i = Some (Some b) /\ b_id b = n /\ slot0 s' = Some b /\ xv s' = b_view b /\ fs s' = fs s.
Proof. intros L Op Out Lo. exact (reaches_id Lo). Qed.
Print Assumptions C20_reaches_id.
Theorem C20_id_found : forall (L : Type) (s : st L) (n : Z) (j : nat) (b : buf L),
  nth_error (bufs s) j = Some (Some b) -> b_id b = n -> first_idx (has_id n) (bufs s) <> None.
Proof. intros L. exact (@id_found L). Qed.
Print Assumptions C20_id_found.

(* :b # and :b ^ reach slots 1 and 2 *)
Theorem C20_reaches_alias : forall (L Op Out : Type) (Lo : lops L Op Out) (s : st L) (k : nat) (b : buf L),
  (1 <= k < 3)%nat -> nth_error (bufs s) k = Some (Some b) -> (xwa s = true \/ dirty_at Lo s 0 = false) ->
  let s' := fst (ec_buffer_alias Lo s k) in slot0 s' = Some b /\ xv s' = b_view b /\ fs s' = fs s.
Proof. intros L Op Out Lo. exact (reaches_alias Lo). Qed.
Print Assumptions C20_reaches_alias.

(* :e! path / :e path under writeany, for a path that is open in slot i >= 1: the result is exactly bufs_switch Lo to
   that slot -- no lb_rd (the event list is empty, the lbuf is the old one), the file system is not consulted. *)
Theorem C20_reaches_path : forall (L Op Out : Type) (Lo : lops L Op Out) (s : st L) (bang : bool) (a : parg) (p : path) (i : nat) (b : buf L),
  bang || xwa s = true -> pathexpand s a = Some p -> p <> [] ->
  bufs_find s p = Some i -> (1 <= i)%nat -> nth_error (bufs s) i = Some (Some b) ->
  ec_edit Lo s bang false a = (bufs_switch Lo s i, [], true) /\
  slot0 (bufs_switch Lo s i) = Some b /\ xv (bufs_switch Lo s i) = b_view b /\ fs (bufs_switch Lo s i) = fs s /\ b_path b = canon p.
Proof. intros L Op Out Lo. exact (reaches_path Lo). Qed.
Print Assumptions C20_reaches_path.

(* :e # reaches the most-recently-used predecessor (slot 1) *)
Theorem C20_reaches_alt : forall (L Op Out : Type) (Lo : lops L Op Out) (s : st L) (bang : bool) (b0 b1 : buf L),
  bang || xwa s = true ->
  nth_error (bufs s) 0 = Some (Some b0) -> nth_error (bufs s) 1 = Some (Some b1) ->
  b_path b1 <> [47%N] -> b_path b0 <> b_path b1 ->
  fst (fst (ec_edit Lo s bang false PAlt)) = bufs_switch Lo s 1 /\ snd (fst (ec_edit Lo s bang false PAlt)) = [] /\
  slot0 (bufs_switch Lo s 1) = Some b1 /\ xv (bufs_switch Lo s 1) = b_view b1 /\ fs (bufs_switch Lo s 1) = fs s.
Proof. intros L Op Out Lo. exact (reaches_alt Lo). Qed.
Print Assumptions C20_reaches_alt.

(* `b +` reaches THE buffer with the least id above the current one, `b -` the one with the greatest id below it; there is
   no wrap-around: when no such id exists the command fails with "no such buffer" and changes nothing. *)
Theorem C20_reaches_next : forall (L Op Out : Type) (Lo : lops L Op Out) (s : st L) (b0 : buf L) (i : nat) (b : buf L),
  wf s -> slot0 s = Some b0 -> nth_error (bufs s) i = Some (Some b) -> (b_id b0 < b_id b)%Z ->
  (forall j b', nth_error (bufs s) j = Some (Some b') -> (b_id b0 < b_id b')%Z -> (b_id b <= b_id b')%Z) ->
  (xwa s = true \/ dirty_at Lo s 0 = false) ->
  let s' := fst (ec_buffer_next Lo s) in slot0 s' = Some b /\ xv s' = b_view b /\ fs s' = fs s.
Proof. intros L Op Out Lo. exact (reaches_next Lo). Qed.
Print Assumptions C20_reaches_next.
Theorem C20_reaches_prev : forall (L Op Out : Type) (Lo : lops L Op Out) (s : st L) (b0 : buf L) (i : nat) (b : buf L),
  wf s -> slot0 s = Some b0 -> nth_error (bufs s) i = Some (Some b) -> (b_id b < b_id b0)%Z ->
  (forall j b', nth_error (bufs s) j = Some (Some b') -> (b_id b' < b_id b0)%Z -> (b_id b' <= b_id b)%Z) ->
  (xwa s = true \/ dirty_at Lo s 0 = false) ->
  let s' := fst (ec_buffer_prev Lo s) in slot0 s' = Some b /\ xv s' = b_view b /\ fs s' = fs s.
Proof. intros L Op Out Lo. exact (reaches_prev Lo). Qed.
Print Assumptions C20_reaches_prev.
Theorem C20_next_prev_at_the_ends : forall (L Op Out : Type) (Lo : lops L Op Out) (s : st L),
  ((forall j b, nth_error (bufs s) j = Some (Some b) -> (b_id b <= cur_id s)%Z) -> ec_buffer_next Lo s = (s, [EvMsg MNoSuch])) /\
  ((forall j b, nth_error (bufs s) j = Some (Some b) -> (cur_id s <= b_id b)%Z) -> ec_buffer_prev Lo s = (s, [EvMsg MNoSuch])).
Proof. intros L Op Out Lo s. split; [apply next_none|apply prev_none]. Qed.
Print Assumptions C20_next_prev_at_the_ends.

(* :e path / :e # in ALL forms (with `!`, under writeany, or plain with a clean current buffer -- the form WITH the dirty
   test): the open buffer is reached, nothing is read (no event), the file system is untouched. *)
Theorem C20_reaches_path_clean : forall (L Op Out : Type) (Lo : lops L Op Out) (s : st L) (bang : bool) (a : parg) (p : path) (i : nat) (b : buf L),
  (bang || xwa s = true \/ dirty_at Lo s 0 = false) ->
  pathexpand s a = Some p -> p <> [] -> bufs_find s p = Some i -> (1 <= i)%nat -> nth_error (bufs s) i = Some (Some b) ->
  let r := ec_edit Lo s bang false a in
  snd r = true /\ snd (fst r) = [] /\ slot0 (fst (fst r)) = Some b /\ xv (fst (fst r)) = b_view b /\ fs (fst (fst r)) = fs s /\ b_path b = canon p.
Proof. intros L Op Out Lo. exact (reaches_path_gen Lo). Qed.
Print Assumptions C20_reaches_path_clean.
Theorem C20_reaches_alt_clean : forall (L Op Out : Type) (Lo : lops L Op Out) (s : st L) (bang : bool) (b0 b1 : buf L),
  (bang || xwa s = true \/ dirty_at Lo s 0 = false) ->
  nth_error (bufs s) 0 = Some (Some b0) -> nth_error (bufs s) 1 = Some (Some b1) ->
  b_path b1 <> [47%N] -> b_path b0 <> b_path b1 ->
  let r := ec_edit Lo s bang false PAlt in
  snd r = true /\ snd (fst r) = [] /\ slot0 (fst (fst r)) = Some b1 /\ xv (fst (fst r)) = b_view b1 /\ fs (fst (fst r)) = fs s.
Proof. intros L Op Out Lo. exact (reaches_alt_gen Lo). Qed.
Print Assumptions C20_reaches_alt_clean.

(* :ew / :ew! path (what vi's window switch issues): the alternate is made current first when the buffer is beyond slot 1,
   then the named buffer is reached exactly as with :e -- nothing is read, the file system is untouched. *)
Theorem C20_reaches_ew : forall (L Op Out : Type) (Lo : lops L Op Out) (s : st L) (bang : bool) (a : parg) (p : path) (i : nat) (b : buf L),
  (bang || xwa s = true \/ dirty_at Lo s 0 = false) ->
  pathexpand s a = Some p -> p <> [] -> bufs_find s p = Some i -> (1 <= i)%nat -> nth_error (bufs s) i = Some (Some b) ->
  let r := ec_edit Lo s bang true a in
  snd r = true /\ snd (fst r) = [] /\ slot0 (fst (fst r)) = Some b /\ xv (fst (fst r)) = b_view b /\ fs (fst (fst r)) = fs s.
Proof. intros L Op Out Lo. exact (reaches_ew Lo). Qed.
Print Assumptions C20_reaches_ew.

(* :next / :prev (vi: zJ / zK) of an argument that is already open: that buffer is reached, nothing is read, the position in
   the argument list moves. *)
Theorem C20_reaches_arg : forall (L Op Out : Type) (Lo : lops L Op Out) (s : st L) (dis : Z) (p : path) (i : nat) (b : buf L),
  nth_path (args s) (next_pos s) <> None -> nth_path (args s) (next_pos s + dis) = Some p -> p <> [] ->
  bufs_find s p = Some i -> (1 <= i)%nat -> nth_error (bufs s) i = Some (Some b) -> (xwa s = true \/ dirty_at Lo s 0 = false) ->
  let s' := fst (ex_next Lo s dis) in slot0 s' = Some b /\ xv s' = b_view b /\ fs s' = fs s /\ next_pos s' = (next_pos s + dis)%Z.
Proof. intros L Op Out Lo. exact (reaches_arg Lo). Qed.
Print Assumptions C20_reaches_arg.

(* The summary over whole command lines (ex_command = the command + the closing lbuf_modified): in a well-formed table,
   if command c names the buffer b in slot i >= 1 (BufsReach.names: `b n` -- id n; `b +` / `b -` -- least id above / greatest
   id below the current one; `b #`, `b ^` -- slots 1, 2; `e`/`e!`/`ew`/`ew!` path, `e #`, `e %` -- the first slot whose path is the
   expanded argument; `next` / `prev` -- the first slot whose path is the next / previous argument) and the command is not refused (`!`, writeany, or the current buffer is clean), then afterwards b is the
   current buffer (its lbuf only bumped), the globals are its saved view and the file system is untouched (nothing re-read);
   and the named buffer is unique. *)
Theorem C20_reaches_named : forall (L Op Out : Type) (Lo : lops L Op Out) (s : st L) (c : cmd Op) (i : nat) (b : buf L),
  wf s -> names s c i b -> not_refused Lo s c ->
  let s' := fst (ex_command Lo s c) in slot0 s' = Some (bump Lo b) /\ xv s' = b_view b /\ fs s' = fs s.
Proof. intros L Op Out Lo. exact (reaches_named Lo). Qed.
Print Assumptions C20_reaches_named.
Theorem C20_named_unique : forall (L Op : Type) (s : st L) (c : cmd Op) (i : nat) (b : buf L) (i' : nat) (b' : buf L),
  wf s -> names s c i b -> names s c i' b' -> i = i' /\ b = b'.
Proof. intros L Op. exact (@names_unique L Op). Qed.
Print Assumptions C20_named_unique.

(* :q without ! -- if no buffer is dirty the editor quits; otherwise xquit is unchanged and the current buffer
   becomes the FIRST dirty one in slot order (its lbuf only bumped; slot 0 additionally gets the globals saved). *)
Theorem C20_quit_walk : forall (L Op Out : Type) (Lo : lops L Op Out) (s : st L),
  let s' := fst (ec_quit Lo s false) in
  ((forall k, (k < NB)%nat -> dirty_at Lo s k = false) -> xquit s' = true) /\
  (forall k, (k < NB)%nat -> dirty_at Lo s k = true -> (forall k', (k' < k)%nat -> dirty_at Lo s k' = false) ->
     xquit s' = xquit s /\ exists b, nth_error (bufs s) k = Some (Some b) /\
     slot0 s' = Some (if Nat.eqb k 0 then bump Lo (set_view (bump Lo b) (xv s)) else bump Lo b)).
Proof. intros L Op Out Lo. exact (quit_walk_thm Lo). Qed.
Print Assumptions C20_quit_walk.

(* Outside the property's quantifier ("up to 16 files"), for information: with 16 buffers open a 17th :e frees
   slot 15 without a dirty test.  Witness on the concrete line buffer: 16 files f1..f16 opened, the first one
   modified, then :e! of 15 more and :e of a 17th path -- the dirty buffer is gone from the table. *)
Definition nm (k : N) : path := [102%N; k].
Definition open_all : list (cmd cop) :=
  [COp (OAppend None [[120%N]])] ++ map (fun k => CEdit true false (PLit (nm k))) [2;3;4;5;6;7;8;9;10;11;12;13;14;15;16]%N.
Definition st16 : st clb := run clb_ops (fst (c_init [] [nm 1])) open_all.
Definition has_dirty (s : st clb) : bool := existsb (dirty_slot clb_ops) (bufs s).
Theorem C20_seventeenth_refuted :
  length (filter (fun x => negb (is_free x)) (bufs st16)) = 16%nat /\ has_dirty st16 = true /\
  has_dirty (fst (c_command st16 (CEdit true false (PLit (nm 17))))) = false /\
  xquit (fst (c_command (fst (c_command st16 (CEdit true false (PLit (nm 17))))) (CQuit false))) = true.
Proof. vm_compute. repeat split. Qed.
Print Assumptions C20_seventeenth_refuted.

(* the hypotheses of C20_isolation are satisfiable: three buffers, a history that switches, edits and returns *)
Example C20_nonvacuous :
  let s := run clb_ops (fst (c_init [] [nm 1])) [CSetWa true; CEdit false false (PLit (nm 2)); CEdit false false (PLit (nm 3))] in
  let cs := [COp (OAppend None [[120%N]]); CBufId 1; COp (OAppend None [[121%N]]); CEdit false false PAlt; CQuit false] in
  length (bufs s) = NB /\ (exists b, nth_error (bufs s) 2 = Some (Some b)) /\ safe clb_ops s cs /\
  safe_all clb_ops s (CBufRenum :: cs) /\ wf s /\ (exists b, names s (CBufId 1 : cmd cop) 2 b /\ not_refused clb_ops s (CBufId 1 : cmd cop)).
Proof.
  cbn zeta. split; [vm_compute; reflexivity|]. split; [vm_compute; eexists; reflexivity|].
  split. { cbn [safe]. repeat (right; split; [discriminate|]; split; [left; vm_compute; auto 20|]). exact I. }
  split. { cbn [safe_all]. repeat (right; split; [left; vm_compute; auto 20|]). exact I. }
  split. { apply wf_run. exact (wf_init clb_ops [] [nm 1]). }
  eexists. split; [split; [|split]|]; [| vm_compute; reflexivity | vm_compute; reflexivity | left; vm_compute; reflexivity]. auto.
Qed.

(* ----------------------------------------------------------------------------------------------------------------------
   What a buffer is called.  Three places give or use a buffer's name: bufs_find (lookup), bufs_open (creation; :e, :next,
   the argument list) and ec_write (`:w path` in the UNNAMED buffer).  All three take the path exactly as typed -- names are
   compared as strings, `./a` and `a` are two buffers -- up to "/" = the unnamed buffer.  (Proofs in BufsNames.v.)
   C20_write_names: a successful `:w p` in the unnamed buffer: the buffer is afterwards FOUND under p by bufs_find (in slot 0:
   so every later :e p / :e # / :ew p -- C20_reaches_path and friends -- returns to it instead of opening a second buffer);
   id, view and lbuf (marked saved) are its own; no other slot, the counter and the globals do not move; the file p denotes
   on disk (fskey: `./`, `//`, `d/..` removed) holds the buffer's text, every other file is untouched.
   C20_write_names_succeeds: that write is not refused when it is forced or the file does not exist.
   C20_open_names: bufs_open stores canon p and bufs_find p afterwards finds a slot holding exactly that name. *)
From NV Require Import BufsNames.
Theorem C20_write_names : forall (L Op Out : Type) (Lo : lops L Op Out) (s : st L) (bang : bool) (p : path) (b : buf L) (s' : st L) (evs : list (ev Out)),
  slot0 s = Some b -> b_path b = [] -> p <> [] -> canon p = p ->
  ec_write Lo s bang (Some p) = (s', evs) -> evs = [EvMsg MWrote] ->
  (exists b', slot0 s' = Some b' /\ b_path b' = p /\ b_id b' = b_id b /\ b_view b' = b_view b /\
              b_lb b' = lb_saved Lo false (b_lb b)) /\
  bufs_find s' p = Some 0%nat /\
  tl (bufs s') = tl (bufs s) /\ cnt s' = cnt s /\ xv s' = xv s /\ pct s' = p /\
  fs_get (fs s') p = Some (lb_text Lo (b_lb b)) /\
  (forall q, path_eqb (fskey p) (fskey q) = false -> fs_get (fs s') q = fs_get (fs s) q).
Proof. intros L Op Out Lo. exact (write_names Lo). Qed.
Print Assumptions C20_write_names.
Theorem C20_write_names_succeeds : forall (L Op Out : Type) (Lo : lops L Op Out) (s : st L) (bang : bool) (p : path) (b : buf L),
  slot0 s = Some b -> b_path b = [] -> p <> [] -> (bang = true \/ fs_get (fs s) p = None) ->
  snd (ec_write Lo s bang (Some p)) = [EvMsg MWrote].
Proof. intros L Op Out Lo. exact (write_names_succeeds Lo). Qed.
Print Assumptions C20_write_names_succeeds.
Theorem C20_open_names : forall (L Op Out : Type) (Lo : lops L Op Out) (s : st L) (p : path),
  (bufs_findroom s < length (bufs s))%nat ->
  let s' := fst (bufs_open Lo s p) in
  (exists b, nth_error (bufs s') (bufs_findroom s) = Some (Some b) /\ b_path b = canon p) /\
  (exists i b, bufs_find s' p = Some i /\ nth_error (bufs s') i = Some (Some b) /\ b_path b = canon p).
Proof. intros L Op Out Lo. exact (open_names Lo). Qed.
Print Assumptions C20_open_names.
(* the two spellings of one file: what is written under one is read under the other *)
Theorem C20_fs_alias : forall fs p q c, fskey q = fskey p -> fs_get (fs_put fs p c) q = Some c.
Proof. exact fs_get_put_alias. Qed.
Print Assumptions C20_fs_alias.

(* Non-vacuity, on the concrete line buffer: a session started WITHOUT a file; the unnamed buffer gets text `a`, is named by
   `:w ./n`, gets a second line `b` (unwritten), is left by `:e! o` and re-entered by `:e! ./n`: the buffer reached is buffer 1
   with both lines, the last command read no file, the file n holds `a`.  `:e! n` -- another spelling, another string -- is a
   DIFFERENT buffer (id 3) that reads the file. *)
Example C20_names_nonvacuous :
  let dn := [46%N; 47%N; 110%N] in
  let s0 := run clb_ops (fst (c_init [([111%N], [[120%N]])] [])) [COp (OAppend None [[97%N]])] in
  let s1 := run clb_ops s0 [CWrite false (Some dn); COp (OAppend None [[98%N]]); CEdit true false (PLit [111%N])] in
  let s2 := c_command s1 (CEdit true false (PLit dn)) in
  let s3 := c_command (fst s2) (CEdit true false (PLit [110%N])) in
  (exists b, slot0 s0 = Some b /\ b_path b = [] /\ snd (ec_write clb_ops s0 false (Some dn)) = [EvMsg MWrote] /\ canon dn = dn) /\
  (exists b, slot0 (fst s2) = Some b /\ b_id b = 1%Z /\ b_path b = dn /\ c_text (b_lb b) = [[97%N]; [98%N]]) /\
  snd s2 = [] /\ fs_get (fs (fst s2)) [110%N] = Some [[97%N]] /\
  (exists b, slot0 (fst s3) = Some b /\ b_id b = 3%Z /\ b_path b = [110%N] /\ c_text (b_lb b) = [[97%N]]) /\ snd s3 = [EvRead] /\
  fskey [46%N; 47%N; 46%N; 47%N; 47%N; 115%N; 47%N; 46%N; 46%N; 47%N; 110%N] = [110%N].
Proof.
  cbn zeta. split; [eexists; vm_compute; repeat split; reflexivity|]. split; [eexists; vm_compute; repeat split; reflexivity|].
  split; [vm_compute; reflexivity|]. split; [vm_compute; reflexivity|]. split; [eexists; vm_compute; repeat split; reflexivity|].
  split; vm_compute; reflexivity.
Qed.

(* ----------------------------------------------------------------------------------------------------------------------
   Undo steps never span a buffer switch (proofs in BufsSteps.v).  lbuf.c groups the records of the edit log into undo steps
   by the counter useq, advanced by lbuf_modified(); ex_command() advances it once per command LINE, for the buffer that is
   current at the end of the line only.  So every way of LEAVING a buffer must end its step (bufs_switch does, repo commit
   75e4c2f), because one way of ENTERING a buffer does nothing: bufs_shift (`:b !`) just moves the table up.
   `ok` and `closed` are predicates on the abstract payload: ok = what every line buffer satisfies, closed = no open step;
   step_laws: closed -> ok, a fresh buffer is closed, lbuf_modified closes, the operations on the CURRENT buffer keep ok.
   steps_inv s = slot 0 is ok and every other occupied slot is closed; all_closed s = every occupied slot is closed.
   C20_no_open_step_in_background: at EVERY moment of EVERY session -- after the command lines ls and the first commands cs
   of the next |-joined line -- every buffer that is not current has its step closed, whichever way it was left
   (e, e #, ew, b N, b + - % # ^, next, prev, q that switches, b ! of the buffer above it, a 17th :e, b ~).
   C20_steps_every_command: the invariant is kept by every single command and the end of a line closes everything.
   C20_switch_closes_all / C20_delete_enters_closed: the two ways into a buffer; after bufs_switch nothing is open, and the
   buffer that `b !` makes current is closed although bufs_shift calls nothing -- it was closed when it was left. *)
From Coq Require Import Lia.
From NV Require Import BufsSteps.
Theorem C20_no_open_step_in_background : forall (L Op Out : Type) (Lo : lops L Op Out) (ok closed : L -> Prop),
  step_laws Lo ok closed ->
  forall files argv (ls : list (list (cmd Op))) (cs : list (cmd Op)) (j : nat) (b : buf L),
  let s := fst (exec_all Lo (run_lines Lo (fst (ex_init Lo files argv)) ls) cs) in
  steps_inv ok closed s /\
  ((1 <= j)%nat -> nth_error (bufs s) j = Some (Some b) -> closed (b_lb b)).
Proof.
  intros L Op Out Lo ok closed Laws files argv ls cs j b. cbn zeta. split; [exact (steps_reachable Lo ok closed Laws files argv ls cs)|].
  exact (background_closed ok closed _ j b (steps_reachable Lo ok closed Laws files argv ls cs)).
Qed.
Print Assumptions C20_no_open_step_in_background.
Theorem C20_steps_every_command : forall (L Op Out : Type) (Lo : lops L Op Out) (ok closed : L -> Prop),
  step_laws Lo ok closed -> forall (s : st L), steps_inv ok closed s ->
  (forall c, steps_inv ok closed (fst (ex_exec Lo s c))) /\
  (forall c, all_closed closed (fst (ex_command Lo s c))) /\
  (forall cs, all_closed closed (fst (ex_line Lo s cs))) /\
  (forall ls, steps_inv ok closed (run_lines Lo s ls)).
Proof.
  intros L Op Out Lo ok closed Laws s H. split; [intro c; exact (steps_exec Lo ok closed Laws s c H)|].
  split; [intro c; exact (steps_command Lo ok closed Laws s c H)|]. split; [intro cs; exact (steps_line Lo ok closed Laws s cs H)|].
  intro ls; exact (steps_run_lines Lo ok closed Laws ls s H).
Qed.
Print Assumptions C20_steps_every_command.
Theorem C20_switch_closes_all : forall (L Op Out : Type) (Lo : lops L Op Out) (ok closed : L -> Prop),
  step_laws Lo ok closed -> forall (s : st L) (idx : nat), steps_inv ok closed s -> all_closed closed (bufs_switch Lo s idx).
Proof. intros L Op Out Lo ok closed Laws s idx. exact (switch_all_closed Lo ok closed Laws s idx). Qed.
Print Assumptions C20_switch_closes_all.
Theorem C20_delete_enters_closed : forall (L Op Out : Type) (Lo : lops L Op Out) (ok closed : L -> Prop),
  step_laws Lo ok closed -> forall (s : st L) (b : buf L), steps_inv ok closed s ->
  all_closed closed (bufs_shift s) /\ (slot0 (fst (ec_buffer_del Lo s)) = Some b -> closed (b_lb b)).
Proof.
  intros L Op Out Lo ok closed Laws s b H. split; [exact (shift_all_closed ok closed s H)|]. exact (delete_enters_closed Lo ok closed Laws s b H).
Qed.
Print Assumptions C20_delete_enters_closed.

(* The concrete line buffer clb of BufsDefs.v (text, log of (seq, before, after), undo cursor, useq / useq_zero / useq_last):
   clb_ok l = the undo cursor is inside the log and no record is newer than the counter; clb_closed l = ... and every record
   is OLDER than the counter (a new change cannot join the last step).  They satisfy the laws, so the theorems above hold
   for them.  C20_one_undo_after_reentry: a closed buffer takes any number (>= 1) of changes and then ONE undo: the text,
   the undo cursor, the log below the cursor (the earlier steps are still there, to be undone one by one), the sequence
   number the dirty test compares and therefore the dirty flag are what they were before these changes.
   C20_reentry_one_undo: that applies to every background buffer of every reachable state (also in mid-line) and to the
   buffer `b !` makes current. *)
Theorem C20_clb_step_laws : step_laws clb_ops clb_ok clb_closed.
Proof. exact clb_step_laws. Qed.
Print Assumptions C20_clb_step_laws.
Theorem C20_one_undo_after_reentry : forall (l : clb) (x0 : content) (news : list content), clb_closed l ->
  let l' := clb_undo (edits (x0 :: news) l) in
  c_text l' = c_text l /\ c_hu l' = c_hu l /\ firstn (c_hu l) (c_hist l') = firstn (c_hu l) (c_hist l) /\
  clb_seq l' = clb_seq l /\ snd (clb_modified l') = snd (clb_modified l) /\ c_useq l' = c_useq l /\ c_zero l' = c_zero l.
Proof. exact closed_changes_one_undo. Qed.
Print Assumptions C20_one_undo_after_reentry.
Theorem C20_reentry_one_undo : forall files argv (ls : list (list (cmd cop))) (cs : list (cmd cop)) (b : buf clb) (x0 : content) (news : list content),
  let s := fst (exec_all clb_ops (run_lines clb_ops (fst (ex_init clb_ops files argv)) ls) cs) in
  (forall j, (1 <= j)%nat -> nth_error (bufs s) j = Some (Some b) ->
     clb_closed (b_lb b) /\
     (let l' := clb_undo (edits (x0 :: news) (b_lb b)) in
      c_text l' = c_text (b_lb b) /\ c_hu l' = c_hu (b_lb b) /\ snd (clb_modified l') = snd (clb_modified (b_lb b)))) /\
  (slot0 (fst (ec_buffer_del clb_ops s)) = Some b ->
     let l' := clb_undo (edits (x0 :: news) (b_lb b)) in
     c_text l' = c_text (b_lb b) /\ c_hu l' = c_hu (b_lb b) /\ snd (clb_modified l') = snd (clb_modified (b_lb b))).
Proof.
  intros files argv ls cs b x0 news. cbn zeta. split.
  - intros j. exact (reachable_one_undo files argv ls cs j b x0 news).
  - exact (delete_then_one_undo _ b x0 news (steps_reachable clb_ops clb_ok clb_closed clb_step_laws files argv ls cs)).
Qed.
Print Assumptions C20_reentry_one_undo.

(* The same table code with the bump moved BELOW the rotation (BufsSteps.bufs_switch_entered: "a switch starts a new step for
   the buffer that is entered") does not keep the invariant: the buffer that is left stays in the background with an open
   step; `b !` then enters it as it is, and a change + ONE undo takes the earlier change with it and leaves the buffer
   "unmodified" (the real function: the earlier change [X] is kept and the buffer is still modified). *)
Theorem C20_switch_entered_refuted :
  steps_inv clb_ok clb_closed sw_st /\
  steps_inv clb_ok clb_closed (bufs_switch clb_ops sw_st 1) /\
  ~ steps_inv clb_ok clb_closed (bufs_switch_entered clb_ops sw_st 1) /\
  del_change_undo (bufs_switch clb_ops sw_st 1) = Some ([[88%N]], true) /\
  del_change_undo (bufs_switch_entered clb_ops sw_st 1) = Some ([[97%N]], false).
Proof. exact switch_entered_breaks. Qed.
Print Assumptions C20_switch_entered_refuted.

(* the hypotheses are satisfiable, and the scenario itself on the concrete model: files f1 = a1 a2 a3 a4, f2 = b1 b2;
   `:e! f2`, `:e! f1`, then the lines `1s/$/X/|e! f2` and `b !|3s/$/Y/`, then `u`: only the second change is undone, the
   buffer is still modified, and q refuses *)
Example C20_steps_nonvacuous :
  let f1 := [[97%N; 49%N]; [97%N; 50%N]; [97%N; 51%N]; [97%N; 52%N]] in
  let s0 := fst (c_init [(nm 1, f1); (nm 2, [[98%N; 49%N]; [98%N; 50%N]])] [nm 1; nm 2]) in
  let ls := [[CEdit true false (PLit (nm 2))]; [CEdit true false (PLit (nm 1))];
             [COp (OSubst (Some 1) [88%N]); CEdit true false (PLit (nm 2))]] in
  let s := run_lines clb_ops s0 ls in
  let s' := run_lines clb_ops s [[CBufDel; COp (OSubst (Some 3) [89%N])]; [COp OUndo]] in
  steps_inv clb_ok clb_closed s /\
  (exists b, nth_error (bufs s) 1 = Some (Some b) /\ b_path b = nm 1 /\ clb_closed (b_lb b) /\ snd (clb_modified (b_lb b)) = true) /\
  (exists b, slot0 s' = Some b /\ b_path b = nm 1 /\
     c_text (b_lb b) = [[97%N; 49%N; 88%N]; [97%N; 50%N]; [97%N; 51%N]; [97%N; 52%N]] /\ snd (clb_modified (b_lb b)) = true) /\
  xquit (fst (c_command s' (CQuit false))) = false.
Proof.
  cbn zeta. split.
  { apply (steps_run_lines clb_ops clb_ok clb_closed clb_step_laws), (steps_init clb_ops clb_ok clb_closed clb_step_laws). }
  split.
  { eexists. split; [vm_compute; reflexivity|]. split; [reflexivity|]. split; [|vm_compute; reflexivity].
    split; [vm_compute; lia|]. cbn. repeat constructor; cbn; lia. }
  split; [|vm_compute; reflexivity].
  eexists. split; [vm_compute; reflexivity|]. split; [reflexivity|]. split; vm_compute; reflexivity.
Qed.

(* ======================================================================================================================
   The table functions of /repo/ex.c ON THE C TEXT.  tools/c2clite.py translates bufs_find, bufs_findroom, bufs_save, bufs_load,
   bufs_switch, bufs_shift, bufs_number, bufs_free, ex_path, ex_filetype (tools/c2clite.d/85_bufs.list) into CLite terms
   (coq/GenCFuncs.v); coq/TrBufs.v proves what running them does to a memory in which block G_bufs holds ANY table `t`
   (16 slots of 41 cells: TrBufs.cslot / tab_cells), the one-cell blocks G_xrow G_xoff G_xtop G_xleft G_xtd hold the cursor and
   G_bufs_cnt the counter -- every load and store checked, no signed overflow, explicit resulting memory.  reg_put (called by
   bufs_load) and lbuf_free (called by bufs_free) are NOT translated: those theorems are about CLiteExt.callx, which is callf
   with an oracle `ext` for the untranslated functions, and hold for EVERY oracle under a hypothesis about its answer on the one
   call that is reached.  tab_rep relates the C table to the model table `bufs s` of BufsDefs.v. *)
From NV Require Import Bytes CLite CLiteProps GenCFuncs CLiteTac CLiteExt TrBufs.
Local Open Scope Z_scope.

(* the oracle semantics: with the oracle that always fails it is callf; whatever succeeds under callf succeeds, with the same
   result, under every oracle *)
Theorem C20_tr_oracle : callf = callx ext_none /\
  (forall ext prog fuel d f args m r, callf prog fuel d f args m = Ok r -> callx ext prog fuel d f args m = Ok r).
Proof. split; [exact callf_callx0|exact callx_mono]. Qed.
Print Assumptions C20_tr_oracle.

(* bufs_find(path): for ANY table whose path cells are NULL or point to C strings (ps lists them) and any path string p: the index
   of the first slot whose path equals p ("/" standing for ""), or -1; memory unchanged *)
Theorem C20_tr_bufs_find : forall m t ps pb p d fuel, tab_at m t -> tab_ok t -> paths_at m t ps ->
  str_at m pb p -> nonul p -> str_at m G_lit__0 [] -> (16 < fuel)%nat ->
  callf cprog fuel (S d) F_bufs_find [VPtr pb 0] m = Ok (VInt (idx_z (first_idx (path_hit (canon p)) ps)), m).
Proof. exact tr_bufs_find. Qed.
Print Assumptions C20_tr_bufs_find.
(* ... and that is the model's bufs_find when the table represents the model table *)
Theorem C20_tr_bufs_find_model : forall (L : Type) m t (s : st L) pb p d fuel, tab_at m t -> tab_ok t -> tab_rep m t (bufs s) ->
  str_at m pb p -> nonul p -> str_at m G_lit__0 [] -> (16 < fuel)%nat ->
  callf cprog fuel (S d) F_bufs_find [VPtr pb 0] m = Ok (VInt (idx_z (bufs_find s p)), m).
Proof. intro L. exact (@tr_bufs_find_model L). Qed.
Print Assumptions C20_tr_bufs_find_model.

(* bufs_findroom(): the first of the slots 0..14 with lb == NULL, else 15 *)
Theorem C20_tr_bufs_findroom : forall m t d fuel, tab_at m t -> tab_ok t -> lbs_ok t -> (15 < fuel)%nat ->
  callf cprog fuel (S d) F_bufs_findroom [] m = Ok (VInt (Z.of_nat (room_of t)), m).
Proof. exact tr_bufs_findroom. Qed.
Print Assumptions C20_tr_bufs_findroom.
Theorem C20_tr_bufs_findroom_model : forall (L : Type) m t (s : st L) d fuel, tab_at m t -> tab_ok t -> tab_rep m t (bufs s) -> (15 < fuel)%nat ->
  callf cprog fuel (S d) F_bufs_findroom [] m = Ok (VInt (Z.of_nat (bufs_findroom s)), m).
Proof. intro L. exact (@tr_bufs_findroom_model L). Qed.
Print Assumptions C20_tr_bufs_findroom_model.

(* bufs_save(): xrow xoff xtop xleft xtd go into row off top left td of slot 0 (td is a short), nothing else changes; and the
   table then represents the model's bufs_save when slot 0 is occupied *)
Theorem C20_tr_bufs_save : forall m t r o tp l td d fuel, tab_at m t -> tab_ok t -> globs_at m r o tp l td ->
  int_ok r -> int_ok o -> int_ok tp -> int_ok l -> int_ok td ->
  callf cprog fuel (S d) F_bufs_save [] m = Ok (VUndef, upd m G_bufs (tab_cells (save0 t r o tp l td))).
Proof. exact tr_bufs_save. Qed.
Print Assumptions C20_tr_bufs_save.
Theorem C20_tr_save_is_model : forall (L : Type) m t (s : st L) r o tp l td b0, tab_rep m t (bufs s) -> xv s = mkview r o tp l td -> short_ok td ->
  nth_error (bufs s) 0 = Some (Some b0) -> tab_rep m (save0 t r o tp l td) (bufs (bufs_save s)).
Proof. intro L. exact (@rep_save L). Qed.
Print Assumptions C20_tr_save_is_model.

(* bufs_load(): the globals are set from slot 0, then reg_put('%', path or "", 0) is called on exactly that memory *)
Theorem C20_tr_bufs_load : forall ext m t r0 o0 tp0 l0 td0 u m' d fuel, tab_at m t -> tab_ok t -> globs_at m r0 o0 tp0 l0 td0 ->
  slot_ints (nths t 0) -> ptr_val (cs_path (nths t 0)) ->
  let s := nths t 0 in
  ext X_reg_put [VInt 37; path_arg (cs_path s); VInt 0] (set_globs m (cs_row s) (cs_off s) (cs_top s) (cs_left s) (cs_td s)) = Ok (u, m') ->
  callx ext cprog fuel (S (S d)) F_bufs_load [] m = Ok (VUndef, m').
Proof. exact tr_bufs_load. Qed.
Print Assumptions C20_tr_bufs_load.

(* bufs_switch(idx) -- C20_switch_permutes on the C text.  A struct buf tmp is allocated (a fresh block at the end of memory);
   bufs_save; if bufs[0].lb is not NULL the translated lbuf_modified runs on exactly that pointer (hypothesis bump_call: it
   leaves m2; TrBufsLbuf.v shows m2 = useq + 1 on that struct); tmp = bufs[idx]; bufs[1..idx] = bufs[0..idx-1]; bufs[0] = tmp
   -- the table is BufsDefs.switch of the saved table, every slot moved as a whole; bufs_load.  For any table, 0 <= idx < 16. *)
Theorem C20_tr_bufs_switch : forall ext m t r o tp l td i m2 u m' d fuel,
  tab_at m t -> tab_ok t -> globs_at m r o tp l td -> int_ok r -> int_ok o -> int_ok tp -> int_ok l -> int_ok td ->
  (i < 16)%nat -> ptr_val (cs_lb (nths t 0)) ->
  let t1 := save0 t r o tp l td in
  let m1 := upd (m ++ [repeat VUndef 41]) G_bufs (tab_cells t1) in
  bump_call ext fuel d (cs_lb (nths t 0)) m1 m2 -> length m2 = length m1 ->
  same_on [G_bufs; length m; G_xrow; G_xoff; G_xtop; G_xleft; G_xtd] m1 m2 ->
  let sx := nths t1 i in
  slot_ints sx -> ptr_val (cs_path sx) ->
  let m4 := upd (upd m2 (length m) (slot_cells sx)) G_bufs (tab_cells (switch t1 i)) in
  ext X_reg_put [VInt 37; path_arg (cs_path sx); VInt 0] (set_globs m4 (cs_row sx) (cs_off sx) (cs_top sx) (cs_left sx) (cs_td sx)) = Ok (u, m') ->
  callx ext cprog fuel (S (S (S d))) F_bufs_switch [VInt (Z.of_nat i)] m = Ok (VUndef, m').
Proof. exact tr_bufs_switch. Qed.
Print Assumptions C20_tr_bufs_switch.
(* ... against the model: the table handed to reg_put represents bufs (bufs_switch Lo s i), the globals are xv (bufs_switch Lo s i),
   every other block below the old end of memory is what lbuf_modified left *)
Theorem C20_tr_bufs_switch_model : forall (L Op Out : Type) (Lo : lops L Op Out) ext m t (s : st L) i b0 m2 u m' d fuel,
  tab_at m t -> tab_ok t -> tab_rep m t (bufs s) -> Forall slot_ints t ->
  let r := v_row (xv s) in let o := v_off (xv s) in let tp := v_top (xv s) in let l := v_left (xv s) in let td := v_td (xv s) in
  globs_at m r o tp l td -> int_ok r -> int_ok o -> int_ok tp -> int_ok l -> short_ok td ->
  (i < 16)%nat -> nth_error (bufs s) 0 = Some (Some b0) ->
  let t1 := save0 t r o tp l td in
  let m1 := upd (m ++ [repeat VUndef 41]) G_bufs (tab_cells t1) in
  bump_call ext fuel d (cs_lb (nths t 0)) m1 m2 -> length m2 = length m1 ->
  same_on [G_bufs; length m; G_xrow; G_xoff; G_xtop; G_xleft; G_xtd] m1 m2 ->
  let s' := bufs_switch Lo s i in
  let t2 := switch t1 i in
  let m5 := set_globs (upd (upd m2 (length m) (slot_cells (nths t1 i))) G_bufs (tab_cells t2))
                      (v_row (xv s')) (v_off (xv s')) (v_top (xv s')) (v_left (xv s')) (v_td (xv s')) in
  ext X_reg_put [VInt 37; path_arg (cs_path (nths t2 0)); VInt 0] m5 = Ok (u, m') ->
  callx ext cprog fuel (S (S (S d))) F_bufs_switch [VInt (Z.of_nat i)] m = Ok (VUndef, m') /\
  tab_at m5 t2 /\ tab_rep m t2 (bufs s') /\
  globs_at m5 (v_row (xv s')) (v_off (xv s')) (v_top (xv s')) (v_left (xv s')) (v_td (xv s')) /\
  (forall b, (b < length m)%nat -> ~ In b [G_bufs; G_xrow; G_xoff; G_xtop; G_xleft; G_xtd] -> nth_error m5 b = nth_error m2 b).
Proof. intros L Op Out Lo. exact (@tr_bufs_switch_model L Op Out Lo). Qed.
Print Assumptions C20_tr_bufs_switch_model.

(* bufs_free(i): nothing when lb is NULL; else free(path), lbuf_free(lb) (oracle; it must keep the table block), the slot zeroed *)
Theorem C20_tr_bufs_free : forall ext m t i mc d fuel, tab_at m t -> tab_ok t -> (i < 16)%nat ->
  ptr_val (cs_lb (nths t i)) -> ptr_val (cs_path (nths t i)) -> freed ext t i m mc ->
  callx ext cprog fuel (S (S d)) F_bufs_free [VInt (Z.of_nat i)] m = Ok (VUndef, mc).
Proof. exact tr_bufs_free. Qed.
Print Assumptions C20_tr_bufs_free.
(* bufs_shift(): after bufs_free(0) (which left mc with table t'), slots 1..15 move down by one and slot 15 is zeroed
   (tl t' ++ [zero] -- the model's tl (bufs s) ++ [None]), then bufs_load *)
Theorem C20_tr_bufs_shift : forall ext m mc t' r0 o0 tp0 l0 td0 uf u m' d fuel,
  callx ext cprog fuel (S (S d)) F_bufs_free [VInt 0] m = Ok (uf, mc) ->
  tab_at mc t' -> tab_ok t' -> globs_at mc r0 o0 tp0 l0 td0 ->
  let t2 := tl t' ++ [cs_zero] in
  let sx := nths t2 0 in
  slot_ints sx -> ptr_val (cs_path sx) ->
  ext X_reg_put [VInt 37; path_arg (cs_path sx); VInt 0]
      (set_globs (upd mc G_bufs (tab_cells t2)) (cs_row sx) (cs_off sx) (cs_top sx) (cs_left sx) (cs_td sx)) = Ok (u, m') ->
  callx ext cprog fuel (S (S (S d))) F_bufs_shift [] m = Ok (VUndef, m').
Proof. exact tr_bufs_shift. Qed.
Print Assumptions C20_tr_bufs_shift.
Theorem C20_tr_shift_is_model : forall (L : Type) m t (s : st L), tab_rep m t (bufs s) ->
  let t2 := tl t ++ [cs_zero] in tab_rep m t2 (bufs (bufs_shift s)) /\ xv (bufs_shift s) = view_of (nths t2 0).
Proof. intro L. exact (@rep_shift L). Qed.
Print Assumptions C20_tr_shift_is_model.

(* bufs_number(): ids 1, 2, ... for the occupied slots in slot order, bufs_cnt their number -- the model's renum *)
Theorem C20_tr_bufs_number : forall m t c0 d fuel, tab_at m t -> tab_ok t -> lbs_ok t -> cell_at m G_bufs_cnt c0 -> (16 < fuel)%nat ->
  callf cprog fuel (S d) F_bufs_number [] m
  = Ok (VUndef, upd (upd m G_bufs (tab_cells (fst (c_renum t 0)))) G_bufs_cnt [VInt (snd (c_renum t 0))]).
Proof. exact tr_bufs_number. Qed.
Print Assumptions C20_tr_bufs_number.
Theorem C20_tr_number_is_model : forall (L : Type) m t (s : st L), tab_rep m t (bufs s) ->
  tab_rep m (fst (c_renum t 0)) (bufs (bufs_number s)) /\ snd (c_renum t 0) = cnt (bufs_number s).
Proof. intro L. exact (@rep_number L). Qed.
Print Assumptions C20_tr_number_is_model.

(* ex_path(): the path cell of slot 0 *)
Theorem C20_tr_ex_path : forall m t d fuel, tab_at m t -> tab_ok t -> ptr_val (cs_path (nths t 0)) ->
  callf cprog fuel (S d) F_ex_path [] m = Ok (cs_path (nths t 0), m).
Proof. exact tr_ex_path. Qed.
Print Assumptions C20_tr_ex_path.

(* ---- the translated functions RUN: three buffers a, b, c in slots 0..2 of a table in memory (the program's global blocks with
   G_bufs and the cursor cells filled in, three path strings and three struct lbuf of 75 cells behind them) *)
Definition exN : nat := length cglobals.
Definition ex_lb (useq : Z) : block := repeat (VInt 0) 68 ++ [VInt useq; VInt 0; VInt 0; VInt 0; VInt 0; VInt 0; VInt 0].
Definition ex_slot (k : nat) (row off top left id td mt : Z) : cslot :=
  mkcs (repeat (VInt 0) 32) (VPtr (exN + k) 0) (VPtr (exN + 3 + k) 0) row off top left id td mt.
Definition ex_tab : list cslot :=
  [ex_slot 0 10 1 5 0 1 1 100; ex_slot 1 20 2 15 0 2 (-1) 200; ex_slot 2 30 3 25 4 3 1 300] ++ repeat cs_zero 13.
Definition ex_mem : mem :=
  upd (upd (upd (upd (upd (upd cglobals G_bufs (tab_cells ex_tab)) G_xrow [VInt 11]) G_xoff [VInt 7]) G_xtop [VInt 6]) G_xleft [VInt 2]) G_xtd [VInt 1]
  ++ [cstr_block [97]; cstr_block [98]; cstr_block [99]; ex_lb 5; ex_lb 6; ex_lb 7].
Definition ex_view (r o tp l td : Z) := mkview r o tp l td.
Definition ex_st : st unit :=
  BufsDefs.mkst [Some (mkbuf 1 [97%N] tt (ex_view 10 1 5 0 1) 100); Some (mkbuf 2 [98%N] tt (ex_view 20 2 15 0 (-1)) 200);
                 Some (mkbuf 3 [99%N] tt (ex_view 30 3 25 4 1) 300); None; None; None; None; None; None; None; None; None; None; None; None; None]
                3 (ex_view 11 7 6 2 1) [] [] 0 false false [].
(* reg_put answers "done, memory as it was"; everything else is untranslated *)
Definition ex_ext : nat -> list val -> mem -> res (val * mem) := fun f _ m => if Nat.eqb f X_reg_put then Ok (VUndef, m) else Err EShape.

Example C20_tr_nonvacuous :
  tab_at ex_mem ex_tab /\ tab_ok ex_tab /\ tab_rep ex_mem ex_tab (bufs ex_st) /\ Forall slot_ints ex_tab /\
  globs_at ex_mem 11 7 6 2 1 /\ str_at ex_mem G_lit__0 [] /\
  (* bufs_find("c") = 2, bufs_find("/") = -1, bufs_findroom() = 3, memory unchanged *)
  callf cprog 20 1 F_bufs_find [VPtr (exN + 2) 0] ex_mem = Ok (VInt 2, ex_mem) /\
  callf cprog 20 1 F_bufs_findroom [] ex_mem = Ok (VInt 3, ex_mem) /\
  (* bufs_switch(2): the table is c, a (with the cursor saved), b; a's struct lbuf has useq 6; the cursor is c's saved view *)
  match callx ex_ext cprog 20 3 F_bufs_switch [VInt 2] ex_mem with
  | Ok (_, m') =>
      nth_error m' G_bufs = Some (tab_cells ([ex_slot 2 30 3 25 4 3 1 300; ex_slot 0 11 7 6 2 1 1 100; ex_slot 1 20 2 15 0 2 (-1) 200] ++ repeat cs_zero 13)) /\
      nth_error m' (exN + 3) = Some (ex_lb 6) /\ nth_error m' (exN + 4) = Some (ex_lb 6) /\ nth_error m' (exN + 5) = Some (ex_lb 7) /\
      globs_at m' 30 3 25 4 1
  | Err _ => False
  end /\
  (* the same table from the model *)
  map (fun x => match x with Some b => Some (b_id b, b_view b) | None => None end) (firstn 3 (bufs (bufs_switch clb_ops
     (BufsDefs.mkst (map (fun x => match x with Some b => Some (mkbuf (b_id b) (b_path b) clb_make (b_view b) (b_mtime b)) | None => None end) (bufs ex_st))
                    3 (xv ex_st) [] [] 0 false false []) 2)))
  = [Some (3, ex_view 30 3 25 4 1); Some (1, ex_view 11 7 6 2 1); Some (2, ex_view 20 2 15 0 (-1))].
Proof.
  split; [vm_compute; reflexivity|]. split; [split; [reflexivity|repeat constructor]|].
  split.
  { unfold tab_rep, ex_tab, ex_st. cbn [bufs app repeat].
    repeat (apply Forall2_cons; [first [ cbn [slot_rep]; split; [apply path_str; [vm_compute; reflexivity|repeat constructor; vm_compute; reflexivity]|];
                                          split; [eexists; eexists; reflexivity|]; repeat split
                                        | cbn [slot_rep]; repeat split ]|]).
    apply Forall2_nil. }
  split; [repeat constructor; vm_compute; intro H; discriminate H|].
  split; [constructor; vm_compute; reflexivity|]. split; [vm_compute; reflexivity|].
  split; [vm_compute; reflexivity|]. split; [vm_compute; reflexivity|].
  split; [|vm_compute; reflexivity].
  vm_compute. repeat split.
Qed.
