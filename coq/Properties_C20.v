(* Properties_C20.v -- C20: each open buffer keeps its own text, position and dirty state across switches.
   Statements only; proofs are in BufsProps.v.  All theorems are stated for an ARBITRARY line-buffer
   payload type L with arbitrary operations Lo (lbuf.c is abstract here): whatever the operations on the
   current buffer do, the table code does not let them reach any other buffer. *)
From Coq Require Import List ZArith NArith Bool Permutation.
From NV Require Import GenConsts BufsDefs BufsProps.
Import ListNotations.

(* bufs_switch(idx): the table right before the rotation (`saved`) differs from the old table in slot 0 only --
   the buffer being left gets the globals as its saved view and the useq++ of lbuf_modified (its command ends),
   i.e. no buffer's text, history, marks or dirty flag changes; then slots 0..idx are rotated (a permutation)
   and the globals are loaded from the buffer that is now current.  bufs_cnt and the file system are untouched. *)
Theorem C20_switch_permutes : forall (L Op Out : Type) (Lo : lops L Op Out) (s : st L) (idx : nat),
  let s' := bufs_switch Lo s idx in
  bufs s' = switch (saved Lo s) idx /\ Permutation (bufs s') (saved Lo s) /\
  (forall j, (1 <= j)%nat -> nth_error (saved Lo s) j = nth_error (bufs s) j) /\
  (forall b, nth_error (bufs s) 0 = Some (Some b) ->
     nth_error (saved Lo s) 0 = Some (Some (bump Lo (set_view b (xv s))))) /\
  xv s' = match slot0 s' with Some b => b_view b | None => viewz end /\
  cnt s' = cnt s /\ fs s' = fs s.
Proof. intros L Op Out Lo. exact (switch_permutes Lo). Qed.
Print Assumptions C20_switch_permutes.

(* One command (any of :e :e! :ew :e # :b :b n :b + :b - :b % # ^ :b ! :next :prev :q :q! :w :w path, set wa,
   or ANY operation on the current buffer), issued while the table has 16 slots and -- if it allocates a new
   buffer -- a free slot: every buffer b that was not current (slot j >= 1) is still in the table with the same
   id, path, saved view (row, off, top, left, td) and mtime and an lbuf that differs at most by the useq++ of
   lbuf_modified (text, history, marks and dirty flag are functions of the other fields); and if b has become the
   current buffer, the globals xrow/xoff/xtop/xleft/xtd are exactly its saved view. *)
Theorem C20_isolation_step : forall (L Op Out : Type) (Lo : lops L Op Out) (s : st L) (c : cmd Op),
  length (bufs s) = NB -> c <> CBufRenum ->
  (In None (bufs s) \/ cnt (fst (ex_command Lo s c)) = cnt s) ->
  forall j b, (1 <= j)%nat -> nth_error (bufs s) j = Some (Some b) ->
  exists j' b', nth_error (bufs (fst (ex_command Lo s c))) j' = Some (Some b') /\ same_buf Lo b b' /\
                (j' = 0%nat -> xv (fst (ex_command Lo s c)) = b_view b).
Proof. intros L Op Out Lo s c Hl Hr Hroom. exact (frame_step Lo s c Hl Hr Hroom). Qed.
Print Assumptions C20_isolation_step.

(* Whole histories: for every command sequence that stays within 16 buffers (safe), a buffer that is not current
   at the start either is still there at the end, never having been current, unchanged -- or there is a first
   command after which it is the current buffer, unchanged, with the globals equal to its saved view
   ("returning to a buffer restores its saved row/offset"). *)
Theorem C20_isolation : forall (L Op Out : Type) (Lo : lops L Op Out) (cs : list (cmd Op)) (s : st L) (j : nat) (b : buf L),
  length (bufs s) = NB -> (1 <= j)%nat -> nth_error (bufs s) j = Some (Some b) -> safe Lo s cs ->
  (exists j' b', (1 <= j')%nat /\ nth_error (bufs (run Lo s cs)) j' = Some (Some b') /\ same_buf Lo b b')
  \/ (exists pre c post b', cs = pre ++ c :: post /\ slot0 (run Lo s (pre ++ [c])) = Some b' /\ same_buf Lo b b' /\
                            xv (run Lo s (pre ++ [c])) = b_view b).
Proof. intros L Op Out Lo. exact (isolation_run Lo). Qed.
Print Assumptions C20_isolation.

(* :b n reaches a buffer with id n (the first slot holding that id; ids are unique in reachable states), as it was
   left, with its saved view loaded and without touching the file system; and such a slot is found whenever one exists. *)
Theorem C20_reaches_id : forall (L Op Out : Type) (Lo : lops L Op Out) (s : st L) (n : Z) (i : nat),
  first_idx (has_id n) (bufs s) = Some i -> (1 <= i)%nat -> (xwa s = true \/ dirty_at Lo s 0 = false) ->
  let s' := fst (ec_buffer_id Lo s n) in
  exists b, nth_error (bufs s) i = Some (Some b) /\ b_id b = n /\ slot0 s' = Some b /\ xv s' = b_view b /\ fs s' = fs s.
Proof. intros L Op Out Lo. exact (reaches_id Lo). Qed.
Print Assumptions C20_reaches_id.
Theorem C20_id_found : forall (L : Type) (s : st L) (n : Z) (j : nat) (b : buf L),
  nth_error (bufs s) j = Some (Some b) -> b_id b = n -> first_idx (has_id n) (bufs s) <> None.
Proof. intros L. exact (@id_found L). Qed.
Print Assumptions C20_id_found.

(* :b # and :b ^ reach slots 1 and 2 *)
Theorem C20_reaches_alias : forall (L Op Out : Type) (Lo : lops L Op Out) (s : st L) (k : nat) (b : buf L),
  (1 <= k < 3)%nat -> nth_error (bufs s) k = Some (Some b) -> (xwa s = true \/ dirty_at Lo s 0 = false) ->
  let s' := fst (ec_buffer_alias Lo s k) in slot0 s' = Some b /\ xv s' = b_view b /\ fs s' = fs s.
Proof. intros L Op Out Lo. exact (reaches_alias Lo). Qed.
Print Assumptions C20_reaches_alias.

(* :e! path / :e path under writeany, for a path that is open in slot i >= 1: the result is exactly bufs_switch Lo to
   that slot -- no lb_rd (the event list is empty, the lbuf is the old one), the file system is not consulted. *)
Theorem C20_reaches_path : forall (L Op Out : Type) (Lo : lops L Op Out) (s : st L) (bang : bool) (a : parg) (p : path) (i : nat) (b : buf L),
  bang || xwa s = true -> pathexpand s a = Some p -> p <> [] ->
  bufs_find s p = Some i -> (1 <= i)%nat -> nth_error (bufs s) i = Some (Some b) ->
  ec_edit Lo s bang false a = (bufs_switch Lo s i, [], true) /\
  slot0 (bufs_switch Lo s i) = Some b /\ xv (bufs_switch Lo s i) = b_view b /\ fs (bufs_switch Lo s i) = fs s /\ b_path b = canon p.
Proof. intros L Op Out Lo. exact (reaches_path Lo). Qed.
Print Assumptions C20_reaches_path.

(* :e # reaches the most-recently-used predecessor (slot 1) *)
Theorem C20_reaches_alt : forall (L Op Out : Type) (Lo : lops L Op Out) (s : st L) (bang : bool) (b0 b1 : buf L),
  bang || xwa s = true ->
  nth_error (bufs s) 0 = Some (Some b0) -> nth_error (bufs s) 1 = Some (Some b1) ->
  b_path b1 <> [47%N] -> b_path b0 <> b_path b1 ->
  fst (fst (ec_edit Lo s bang false PAlt)) = bufs_switch Lo s 1 /\ snd (fst (ec_edit Lo s bang false PAlt)) = [] /\
  slot0 (bufs_switch Lo s 1) = Some b1 /\ xv (bufs_switch Lo s 1) = b_view b1 /\ fs (bufs_switch Lo s 1) = fs s.
Proof. intros L Op Out Lo. exact (reaches_alt Lo). Qed.
Print Assumptions C20_reaches_alt.

(* C20_reaches_named_partial: the clauses above are proved; NOT proved (explored by the correspondence run only):
   `:b +` / `:b -` reach the least id above / the greatest id below the current one (scan_next / scan_prev),
   and `:e path` / `:e #` WITHOUT `!` and without writeany when the current buffer is clean (the state then first
   passes through bufs_modified(0), which only bumps the counter of slot 0 -- see C20_isolation_step).
   Full statement intended:
     forall s, wf s -> forall target, names s c target -> not_refused s c -> slot0 (fst (ex_command Lo s c)) ~ target. *)

(* :q without ! -- if no buffer is dirty the editor quits; otherwise xquit is unchanged and the current buffer
   becomes the FIRST dirty one in slot order (its lbuf only bumped; slot 0 additionally gets the globals saved). *)
Theorem C20_quit_walk : forall (L Op Out : Type) (Lo : lops L Op Out) (s : st L),
  let s' := fst (ec_quit Lo s false) in
  ((forall k, (k < NB)%nat -> dirty_at Lo s k = false) -> xquit s' = true) /\
  (forall k, (k < NB)%nat -> dirty_at Lo s k = true -> (forall k', (k' < k)%nat -> dirty_at Lo s k' = false) ->
     xquit s' = xquit s /\ exists b, nth_error (bufs s) k = Some (Some b) /\
     slot0 s' = Some (if Nat.eqb k 0 then bump Lo (set_view (bump Lo b) (xv s)) else bump Lo b)).
Proof. intros L Op Out Lo. exact (quit_walk_thm Lo). Qed.
Print Assumptions C20_quit_walk.

(* Outside the property's quantifier ("up to 16 files"), for information: with 16 buffers open a 17th :e frees
   slot 15 without a dirty test.  Witness on the concrete line buffer: 16 files f1..f16 opened, the first one
   modified, then :e! of 15 more and :e of a 17th path -- the dirty buffer is gone from the table. *)
Definition nm (k : N) : path := [102%N; k].
Definition open_all : list (cmd cop) :=
  [COp (OAppend None [[120%N]])] ++ map (fun k => CEdit true false (PLit (nm k))) [2;3;4;5;6;7;8;9;10;11;12;13;14;15;16]%N.
Definition st16 : st clb := run clb_ops (fst (c_init [] [nm 1])) open_all.
Definition has_dirty (s : st clb) : bool := existsb (dirty_slot clb_ops) (bufs s).
Theorem C20_seventeenth_refuted :
  length (filter (fun x => negb (is_free x)) (bufs st16)) = 16%nat /\ has_dirty st16 = true /\
  has_dirty (fst (c_command st16 (CEdit true false (PLit (nm 17))))) = false /\
  xquit (fst (c_command (fst (c_command st16 (CEdit true false (PLit (nm 17))))) (CQuit false))) = true.
Proof. vm_compute. repeat split. Qed.
Print Assumptions C20_seventeenth_refuted.

(* the hypotheses of C20_isolation are satisfiable: three buffers, a history that switches, edits and returns *)
Example C20_nonvacuous :
  let s := run clb_ops (fst (c_init [] [nm 1])) [CSetWa true; CEdit false false (PLit (nm 2)); CEdit false false (PLit (nm 3))] in
  let cs := [COp (OAppend None [[120%N]]); CBufId 1; COp (OAppend None [[121%N]]); CEdit false false PAlt; CQuit false] in
  length (bufs s) = NB /\ (exists b, nth_error (bufs s) 2 = Some (Some b)) /\ safe clb_ops s cs.
Proof.
  cbn zeta. split; [vm_compute; reflexivity|]. split; [vm_compute; eexists; reflexivity|].
  cbn [safe]. repeat (right; split; [discriminate|]; split; [left; vm_compute; auto 20|]). exact I.
Qed.
