(* ShapeProps.v -- C18: properties of the Arabic letter shaping model of ShapeDefs.v.
   Everything that depends on the CONTENTS of the generated table achars is proved by
   vm_compute on the generated constant (achars_sorted, achars_forms_ok_b, ...), so that an edit
   of the table in uc.c re-checks it. *)
From Coq Require Import List ZArith NArith Lia Bool.
From NV Require Import Bytes UcDefs UcSpec UcProps UcSegProps GenUcTables RenDefs ShapeDefs.
Import ListNotations.
Local Open Scope Z_scope.

(* ================= 1. bisection over a table with strictly increasing keys ================= *)

Definition nthz (tab : list arow) (i : Z) : arow := nth (Z.to_nat i) tab arow0.

Definition asorted (tab : list arow) : Prop :=
  forall i j, 0 <= i < j -> j < Z.of_nat (length tab) -> a_c (nthz tab i) < a_c (nthz tab j).

Fixpoint asorted_b (tab : list arow) : bool :=
  match tab with
  | [] => true
  | a :: t => forallb (fun b => a_c a <? a_c b) t && asorted_b t
  end.

Lemma asorted_b_nat tab : asorted_b tab = true ->
  forall i j : nat, (i < j)%nat -> (j < length tab)%nat -> a_c (nth i tab arow0) < a_c (nth j tab arow0).
Proof.
  induction tab as [|a t IH]; intros H i j Hij Hj; cbn [length] in Hj; [lia|].
  cbn [asorted_b] in H. apply andb_true_iff in H. destruct H as [H1 H2].
  destruct j as [|j]; [lia|]. destruct i as [|i]; cbn [nth].
  - rewrite forallb_forall in H1. apply Z.ltb_lt. apply H1. apply nth_In. lia.
  - apply IH; [exact H2|lia|lia].
Qed.

Lemma asorted_b_sound tab : asorted_b tab = true -> asorted tab.
Proof.
  intros H i j Hij Hj. unfold nthz. apply asorted_b_nat; [exact H|lia|lia].
Qed.

(* in a sorted table the first row with key c is the only one *)
Lemma find_sorted_some tab c m : asorted tab -> 0 <= m < Z.of_nat (length tab) -> a_c (nthz tab m) = c ->
  find (fun r => a_c r =? c) tab = Some (nthz tab m).
Proof.
  intros S Hm E. destruct (find (fun r => a_c r =? c) tab) as [x|] eqn:F.
  - apply find_some in F. destruct F as [Hin Hx]. apply Z.eqb_eq in Hx.
    apply In_nth with (d := arow0) in Hin. destruct Hin as [n [Hn En]].
    destruct (Z.lt_trichotomy (Z.of_nat n) m) as [L|[L|L]].
    + pose proof (S (Z.of_nat n) m ltac:(lia) ltac:(lia)) as K. unfold nthz at 1 in K.
      rewrite Nat2Z.id, En in K. lia.
    + subst m. unfold nthz. rewrite Nat2Z.id, En. reflexivity.
    + pose proof (S m (Z.of_nat n) ltac:(lia) ltac:(lia)) as K. unfold nthz at 2 in K.
      rewrite Nat2Z.id, En in K. lia.
  - exfalso. pose proof (find_none _ _ F (nthz tab m)) as K. cbv beta in K.
    rewrite E, Z.eqb_refl in K. assert (In (nthz tab m) tab) by (unfold nthz; apply nth_In; lia).
    specialize (K H). discriminate.
Qed.

Lemma find_none_idx tab c : (forall i, 0 <= i < Z.of_nat (length tab) -> a_c (nthz tab i) <> c) ->
  find (fun r => a_c r =? c) tab = None.
Proof.
  intro H. destruct (find (fun r => a_c r =? c) tab) as [x|] eqn:F; [|reflexivity].
  exfalso. apply find_some in F. destruct F as [Hin Hx]. apply Z.eqb_eq in Hx.
  apply In_nth with (d := arow0) in Hin. destruct Hin as [n [Hn En]].
  apply (H (Z.of_nat n)); [lia|]. unfold nthz. rewrite Nat2Z.id, En. exact Hx.
Qed.

Lemma shiftr1_div2 x : Z.shiftr x 1 = x / 2.
Proof. rewrite Z.shiftr_div_pow2 by lia. reflexivity. Qed.

Lemma fa_bis_correct tab c : asorted tab ->
  forall fuel l h, 0 <= l -> h <= Z.of_nat (length tab) -> (Z.to_nat (h - l) < fuel)%nat ->
  (forall i, 0 <= i < l -> a_c (nthz tab i) < c) ->
  (forall i, h <= i < Z.of_nat (length tab) -> c < a_c (nthz tab i)) ->
  fa_bis fuel tab c l h = Some (find (fun r => a_c r =? c) tab).
Proof.
  intros S. induction fuel as [|f IH]; intros l h Hl Hh Hf Lo Hi; [lia|].
  cbn [fa_bis]. destruct (l <? h) eqn:E.
  - apply Z.ltb_lt in E. rewrite shiftr1_div2.
    assert (Hm : l <= (h + l) / 2 < h).
    { pose proof (Z.div_mod (h + l) 2 ltac:(lia)). pose proof (Z.mod_pos_bound (h + l) 2 ltac:(lia)). lia. }
    set (m := (h + l) / 2) in *. change (nth (Z.to_nat m) tab arow0) with (nthz tab m).
    destruct (a_c (nthz tab m) =? c) eqn:Em.
    + apply Z.eqb_eq in Em. f_equal. symmetry. apply find_sorted_some; [exact S|lia|exact Em].
    + apply Z.eqb_neq in Em. destruct (c <? a_c (nthz tab m)) eqn:Ec.
      * apply Z.ltb_lt in Ec. apply IH; [lia|lia|lia|exact Lo|].
        intros i Hi'. destruct (Z.eq_dec i m) as [->|]; [exact Ec|].
        pose proof (S m i ltac:(lia) ltac:(lia)). lia.
      * apply Z.ltb_ge in Ec. apply IH; [lia|lia|lia| |exact Hi].
        intros i Hi'. destruct (Z.eq_dec i m) as [->|]; [lia|].
        pose proof (S i m ltac:(lia) ltac:(lia)). lia.
  - apply Z.ltb_ge in E. f_equal. symmetry. apply find_none_idx. intros i Hi' Heq.
    destruct (Z_lt_le_dec i l) as [L|L].
    + specialize (Lo i ltac:(lia)). lia.
    + specialize (Hi i ltac:(lia)). lia.
Qed.

Theorem fa_bis_is_find tab c fuel : asorted tab -> (length tab < fuel)%nat ->
  fa_bis fuel tab c 0 (Z.of_nat (length tab)) = Some (find (fun r => a_c r =? c) tab).
Proof.
  intros S Hf. apply fa_bis_correct; try lia; try exact S; intros; lia.
Qed.

(* depends on the generated table: re-checked whenever achars changes *)
Lemma achars_sorted : asorted_b achars = true.
Proof. vm_compute. reflexivity. Qed.

Theorem find_achar_is_lookup : forall c, find_achar_o c = Some (lookup_achar c).
Proof.
  intro c. unfold find_achar_o, lookup_achar. apply fa_bis_is_find.
  - apply asorted_b_sound, achars_sorted.
  - apply Nat.lt_succ_diag_r.
Qed.

Corollary find_achar_eq : forall c, find_achar c = lookup_achar c.
Proof. intro c. unfold find_achar. rewrite find_achar_is_lookup. reflexivity. Qed.

Lemma lookup_achar_key c r : lookup_achar c = Some r -> a_c r = c /\ In r achars.
Proof.
  unfold lookup_achar. intro H. apply find_some in H. destruct H as [Hin H].
  apply Z.eqb_eq in H. auto.
Qed.

(* keys identify rows *)
Lemma achars_key_inj r1 r2 : In r1 achars -> In r2 achars -> a_c r1 = a_c r2 -> r1 = r2.
Proof.
  intros H1 H2 E. pose proof (asorted_b_nat _ achars_sorted) as S. unfold arow in S.
  apply In_nth with (d := arow0) in H1. destruct H1 as [n1 [Hn1 E1]].
  apply In_nth with (d := arow0) in H2. destruct H2 as [n2 [Hn2 E2]].
  destruct (Nat.lt_trichotomy n1 n2) as [L|[L|L]].
  - specialize (S n1 n2 L Hn2). rewrite E1, E2 in S. lia.
  - subst n2. congruence.
  - specialize (S n2 n1 L Hn1). rewrite E1, E2 in S. lia.
Qed.

(* ================= 2. can_join ================= *)

Theorem can_join_spec : forall c1 c2,
  can_join c1 c2 =
  match lookup_achar c1, lookup_achar c2 with
  | Some a1, Some a2 => (nz (a_i a1) || nz (a_m a1)) && (nz (a_f a2) || nz (a_m a2))
  | _, _ => false
  end.
Proof. intros c1 c2. unfold can_join. rewrite !find_achar_eq. reflexivity. Qed.

(* ================= 3, 4. uc_cshape ================= *)

Theorem cshape_nontable : forall cur p n, lookup_achar cur = None -> uc_cshape cur p n = cur.
Proof. intros cur p n H. unfold uc_cshape. rewrite find_achar_eq, H. reflexivity. Qed.

Theorem cshape_form : forall cur p n r, lookup_achar cur = Some r ->
  let jp := can_join p cur in
  let jn := can_join cur n in
  let form := if jp then (if jn then a_m r else a_f r) else (if jn then a_i r else a_c r) in
  uc_cshape cur p n = (if form =? 0 then cur else form) /\ a_c r = cur.
Proof.
  intros cur p n r H jp jn form. split; [|apply (lookup_achar_key _ _ H)].
  unfold uc_cshape. rewrite find_achar_eq, H. fold jp jn. subst form. unfold nz.
  destruct jp, jn; cbn [andb negb];
    match goal with |- context [?x =? 0] => destruct (x =? 0) end; reflexivity.
Qed.

Corollary cshape_own_row : forall cur p n r, lookup_achar cur = Some r ->
  uc_cshape cur p n = cur \/ uc_cshape cur p n = a_i r \/ uc_cshape cur p n = a_m r \/
  uc_cshape cur p n = a_f r.
Proof.
  intros cur p n r H. destruct (cshape_form cur p n r H) as [E K]. cbv zeta in E. rewrite E.
  destruct (can_join p cur), (can_join cur n);
    match goal with |- context [?x =? 0] => destruct (x =? 0) end; auto.
Qed.

(* the result of shaping is never 0 for a non-zero letter, and a non-table letter is a fixpoint *)
Corollary cshape_nonzero : forall cur p n, cur <> 0 -> uc_cshape cur p n <> 0.
Proof.
  intros cur p n H. destruct (lookup_achar cur) as [r|] eqn:L.
  - destruct (cshape_form cur p n r L) as [E _]. cbv zeta in E. rewrite E.
    match goal with |- context [?x =? 0] => destruct (x =? 0) eqn:Z end; [exact H|].
    apply Z.eqb_neq in Z. exact Z.
  - rewrite cshape_nontable by exact L. exact H.
Qed.

(* ================= 5. table sanity, on the generated achars ================= *)

(* the non-zero contextual forms of a row that uc_cshape can return *)
Definition nzforms (r : arow) : list Z := filter nz [a_i r; a_m r; a_f r].
(* ... and with the isolated form a_s (which uc_cshape does not use) *)
Definition nzforms_s (r : arow) : list Z := filter nz [a_s r; a_i r; a_m r; a_f r].

Definition is_key (tab : list arow) (c : Z) : bool := existsb (fun r => a_c r =? c) tab.

(* (a) a form is not the key of another row; (b) rows with a common form have the same key *)
Definition forms_ok_b (forms : arow -> list Z) (tab : list arow) : bool :=
  forallb (fun r =>
    forallb (fun f => negb (is_key tab f) || (f =? a_c r)) (forms r) &&
    forallb (fun r' => forallb (fun f => implb (existsb (Z.eqb f) (forms r')) (a_c r =? a_c r')) (forms r)) tab)
  tab.

(* both checks hold for the generated table, with and without the isolated forms *)
Lemma achars_forms_ok_b : forms_ok_b nzforms_s achars = true.
Proof. vm_compute. reflexivity. Qed.
Lemma achars_cforms_ok_b : forms_ok_b nzforms achars = true.
Proof. vm_compute. reflexivity. Qed.

Lemma find_none_existsb {A} (p : A -> bool) l : existsb p l = false -> find p l = None.
Proof.
  induction l as [|a l IH]; [reflexivity|]. cbn [existsb find]. destruct (p a); [discriminate|exact IH].
Qed.

Lemma forms_ok_sound forms tab : forms_ok_b forms tab = true ->
  forall r f, In r tab -> In f (forms r) ->
    (find (fun r' => a_c r' =? f) tab = None \/ f = a_c r) /\
    (forall r', In r' tab -> In f (forms r') -> a_c r' = a_c r).
Proof.
  unfold forms_ok_b. intros H r f Hr Hf. rewrite forallb_forall in H. specialize (H r Hr).
  apply andb_true_iff in H. destruct H as [H1 H2]. rewrite forallb_forall in H1, H2. split.
  - specialize (H1 f Hf). apply orb_true_iff in H1. destruct H1 as [K|K].
    + left. apply find_none_existsb. unfold is_key in K. apply negb_true_iff in K. exact K.
    + right. apply Z.eqb_eq in K. exact K.
  - intros r' Hr' Hf'. specialize (H2 r' Hr'). rewrite forallb_forall in H2. specialize (H2 f Hf).
    assert (E : existsb (Z.eqb f) (forms r') = true).
    { apply existsb_exists. exists f. split; [exact Hf'|apply Z.eqb_refl]. }
    rewrite E in H2. cbn [implb] in H2. apply Z.eqb_eq in H2. symmetry. exact H2.
Qed.

Lemma in_nzforms_s r f : In f (nzforms_s r) <-> In f [a_s r; a_i r; a_m r; a_f r] /\ f <> 0.
Proof.
  unfold nzforms_s. rewrite filter_In. unfold nz. rewrite negb_true_iff, Z.eqb_neq. reflexivity.
Qed.
Lemma in_nzforms r f : In f (nzforms r) <-> In f [a_i r; a_m r; a_f r] /\ f <> 0.
Proof.
  unfold nzforms. rewrite filter_In. unfold nz. rewrite negb_true_iff, Z.eqb_neq. reflexivity.
Qed.

(* readable form: a non-zero form f (isolated, initial, medial or final) of a row r of achars is
   not a key of the table unless it is r's own key, and no other row has f among its forms *)
Theorem achars_forms_ok : forall r f, In r achars -> In f [a_s r; a_i r; a_m r; a_f r] -> f <> 0 ->
  (lookup_achar f = None \/ f = a_c r) /\
  (forall r', In r' achars -> In f [a_s r'; a_i r'; a_m r'; a_f r'] -> r' = r).
Proof.
  intros r f Hr Hf Hnz.
  destruct (forms_ok_sound nzforms_s achars achars_forms_ok_b r f Hr) as [K1 K2].
  { apply in_nzforms_s. auto. }
  split; [exact K1|]. intros r' Hr' Hf'. apply achars_key_inj; [exact Hr'|exact Hr|].
  apply K2; [exact Hr'|]. apply in_nzforms_s. auto.
Qed.

(* 0 (the "no neighbour" value) is not a letter of the table *)
Lemma lookup_achar_0 : lookup_achar 0 = None.
Proof. vm_compute. reflexivity. Qed.

(* shaping never maps a letter to a different letter of the table: the result of uc_cshape is
   cur itself or is not a key of achars; and the shaped forms of two different table letters
   never collide *)
Theorem cshape_not_other_letter : forall cur p n,
  uc_cshape cur p n = cur \/ lookup_achar (uc_cshape cur p n) = None.
Proof.
  intros cur p n. destruct (lookup_achar cur) as [r|] eqn:L.
  - destruct (lookup_achar_key _ _ L) as [Kc Kin].
    destruct (Z.eq_dec (uc_cshape cur p n) cur) as [E|NE]; [left; exact E|right].
    pose proof (cshape_nonzero cur p n) as NZ.
    assert (Hin : In (uc_cshape cur p n) [a_s r; a_i r; a_m r; a_f r]).
    { destruct (cshape_own_row cur p n r L) as [E|[E|[E|E]]]; [contradiction| | |]; rewrite E; cbn; auto. }
    destruct (Z.eq_dec cur 0) as [C0|C0].
    + (* cur = 0 is not a key (checked on the table through L) *)
      exfalso. rewrite C0, lookup_achar_0 in L. discriminate L.
    + destruct (achars_forms_ok r _ Kin Hin (NZ C0)) as [[K|K] _]; [exact K|]. congruence.
  - left. apply cshape_nontable, L.
Qed.

Theorem cshape_injective_on_letters : forall c1 p1 n1 c2 p2 n2 r1 r2,
  lookup_achar c1 = Some r1 -> lookup_achar c2 = Some r2 ->
  uc_cshape c1 p1 n1 = uc_cshape c2 p2 n2 -> c1 = c2.
Proof.
  intros c1 p1 n1 c2 p2 n2 r1 r2 L1 L2 E.
  destruct (lookup_achar_key _ _ L1) as [K1 I1]. destruct (lookup_achar_key _ _ L2) as [K2 I2].
  pose proof lookup_achar_0 as Z0.
  assert (C1 : c1 <> 0) by (intro; subst c1; congruence).
  assert (C2 : c2 <> 0) by (intro; subst c2; congruence).
  pose proof (cshape_nonzero c1 p1 n1 C1) as NZ1.
  destruct (Z.eq_dec (uc_cshape c1 p1 n1) c1) as [E1|NE1];
  destruct (Z.eq_dec (uc_cshape c2 p2 n2) c2) as [E2|NE2].
  - congruence.
  - (* c1 would be a shaped form of c2: impossible, c1 is a key *)
    destruct (cshape_not_other_letter c2 p2 n2) as [K|K]; [contradiction|]. rewrite <- E, E1, L1 in K. discriminate.
  - destruct (cshape_not_other_letter c1 p1 n1) as [K|K]; [contradiction|]. rewrite E, E2, L2 in K. discriminate.
  - assert (H1 : In (uc_cshape c1 p1 n1) [a_s r1; a_i r1; a_m r1; a_f r1]).
    { destruct (cshape_own_row c1 p1 n1 r1 L1) as [X|[X|[X|X]]]; [contradiction| | |]; rewrite X; cbn; auto. }
    assert (H2 : In (uc_cshape c1 p1 n1) [a_s r2; a_i r2; a_m r2; a_f r2]).
    { rewrite E. destruct (cshape_own_row c2 p2 n2 r2 L2) as [X|[X|[X|X]]]; [contradiction| | |]; rewrite X; cbn; auto. }
    destruct (achars_forms_ok r1 _ I1 H1 NZ1) as [_ K]. specialize (K r2 I2 H2). subst r2. congruence.
Qed.

(* ================= 6. diacritics are skipped when looking for neighbours ================= *)

Definition acombN (d : N) : Prop := uc_acomb (Z.of_N d) = true.

Lemma acomb_0 : uc_acomb 0 = false.
Proof. vm_compute. reflexivity. Qed.

Lemma encode_hd_noncont c R : scalar c -> hd_noncont (encode c ++ R).
Proof.
  intro H. destruct (encode_decomp c H) as (l & t & E & Hl & _). rewrite E. cbn. exact Hl.
Qed.

Lemma uc_code_encode c R : scalar c -> uc_code (encode c ++ R) = c.
Proof. intro H. apply (uc_len_code_encode c R H). Qed.

(* ---- shape_next ---- *)
Lemma shape_next_step f c0 R : scalar c0 -> hd_noncont R ->
  shape_next (S f) (encode c0 ++ R) =
  if negb (uc_acomb (Z.of_N (uc_code R))) then Some (Z.of_N (uc_code R)) else shape_next f R.
Proof.
  intros H0 HR. cbn [shape_next]. rewrite uc_next_encode by assumption. rewrite skipn_app_exact.
  destruct (encode_decomp c0 H0) as (l & t & E & _). rewrite E. cbn [app]. reflexivity.
Qed.

Lemma shape_next_skip : forall ds fuel c0 x tail,
  scalar c0 -> Forall scalar ds -> Forall acombN ds -> scalar x -> uc_acomb (Z.of_N x) = false ->
  (length ds < fuel)%nat ->
  shape_next fuel (encode c0 ++ chars ds ++ encode x ++ tail) = Some (Z.of_N x).
Proof.
  induction ds as [|d ds IH]; intros fuel c0 x tail H0 Hs Ha Hx Hxa Hf;
    (destruct fuel as [|f]; [cbn [length] in Hf; lia|]).
  - cbn [chars flat_map app]. rewrite shape_next_step by (auto using encode_hd_noncont).
    rewrite uc_code_encode by assumption. rewrite Hxa. reflexivity.
  - inversion Hs as [|? ? Hd Hs']; subst. inversion Ha as [|? ? Hda Ha']; subst.
    rewrite chars_cons, <- app_assoc. rewrite shape_next_step by (auto using encode_hd_noncont).
    rewrite uc_code_encode by assumption. unfold acombN in Hda. rewrite Hda. cbn [negb].
    apply IH; auto. cbn [length] in Hf. lia.
Qed.

Lemma shape_next_skip_end : forall ds fuel c0,
  scalar c0 -> Forall scalar ds -> Forall acombN ds -> (length ds < fuel)%nat ->
  shape_next fuel (encode c0 ++ chars ds) = Some 0.
Proof.
  induction ds as [|d ds IH]; intros fuel c0 H0 Hs Ha Hf;
    (destruct fuel as [|f]; [cbn [length] in Hf; lia|]).
  - cbn [chars flat_map]. rewrite shape_next_step by (auto; exact I).
    change (Z.of_N (uc_code [])) with 0. rewrite acomb_0. reflexivity.
  - inversion Hs as [|? ? Hd Hs']; subst. inversion Ha as [|? ? Hda Ha']; subst.
    rewrite chars_cons. rewrite shape_next_step by (auto using encode_hd_noncont).
    rewrite uc_code_encode by assumption. unfold acombN in Hda. rewrite Hda. cbn [negb].
    apply IH; auto. cbn [length] in Hf. lia.
Qed.

Lemma length_chars_ge cs : Forall scalar cs -> (length cs <= length (chars cs))%nat.
Proof. apply length_cs_le_chars. Qed.

(* the statements on a valid line: the next neighbour of c0 is the first non-diacritic after it *)
Theorem shape_next_skips_diacritics : forall fuel c0 ds x rest,
  scalar c0 -> Forall scalar ds -> Forall (fun d => uc_acomb (Z.of_N d) = true) ds ->
  scalar x -> uc_acomb (Z.of_N x) = false ->
  (length (chars (c0 :: ds ++ x :: rest)) < fuel)%nat ->
  shape_next fuel (chars (c0 :: ds ++ x :: rest)) = Some (Z.of_N x).
Proof.
  intros fuel c0 ds x rest H0 Hs Ha Hx Hxa Hf.
  revert Hf. rewrite chars_cons, chars_app, chars_cons. intro Hf.
  apply shape_next_skip; auto.
  rewrite !app_length in Hf. pose proof (length_chars_ge ds Hs). pose proof (encode_nonempty c0 H0). lia.
Qed.

Theorem shape_next_end_of_line : forall fuel c0 ds,
  scalar c0 -> Forall scalar ds -> Forall (fun d => uc_acomb (Z.of_N d) = true) ds ->
  (length (chars (c0 :: ds)) < fuel)%nat ->
  shape_next fuel (chars (c0 :: ds)) = Some 0.
Proof.
  intros fuel c0 ds H0 Hs Ha Hf. revert Hf. rewrite chars_cons. intro Hf.
  apply shape_next_skip_end; auto.
  rewrite !app_length in Hf. pose proof (length_chars_ge ds Hs). pose proof (encode_nonempty c0 H0). lia.
Qed.

(* ---- shape_prev ---- *)
Lemma shape_prev_step f (A : bytes) d tail : scalar d ->
  shape_prev (S f) (A ++ encode d ++ tail) (length A + length (encode d)) =
  if negb (uc_acomb (Z.of_N d)) then Some (Z.of_N d) else shape_prev f (A ++ encode d ++ tail) (length A).
Proof.
  intro Hd. pose proof (encode_nonempty d Hd) as Hne.
  set (s := A ++ encode d ++ tail).
  assert (F : firstn (length A + length (encode d)) s = A ++ encode d).
  { unfold s. rewrite app_assoc, <- app_length. apply firstn_app_exact. }
  assert (K : skipn (length A) s = encode d ++ tail) by (unfold s; apply skipn_app_exact).
  cbn [shape_prev]. destruct (Nat.eqb_spec (length A + length (encode d)) 0) as [Z|_]; [lia|].
  rewrite F, rev_app_distr, uc_prev_encode by assumption. rewrite Nat.add_sub, K.
  rewrite uc_code_encode by assumption. reflexivity.
Qed.

Lemma shape_prev_skip : forall ds fuel pre x tail,
  scalar x -> uc_acomb (Z.of_N x) = false -> Forall scalar ds -> Forall acombN ds ->
  (length ds < fuel)%nat ->
  shape_prev fuel (chars (pre ++ x :: ds) ++ tail) (length (chars (pre ++ x :: ds))) = Some (Z.of_N x).
Proof.
  induction ds as [|d ds IH] using rev_ind; intros fuel pre x tail Hx Hxa Hs Ha Hf;
    (destruct fuel as [|f]; [lia|]).
  - rewrite chars_app. cbn [chars flat_map]. rewrite app_nil_r. fold (chars pre).
    rewrite <- app_assoc, app_length. rewrite shape_prev_step by assumption. rewrite Hxa. reflexivity.
  - apply Forall_app in Hs. destruct Hs as [Hs Hd]. inversion Hd as [|? ? Hd' _]; subst.
    apply Forall_app in Ha. destruct Ha as [Ha Hda]. inversion Hda as [|? ? Hda' _]; subst.
    rewrite app_length in Hf. cbn [length] in Hf.
    rewrite app_comm_cons, app_assoc. rewrite (chars_app (pre ++ x :: ds) [d]).
    cbn [chars flat_map]. rewrite app_nil_r. fold (chars (pre ++ x :: ds)).
    rewrite <- app_assoc, app_length. rewrite shape_prev_step by assumption.
    unfold acombN in Hda'. rewrite Hda'. cbn [negb]. apply IH; auto. lia.
Qed.

Lemma shape_prev_skip_beg : forall ds fuel tail,
  Forall scalar ds -> Forall acombN ds -> (length ds < fuel)%nat ->
  shape_prev fuel (chars ds ++ tail) (length (chars ds)) = Some 0.
Proof.
  induction ds as [|d ds IH] using rev_ind; intros fuel tail Hs Ha Hf;
    (destruct fuel as [|f]; [lia|]).
  - reflexivity.
  - apply Forall_app in Hs. destruct Hs as [Hs Hd]. inversion Hd as [|? ? Hd' _]; subst.
    apply Forall_app in Ha. destruct Ha as [Ha Hda]. inversion Hda as [|? ? Hda' _]; subst.
    rewrite app_length in Hf. cbn [length] in Hf.
    rewrite chars_app. cbn [chars flat_map]. rewrite app_nil_r. fold (chars ds).
    rewrite <- app_assoc, app_length. rewrite shape_prev_step by assumption.
    unfold acombN in Hda'. rewrite Hda'. cbn [negb]. apply IH; auto. lia.
Qed.

(* the statements on a valid line: the previous neighbour of c0 is the last non-diacritic before it *)
Theorem shape_prev_skips_diacritics : forall fuel pre x ds c0 rest,
  scalar x -> uc_acomb (Z.of_N x) = false ->
  Forall scalar ds -> Forall (fun d => uc_acomb (Z.of_N d) = true) ds ->
  (length (chars (pre ++ x :: ds)) < fuel)%nat ->
  shape_prev fuel (chars (pre ++ x :: ds) ++ chars (c0 :: rest)) (length (chars (pre ++ x :: ds)))
  = Some (Z.of_N x).
Proof.
  intros fuel pre x ds c0 rest Hx Hxa Hs Ha Hf. apply shape_prev_skip; auto.
  rewrite chars_app, app_length in Hf.
  pose proof (length_chars_ge (x :: ds) (Forall_cons _ Hx Hs)) as L. cbn [length] in L. lia.
Qed.

Theorem shape_prev_beginning_of_line : forall fuel ds c0 rest,
  Forall scalar ds -> Forall (fun d => uc_acomb (Z.of_N d) = true) ds ->
  (length (chars ds) < fuel)%nat ->
  shape_prev fuel (chars ds ++ chars (c0 :: rest)) (length (chars ds)) = Some 0.
Proof.
  intros fuel ds c0 rest Hs Ha Hf. apply shape_prev_skip_beg; auto.
  pose proof (length_chars_ge ds Hs). lia.
Qed.

(* ---- the fuel of uc_shape is always sufficient on a valid line ---- *)
Lemma shape_next_total : forall cs fuel c0, scalar c0 -> Forall scalar cs -> (length cs < fuel)%nat ->
  exists v, shape_next fuel (encode c0 ++ chars cs) = Some v.
Proof.
  induction cs as [|d cs IH]; intros fuel c0 H0 Hs Hf;
    (destruct fuel as [|f]; [cbn [length] in Hf; lia|]).
  - cbn [chars flat_map]. rewrite shape_next_step by (auto; exact I).
    change (Z.of_N (uc_code [])) with 0. rewrite acomb_0. eexists; reflexivity.
  - inversion Hs as [|? ? Hd Hs']; subst.
    rewrite chars_cons. rewrite shape_next_step by (auto using encode_hd_noncont).
    rewrite uc_code_encode by assumption. destruct (uc_acomb (Z.of_N d)); cbn [negb].
    + apply IH; auto. cbn [length] in Hf. lia.
    + eexists; reflexivity.
Qed.

Lemma shape_prev_total : forall cs fuel tail, Forall scalar cs -> (length cs < fuel)%nat ->
  exists v, shape_prev fuel (chars cs ++ tail) (length (chars cs)) = Some v.
Proof.
  induction cs as [|d cs IH] using rev_ind; intros fuel tail Hs Hf;
    (destruct fuel as [|f]; [lia|]).
  - eexists; reflexivity.
  - apply Forall_app in Hs. destruct Hs as [Hs Hd]. inversion Hd as [|? ? Hd' _]; subst.
    rewrite app_length in Hf. cbn [length] in Hf.
    rewrite chars_app. cbn [chars flat_map]. rewrite app_nil_r. fold (chars cs).
    rewrite <- app_assoc, app_length. rewrite shape_prev_step by assumption.
    destruct (uc_acomb (Z.of_N d)); cbn [negb].
    + apply IH; auto. lia.
    + eexists; reflexivity.
Qed.

Theorem uc_shape_no_fuel : forall pre c0 rest, Forall scalar pre -> scalar c0 -> Forall scalar rest ->
  uc_shape (chars pre ++ chars (c0 :: rest)) (length (chars pre)) <> ShFuel.
Proof.
  intros pre c0 rest Hp H0 Hr. unfold uc_shape. rewrite skipn_app_exact. cbv zeta.
  match goal with |- (if ?b then _ else _) <> _ => destruct b end; [discriminate|].
  destruct (shape_prev_total pre (S (length (chars pre))) (chars (c0 :: rest)) Hp) as [p Ep].
  { pose proof (length_chars_ge pre Hp). lia. }
  rewrite Ep. rewrite chars_cons.
  destruct (shape_next_total rest (S (length (encode c0 ++ chars rest))) c0 H0 Hr) as [n En].
  { rewrite app_length. pose proof (length_chars_ge rest Hr). lia. }
  rewrite En. discriminate.
Qed.

(* uc_shape end to end: the letter c0 is shaped against its nearest non-diacritic neighbours *)
Theorem uc_shape_neighbours : forall pre x ds1 c0 ds2 y rest,
  scalar x -> uc_acomb (Z.of_N x) = false ->
  Forall scalar ds1 -> Forall (fun d => uc_acomb (Z.of_N d) = true) ds1 ->
  scalar c0 ->
  Forall scalar ds2 -> Forall (fun d => uc_acomb (Z.of_N d) = true) ds2 ->
  scalar y -> uc_acomb (Z.of_N y) = false ->
  uc_shape (chars (pre ++ x :: ds1) ++ chars (c0 :: ds2 ++ y :: rest)) (length (chars (pre ++ x :: ds1))) =
  if uc_r2l (Z.of_N c0)
  then ShOut (uc_cput (Z.to_N (uc_cshape (Z.of_N c0) (Z.of_N x) (Z.of_N y))))
  else ShNone.
Proof.
  intros pre x ds1 c0 ds2 y rest Hx Hxa Hs1 Ha1 H0 Hs2 Ha2 Hy Hya.
  unfold uc_shape. rewrite skipn_app_exact. cbv zeta.
  rewrite shape_prev_skips_diacritics by (auto; lia).
  rewrite shape_next_skips_diacritics by (auto; lia).
  rewrite (chars_cons c0), uc_code_encode by assumption.
  assert (Z0 : (Z.of_N c0 =? 0) = false) by (apply Z.eqb_neq; destruct H0; lia).
  rewrite Z0. cbn [orb]. destruct (uc_r2l (Z.of_N c0)); reflexivity.
Qed.

Print Assumptions fa_bis_is_find.
Print Assumptions find_achar_is_lookup.
Print Assumptions find_achar_eq.
Print Assumptions can_join_spec.
Print Assumptions cshape_nontable.
Print Assumptions cshape_form.
Print Assumptions cshape_own_row.
Print Assumptions cshape_nonzero.
Print Assumptions achars_forms_ok_b.
Print Assumptions achars_cforms_ok_b.
Print Assumptions achars_forms_ok.
Print Assumptions cshape_not_other_letter.
Print Assumptions cshape_injective_on_letters.
Print Assumptions shape_next_skips_diacritics.
Print Assumptions shape_next_end_of_line.
Print Assumptions shape_prev_skips_diacritics.
Print Assumptions shape_prev_beginning_of_line.
Print Assumptions uc_shape_no_fuel.
Print Assumptions uc_shape_neighbours.

(* ---- packaged statement cited by Properties_C18.v ---- *)
Theorem shape_spec : forall cur prev next,
  find_achar_o cur = Some (lookup_achar cur) /\
  (lookup_achar cur = None -> uc_cshape cur prev next = cur) /\
  (forall r, lookup_achar cur = Some r ->
     let jp := can_join prev cur in let jn := can_join cur next in
     let form := if jp then (if jn then a_m r else a_f r) else (if jn then a_i r else a_c r) in
     uc_cshape cur prev next = (if (form =? 0)%Z then cur else form) /\ a_c r = cur) /\
  can_join prev cur = match lookup_achar prev, lookup_achar cur with
                      | Some a1, Some a2 => (nz (a_i a1) || nz (a_m a1)) && (nz (a_f a2) || nz (a_m a2))
                      | _, _ => false
                      end /\
  (uc_cshape cur prev next = cur \/ lookup_achar (uc_cshape cur prev next) = None).
Proof.
  intros cur prev next. split; [apply find_achar_is_lookup|]. split; [apply cshape_nontable|].
  split; [intros r H; apply cshape_form; exact H|]. split; [apply can_join_spec | apply cshape_not_other_letter].
Qed.
Print Assumptions shape_spec.
