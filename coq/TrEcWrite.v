(* TrEcWrite.v -- ec_write of /repo/ex.c (the commands :w :w! :wq :x, `w path`, `w !cmd`, ranges) on the C text: the CLite term
   tools/c2clite.py generates (GenCFuncs.cf_ec_write, whitelist tools/c2clite.d/99zzzzz_ecwrite.list) RUN on a memory that holds bufs[0]
   (block G_bufs: path cell 32, lb cell 33, mtime cell 40), the buffer's own path string, its struct lbuf (TrLbuf.lbuf_rep), the command
   and argument strings.  ex_pathexpand, lbuf_cp, ex_print, cmd_pipe, lbuf_save, ex_show, snprintf, reg_put, mtime are oracles
   (CLiteExt.callx): every statement is for EVERY oracle, with one hypothesis per oracle call that is reached -- what it answered, and
   that it left the blocks the C text reads afterwards alone (`same_on`).  ex_region is translated (TrExAddr*.v): its call is a
   hypothesis of the same form here (`region_ok`), discharged in this file for the empty address (`:w`, `:wq`, `:x` from ec_quit).
   This first file: the statements of ec_write one by one (part 1: the tail behind the write -- message, adoption of the name, the
   saved mark, the mtime). *)
From Coq Require Import List ZArith NArith Bool Lia.
From NV Require Import Bytes UndoDefs.
From NV Require Import CLite CLiteProps GenCFuncs CLiteTac CLiteExt TrLbufBase TrLbuf.
Import ListNotations.
Local Open Scope Z_scope.

Lemma x_ex_pathexpand_none : nth_error cprog X_ex_pathexpand = None. Proof. vm_compute. reflexivity. Qed.
Lemma x_lbuf_cp_none : nth_error cprog X_lbuf_cp = None. Proof. vm_compute. reflexivity. Qed.
Lemma x_ex_print_none : nth_error cprog X_ex_print = None. Proof. vm_compute. reflexivity. Qed.
Lemma x_cmd_pipe_none : nth_error cprog X_cmd_pipe = None. Proof. vm_compute. reflexivity. Qed.
Lemma x_lbuf_save_none : nth_error cprog X_lbuf_save = None. Proof. vm_compute. reflexivity. Qed.
Lemma x_ex_show_none : nth_error cprog X_ex_show = None. Proof. vm_compute. reflexivity. Qed.
Lemma x_snprintf_none : nth_error cprog X_snprintf = None. Proof. vm_compute. reflexivity. Qed.
Lemma x_reg_put_none : nth_error cprog X_reg_put = None. Proof. vm_compute. reflexivity. Qed.
Lemma x_mtime_none : nth_error cprog X_mtime = None. Proof. vm_compute. reflexivity. Qed.

Ltac enterx f cf :=
  rewrite callx_S; cbn [nth_error cprog f cf fn_nparams fn_nlocals fn_body length Nat.eqb Nat.sub repeat app].

(* ------------------------------------------------------------------ the text of ec_write, statement by statement *)
Notation G_wmsg := G_lit_2225732220205b3d25645d20205b775d_16.        (* "\"%s\"  [=%d]  [w]" *)
Definition BUF_PATH : nat := 32.  Definition BUF_LB : nat := 33.  Definition BUF_MTIME : nat := 40.      (* cells of bufs[0] *)
Definition e_xb : expr := ECall F_ex_lbuf [].
Definition e_len : expr := ECall F_lbuf_len [e_xb].
Definition e_beg : expr := ELoad (Some I32) (ELocal 7).
Definition e_end : expr := ELoad (Some I32) (ELocal 8).
Definition e_fld (k : Z) : expr := EPtrAdd 1 (EPtrAdd 41 (EGlob G_bufs) (EConst 0)) (EConst k).
Definition e_own : expr := ELNot (EBuiltin BStrcmp [ECall F_ex_path []; ELocal 5]).     (* !strcmp(ex_path(), path) *)
Definition e_byte (x : nat) (k : Z) : expr := ELoad (Some I8) (EPtrAdd 1 (ELocal x) (EConst k)).

(* char msg[128]; int beg, end;  -- three blocks allocated at entry, never freed *)
Definition s_frame : stmt :=
  SSeq (SExpr (ESetLocal 4 (EBuiltin BMalloc [EConst 128])))
       (SSeq (SExpr (ESetLocal 7 (EBuiltin BMalloc [EConst 1]))) (SExpr (ESetLocal 8 (EBuiltin BMalloc [EConst 1])))).
(* path = arg[0] ? ex_pathexpand(arg, 1) : ex_path(); *)
Definition s_path : stmt :=
  SExpr (ESetLocal 5 (ECond (ECast I32 (e_byte 2 0)) (ECall X_ex_pathexpand [ELocal 2; EConst 1]) (ECall F_ex_path []))).
(* if (cmd[0] == 'x' && !lbuf_modified(xb)) return 0; *)
Definition s_xclean : stmt :=
  SIf (EAndAlso (EBin OEq I32 (ECast I32 (e_byte 1 0)) (EConst 120)) (ELNot (ECall F_lbuf_modified [e_xb]))) (SReturn (Some (EConst 0))) SSkip.
(* if (ex_region(loc, &beg, &end) || path == NULL) return 1; *)
Definition s_region : stmt :=
  SIf (EOrElse (ECall F_ex_region [ELocal 0; ELocal 7; ELocal 8]) (EPtrCmp OEq (ELocal 5) (EConst 0))) (SReturn (Some (EConst 1))) SSkip.
(* if (!loc[0]) { beg = 0; end = lbuf_len(xb); } *)
Definition s_whole : stmt :=
  SIf (ELNot (e_byte 0 0))
      (SSeq (SExpr (EStore (Some I32) (ELocal 7) (EConst 0))) (SExpr (EStore (Some I32) (ELocal 8) e_len))) SSkip.
(* the pipe: if (!path[1]) return 1; ibuf = lbuf_cp(xb, beg, end); ex_print(NULL); cmd_pipe(path + 1, ibuf, 0); free(ibuf); *)
Definition s_pipe : stmt :=
  SSeq (SIf (ELNot (e_byte 5 1)) (SReturn (Some (EConst 1))) SSkip)
  (SSeq (SExpr (ESetLocal 6 (ECall X_lbuf_cp [e_xb; e_beg; e_end])))
  (SSeq (SExpr (ECall X_ex_print [EConst 0]))
  (SSeq (SExpr (ECall X_cmd_pipe [EPtrAdd 1 (ELocal 5) (EConst 1); ELocal 6; EConst 0]))
        (SExpr (EBuiltin BFree [ELocal 6]))))).
(* the file: long ts = !strcmp(ex_path(), path) ? bufs[0].mtime : 0;
             char *err = lbuf_save(xb, beg, end, path, !!strchr(cmd, '!'), ts); if (err != NULL) { ex_show(err); return 1; } *)
Definition s_save : stmt :=
  SSeq (SExpr (ESetLocal 9 (ECond e_own (ELoad (Some I64) (e_fld 40)) (ECast I64 (EConst 0)))))
  (SSeq (SExpr (ESetLocal 10 (ECall X_lbuf_save [e_xb; e_beg; e_end; ELocal 5; ELNot (ELNot (EBuiltin BStrchr [ELocal 1; EConst 33])); ELocal 9])))
        (SIf (EPtrCmp ONe (ELocal 10) (EConst 0)) (SSeq (SExpr (ECall X_ex_show [ELocal 10])) (SReturn (Some (EConst 1)))) SSkip)).
Definition s_write : stmt := SIf (EBin OEq I32 (ECast I32 (e_byte 5 0)) (EConst 33)) s_pipe s_save.
(* snprintf(msg, sizeof(msg), "\"%s\"  [=%d]  [w]", path, end - beg); ex_show(msg); *)
Definition s_fmt : stmt := SExpr (ECall X_snprintf [ELocal 4; EConst 128; EGlob G_wmsg; ELocal 5; EBin OSub I32 e_end e_beg]).
Definition s_show : stmt := SExpr (ECall X_ex_show [ELocal 4]).
(* if (!ex_path()[0] && path[0] != '!') { free(bufs[0].path); bufs[0].path = uc_dup(path); reg_put('%', path, 0); }   (fix 268c549) *)
Definition s_adopt : stmt :=
  SIf (EAndAlso (ELNot (ELoad (Some I8) (EPtrAdd 1 (ECall F_ex_path []) (EConst 0)))) (EBin ONe I32 (ECast I32 (e_byte 5 0)) (EConst 33)))
      (SSeq (SExpr (EBuiltin BFree [ELoad None (e_fld 32)]))
      (SSeq (SExpr (EStore None (e_fld 32) (ECall F_uc_dup [ELocal 5])))
            (SExpr (ECall X_reg_put [EConst 37; ELocal 5; EConst 0])))) SSkip.
(* if (!strcmp(ex_path(), path)) { if (beg == 0 && end == lbuf_len(xb)) lbuf_saved(xb, 0); else lbuf_unsaved(xb); } *)
Definition s_saved : stmt :=
  SIf e_own
      (SIf (EAndAlso (EBin OEq I32 e_beg (EConst 0)) (EBin OEq I32 e_end e_len))
           (SExpr (ECall F_lbuf_saved [e_xb; EConst 0])) (SExpr (ECall F_lbuf_unsaved [e_xb]))) SSkip.
(* if (!strcmp(ex_path(), path)) bufs[0].mtime = mtime(path); *)
Definition s_mtime : stmt := SIf e_own (SExpr (EStore (Some I64) (e_fld 40) (ECall X_mtime [ELocal 5]))) SSkip.
Definition s_ret0 : stmt := SReturn (Some (EConst 0)).

Definition s_tail : stmt := SSeq s_fmt (SSeq s_show (SSeq s_adopt (SSeq s_saved (SSeq s_mtime s_ret0)))).
Definition s_rest : stmt := SSeq s_path (SSeq s_xclean (SSeq s_region (SSeq s_whole (SSeq s_write s_tail)))).
Lemma ec_write_shape : fn_body cf_ec_write = SSeq (match s_frame with SSeq a _ => a | _ => SSkip end)
                                               (SSeq (match s_frame with SSeq _ b => b | _ => SSkip end) s_rest).
Proof. reflexivity. Qed.

(* ------------------------------------------------------------------ strcmp on two C strings in memory (as in TrBufs.v; repeated here so that
   this file does not depend on the proofs about the buffer table) *)
Fixpoint str_cmp (a b : bytes) : Z :=
  match a, b with
  | [], [] => 0
  | [], _ :: _ => -1
  | _ :: _, [] => 1
  | x :: a', y :: b' => if (x <? y)%N then -1 else if (y <? x)%N then 1 else str_cmp a' b'
  end.
Definition same_str (a b : bytes) : bool := str_cmp a b =? 0.
Lemma w_u8_byte : forall c, (c < 256)%N -> wrap U8 (Z.of_N c) = Z.of_N c.
Proof. byte_fact. Qed.
Lemma w_cmp_cells_cstr (a : bytes) : nonul a -> forall (b : bytes) n, nonul b -> (Nat.min (length a) (length b) < n)%nat ->
  cmp_cells (cstr_block (zb a)) (cstr_block (zb b)) n = Ok (str_cmp a b).
Proof.
  intro Ha. induction a as [|x a IH]; intros b n Hb Hn; (destruct n as [|n]; [cbn in Hn; lia|]).
  - destruct b as [|y b]; [reflexivity|]. inversion Hb as [|? ? [Hy0 Hy] Hb']; subst.
    cbn [cstr_block zb map app cmp_cells str_cmp]. rewrite (w_u8_byte y Hy). change (wrap U8 0) with 0.
    destruct (Z.ltb_spec 0 (Z.of_N y)); [reflexivity|lia].
  - inversion Ha as [|? ? [Hx0 Hx] Ha']; subst. destruct b as [|y b].
    + cbn [cstr_block zb map app cmp_cells str_cmp]. rewrite (w_u8_byte x Hx). change (wrap U8 0) with 0.
      destruct (Z.ltb_spec (Z.of_N x) 0); [lia|]. destruct (Z.ltb_spec 0 (Z.of_N x)); [reflexivity|lia].
    + inversion Hb as [|? ? [Hy0 Hy] Hb']; subst. cbn [cstr_block zb map app cmp_cells str_cmp].
      rewrite (w_u8_byte x Hx), (w_u8_byte y Hy).
      destruct (Z.ltb_spec (Z.of_N x) (Z.of_N y)); destruct (N.ltb_spec x y); try lia; [reflexivity|].
      destruct (Z.ltb_spec (Z.of_N y) (Z.of_N x)); destruct (N.ltb_spec y x); try lia; [reflexivity|].
      destruct (Z.eqb_spec (Z.of_N x) 0); [lia|]. apply (IH Ha' b n Hb'). cbn [length] in Hn. lia.
Qed.
Lemma w_strcmp m b1 s1 b2 s2 : str_at m b1 s1 -> str_at m b2 s2 -> nonul s1 -> nonul s2 ->
  do_builtin_m BStrcmp [VPtr b1 0; VPtr b2 0] m = Ok (VInt (str_cmp s1 s2), m).
Proof.
  intros H1 H2 N1 N2. cbn [do_builtin_m do_builtin].
  change 0 with (Z.of_nat 0). rewrite (blk_from_str m b1 s1 0 H1) by lia. rewrite (blk_from_str m b2 s2 0 H2) by lia. cbn [bind skipn].
  rewrite w_cmp_cells_cstr; [reflexivity|assumption|assumption|].
  unfold cstr_block, zb. rewrite !app_length, !map_length. cbn [length]. lia.
Qed.
Lemma same_str_eq a b : same_str a b = true <-> a = b.
Proof.
  unfold same_str. revert b; induction a as [|x a IH]; intros [|y b]; cbn [str_cmp]; try (split; [discriminate|congruence]); [split; reflexivity|].
  destruct (N.ltb_spec x y); [split; [discriminate|intro E; injection E as -> _; lia]|].
  destruct (N.ltb_spec y x); [split; [discriminate|intro E; injection E as -> _; lia]|].
  assert (x = y) by lia. subst y. rewrite IH. split; congruence.
Qed.
Lemma same_str_refl a : same_str a a = true.
Proof. apply same_str_eq. reflexivity. Qed.

(* ------------------------------------------------------------------ the memory ec_write looks at *)
Definition same_on (bs : list nat) (m1 m2 : mem) : Prop := forall b, In b bs -> nth_error m2 b = nth_error m1 b.
Lemma same_on_refl bs m : same_on bs m m.
Proof. intros b _. reflexivity. Qed.
Lemma same_on_trans bs m1 m2 m3 : same_on bs m1 m2 -> same_on bs m2 m3 -> same_on bs m1 m3.
Proof. intros H1 H2 b Hb. rewrite (H2 b Hb). apply H1. exact Hb. Qed.
Lemma same_on_sub bs bs' m1 m2 : same_on bs m1 m2 -> (forall b, In b bs' -> In b bs) -> same_on bs' m1 m2.
Proof. intros H Hs b Hb. apply H, Hs, Hb. Qed.
Lemma same_on_upd bs (m : mem) b blk : (b < length m)%nat -> ~ In b bs -> same_on bs m (upd m b blk).
Proof. intros Hl Hn b' Hb'. apply mem_upd_other; [exact Hl|]. intro E. subst b'. contradiction. Qed.
Lemma same_on_app bs (m : mem) x : (forall b, In b bs -> (b < length m)%nat) -> same_on bs m (m ++ x).
Proof. intros Hl b Hb. apply nth_error_app1. apply Hl, Hb. Qed.

(* bufs[0]: block G_bufs (16 * 41 cells) with the path pointer, the struct lbuf pointer and the mtime of slot 0 *)
Record buf0 (m : mem) (gb : block) (pv : val) (bl : nat) (ts : Z) : Prop := mk_buf0 {
  b0_blk : nth_error m G_bufs = Some gb;
  b0_len : length gb = 656%nat;
  b0_path : nth_error gb BUF_PATH = Some pv;
  b0_lb : nth_error gb BUF_LB = Some (VPtr bl 0);
  b0_mt : nth_error gb BUF_MTIME = Some (VInt ts) }.
Lemma buf0_same m m' gb pv bl ts : buf0 m gb pv bl ts -> nth_error m' G_bufs = nth_error m G_bufs -> buf0 m' gb pv bl ts.
Proof. intros [A B C D E] H. constructor; try assumption. rewrite H. exact A. Qed.
Lemma str_at_same m m' b s : str_at m b s -> nth_error m' b = nth_error m b -> str_at m' b s.
Proof. unfold str_at. intros H E. rewrite E. exact H. Qed.
Definition hist_ptr (blk : block) (bh : nat) : Prop := nth_error blk L_hist = Some (VPtr bh 0).
Lemma rep_same m m' bl blk lb : lbuf_rep m bl blk lb -> nth_error m' bl = nth_error m bl ->
  (hist lb <> [] -> forall bh, hist_ptr blk bh -> nth_error m' bh = nth_error m bh) -> lbuf_rep m' bl blk lb.
Proof.
  intros [Rb Rl Ru Rsz Rn Rhu Rz Rla Rh] E Hh. constructor; try assumption; [rewrite E; exact Rb|].
  intro Hne. destruct (Rh Hne) as (bh & hblk & Hbh & Rp & Rhb & Rc). exists bh, hblk. split; [exact Hbh|]. split; [exact Rp|].
  split; [rewrite (Hh Hne bh Rp); exact Rhb|exact Rc].
Qed.

(* ------------------------------------------------------------------ the translated callees: ex_path, ex_lbuf, lbuf_len, uc_dup *)
Section Callees.
  Variable ext : nat -> list val -> mem -> res (val * mem).
  Lemma call_ex_path m gb pb bl ts d fuel : buf0 m gb (VPtr pb 0) bl ts ->
    callx ext cprog fuel (S d) F_ex_path [] m = Ok (VPtr pb 0, m).
  Proof.
    intros [A B C D E]. enterx F_ex_path cf_ex_path. xstep.
    rewrite (fld_load m G_bufs gb BUF_PATH (VPtr pb 0) _ A C) by reflexivity. xstep. reflexivity.
  Qed.
  Lemma call_ex_lbuf m gb pv bl ts d fuel : buf0 m gb pv bl ts ->
    callx ext cprog fuel (S d) F_ex_lbuf [] m = Ok (VPtr bl 0, m).
  Proof.
    intros [A B C D E]. enterx F_ex_lbuf cf_ex_lbuf. xstep.
    rewrite (fld_load m G_bufs gb BUF_LB (VPtr bl 0) _ A D) by reflexivity. xstep. reflexivity.
  Qed.
  Lemma call_lbuf_len m bl blk n d fuel : nth_error m bl = Some blk -> nth_error blk L_ln_n = Some (VInt n) -> i32 n ->
    callx ext cprog fuel (S d) F_lbuf_len [VPtr bl 0] m = Ok (VInt n, m).
  Proof.
    intros A B Hn. enterx F_lbuf_len cf_lbuf_len. xstep.
    rewrite (fld_load m bl blk L_ln_n (VInt n) _ A B) by reflexivity. xstep. rewrite wrap_I32_id by exact Hn. reflexivity.
  Qed.
End Callees.

Lemma str_at_app1 (m : mem) x b s : str_at m b s -> str_at (m ++ [x]) b s.
Proof. unfold str_at. intro H. rewrite nth_error_app_old by (apply nth_error_Some; congruence). exact H. Qed.
Lemma cstr_block_len (t : bytes) : length (cstr_block (zb t)) = S (length t).
Proof. unfold cstr_block, zb. rewrite app_length, !map_length. cbn. lia. Qed.
(* uc_dup(s): malloc(strlen(s) + 1), strcpy -- the copy is a fresh block behind the end of the memory *)
Lemma call_uc_dup (m : mem) b s d fuel : str_at m b s -> nonul s -> Z.of_nat (length s) <= 2147483647 ->
  callf cprog fuel (S d) F_uc_dup [VPtr b 0] m = Ok (VPtr (length m) 0, m ++ [cstr_block (zb s)]).
Proof.
  intros Hs Hn Hmax. enter F_uc_dup cf_uc_dup. xstep.
  change 0 with (Z.of_nat 0). rewrite (builtin_strlen m b s 0 Hs Hn ltac:(lia)). xstep. change (wrap U64 1) with 1.
  rewrite chk_U64 by lia. xstep. rewrite malloc_ok by lia. xstep.
  set (U := repeat VUndef (Z.to_nat (Z.of_nat (length s - 0) + 1))).
  cbn [do_builtin_m]. rewrite (blk_from_str (m ++ [U]) b s 0 (str_at_app1 m U b s Hs) ltac:(lia)). cbn [bind skipn].
  rewrite scan0_cstr by exact Hn. cbn [bind Nat.add].
  rewrite firstn_all2 by (rewrite cstr_block_len; lia).
  rewrite (write_cells_ok (m ++ [U]) (length m) U 0 (cstr_block (zb s))); try lia.
  - cbn [bind]. xstep. rewrite upd_app_new. change (Z.to_nat 0) with 0%nat. rewrite put_cells_0.
    rewrite skipn_all2 by (unfold U; rewrite repeat_length, cstr_block_len; lia). rewrite app_nil_r. reflexivity.
  - apply nth_error_app_new.
  - unfold U. rewrite repeat_length, cstr_block_len. lia.
Qed.

Lemma sx_eq33 : forall c, (c < 256)%N -> (wrap I32 (wrap I8 (Z.of_N c)) =? 33) = (c =? 33)%N.
Proof. byte_fact. Qed.
Lemma sx_eq120 : forall c, (c < 256)%N -> (wrap I32 (wrap I8 (Z.of_N c)) =? 120) = (c =? 120)%N.
Proof. byte_fact. Qed.
Lemma c8_eq0 : forall c, (c < 256)%N -> (wrap I8 (Z.of_N c) =? 0) = (c =? 0)%N.
Proof. byte_fact. Qed.
Lemma sx_eq0 : forall c, (c < 256)%N -> (wrap I32 (wrap I8 (Z.of_N c)) =? 0) = (c =? 0)%N.
Proof. byte_fact. Qed.

(* what the saved-mark statement of ec_write does to the struct lbuf and to the model state: own = the path written to is the buffer's own
   path, wh = the whole buffer was written *)
Definition whole (b e n : Z) : bool := (b =? 0) && (e =? n).
Definition saved_blk (blk : block) (lb : lbuf) (own wh : bool) : block :=
  if own then (if wh then upd (upd blk L_useq_zero (VInt (lbuf_seq lb))) L_useq (VInt (useq lb + 1)) else upd blk L_useq_zero (VInt (-1))) else blk.
Definition saved_lb (lb : lbuf) (own wh : bool) : lbuf := if own then (if wh then lbuf_saved lb false else lbuf_unsaved lb) else lb.
Definition saved_mem (m : mem) (bl : nat) (blk : block) (lb : lbuf) (own wh : bool) : mem := if own then upd m bl (saved_blk blk lb own wh) else m.

(* the name is adopted: the buffer has no name and the target is not a pipe *)
Definition adopts (p path : bytes) : bool := match p with [] => negb (nthb path 0 =? 33)%N | _ :: _ => false end.
Definition adopt_mem (m : mem) (gb : block) (pb : nat) (path : bytes) : mem :=
  upd (upd m pb [] ++ [cstr_block (zb path)]) G_bufs (upd gb BUF_PATH (VPtr (length m) 0)).

Section Stmts.
  Variable ext : nat -> list val -> mem -> res (val * mem).
  Variables (d fuel : nat).
  Local Notation call := (callx ext cprog fuel (S (S (S d)))).

  Lemma eval_local L x v m : nth_error L x = Some v -> v <> VUndef -> eval call (ELocal x) (mkst L m) = Ok (v, mkst L m).
  Proof. intros H Hv. cbn [eval]. unfold get_local. cbn [locals]. rewrite H. destruct v; [congruence|reflexivity|reflexivity]. Qed.

  (* !strcmp(ex_path(), path) *)
  Lemma eval_own L m gb pb bl ts p qb path : nth_error L 5 = Some (VPtr qb 0) ->
    buf0 m gb (VPtr pb 0) bl ts -> str_at m pb p -> str_at m qb path -> nonul p -> nonul path ->
    eval call e_own (mkst L m) = Ok (VInt (b2z (same_str p path)), mkst L m).
  Proof.
    intros H5 Hb Hp Hq Np Nq. unfold e_own. xstep. rewrite (call_ex_path ext m gb pb bl ts _ fuel Hb). xstep.
    unfold get_local. cbn [locals]. rewrite H5. xstep. rewrite (w_strcmp m pb p qb path Hp Hq Np Nq). xstep.
    unfold same_str. destruct (str_cmp p path =? 0); reflexivity.
  Qed.

  Lemma load1 (m : mem) b v : nth_error m b = Some [v] -> load m b 0 = Ok v.
  Proof. intro H. unfold load. rewrite H. reflexivity. Qed.
  Lemma eval_int_at L x bx v m : nth_error L x = Some (VPtr bx 0) -> nth_error m bx = Some [VInt v] -> i32 v ->
    eval call (ELoad (Some I32) (ELocal x)) (mkst L m) = Ok (VInt v, mkst L m).
  Proof.
    intros H Hm Hv. xstep. unfold get_local. cbn [locals]. rewrite H. xstep. rewrite (load1 m bx _ Hm). xstep.
    rewrite wrap_I32_id by exact Hv. reflexivity.
  Qed.
  Lemma eval_xb L m gb pv bl ts : buf0 m gb pv bl ts -> eval call e_xb (mkst L m) = Ok (VPtr bl 0, mkst L m).
  Proof. intro Hb. unfold e_xb. xstep. rewrite (call_ex_lbuf ext m gb pv bl ts _ fuel Hb). xstep. reflexivity. Qed.
  Lemma eval_len L m gb pv bl ts blk n : buf0 m gb pv bl ts -> nth_error m bl = Some blk -> nth_error blk L_ln_n = Some (VInt n) -> i32 n ->
    eval call e_len (mkst L m) = Ok (VInt n, mkst L m).
  Proof.
    intros Hb Hl Hn In. unfold e_len, e_xb. xstep. rewrite (call_ex_lbuf ext m gb pv bl ts _ fuel Hb). xstep.
    rewrite (call_lbuf_len ext m bl blk n _ fuel Hl Hn In). xstep. reflexivity.
  Qed.

  (* ---- if (!strcmp(ex_path(), path)) bufs[0].mtime = mtime(path);
     the oracle for mtime is asked exactly when the path written to is the buffer's own path; what it answers is stored *)
  Lemma mtime_ok L m gb pb bl ts p qb path : nth_error L 5 = Some (VPtr qb 0) ->
    buf0 m gb (VPtr pb 0) bl ts -> str_at m pb p -> str_at m qb path -> nonul p -> nonul path ->
    if same_str p path then
      forall t m1, ext X_mtime [VPtr qb 0] m = Ok (VInt t, m1) -> nth_error m1 G_bufs = Some gb ->
        exec call fuel s_mtime (mkst L m) = ONormal (mkst L (upd m1 G_bufs (upd gb BUF_MTIME (VInt (wrap I64 t)))))
    else exec call fuel s_mtime (mkst L m) = ONormal (mkst L m).
  Proof.
    intros H5 Hb Hp Hq Np Nq. unfold s_mtime. rewrite exec_if, (eval_own L m gb pb bl ts p qb path H5 Hb Hp Hq Np Nq). xstep.
    destruct (same_str p path); cbn [b2z Z.eqb negb]; [|xstep; reflexivity].
    intros t m1 He Hg. unfold e_fld. xstep. unfold get_local. cbn [locals]. rewrite H5. xstep.
    rewrite callx_S, x_mtime_none, He. xstep.
    rewrite (fld_store m1 G_bufs gb BUF_MTIME _ _ Hg) by (try reflexivity; rewrite (b0_len _ _ _ _ _ Hb); unfold BUF_MTIME; lia).
    xstep. reflexivity.
  Qed.

  (* ---- if (!strcmp(ex_path(), path)) { if (beg == 0 && end == lbuf_len(xb)) lbuf_saved(xb, 0); else lbuf_unsaved(xb); }
     a write to another path touches nothing; a write of the whole buffer to its own path marks it saved (UndoDefs.lbuf_saved lb false:
     useq_zero = the sequence number of the undo position, then the command counter is bumped); a write of a part of the buffer to its
     own path marks it as never saved (UndoDefs.lbuf_unsaved: useq_zero = -1) *)
  Lemma saved_ok L m gb pb bl ts p qb path blk lb bb be b e n :
    nth_error L 5 = Some (VPtr qb 0) -> nth_error L 7 = Some (VPtr bb 0) -> nth_error L 8 = Some (VPtr be 0) ->
    buf0 m gb (VPtr pb 0) bl ts -> str_at m pb p -> str_at m qb path -> nonul p -> nonul path ->
    lbuf_rep m bl blk lb -> lbuf_ints lb -> useq lb < 2147483647 -> bl <> G_bufs ->
    nth_error blk L_ln_n = Some (VInt n) -> i32 n ->
    nth_error m bb = Some [VInt b] -> nth_error m be = Some [VInt e] -> i32 b -> i32 e ->
    let own := same_str p path in let wh := whole b e n in
    exec call fuel s_saved (mkst L m) = ONormal (mkst L (saved_mem m bl blk lb own wh)) /\
    lbuf_rep (saved_mem m bl blk lb own wh) bl (saved_blk blk lb own wh) (saved_lb lb own wh).
  Proof.
    intros H5 H7 H8 Hb Hp Hq Np Nq R Hints Hmax Hne Hn In Hbeg Hend Ib Ie own wh. unfold saved_mem, saved_blk, saved_lb.
    unfold s_saved. rewrite exec_if, (eval_own L m gb pb bl ts p qb path H5 Hb Hp Hq Np Nq). xstep. fold own.
    destruct own; cbn [b2z Z.eqb negb]; [|split; [xstep; reflexivity|exact R]].
    unfold e_beg at 1. rewrite (eval_int_at L 7 bb b m H7 Hbeg Ib). xstep. unfold wh, whole.
    destruct (b =? 0); cbn [andb b2z Z.eqb negb].
    - unfold e_end at 1. rewrite (eval_int_at L 8 be e m H8 Hend Ie). xstep.
      rewrite (eval_len L m gb (VPtr pb 0) bl ts blk n Hb (rep_blk _ _ _ _ R) Hn In). xstep.
      destruct (e =? n); cbn [b2z Z.eqb negb].
      + destruct (tr_lbuf_saved_keep m bl blk lb gb d fuel R Hints Hmax Hne (b0_blk _ _ _ _ _ Hb) (b0_lb _ _ _ _ _ Hb)) as [Hc R'].
        split; [|exact R']. rewrite (eval_xb L m gb (VPtr pb 0) bl ts Hb). xstep.
        rewrite (callx_mono ext _ _ _ _ _ _ _ Hc). xstep. reflexivity.
      + destruct (tr_lbuf_unsaved m bl blk lb (S (S d)) fuel R) as [Hc R']. split; [|exact R'].
        rewrite (eval_xb L m gb (VPtr pb 0) bl ts Hb). xstep.
        rewrite (callx_mono ext _ _ _ _ _ _ _ Hc). xstep. reflexivity.
    - destruct (tr_lbuf_unsaved m bl blk lb (S (S d)) fuel R) as [Hc R']. split; [|exact R'].
      xstep. rewrite (eval_xb L m gb (VPtr pb 0) bl ts Hb). xstep.
      rewrite (callx_mono ext _ _ _ _ _ _ _ Hc). xstep. reflexivity.
  Qed.

  (* ---- if (!ex_path()[0] && path[0] != '!') { free(bufs[0].path); bufs[0].path = uc_dup(path); reg_put('%', path, 0); }     (fix 268c549)
     the name is adopted exactly when the buffer has none AND the target is not a pipe: then the old "" is freed, a fresh copy of the path
     becomes bufs[0].path (adopt_mem) and the oracle for reg_put is called on that memory; otherwise NOTHING is stored and nothing is called *)
  Lemma adopt_ok L m gb pb bl ts p qb path : nth_error L 5 = Some (VPtr qb 0) ->
    buf0 m gb (VPtr pb 0) bl ts -> str_at m pb p -> str_at m qb path -> nonul p -> nonul path ->
    pb <> G_bufs -> Z.of_nat (length path) <= 2147483647 ->
    if adopts p path then
      pb <> qb -> forall u m3, ext X_reg_put [VInt 37; VPtr qb 0; VInt 0] (adopt_mem m gb pb path) = Ok (u, m3) ->
        exec call fuel s_adopt (mkst L m) = ONormal (mkst L m3)
    else exec call fuel s_adopt (mkst L m) = ONormal (mkst L m).
  Proof.
    intros H5 Hb Hp Hq Np Nq Hpg Hlen. unfold s_adopt. rewrite exec_if. xstep.
    rewrite (call_ex_path ext m gb pb bl ts _ fuel Hb). xstep.
    rewrite (load_str m pb p _ 0 Hp) by (try reflexivity; lia). xstep.
    assert (Hc : (nthb p 0 < 256)%N) by (apply nthb_lt256, nonul_lt256; exact Np).
    rewrite (c8_eq0 _ Hc). unfold adopts.
    destruct p as [|c p'].
    2:{ cbn [nthb nth]. inversion Np as [|? ? [Hc0 _] _]; subst. destruct (N.eqb_spec c 0) as [E|_]; [lia|]. xstep. reflexivity. }
    cbn [nthb nth N.eqb negb b2z Z.eqb]. xstep. unfold e_byte. xstep. unfold get_local. cbn [locals]. rewrite H5. xstep.
    rewrite (load_str m qb path _ 0 Hq) by (try reflexivity; lia). xstep.
    assert (Hq0 : (nthb path 0 < 256)%N) by (apply nthb_lt256, nonul_lt256; exact Nq).
    rewrite (sx_eq33 _ Hq0). destruct (nthb path 0 =? 33)%N; cbn [negb b2z Z.eqb]; xstep; [reflexivity|].
    intros Hpq u m3 He. unfold e_fld. xstep.
    pose proof Hb as [A B C D E].
    rewrite (fld_load m G_bufs gb BUF_PATH (VPtr pb 0) _ A C) by reflexivity. xstep.
    rewrite (free_ok m pb _ Hp) by (unfold cstr_block; intro X; apply app_eq_nil in X; destruct X; discriminate). xstep.
    assert (Lpb : (pb < length m)%nat) by (apply nth_error_Some; unfold str_at in Hp; congruence).
    set (m1 := upd m pb []).
    assert (Hq1 : str_at m1 qb path) by (apply str_at_upd_other; [exact Lpb|congruence|exact Hq]).
    unfold get_local. cbn [locals]. rewrite H5. xstep.
    rewrite (callx_mono ext _ _ _ _ _ _ _ (call_uc_dup m1 qb path (S (S d)) fuel Hq1 Nq Hlen)). xstep.
    assert (A1 : nth_error (m1 ++ [cstr_block (zb path)]) G_bufs = Some gb).
    { rewrite nth_error_app_old by (unfold m1; rewrite upd_length by exact Lpb; apply nth_error_Some; congruence).
      unfold m1. rewrite mem_upd_other by (try exact Lpb; congruence). exact A. }
    rewrite (fld_store _ G_bufs gb BUF_PATH _ _ A1) by (try reflexivity; rewrite B; unfold BUF_PATH; lia). xstep.
    unfold get_local. cbn [locals]. rewrite H5. xstep.
    unfold m1. rewrite upd_length by exact Lpb. fold (adopt_mem m gb pb path).
    rewrite callx_S, x_reg_put_none, He. xstep. reflexivity.
  Qed.

  (* ---- snprintf(msg, sizeof(msg), "\"%s\"  [=%d]  [w]", path, end - beg); ex_show(msg);   -- two oracle calls *)
  Lemma fmt_ok L m bm qb bb be b e u m1 : nth_error L 4 = Some (VPtr bm 0) -> nth_error L 5 = Some (VPtr qb 0) ->
    nth_error L 7 = Some (VPtr bb 0) -> nth_error L 8 = Some (VPtr be 0) ->
    nth_error m bb = Some [VInt b] -> nth_error m be = Some [VInt e] -> i32 b -> i32 e -> i32 (e - b) ->
    ext X_snprintf [VPtr bm 0; VInt 128; VPtr G_wmsg 0; VPtr qb 0; VInt (e - b)] m = Ok (u, m1) ->
    exec call fuel s_fmt (mkst L m) = ONormal (mkst L m1).
  Proof.
    intros H4 H5 H7 H8 Hbeg Hend Ib Ie Ieb He. unfold s_fmt. rewrite exec_expr. xstep.
    unfold get_local at 1. cbn [locals]. rewrite H4. xstep. unfold get_local at 1. cbn [locals]. rewrite H5. xstep.
    unfold e_end. rewrite (eval_int_at L 8 be e m H8 Hend Ie). xstep.
    unfold e_beg. rewrite (eval_int_at L 7 bb b m H7 Hbeg Ib). xstep.
    rewrite chk_I32 by exact Ieb. xstep. rewrite callx_S, x_snprintf_none, He. xstep. reflexivity.
  Qed.
  Lemma show_ok L m bm u m1 : nth_error L 4 = Some (VPtr bm 0) -> ext X_ex_show [VPtr bm 0] m = Ok (u, m1) ->
    exec call fuel s_show (mkst L m) = ONormal (mkst L m1).
  Proof.
    intros H4 He. unfold s_show. rewrite exec_expr. xstep. unfold get_local. cbn [locals]. rewrite H4. xstep.
    rewrite callx_S, x_ex_show_none, He. xstep. reflexivity.
  Qed.
End Stmts.

(* ------------------------------------------------------------------ the blocks ec_write reads, and what an oracle call must leave alone *)
Section View.
  Variables (bl : nat) (ts n : Z) (bb be : nat).
  Record wview (m : mem) (gb : block) (pb : nat) (p : bytes) (blk : block) (lb : lbuf) (qb : nat) (path : bytes) (b e : Z) : Prop := mk_wview {
    wv_b0 : buf0 m gb (VPtr pb 0) bl ts;
    wv_p : str_at m pb p;
    wv_q : str_at m qb path;
    wv_rep : lbuf_rep m bl blk lb;
    wv_n : nth_error blk L_ln_n = Some (VInt n);
    wv_beg : nth_error m bb = Some [VInt b];
    wv_end : nth_error m be = Some [VInt e] }.
  Definition wkeys (K : list nat) (pb qb : nat) (blk : block) (lb : lbuf) : Prop :=
    (forall x, In x [G_bufs; pb; qb; bl; bb; be] -> In x K) /\ (hist lb <> [] -> forall bh, hist_ptr blk bh -> In bh K).
  Lemma wview_same K m m' gb pb p blk lb qb path b e : wview m gb pb p blk lb qb path b e -> wkeys K pb qb blk lb -> same_on K m m' ->
    wview m' gb pb p blk lb qb path b e.
  Proof.
    intros [A B C D E F G] [HK Hh] Hs.
    assert (S1 : forall x, In x [G_bufs; pb; qb; bl; bb; be] -> nth_error m' x = nth_error m x) by (intros x Hx; apply Hs, HK, Hx).
    constructor.
    - apply (buf0_same m m' _ _ _ _ A). apply S1. cbn; tauto.
    - apply (str_at_same m m' _ _ B). apply S1. cbn; tauto.
    - apply (str_at_same m m' _ _ C). apply S1. cbn; tauto.
    - apply (rep_same m m' _ _ _ D); [apply S1; cbn; tauto|]. intros Hne bh Hp. apply Hs, (Hh Hne), Hp.
    - exact E.
    - rewrite S1 by (cbn; tauto). exact F.
    - rewrite S1 by (cbn; tauto). exact G.
  Qed.
  (* the blocks are different blocks *)
  Definition wdist (pb qb : nat) (blk : block) (lb : lbuf) : Prop :=
    NoDup [G_bufs; pb; bl; bb; be] /\ ~ In qb [G_bufs; bl; bb; be] /\ (hist lb <> [] -> forall bh, hist_ptr blk bh -> ~ In bh [G_bufs; pb; bb; be]).
  Lemma wview_lt m gb pb p blk lb qb path b e x : wview m gb pb p blk lb qb path b e -> In x [G_bufs; pb; qb; bl; bb; be] -> (x < length m)%nat.
  Proof.
    intros [[A _ _ _ _] B C [D _ _ _ _ _ _ _ _] E F G] Hx. unfold str_at in *. cbn [In] in Hx.
    apply nth_error_Some. destruct Hx as [<-|[<-|[<-|[<-|[<-|[<-|[]]]]]]]; congruence.
  Qed.

  Lemma adopt_other (m : mem) gb pb path x : (G_bufs < length m)%nat -> (pb < length m)%nat -> (x < length m)%nat -> x <> pb -> x <> G_bufs ->
    nth_error (adopt_mem m gb pb path) x = nth_error m x.
  Proof.
    intros Lg Lp Lx N1 N2. unfold adopt_mem.
    rewrite mem_upd_other by (try (rewrite app_length, upd_length by exact Lp; lia); exact N2).
    rewrite nth_error_app_old by (rewrite upd_length by exact Lp; exact Lx). apply mem_upd_other; assumption.
  Qed.
  Lemma hist_ptr_lt m blk lb bh : lbuf_rep m bl blk lb -> hist_ptr blk bh -> hist lb <> [] -> (bh < length m)%nat.
  Proof.
    intros [Rb Rl Ru Rsz Rn Rhu Rz Rla Rh] Hp Hne. destruct (Rh Hne) as (bh' & hblk & _ & Rp & Rhb & _).
    unfold hist_ptr in Hp. rewrite Hp in Rp. injection Rp as <-. apply nth_error_Some. congruence.
  Qed.
  (* after the adoption: bufs[0].path points to the fresh copy of the path *)
  Lemma wview_adopt m gb pb p blk lb qb path b e : wview m gb pb p blk lb qb path b e -> wdist pb qb blk lb -> pb <> qb ->
    wview (adopt_mem m gb pb path) (upd gb BUF_PATH (VPtr (length m) 0)) (length m) path blk lb qb path b e.
  Proof.
    intros V (Hnd & Hq & Hh) Hpq. pose proof (wview_lt m gb pb p blk lb qb path b e) as Hlt. specialize (fun x => Hlt x V).
    destruct V as [[A B C D E] P Q R N F G].
    assert (Lg : (G_bufs < length m)%nat) by (apply Hlt; cbn; tauto). assert (Lp : (pb < length m)%nat) by (apply Hlt; cbn; tauto).
    assert (Hoth : forall x, In x [qb; bl; bb; be] -> nth_error (adopt_mem m gb pb path) x = nth_error m x).
    { intros x Hx. apply adopt_other; try assumption.
      - apply Hlt. cbn [In] in *. tauto.
      - intro X. subst x. cbn [In] in Hx. destruct Hx as [X|Hx]; [congruence|].
        inversion Hnd as [|? ? H1 H2]; subst. inversion H2 as [|? ? H3 H4]; subst. apply H3. cbn [In] in *. tauto.
      - intro X. subst x. cbn [In] in Hx. destruct Hx as [X|Hx]; [apply Hq; rewrite X; left; reflexivity|].
        inversion Hnd as [|? ? H1 H2]; subst. apply H1. cbn [In] in *. tauto. }
    assert (Lall : (G_bufs < length (upd m pb [] ++ [cstr_block (zb path)]))%nat) by (rewrite app_length, upd_length by exact Lp; lia).
    constructor.
    - constructor.
      + unfold adopt_mem. apply mem_upd_same. exact Lall.
      + rewrite upd_length by (rewrite B; unfold BUF_PATH; lia). exact B.
      + apply nth_error_upd_same. rewrite B. unfold BUF_PATH. lia.
      + rewrite nth_error_upd_other by (try (rewrite B; unfold BUF_PATH; lia); unfold BUF_LB, BUF_PATH; lia). exact D.
      + rewrite nth_error_upd_other by (try (rewrite B; unfold BUF_PATH; lia); unfold BUF_MTIME, BUF_PATH; lia). exact E.
    - unfold str_at, adopt_mem. rewrite mem_upd_other by (try exact Lall; lia).
      replace (length m) with (length (upd m pb [])) at 1 by (apply upd_length; exact Lp). apply nth_error_app_new.
    - apply (str_at_same m _ _ _ Q). apply Hoth. cbn; tauto.
    - apply (rep_same m _ _ _ _ R); [apply Hoth; cbn; tauto|]. intros Hne bh Hp.
      apply adopt_other; try assumption.
      + apply (hist_ptr_lt m blk lb bh R Hp Hne).
      + intro X; subst bh; apply (Hh Hne _ Hp); cbn; tauto.
      + intro X; subst bh; apply (Hh Hne _ Hp); cbn; tauto.
    - exact N.
    - rewrite Hoth by (cbn; tauto). exact F.
    - rewrite Hoth by (cbn; tauto). exact G.
  Qed.

  Lemma wview_saved m gb pb p blk lb qb path b e own wh : wview m gb pb p blk lb qb path b e -> wdist pb qb blk lb ->
    lbuf_rep (saved_mem m bl blk lb own wh) bl (saved_blk blk lb own wh) (saved_lb lb own wh) ->
    wview (saved_mem m bl blk lb own wh) gb pb p (saved_blk blk lb own wh) (saved_lb lb own wh) qb path b e.
  Proof.
    intros V (Hnd & Hq & Hh) R'. pose proof (wview_lt m gb pb p blk lb qb path b e) as Hlt. specialize (fun x => Hlt x V).
    destruct V as [A P Q R N F G]. unfold saved_mem in *. destruct own; [|constructor; assumption].
    assert (Lb : (bl < length m)%nat) by (apply Hlt; cbn; tauto).
    assert (Hoth : forall x, In x [G_bufs; pb; qb; bb; be] -> nth_error (upd m bl (saved_blk blk lb true wh)) x = nth_error m x).
    { intros x Hx. apply mem_upd_other; [exact Lb|]. intro X. subst x. cbn [In] in Hx.
      inversion Hnd as [|? ? H1 H2]; subst. inversion H2 as [|? ? H3 H4]; subst. inversion H4 as [|? ? H5 H6]; subst.
      destruct Hx as [X|[X|[X|Hx]]].
      - apply H1. rewrite X. cbn; tauto.
      - apply H3. rewrite X. cbn; tauto.
      - apply Hq. rewrite <- X. cbn; tauto.
      - apply H5. cbn [In] in *. tauto. }
    constructor.
    - apply (buf0_same m _ _ _ _ _ A). apply Hoth. cbn; tauto.
    - apply (str_at_same m _ _ _ P). apply Hoth. cbn; tauto.
    - apply (str_at_same m _ _ _ Q). apply Hoth. cbn; tauto.
    - exact R'.
    - pose proof (rep_len _ _ _ _ R) as Hl. unfold saved_blk. destruct wh.
      + rewrite nth_error_upd_other by (try (rewrite upd_length by fld_len; fld_len); fld_ne).
        rewrite nth_error_upd_other by (try fld_len; fld_ne). exact N.
      + rewrite nth_error_upd_other by (try fld_len; fld_ne). exact N.
    - rewrite Hoth by (cbn; tauto). exact F.
    - rewrite Hoth by (cbn; tauto). exact G.
  Qed.
End View.

(* ------------------------------------------------------------------ the tail of ec_write behind the write: message, name, saved mark, mtime *)
Lemma nodup_swap {A} (a x y : A) l : NoDup (a :: x :: l) -> y <> a -> ~ In y l -> NoDup (a :: y :: l).
Proof.
  intros H Hy Hl. inversion H as [|? ? H1 H2]; subst. inversion H2 as [|? ? H3 H4]; subst. constructor.
  - intros [X|X]; [congruence|]. apply H1. right. exact X.
  - constructor; assumption.
Qed.
Section Tail.
  Variable ext : nat -> list val -> mem -> res (val * mem).
  Variables (d fuel : nat).
  Variables (bl : nat) (ts n : Z) (bm bb be qb : nat) (path : bytes) (b e : Z).
  Variable L : list val.
  Hypothesis H4 : nth_error L 4 = Some (VPtr bm 0).
  Hypothesis H5 : nth_error L 5 = Some (VPtr qb 0).
  Hypothesis H7 : nth_error L 7 = Some (VPtr bb 0).
  Hypothesis H8 : nth_error L 8 = Some (VPtr be 0).
  Local Notation call := (callx ext cprog fuel (S (S (S d)))).

  (* the last two statements on memory m: own = the path written to is (now) the buffer's own path.  Q r mf: "the function returns r and
     leaves mf" -- the theorems instantiate it with the run of the translated text *)
  Definition fin_run (K : list nat) (Q : Z -> mem -> Prop) (m : mem) (gb blk : block) (lb : lbuf) (own : bool) : Prop :=
    let m4 := saved_mem m bl blk lb own (whole b e n) in
    if own then forall t m5, ext X_mtime [VPtr qb 0] m4 = Ok (VInt t, m5) -> same_on K m4 m5 ->
                 Q 0 (upd m5 G_bufs (upd gb BUF_MTIME (VInt (wrap I64 t))))
    else Q 0 m4.
  Definition tail_run (K : list nat) (Q : Z -> mem -> Prop) (m : mem) (gb : block) (pb : nat) (p : bytes) (blk : block) (lb : lbuf) : Prop :=
    forall u1 m1 u2 m2,
      ext X_snprintf [VPtr bm 0; VInt 128; VPtr G_wmsg 0; VPtr qb 0; VInt (e - b)] m = Ok (u1, m1) -> same_on K m m1 ->
      ext X_ex_show [VPtr bm 0] m1 = Ok (u2, m2) -> same_on K m1 m2 ->
      if adopts p path then
        forall u3 m3, ext X_reg_put [VInt 37; VPtr qb 0; VInt 0] (adopt_mem m2 gb pb path) = Ok (u3, m3) ->
          same_on (length m2 :: K) (adopt_mem m2 gb pb path) m3 ->
          fin_run (length m2 :: K) Q m3 (upd gb BUF_PATH (VPtr (length m2) 0)) blk lb true
      else fin_run K Q m2 gb blk lb (same_str p path).

  Lemma fin_ok K m gb pb p blk lb : wview bl ts n bb be m gb pb p blk lb qb path b e -> wdist bl bb be pb qb blk lb ->
    In G_bufs K -> nonul p -> nonul path -> lbuf_ints lb -> useq lb < 2147483647 -> i32 n -> i32 b -> i32 e ->
    fin_run K (fun r mf => exec call fuel (SSeq s_saved (SSeq s_mtime s_ret0)) (mkst L m) = OReturn (VInt r) (mkst L mf)) m gb blk lb (same_str p path).
  Proof.
    intros V Hd HK Np Nq Hints Hmax In Ib Ie. pose proof V as [A P Q R N F G].
    assert (Hbg : bl <> G_bufs).
    { destruct Hd as (Hnd & _). inversion Hnd as [|? ? H1 H2]; subst. intro X. apply H1. rewrite <- X. cbn; tauto. }
    destruct (saved_ok ext d fuel L m gb pb bl ts p qb path blk lb bb be b e n H5 H7 H8 A P Q Np Nq R Hints Hmax Hbg N In F G Ib Ie) as [Hex R'].
    cbv zeta in Hex, R'. unfold fin_run. cbv zeta.
    pose proof (wview_saved bl ts n bb be m gb pb p blk lb qb path b e (same_str p path) (whole b e n) V Hd R') as V4.
    destruct V4 as [A4 P4 Q4 _ _ _ _].
    pose proof (mtime_ok ext d fuel L _ gb pb bl ts p qb path H5 A4 P4 Q4 Np Nq) as Hmt.
    destruct (same_str p path).
    - intros t m5 He Hs. rewrite exec_seq, Hex, exec_seq.
      rewrite (Hmt t m5 He) by (rewrite (Hs G_bufs HK); exact (b0_blk _ _ _ _ _ A4)).
      unfold s_ret0. rewrite exec_return. reflexivity.
    - rewrite exec_seq, Hex, exec_seq, Hmt. unfold s_ret0. rewrite exec_return. reflexivity.
  Qed.

  Lemma fin_run_imp K (Q Q' : Z -> mem -> Prop) m gb blk lb own : (forall r mf, Q r mf -> Q' r mf) -> fin_run K Q m gb blk lb own -> fin_run K Q' m gb blk lb own.
  Proof. intros HQ H. unfold fin_run in *. cbv zeta in *. destruct own; [intros t m5 He Hs; apply HQ, (H t m5 He Hs)|apply HQ, H]. Qed.

  (* THE TAIL: for every oracle -- snprintf and ex_show are called; the name is adopted (and reg_put called) exactly when `adopts`;
     lbuf_saved / lbuf_unsaved run exactly when the path is (now) the buffer's own path, lbuf_saved exactly for the whole buffer; mtime is
     asked and stored exactly in that case; 0 is returned *)
  Theorem tail_ok K m gb pb p blk lb : wview bl ts n bb be m gb pb p blk lb qb path b e ->
    wkeys bl bb be K pb qb blk lb -> wdist bl bb be pb qb blk lb ->
    nonul p -> nonul path -> lbuf_ints lb -> useq lb < 2147483647 -> i32 n -> i32 b -> i32 e -> i32 (e - b) ->
    Z.of_nat (length path) <= 2147483647 -> (adopts p path = true -> pb <> qb) ->
    tail_run K (fun r mf => exec call fuel s_tail (mkst L m) = OReturn (VInt r) (mkst L mf)) m gb pb p blk lb.
  Proof.
    intros V Hk Hd Np Nq Hints Hmax I_n Ib Ie Ieb Hlen Hpq. unfold tail_run. intros u1 m1 u2 m2 E1 S1 E2 S2.
    pose proof (wview_same bl ts n bb be K m m1 _ _ _ _ _ _ _ _ _ V Hk S1) as V1.
    pose proof (wview_same bl ts n bb be K m1 m2 _ _ _ _ _ _ _ _ _ V1 Hk S2) as V2.
    assert (Hhead : forall r mf, exec call fuel (SSeq s_adopt (SSeq s_saved (SSeq s_mtime s_ret0))) (mkst L m2) = OReturn (VInt r) (mkst L mf) ->
                                 exec call fuel s_tail (mkst L m) = OReturn (VInt r) (mkst L mf)).
    { intros r mf H. unfold s_tail. rewrite exec_seq.
      rewrite (fmt_ok ext d fuel L m bm qb bb be b e u1 m1 H4 H5 H7 H8 (wv_beg _ _ _ _ _ _ _ _ _ _ _ _ _ _ _ V) (wv_end _ _ _ _ _ _ _ _ _ _ _ _ _ _ _ V) Ib Ie Ieb E1).
      rewrite exec_seq, (show_ok ext d fuel L m1 bm u2 m2 H4 E2). exact H. }
    pose proof V2 as [A2 P2 Q2 R2 N2 F2 G2].
    assert (Hpg : pb <> G_bufs).
    { destruct Hd as (Hnd & _). inversion Hnd as [|? ? H1 H2]; subst. intro X. apply H1. rewrite <- X. cbn; tauto. }
    destruct (adopts p path) eqn:Ead.
    - intros u3 m3 E3 S3. specialize (Hpq eq_refl).
      pose proof (adopt_ok ext d fuel L m2 gb pb bl ts p qb path H5 A2 P2 Q2 Np Nq Hpg Hlen) as Had. rewrite Ead in Had. specialize (Had Hpq).
      pose proof (wview_adopt bl ts n bb be m2 gb pb p blk lb qb path b e V2 Hd Hpq) as V3'.
      pose proof (wview_lt bl ts n bb be m2 gb pb p blk lb qb path b e) as Hlt. specialize (fun x => Hlt x V2).
      assert (Hk3 : wkeys bl bb be (length m2 :: K) (length m2) qb blk lb).
      { destruct Hk as [Hk1 Hk2]. split.
        - intros x Hx. cbn [In] in Hx. destruct Hx as [X|[X|Hx]]; [right; apply Hk1; rewrite <- X; cbn; tauto|left; exact X|right; apply Hk1; cbn [In] in *; tauto].
        - intros Hne bh Hp. right. apply (Hk2 Hne bh Hp). }
      pose proof (wview_same bl ts n bb be (length m2 :: K) _ m3 _ _ _ _ _ _ _ _ _ V3' Hk3 S3) as V3.
      assert (Hd3 : wdist bl bb be (length m2) qb blk lb).
      { destruct Hd as (Hnd & Hq & Hh). split; [|split].
        - apply (nodup_swap G_bufs pb (length m2) _ Hnd).
          + pose proof (Hlt G_bufs ltac:(cbn; tauto)). lia.
          + intro X. cbn [In] in X. destruct X as [X|[X|[X|[]]]].
            * pose proof (Hlt bl ltac:(cbn; tauto)). lia.
            * pose proof (Hlt bb ltac:(cbn; tauto)). lia.
            * pose proof (Hlt be ltac:(cbn; tauto)). lia.
        - exact Hq.
        - intros Hne bh Hp X. cbn [In] in X. destruct X as [X|[X|X]].
          + apply (Hh Hne bh Hp). cbn; tauto.
          + pose proof (hist_ptr_lt bl m2 blk lb bh R2 Hp Hne). lia.
          + apply (Hh Hne bh Hp). cbn [In] in *. tauto. }
      pose proof (fin_ok (length m2 :: K) m3 _ _ _ _ _ V3 Hd3 ltac:(right; apply (proj1 Hk); cbn; tauto) Nq Nq Hints Hmax I_n Ib Ie) as Hfin.
      rewrite same_str_refl in Hfin. revert Hfin. apply fin_run_imp. intros r mf H. apply Hhead.
      rewrite exec_seq, (Had u3 m3 E3). exact H.
    - pose proof (adopt_ok ext d fuel L m2 gb pb bl ts p qb path H5 A2 P2 Q2 Np Nq Hpg Hlen) as Had. rewrite Ead in Had.
      pose proof (fin_ok K m2 _ _ _ _ _ V2 Hd ltac:(apply (proj1 Hk); cbn; tauto) Np Nq Hints Hmax I_n Ib Ie) as Hfin.
      revert Hfin. apply fin_run_imp. intros r mf H. apply Hhead.
      rewrite exec_seq, Had. exact H.
  Qed.
End Tail.
