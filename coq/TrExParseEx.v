(* TrExParseEx.v -- C06: the translated ex_exec RUNS (vm_compute) on a concrete memory with a logging oracle, and the hypotheses of
   TrExParse.tr_ex_exec are satisfiable (a `runs` derivation for a concrete line and that oracle). *)
From Coq Require Import List ZArith NArith Bool Lia.
From NV Require Import Bytes GenConsts GenExCmds CLite CLiteProps GenCFuncs CLiteTac CLiteExt TrEx TrExIdx TrExParse.
From NV Require CapDefs ExDefs ExCapParse.
Import ListNotations.
Local Open Scope Z_scope.

Definition str_cells (m : mem) (b : nat) : list val := map VInt (str_of m b).
(* ex_txt: no text, the position unchanged (what the C function does for every command but a / i / c / rs);
   excmds[idx].ec(loc, cmd, arg, txt): logged as one block: the offset of the cell called through, then loc, cmd, arg; returns 0;
   ex_show: logged as the block [-2; 0] *)
Definition log_ext (f : nat) (args : list val) (m : mem) : res (val * mem) :=
  if (f =? X_ex_txt)%nat then match args with [p; _; _] => Ok (p, m) | _ => Err EShape end
  else if (f =? X_indirect)%nat then
    match args with
    | [VPtr _ off; VPtr l _; VPtr c _; VPtr a _; _] =>
        Ok (VInt 0, m ++ [[VInt off] ++ str_cells m l ++ [VInt (-1)] ++ str_cells m c ++ [VInt (-1)] ++ str_cells m a])
    | _ => Err EShape
    end
  else if (f =? X_ex_show)%nat then Ok (VInt 0, m ++ [[VInt (-2); VInt 0]])
  else Err EShape.
Definition log_of (m : mem) (from : nat) : list (list Z) :=
  map (map (fun v => match v with VInt z => z | _ => -9 end)) (filter (fun blk => (2 <=? length blk)%nat) (skipn from m)).
Definition line_mem (ln : list Z) : mem := cglobals ++ [cstr_block ln].
Definition BS : nat := length cglobals.
Definition run_line (ln : list Z) : option (val * list (list Z)) :=
  match callx log_ext cprog 2000 3 F_ex_exec [VPtr BS 0] (line_mem ln) with
  | Ok (v, m') => Some (v, log_of m' (BS + 4))
  | Err _ => None
  end.
(* "1,2p|zz x|s/a|b/c/|g/re/d|p" *)
Definition ln1 : list Z := [49;44;50;112;124;122;122;32;120;124;115;47;97;124;98;47;99;47;124;103;47;114;101;47;100;124;112].
Example run_ex_exec : run_line ln1 =
  Some (VInt 0, [[56; 49; 44; 50; -1; 112; -1]; [-2; 0]; [95; -1; 115; -1; 47; 97; 124; 98; 47; 99; 47]; [38; -1; 103; -1; 47; 114; 101; 47; 100; 124; 112]]).
Proof. vm_compute. reflexivity. Qed.

(* the hypotheses of tr_ex_exec are satisfiable: the derivation of `runs` for the line "1p|zz" and the logging oracle *)
Lemma globals_at_firstn m : firstn (length cglobals) m = cglobals -> globals_at m.
Proof.
  intros H g blk Hg. assert (Hl : (g < length cglobals)%nat) by (apply nth_error_Some; congruence).
  rewrite <- (firstn_skipn (length cglobals) m). rewrite nth_error_app1 by (rewrite H; exact Hl). rewrite H. exact Hg.
Qed.
Definition s2 : bytes := [49; 112; 124; 122; 122]%N.
Definition m2 : mem := cglobals ++ [cstr_block (zb s2)].
Ltac frame_tac :=
  constructor;
  [ vm_compute; reflexivity
  | eexists; split; [vm_compute; reflexivity|vm_compute; reflexivity]
  | eexists; split; [vm_compute; reflexivity|vm_compute; reflexivity]
  | eexists; split; [vm_compute; reflexivity|vm_compute; reflexivity]
  | apply excmds_at_globals, globals_at_firstn; vm_compute; reflexivity
  | vm_compute; reflexivity
  | vm_compute; reflexivity ].
Ltac idx_tac :=
  lazymatch goal with |- match ?x with _ => _ end => let v := eval vm_compute in x in change x with v end; cbv iota beta.
Ltac step_tac :=
  eapply runs_step;
  [ frame_tac | vm_compute; lia | vm_compute; reflexivity | vm_compute; reflexivity | vm_compute; reflexivity
  | vm_compute; reflexivity | vm_compute; reflexivity | vm_compute; reflexivity
  | unfold abbr_ptr; idx_tac; first [reflexivity | eexists; split; vm_compute; reflexivity]
  | vm_compute; reflexivity | vm_compute; reflexivity | vm_compute; reflexivity | left; reflexivity
  | idx_tac; split; vm_compute; reflexivity
  | vm_compute; reflexivity | vm_compute; reflexivity | ].
Example runs_nonvacuous : exists tr m', runs log_ext BS s2 (S BS) (S (S BS)) (S (S (S BS))) 2 tr 0 0 (exec_mem m2) 0 m' /\
  map triple_of tr = [([49%N], [112%N], []); ([], [122; 122]%N, [])].
Proof.
  eexists. eexists. split.
  - step_tac. step_tac. apply runs_done; [frame_tac|vm_compute; reflexivity].
  - vm_compute. reflexivity.
Qed.
