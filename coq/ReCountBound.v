(* ReCountBound.v -- what makes the `int` arithmetic of rnode_count (regex.c) safe.
   The model `count` (ReEmit.v) computes in unbounded Z, the C function in 32-bit int.  Three facts:
   1. every result is saturated: count t <= NINST for EVERY node (no well-formedness needed);
   2. every tree the byte-level parser returns has repetition counts bounded by NREPS (bd_node);
   3. hence every intermediate value the C function computes (the argument n of the repetition
      formula, the sums of the children's results, every sub-product / sub-sum of the formula and the
      returned value) lies in [0, CBOUND] with CBOUND = 2*NREPS*(2*NINST+2) + NREPS + 1 < 2^31:
      no signed overflow.  Dropping the saturation on any path breaks 1 (and with it 3). *)
From Coq Require Import List Arith Lia Bool ZArith NArith ZifyN ZifyBool ZifyNat.
From NV Require Import Bytes GenConsts ReSyntax ReParse ReEmit ReVM ReSem ReProps ReProps2 ReProps3.
Import ListNotations.

(* ---- 1. saturation --------------------------------------------------------------------------- *)
Lemma sat_le n : (0 <= NINST)%Z -> (sat n <= NINST)%Z.
Proof. unfold sat. intro H. destruct (NINST <? 0)%Z eqn:E; [lia|]. destruct (n <? NINST)%Z eqn:E2; lia. Qed.

Lemma rep_count_le n mn mx : (0 <= NINST)%Z -> (rep_count n mn mx <= NINST)%Z.
Proof. intro H. unfold rep_count. destruct ((mn =? 0)%Z && (mx =? 0)%Z); [exact H | apply sat_le; exact H]. Qed.

Theorem count_le_ninst t : (0 <= NINST)%Z -> (count t <= NINST)%Z.
Proof. intro H. destruct t; cbn [count]; [exact H | apply rep_count_le; exact H ..]. Qed.

(* ---- 2. the parser bounds every repetition count by NREPS ----------------------------------- *)
Definition bd_rep (mn mx : Z) : Prop := wf_rep mn mx /\ (mn <= NREPS)%Z /\ (mx <= NREPS)%Z.
Fixpoint bd_node (t : node) : Prop :=
  match t with
  | NNil => True
  | NAtom _ mn mx => bd_rep mn mx
  | NGrp x _ mn mx => bd_rep mn mx /\ bd_node x
  | NCat x y => bd_node x /\ bd_node y
  | NAlt x y => bd_node x /\ bd_node y
  end.

Lemma bd_node_wf t : bd_node t -> wf_node t.
Proof. induction t; cbn [bd_node wf_node]; unfold bd_rep; tauto. Qed.

Lemma NREPS_ge1 : (1 <= NREPS)%Z.
Proof. vm_compute. discriminate. Qed.

Lemma bd_rep_11 : bd_rep 1 1.
Proof. pose proof NREPS_ge1. unfold bd_rep, wf_rep. lia. Qed.

Lemma rep_suffix_bd s mn mx s' : rep_suffix s = Ok (Some (mn, mx), s') -> bd_rep mn mx.
Proof.
  pose proof NREPS_ge1 as HR.
  unfold rep_suffix.
  destruct ((hd0 s =? 42)%N || (hd0 s =? 63)%N) eqn:E1.
  - set (mx0 := if (hd0 s =? 42)%N then (-1)%Z else 1%Z). assert (Hmx0 : (mx0 = -1 \/ mx0 = 1)%Z) by (subst mx0; destruct (hd0 s =? 42)%N; lia).
    destruct (hd0 (tl s) =? 43)%N eqn:E2.
    + destruct (hd0 (tl (tl s)) =? 123)%N eqn:E3.
      * destruct (digits (tl (tl (tl s))) 0) as [mn1 s1] eqn:D1.
        pose proof (digits_nonneg (tl (tl (tl s))) 0%Z ltac:(lia)) as N1. rewrite D1 in N1. cbn [fst] in N1.
        destruct (hd0 s1 =? 44)%N.
        -- destruct (digits (tl s1) (if (hd0 (tl s1) =? 125)%N then (-1)%Z else 0%Z)) as [mx1 s2].
           match goal with |- (if ?c then _ else _) = _ -> _ => destruct c eqn:C end; intro H; inversion H; subst. unfold bd_rep, wf_rep. lia.
        -- match goal with |- (if ?c then _ else _) = _ -> _ => destruct c eqn:C end; intro H; inversion H; subst. unfold bd_rep, wf_rep. lia.
      * intro H; inversion H; subst. unfold bd_rep, wf_rep. lia.
    + destruct (hd0 (tl s) =? 123)%N eqn:E3.
      * destruct (digits (tl (tl s)) 0) as [mn1 s1] eqn:D1.
        pose proof (digits_nonneg (tl (tl s)) 0%Z ltac:(lia)) as N1. rewrite D1 in N1. cbn [fst] in N1.
        destruct (hd0 s1 =? 44)%N.
        -- destruct (digits (tl s1) (if (hd0 (tl s1) =? 125)%N then (-1)%Z else 0%Z)) as [mx1 s2].
           match goal with |- (if ?c then _ else _) = _ -> _ => destruct c eqn:C end; intro H; inversion H; subst. unfold bd_rep, wf_rep. lia.
        -- match goal with |- (if ?c then _ else _) = _ -> _ => destruct c eqn:C end; intro H; inversion H; subst. unfold bd_rep, wf_rep. lia.
      * intro H; inversion H; subst. unfold bd_rep, wf_rep. lia.
  - destruct (hd0 s =? 43)%N eqn:E2.
    + destruct (hd0 (tl s) =? 123)%N eqn:E3.
      * destruct (digits (tl (tl s)) 0) as [mn1 s1] eqn:D1.
        pose proof (digits_nonneg (tl (tl s)) 0%Z ltac:(lia)) as N1. rewrite D1 in N1. cbn [fst] in N1.
        destruct (hd0 s1 =? 44)%N.
        -- destruct (digits (tl s1) (if (hd0 (tl s1) =? 125)%N then (-1)%Z else 0%Z)) as [mx1 s2].
           match goal with |- (if ?c then _ else _) = _ -> _ => destruct c eqn:C end; intro H; inversion H; subst. unfold bd_rep, wf_rep. lia.
        -- match goal with |- (if ?c then _ else _) = _ -> _ => destruct c eqn:C end; intro H; inversion H; subst. unfold bd_rep, wf_rep. lia.
      * intro H; inversion H; subst. unfold bd_rep, wf_rep. lia.
    + destruct (hd0 s =? 123)%N eqn:E3.
      * destruct (digits (tl s) 0) as [mn1 s1] eqn:D1.
        pose proof (digits_nonneg (tl s) 0%Z ltac:(lia)) as N1. rewrite D1 in N1. cbn [fst] in N1.
        destruct (hd0 s1 =? 44)%N.
        -- destruct (digits (tl s1) (if (hd0 (tl s1) =? 125)%N then (-1)%Z else 0%Z)) as [mx1 s2].
           match goal with |- (if ?c then _ else _) = _ -> _ => destruct c eqn:C end; intro H; inversion H; subst. unfold bd_rep, wf_rep. lia.
        -- match goal with |- (if ?c then _ else _) = _ -> _ => destruct c eqn:C end; intro H; inversion H; subst. unfold bd_rep, wf_rep. lia.
      * intro H; inversion H; subst. unfold bd_rep, wf_rep. lia.
Qed.

Lemma set_rep_bd n mn mx : bd_node n -> bd_rep mn mx -> bd_node (set_rep n mn mx).
Proof. destruct n; cbn [set_rep bd_node]; intros; tauto. Qed.

Definition parse_bd (parse : bytes -> res (option node * bytes)) : Prop :=
  forall s t s', parse s = Ok (Some t, s') -> bd_node t.

Section P.
  Variable parse : bytes -> res (option node * bytes).
  Hypothesis Hp : parse_bd parse.

  Lemma rnode_grp_bd : parse_bd (rnode_grp parse).
  Proof.
    intros s t s'. unfold rnode_grp.
    destruct (negb (hd0 s =? 40)%N); [discriminate|].
    destruct (negb (hd0 (tl s) =? 41)%N).
    - destruct (parse (tl s)) as [[[x|] s2]| |] eqn:E; cbn [bind]; try discriminate.
      destruct (negb (hd0 s2 =? 41)%N); [discriminate|]. intro H; inversion H; subst. cbn [bd_node]. split; [exact bd_rep_11|]. eapply Hp; eauto.
    - cbn [bind]. destruct (negb (hd0 (tl s) =? 41)%N); [discriminate|]. intro H; inversion H; subst. cbn [bd_node]. split; [exact bd_rep_11 | exact I].
  Qed.

  Lemma rnode_atom_bd : parse_bd (rnode_atom parse).
  Proof.
    intros s t s'. unfold rnode_atom.
    destruct ((hd0 s =? 0)%N || (hd0 s =? 124)%N || (hd0 s =? 41)%N); [discriminate|].
    destruct (hd0 s =? 40)%N.
    - destruct (rnode_grp parse s) as [[[n|] s1]| |] eqn:G; cbn [bind]; try discriminate.
      destruct (rep_suffix s1) as [[[[mn mx]|] s2]| |] eqn:R; cbn [bind]; try discriminate.
      intro H; inversion H; subst. apply set_rep_bd; [eapply rnode_grp_bd; eauto | eapply rep_suffix_bd; eauto].
    - destruct (ratom_read s) as [[a s1]| |] eqn:G; cbn [bind fst snd]; try discriminate.
      destruct (rep_suffix s1) as [[[[mn mx]|] s2]| |] eqn:R; cbn [bind]; try discriminate.
      intro H; inversion H; subst. cbn [set_rep bd_node]. eapply rep_suffix_bd; eauto.
  Qed.

  Lemma rnode_seq_bd f : parse_bd (rnode_seq parse f).
  Proof.
    induction f as [|f IH]; intros s t s'; cbn [rnode_seq]; [discriminate|].
    destruct (rnode_atom parse s) as [[[x|] s1]| |] eqn:A; cbn [bind]; try discriminate.
    destruct (rnode_seq parse f s1) as [[[y|] s2]| |] eqn:S2; cbn [bind]; try discriminate.
    - intro H; inversion H; subst. cbn [bd_node]. split; [eapply rnode_atom_bd; eauto | eapply IH; eauto].
    - intro H; inversion H; subst. eapply rnode_atom_bd; eauto.
  Qed.
End P.

Theorem rnode_parse_bd f : forall s t s', rnode_parse f s = Ok (Some t, s') -> bd_node t.
Proof.
  change (parse_bd (rnode_parse f)).
  induction f as [|f IH]; intros s t s'; cbn [rnode_parse]; [discriminate|].
  destruct (rnode_seq (rnode_parse f) f s) as [[x s1]| |] eqn:S1; cbn [bind]; try discriminate.
  destruct (negb (hd0 s1 =? 124)%N).
  - intro H; inversion H; subst. eapply rnode_seq_bd; eauto.
  - destruct (rnode_parse f (tl s1)) as [[[y|] s2]| |] eqn:P2; cbn [bind]; try discriminate.
    + intro H; inversion H; subst. cbn [bd_node]. split; [|eapply IH; eauto].
      destruct x as [x|]; cbn [of_opt bd_node]; [eapply rnode_seq_bd; eauto | exact I].
    + intro H; inversion H; subst. eapply rnode_seq_bd; eauto.
Qed.

(* ---- 3. every intermediate value of the C function fits an int ------------------------------ *)
Definition in_int (v : Z) : Prop := (- 2 ^ 31 <= v < 2 ^ 31)%Z.
Definition CBOUND : Z := (2 * NREPS * (2 * NINST + 2) + NREPS + 1)%Z.
Definition small (v : Z) : Prop := (0 <= v <= CBOUND)%Z.

(* the values computed after `n` has been set, branch by branch as in the C code:
     if (mincnt == 0 && maxcnt == 0) return 0;
     if (mincnt == 1 && maxcnt == 1) return n < NINST ? n : NINST;
     if (maxcnt < 0)  n = (mincnt + 1) * n + 1;
     else             n = (mincnt + maxcnt) * n + maxcnt - mincnt;
     if (!mincnt) n++;                                                                            *)
Definition rep_vals (n mn mx : Z) : list Z :=
  if ((mn =? 0) && (mx =? 0))%Z then [n]
  else if ((mn =? 1) && (mx =? 1))%Z then [n]
  else if (mx <? 0)%Z then [n; mn + 1; (mn + 1) * n; (mn + 1) * n + 1; rep_raw n mn mx]%Z
  else [n; mn + mx; (mn + mx) * n; (mn + mx) * n + mx; (mn + mx) * n + mx - mn; rep_raw n mn mx]%Z.

(* all the values one activation of rnode_count computes (the children's results, their sums,
   the repetition formula, the returned value) *)
Definition node_vals (t : node) : list Z :=
  match t with
  | NNil => [0%Z]
  | NAtom _ mn mx => count t :: rep_vals 1 mn mx
  | NGrp x _ mn mx => count t :: count x :: rep_vals (count x + 2) mn mx
  | NCat x y => count t :: count x :: count y :: rep_vals (count x + count y) 1 1
  | NAlt x y => count t :: count x :: count y :: (count x + count y)%Z :: rep_vals (count x + count y + 2) 1 1
  end.

Fixpoint count_vals (t : node) : list Z :=
  node_vals t ++
  match t with
  | NNil | NAtom _ _ _ => []
  | NGrp x _ _ _ => count_vals x
  | NCat x y | NAlt x y => count_vals x ++ count_vals y
  end.

Fixpoint count_safe (t : node) : Prop :=
  Forall in_int (node_vals t) /\
  match t with
  | NNil | NAtom _ _ _ => True
  | NGrp x _ _ _ => count_safe x
  | NCat x y | NAlt x y => count_safe x /\ count_safe y
  end.

Fixpoint count_small (t : node) : Prop :=
  Forall small (node_vals t) /\
  match t with
  | NNil | NAtom _ _ _ => True
  | NGrp x _ _ _ => count_small x
  | NCat x y | NAlt x y => count_small x /\ count_small y
  end.

Ltac fa := repeat (apply Forall_cons; [lia|]); apply Forall_nil.

Lemma rep_vals_small n mn mx : (0 <= NINST)%Z -> bd_rep mn mx -> (0 <= n <= 2 * NINST + 2)%Z -> Forall small (rep_vals n mn mx).
Proof.
  intros HN [[H0 H1] [B0 B1]] Hn. pose proof NREPS_ge1 as HR. unfold rep_vals, rep_raw, small, CBOUND.
  assert (P : forall k, (0 <= k <= 2 * NREPS)%Z -> (0 <= k * n <= 2 * NREPS * (2 * NINST + 2))%Z).
  { intros k Hk. split; [apply Z.mul_nonneg_nonneg; lia|]. apply Z.mul_le_mono_nonneg; lia. }
  assert (P1 : (2 * NINST + 2 <= 2 * NREPS * (2 * NINST + 2))%Z) by nia.
  destruct ((mn =? 0)%Z && (mx =? 0)%Z) eqn:E0; [fa|].
  destruct ((mn =? 1)%Z && (mx =? 1)%Z) eqn:E1; [fa|].
  destruct (mx <? 0)%Z eqn:Em.
  - pose proof (P (mn + 1)%Z ltac:(lia)) as Q. destruct (mn =? 0)%Z eqn:E; fa.
  - pose proof (P (mn + mx)%Z ltac:(lia)) as Q. destruct (mn =? 0)%Z eqn:E; fa.
Qed.

Lemma small_count t : (0 <= NINST)%Z -> wf_node t -> small (count t).
Proof.
  intros HN W. pose proof (count_nonneg t W). pose proof (count_le_ninst t HN). pose proof NREPS_ge1.
  unfold small, CBOUND. nia.
Qed.

Theorem count_small_bd t : (0 <= NINST)%Z -> bd_node t -> count_small t.
Proof.
  intro HN. pose proof NREPS_ge1 as HR.
  assert (S0 : small 0) by (unfold small, CBOUND; nia).
  induction t; intro B; pose proof (small_count _ HN (bd_node_wf _ B)) as SC; cbn [count_small node_vals bd_node] in *.
  - split; [apply Forall_cons; [exact S0 | apply Forall_nil] | exact I].
  - split; [|exact I]. constructor; [exact SC|]. apply rep_vals_small; [exact HN | exact B | lia].
  - destruct B as [B1 B2]. pose proof (bd_node_wf _ B2) as W2.
    pose proof (count_nonneg t W2). pose proof (count_le_ninst t HN).
    split; [|apply IHt; exact B2]. constructor; [exact SC|]. constructor; [apply small_count; assumption|].
    apply rep_vals_small; [exact HN | exact B1 | lia].
  - destruct B as [B1 B2]. pose proof (bd_node_wf _ B1) as W1. pose proof (bd_node_wf _ B2) as W2.
    pose proof (count_nonneg t1 W1). pose proof (count_le_ninst t1 HN). pose proof (count_nonneg t2 W2). pose proof (count_le_ninst t2 HN).
    split; [|split; [apply IHt1; exact B1 | apply IHt2; exact B2]].
    constructor; [exact SC|]. constructor; [apply small_count; assumption|]. constructor; [apply small_count; assumption|].
    apply rep_vals_small; [exact HN | exact bd_rep_11 | lia].
  - destruct B as [B1 B2]. pose proof (bd_node_wf _ B1) as W1. pose proof (bd_node_wf _ B2) as W2.
    pose proof (count_nonneg t1 W1). pose proof (count_le_ninst t1 HN). pose proof (count_nonneg t2 W2). pose proof (count_le_ninst t2 HN).
    split; [|split; [apply IHt1; exact B1 | apply IHt2; exact B2]].
    constructor; [exact SC|]. constructor; [apply small_count; assumption|]. constructor; [apply small_count; assumption|].
    constructor; [unfold small, CBOUND; nia|].
    apply rep_vals_small; [exact HN | exact bd_rep_11 | lia].
Qed.

Lemma count_small_safe t : (CBOUND < 2 ^ 31)%Z -> count_small t -> count_safe t.
Proof.
  intro HC.
  assert (F : forall l, Forall small l -> Forall in_int l).
  { intros l H. eapply Forall_impl; [|exact H]. intros v Hv. unfold small in Hv. unfold in_int. lia. }
  induction t; cbn [count_small count_safe]; intros [H1 H2]; (split; [apply F; exact H1|]); try exact I.
  - apply IHt; exact H2.
  - destruct H2; split; [apply IHt1 | apply IHt2]; assumption.
  - destruct H2; split; [apply IHt1 | apply IHt2]; assumption.
Qed.

(* the two facts about the constants of regex.c the argument needs *)
Lemma NINST_nonneg : (0 <= NINST)%Z.
Proof. vm_compute. discriminate. Qed.
Lemma CBOUND_int : (CBOUND < 2 ^ 31)%Z.
Proof. vm_compute. reflexivity. Qed.

(* generic in the constants: whatever NINST / NREPS are, as long as the product bound fits an int *)
Theorem count_no_overflow_gen t : (0 <= NINST)%Z -> (CBOUND < 2 ^ 31)%Z -> bd_node t -> count_safe t.
Proof. intros HN HC B. apply count_small_safe; [exact HC|]. apply count_small_bd; assumption. Qed.

Theorem count_no_overflow t : bd_node t -> count_safe t.
Proof. apply count_no_overflow_gen; [exact NINST_nonneg | exact CBOUND_int]. Qed.

(* the flat form: count_safe t says exactly that every value of count_vals t fits an int *)
Lemma count_safe_vals t : count_safe t <-> Forall in_int (count_vals t).
Proof.
  assert (N : Forall in_int [] <-> True) by (split; [intros _; exact I | intros _; apply Forall_nil]).
  induction t; cbn [count_safe count_vals]; rewrite ?Forall_app; tauto.
Qed.

(* every pattern string: whatever tree the parser returns, the estimate is computed without overflow *)
Theorem parse_count_safe f s t s' : rnode_parse f s = Ok (Some t, s') -> count_safe t.
Proof. intro H. apply count_no_overflow. eapply rnode_parse_bd; exact H. Qed.

Theorem parse_count_vals_int f s t s' : rnode_parse f s = Ok (Some t, s') -> Forall in_int (count_vals t).
Proof. intro H. apply count_safe_vals. eapply parse_count_safe; exact H. Qed.

(* the result of the estimate for a parsed tree lies in [0, NINST] *)
Theorem parse_count_range f s t s' : rnode_parse f s = Ok (Some t, s') -> (0 <= count t <= NINST)%Z.
Proof.
  intro H. split; [apply count_nonneg, bd_node_wf; eapply rnode_parse_bd; exact H | apply count_le_ninst, NINST_nonneg].
Qed.

(* why the saturation is needed: without it (raw formula, no `sat`) two nested {128}-repetitions of
   17 saturated siblings leave the int range -- the value the mutated code would compute *)
Example unsaturated_overflows : ~ in_int (rep_raw (rep_raw (17 * NINST) 128 128) 128 128).
Proof. unfold in_int. vm_compute. intros [_ H]. discriminate H. Qed.

(* non-vacuity: a tree with the largest counts at every level is bd_node, its values are listed *)
Example bd_node_nonvacuous : bd_node (NGrp (NCat (NAtom (AChr [97%N]) 128 128) (NAtom (AChr [98%N]) 0 (-1))) 0 128 128).
Proof. cbn [bd_node]. unfold bd_rep, wf_rep. pose proof NREPS_ge1. unfold NREPS. lia. Qed.
