(* Extract_io.v -- extraction of the file read/write model (C01, C03) to OCaml (ExtrOcamlBasic only). *)
From Coq Require Import List NArith ZArith Extraction ExtrOcamlBasic.
From NV Require Import Bytes GenConsts IoDefs IoLinkDefs IoTableDefs IoAwDefs.
Definition all_types : nat * N * Z := (0%nat, 0%N, 0%Z).
Extraction "io_model.ml" all_types split_lines norm want slice lbuf_make lbuf_rd lbuf_edit ln ln_sz rd_sbuf
  sbuf_make sbuf_mem sbuf_chr sbuf_buf sb_n sb_sz lbuf_wr lbuf_wr_gen outp wsz ovf save_file read_then_write
  write_seq ftrunc BATCH
  write_fully write_all fs_get fs_set fs_mtime fs_content lbuf_save ec_write ec_quit quit_loop refuses
  lk_get resolve target mtime_of lbuf_save_l ec_edit_l ec_write_l quit_loop_l ec_quit_l foreign foreign_run
  path_of_arg bufs_find bufs_switch bufs_push excuse_stamp ec_write_t ec_quit_t ec_edit_t
  bufs_modified bufs_modified_eager bufs_modified_stale step start run.
