(* TrViOp.v -- C08: the operators of /repo/vi.c on the translated C text (whitelist tools/c2clite.d/99zzzzz_viops.list): vi_indents,
   lbuf_region, vi_yank, vi_delete.  The buffer lives in memory as TrMot.lbuf_at describes it, reached through bufs[0].lb (ex_lbuf()).
   The callees that allocate stay oracles (CLiteExt.callx) with the hypothesis "returns a fresh block with the model's bytes":
   uc_sub, uc_dup, uc_cat, lbuf_cp and the string builder sbuf_make / sbuf_str / sbuf_chr / sbuf_mem / sbuf_buf / sbuf_done / sbuf_free
   (record [oracles]); reg_put, lbuf_edit and vi_drawfix are oracles with one hypothesis per call reached, their effect on memory
   restricted by a frame (reg_put: only blocks the register file owns; lbuf_edit: only blocks the line buffer owns).
   What is proved: the text handed to reg_put is the byte-level region text region_b (= the bytes of ViDefs.region_text, TrViOpModel.v),
   the (text, beg, end) handed to lbuf_edit, and xrow / xoff afterwards. *)
From Coq Require Import List ZArith NArith Bool Lia.
From NV Require Import Bytes UcDefs CLite CLiteProps GenCFuncs CLiteTac CLiteExt TrLbufBase MotDefs TrMot.
Import ListNotations.
Local Open Scope Z_scope.

Ltac xs := repeat (progress (xstep; cbn [b2z fst snd]; try change (0 =? 0) with true; try change (1 =? 0) with false; cbn [negb])).

(* ------------------------------------------------------------------ memory = an old part and the blocks allocated since *)
Lemma nth_app_at {A} (m t : list A) i : nth_error (m ++ t) (length m + i) = nth_error t i.
Proof. rewrite nth_error_app2 by lia. f_equal. lia. Qed.
Lemma nth_app_lt {A} (m t : list A) b : (b < length m)%nat -> nth_error (m ++ t) b = nth_error m b.
Proof. intro H. apply nth_error_app1. exact H. Qed.
Lemma upd_app_at {A} (m t : list A) i x : upd (m ++ t) (length m + i) x = m ++ upd t i x.
Proof.
  unfold upd. rewrite firstn_app, skipn_app. rewrite firstn_all2 by lia. rewrite skipn_all2 by lia.
  replace (length m + i - length m)%nat with i by lia. replace (S (length m + i) - length m)%nat with (S i) by lia.
  cbn [app]. rewrite <- app_assoc. reflexivity.
Qed.
Lemma upd_app_lt {A} (m t : list A) b x : (b < length m)%nat -> upd (m ++ t) b x = upd m b x ++ t.
Proof.
  intro H. unfold upd. rewrite firstn_app, skipn_app. replace (b - length m)%nat with O by lia. replace (S b - length m)%nat with O by lia.
  cbn [firstn skipn]. rewrite app_nil_r, <- !app_assoc. reflexivity.
Qed.
Lemma app_tail {A} (m t : list A) x : (m ++ t) ++ [x] = m ++ (t ++ [x]).
Proof. symmetry. apply app_assoc. Qed.
Lemma str_at_app m t b s : str_at m b s -> str_at (m ++ t) b s.
Proof. unfold str_at. intro H. rewrite nth_app_lt by (apply nth_error_Some; congruence). exact H. Qed.
Lemma cell_at_app m t g v : cell_at m g v -> cell_at (m ++ t) g v.
Proof. unfold cell_at. intro H. rewrite nth_app_lt by (apply nth_error_Some; congruence). exact H. Qed.
Lemma lbuf_at_lt m lb bln lbs lines k : lbuf_at m lb bln lbs lines -> In k (lb :: bln :: lbs) -> (k < length m)%nat.
Proof.
  intros [(blk & Hb & _) (lnblk & Hl & _) Hn Hs _ _] [<-|[<-|Hk]]; try (apply nth_error_Some; congruence).
  destruct (In_nth _ _ O Hk) as (i & Hi & <-). specialize (Hs i ltac:(lia)). apply nth_error_Some. unfold str_at in Hs. congruence.
Qed.
Lemma lbuf_at_app m t lb bln lbs lines : lbuf_at m lb bln lbs lines -> lbuf_at (m ++ t) lb bln lbs lines.
Proof. intro R. apply (lbuf_at_other m); [exact R|]. intros k Hk. apply nth_app_lt. eapply lbuf_at_lt; eassumption. Qed.

(* ------------------------------------------------------------------ byte-level texts *)
Definition fresh (t : bytes) (m : mem) : res (val * mem) := Ok (VPtr (length m) 0, m ++ [cstr_block (zb t)]).
(* a char* argument: NULL or the start of a block that holds a string *)
Definition sarg (m : mem) (v : val) (os : option bytes) : Prop :=
  match os with None => v = VInt 0 | Some s => exists b, v = VPtr b 0 /\ str_at m b s /\ nonul s end.
(* uc_sub(s, beg, end) as uc.c computes it (UcDefs.uc_sub); NULL gives "" *)
Definition sub_b (os : option bytes) (b e : Z) : bytes :=
  match os with None => [] | Some s => match uc_sub s b e with Some t => t | None => [] end end.
(* both offsets are negative or at most the number of characters: uc_chr returns no pointer to the static "" *)
Definition sub_in (os : option bytes) (b e : Z) : Prop := match os with None => True | Some s => uc_sub s b e <> None end.
Definition getb (lines : list bytes) (r : Z) : option bytes := option_map (nthl lines) (rowidx lines r).
(* lbuf_cp(lb, beg, end) *)
Definition cp_b (lines : list bytes) (b e : Z) : bytes := concat (firstn (Z.to_nat (e - b)) (skipn (Z.to_nat b) lines)).
(* vi.c: lbuf_region *)
Definition region_b (lines : list bytes) (r1 o1 r2 o2 : Z) : bytes :=
  if r1 =? r2 then sub_b (getb lines r1) o1 o2
  else sub_b (getb lines r1) o1 (-1) ++ cp_b lines (r1 + 1) r2 ++ sub_b (getb lines r2) 0 o2.
Definition region_in (lines : list bytes) (r1 o1 r2 o2 : Z) : Prop :=
  if r1 =? r2 then sub_in (getb lines r1) o1 o2 else sub_in (getb lines r1) o1 (-1) /\ sub_in (getb lines r2) 0 o2.

Lemma nonul_app (a b : bytes) : nonul a -> nonul b -> nonul (a ++ b).
Proof. unfold nonul. intros. apply Forall_app. split; assumption. Qed.
Lemma nonul_firstn (s : bytes) n : nonul s -> nonul (firstn n s).
Proof. unfold nonul. apply Forall_firstn'. Qed.
Lemma nonul_skipn' (s : bytes) n : nonul s -> nonul (skipn n s).
Proof. unfold nonul. apply Forall_skipn'. Qed.
Lemma sub_b_nonul os b e : (forall s, os = Some s -> nonul s) -> nonul (sub_b os b e).
Proof.
  intro H. destruct os as [s|]; [|constructor]. specialize (H s eq_refl). cbn [sub_b]. unfold uc_sub.
  destruct (uc_chr s b); [|constructor]. destruct (uc_chr s e); [|constructor]. destruct (_ <=? _)%nat; [|constructor].
  apply nonul_firstn, nonul_skipn'. exact H.
Qed.
Lemma concat_nonul (l : list bytes) : Forall nonul l -> nonul (concat l).
Proof. induction 1; cbn [concat]; [constructor|apply nonul_app; assumption]. Qed.
Lemma cp_b_nonul lines b e : Forall nonul lines -> nonul (cp_b lines b e).
Proof. intro H. apply concat_nonul. apply Forall_firstn', Forall_skipn'. exact H. Qed.
Lemma getb_nonul lines r s : Forall nonul lines -> getb lines r = Some s -> nonul s.
Proof. unfold getb. intros H E. destruct (rowidx lines r); [|discriminate]. injection E as <-. apply nthl_nonul. exact H. Qed.
Lemma region_b_nonul lines r1 o1 r2 o2 : Forall nonul lines -> nonul (region_b lines r1 o1 r2 o2).
Proof.
  intro H. unfold region_b. destruct (r1 =? r2).
  - apply sub_b_nonul. intros s E. eapply getb_nonul; eassumption.
  - apply nonul_app; [|apply nonul_app]; [| apply cp_b_nonul; exact H |]; apply sub_b_nonul; intros s E; eapply getb_nonul; eassumption.
Qed.
Lemma sarg_line m lb bln lbs lines r : lbuf_at m lb bln lbs lines -> sarg m (line_ptr lbs lines r) (getb lines r).
Proof.
  intro R. unfold line_ptr, getb. destruct (rowidx lines r) as [i|] eqn:E; cbn [option_map sarg]; [|reflexivity].
  destruct (rowidx_lt _ _ _ E) as [Hi _]. exists (nth i lbs O). split; [reflexivity|]. split; [apply (la_str _ _ _ _ _ R i Hi)|].
  apply nthl_nonul. exact (la_nonul _ _ _ _ _ R).
Qed.
Lemma sarg_app m t v os : sarg m v os -> sarg (m ++ t) v os.
Proof. destruct os as [s|]; cbn [sarg]; [|auto]. intros (b & E & H & N). exists b. split; [exact E|]. split; [apply str_at_app; exact H|exact N]. Qed.

(* ------------------------------------------------------------------ the untranslated callees *)
Lemma x_uc_sub_none : nth_error cprog X_uc_sub = None. Proof. vm_compute. reflexivity. Qed.
Lemma x_uc_dup_none : nth_error cprog X_uc_dup = None. Proof. vm_compute. reflexivity. Qed.
Lemma x_uc_cat_none : nth_error cprog X_uc_cat = None. Proof. vm_compute. reflexivity. Qed.
Lemma x_lbuf_cp_none : nth_error cprog X_lbuf_cp = None. Proof. vm_compute. reflexivity. Qed.
Lemma x_lbuf_edit_none : nth_error cprog X_lbuf_edit = None. Proof. vm_compute. reflexivity. Qed.
Lemma x_reg_put_none : nth_error cprog X_reg_put = None. Proof. vm_compute. reflexivity. Qed.
Lemma x_vi_drawfix_none : nth_error cprog X_vi_drawfix = None. Proof. vm_compute. reflexivity. Qed.
Lemma x_sbuf_make_none : nth_error cprog X_sbuf_make = None. Proof. vm_compute. reflexivity. Qed.
Lemma x_sbuf_str_none : nth_error cprog X_sbuf_str = None. Proof. vm_compute. reflexivity. Qed.
Lemma x_sbuf_chr_none : nth_error cprog X_sbuf_chr = None. Proof. vm_compute. reflexivity. Qed.
Lemma x_sbuf_mem_none : nth_error cprog X_sbuf_mem = None. Proof. vm_compute. reflexivity. Qed.
Lemma x_sbuf_buf_none : nth_error cprog X_sbuf_buf = None. Proof. vm_compute. reflexivity. Qed.
Lemma x_sbuf_done_none : nth_error cprog X_sbuf_done = None. Proof. vm_compute. reflexivity. Qed.
Lemma x_sbuf_free_none : nth_error cprog X_sbuf_free = None. Proof. vm_compute. reflexivity. Qed.

Definition BUFS_LB : nat := 33.     (* bufs[0].lb *)
(* the editor's buffer: bufs[0].lb points to a struct lbuf that holds the lines *)
Record ed_at (m : mem) (lb bln : nat) (lbs : list nat) (lines : list bytes) : Prop := mk_ed_at {
  ed_bufs : exists gbufs, nth_error m G_bufs = Some gbufs /\ nth_error gbufs BUFS_LB = Some (VPtr lb 0);
  ed_lb : lbuf_at m lb bln lbs lines;
  ed_small : lines_small lines }.
Lemma ed_at_app m t lb bln lbs lines : ed_at m lb bln lbs lines -> ed_at (m ++ t) lb bln lbs lines.
Proof.
  intros [(g & H1 & H2) R S]. constructor; [|apply lbuf_at_app; exact R|exact S].
  exists g. split; [|exact H2]. rewrite nth_app_lt by (apply nth_error_Some; congruence). exact H1.
Qed.

Section Op.
  Variable ext : nat -> list val -> mem -> res (val * mem).
  Variable fuel : nat.
  Local Notation cx D := (callx ext cprog fuel D).

  (* the allocating callees: each returns a fresh block (appended to memory, as malloc of CLite.v does) with the model's bytes and
     changes nothing else; the string builder is one block that holds the text built so far *)
  Record oracles : Prop := mk_oracles {
    o_sub : forall m v os b e, sarg m v os -> sub_in os b e -> ext X_uc_sub [v; VInt b; VInt e] m = fresh (sub_b os b e) m;
    o_dup : forall m b s, str_at m b s -> nonul s -> ext X_uc_dup [VPtr b 0] m = fresh s m;
    o_cat : forall m a b s r, str_at m a s -> str_at m b r -> nonul s -> nonul r -> ext X_uc_cat [VPtr a 0; VPtr b 0] m = fresh (s ++ r) m;
    o_cp : forall m lb bln lbs lines b e, lbuf_at m lb bln lbs lines -> 0 <= b ->
           ext X_lbuf_cp [VPtr lb 0; VInt b; VInt e] m = fresh (cp_b lines b e) m;
    o_make : forall m, ext X_sbuf_make [] m = fresh [] m;
    o_str : forall m p cs b s o, str_at m p cs -> str_at m b s -> b <> p -> nonul s -> (o <= length s)%nat ->
            ext X_sbuf_str [VPtr p 0; VPtr b (Z.of_nat o)] m = Ok (VUndef, upd m p (cstr_block (zb (cs ++ skipn o s))));
    o_chr : forall m p cs c, str_at m p cs -> (0 < c < 256)%N ->
            ext X_sbuf_chr [VPtr p 0; VInt (Z.of_N c)] m = Ok (VUndef, upd m p (cstr_block (zb (cs ++ [c]))));
    o_mem : forall m p cs b s o n, str_at m p cs -> str_at m b s -> b <> p -> nonul s -> (o + n <= length s)%nat ->
            ext X_sbuf_mem [VPtr p 0; VPtr b (Z.of_nat o); VInt (Z.of_nat n)] m = Ok (VUndef, upd m p (cstr_block (zb (cs ++ firstn n (skipn o s)))));
    o_buf : forall m p cs, str_at m p cs -> ext X_sbuf_buf [VPtr p 0] m = Ok (VPtr p 0, m);
    o_done : forall m p cs, str_at m p cs -> ext X_sbuf_done [VPtr p 0] m = Ok (VPtr p 0, m);
    o_free : forall m p cs, str_at m p cs -> ext X_sbuf_free [VPtr p 0] m = Ok (VUndef, upd m p []) }.
  Hypothesis OR : oracles.

  Lemma ld1 (m : mem) b v : nth_error m b = Some ([v] : block) -> load m b 0 = Ok v.
  Proof. intro H. unfold load. rewrite H. reflexivity. Qed.
  Lemma exec_setlocal call f k e st v st1 : eval call e st = Ok (v, st1) ->
    exec call f (SExpr (ESetLocal k e)) st = match set_local st1 k v with Ok st2 => ONormal st2 | Err x => OErr x end.
  Proof. intro H. rewrite exec_expr. cbn [eval]. rewrite H. cbn [bind]. destruct (set_local st1 k v); reflexivity. Qed.
  Lemma cx_ext D f args mm : nth_error cprog f = None -> callx ext cprog fuel (S D) f args mm = ext f args mm.
  Proof. intro H. rewrite callx_S, H. reflexivity. Qed.
  Lemma cx_xb D m lb bln lbs lines : ed_at m lb bln lbs lines -> callx ext cprog fuel (S D) F_ex_lbuf [] m = Ok (VPtr lb 0, m).
  Proof.
    intros [(g & H1 & H2) _ _]. apply callx_mono. enter F_ex_lbuf cf_ex_lbuf. xstep.
    rewrite (fld_load m G_bufs g BUFS_LB _ _ H1 H2) by reflexivity. reflexivity.
  Qed.
  Lemma cx_get D m lb bln lbs lines r : ed_at m lb bln lbs lines ->
    callx ext cprog fuel (S D) F_lbuf_get [VPtr lb 0; VInt r] m = Ok (line_ptr lbs lines r, m).
  Proof. intros [_ R S]. apply callx_mono. apply (tr_lbuf_get m lb bln lbs lines r D fuel R S). Qed.

  (* ================================================================ lbuf_region *)
  Definition rg_tail (r1 r2 : Z) : list block := if r1 =? r2 then [] else [[]; []; []].
  Theorem tr_lbuf_region D m lb bln lbs lines r1 o1 r2 o2 : ed_at m lb bln lbs lines -> 0 <= r1 + 1 <= 2147483647 ->
    region_in lines r1 o1 r2 o2 ->
    callx ext cprog fuel (S (S D)) F_lbuf_region [VPtr lb 0; VInt r1; VInt o1; VInt r2; VInt o2] m
    = Ok (VPtr (length m) 0, m ++ cstr_block (zb (region_b lines r1 o1 r2 o2)) :: rg_tail r1 r2).
  Proof.
    intros E Hr1 Hin. pose proof (ed_lb _ _ _ _ _ E) as R. pose proof (la_nonul _ _ _ _ _ R) as Hnn.
    rewrite callx_S. change (nth_error cprog F_lbuf_region) with (Some cf_lbuf_region).
    cbn [fn_nparams cf_lbuf_region length Nat.eqb fn_nlocals Nat.sub repeat app fn_body].
    unfold region_b, region_in, rg_tail in *. xs. destruct (Z.eqb_spec r1 r2) as [->|Hne]; xs.
    - rewrite (cx_get D m lb bln lbs lines r2 E). xs.
      rewrite (cx_ext D _ _ _ x_uc_sub_none), (o_sub OR m _ _ o1 o2 (sarg_line m lb bln lbs lines r2 R) Hin). reflexivity.
    - destruct Hin as [Hin1 Hin3].
      set (s1 := sub_b (getb lines r1) o1 (-1)). set (s3 := sub_b (getb lines r2) 0 o2). set (s2 := cp_b lines (r1 + 1) r2).
      assert (N1 : nonul s1) by (apply sub_b_nonul; intros s Es; eapply getb_nonul; eassumption).
      assert (N3 : nonul s3) by (apply sub_b_nonul; intros s Es; eapply getb_nonul; eassumption).
      assert (N2 : nonul s2) by (apply cp_b_nonul; exact Hnn).
      rewrite (cx_ext D _ _ _ x_sbuf_make_none), (o_make OR m). unfold fresh. xs.
      set (t1 := [cstr_block (zb [])]).
      pose proof (ed_at_app m t1 _ _ _ _ E) as E1.
      rewrite (cx_get D (m ++ t1) lb bln lbs lines r1 E1). xs. change (chk I32 (- (1))) with (@Ok Z (-1)). xs.
      rewrite (cx_ext D _ _ _ x_uc_sub_none), (o_sub OR (m ++ t1) _ _ o1 (-1) (sarg_line _ lb bln lbs lines r1 (ed_lb _ _ _ _ _ E1)) Hin1).
      unfold fresh. fold s1. xs. rewrite app_tail. set (t2 := t1 ++ [cstr_block (zb s1)]).
      pose proof (ed_at_app m t2 _ _ _ _ E) as E2.
      rewrite (cx_get D (m ++ t2) lb bln lbs lines r2 E2). xs.
      rewrite (cx_ext D _ _ _ x_uc_sub_none), (o_sub OR (m ++ t2) _ _ 0 o2 (sarg_line _ lb bln lbs lines r2 (ed_lb _ _ _ _ _ E2)) Hin3).
      unfold fresh. fold s3. xs. rewrite app_tail. set (t3 := t2 ++ [cstr_block (zb s3)]).
      pose proof (ed_at_app m t3 _ _ _ _ E) as E3.
      rewrite chk_I32 by lia. xs.
      rewrite (cx_ext D _ _ _ x_lbuf_cp_none), (o_cp OR (m ++ t3) lb bln lbs lines (r1 + 1) r2 (ed_lb _ _ _ _ _ E3) ltac:(lia)).
      unfold fresh. fold s2. xs. rewrite app_tail. set (t4 := t3 ++ [cstr_block (zb s2)]).
      subst t1 t2 t3 t4. cbn [app]. rewrite !app_length. cbn [length].
      (* sbuf_str three times *)
      assert (Hp : forall cs t, nth_error t O = Some (cstr_block (zb cs)) -> str_at (m ++ t) (length m) cs).
      { intros cs t H. unfold str_at. rewrite <- (Nat.add_0_r (length m)), nth_app_at. exact H. }
      assert (Hq : forall t i s, nth_error t i = Some (cstr_block (zb s)) -> str_at (m ++ t) (length m + i) s).
      { intros t i s H. unfold str_at. rewrite nth_app_at. exact H. }
      assert (Hup : forall (t : list block) x, upd (m ++ t) (length m) x = m ++ upd t 0 x).
      { intros t x. rewrite <- (Nat.add_0_r (length m)) at 1. apply upd_app_at. }
      assert (Hne0 : forall s : bytes, cstr_block (zb s) <> []) by (intro s; unfold cstr_block; destruct (map VInt (zb s)); discriminate).
      rewrite (cx_ext D _ _ _ x_sbuf_str_none).
      match goal with |- context [ext X_sbuf_str _ (m ++ ?t)] =>
        pose proof (o_str OR (m ++ t) (length m) [] (length m + 1) s1 0 (Hp _ t eq_refl) (Hq t 1%nat s1 eq_refl) ltac:(lia) N1 ltac:(lia)) as X end.
      change (Z.of_nat 0) with 0 in X. rewrite X. clear X.
      xs. cbn [skipn app]. rewrite Hup. cbn [app upd firstn skipn].
      rewrite (cx_ext D _ _ _ x_sbuf_str_none).
      match goal with |- context [ext X_sbuf_str _ (m ++ ?t)] =>
        pose proof (o_str OR (m ++ t) (length m) s1 (length m + 3) s2 0 (Hp _ t eq_refl) (Hq t 3%nat s2 eq_refl) ltac:(lia) N2 ltac:(lia)) as X end.
      change (Z.of_nat 0) with 0 in X. rewrite X. clear X.
      xs. cbn [skipn]. rewrite Hup. cbn [upd firstn skipn app].
      rewrite (cx_ext D _ _ _ x_sbuf_str_none).
      match goal with |- context [ext X_sbuf_str _ (m ++ ?t)] =>
        pose proof (o_str OR (m ++ t) (length m) (s1 ++ s2) (length m + 2) s3 0 (Hp _ t eq_refl) (Hq t 2%nat s3 eq_refl) ltac:(lia) N3 ltac:(lia)) as X end.
      change (Z.of_nat 0) with 0 in X. rewrite X. clear X.
      xs. cbn [skipn]. rewrite Hup. cbn [upd firstn skipn app].
      (* the three frees *)
      rewrite (free_ok _ (length m + 1) (cstr_block (zb s1))) by (try (rewrite nth_app_at; reflexivity); apply Hne0).
      xs. rewrite upd_app_at. cbn [upd firstn skipn app].
      rewrite (free_ok _ (length m + 3) (cstr_block (zb s2))) by (try (rewrite nth_app_at; reflexivity); apply Hne0).
      xs. rewrite upd_app_at. cbn [upd firstn skipn app].
      rewrite (free_ok _ (length m + 2) (cstr_block (zb s3))) by (try (rewrite nth_app_at; reflexivity); apply Hne0).
      xs. rewrite upd_app_at. cbn [upd firstn skipn app].
      rewrite (cx_ext D _ _ _ x_sbuf_done_none).
      match goal with |- context [ext X_sbuf_done _ (m ++ ?t)] => rewrite (o_done OR (m ++ t) (length m) ((s1 ++ s2) ++ s3) (Hp _ t eq_refl)) end. xs.
      rewrite <- app_assoc. reflexivity.
  Qed.

  (* ================================================================ vi_yank *)
  (* what reg_put may change: blocks the register file owns (none of them allocated after the call started) and fresh blocks *)
  Variable own : nat -> Prop.
  Definition rframe (m m' : mem) : Prop :=
    (length m <= length m')%nat /\ forall b, (b < length m)%nat -> ~ own b -> nth_error m' b = nth_error m b.
  Definition lnb (ln : Z) : bool := negb (ln =? 0).
  (* the region an operator works on: whole lines in line mode *)
  Definition op_o1 (ln o1 : Z) : Z := if lnb ln then 0 else o1.
  Definition op_o2 (ln o2 : Z) : Z := if lnb ln then -1 else o2.
  Definition op_text (lines : list bytes) (r1 o1 r2 o2 ln : Z) : bytes := region_b lines r1 (op_o1 ln o1) r2 (op_o2 ln o2).
  (* the memory in which reg_put is called: the region text in a fresh block *)
  Definition put_mem (m : mem) (lines : list bytes) (r1 o1 r2 o2 ln : Z) : mem :=
    m ++ cstr_block (zb (op_text lines r1 o1 r2 o2 ln)) :: rg_tail r1 r2.

  Lemma cx_region_op D m lb bln lbs lines r1 o1 r2 o2 ln rest : ed_at m lb bln lbs lines -> 0 <= r1 + 1 <= 2147483647 ->
    region_in lines r1 (op_o1 ln o1) r2 (op_o2 ln o2) ->
    let L := VInt r1 :: VInt o1 :: VInt r2 :: VInt o2 :: VInt ln :: rest in
    eval (cx (S (S (S D)))) (ECall F_lbuf_region [ECall F_ex_lbuf []; ELocal 0; ECond (ELocal 4) (EConst 0) (ELocal 1); ELocal 2;
                                           ECond (ELocal 4) (EUn ONeg I32 (EConst 1)) (ELocal 3)]) (mkst L m)
    = Ok (VPtr (length m) 0, mkst L (put_mem m lines r1 o1 r2 o2 ln)).
  Proof.
    intros E Hr Hin L. unfold L. xs. rewrite (cx_xb (S (S D)) m lb bln lbs lines E). xs.
    unfold put_mem, op_text, op_o1, op_o2, lnb in *.
    destruct (ln =? 0) eqn:Eln; xs; rewrite ?Eln; xs.
    - rewrite (tr_lbuf_region (S D) m lb bln lbs lines r1 o1 r2 o2 E Hr Hin). reflexivity.
    - change (chk I32 (- (1))) with (@Ok Z (-1)). xs. rewrite (tr_lbuf_region (S D) m lb bln lbs lines r1 0 r2 (-1) E Hr Hin). reflexivity.
  Qed.

  Lemma cstr_ne (t : list Z) : cstr_block t <> [].
  Proof. unfold cstr_block. destruct (map VInt t); discriminate. Qed.
  Lemma put_mem_len m lines r1 o1 r2 o2 ln : (length m < length (put_mem m lines r1 o1 r2 o2 ln))%nat.
  Proof. unfold put_mem. rewrite app_length. cbn [length]. lia. Qed.
  Lemma put_mem_new m lines r1 o1 r2 o2 ln : str_at (put_mem m lines r1 o1 r2 o2 ln) (length m) (op_text lines r1 o1 r2 o2 ln).
  Proof. unfold str_at, put_mem. rewrite <- (Nat.add_0_r (length m)) at 1. rewrite nth_app_at. reflexivity. Qed.
  Lemma put_mem_old m lines r1 o1 r2 o2 ln b : (b < length m)%nat -> nth_error (put_mem m lines r1 o1 r2 o2 ln) b = nth_error m b.
  Proof. intro H. unfold put_mem. apply nth_app_lt. exact H. Qed.

  (* vi_yank(r1, o1, r2, o2, lnmode): reg_put(vi_ybuf, region text, lnmode); a line-wise yank that starts on the cursor row returns 0 and
     leaves the cursor; else xrow = r1, xoff = o1 (character-wise) or unchanged (line-wise), 1 (VC_COL) is returned *)
  Definition yank_stay (ln xr r1 : Z) : bool := lnb ln && (xr =? r1).
  Theorem tr_vi_yank D m lb bln lbs lines r1 o1 r2 o2 ln y xr xo u m2 : ed_at m lb bln lbs lines -> 0 <= r1 + 1 <= 2147483647 ->
    region_in lines r1 (op_o1 ln o1) r2 (op_o2 ln o2) ->
    cell_at m G_vi_ybuf y -> cell_at m G_xrow xr -> cell_at m G_xoff xo -> int_ok y -> int_ok xr -> int_ok xo -> int_ok r1 -> int_ok o1 ->
    (forall b, own b -> (b < length m)%nat) -> ~ own G_xrow -> ~ own G_xoff ->
    let M1 := put_mem m lines r1 o1 r2 o2 ln in
    ext X_reg_put [VInt y; VPtr (length m) 0; VInt ln] M1 = Ok (u, m2) -> rframe M1 m2 ->
    let m3 := upd m2 (length m) [] in
    callx ext cprog fuel (S (S (S (S D)))) F_vi_yank [VInt r1; VInt o1; VInt r2; VInt o2; VInt ln] m
    = if yank_stay ln xr r1 then Ok (VInt 0, m3)
      else Ok (VInt 1, upd (upd m3 G_xrow [VInt r1]) G_xoff [VInt (if lnb ln then xo else o1)]).
  Proof.
    intros E Hr Hin Hy Hxr Hxo Iy Ixr Ixo Ir1 Io1 Hown Nxr Nxo M1 Hput [Hlen Hfr] m3.
    assert (Lx : (G_xrow < length m)%nat) by (apply nth_error_Some; unfold cell_at in Hxr; congruence).
    assert (Lo : (G_xoff < length m)%nat) by (apply nth_error_Some; unfold cell_at in Hxo; congruence).
    assert (Ly : (G_vi_ybuf < length m)%nat) by (apply nth_error_Some; unfold cell_at in Hy; congruence).
    pose proof (put_mem_len m lines r1 o1 r2 o2 ln) as Hl1. fold M1 in Hl1.
    rewrite callx_S. change (nth_error cprog F_vi_yank) with (Some cf_vi_yank).
    cbn [fn_nparams cf_vi_yank length Nat.eqb fn_nlocals Nat.sub repeat app fn_body].
    rewrite exec_seq, (exec_setlocal _ _ _ _ _ _ _ (cx_region_op D m lb bln lbs lines r1 o1 r2 o2 ln [VUndef] E Hr Hin)). fold M1. xs.
    rewrite (ld1 M1 G_vi_ybuf (VInt y)) by (unfold M1; rewrite put_mem_old by exact Ly; exact Hy). xs. rewrite (wrap_int_ok y Iy).
    rewrite (cx_ext (S (S D)) _ _ _ x_reg_put_none), Hput. xs.
    assert (Hpb : nth_error m2 (length m) = Some (cstr_block (zb (op_text lines r1 o1 r2 o2 ln)))).
    { rewrite Hfr; [exact (put_mem_new m lines r1 o1 r2 o2 ln)|lia|]. intro Ho. specialize (Hown _ Ho). lia. }
    rewrite (free_ok m2 (length m) _ Hpb (cstr_ne _)). xs. fold m3.
    assert (Lm2 : (length m < length m2)%nat) by lia.
    assert (Hxr3 : cell_at m3 G_xrow xr).
    { unfold cell_at, m3. rewrite mem_upd_other by lia. rewrite Hfr by (try lia; exact Nxr). unfold M1. rewrite put_mem_old by exact Lx. exact Hxr. }
    assert (Hxo3 : cell_at m3 G_xoff xo).
    { unfold cell_at, m3. rewrite mem_upd_other by lia. rewrite Hfr by (try lia; exact Nxo). unfold M1. rewrite put_mem_old by exact Lo. exact Hxo. }
    unfold yank_stay, lnb. destruct (ln =? 0) eqn:Eln; xs; rewrite ?Eln; xs.
    - rewrite !(wrap_int_ok r1 Ir1), (store_cell m3 G_xrow xr r1 Hxr3). xs. rewrite ?Eln. xs. rewrite !(wrap_int_ok o1 Io1).
      assert (Hxo4 : cell_at (upd m3 G_xrow [VInt r1]) G_xoff xo).
      { unfold cell_at. rewrite mem_upd_other; [exact Hxo3|unfold m3; rewrite upd_length; lia|unfold G_xoff, G_xrow; discriminate]. }
      rewrite (store_cell _ G_xoff xo o1 Hxo4). xs. reflexivity.
    - rewrite (ld1 m3 G_xrow (VInt xr) Hxr3). xs. rewrite (wrap_int_ok xr Ixr). destruct (xr =? r1); xs; [reflexivity|].
      rewrite !(wrap_int_ok r1 Ir1), (store_cell m3 G_xrow xr r1 Hxr3). xs. rewrite ?Eln. xs.
      assert (Hxo4 : cell_at (upd m3 G_xrow [VInt r1]) G_xoff xo).
      { unfold cell_at. rewrite mem_upd_other; [exact Hxo3|unfold m3; rewrite upd_length; lia|unfold G_xoff, G_xrow; discriminate]. }
      rewrite (ld1 _ G_xoff (VInt xo) Hxo4). xs. rewrite !(wrap_int_ok xo Ixo). rewrite (store_cell _ G_xoff xo xo Hxo4). xs. reflexivity.
  Qed.

  (* ================================================================ vi_delete *)
  (* what lbuf_edit may change: blocks the line buffer owns (lines, line table, undo log; none allocated after the command started) and
     fresh blocks.  After it the buffer holds some lines' (lbuf_edit is an oracle here: coq/TrUndoEdit.v proves it) *)
  Variable lown : nat -> Prop.
  Definition eframe (m m' : mem) : Prop :=
    (length m <= length m')%nat /\ forall b, (b < length m)%nat -> ~ lown b -> nth_error m' b = nth_error m b.
  Definition ed_cur (m : mem) (lb bln : nat) (lbs : list nat) (lines : list bytes) : Prop :=
    ed_at m lb bln lbs lines /\ ~ In G_xrow (lb :: bln :: lbs) /\ ~ In G_xoff (lb :: bln :: lbs) /\ ~ In G_bufs (lb :: bln :: lbs).
  Lemma ed_at_other m m' lb bln lbs lines : ed_at m lb bln lbs lines ->
    (forall k, In k (G_bufs :: lb :: bln :: lbs) -> nth_error m' k = nth_error m k) -> ed_at m' lb bln lbs lines.
  Proof.
    intros [(g & H1 & H2) R S] K. constructor; [|apply (lbuf_at_other m); [exact R|intros k Hk; apply K; right; exact Hk]|exact S].
    exists g. split; [|exact H2]. rewrite K by (left; reflexivity). exact H1.
  Qed.
  Lemma ed_at_upd m lb bln lbs lines b blk' : ed_at m lb bln lbs lines -> (b < length m)%nat -> ~ In b (G_bufs :: lb :: bln :: lbs) ->
    ed_at (upd m b blk') lb bln lbs lines.
  Proof. intros E Hb Nb. apply (ed_at_other m); [exact E|]. intros k Hk. apply mem_upd_other; [exact Hb|]. intros ->. contradiction. Qed.
  Lemma ed_at_lt m lb bln lbs lines k : ed_at m lb bln lbs lines -> In k (G_bufs :: lb :: bln :: lbs) -> (k < length m)%nat.
  Proof. intros [(g & H1 & _) R _] [<-|Hk]; [apply nth_error_Some; congruence|eapply lbuf_at_lt; eassumption]. Qed.

  (* the cursor after a delete: row r1 clamped to the last line, as vi_wfix() will *)
  Definition del_row (r1 len : Z) : Z := if r1 <? len then r1 else Z.max 0 (len - 1).
  (* xrow = r1; xoff = v; if (xrow >= lbuf_len(xb)) xrow = MAX(0, lbuf_len(xb) - 1) *)
  Definition set_cur (m : mem) (r1 v len : Z) : mem :=
    let m1 := upd (upd m G_xrow [VInt r1]) G_xoff [VInt v] in if r1 <? len then m1 else upd m1 G_xrow [VInt (Z.max 0 (len - 1))].
  Lemma set_cur_cells m r1 v len x0 o0 : cell_at m G_xrow x0 -> cell_at m G_xoff o0 ->
    cell_at (set_cur m r1 v len) G_xrow (del_row r1 len) /\ cell_at (set_cur m r1 v len) G_xoff v /\
    length (set_cur m r1 v len) = length m /\
    forall b, b <> G_xrow -> b <> G_xoff -> nth_error (set_cur m r1 v len) b = nth_error m b.
  Proof.
    intros Hx Ho. assert (Lx : (G_xrow < length m)%nat) by (apply nth_error_Some; unfold cell_at in Hx; congruence).
    assert (Lo : (G_xoff < length m)%nat) by (apply nth_error_Some; unfold cell_at in Ho; congruence).
    assert (Ne : G_xoff <> G_xrow) by (unfold G_xoff, G_xrow; discriminate).
    assert (U1 : forall a, length (upd m G_xrow a) = length m) by (intro; apply upd_length; lia).
    assert (U2 : forall a b, length (upd (upd m G_xrow a) G_xoff b) = length m) by (intros; rewrite upd_length; [apply U1|rewrite U1; lia]).
    assert (U3 : forall a b c, length (upd (upd (upd m G_xrow a) G_xoff b) G_xrow c) = length m) by (intros; rewrite upd_length; [apply U2|rewrite U2; lia]).
    assert (S1 : forall (mm : mem) g a, (g < length mm)%nat -> nth_error (upd mm g a) g = Some a) by (intros; apply mem_upd_same; assumption).
    assert (O1 : forall (mm : mem) g g' a, (g < length mm)%nat -> g' <> g -> nth_error (upd mm g a) g' = nth_error mm g') by (intros; apply mem_upd_other; assumption).
    unfold set_cur, del_row, cell_at. destruct (r1 <? len).
    - split; [rewrite O1 by (rewrite ?U1; congruence || lia); apply S1; lia|].
      split; [apply S1; rewrite U1; lia|]. split; [apply U2|].
      intros b N1 N2. rewrite O1 by (rewrite ?U1; congruence || lia). apply O1; congruence || lia.
    - split; [apply S1; rewrite U2; lia|].
      split; [rewrite O1 by (rewrite ?U2; congruence || lia); apply S1; rewrite U1; lia|]. split; [apply U3|].
      intros b N1 N2. rewrite O1 by (rewrite ?U2; congruence || lia). rewrite O1 by (rewrite ?U1; congruence || lia). apply O1; congruence || lia.
  Qed.

  Definition set_row_s : stmt := SExpr (EStore (Some I32) (EGlob G_xrow) (ELocal 0)).
  Definition clamp_s : stmt :=
    SIf (EBin OGe I32 (ELoad (Some I32) (EGlob G_xrow)) (ECall F_lbuf_len [ECall F_ex_lbuf []]))
        (SExpr (EStore (Some I32) (EGlob G_xrow)
           (ECond (EBin OLt I32 (EConst 0) (EBin OSub I32 (ECall F_lbuf_len [ECall F_ex_lbuf []]) (EConst 1)))
                  (EBin OSub I32 (ECall F_lbuf_len [ECall F_ex_lbuf []]) (EConst 1)) (EConst 0)))) SSkip.
  Lemma cx_len D m lb bln lbs lines : ed_at m lb bln lbs lines ->
    callx ext cprog fuel (S D) F_lbuf_len [VPtr lb 0] m = Ok (VInt (Z.of_nat (length lines)), m).
  Proof.
    intros [_ R S]. apply callx_mono. rewrite (tr_lbuf_len m lb bln lbs lines D fuel R S). unfold blen. rewrite map_length. reflexivity.
  Qed.
  (* the clamp, when xrow = r1 and xoff = v have been stored *)
  Lemma exec_clamp D L m lb bln lbs lines r1 v x0 o0 : ed_cur m lb bln lbs lines -> cell_at m G_xrow x0 -> cell_at m G_xoff o0 -> int_ok r1 ->
    let m1 := upd (upd m G_xrow [VInt r1]) G_xoff [VInt v] in
    exec (cx (S D)) fuel clamp_s (mkst L m1) = ONormal (mkst L (set_cur m r1 v (Z.of_nat (length lines)))).
  Proof.
    intros (E & N1 & N2 & N3) Hx Ho Ir m1.
    assert (Lx : (G_xrow < length m)%nat) by (apply nth_error_Some; unfold cell_at in Hx; congruence).
    assert (Lo : (G_xoff < length m)%nat) by (apply nth_error_Some; unfold cell_at in Ho; congruence).
    assert (Ne : G_xoff <> G_xrow) by (unfold G_xoff, G_xrow; discriminate).
    assert (NB1 : G_xrow <> G_bufs) by (unfold G_bufs, G_xrow; discriminate).
    assert (NB2 : G_xoff <> G_bufs) by (unfold G_bufs, G_xoff; discriminate).
    assert (E1 : ed_at m1 lb bln lbs lines).
    { unfold m1. apply ed_at_upd; [apply ed_at_upd; [exact E|exact Lx|]|rewrite upd_length by lia; exact Lo|]; intros [Hb|Hb]; try congruence; contradiction. }
    assert (Hx1 : cell_at m1 G_xrow r1).
    { unfold cell_at, m1. rewrite mem_upd_other, mem_upd_same by (rewrite ?upd_length; congruence || lia). reflexivity. }
    pose proof (ed_small _ _ _ _ _ E) as [Hsm _].
    unfold clamp_s, set_cur. fold m1. rewrite exec_if. xs. rewrite (ld1 m1 G_xrow _ Hx1). xs. rewrite (wrap_int_ok r1 Ir).
    rewrite (cx_xb D m1 lb bln lbs lines E1). xs. rewrite (cx_len D m1 lb bln lbs lines E1). xs.
    destruct (Z.ltb_spec r1 (Z.of_nat (length lines))) as [Hlt|Hge].
    - destruct (Z.leb_spec (Z.of_nat (length lines)) r1); [lia|]. xs. reflexivity.
    - destruct (Z.leb_spec (Z.of_nat (length lines)) r1); [|lia]. xs.
      rewrite (cx_xb D m1 lb bln lbs lines E1). xs. rewrite (cx_len D m1 lb bln lbs lines E1). xs. rewrite chk_I32 by lia. xs.
      destruct (Z.ltb_spec 0 (Z.of_nat (length lines) - 1)) as [Hp|Hp]; xs.
      + rewrite (cx_xb D m1 lb bln lbs lines E1). xs. rewrite (cx_len D m1 lb bln lbs lines E1). xs. rewrite chk_I32 by lia. xs.
        rewrite wrap_I32_id by lia. rewrite (store_cell m1 G_xrow r1 _ Hx1). xs. rewrite Z.max_r by lia. reflexivity.
      + rewrite (store_cell m1 G_xrow r1 _ Hx1). xs. rewrite Z.max_l by lia. reflexivity.
  Qed.

  Definition del_rest : stmt := match fn_body cf_vi_delete with SSeq _ (SSeq _ (SSeq _ r)) => r | _ => SSkip end.
  Section Del.
    Variables (D : nat) (m : mem) (lb bln : nat) (lbs : list nat) (lines : list bytes) (r1 o1 r2 o2 ln y xr xo : Z) (u : val) (m2 : mem).
    Hypothesis E : ed_at m lb bln lbs lines.
    Hypothesis Hr : 0 <= r1 + 1 <= 2147483647.
    Hypothesis Hr2 : int_ok r2 /\ int_ok (r2 + 1).
    Hypothesis Hin : region_in lines r1 (op_o1 ln o1) r2 (op_o2 ln o2).
    Hypothesis Hy : cell_at m G_vi_ybuf y.
    Hypothesis Hxr : cell_at m G_xrow xr.
    Hypothesis Hxo : cell_at m G_xoff xo.
    Hypothesis Iy : int_ok y.
    Hypothesis Io1 : int_ok o1.
    Hypothesis Hl0 : str_at m G_lit__0 [].
    Hypothesis Hl1 : str_at m G_lit_0a_1 [10%N].
    Hypothesis Hown : forall b, own b -> (b < length m)%nat.
    Hypothesis Nown : forall b, In b (G_xrow :: G_xoff :: G_lit__0 :: G_lit_0a_1 :: G_bufs :: lb :: bln :: lbs) -> ~ own b.
    Hypothesis Hlown : forall b, lown b -> (b < length m)%nat.
    Hypothesis Nlown : ~ lown G_xrow /\ ~ lown G_xoff.
    Let M1 := put_mem m lines r1 o1 r2 o2 ln.
    Hypothesis Hput : ext X_reg_put [VInt y; VPtr (length m) 0; VInt ln] M1 = Ok (u, m2).
    Hypothesis Hfr : rframe M1 m2.
    Let m3 := upd m2 (length m) [].
    Let L3 := [VInt r1; VInt o1; VInt r2; VInt o2; VInt ln; VUndef; VUndef; VPtr (length m) 0; VUndef].

    Lemma del_len2 : (length m < length m2)%nat.
    Proof. destruct Hfr as [H _]. pose proof (put_mem_len m lines r1 o1 r2 o2 ln) as HH. change (put_mem m lines r1 o1 r2 o2 ln) with M1 in HH. lia. Qed.
    Lemma del_len3 : length m3 = length m2.
    Proof. unfold m3. apply upd_length. exact del_len2. Qed.
    Lemma del_m3_old b : (b < length m)%nat -> ~ own b -> nth_error m3 b = nth_error m b.
    Proof.
      intros Hb Nb. pose proof del_len2. unfold m3. rewrite mem_upd_other by lia. destruct Hfr as [_ F].
      rewrite F by (try exact Nb; pose proof (put_mem_len m lines r1 o1 r2 o2 ln) as HH; change (put_mem m lines r1 o1 r2 o2 ln) with M1 in HH; lia). apply put_mem_old. exact Hb.
    Qed.
    Lemma del_ed3 : ed_at m3 lb bln lbs lines.
    Proof.
      apply (ed_at_other m); [exact E|]. intros k Hk. apply del_m3_old; [eapply ed_at_lt; eassumption|]. apply Nown.
      right; right; right; right. exact Hk.
    Qed.
    Lemma del_head : exec (cx (S (S (S D)))) fuel (fn_body cf_vi_delete) (mkst [VInt r1; VInt o1; VInt r2; VInt o2; VInt ln; VUndef; VUndef; VUndef; VUndef] m)
                     = exec (cx (S (S (S D)))) fuel del_rest (mkst L3 m3).
    Proof.
      assert (Ly : (G_vi_ybuf < length m)%nat) by (apply nth_error_Some; unfold cell_at in Hy; congruence).
      unfold del_rest. cbn [fn_body cf_vi_delete].
      rewrite exec_seq, (exec_setlocal _ _ _ _ _ _ _ (cx_region_op D m lb bln lbs lines r1 o1 r2 o2 ln [VUndef; VUndef; VUndef; VUndef] E Hr Hin)). fold M1. xs.
      rewrite (ld1 M1 G_vi_ybuf (VInt y)) by (unfold M1; rewrite put_mem_old by exact Ly; exact Hy). xs. rewrite (wrap_int_ok y Iy).
      rewrite (cx_ext (S (S D)) _ _ _ x_reg_put_none), Hput. xs.
      assert (Hpb : nth_error m2 (length m) = Some (cstr_block (zb (op_text lines r1 o1 r2 o2 ln)))).
      { destruct Hfr as [_ F]. rewrite F; [exact (put_mem_new m lines r1 o1 r2 o2 ln)|apply put_mem_len|]. intro Ho. specialize (Hown _ Ho). lia. }
      rewrite (free_ok m2 (length m) _ Hpb (cstr_ne _)). xs. reflexivity.
    Qed.

    (* ---- line-wise: lbuf_edit(xb, NULL, r1, r2 + 1); xoff = lbuf_indents(xb, xrow) *)
    Variables (u' : val) (m6 : mem) (bln' : nat) (lbs' : list nat) (lines' : list bytes) (ud : val) (m8 : mem).
    Let p5 := length m2.
    Definition del_mem5 : mem := m3 ++ [cstr_block (zb []); cstr_block (zb [10%N])].
    Definition del_lines_mem : mem :=
      upd (upd (set_cur m6 r1 (lbuf_indents (map chop lines') r1) (Z.of_nat (length lines'))) p5 []) (p5 + 1) [].
    Theorem tr_vi_delete_lines : lnb ln = true ->
      ext X_lbuf_edit [VPtr lb 0; VInt 0; VInt r1; VInt (r2 + 1)] del_mem5 = Ok (u', m6) -> eframe del_mem5 m6 ->
      ed_cur m6 lb bln' lbs' lines' -> (maxlen lines' < fuel)%nat ->
      ext X_vi_drawfix [VInt r1; VInt r2; VInt 0; VInt 0] del_lines_mem = Ok (ud, m8) ->
      callx ext cprog fuel (S (S (S (S D)))) F_vi_delete [VInt r1; VInt o1; VInt r2; VInt o2; VInt ln] m = Ok (VInt 16, m8).
    Proof.
      intros Eln Hedit [Hlen6 Hfr6] Ec Hfuel Hdraw. pose proof Ec as (E6 & N61 & N62 & N63).
      pose proof del_len2 as L2. pose proof del_len3 as L3'.
      assert (Lx : (G_xrow < length m)%nat) by (apply nth_error_Some; unfold cell_at in Hxr; congruence).
      assert (Lo : (G_xoff < length m)%nat) by (apply nth_error_Some; unfold cell_at in Hxo; congruence).
      assert (Ir1 : int_ok r1) by (unfold int_ok; lia).
      rewrite callx_S. change (nth_error cprog F_vi_delete) with (Some cf_vi_delete).
      cbn [fn_nparams cf_vi_delete length Nat.eqb fn_nlocals Nat.sub repeat app]. rewrite del_head.
      unfold del_rest, L3. cbn [fn_body cf_vi_delete].
      match goal with |- context [SIf (EBin OGe I32 ?a ?b) ?x ?y] => change (SIf (EBin OGe I32 a b) x y) with clamp_s end.
      unfold lnb in Eln. xs. rewrite Eln. xs.
      (* pref = uc_dup(""), post = uc_dup("\n") *)
      assert (H0 : str_at m3 G_lit__0 []) by (unfold str_at; rewrite del_m3_old; [exact Hl0|apply nth_error_Some; unfold str_at in Hl0; congruence|apply Nown; cbn; auto]).
      assert (H1 : str_at m3 G_lit_0a_1 [10%N]) by (unfold str_at; rewrite del_m3_old; [exact Hl1|apply nth_error_Some; unfold str_at in Hl1; congruence|apply Nown; cbn; auto]).
      rewrite (cx_ext (S (S D)) _ _ _ x_uc_dup_none), (o_dup OR m3 G_lit__0 [] H0 ltac:(constructor)). unfold fresh. xs. rewrite Eln. xs.
      rewrite (cx_ext (S (S D)) _ _ _ x_uc_dup_none), (o_dup OR _ G_lit_0a_1 [10%N] (str_at_app m3 _ _ _ H1) ltac:(repeat constructor; lia)).
      unfold fresh. xs. rewrite app_tail. cbn [app]. fold del_mem5. rewrite Eln. xs.
      assert (E5 : ed_at del_mem5 lb bln lbs lines) by (apply ed_at_app; exact del_ed3).
      rewrite (cx_xb (S (S D)) del_mem5 lb bln lbs lines E5). xs. rewrite chk_I32 by (destruct Hr2 as [_ H]; exact H). xs.
      rewrite (cx_ext (S (S D)) _ _ _ x_lbuf_edit_none), Hedit. xs.
      (* the cursor *)
      assert (L5 : length del_mem5 = (length m2 + 2)%nat) by (unfold del_mem5; rewrite app_length, L3'; reflexivity).
      assert (Old6 : forall b, (b < length m)%nat -> ~ own b -> ~ lown b -> nth_error m6 b = nth_error m b).
      { intros b Hb No Nl. rewrite Hfr6 by (try exact Nl; lia). unfold del_mem5. rewrite nth_app_lt by lia. apply del_m3_old; assumption. }
      assert (Hx6 : cell_at m6 G_xrow xr) by (unfold cell_at; rewrite Old6; [exact Hxr|exact Lx|apply Nown; cbn; auto|apply Nlown]).
      assert (Ho6 : cell_at m6 G_xoff xo) by (unfold cell_at; rewrite Old6; [exact Hxo|exact Lo|apply Nown; cbn; auto|apply Nlown]).
      rewrite (wrap_int_ok r1 Ir1), (store_cell m6 G_xrow xr r1 Hx6). xs. rewrite Eln. xs.
      assert (Lx6 : (G_xrow < length m6)%nat) by lia.
      assert (E7 : ed_at (upd m6 G_xrow [VInt r1]) lb bln' lbs' lines').
      { apply ed_at_upd; [exact E6|exact Lx6|]. intros [Hb|Hb]; [unfold G_bufs, G_xrow in Hb; discriminate|contradiction]. }
      rewrite (cx_xb (S (S D)) _ lb bln' lbs' lines' E7). xs.
      rewrite (ld1 _ G_xrow (VInt r1)) by (apply mem_upd_same; exact Lx6). xs. rewrite (wrap_int_ok r1 Ir1).
      rewrite (callx_mono ext _ _ _ _ _ _ _ (tr_lbuf_indents _ lb bln' lbs' lines' r1 D fuel (ed_lb _ _ _ _ _ E7) (ed_small _ _ _ _ _ E7) Hfuel)). xs.
      set (v := lbuf_indents (map chop lines') r1).
      assert (Iv : int_ok v).
      { unfold v, lbuf_indents. rewrite getl_rowidx. destruct (rowidx lines' r1) as [i|]; cbn [option_map]; [|unfold int_ok; lia].
        pose proof (count_space_le (chop (nthl lines' i))). pose proof (slen_small lines' i (ed_small _ _ _ _ _ E7) (la_nonul _ _ _ _ _ (ed_lb _ _ _ _ _ E7))). unfold int_ok. lia. }
      rewrite (wrap_int_ok v Iv).
      assert (Ho7 : cell_at (upd m6 G_xrow [VInt r1]) G_xoff xo).
      { unfold cell_at. rewrite mem_upd_other; [exact Ho6|exact Lx6|unfold G_xoff, G_xrow; discriminate]. }
      rewrite (store_cell _ G_xoff xo v Ho7). xs.
      rewrite (exec_clamp (S (S D)) _ m6 lb bln' lbs' lines' r1 v xr xo Ec Hx6 Ho6 Ir1).
      destruct (set_cur_cells m6 r1 v (Z.of_nat (length lines')) xr xo Hx6 Ho6) as (_ & _ & Lsc & Osc).
      set (mc := set_cur m6 r1 v (Z.of_nat (length lines'))) in *.
      (* free(pref); free(post) *)
      assert (P5 : nth_error mc (length m3) = Some (cstr_block (zb []))).
      { rewrite Osc by (unfold G_xrow, G_xoff in *; lia). rewrite Hfr6; [unfold del_mem5; rewrite <- (Nat.add_0_r (length m3)), nth_app_at; reflexivity|lia|].
        intro Hl. specialize (Hlown _ Hl). lia. }
      assert (P6 : nth_error mc (length m3 + 1) = Some (cstr_block (zb [10%N]))).
      { rewrite Osc by (unfold G_xrow, G_xoff in *; lia). rewrite Hfr6; [unfold del_mem5; rewrite nth_app_at; reflexivity|lia|].
        intro Hl. specialize (Hlown _ Hl). lia. }
      xs. rewrite (free_ok mc (length m3) _ P5 (cstr_ne _)). xs.
      rewrite app_length. cbn [length].
      rewrite (free_ok _ (length m3 + 1) (cstr_block (zb [10%N]))) by (try apply cstr_ne; rewrite mem_upd_other by lia; exact P6). xs.
      rewrite Eln. xs. rewrite (cx_ext (S (S D)) _ _ _ x_vi_drawfix_none).
      unfold del_lines_mem, p5 in Hdraw. fold v in Hdraw. fold mc in Hdraw. rewrite L3', Hdraw. xs. reflexivity.
    Qed.

    (* ---- character-wise: line = uc_cat(pref, post); lbuf_edit(xb, line, r1, r2 + 1); xoff = o1 *)
    Definition del_pref : bytes := sub_b (getb lines r1) 0 o1.
    Definition del_post : bytes := sub_b (getb lines r2) o2 (-1).
    Definition del_mem5c : mem := m3 ++ [cstr_block (zb del_pref); cstr_block (zb del_post); cstr_block (zb (del_pref ++ del_post))].
    Definition del_chars_mem : mem :=
      upd (upd (set_cur (upd m6 (p5 + 2) []) r1 o1 (Z.of_nat (length lines'))) p5 []) (p5 + 1) [].
    Theorem tr_vi_delete_chars : lnb ln = false -> sub_in (getb lines r1) 0 o1 -> sub_in (getb lines r2) o2 (-1) ->
      ext X_lbuf_edit [VPtr lb 0; VPtr (p5 + 2) 0; VInt r1; VInt (r2 + 1)] del_mem5c = Ok (u', m6) -> eframe del_mem5c m6 ->
      ed_cur (upd m6 (p5 + 2) []) lb bln' lbs' lines' ->
      ext X_vi_drawfix [VInt r1; VInt r2; VInt 1; VInt 0] del_chars_mem = Ok (ud, m8) ->
      callx ext cprog fuel (S (S (S (S D)))) F_vi_delete [VInt r1; VInt o1; VInt r2; VInt o2; VInt ln] m = Ok (VInt 16, m8).
    Proof.
      intros Eln Hin5 Hin6 Hedit [Hlen6 Hfr6] Ec Hdraw.
      pose proof del_len2 as L2. pose proof del_len3 as L3'. pose proof del_ed3 as E3.
      assert (Lx : (G_xrow < length m)%nat) by (apply nth_error_Some; unfold cell_at in Hxr; congruence).
      assert (Lo : (G_xoff < length m)%nat) by (apply nth_error_Some; unfold cell_at in Hxo; congruence).
      assert (Ir1 : int_ok r1) by (unfold int_ok; lia).
      pose proof (la_nonul _ _ _ _ _ (ed_lb _ _ _ _ _ E)) as Hnn.
      assert (Np : nonul del_pref) by (apply sub_b_nonul; intros s0 Es; eapply getb_nonul; eassumption).
      assert (Nq : nonul del_post) by (apply sub_b_nonul; intros s0 Es; eapply getb_nonul; eassumption).
      rewrite callx_S. change (nth_error cprog F_vi_delete) with (Some cf_vi_delete).
      cbn [fn_nparams cf_vi_delete length Nat.eqb fn_nlocals Nat.sub repeat app]. rewrite del_head.
      unfold del_rest, L3. cbn [fn_body cf_vi_delete].
      match goal with |- context [SIf (EBin OGe I32 ?a ?b) ?x ?y] => change (SIf (EBin OGe I32 a b) x y) with clamp_s end.
      unfold lnb in Eln. xs. rewrite Eln. xs.
      (* pref, post, line *)
      rewrite (cx_xb (S (S D)) m3 lb bln lbs lines E3). xs. rewrite (cx_get (S (S D)) m3 lb bln lbs lines r1 E3). xs.
      rewrite (cx_ext (S (S D)) _ _ _ x_uc_sub_none), (o_sub OR m3 _ _ 0 o1 (sarg_line m3 lb bln lbs lines r1 (ed_lb _ _ _ _ _ E3)) Hin5).
      unfold fresh. fold del_pref. xs. rewrite Eln. xs.
      set (t1 := [cstr_block (zb del_pref)]). pose proof (ed_at_app m3 t1 _ _ _ _ E3) as E4.
      rewrite (cx_xb (S (S D)) _ lb bln lbs lines E4). xs. rewrite (cx_get (S (S D)) _ lb bln lbs lines r2 E4). xs.
      change (chk I32 (- (1))) with (@Ok Z (-1)). xs.
      rewrite (cx_ext (S (S D)) _ _ _ x_uc_sub_none), (o_sub OR _ _ _ o2 (-1) (sarg_line _ lb bln lbs lines r2 (ed_lb _ _ _ _ _ E4)) Hin6).
      unfold fresh. fold del_post. xs. rewrite app_tail. unfold t1. cbn [app]. rewrite Eln. xs.
      rewrite !app_length. cbn [length]. rewrite L3'.
      rewrite (cx_ext (S (S D)) _ _ _ x_uc_cat_none).
      match goal with |- context [ext X_uc_cat _ (m3 ++ ?t)] =>
        assert (Q5 : str_at (m3 ++ t) (length m2) del_pref) by (unfold str_at; rewrite <- L3', <- (Nat.add_0_r (length m3)), nth_app_at; reflexivity);
        assert (Q6 : str_at (m3 ++ t) (length m2 + 1) del_post) by (unfold str_at; rewrite <- L3', nth_app_at; reflexivity) end.
      rewrite (o_cat OR _ (length m2) (length m2 + 1) del_pref del_post Q5 Q6 Np Nq).
      unfold fresh. xs. rewrite app_tail. cbn [app]. fold del_mem5c.
      rewrite app_length. cbn [length]. rewrite L3'. fold p5.
      assert (E5 : ed_at del_mem5c lb bln lbs lines) by (apply ed_at_app; exact E3).
      rewrite (cx_xb (S (S D)) del_mem5c lb bln lbs lines E5). xs. rewrite chk_I32 by (destruct Hr2 as [_ H]; exact H). xs.
      rewrite (cx_ext (S (S D)) _ _ _ x_lbuf_edit_none), Hedit. xs.
      assert (L5 : length del_mem5c = (p5 + 3)%nat) by (unfold del_mem5c, p5; rewrite app_length, L3'; reflexivity).
      assert (Nl : forall k, (length m <= k)%nat -> ~ lown k) by (intros k Hk Hl; specialize (Hlown _ Hl); lia).
      assert (P8 : nth_error m6 (p5 + 2) = Some (cstr_block (zb (del_pref ++ del_post)))).
      { rewrite Hfr6 by (try apply Nl; unfold p5; lia). unfold del_mem5c, p5. rewrite <- L3', nth_app_at. reflexivity. }
      rewrite (free_ok m6 (p5 + 2) _ P8 (cstr_ne _)). xs. set (m6' := upd m6 (p5 + 2) []) in *.
      assert (Lm6' : length m6' = length m6) by (unfold m6'; apply upd_length; lia).
      assert (Old6 : forall b, (b < length m)%nat -> ~ own b -> ~ lown b -> nth_error m6' b = nth_error m b).
      { intros b Hb No Nlb. unfold m6'. rewrite mem_upd_other by (unfold p5; lia). rewrite Hfr6 by (try exact Nlb; unfold p5 in *; lia).
        unfold del_mem5c. rewrite nth_app_lt by lia. apply del_m3_old; assumption. }
      assert (Hx6 : cell_at m6' G_xrow xr) by (unfold cell_at; rewrite Old6; [exact Hxr|exact Lx|apply Nown; cbn; auto|apply Nlown]).
      assert (Ho6 : cell_at m6' G_xoff xo) by (unfold cell_at; rewrite Old6; [exact Hxo|exact Lo|apply Nown; cbn; auto|apply Nlown]).
      rewrite (wrap_int_ok r1 Ir1), (store_cell m6' G_xrow xr r1 Hx6). xs. rewrite Eln. xs. rewrite (wrap_int_ok o1 Io1).
      assert (Ho7 : cell_at (upd m6' G_xrow [VInt r1]) G_xoff xo).
      { unfold cell_at. rewrite mem_upd_other; [exact Ho6|lia|unfold G_xoff, G_xrow; discriminate]. }
      rewrite (store_cell _ G_xoff xo o1 Ho7). xs.
      rewrite (exec_clamp (S (S D)) _ m6' lb bln' lbs' lines' r1 o1 xr xo Ec Hx6 Ho6 Ir1).
      destruct (set_cur_cells m6' r1 o1 (Z.of_nat (length lines')) xr xo Hx6 Ho6) as (_ & _ & Lsc & Osc).
      set (mc := set_cur m6' r1 o1 (Z.of_nat (length lines'))) in *.
      assert (P5 : nth_error mc p5 = Some (cstr_block (zb del_pref))).
      { rewrite Osc by (unfold G_xrow, G_xoff, p5 in *; lia). unfold m6'. rewrite mem_upd_other by lia.
        rewrite Hfr6 by (try apply Nl; unfold p5; lia). unfold del_mem5c, p5. rewrite <- L3', <- (Nat.add_0_r (length m3)), nth_app_at. reflexivity. }
      assert (P6 : nth_error mc (p5 + 1) = Some (cstr_block (zb del_post))).
      { rewrite Osc by (unfold G_xrow, G_xoff, p5 in *; lia). unfold m6'. rewrite mem_upd_other by lia.
        rewrite Hfr6 by (try apply Nl; unfold p5; lia). unfold del_mem5c, p5. rewrite <- L3', nth_app_at. reflexivity. }
      xs. rewrite (free_ok mc p5 _ P5 (cstr_ne _)). xs.
      rewrite (free_ok _ (p5 + 1) (cstr_block (zb del_post))) by (try apply cstr_ne; rewrite mem_upd_other by lia; exact P6). xs.
      rewrite Eln. xs. rewrite (cx_ext (S (S D)) _ _ _ x_vi_drawfix_none).
      unfold del_chars_mem in Hdraw. fold m6' in Hdraw. fold mc in Hdraw. rewrite Hdraw. xs. reflexivity.
    Qed.
  End Del.
End Op.

(* ------------------------------------------------------------------ the translated operators RUN *)
(* a concrete oracle: the allocating callees as the record [oracles] describes them, computed from the memory; reg_put, lbuf_edit and
   vi_drawfix LOG their call: they append the block (tag :: integer arguments ++ the text their pointer argument points to); tags 1 reg_put,
   2 lbuf_edit, 3 vi_drawfix *)
Fixpoint cells_str (blk : list val) : bytes :=
  match blk with VInt z :: r => if z =? 0 then [] else Z.to_N z :: cells_str r | _ => [] end.
Definition rd (m : mem) (v : val) : option bytes :=
  match v with VPtr b o => match nth_error m b with Some blk => Some (cells_str (skipn (Z.to_nat o) blk)) | None => None end | _ => None end.
Definition rd0 (m : mem) (v : val) : bytes := match rd m v with Some s => s | None => [] end.
Definition mem_lines (m : mem) (lb : nat) : list bytes :=
  match nth_error m lb with
  | Some blk => match nth_error blk L_ln, nth_error blk L_ln_n with
                | Some (VPtr bln _), Some (VInt n) => match nth_error m bln with
                                                     | Some lnblk => map (rd0 m) (firstn (Z.to_nat n) lnblk)
                                                     | None => [] end
                | _, _ => [] end
  | None => [] end.
Definition ints (l : list val) : list val := filter (fun v => match v with VInt _ => true | _ => false end) l.
Definition ideal_ext (f : nat) (args : list val) (m : mem) : res (val * mem) :=
  if Nat.eqb f X_uc_sub then match args with [v; VInt b; VInt e] => fresh (sub_b (rd m v) b e) m | _ => Err EShape end
  else if Nat.eqb f X_uc_dup then match args with [v] => fresh (rd0 m v) m | _ => Err EShape end
  else if Nat.eqb f X_uc_cat then match args with [v; w] => fresh (rd0 m v ++ rd0 m w) m | _ => Err EShape end
  else if Nat.eqb f X_lbuf_cp then match args with [VPtr lb _; VInt b; VInt e] => fresh (cp_b (mem_lines m lb) b e) m | _ => Err EShape end
  else if Nat.eqb f X_sbuf_make then fresh [] m
  else if Nat.eqb f X_sbuf_str then match args with [VPtr p _; w] => Ok (VUndef, upd m p (cstr_block (zb (rd0 m (VPtr p 0) ++ rd0 m w)))) | _ => Err EShape end
  else if Nat.eqb f X_sbuf_chr then match args with [VPtr p _; VInt c] => Ok (VUndef, upd m p (cstr_block (zb (rd0 m (VPtr p 0) ++ [Z.to_N c])))) | _ => Err EShape end
  else if Nat.eqb f X_sbuf_mem then match args with [VPtr p _; w; VInt n] => Ok (VUndef, upd m p (cstr_block (zb (rd0 m (VPtr p 0) ++ firstn (Z.to_nat n) (rd0 m w))))) | _ => Err EShape end
  else if Nat.eqb f X_sbuf_buf || Nat.eqb f X_sbuf_done then match args with [v] => Ok (v, m) | _ => Err EShape end
  else if Nat.eqb f X_sbuf_free then match args with [VPtr p _] => Ok (VUndef, upd m p []) | _ => Err EShape end
  else if Nat.eqb f X_reg_put then match args with [c; v; ln] => Ok (VUndef, m ++ [VInt 1 :: c :: ln :: map VInt (zb (rd0 m v))]) | _ => Err EShape end
  else if Nat.eqb f X_lbuf_edit then match args with [_; v; b; e] => Ok (VUndef, m ++ [VInt 2 :: b :: e :: map VInt (zb (rd0 m v))]) | _ => Err EShape end
  else if Nat.eqb f X_vi_drawfix then Ok (VUndef, m ++ [VInt 3 :: args])
  else Err EShape.
(* lines "ab\n", "cde\n", "f\n"; the cursor at (xr, xo); register name 97 *)
Definition lbuf_blk3 (g : nat) : block := repeat (VInt 0) 64 ++ [VPtr (g + 1) 0; VInt 0; VInt 3; VInt 3] ++ repeat (VInt 0) 7.
Definition op_mem (xr xo : Z) : mem :=
  let g := length cglobals in
  upd (upd (upd (upd cglobals G_xrow [VInt xr]) G_xoff [VInt xo]) G_vi_ybuf [VInt 97]) G_bufs (upd gb_bufs BUFS_LB (VPtr g 0))
  ++ [lbuf_blk3 g; [VPtr (g + 2) 0; VPtr (g + 3) 0; VPtr (g + 4) 0]; cstr_block [97; 98; 10]; cstr_block [99; 100; 101; 10]; cstr_block [102; 10]].
Definition op_lines : list bytes := [[97; 98; 10]; [99; 100; 101; 10]; [102; 10]]%N.
(* the result: the value, xrow, xoff and the logged calls (the blocks that start with a tag and were appended) *)
Definition op_show (r : res (val * mem)) : option (val * option block * option block * list block) :=
  match r with
  | Ok (v, m) => Some (v, nth_error m G_xrow, nth_error m G_xoff,
                       filter (fun b => match b with VInt 1 :: _ | VInt 2 :: _ | VInt 3 :: _ => Nat.ltb 2 (length b) | _ => false end) (skipn (length cglobals + 5) m))
  | Err _ => None end.
Lemma op_mem_ed xr xo : ed_at (op_mem xr xo) (length cglobals) (length cglobals + 1) [length cglobals + 2; length cglobals + 3; length cglobals + 4]%nat op_lines.
Proof.
  constructor.
  - eexists. split; [vm_compute; reflexivity|reflexivity].
  - constructor.
    + eexists. split; [vm_compute; reflexivity|]. repeat split; reflexivity.
    + eexists. split; [vm_compute; reflexivity|]. split; [cbn; lia|]. intros i Hi. cbn [length op_lines] in Hi.
      destruct i as [|[|[|i]]]; try reflexivity. lia.
    + reflexivity.
    + intros i Hi. cbn [length op_lines] in Hi. destruct i as [|[|[|i]]]; try (vm_compute; reflexivity). lia.
    + vm_compute. repeat constructor; cbn; intuition discriminate.
    + repeat constructor; cbn; lia.
  - split; [cbn; lia|]. repeat constructor; cbn; lia.
Qed.
(* dw-like character-wise delete (0,1)..(1,2): reg_put(97, "b\ncd", 0); lbuf_edit(xb, "ae\n", 0, 2); cursor (0,1);
   vi_drawfix(0, 1, 1, 0).  dd-like line-wise delete of rows 1..2: text "cde\nf\n", flag 1; lbuf_edit(xb, NULL, 1, 3); vi_drawfix(1, 2, 0, 0).
   yank: character-wise moves the cursor to the start, a line-wise one that starts on the cursor row returns 0 *)
Lemma op_run_examples :
  let run f args xr xo := op_show (callx ideal_ext cprog 50 8 f (map VInt args) (op_mem xr xo)) in
  run F_vi_delete [0; 1; 1; 2; 0] 1 2 =
    Some (VInt 16, Some [VInt 0], Some [VInt 1],
          [map VInt [1; 97; 0; 98; 10; 99; 100]; map VInt [2; 0; 2; 97; 101; 10]; map VInt [3; 0; 1; 1; 0]]) /\
  run F_vi_delete [1; 0; 2; 0; 1] 1 0 =
    Some (VInt 16, Some [VInt 1], Some [VInt 0],
          [map VInt [1; 97; 1; 99; 100; 101; 10; 102; 10]; map VInt [2; 1; 3]; map VInt [3; 1; 2; 0; 0]]) /\
  run F_vi_yank [0; 1; 1; 2; 0] 1 2 = Some (VInt 1, Some [VInt 0], Some [VInt 1], [map VInt [1; 97; 0; 98; 10; 99; 100]]) /\
  run F_vi_yank [1; 0; 2; 0; 1] 1 2 = Some (VInt 0, Some [VInt 1], Some [VInt 2], [map VInt [1; 97; 1; 99; 100; 101; 10; 102; 10]]) /\
  run F_vi_yank [1; 0; 2; 0; 1] 2 1 = Some (VInt 1, Some [VInt 1], Some [VInt 1], [map VInt [1; 97; 1; 99; 100; 101; 10; 102; 10]]).
Proof. vm_compute. repeat split; reflexivity. Qed.

(* the cursor in the memory handed to vi_drawfix *)
Lemma del_lines_mem_cur r1 (m2 m6 : mem) lines' x0 o0 : cell_at m6 G_xrow x0 -> cell_at m6 G_xoff o0 ->
  (G_xrow < length m2)%nat -> (G_xoff < length m2)%nat -> (length m2 + 1 < length m6)%nat ->
  cell_at (del_lines_mem r1 m2 m6 lines') G_xrow (del_row r1 (Z.of_nat (length lines'))) /\
  cell_at (del_lines_mem r1 m2 m6 lines') G_xoff (lbuf_indents (map chop lines') r1).
Proof.
  intros Hx Ho L1 L2 L3. unfold del_lines_mem.
  destruct (set_cur_cells O (fun _ => False) (fun _ => False) m6 r1 (lbuf_indents (map chop lines') r1) (Z.of_nat (length lines')) x0 o0 Hx Ho) as (A & B & C & _).
  unfold cell_at in *. rewrite !mem_upd_other by (rewrite ?upd_length; rewrite ?C; lia). split; assumption.
Qed.
Lemma del_chars_mem_cur r1 o1 (m2 m6 : mem) lines' x0 o0 : cell_at m6 G_xrow x0 -> cell_at m6 G_xoff o0 ->
  (G_xrow < length m2)%nat -> (G_xoff < length m2)%nat -> (length m2 + 2 < length m6)%nat ->
  cell_at (del_chars_mem r1 o1 m2 m6 lines') G_xrow (del_row r1 (Z.of_nat (length lines'))) /\
  cell_at (del_chars_mem r1 o1 m2 m6 lines') G_xoff o1.
Proof.
  intros Hx Ho L1 L2 L3. unfold del_chars_mem.
  assert (Hx' : cell_at (upd m6 (length m2 + 2) []) G_xrow x0) by (unfold cell_at in *; rewrite mem_upd_other by lia; exact Hx).
  assert (Ho' : cell_at (upd m6 (length m2 + 2) []) G_xoff o0) by (unfold cell_at in *; rewrite mem_upd_other by lia; exact Ho).
  destruct (set_cur_cells O (fun _ => False) (fun _ => False) _ r1 o1 (Z.of_nat (length lines')) x0 o0 Hx' Ho') as (A & B & C & _).
  assert (C' : length (upd m6 (length m2 + 2) []) = length m6) by (apply upd_length; lia).
  unfold cell_at in *. rewrite !mem_upd_other by (rewrite ?upd_length; rewrite ?C, ?C'; lia). split; assumption.
Qed.
