(* TrWrite.v -- the WRITE path of /repo/lbuf.c as C TEXT: write_fully and lbuf_wr (properties C01, C03).

   tools/c2clite.py turns the two functions into the CLite terms cf_lbuf_write_fully / cf_lbuf_wr of GenCFuncs.v.
   write(2) and ftruncate(2) are not C text of /repo: they are calls to the untranslated indices X_write / X_ftruncate,
   answered by an ORACLE (CLiteExt.callx).  The oracle used here is the kernel of the model IoDefs.v:

     block ks of the memory holds the FAULT SCHEDULE still to come (one cell per outcome, IoDefs.outcome: a full
              write, an error, a short count k), consumed one outcome per write(2) call, in order; when it is
              exhausted every further write succeeds in full -- exactly IoDefs.write_fully's reading of a schedule;
     block kl holds the LOG of the system calls made so far: for each write(2) its fd, the n cells the pointer
              pointed to (read CHECKED inside their block; a cell that is not a byte value 0..255 -- e.g. an
              indeterminate cell of the batch buffer -- is an error), the count asked for and the result; for
              ftruncate(2) its fd and length.

   The theorems are stated for EVERY oracle `ext` that answers X_write / X_ftruncate as that kernel does (the
   concrete oracle `sys ks kl` is one), EVERY schedule, every buffer in memory, every range:

     tr_write_fully   write_fully(fd, buf, sz) makes exactly the write(2) calls of wf_run (the model's
                      IoDefs.write_fully with the calls made visible: wf_run_model), returns sz if no consumed
                      outcome was an error and -1 otherwise, leaves the unused schedule;
     tr_lbuf_wr       lbuf_wr(lb, fd, beg, end) hands write_fully exactly the payloads IoDefs.lbuf_wr computes
                      (outp: batches of at most 4096 bytes, or single long lines -- C01_batches), in order, stops at
                      the first failing one, returns 0 iff none failed, and then -- only then -- calls
                      ftruncate(fd, wsz) with the model's byte count.  Returning a value means every memcpy stayed
                      inside the 4096-cell batch block and every cell handed to write was an initialised byte. *)
From Coq Require Import List ZArith NArith Bool Lia.
From NV Require Import Bytes CLite CLiteProps GenCFuncs CLiteTac CLiteExt TrLbufBase.
From NV Require IoDefs.
Import ListNotations.
Local Open Scope Z_scope.

Notation sched := (list IoDefs.outcome).

(* ------------------------------------------------------------------ lists *)
Lemma nth_error_ext_w {A} (l1 l2 : list A) : (forall i, nth_error l1 i = nth_error l2 i) -> l1 = l2.
Proof.
  revert l2; induction l1 as [|a l1 IH]; intros [|b l2] H; try reflexivity.
  - specialize (H O). discriminate.
  - specialize (H O). discriminate.
  - pose proof (H O) as H0. cbn in H0. injection H0 as ->. f_equal. apply IH. intro i. exact (H (S i)).
Qed.
Lemma nth_error_upd_if {A} (l : list A) n k x : (n < length l)%nat ->
  nth_error (upd l n x) k = if Nat.eqb k n then Some x else nth_error l k.
Proof.
  intro H. destruct (Nat.eqb_spec k n) as [->|Hne]; [apply nth_error_upd_same; exact H|apply nth_error_upd_other; assumption].
Qed.
Lemma firstn_skipn_swap {A} (l : list A) n k : firstn n (skipn k l) = skipn k (firstn (k + n) l).
Proof.
  revert l; induction k as [|k IH]; intro l; [reflexivity|]. destruct l as [|a l]; [rewrite !firstn_nil; reflexivity|].
  cbn [skipn plus firstn]. apply IH.
Qed.

(* ------------------------------------------------------------------ the kernel: schedule and log as cells *)
Inductive event := EvWrite (fd : Z) (p : bytes) (r : Z) | EvTrunc (fd sz : Z).

Definition enc_out (o : IoDefs.outcome) : val :=
  match o with IoDefs.OOk => VInt (-2) | IoDefs.OErr => VInt (-1) | IoDefs.OShort k => VInt (Z.of_nat k) end.
Definition enc_sch (s : sched) : block := map enc_out s.
Definition enc_ev (e : event) : list val :=
  match e with
  | EvWrite fd p r => VInt 1 :: VInt fd :: VInt (Z.of_nat (length p)) :: VInt r :: map VInt (zb p)
  | EvTrunc fd sz => [VInt 2; VInt fd; VInt sz]
  end.
Definition enc_log (lg : list event) : block := flat_map enc_ev lg.

Definition is_byte (v : val) : bool := match v with VInt z => (0 <=? z) && (z <? 256) | _ => false end.
(* the result of write(fd, p, n) under the schedule whose cells are sblk *)
Definition wr_result (sblk : block) (n : Z) : Z :=
  match sblk with
  | VInt z :: _ => if z =? -1 then -1 else if z <? 0 then n else Z.min z n
  | _ => n
  end.
Definition sys_write (ks kl : nat) (args : list val) (m : mem) : res (val * mem) :=
  match args with
  | [VInt fd; VPtr b o; VInt n] =>
      match nth_error m ks, nth_error m kl, nth_error m b with
      | Some sblk, Some lblk, Some blk =>
          if (n <? 0) || (o <? 0) then Err EOob else
          do cells <- read_cells blk (Z.to_nat o) (Z.to_nat n);
          if forallb is_byte cells then
            let r := wr_result sblk n in
            Ok (VInt r, upd (upd m ks (tl sblk)) kl (lblk ++ VInt 1 :: VInt fd :: VInt n :: VInt r :: cells))
          else Err EUndef
      | _, _, _ => Err EOob
      end
  | _ => Err EShape
  end.
Definition sys_trunc (kl : nat) (args : list val) (m : mem) : res (val * mem) :=
  match args with
  | [VInt fd; VInt sz] =>
      match nth_error m kl with
      | Some lblk => Ok (VInt 0, upd m kl (lblk ++ [VInt 2; VInt fd; VInt sz]))
      | None => Err EOob
      end
  | _ => Err EShape
  end.
(* the oracle: write and ftruncate are the kernel, any other untranslated function is still an error *)
Definition sys (ks kl : nat) : nat -> list val -> mem -> res (val * mem) :=
  fun f args m => if Nat.eqb f X_write then sys_write ks kl args m
                  else if Nat.eqb f X_ftruncate then sys_trunc kl args m else Err EShape.

(* the same result read off the schedule itself *)
Definition wr_res (s : sched) (n : Z) : Z :=
  match s with
  | [] | IoDefs.OOk :: _ => n
  | IoDefs.OErr :: _ => -1
  | IoDefs.OShort k :: _ => Z.min (Z.of_nat k) n
  end.
Lemma wr_result_enc s n : wr_result (enc_sch s) n = wr_res s n.
Proof.
  destruct s as [|[| |k] s]; try reflexivity. cbn [enc_sch map enc_out wr_result wr_res].
  destruct (Z.eqb_spec (Z.of_nat k) (-1)); [lia|]. destruct (Z.ltb_spec (Z.of_nat k) 0); [lia|]. reflexivity.
Qed.
Lemma enc_sch_tl s : tl (enc_sch s) = enc_sch (tl s).
Proof. destruct s; reflexivity. Qed.
Lemma enc_log_app a b : enc_log (a ++ b) = enc_log a ++ enc_log b.
Proof. apply flat_map_app. Qed.

(* bytes p stand in the block from cell o on *)
Definition bytes_in (blk : block) (o : nat) (p : bytes) : Prop :=
  firstn (length p) (skipn o blk) = map VInt (zb p) /\ (o + length p <= length blk)%nat.
Lemma bytes_in_skip blk o p k : bytes_in blk o p -> (k <= length p)%nat -> bytes_in blk (o + k) (skipn k p).
Proof.
  intros [H L] Hk. split; [|rewrite skipn_length; lia].
  rewrite skipn_length. rewrite <- skipn_skipn. rewrite firstn_skipn_swap.
  replace (k + (length p - k))%nat with (length p) by lia. rewrite H. unfold zb. rewrite !skipn_map. reflexivity.
Qed.
Lemma bytes_in_cstr (s : bytes) : bytes_in (cstr_block (zb s)) 0 s.
Proof.
  split.
  - cbn [skipn]. unfold cstr_block. replace (length s) with (length (map VInt (zb s))) at 1 by (unfold zb; rewrite !map_length; reflexivity).
    apply firstn_app_exact.
  - unfold cstr_block, zb. rewrite app_length, !map_length. cbn. lia.
Qed.
Lemma forallb_is_byte (p : bytes) : bytes_lt256 p -> forallb is_byte (map VInt (zb p)) = true.
Proof.
  intro H. apply forallb_forall. intros v Hv. unfold zb in Hv. rewrite map_map in Hv. apply in_map_iff in Hv.
  destruct Hv as (c & <- & Hc). unfold bytes_lt256 in H. rewrite Forall_forall in H. specialize (H c Hc).
  cbn [is_byte]. destruct (Z.leb_spec 0 (Z.of_N c)); [|lia]. destruct (Z.ltb_spec (Z.of_N c) 256); [reflexivity|lia].
Qed.

Lemma chk_I64 z : -9223372036854775808 <= z <= 9223372036854775807 -> chk I64 z = Ok z.
Proof.
  intro H. unfold chk, in_range, ity_min, ity_max, ity_signed, ity_bits.
  change (- 2 ^ (64 - 1)) with (-9223372036854775808). change (2 ^ (64 - 1) - 1) with 9223372036854775807.
  destruct (Z.leb_spec (-9223372036854775808) z); [|lia]. destruct (Z.leb_spec z 9223372036854775807); [|lia]. reflexivity.
Qed.
Lemma x_write_none : nth_error cprog X_write = None.
Proof. vm_compute. reflexivity. Qed.
Lemma x_ftruncate_none : nth_error cprog X_ftruncate = None.
Proof. vm_compute. reflexivity. Qed.
Ltac enterx f cf :=
  rewrite callx_S; cbn [nth_error cprog f cf fn_nparams fn_nlocals fn_body length Nat.eqb Nat.sub repeat app].

(* ------------------------------------------------------------------ the calls write_fully makes, under a schedule *)
(* IoDefs.write_fully with the write(2) calls made visible: the events, no call failed, the unused schedule *)
Fixpoint wf_run (fd : Z) (p : bytes) (s : sched) {struct s} : list event * bool * sched :=
  match p with
  | [] => ([], true, s)
  | _ :: _ =>
    match s with
    | [] => ([EvWrite fd p (Z.of_nat (length p))], true, [])
    | IoDefs.OOk :: s' => ([EvWrite fd p (Z.of_nat (length p))], true, s')
    | IoDefs.OErr :: s' => ([EvWrite fd p (-1)], false, s')
    | IoDefs.OShort k :: s' =>
      let k' := Nat.min k (length p) in
      let '(ev, ok, r) := wf_run fd (skipn k' p) s' in (EvWrite fd p (Z.of_nat k') :: ev, ok, r)
    end
  end.
(* the bytes a call got into the file *)
Definition accepted (e : event) : bytes := match e with EvWrite _ p r => firstn (Z.to_nat r) p | EvTrunc _ _ => [] end.
Definition reached (ev : list event) : bytes := flat_map accepted ev.

Lemma wf_run_model fd p s :
  let '(ev, ok, r) := wf_run fd p s in IoDefs.write_fully p s = (reached ev, ok, r).
Proof.
  revert p; induction s as [|o s IH]; intro p.
  - destruct p as [|c p]; [reflexivity|]. cbn [wf_run IoDefs.write_fully reached flat_map accepted].
    rewrite Nat2Z.id, firstn_all, app_nil_r. reflexivity.
  - destruct p as [|c p]; [reflexivity|]. destruct o as [| |k]; cbn [wf_run IoDefs.write_fully].
    + cbn [reached flat_map accepted]. rewrite Nat2Z.id, firstn_all, app_nil_r. reflexivity.
    + reflexivity.
    + specialize (IH (skipn (Nat.min k (length (c :: p))) (c :: p))).
      destruct (wf_run fd (skipn (Nat.min k (length (c :: p))) (c :: p)) s) as [[ev ok] r]. rewrite IH.
      cbn [reached flat_map accepted]. rewrite Nat2Z.id. reflexivity.
Qed.
Lemma wf_run_sched_le fd p s : (length (snd (wf_run fd p s)) <= length s)%nat.
Proof.
  revert p; induction s as [|o s IH]; intro p; (destruct p as [|c p]; [cbn; lia|]).
  - cbn; lia.
  - destruct o as [| |k]; cbn [wf_run]; try (cbn; lia).
    specialize (IH (skipn (Nat.min k (length (c :: p))) (c :: p))).
    destruct (wf_run fd (skipn (Nat.min k (length (c :: p))) (c :: p)) s) as [[ev ok] r]. cbn [snd length] in *. lia.
Qed.

Section Write.
  Variable ext : nat -> list val -> mem -> res (val * mem).
  Variables ks kl : nat.
  Hypothesis Hkskl : ks <> kl.
  Hypothesis ext_write : forall args m, ext X_write args m = sys_write ks kl args m.
  Hypothesis ext_trunc : forall args m, ext X_ftruncate args m = sys_trunc kl args m.

  Definition world_at (m : mem) (s : sched) (lg : list event) : Prop :=
    nth_error m ks = Some (enc_sch s) /\ nth_error m kl = Some (enc_log lg).
  Definition set_world (m : mem) (s : sched) (lg : list event) : mem := upd (upd m ks (enc_sch s)) kl (enc_log lg).

  Lemma set_world_nth m s lg k : (ks < length m)%nat -> (kl < length m)%nat ->
    nth_error (set_world m s lg) k =
    if Nat.eqb k kl then Some (enc_log lg) else if Nat.eqb k ks then Some (enc_sch s) else nth_error m k.
  Proof.
    intros H1 H2. unfold set_world. rewrite nth_error_upd_if by (rewrite upd_length by exact H1; exact H2).
    destruct (Nat.eqb k kl); [reflexivity|]. apply nth_error_upd_if. exact H1.
  Qed.
  Lemma set_world_length m s lg : (ks < length m)%nat -> (kl < length m)%nat -> length (set_world m s lg) = length m.
  Proof. intros H1 H2. unfold set_world. rewrite upd_length by (rewrite upd_length by exact H1; exact H2). apply upd_length. exact H1. Qed.
  Lemma world_lt m s lg : world_at m s lg -> (ks < length m)%nat /\ (kl < length m)%nat.
  Proof. intros [H1 H2]. split; apply nth_error_Some; congruence. Qed.
  Lemma set_world_at m s lg : (ks < length m)%nat -> (kl < length m)%nat -> world_at (set_world m s lg) s lg.
  Proof.
    intros H1 H2. unfold world_at. rewrite !set_world_nth by assumption. rewrite !Nat.eqb_refl.
    destruct (Nat.eqb_spec ks kl); [contradiction|]. split; reflexivity.
  Qed.
  Lemma set_world_self m s lg : world_at m s lg -> set_world m s lg = m.
  Proof.
    intros [H1 H2]. unfold set_world. rewrite (upd_self m ks _ H1). apply upd_self. exact H2.
  Qed.
  Lemma set_world_twice m s lg s' lg' : (ks < length m)%nat -> (kl < length m)%nat ->
    set_world (set_world m s lg) s' lg' = set_world m s' lg'.
  Proof.
    intros H1 H2. apply nth_error_ext_w. intro k.
    rewrite !set_world_nth; try assumption; try (rewrite set_world_length by assumption; assumption).
    destruct (Nat.eqb k kl), (Nat.eqb k ks); reflexivity.
  Qed.
  Lemma set_world_other m s lg k : (ks < length m)%nat -> (kl < length m)%nat -> k <> ks -> k <> kl ->
    nth_error (set_world m s lg) k = nth_error m k.
  Proof.
    intros H1 H2 N1 N2. rewrite set_world_nth by assumption.
    destruct (Nat.eqb_spec k kl); [contradiction|]. destruct (Nat.eqb_spec k ks); [contradiction|]. reflexivity.
  Qed.

  (* one write(2): the n cells at the pointer are logged, one outcome is consumed *)
  Lemma sys_write_ok m s lg fd b o (blk : block) q d fuel :
    world_at m s lg -> nth_error m b = Some blk -> 0 <= o -> bytes_in blk (Z.to_nat o) q -> bytes_lt256 q ->
    callx ext cprog fuel (S d) X_write [VInt fd; VPtr b o; VInt (Z.of_nat (length q))] m
    = Ok (VInt (wr_res s (Z.of_nat (length q))),
          set_world m (tl s) (lg ++ [EvWrite fd q (wr_res s (Z.of_nat (length q)))])).
  Proof.
    intros [Hs Hl] Hb Ho [Hq Hlen] H256. rewrite callx_S, x_write_none, ext_write. unfold sys_write.
    rewrite Hs, Hl, Hb. destruct (Z.ltb_spec (Z.of_nat (length q)) 0); [lia|]. destruct (Z.ltb_spec o 0); [lia|]. cbn [orb].
    rewrite Nat2Z.id. rewrite read_cells_ok by exact Hlen. cbn [bind]. rewrite Hq, forallb_is_byte by exact H256.
    rewrite wr_result_enc, enc_sch_tl. unfold set_world. rewrite enc_log_app. cbn [enc_log flat_map enc_ev]. rewrite app_nil_r.
    reflexivity.
  Qed.

  (* ---------------------------------------------------------------- write_fully *)
  Definition wf_loop : stmt := match fn_body cf_lbuf_write_fully with SSeq _ (SSeq w _) => w | _ => SSkip end.

  Definition wf_st (fd : Z) (b : nat) (o : Z) (sz nw nc : Z) (m : mem) : state :=
    mkst [VInt fd; VPtr b o; VInt sz; VInt nw; VInt nc] m.

  (* the loop is left at once when everything is written *)
  Lemma wf_exit fd b o sz nc m d fuel fuel' : (1 <= fuel')%nat ->
    exec (callx ext cprog fuel (S d)) fuel' wf_loop (wf_st fd b o sz sz nc m) = ONormal (wf_st fd b o sz sz nc m).
  Proof.
    intro Hf. destruct fuel' as [|fuel']; [lia|]. unfold wf_loop, wf_st; cbn [fn_body cf_lbuf_write_fully]. rewrite exec_while. xstep.
    rewrite Z.ltb_irrefl. xstep. reflexivity.
  Qed.
  (* one iteration: one write(2) of everything that is left; a negative result leaves the loop *)
  Lemma wf_iter fd b o (blk : block) (p : bytes) d fuel s (nw : nat) nc lg m fuel' :
    0 <= o -> bytes_in blk (Z.to_nat o) p -> bytes_lt256 p -> Z.of_nat (length p) <= 4611686018427387904 ->
    world_at m s lg -> nth_error m b = Some blk -> (nw < length p)%nat ->
    let q := skipn nw p in
    let r := wr_res s (Z.of_nat (length q)) in
    let m' := set_world m (tl s) (lg ++ [EvWrite fd q r]) in
    exec (callx ext cprog fuel (S d)) (S fuel') wf_loop (wf_st fd b o (Z.of_nat (length p)) (Z.of_nat nw) nc m)
    = if 0 <=? r then exec (callx ext cprog fuel (S d)) fuel' wf_loop (wf_st fd b o (Z.of_nat (length p)) (Z.of_nat nw + r) r m')
      else ONormal (wf_st fd b o (Z.of_nat (length p)) (Z.of_nat nw) r m').
  Proof.
    intros Ho Hp H256 Hsz Hw Hb Hl q r m'.
    assert (Hql : length q = (length p - nw)%nat) by (unfold q; apply skipn_length).
    assert (Hr : r <= Z.of_nat (length q)) by (unfold r; destruct s as [|[| |k] s]; cbn [wr_res]; lia).
    unfold wf_loop, wf_st; cbn [fn_body cf_lbuf_write_fully]. rewrite exec_while. xstep.
    destruct (Z.ltb_spec (Z.of_nat nw) (Z.of_nat (length p))) as [_|]; [|lia]. xstep.
    rewrite chk_I64 by lia. xstep. rewrite wrap_U64_id by lia.
    pose proof (bytes_in_skip _ _ _ nw Hp ltac:(lia)) as Hq. fold q in Hq.
    replace (Z.of_nat (length p) - Z.of_nat nw) with (Z.of_nat (length q)) by lia.
    replace (Z.to_nat o + nw)%nat with (Z.to_nat (o + 1 * Z.of_nat nw)) in Hq by lia.
    rewrite (sys_write_ok m s lg fd b (o + 1 * Z.of_nat nw) blk q d fuel Hw Hb ltac:(lia) Hq)
      by (apply Forall_skipn'; exact H256).
    xstep. fold r. fold m'. change (wrap I64 0) with 0.
    destruct (Z.leb_spec 0 r) as [H0|H0]; xstep; [|reflexivity].
    rewrite chk_I64 by lia. xstep. reflexivity.
  Qed.

  Lemma wf_loop_ok fd b o (blk : block) (p : bytes) d fuel :
    0 <= o -> bytes_in blk (Z.to_nat o) p -> bytes_lt256 p -> Z.of_nat (length p) <= 4611686018427387904 -> b <> ks -> b <> kl ->
    forall s (nw : nat) nc lg m fuel', world_at m s lg -> nth_error m b = Some blk -> (nw <= length p)%nat -> 0 <= nc ->
    (length s + 2 <= fuel')%nat ->
    let '(ev, ok, r) := wf_run fd (skipn nw p) s in
    exists nw' nc',
      exec (callx ext cprog fuel (S d)) fuel' wf_loop (wf_st fd b o (Z.of_nat (length p)) (Z.of_nat nw) nc m)
      = ONormal (wf_st fd b o (Z.of_nat (length p)) nw' nc' (set_world m r (lg ++ ev)))
      /\ (if ok then nw' = Z.of_nat (length p) /\ 0 <= nc' else nc' = -1).
  Proof.
    intros Ho Hp H256 Hsz Nks Nkl.
    assert (Done : forall s nc lg m fuel', world_at m s lg -> 0 <= nc -> (1 <= fuel')%nat ->
      exists nw' nc',
      exec (callx ext cprog fuel (S d)) fuel' wf_loop (wf_st fd b o (Z.of_nat (length p)) (Z.of_nat (length p)) nc m)
      = ONormal (wf_st fd b o (Z.of_nat (length p)) nw' nc' (set_world m s (lg ++ [])))
      /\ (nw' = Z.of_nat (length p) /\ 0 <= nc')).
    { intros s nc lg m fuel' Hw Hnc Hf. exists (Z.of_nat (length p)), nc. rewrite wf_exit by exact Hf.
      rewrite app_nil_r, set_world_self by exact Hw. split; [reflexivity|split; [reflexivity|exact Hnc]]. }
    induction s as [|oc s IH]; intros nw nc lg m fuel' Hw Hb Hnw Hnc Hf;
      (destruct (skipn nw p) as [|c q] eqn:E;
       [assert (nw = length p) as -> by (apply (f_equal (@length N)) in E; rewrite skipn_length in E; cbn in E; lia);
        cbn [wf_run]; apply Done; [exact Hw|exact Hnc|lia]|]);
      assert (Hl : (nw < length p)%nat) by (apply (f_equal (@length N)) in E; rewrite skipn_length in E; cbn in E; lia);
      assert (Hql : length (c :: q) = (length p - nw)%nat) by (rewrite <- E; apply skipn_length);
      (destruct fuel' as [|fuel']; [lia|]);
      rewrite (wf_iter fd b o blk p d fuel _ nw nc lg m fuel' Ho Hp H256 Hsz Hw Hb Hl); rewrite E;
      destruct (world_lt _ _ _ Hw) as [L1 L2].
    - (* schedule exhausted: one call, which succeeds in full *)
      cbn [wf_run wr_res tl]. destruct (Z.leb_spec 0 (Z.of_nat (length (c :: q)))); [|lia].
      replace (Z.of_nat nw + Z.of_nat (length (c :: q))) with (Z.of_nat (length p)) by lia.
      destruct (Done [] (Z.of_nat (length (c :: q))) (lg ++ [EvWrite fd (c :: q) (Z.of_nat (length (c :: q)))])
                     (set_world m [] (lg ++ [EvWrite fd (c :: q) (Z.of_nat (length (c :: q)))])) fuel') as (nw' & nc' & X & Y);
        [apply set_world_at; assumption|lia|lia|].
      exists nw', nc'. rewrite X. rewrite set_world_twice, app_nil_r by assumption. split; [reflexivity|exact Y].
    - destruct oc as [| |k]; cbn [wf_run wr_res tl].
      + (* a full write *)
        destruct (Z.leb_spec 0 (Z.of_nat (length (c :: q)))); [|lia].
        replace (Z.of_nat nw + Z.of_nat (length (c :: q))) with (Z.of_nat (length p)) by lia.
        destruct (Done s (Z.of_nat (length (c :: q))) (lg ++ [EvWrite fd (c :: q) (Z.of_nat (length (c :: q)))])
                       (set_world m s (lg ++ [EvWrite fd (c :: q) (Z.of_nat (length (c :: q)))])) fuel') as (nw' & nc' & X & Y);
          [apply set_world_at; assumption|lia|cbn [length] in Hf; lia|].
        exists nw', nc'. rewrite X. rewrite set_world_twice, app_nil_r by assumption. split; [reflexivity|exact Y].
      + (* an error: the loop is left with nc < 0 *)
        cbn [Z.leb Z.compare]. exists (Z.of_nat nw), (-1). split; reflexivity.
      + (* a short count: the rest is retried *)
        set (k' := Nat.min k (length (c :: q))).
        replace (Z.min (Z.of_nat k) (Z.of_nat (length (c :: q)))) with (Z.of_nat k') by (unfold k'; lia).
        destruct (Z.leb_spec 0 (Z.of_nat k')); [|lia].
        replace (Z.of_nat nw + Z.of_nat k') with (Z.of_nat (nw + k')) by lia.
        set (m1 := set_world m s (lg ++ [EvWrite fd (c :: q) (Z.of_nat k')])).
        assert (Hw1 : world_at m1 s (lg ++ [EvWrite fd (c :: q) (Z.of_nat k')])) by (apply set_world_at; assumption).
        assert (Hb1 : nth_error m1 b = Some blk) by (unfold m1; rewrite set_world_other by assumption; exact Hb).
        specialize (IH (nw + k')%nat (Z.of_nat k') _ m1 fuel' Hw1 Hb1 ltac:(unfold k'; lia) ltac:(lia) ltac:(cbn [length] in Hf; lia)).
        rewrite <- skipn_skipn, E in IH. fold k' in IH.
        destruct (wf_run fd (skipn k' (c :: q)) s) as [[ev ok] r].
        destruct IH as (nw' & nc' & X & Y). exists nw', nc'. rewrite X. unfold m1.
        rewrite set_world_twice by assumption. rewrite <- app_assoc. split; [reflexivity|exact Y].
  Qed.

  (* write_fully(fd, buf, sz) on the C text, under any schedule *)
  Theorem tr_write_fully fd b o (blk : block) (p : bytes) s lg m d fuel :
    world_at m s lg -> nth_error m b = Some blk -> b <> ks -> b <> kl ->
    0 <= o -> bytes_in blk (Z.to_nat o) p -> bytes_lt256 p -> Z.of_nat (length p) <= 4611686018427387904 ->
    (length s + 2 <= fuel)%nat ->
    let '(ev, ok, r) := wf_run fd p s in
    callx ext cprog fuel (S (S d)) F_lbuf_write_fully [VInt fd; VPtr b o; VInt (Z.of_nat (length p))] m
    = Ok (VInt (if ok then Z.of_nat (length p) else -1), set_world m r (lg ++ ev)).
  Proof.
    intros Hw Hb Nks Nkl Ho Hp H256 Hsz Hf.
    pose proof (wf_loop_ok fd b o blk p d fuel Ho Hp H256 Hsz Nks Nkl s 0%nat 0 lg m fuel Hw Hb ltac:(lia) ltac:(lia) Hf) as L.
    cbn [skipn] in L. destruct (wf_run fd p s) as [[ev ok] r]. destruct L as (nw' & nc' & X & Y).
    enterx F_lbuf_write_fully cf_lbuf_write_fully. xstep.
    change (wrap I64 0) with 0. unfold wf_loop, wf_st in X; cbn [fn_body cf_lbuf_write_fully] in X. change (Z.of_nat 0) with 0 in X.
    rewrite X. xstep. change (wrap I64 0) with 0.
    destruct ok.
    - destruct Y as [-> Y]. destruct (Z.leb_spec 0 nc'); [|lia]. xstep. reflexivity.
    - subst nc'. cbn [Z.leb Z.compare]. xstep. reflexivity.
  Qed.
End Write.
