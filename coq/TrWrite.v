(* TrWrite.v -- the WRITE path of /repo/lbuf.c as C TEXT: write_fully and lbuf_wr (properties C01, C03).

   tools/c2clite.py turns the two functions into the CLite terms cf_lbuf_write_fully / cf_lbuf_wr of GenCFuncs.v.
   write(2) and ftruncate(2) are not C text of /repo: they are calls to the untranslated indices X_write / X_ftruncate,
   answered by an ORACLE (CLiteExt.callx).  The oracle used here is the kernel of the model IoDefs.v:

     block ks of the memory holds the FAULT SCHEDULE still to come (one cell per outcome, IoDefs.outcome: a full
              write, an error, a short count k), consumed one outcome per write(2) call, in order; when it is
              exhausted every further write succeeds in full -- exactly IoDefs.write_fully's reading of a schedule;
     block kl holds the LOG of the system calls made so far: for each write(2) its fd, the n cells the pointer
              pointed to (read CHECKED inside their block; a cell that is not a byte value 0..255 -- e.g. an
              indeterminate cell of the batch buffer -- is an error), the count asked for and the result; for
              ftruncate(2) its fd and length.

   The theorems are stated for EVERY oracle `ext` that answers X_write / X_ftruncate as that kernel does (the
   concrete oracle `sys ks kl` is one), EVERY schedule, every buffer in memory, every range:

     tr_write_fully   write_fully(fd, buf, sz) makes exactly the write(2) calls of wf_run (the model's
                      IoDefs.write_fully with the calls made visible: wf_run_model), returns sz if no consumed
                      outcome was an error and -1 otherwise, leaves the unused schedule;
     tr_lbuf_wr       lbuf_wr(lb, fd, beg, end) hands write_fully exactly the payloads IoDefs.lbuf_wr computes
                      (outp: batches of at most 4096 bytes, or single long lines -- C01_batches), in order, stops at
                      the first failing one, returns 0 iff none failed, and then -- only then -- calls
                      ftruncate(fd, wsz) with the model's byte count.  Returning a value means every memcpy stayed
                      inside the 4096-cell batch block and every cell handed to write was an initialised byte. *)
From Coq Require Import List ZArith NArith Bool Lia.
From NV Require Import Bytes CLite CLiteProps GenCFuncs CLiteTac CLiteExt TrLbufBase.
From NV Require IoDefs.
Import ListNotations.
Local Open Scope Z_scope.

Notation sched := (list IoDefs.outcome).

(* ------------------------------------------------------------------ lists *)
Lemma nth_error_ext_w {A} (l1 l2 : list A) : (forall i, nth_error l1 i = nth_error l2 i) -> l1 = l2.
Proof.
  revert l2; induction l1 as [|a l1 IH]; intros [|b l2] H; try reflexivity.
  - specialize (H O). discriminate.
  - specialize (H O). discriminate.
  - pose proof (H O) as H0. cbn in H0. injection H0 as ->. f_equal. apply IH. intro i. exact (H (S i)).
Qed.
Lemma nth_error_upd_if {A} (l : list A) n k x : (n < length l)%nat ->
  nth_error (upd l n x) k = if Nat.eqb k n then Some x else nth_error l k.
Proof.
  intro H. destruct (Nat.eqb_spec k n) as [->|Hne]; [apply nth_error_upd_same; exact H|apply nth_error_upd_other; assumption].
Qed.
Lemma firstn_skipn_swap {A} (l : list A) n k : firstn n (skipn k l) = skipn k (firstn (k + n) l).
Proof.
  revert l; induction k as [|k IH]; intro l; [reflexivity|]. destruct l as [|a l]; [rewrite !firstn_nil; reflexivity|].
  cbn [skipn plus firstn]. apply IH.
Qed.

(* ------------------------------------------------------------------ the kernel: schedule and log as cells *)
Inductive event := EvWrite (fd : Z) (p : bytes) (r : Z) | EvTrunc (fd sz : Z)
                 | EvOpen (r : Z) | EvClose (fd r : Z).      (* open / close of the target: coq/TrSave.v *)

Definition enc_out (o : IoDefs.outcome) : val :=
  match o with IoDefs.OOk => VInt (-2) | IoDefs.OErr => VInt (-1) | IoDefs.OShort k => VInt (Z.of_nat k) end.
Definition enc_sch (s : sched) : block := map enc_out s.
Definition enc_ev (e : event) : list val :=
  match e with
  | EvWrite fd p r => VInt 1 :: VInt fd :: VInt (Z.of_nat (length p)) :: VInt r :: map VInt (zb p)
  | EvTrunc fd sz => [VInt 2; VInt fd; VInt sz]
  | EvOpen r => [VInt 3; VInt r]
  | EvClose fd r => [VInt 4; VInt fd; VInt r]
  end.
Definition enc_log (lg : list event) : block := flat_map enc_ev lg.

Definition is_byte (v : val) : bool := match v with VInt z => (0 <=? z) && (z <? 256) | _ => false end.
(* the result of write(fd, p, n) under the schedule whose cells are sblk *)
Definition wr_result (sblk : block) (n : Z) : Z :=
  match sblk with
  | VInt z :: _ => if z =? -1 then -1 else if z <? 0 then n else Z.min z n
  | _ => n
  end.
Definition sys_write (ks kl : nat) (args : list val) (m : mem) : res (val * mem) :=
  match args with
  | [VInt fd; VPtr b o; VInt n] =>
      match nth_error m ks, nth_error m kl, nth_error m b with
      | Some sblk, Some lblk, Some blk =>
          if (n <? 0) || (o <? 0) then Err EOob else
          do cells <- read_cells blk (Z.to_nat o) (Z.to_nat n);
          if forallb is_byte cells then
            let r := wr_result sblk n in
            Ok (VInt r, upd (upd m ks (tl sblk)) kl (lblk ++ VInt 1 :: VInt fd :: VInt n :: VInt r :: cells))
          else Err EUndef
      | _, _, _ => Err EOob
      end
  | _ => Err EShape
  end.
Definition sys_trunc (kl : nat) (args : list val) (m : mem) : res (val * mem) :=
  match args with
  | [VInt fd; VInt sz] =>
      match nth_error m kl with
      | Some lblk => Ok (VInt 0, upd m kl (lblk ++ [VInt 2; VInt fd; VInt sz]))
      | None => Err EOob
      end
  | _ => Err EShape
  end.
(* the oracle: write and ftruncate are the kernel, any other untranslated function is still an error *)
Definition sys (ks kl : nat) : nat -> list val -> mem -> res (val * mem) :=
  fun f args m => if Nat.eqb f X_write then sys_write ks kl args m
                  else if Nat.eqb f X_ftruncate then sys_trunc kl args m else Err EShape.

(* the same result read off the schedule itself *)
Definition wr_res (s : sched) (n : Z) : Z :=
  match s with
  | [] | IoDefs.OOk :: _ => n
  | IoDefs.OErr :: _ => -1
  | IoDefs.OShort k :: _ => Z.min (Z.of_nat k) n
  end.
Lemma wr_result_enc s n : wr_result (enc_sch s) n = wr_res s n.
Proof.
  destruct s as [|[| |k] s]; try reflexivity. cbn [enc_sch map enc_out wr_result wr_res].
  destruct (Z.eqb_spec (Z.of_nat k) (-1)); [lia|]. destruct (Z.ltb_spec (Z.of_nat k) 0); [lia|]. reflexivity.
Qed.
Lemma enc_sch_tl s : tl (enc_sch s) = enc_sch (tl s).
Proof. destruct s; reflexivity. Qed.
Lemma enc_log_app a b : enc_log (a ++ b) = enc_log a ++ enc_log b.
Proof. apply flat_map_app. Qed.

(* bytes p stand in the block from cell o on *)
Definition bytes_in (blk : block) (o : nat) (p : bytes) : Prop :=
  firstn (length p) (skipn o blk) = map VInt (zb p) /\ (o + length p <= length blk)%nat.
Lemma bytes_in_skip blk o p k : bytes_in blk o p -> (k <= length p)%nat -> bytes_in blk (o + k) (skipn k p).
Proof.
  intros [H L] Hk. split; [|rewrite skipn_length; lia].
  rewrite skipn_length. rewrite <- skipn_skipn. rewrite firstn_skipn_swap.
  replace (k + (length p - k))%nat with (length p) by lia. rewrite H. unfold zb. rewrite !skipn_map. reflexivity.
Qed.
Lemma bytes_in_cstr (s : bytes) : bytes_in (cstr_block (zb s)) 0 s.
Proof.
  split.
  - cbn [skipn]. unfold cstr_block. replace (length s) with (length (map VInt (zb s))) at 1 by (unfold zb; rewrite !map_length; reflexivity).
    apply firstn_app_exact.
  - unfold cstr_block, zb. rewrite app_length, !map_length. cbn. lia.
Qed.
Lemma forallb_is_byte (p : bytes) : bytes_lt256 p -> forallb is_byte (map VInt (zb p)) = true.
Proof.
  intro H. apply forallb_forall. intros v Hv. unfold zb in Hv. rewrite map_map in Hv. apply in_map_iff in Hv.
  destruct Hv as (c & <- & Hc). unfold bytes_lt256 in H. rewrite Forall_forall in H. specialize (H c Hc).
  cbn [is_byte]. destruct (Z.leb_spec 0 (Z.of_N c)); [|lia]. destruct (Z.ltb_spec (Z.of_N c) 256); [reflexivity|lia].
Qed.

Lemma chk_I64 z : -9223372036854775808 <= z <= 9223372036854775807 -> chk I64 z = Ok z.
Proof.
  intro H. unfold chk, in_range, ity_min, ity_max, ity_signed, ity_bits.
  change (- 2 ^ (64 - 1)) with (-9223372036854775808). change (2 ^ (64 - 1) - 1) with 9223372036854775807.
  destruct (Z.leb_spec (-9223372036854775808) z); [|lia]. destruct (Z.leb_spec z 9223372036854775807); [|lia]. reflexivity.
Qed.
Lemma x_write_none : nth_error cprog X_write = None.
Proof. vm_compute. reflexivity. Qed.
Lemma x_ftruncate_none : nth_error cprog X_ftruncate = None.
Proof. vm_compute. reflexivity. Qed.
Ltac enterx f cf :=
  rewrite callx_S; cbn [nth_error cprog f cf fn_nparams fn_nlocals fn_body length Nat.eqb Nat.sub repeat app].

(* ------------------------------------------------------------------ the calls write_fully makes, under a schedule *)
(* IoDefs.write_fully with the write(2) calls made visible: the events, no call failed, the unused schedule *)
Fixpoint wf_run (fd : Z) (p : bytes) (s : sched) {struct s} : list event * bool * sched :=
  match p with
  | [] => ([], true, s)
  | _ :: _ =>
    match s with
    | [] => ([EvWrite fd p (Z.of_nat (length p))], true, [])
    | IoDefs.OOk :: s' => ([EvWrite fd p (Z.of_nat (length p))], true, s')
    | IoDefs.OErr :: s' => ([EvWrite fd p (-1)], false, s')
    | IoDefs.OShort k :: s' =>
      let k' := Nat.min k (length p) in
      let '(ev, ok, r) := wf_run fd (skipn k' p) s' in (EvWrite fd p (Z.of_nat k') :: ev, ok, r)
    end
  end.
(* the bytes a call got into the file *)
Definition accepted (e : event) : bytes := match e with EvWrite _ p r => firstn (Z.to_nat r) p | _ => [] end.
Definition reached (ev : list event) : bytes := flat_map accepted ev.

Lemma wf_run_model fd p s :
  let '(ev, ok, r) := wf_run fd p s in IoDefs.write_fully p s = (reached ev, ok, r).
Proof.
  revert p; induction s as [|o s IH]; intro p.
  - destruct p as [|c p]; [reflexivity|]. cbn [wf_run IoDefs.write_fully reached flat_map accepted].
    rewrite Nat2Z.id, firstn_all, app_nil_r. reflexivity.
  - destruct p as [|c p]; [reflexivity|]. destruct o as [| |k]; cbn [wf_run IoDefs.write_fully].
    + cbn [reached flat_map accepted]. rewrite Nat2Z.id, firstn_all, app_nil_r. reflexivity.
    + reflexivity.
    + specialize (IH (skipn (Nat.min k (length (c :: p))) (c :: p))).
      destruct (wf_run fd (skipn (Nat.min k (length (c :: p))) (c :: p)) s) as [[ev ok] r]. rewrite IH.
      cbn [reached flat_map accepted]. rewrite Nat2Z.id. reflexivity.
Qed.
Lemma wf_run_sched_le fd p s : (length (snd (wf_run fd p s)) <= length s)%nat.
Proof.
  revert p; induction s as [|o s IH]; intro p; (destruct p as [|c p]; [cbn; lia|]).
  - cbn; lia.
  - destruct o as [| |k]; cbn [wf_run]; try (cbn; lia).
    specialize (IH (skipn (Nat.min k (length (c :: p))) (c :: p))).
    destruct (wf_run fd (skipn (Nat.min k (length (c :: p))) (c :: p)) s) as [[ev ok] r]. cbn [snd length] in *. lia.
Qed.

(* ------------------------------------------------------------------ the write_fully calls of lbuf_wr *)
(* IoDefs.write_all with the calls made visible: the payloads are written in order, the first failure stops *)
Fixpoint wa_run (fd : Z) (ps : list bytes) (s : sched) : list event * bool * sched :=
  match ps with
  | [] => ([], true, s)
  | p :: ps' =>
    let '(ev, ok, r) := wf_run fd p s in
    if ok then let '(ev2, ok2, r2) := wa_run fd ps' r in (ev ++ ev2, ok2, r2) else (ev, false, r)
  end.
Lemma reached_app a b : reached (a ++ b) = reached a ++ reached b.
Proof. apply flat_map_app. Qed.
Lemma wa_run_model fd ps : forall s,
  let '(ev, ok, r) := wa_run fd ps s in IoDefs.write_all ps s = (reached ev, ok, r).
Proof.
  induction ps as [|p ps IH]; intro s; [reflexivity|]. cbn [wa_run IoDefs.write_all].
  pose proof (wf_run_model fd p s) as H. destruct (wf_run fd p s) as [[ev ok] r]. rewrite H.
  destruct ok; [|reflexivity]. specialize (IH r). destruct (wa_run fd ps r) as [[ev2 ok2] r2]. rewrite IH, reached_app. reflexivity.
Qed.
Lemma wa_run_app fd a b : forall s,
  wa_run fd (a ++ b) s =
  let '(ev, ok, r) := wa_run fd a s in
  if ok then let '(ev2, ok2, r2) := wa_run fd b r in (ev ++ ev2, ok2, r2) else (ev, false, r).
Proof.
  induction a as [|p a IH]; intro s.
  - cbn [app wa_run]. destruct (wa_run fd b s) as [[ev2 ok2] r2]. reflexivity.
  - cbn [app wa_run]. destruct (wf_run fd p s) as [[ev ok] r]. destruct ok; [|reflexivity].
    rewrite IH. destruct (wa_run fd a r) as [[ev1 ok1] r1]. destruct ok1; [|reflexivity].
    destruct (wa_run fd b r1) as [[ev2 ok2] r2]. rewrite app_assoc. reflexivity.
Qed.
Lemma wa_run_sched_le fd ps : forall s, (length (snd (wa_run fd ps s)) <= length s)%nat.
Proof.
  induction ps as [|p ps IH]; intro s; [cbn; lia|]. cbn [wa_run].
  pose proof (wf_run_sched_le fd p s) as H. destruct (wf_run fd p s) as [[ev ok] r]. cbn [snd] in H.
  destruct ok; [|cbn [snd]; exact H]. specialize (IH r). destruct (wa_run fd ps r) as [[ev2 ok2] r2]. cbn [snd] in *. lia.
Qed.
(* no error among the outcomes a run consumed <-> the run did not fail *)
Lemma wf_run_ok_iff fd p s : let '(ev, ok, r) := wf_run fd p s in
  exists used, s = used ++ r /\ (ok = false <-> In IoDefs.OErr used).
Proof.
  revert p; induction s as [|o s IH]; intro p; (destruct p as [|c p]; [exists []; split; [reflexivity|split; [discriminate|intros []]]|]).
  - cbn [wf_run]. exists []. split; [reflexivity|split; [discriminate|intros []]].
  - destruct o as [| |k]; cbn [wf_run].
    + exists [IoDefs.OOk]. split; [reflexivity|split; [discriminate|intros [H|[]]; discriminate]].
    + exists [IoDefs.OErr]. split; [reflexivity|split; [left; reflexivity|reflexivity]].
    + specialize (IH (skipn (Nat.min k (length (c :: p))) (c :: p))).
      destruct (wf_run fd (skipn (Nat.min k (length (c :: p))) (c :: p)) s) as [[ev ok] r].
      destruct IH as (used & -> & H). exists (IoDefs.OShort k :: used). split; [reflexivity|].
      rewrite H. split; [intro X; right; exact X|intros [X|X]; [discriminate|exact X]].
Qed.
Lemma wa_run_ok_iff fd ps : forall s, let '(ev, ok, r) := wa_run fd ps s in
  exists used, s = used ++ r /\ (ok = false <-> In IoDefs.OErr used).
Proof.
  induction ps as [|p ps IH]; intro s; [exists []; split; [reflexivity|split; [discriminate|intros []]]|]. cbn [wa_run].
  pose proof (wf_run_ok_iff fd p s) as H. destruct (wf_run fd p s) as [[ev ok] r]. destruct H as (u1 & -> & H1).
  destruct ok.
  - specialize (IH r). destruct (wa_run fd ps r) as [[ev2 ok2] r2]. destruct IH as (u2 & -> & H2).
    exists (u1 ++ u2). split; [apply app_assoc|]. rewrite in_app_iff, H2. split; [intro X; right; exact X|].
    intros [X|X]; [apply H1 in X; discriminate|exact X].
  - exists u1. split; [reflexivity|]. rewrite <- H1. split; reflexivity.
Qed.

(* the payloads lbuf_wr hands to write_fully for one more line l while pend is batched: the new batch, the payloads *)
Definition line_out (B : nat) (pend l : bytes) : bytes * list bytes :=
  let fl := (0 <? length pend)%nat && (B <? length pend + length l)%nat in
  let pend1 := if fl then [] else pend in
  let out1 := if fl then [pend] else [] in
  if (B <=? length l)%nat then (pend1, out1 ++ [l]) else (pend1 ++ l, out1).
Fixpoint lines_out (B : nat) (pend : bytes) (ls : list bytes) : list bytes :=
  match ls with
  | [] => if (0 <? length pend)%nat then [pend] else []
  | l :: r => snd (line_out B pend l) ++ lines_out B (fst (line_out B pend l)) r
  end.
Lemma wr_line_out B w l :
  IoDefs.pend (IoDefs.wr_line B w l) = fst (line_out B (IoDefs.pend w) l) /\
  IoDefs.outp (IoDefs.wr_line B w l) = IoDefs.outp w ++ snd (line_out B (IoDefs.pend w) l) /\
  IoDefs.wsz (IoDefs.wr_line B w l) = (IoDefs.wsz w + length l)%nat.
Proof.
  unfold IoDefs.wr_line, line_out.
  destruct ((0 <? length (IoDefs.pend w))%nat && (B <? length (IoDefs.pend w) + length l)%nat);
    destruct (B <=? length l)%nat; cbn [IoDefs.pend IoDefs.outp IoDefs.wsz fst snd];
    rewrite <- ?app_assoc, ?app_nil_r; repeat split; reflexivity.
Qed.
Lemma lines_out_model B ls : forall w,
  IoDefs.outp (IoDefs.wr_finish (fold_left (IoDefs.wr_line B) ls w)) = IoDefs.outp w ++ lines_out B (IoDefs.pend w) ls /\
  IoDefs.wsz (IoDefs.wr_finish (fold_left (IoDefs.wr_line B) ls w)) = (IoDefs.wsz w + length (concat ls))%nat.
Proof.
  induction ls as [|l ls IH]; intro w.
  - cbn [fold_left lines_out concat length]. unfold IoDefs.wr_finish.
    destruct (0 <? length (IoDefs.pend w))%nat; cbn [IoDefs.outp IoDefs.wsz]; rewrite ?app_nil_r; split; (reflexivity || lia).
  - cbn [fold_left lines_out concat]. destruct (IH (IoDefs.wr_line B w l)) as [H1 H2]. rewrite H1, H2.
    destruct (wr_line_out B w l) as (E1 & E2 & E3). rewrite E1, E2, E3, app_length, <- app_assoc. split; [reflexivity|lia].
Qed.
Definition BATCH : nat := 4096.
Lemma BATCH_Z : Z.of_nat BATCH = 4096.
Proof. reflexivity. Qed.
Lemma BATCH_is : BATCH = IoDefs.BATCH.
Proof. reflexivity. Qed.
(* what IoDefs.lbuf_wr computes, in these terms *)
Lemma lbuf_wr_out lines b e :
  IoDefs.outp (IoDefs.lbuf_wr lines b e) = lines_out BATCH [] (IoDefs.slice b e lines) /\
  IoDefs.wsz (IoDefs.lbuf_wr lines b e) = length (concat (IoDefs.slice b e lines)).
Proof.
  unfold IoDefs.lbuf_wr, IoDefs.lbuf_wr_gen. rewrite <- BATCH_is.
  destruct (lines_out_model BATCH (IoDefs.slice b e lines) IoDefs.wst0) as [H1 H2]. rewrite H1, H2. split; reflexivity.
Qed.

Section Write.
  Variable ext : nat -> list val -> mem -> res (val * mem).
  Variables ks kl : nat.
  Hypothesis Hkskl : ks <> kl.
  Hypothesis ext_write : forall args m, ext X_write args m = sys_write ks kl args m.
  Hypothesis ext_trunc : forall args m, ext X_ftruncate args m = sys_trunc kl args m.

  Definition world_at (m : mem) (s : sched) (lg : list event) : Prop :=
    nth_error m ks = Some (enc_sch s) /\ nth_error m kl = Some (enc_log lg).
  Definition set_world (m : mem) (s : sched) (lg : list event) : mem := upd (upd m ks (enc_sch s)) kl (enc_log lg).

  Lemma set_world_nth m s lg k : (ks < length m)%nat -> (kl < length m)%nat ->
    nth_error (set_world m s lg) k =
    if Nat.eqb k kl then Some (enc_log lg) else if Nat.eqb k ks then Some (enc_sch s) else nth_error m k.
  Proof.
    intros H1 H2. unfold set_world. rewrite nth_error_upd_if by (rewrite upd_length by exact H1; exact H2).
    destruct (Nat.eqb k kl); [reflexivity|]. apply nth_error_upd_if. exact H1.
  Qed.
  Lemma set_world_length m s lg : (ks < length m)%nat -> (kl < length m)%nat -> length (set_world m s lg) = length m.
  Proof. intros H1 H2. unfold set_world. rewrite upd_length by (rewrite upd_length by exact H1; exact H2). apply upd_length. exact H1. Qed.
  Lemma world_lt m s lg : world_at m s lg -> (ks < length m)%nat /\ (kl < length m)%nat.
  Proof. intros [H1 H2]. split; apply nth_error_Some; congruence. Qed.
  Lemma set_world_at m s lg : (ks < length m)%nat -> (kl < length m)%nat -> world_at (set_world m s lg) s lg.
  Proof.
    intros H1 H2. unfold world_at. rewrite !set_world_nth by assumption. rewrite !Nat.eqb_refl.
    destruct (Nat.eqb_spec ks kl); [contradiction|]. split; reflexivity.
  Qed.
  Lemma set_world_self m s lg : world_at m s lg -> set_world m s lg = m.
  Proof.
    intros [H1 H2]. unfold set_world. rewrite (upd_self m ks _ H1). apply upd_self. exact H2.
  Qed.
  Lemma set_world_twice m s lg s' lg' : (ks < length m)%nat -> (kl < length m)%nat ->
    set_world (set_world m s lg) s' lg' = set_world m s' lg'.
  Proof.
    intros H1 H2. apply nth_error_ext_w. intro k.
    rewrite !set_world_nth; try assumption; try (rewrite set_world_length by assumption; assumption).
    destruct (Nat.eqb k kl), (Nat.eqb k ks); reflexivity.
  Qed.
  Lemma set_world_other m s lg k : (ks < length m)%nat -> (kl < length m)%nat -> k <> ks -> k <> kl ->
    nth_error (set_world m s lg) k = nth_error m k.
  Proof.
    intros H1 H2 N1 N2. rewrite set_world_nth by assumption.
    destruct (Nat.eqb_spec k kl); [contradiction|]. destruct (Nat.eqb_spec k ks); [contradiction|]. reflexivity.
  Qed.

  (* one write(2): the n cells at the pointer are logged, one outcome is consumed *)
  Lemma sys_write_ok m s lg fd b o (blk : block) q d fuel :
    world_at m s lg -> nth_error m b = Some blk -> 0 <= o -> bytes_in blk (Z.to_nat o) q -> bytes_lt256 q ->
    callx ext cprog fuel (S d) X_write [VInt fd; VPtr b o; VInt (Z.of_nat (length q))] m
    = Ok (VInt (wr_res s (Z.of_nat (length q))),
          set_world m (tl s) (lg ++ [EvWrite fd q (wr_res s (Z.of_nat (length q)))])).
  Proof.
    intros [Hs Hl] Hb Ho [Hq Hlen] H256. rewrite callx_S, x_write_none, ext_write. unfold sys_write.
    rewrite Hs, Hl, Hb. destruct (Z.ltb_spec (Z.of_nat (length q)) 0); [lia|]. destruct (Z.ltb_spec o 0); [lia|]. cbn [orb].
    rewrite Nat2Z.id. rewrite read_cells_ok by exact Hlen. cbn [bind]. rewrite Hq, forallb_is_byte by exact H256.
    rewrite wr_result_enc, enc_sch_tl. unfold set_world. rewrite enc_log_app. cbn [enc_log flat_map enc_ev]. rewrite app_nil_r.
    reflexivity.
  Qed.

  (* ---------------------------------------------------------------- write_fully *)
  Definition wf_loop : stmt := match fn_body cf_lbuf_write_fully with SSeq _ (SSeq w _) => w | _ => SSkip end.

  Definition wf_st (fd : Z) (b : nat) (o : Z) (sz nw nc : Z) (m : mem) : state :=
    mkst [VInt fd; VPtr b o; VInt sz; VInt nw; VInt nc] m.

  (* the loop is left at once when everything is written *)
  Lemma wf_exit fd b o sz nc m d fuel fuel' : (1 <= fuel')%nat ->
    exec (callx ext cprog fuel (S d)) fuel' wf_loop (wf_st fd b o sz sz nc m) = ONormal (wf_st fd b o sz sz nc m).
  Proof.
    intro Hf. destruct fuel' as [|fuel']; [lia|]. unfold wf_loop, wf_st; cbn [fn_body cf_lbuf_write_fully]. rewrite exec_while. xstep.
    rewrite Z.ltb_irrefl. xstep. reflexivity.
  Qed.
  (* one iteration: one write(2) of everything that is left; a negative result leaves the loop *)
  Lemma wf_iter fd b o (blk : block) (p : bytes) d fuel s (nw : nat) nc lg m fuel' :
    0 <= o -> bytes_in blk (Z.to_nat o) p -> bytes_lt256 p -> Z.of_nat (length p) <= 4611686018427387904 ->
    world_at m s lg -> nth_error m b = Some blk -> (nw < length p)%nat ->
    let q := skipn nw p in
    let r := wr_res s (Z.of_nat (length q)) in
    let m' := set_world m (tl s) (lg ++ [EvWrite fd q r]) in
    exec (callx ext cprog fuel (S d)) (S fuel') wf_loop (wf_st fd b o (Z.of_nat (length p)) (Z.of_nat nw) nc m)
    = if 0 <=? r then exec (callx ext cprog fuel (S d)) fuel' wf_loop (wf_st fd b o (Z.of_nat (length p)) (Z.of_nat nw + r) r m')
      else ONormal (wf_st fd b o (Z.of_nat (length p)) (Z.of_nat nw) r m').
  Proof.
    intros Ho Hp H256 Hsz Hw Hb Hl q r m'.
    assert (Hql : length q = (length p - nw)%nat) by (unfold q; apply skipn_length).
    assert (Hr : r <= Z.of_nat (length q)) by (unfold r; destruct s as [|[| |k] s]; cbn [wr_res]; lia).
    unfold wf_loop, wf_st; cbn [fn_body cf_lbuf_write_fully]. rewrite exec_while. xstep.
    destruct (Z.ltb_spec (Z.of_nat nw) (Z.of_nat (length p))) as [_|]; [|lia]. xstep.
    rewrite chk_I64 by lia. xstep. rewrite wrap_U64_id by lia.
    pose proof (bytes_in_skip _ _ _ nw Hp ltac:(lia)) as Hq. fold q in Hq.
    replace (Z.of_nat (length p) - Z.of_nat nw) with (Z.of_nat (length q)) by lia.
    replace (Z.to_nat o + nw)%nat with (Z.to_nat (o + 1 * Z.of_nat nw)) in Hq by lia.
    rewrite (sys_write_ok m s lg fd b (o + 1 * Z.of_nat nw) blk q d fuel Hw Hb ltac:(lia) Hq)
      by (apply Forall_skipn'; exact H256).
    xstep. fold r. fold m'. change (wrap I64 0) with 0.
    destruct (Z.leb_spec 0 r) as [H0|H0]; xstep; [|reflexivity].
    rewrite chk_I64 by lia. xstep. reflexivity.
  Qed.

  Lemma wf_loop_ok fd b o (blk : block) (p : bytes) d fuel :
    0 <= o -> bytes_in blk (Z.to_nat o) p -> bytes_lt256 p -> Z.of_nat (length p) <= 4611686018427387904 -> b <> ks -> b <> kl ->
    forall s (nw : nat) nc lg m fuel', world_at m s lg -> nth_error m b = Some blk -> (nw <= length p)%nat -> 0 <= nc ->
    (length s + 2 <= fuel')%nat ->
    let '(ev, ok, r) := wf_run fd (skipn nw p) s in
    exists nw' nc',
      exec (callx ext cprog fuel (S d)) fuel' wf_loop (wf_st fd b o (Z.of_nat (length p)) (Z.of_nat nw) nc m)
      = ONormal (wf_st fd b o (Z.of_nat (length p)) nw' nc' (set_world m r (lg ++ ev)))
      /\ (if ok then nw' = Z.of_nat (length p) /\ 0 <= nc' else nc' = -1).
  Proof.
    intros Ho Hp H256 Hsz Nks Nkl.
    assert (Done : forall s nc lg m fuel', world_at m s lg -> 0 <= nc -> (1 <= fuel')%nat ->
      exists nw' nc',
      exec (callx ext cprog fuel (S d)) fuel' wf_loop (wf_st fd b o (Z.of_nat (length p)) (Z.of_nat (length p)) nc m)
      = ONormal (wf_st fd b o (Z.of_nat (length p)) nw' nc' (set_world m s (lg ++ [])))
      /\ (nw' = Z.of_nat (length p) /\ 0 <= nc')).
    { intros s nc lg m fuel' Hw Hnc Hf. exists (Z.of_nat (length p)), nc. rewrite wf_exit by exact Hf.
      rewrite app_nil_r, set_world_self by exact Hw. split; [reflexivity|split; [reflexivity|exact Hnc]]. }
    induction s as [|oc s IH]; intros nw nc lg m fuel' Hw Hb Hnw Hnc Hf;
      (destruct (skipn nw p) as [|c q] eqn:E;
       [assert (nw = length p) as -> by (apply (f_equal (@length N)) in E; rewrite skipn_length in E; cbn in E; lia);
        cbn [wf_run]; apply Done; [exact Hw|exact Hnc|lia]|]);
      assert (Hl : (nw < length p)%nat) by (apply (f_equal (@length N)) in E; rewrite skipn_length in E; cbn in E; lia);
      assert (Hql : length (c :: q) = (length p - nw)%nat) by (rewrite <- E; apply skipn_length);
      (destruct fuel' as [|fuel']; [lia|]);
      rewrite (wf_iter fd b o blk p d fuel _ nw nc lg m fuel' Ho Hp H256 Hsz Hw Hb Hl); rewrite E;
      destruct (world_lt _ _ _ Hw) as [L1 L2].
    - (* schedule exhausted: one call, which succeeds in full *)
      cbn [wf_run wr_res tl]. destruct (Z.leb_spec 0 (Z.of_nat (length (c :: q)))); [|lia].
      replace (Z.of_nat nw + Z.of_nat (length (c :: q))) with (Z.of_nat (length p)) by lia.
      destruct (Done [] (Z.of_nat (length (c :: q))) (lg ++ [EvWrite fd (c :: q) (Z.of_nat (length (c :: q)))])
                     (set_world m [] (lg ++ [EvWrite fd (c :: q) (Z.of_nat (length (c :: q)))])) fuel') as (nw' & nc' & X & Y);
        [apply set_world_at; assumption|lia|lia|].
      exists nw', nc'. rewrite X. rewrite set_world_twice, app_nil_r by assumption. split; [reflexivity|exact Y].
    - destruct oc as [| |k]; cbn [wf_run wr_res tl].
      + (* a full write *)
        destruct (Z.leb_spec 0 (Z.of_nat (length (c :: q)))); [|lia].
        replace (Z.of_nat nw + Z.of_nat (length (c :: q))) with (Z.of_nat (length p)) by lia.
        destruct (Done s (Z.of_nat (length (c :: q))) (lg ++ [EvWrite fd (c :: q) (Z.of_nat (length (c :: q)))])
                       (set_world m s (lg ++ [EvWrite fd (c :: q) (Z.of_nat (length (c :: q)))])) fuel') as (nw' & nc' & X & Y);
          [apply set_world_at; assumption|lia|cbn [length] in Hf; lia|].
        exists nw', nc'. rewrite X. rewrite set_world_twice, app_nil_r by assumption. split; [reflexivity|exact Y].
      + (* an error: the loop is left with nc < 0 *)
        cbn [Z.leb Z.compare]. exists (Z.of_nat nw), (-1). split; reflexivity.
      + (* a short count: the rest is retried *)
        set (k' := Nat.min k (length (c :: q))).
        replace (Z.min (Z.of_nat k) (Z.of_nat (length (c :: q)))) with (Z.of_nat k') by (unfold k'; lia).
        destruct (Z.leb_spec 0 (Z.of_nat k')); [|lia].
        replace (Z.of_nat nw + Z.of_nat k') with (Z.of_nat (nw + k')) by lia.
        set (m1 := set_world m s (lg ++ [EvWrite fd (c :: q) (Z.of_nat k')])).
        assert (Hw1 : world_at m1 s (lg ++ [EvWrite fd (c :: q) (Z.of_nat k')])) by (apply set_world_at; assumption).
        assert (Hb1 : nth_error m1 b = Some blk) by (unfold m1; rewrite set_world_other by assumption; exact Hb).
        specialize (IH (nw + k')%nat (Z.of_nat k') _ m1 fuel' Hw1 Hb1 ltac:(unfold k'; lia) ltac:(lia) ltac:(cbn [length] in Hf; lia)).
        rewrite <- skipn_skipn, E in IH. fold k' in IH.
        destruct (wf_run fd (skipn k' (c :: q)) s) as [[ev ok] r].
        destruct IH as (nw' & nc' & X & Y). exists nw', nc'. rewrite X. unfold m1.
        rewrite set_world_twice by assumption. rewrite <- app_assoc. split; [reflexivity|exact Y].
  Qed.

  (* write_fully(fd, buf, sz) on the C text, under any schedule *)
  Theorem tr_write_fully fd b o (blk : block) (p : bytes) s lg m d fuel :
    world_at m s lg -> nth_error m b = Some blk -> b <> ks -> b <> kl ->
    0 <= o -> bytes_in blk (Z.to_nat o) p -> bytes_lt256 p -> Z.of_nat (length p) <= 4611686018427387904 ->
    (length s + 2 <= fuel)%nat ->
    let '(ev, ok, r) := wf_run fd p s in
    callx ext cprog fuel (S (S d)) F_lbuf_write_fully [VInt fd; VPtr b o; VInt (Z.of_nat (length p))] m
    = Ok (VInt (if ok then Z.of_nat (length p) else -1), set_world m r (lg ++ ev)).
  Proof.
    intros Hw Hb Nks Nkl Ho Hp H256 Hsz Hf.
    pose proof (wf_loop_ok fd b o blk p d fuel Ho Hp H256 Hsz Nks Nkl s 0%nat 0 lg m fuel Hw Hb ltac:(lia) ltac:(lia) Hf) as L.
    cbn [skipn] in L. destruct (wf_run fd p s) as [[ev ok] r]. destruct L as (nw' & nc' & X & Y).
    enterx F_lbuf_write_fully cf_lbuf_write_fully. xstep.
    change (wrap I64 0) with 0. unfold wf_loop, wf_st in X; cbn [fn_body cf_lbuf_write_fully] in X. change (Z.of_nat 0) with 0 in X.
    rewrite X. xstep. change (wrap I64 0) with 0.
    destruct ok.
    - destruct Y as [-> Y]. destruct (Z.leb_spec 0 nc'); [|lia]. xstep. reflexivity.
    - subst nc'. cbn [Z.leb Z.compare]. xstep. reflexivity.
  Qed.

  (* ---------------------------------------------------------------- lbuf_wr *)
  Definition nthl (lines : list bytes) (i : nat) : bytes := nth i lines [].
  (* block lb is a struct lbuf whose ln field points to block bln, an array of pointer cells; cell i of it points
     (offset 0) to block (nth i lbs), which holds line i as a C string; none of these blocks is a kernel block *)
  Record lines_at (m : mem) (lb bln : nat) (lbs : list nat) (lines : list bytes) : Prop := mk_lines_at {
    wa_blk : exists blk, nth_error m lb = Some blk /\ nth_error blk L_ln = Some (VPtr bln 0);
    wa_ln : exists lnblk, nth_error m bln = Some lnblk /\
            forall i, (i < length lines)%nat -> nth_error lnblk i = Some (VPtr (nth i lbs O) 0);
    wa_lbs : length lbs = length lines;
    wa_str : forall i, (i < length lines)%nat -> str_at m (nth i lbs O) (nthl lines i);
    wa_nonul : Forall nonul lines;
    wa_sep : ~ In ks (lb :: bln :: lbs) /\ ~ In kl (lb :: bln :: lbs)
  }.

  Section Wr.
    Variable m0 : mem.
    Variables lb bln : nat.
    Variable lbs : list nat.
    Variable lines : list bytes.
    Variables fd : Z.
    Variables beg en : nat.
    Variables d fuel : nat.
    Variable s0 : sched.
    Variable lg0 : list event.
    Hypothesis Hw0 : world_at m0 s0 lg0.
    Hypothesis Hlines : lines_at m0 lb bln lbs lines.
    Hypothesis Hen : (en <= length lines)%nat.
    Hypothesis Hsmall : Z.of_nat (length lines) <= 2147483647.
    Hypothesis Htotal : Z.of_nat (length (concat lines)) <= 4611686018427387904.

    Let bb : nat := length m0.
    Let call := callx ext cprog fuel (S (S d)).
    (* the memory while lbuf_wr runs: the batch block appended, the kernel blocks rewritten, the rest as it was *)
    Definition wm (bufblk : block) (s : sched) (lg : list event) : mem := set_world (m0 ++ [bufblk]) s lg.

    Lemma ks_lt : (ks < length m0)%nat. Proof. exact (proj1 (world_lt _ _ _ Hw0)). Qed.
    Lemma kl_lt : (kl < length m0)%nat. Proof. exact (proj2 (world_lt _ _ _ Hw0)). Qed.
    Lemma wm_nth bufblk s lg k :
      nth_error (wm bufblk s lg) k =
      if Nat.eqb k kl then Some (enc_log lg) else if Nat.eqb k ks then Some (enc_sch s)
      else if Nat.eqb k bb then Some bufblk else nth_error m0 k.
    Proof.
      pose proof ks_lt. pose proof kl_lt. unfold wm. rewrite set_world_nth by (rewrite app_length; cbn [length]; lia).
      destruct (Nat.eqb k kl); [reflexivity|]. destruct (Nat.eqb k ks); [reflexivity|].
      destruct (Nat.eqb_spec k bb) as [->|Hne]; [apply nth_error_app_new|].
      destruct (Nat.lt_ge_cases k bb) as [L|L]; [apply nth_error_app_old; exact L|].
      transitivity (@None block); [|symmetry]; apply nth_error_None; [rewrite app_length; cbn [length]|]; unfold bb in *; lia.
    Qed.
    Lemma wm_length bufblk s lg : length (wm bufblk s lg) = S bb.
    Proof.
      pose proof ks_lt. pose proof kl_lt. unfold wm. rewrite set_world_length; rewrite app_length; cbn [length]; unfold bb; lia.
    Qed.
    Lemma wm_world bufblk s lg : world_at (wm bufblk s lg) s lg.
    Proof. pose proof ks_lt. pose proof kl_lt. apply set_world_at; rewrite app_length; cbn [length]; lia. Qed.
    Lemma wm_buf bufblk s lg : nth_error (wm bufblk s lg) bb = Some bufblk.
    Proof.
      pose proof ks_lt. pose proof kl_lt. rewrite wm_nth. destruct (Nat.eqb_spec bb kl); [unfold bb in *; lia|].
      destruct (Nat.eqb_spec bb ks); [unfold bb in *; lia|]. rewrite Nat.eqb_refl. reflexivity.
    Qed.
    Lemma wm_old bufblk s lg k : (k < length m0)%nat -> k <> ks -> k <> kl -> nth_error (wm bufblk s lg) k = nth_error m0 k.
    Proof.
      intros L N1 N2. rewrite wm_nth. destruct (Nat.eqb_spec k kl); [contradiction|]. destruct (Nat.eqb_spec k ks); [contradiction|].
      destruct (Nat.eqb_spec k bb); [unfold bb in *; lia|]. reflexivity.
    Qed.
    Lemma wm_set_world bufblk s lg s' lg' : set_world (wm bufblk s lg) s' lg' = wm bufblk s' lg'.
    Proof. pose proof ks_lt. pose proof kl_lt. apply set_world_twice; rewrite app_length; cbn [length]; lia. Qed.
    Lemma wm_upd_buf bufblk s lg bufblk' : upd (wm bufblk s lg) bb bufblk' = wm bufblk' s lg.
    Proof.
      pose proof ks_lt. pose proof kl_lt. apply nth_error_ext_w. intro k.
      rewrite nth_error_upd_if by (rewrite wm_length; lia). rewrite !wm_nth.
      destruct (Nat.eqb_spec k bb) as [->|]; [|reflexivity].
      destruct (Nat.eqb_spec bb kl); [unfold bb in *; lia|]. destruct (Nat.eqb_spec bb ks); [unfold bb in *; lia|]. reflexivity.
    Qed.
    Lemma wm_start : m0 ++ [repeat VUndef BATCH] = wm (repeat VUndef BATCH) s0 lg0.
    Proof.
      unfold wm. symmetry. apply set_world_self. destruct Hw0 as [H1 H2]. pose proof ks_lt. pose proof kl_lt.
      split; rewrite nth_error_app_old by assumption; assumption.
    Qed.

    (* the blocks of the buffer are untouched *)
    Lemma old_lb : (lb < length m0)%nat /\ lb <> ks /\ lb <> kl.
    Proof.
      destruct Hlines as [(blk & H & _) _ _ _ _ [S1 S2]]. split; [apply nth_error_Some; congruence|].
      split; intros ->; [apply S1|apply S2]; left; reflexivity.
    Qed.
    Lemma old_bln : (bln < length m0)%nat /\ bln <> ks /\ bln <> kl.
    Proof.
      destruct Hlines as [_ (blk & H & _) _ _ _ [S1 S2]]. split; [apply nth_error_Some; congruence|].
      split; intros ->; [apply S1|apply S2]; right; left; reflexivity.
    Qed.
    Lemma old_line i : (i < length lines)%nat -> (nth i lbs O < length m0)%nat /\ nth i lbs O <> ks /\ nth i lbs O <> kl.
    Proof.
      intro Hi. destruct Hlines as [_ _ Hl Hs _ [S1 S2]]. split; [apply nth_error_Some; rewrite (Hs i Hi); discriminate|].
      split; intro E; [apply S1|apply S2]; right; right; rewrite <- E; apply nth_In; lia.
    Qed.

    (* a call of write_fully while lbuf_wr runs *)
    Lemma wf_call b (blk : block) (p : bytes) bufblk s lg :
      nth_error (wm bufblk s lg) b = Some blk -> b <> ks -> b <> kl -> bytes_in blk 0 p -> bytes_lt256 p ->
      Z.of_nat (length p) <= 4611686018427387904 -> (length s + 2 <= fuel)%nat ->
      let '(ev, ok, r) := wf_run fd p s in
      callx ext cprog fuel (S (S d)) F_lbuf_write_fully [VInt fd; VPtr b 0; VInt (Z.of_nat (length p))] (wm bufblk s lg)
      = Ok (VInt (if ok then Z.of_nat (length p) else -1), wm bufblk r (lg ++ ev)).
    Proof.
      intros Hb N1 N2 Hp H256 Hsz Hf.
      pose proof (tr_write_fully fd b 0 blk p s lg (wm bufblk s lg) d fuel (wm_world _ _ _) Hb N1 N2 ltac:(lia) Hp H256 Hsz Hf) as X.
      destruct (wf_run fd p s) as [[ev ok] r]. rewrite X, wm_set_world. reflexivity.
    Qed.

    Definition wr_for : stmt := match fn_body cf_lbuf_wr with SSeq _ (SSeq _ (SSeq (SSeq _ f) _)) => f | _ => SSkip end.
    Definition wr_tail : stmt := match fn_body cf_lbuf_wr with SSeq _ (SSeq _ (SSeq _ t)) => t | _ => SSkip end.
    Definition wr_body : stmt := match wr_for with SFor _ _ b => b | _ => SSkip end.
    Definition wr_flush : stmt := match wr_body with SSeq _ (SSeq _ (SSeq f _)) => f | _ => SSkip end.
    Definition wr_long : stmt := match wr_body with SSeq _ (SSeq _ (SSeq _ (SSeq l _))) => l | _ => SSkip end.
    Definition wr_st (buf_len sz i : Z) (v8 v9 : val) (M : mem) : state :=
      mkst [VPtr lb 0; VInt fd; VInt (Z.of_nat beg); VInt (Z.of_nat en); VPtr bb 0; VInt buf_len; VInt sz; VInt i; v8; v9] M.

    (* the batch block: the batched bytes in front *)
    Definition buf_ok (bufblk : block) (pend : bytes) : Prop :=
      length bufblk = BATCH /\ bytes_in bufblk 0 pend /\ bytes_lt256 pend.

    (* if (buf_len > 0 && buf_len + nl > sizeof(buf)) { if (write_fully(fd, buf, buf_len) < 0) return 1; buf_len = 0; } *)
    Lemma wr_flush_ok pend nl bufblk s lg sz i v8 f' : buf_ok bufblk pend -> 0 <= nl <= 4611686018427387904 ->
      (length s + 2 <= fuel)%nat ->
      let fl := (0 <? Z.of_nat (length pend)) && (4096 <? Z.of_nat (length pend) + nl) in
      let '(ev, ok, r) := if fl then wf_run fd pend s else ([], true, s) in
      exec call f' wr_flush (wr_st (Z.of_nat (length pend)) sz i v8 (VInt nl) (wm bufblk s lg))
      = if ok then ONormal (wr_st (if fl then 0 else Z.of_nat (length pend)) sz i v8 (VInt nl) (wm bufblk r (lg ++ ev)))
        else OReturn (VInt 1) (wr_st (Z.of_nat (length pend)) sz i v8 (VInt nl) (wm bufblk r (lg ++ ev))).
    Proof.
      intros (Hlen & Hin & H256) Hnl Hf fl.
      assert (Hpl : Z.of_nat (length pend) <= 4096) by (pose proof BATCH_Z as HBZ; destruct Hin as [_ HH]; lia).
      unfold wr_flush, wr_body, wr_for, wr_st; cbn [fn_body cf_lbuf_wr]. xstep. change (wrap I64 0) with 0.
      unfold fl. destruct (Z.ltb_spec 0 (Z.of_nat (length pend))) as [H0|H0]; xstep.
      2:{ rewrite app_nil_r. reflexivity. }
      rewrite chk_I64 by lia. xstep. rewrite wrap_U64_id by lia.
      destruct (Z.ltb_spec 4096 (Z.of_nat (length pend) + nl)) as [H1|H1]; xstep.
      2:{ rewrite app_nil_r. reflexivity. }
      assert (Nb : bb <> ks /\ bb <> kl) by (pose proof ks_lt; pose proof kl_lt; unfold bb; lia).
      pose proof (wf_call bb bufblk pend bufblk s lg (wm_buf _ _ _) (proj1 Nb) (proj2 Nb) Hin H256 ltac:(lia) Hf) as X.
      destruct (wf_run fd pend s) as [[ev ok] r]. unfold call. rewrite X. xstep. change (wrap I64 0) with 0.
      destruct ok.
      - destruct (Z.ltb_spec (Z.of_nat (length pend)) 0); [lia|]. xstep. reflexivity.
      - cbn [Z.ltb Z.compare]. xstep. reflexivity.
    Qed.

    Lemma buf_ok_put bufblk pend (l : bytes) : buf_ok bufblk pend -> (length pend + length l <= BATCH)%nat -> bytes_lt256 l ->
      buf_ok (put_cells bufblk (length pend) (map VInt (zb l))) (pend ++ l).
    Proof.
      intros (Hlen & [Hin Hle] & H256) Hl Hl256. cbn [skipn] in Hin.
      assert (Lm : length (map VInt (zb l)) = length l) by (unfold zb; rewrite !map_length; reflexivity).
      split; [rewrite put_cells_length by (rewrite Lm; lia); exact Hlen|]. split; [|apply Forall_app; split; assumption].
      split; [|rewrite put_cells_length by (rewrite Lm; lia); rewrite app_length; lia].
      cbn [skipn]. unfold put_cells. rewrite Hin. rewrite app_assoc.
      replace (length (pend ++ l)) with (length (map VInt (zb pend) ++ map VInt (zb l)))
        by (unfold zb; rewrite !app_length, !map_length; reflexivity).
      rewrite firstn_app_exact. unfold zb. rewrite !map_app. reflexivity.
    Qed.
    Lemma buf_ok_nil bufblk pend : buf_ok bufblk pend -> buf_ok bufblk [].
    Proof. intros (Hlen & _ & _). split; [exact Hlen|]. split; [split; [reflexivity|cbn; lia]|constructor]. Qed.

    (* if (nl >= sizeof(buf)) { if (write_fully(fd, ln, nl) < 0) return 1; } else { memcpy(buf + buf_len, ln, nl); buf_len += nl; } *)
    Lemma wr_long_ok pend (l : bytes) lbi bufblk s lg sz i f' : buf_ok bufblk pend ->
      nth_error (wm bufblk s lg) lbi = Some (cstr_block (zb l)) -> lbi <> ks -> lbi <> kl -> lbi <> bb -> bytes_lt256 l ->
      Z.of_nat (length l) <= 4611686018427387904 -> (length s + 2 <= fuel)%nat ->
      ((length l < BATCH)%nat -> (length pend + length l <= BATCH)%nat) ->
      let long := 4096 <=? Z.of_nat (length l) in
      let '(ev, ok, r) := if long then wf_run fd l s else ([], true, s) in
      exec call f' wr_long (wr_st (Z.of_nat (length pend)) sz i (VPtr lbi 0) (VInt (Z.of_nat (length l))) (wm bufblk s lg))
      = if ok then ONormal (wr_st (if long then Z.of_nat (length pend) else Z.of_nat (length pend) + Z.of_nat (length l)) sz i
                                  (VPtr lbi 0) (VInt (Z.of_nat (length l)))
                                  (wm (if long then bufblk else put_cells bufblk (length pend) (map VInt (zb l))) r (lg ++ ev)))
        else OReturn (VInt 1) (wr_st (Z.of_nat (length pend)) sz i (VPtr lbi 0) (VInt (Z.of_nat (length l))) (wm bufblk r (lg ++ ev))).
    Proof.
      intros (Hlen & Hin & H256) Hb N1 N2 N3 Hl256 Hsz Hf Hfit long.
      assert (Hpl : Z.of_nat (length pend) <= 4096) by (pose proof BATCH_Z as HBZ; destruct Hin as [_ HH]; lia).
      unfold wr_long, wr_body, wr_for, wr_st; cbn [fn_body cf_lbuf_wr]. xstep. rewrite wrap_U64_id by lia.
      unfold long. destruct (Z.leb_spec 4096 (Z.of_nat (length l))) as [H1|H1]; xstep.
      - pose proof (wf_call lbi _ l bufblk s lg Hb N1 N2 (bytes_in_cstr l) Hl256 Hsz Hf) as X.
        destruct (wf_run fd l s) as [[ev ok] r]. unfold call. rewrite X. xstep. change (wrap I64 0) with 0.
        destruct ok.
        + destruct (Z.ltb_spec (Z.of_nat (length l)) 0); [lia|]. xstep. reflexivity.
        + cbn [Z.ltb Z.compare]. xstep. reflexivity.
      - rewrite (memcpy_ok (wm bufblk s lg) bb _ lbi 0 _ bufblk (cstr_block (zb l)) (wm_buf _ _ _) Hb); try lia.
        2:{ unfold cstr_block, zb. rewrite app_length, !map_length. cbn [length]. lia. }
        xstep. rewrite chk_I64 by lia. xstep.
        replace (Z.to_nat (0 + 1 * Z.of_nat (length pend))) with (length pend) by lia.
        change (Z.to_nat 0) with 0%nat. rewrite Nat2Z.id. rewrite (proj1 (bytes_in_cstr l)).
        rewrite wm_upd_buf, app_nil_r. reflexivity.
    Qed.


    Lemma nthl_nonul i : nonul (nthl lines i).
    Proof.
      destruct Hlines as [_ _ _ _ H _]. unfold nthl. destruct (Nat.lt_ge_cases i (length lines)) as [L|L].
      - rewrite Forall_forall in H. apply H. apply nth_In. exact L.
      - rewrite nth_overflow by exact L. constructor.
    Qed.
    Lemma nthl_len i : Z.of_nat (length (nthl lines i)) <= Z.of_nat (length (concat lines)).
    Proof.
      unfold nthl. destruct (Nat.lt_ge_cases i (length lines)) as [L|L]; [|rewrite nth_overflow by exact L; cbn; lia].
      clear - L. revert i L. induction lines as [|x ls IH]; intros i L; [cbn in L; lia|].
      cbn [concat]. rewrite app_length. destruct i as [|i]; cbn [nth]; [lia|]. cbn [length] in L. specialize (IH i ltac:(lia)). lia.
    Qed.

    Lemma wrap_I64_small z : 0 <= z <= 4611686018427387904 -> wrap I64 z = z.
    Proof.
      intro H. unfold wrap. cbn [ity_bits ity_signed andb]. change (2 ^ 64) with 18446744073709551616.
      change (2 ^ (64 - 1)) with 9223372036854775808. rewrite Z.mod_small by lia.
      destruct (Z.leb_spec 9223372036854775808 z); [lia|reflexivity].
    Qed.
    Definition wr_szs : stmt := match wr_body with SSeq _ (SSeq _ (SSeq _ (SSeq _ z))) => z | _ => SSkip end.
    Lemma line_out_eq B pend (l : bytes) :
      line_out B pend l =
      let fl := (0 <? length pend)%nat && (B <? length pend + length l)%nat in
      let long := (B <=? length l)%nat in
      let pend1 := if fl then [] else pend in
      (if long then pend1 else pend1 ++ l, (if fl then [pend] else []) ++ (if long then [l] else [])).
    Proof. unfold line_out. cbv zeta. destruct (B <=? length l)%nat; rewrite ?app_nil_r; reflexivity. Qed.

    (* the second half of the loop body: the long / short decision and sz += nl *)
    Lemma wr_rest_ok (i : Z) pend1 (l : bytes) lbi bufblk s1 lg1 sz f' : buf_ok bufblk pend1 ->
      (forall bufblk s lg, nth_error (wm bufblk s lg) lbi = Some (cstr_block (zb l))) -> lbi <> ks -> lbi <> kl -> lbi <> bb ->
      bytes_lt256 l -> Z.of_nat (length l) <= 4611686018427387904 -> 0 <= sz /\ sz + Z.of_nat (length l) <= 4611686018427387904 ->
      (length s1 + 2 <= fuel)%nat ->
      ((length l < BATCH)%nat -> (length pend1 + length l <= BATCH)%nat) ->
      let long := (BATCH <=? length l)%nat in
      let '(ev, ok, r) := wa_run fd (if long then [l] else []) s1 in
      exists bl' sz' bufblk',
        exec call f' (SSeq wr_long wr_szs) (wr_st (Z.of_nat (length pend1)) sz i (VPtr lbi 0) (VInt (Z.of_nat (length l))) (wm bufblk s1 lg1))
        = (if ok then ONormal else OReturn (VInt 1)) (wr_st bl' sz' i (VPtr lbi 0) (VInt (Z.of_nat (length l))) (wm bufblk' r (lg1 ++ ev)))
        /\ (ok = true -> bl' = Z.of_nat (length (if long then pend1 else pend1 ++ l)) /\ sz' = sz + Z.of_nat (length l) /\
                         buf_ok bufblk' (if long then pend1 else pend1 ++ l)).
    Proof.
      intros Hbuf Hb N1 N2 N3 Hl256 Hll Hsz Hf Hfit long.
      pose proof (wr_long_ok pend1 l lbi bufblk s1 lg1 sz i f' Hbuf (Hb _ _ _) N1 N2 N3 Hl256 Hll Hf Hfit) as X. cbv zeta in X.
      assert (El : (4096 <=? Z.of_nat (length l)) = long)
        by (unfold long; pose proof BATCH_Z; destruct (Z.leb_spec 4096 (Z.of_nat (length l))); destruct (Nat.leb_spec BATCH (length l)); lia).
      rewrite El in X. rewrite exec_seq. subst long. destruct (BATCH <=? length l)%nat eqn:Elong.
      - cbn [wa_run]. destruct (wf_run fd l s1) as [[ev ok] r]. rewrite X. destruct ok.
        + unfold wr_szs, wr_body, wr_for, wr_st; cbn [fn_body cf_lbuf_wr]. xstep. rewrite chk_I64 by lia. xstep.
          exists (Z.of_nat (length pend1)), (sz + Z.of_nat (length l)), bufblk. rewrite app_nil_r.
          split; [reflexivity|]. intros _. split; [reflexivity|]. split; [reflexivity|exact Hbuf].
        + exists (Z.of_nat (length pend1)), sz, bufblk. split; [reflexivity|discriminate].
      - cbn [wa_run]. rewrite X.
        unfold wr_szs, wr_body, wr_for, wr_st; cbn [fn_body cf_lbuf_wr]. xstep. rewrite chk_I64 by lia. xstep.
        assert (Hs : (length l < BATCH)%nat) by (apply Nat.leb_gt in Elong; exact Elong).
        exists (Z.of_nat (length pend1) + Z.of_nat (length l)), (sz + Z.of_nat (length l)), (put_cells bufblk (length pend1) (map VInt (zb l))).
        split; [reflexivity|]. intros _. split; [rewrite app_length; lia|]. split; [reflexivity|].
        apply buf_ok_put; [exact Hbuf|apply Hfit; exact Hs|exact Hl256].
    Qed.

    (* one line *)
    Lemma wr_body_ok (i : nat) pend bufblk s lg sz v8 v9 f' : (i < length lines)%nat -> buf_ok bufblk pend ->
      0 <= sz /\ sz + Z.of_nat (length (nthl lines i)) <= 4611686018427387904 -> (length s + 2 <= fuel)%nat ->
      let l := nthl lines i in
      let '(ev, ok, r) := wa_run fd (snd (line_out BATCH pend l)) s in
      exists bl' sz' v8' v9' bufblk',
        exec call f' wr_body (wr_st (Z.of_nat (length pend)) sz (Z.of_nat i) v8 v9 (wm bufblk s lg))
        = (if ok then ONormal else OReturn (VInt 1)) (wr_st bl' sz' (Z.of_nat i) v8' v9' (wm bufblk' r (lg ++ ev)))
        /\ (ok = true -> bl' = Z.of_nat (length (fst (line_out BATCH pend l))) /\ sz' = sz + Z.of_nat (length l) /\
                         buf_ok bufblk' (fst (line_out BATCH pend l))).
    Proof.
      intros Hi Hbuf Hsz Hf l.
      destruct Hlines as [(lbblk & Hlb & Hln) (lnblk & Hbln & Hcells) Hlbs Hstr _ _].
      destruct old_lb as (La & Na1 & Na2). destruct old_bln as (Lb & Nb1 & Nb2). destruct (old_line i Hi) as (Lc & Nc1 & Nc2).
      set (lbi := nth i lbs O) in *.
      assert (Hl256 : bytes_lt256 l) by (apply nonul_lt256; apply nthl_nonul).
      assert (Hll : Z.of_nat (length l) <= 4611686018427387904) by (pose proof (nthl_len i); unfold l; lia).
      assert (Old : forall bufblk s lg, nth_error (wm bufblk s lg) lb = Some lbblk /\ nth_error (wm bufblk s lg) bln = Some lnblk /\
                                        str_at (wm bufblk s lg) lbi l).
      { intros. unfold str_at. rewrite !wm_old by assumption. split; [exact Hlb|]. split; [exact Hbln|]. apply Hstr. exact Hi. }
      destruct (Old bufblk s lg) as (M1 & M2 & M3).
      unfold wr_body, wr_for; cbn [fn_body cf_lbuf_wr].
      match goal with |- context [SSeq ?a (SSeq ?b (SSeq ?fl (SSeq ?lo ?z)))] =>
        change fl with wr_flush; change lo with wr_long; change z with wr_szs end.
      remember wr_flush as FL eqn:EFL. remember (SSeq wr_long wr_szs) as LO eqn:ELO.
      unfold wr_st. xstep.
      rewrite (fld_load _ lb lbblk L_ln (VPtr bln 0) _ M1 Hln) by reflexivity. xstep.
      rewrite (fld_load _ bln lnblk i (VPtr lbi 0) _ M2 (Hcells i Hi)) by lia. xstep.
      change 0 with (Z.of_nat 0). rewrite (builtin_strlen _ lbi l 0 M3 (nthl_nonul i)) by lia. xstep.
      rewrite Nat.sub_0_r. change (Z.of_nat 0) with 0. rewrite wrap_I64_small by lia.
      subst FL LO.
      pose proof (wr_flush_ok pend (Z.of_nat (length l)) bufblk s lg sz (Z.of_nat i) (VPtr lbi 0) f' Hbuf ltac:(lia) Hf) as X1.
      cbv zeta in X1. unfold wr_st in X1.
      rewrite line_out_eq. cbv zeta. cbn [fst snd].
      set (fl := (0 <? length pend)%nat && (BATCH <? length pend + length l)%nat).
      assert (Efl : (0 <? Z.of_nat (length pend)) && (4096 <? Z.of_nat (length pend) + Z.of_nat (length l)) = fl).
      { unfold fl. pose proof BATCH_Z. lia. }
      rewrite Efl in X1. rewrite wa_run_app.
      assert (Hpl : (length pend <= BATCH)%nat) by (destruct Hbuf as (Hlen & [_ H] & _); lia).
      assert (Hb' : forall bufblk s lg, nth_error (wm bufblk s lg) lbi = Some (cstr_block (zb l))) by (intros; apply Old).
      assert (N3 : lbi <> bb) by (unfold bb; lia).
      destruct fl eqn:Efl'.
      - (* the batch is flushed first *)
        cbn [wa_run]. destruct (wf_run fd pend s) as [[ev1 ok1] r1] eqn:W1. rewrite X1. destruct ok1.
        + pose proof (wf_run_sched_le fd pend s) as Hle. rewrite W1 in Hle. cbn [snd] in Hle.
          pose proof (wr_rest_ok (Z.of_nat i) [] l lbi bufblk r1 (lg ++ ev1) sz f' (buf_ok_nil _ _ Hbuf) Hb' Nc1 Nc2 N3 Hl256 Hll Hsz
                        ltac:(lia) ltac:(cbn [length]; lia)) as X2. cbv zeta in X2.
          destruct (wa_run fd (if (BATCH <=? length l)%nat then [l] else []) r1) as [[ev2 ok2] r2].
          destruct X2 as (bl' & sz' & bufblk' & X2 & Y2). unfold wr_st in X2. cbn [length] in X2. change (Z.of_nat 0) with 0 in X2.
          rewrite app_nil_r. rewrite X2. exists bl', sz', (VPtr lbi 0), (VInt (Z.of_nat (length l))), bufblk'.
          rewrite <- app_assoc. split; [reflexivity|exact Y2].
        + exists (Z.of_nat (length pend)), sz, (VPtr lbi 0), (VInt (Z.of_nat (length l))), bufblk. split; [reflexivity|discriminate].
      - (* the line fits, or nothing is batched *)
        cbn [wa_run]. rewrite X1.
        assert (Hfit : (length l < BATCH)%nat -> (length pend + length l <= BATCH)%nat).
        { intro Hs. unfold fl in Efl'. destruct (Nat.ltb_spec 0 (length pend)); [|lia]. cbn [andb] in Efl'.
          destruct (Nat.ltb_spec BATCH (length pend + length l)); [discriminate|lia]. }
        pose proof (wr_rest_ok (Z.of_nat i) pend l lbi bufblk s (lg ++ []) sz f' Hbuf Hb' Nc1 Nc2 N3 Hl256 Hll Hsz Hf Hfit) as X2.
        cbv zeta in X2.
        destruct (wa_run fd (if (BATCH <=? length l)%nat then [l] else []) s) as [[ev2 ok2] r2].
        destruct X2 as (bl' & sz' & bufblk' & X2 & Y2). unfold wr_st in X2. rewrite X2.
        exists bl', sz', (VPtr lbi 0), (VInt (Z.of_nat (length l))), bufblk'. rewrite app_nil_r. cbn [app].
        split; [reflexivity|exact Y2].
    Qed.

    Lemma wm_upd_log bufblk s lg lg' : upd (wm bufblk s lg) kl (enc_log lg') = wm bufblk s lg'.
    Proof.
      pose proof ks_lt. pose proof kl_lt. apply nth_error_ext_w. intro k.
      rewrite nth_error_upd_if by (rewrite wm_length; unfold bb; lia). rewrite !wm_nth.
      destruct (Nat.eqb k kl); reflexivity.
    Qed.
    (* ftruncate(fd, sz) *)
    Lemma trunc_call bufblk s lg sz :
      call X_ftruncate [VInt fd; VInt sz] (wm bufblk s lg) = Ok (VInt 0, wm bufblk s (lg ++ [EvTrunc fd sz])).
    Proof.
      unfold call. rewrite callx_S, x_ftruncate_none, ext_trunc. unfold sys_trunc.
      rewrite (proj2 (wm_world bufblk s lg)). rewrite <- (wm_upd_log bufblk s lg (lg ++ [EvTrunc fd sz])).
      rewrite enc_log_app. cbn [enc_log flat_map enc_ev app]. reflexivity.
    Qed.

    (* if (buf_len > 0 && write_fully(fd, buf, buf_len) < 0) return 1; ftruncate(fd, sz); return 0; *)
    Lemma wr_tail_ok pend bufblk s lg sz i v8 v9 f2 : buf_ok bufblk pend -> (length s + 2 <= fuel)%nat ->
      let '(ev, ok, r) := wa_run fd (lines_out BATCH pend []) s in
      exec call f2 wr_tail (wr_st (Z.of_nat (length pend)) sz i v8 v9 (wm bufblk s lg))
      = OReturn (VInt (if ok then 0 else 1))
                (wr_st (Z.of_nat (length pend)) sz i v8 v9 (wm bufblk r (lg ++ ev ++ if ok then [EvTrunc fd sz] else []))).
    Proof.
      intros (Hlen & Hin & H256) Hf.
      assert (Hpl : Z.of_nat (length pend) <= 4096) by (pose proof BATCH_Z as HBZ; destruct Hin as [_ HH]; lia).
      assert (Nb : bb <> ks /\ bb <> kl) by (pose proof ks_lt; pose proof kl_lt; unfold bb; lia).
      cbn [lines_out]. unfold wr_tail, wr_st; cbn [fn_body cf_lbuf_wr]. xstep. change (wrap I64 0) with 0.
      destruct (Nat.ltb_spec 0 (length pend)) as [H0|H0].
      - destruct (Z.ltb_spec 0 (Z.of_nat (length pend))); [|lia]. xstep. cbn [wa_run].
        pose proof (wf_call bb bufblk pend bufblk s lg (wm_buf _ _ _) (proj1 Nb) (proj2 Nb) Hin H256 ltac:(lia) Hf) as X.
        destruct (wf_run fd pend s) as [[ev ok] r]. unfold call. rewrite X. xstep. change (wrap I64 0) with 0. destruct ok.
        + destruct (Z.ltb_spec (Z.of_nat (length pend)) 0); [lia|]. xstep. fold call. rewrite trunc_call. xstep.
          rewrite app_nil_r, <- app_assoc. reflexivity.
        + cbn [Z.ltb Z.compare]. xstep. rewrite app_nil_r. reflexivity.
      - destruct (Z.ltb_spec 0 (Z.of_nat (length pend))); [lia|]. xstep. cbn [wa_run]. fold call. rewrite trunc_call. xstep. reflexivity.
    Qed.

    Lemma slice_step i : (i < en)%nat ->
      firstn (en - i) (skipn i lines) = nthl lines i :: firstn (en - S i) (skipn (S i) lines).
    Proof.
      intro Hi. replace (en - i)%nat with (S (en - S i)) by lia.
      rewrite (skipn_cons_nth_error lines i (nthl lines i)) by (unfold nthl; apply nth_error_nth'; lia). reflexivity.
    Qed.

    (* the loop over the lines, then the final flush and the truncation *)
    Lemma wr_loop_ok : forall k (i : nat) pend bufblk s lg sz v8 v9 fuel' fuel2,
      (en - i = k)%nat -> buf_ok bufblk pend ->
      0 <= sz /\ sz + Z.of_nat (length (concat (firstn (en - i) (skipn i lines)))) <= 4611686018427387904 ->
      (length s + 2 <= fuel)%nat -> (k + 1 <= fuel')%nat ->
      let ls := firstn (en - i) (skipn i lines) in
      let '(ev, ok, r) := wa_run fd (lines_out BATCH pend ls) s in
      exists st' bufblk',
        match exec call fuel' wr_for (wr_st (Z.of_nat (length pend)) sz (Z.of_nat i) v8 v9 (wm bufblk s lg)) with
        | ONormal st1 => exec call fuel2 wr_tail st1
        | o => o
        end = OReturn (VInt (if ok then 0 else 1)) st'
        /\ memm st' = wm bufblk' r (lg ++ ev ++ if ok then [EvTrunc fd (sz + Z.of_nat (length (concat ls)))] else []).
    Proof.
      induction k as [|k IH]; intros i pend bufblk s lg sz v8 v9 fuel' fuel2 Hk Hbuf Hsz Hf Hf' ls;
        (destruct fuel' as [|fuel']; [lia|]).
      - (* no line left *)
        unfold ls. rewrite Hk. cbn [firstn concat length]. rewrite Z.add_0_r.
        pose proof (wr_tail_ok pend bufblk s lg sz (Z.of_nat i) v8 v9 fuel2 Hbuf Hf) as X.
        destruct (wa_run fd (lines_out BATCH pend []) s) as [[ev ok] r].
        unfold wr_for; cbn [fn_body cf_lbuf_wr]. rewrite exec_for. unfold wr_st at 1. xstep.
        destruct (Z.ltb_spec (Z.of_nat i) (Z.of_nat en)); [lia|]. xstep. fold (wr_st (Z.of_nat (length pend)) sz (Z.of_nat i) v8 v9 (wm bufblk s lg)).
        rewrite X. eexists; exists bufblk. split; reflexivity.
      - (* line i *)
        assert (Hi : (i < en)%nat) by lia. unfold ls. rewrite (slice_step i Hi) in *. cbn [lines_out concat] in *.
        rewrite app_length in Hsz. rewrite wa_run_app.
        pose proof (wr_body_ok i pend bufblk s lg sz v8 v9 (S fuel') ltac:(lia) Hbuf ltac:(lia) Hf) as X. cbv zeta in X.
        pose proof (wa_run_sched_le fd (snd (line_out BATCH pend (nthl lines i))) s) as Hle.
        destruct (wa_run fd (snd (line_out BATCH pend (nthl lines i))) s) as [[ev1 ok1] r1]. cbn [snd] in Hle.
        destruct X as (bl' & sz' & v8' & v9' & bufblk1 & X & Y).
        unfold wr_for; cbn [fn_body cf_lbuf_wr].
        match goal with |- context [SFor ?c ?stp ?b] => change b with wr_body end. remember wr_body as B eqn:EB.
        rewrite exec_for. unfold wr_st at 1. xstep.
        destruct (Z.ltb_spec (Z.of_nat i) (Z.of_nat en)); [|lia]. xstep.
        fold (wr_st (Z.of_nat (length pend)) sz (Z.of_nat i) v8 v9 (wm bufblk s lg)).
        subst B. rewrite X. destruct ok1.
        + destruct (Y eq_refl) as (-> & -> & Hbuf1). unfold wr_st. xstep. rewrite chk_I32 by lia. xstep.
          replace (Z.of_nat i + 1) with (Z.of_nat (S i)) by lia.
          set (pend1 := fst (line_out BATCH pend (nthl lines i))) in *.
          specialize (IH (S i) pend1 bufblk1 r1 (lg ++ ev1) (sz + Z.of_nat (length (nthl lines i))) v8' v9' fuel' fuel2
                         ltac:(lia) Hbuf1 ltac:(lia) ltac:(lia) ltac:(lia)). cbv zeta in IH.
          destruct (wa_run fd (lines_out BATCH pend1 (firstn (en - S i) (skipn (S i) lines))) r1) as [[ev2 ok2] r2].
          destruct IH as (st' & bufblk' & IH1 & IH2). unfold wr_for, wr_st in IH1; cbn [fn_body cf_lbuf_wr] in IH1.
          unfold wr_body, wr_for; cbn [fn_body cf_lbuf_wr]. rewrite IH1. exists st', bufblk'. split; [reflexivity|]. rewrite IH2. rewrite <- !app_assoc.
          rewrite app_length, Nat2Z.inj_add, Z.add_assoc. reflexivity.
        + eexists; exists bufblk1. split; [reflexivity|]. cbn [memm wr_st]. rewrite app_nil_r. reflexivity.
    Qed.

    (* lbuf_wr(lb, fd, beg, end) on the C text, under any schedule *)
    Theorem tr_lbuf_wr_sec : (length s0 + 2 <= fuel)%nat -> (en - beg + 2 <= fuel)%nat ->
      let ls := IoDefs.slice beg en lines in
      let '(ev, ok, r) := wa_run fd (lines_out BATCH [] ls) s0 in
      exists bufblk',
        callx ext cprog fuel (S (S (S d))) F_lbuf_wr [VPtr lb 0; VInt fd; VInt (Z.of_nat beg); VInt (Z.of_nat en)] m0
        = Ok (VInt (if ok then 0 else 1),
              wm bufblk' r (lg0 ++ ev ++ if ok then [EvTrunc fd (Z.of_nat (length (concat ls)))] else [])).
    Proof.
      intros Hf Hf' ls.
      assert (Hb0 : buf_ok (repeat VUndef BATCH) []).
      { split; [apply repeat_length|]. split; [split; [reflexivity|rewrite repeat_length; cbn; lia]|constructor]. }
      assert (Hcat : Z.of_nat (length (concat (firstn (en - beg) (skipn beg lines)))) <= Z.of_nat (length (concat lines))).
      { rewrite <- (firstn_skipn beg lines) at 2. rewrite concat_app, app_length.
        rewrite <- (firstn_skipn (en - beg) (skipn beg lines)) at 2. rewrite concat_app, app_length. lia. }
      pose proof (wr_loop_ok (en - beg) beg [] (repeat VUndef BATCH) s0 lg0 0 VUndef VUndef fuel fuel eq_refl Hb0 ltac:(lia) Hf ltac:(lia)) as X.
      cbv zeta in X. unfold ls, IoDefs.slice.
      destruct (wa_run fd (lines_out BATCH [] (firstn (en - beg) (skipn beg lines))) s0) as [[ev ok] r].
      destruct X as (st' & bufblk' & X1 & X2). exists bufblk'.
      enterx F_lbuf_wr cf_lbuf_wr. xstep. rewrite malloc_ok by lia. xstep. change (Z.to_nat 4096) with BATCH.
      rewrite wm_start. change (wrap I64 0) with 0.
      unfold wr_for, wr_tail, wr_st, call, bb in X1; cbn [fn_body cf_lbuf_wr length] in X1. change (Z.of_nat 0) with 0 in X1.
      rewrite X1. rewrite X2. reflexivity.
    Qed.
  End Wr.
End Write.

(* ------------------------------------------------------------------ the statements in the model's own terms *)
(* the kernel oracle answers X_write / X_ftruncate as the theorems require *)
Lemma sys_is_write ks kl args m : sys ks kl X_write args m = sys_write ks kl args m.
Proof. unfold sys. rewrite Nat.eqb_refl. reflexivity. Qed.
Lemma sys_is_trunc ks kl args m : sys ks kl X_ftruncate args m = sys_trunc kl args m.
Proof. unfold sys. replace (Nat.eqb X_ftruncate X_write) with false by (vm_compute; reflexivity). rewrite Nat.eqb_refl. reflexivity. Qed.

(* an oracle that is the kernel of the model on write(2) and ftruncate(2) *)
Definition kernel_oracle (ext : nat -> list val -> mem -> res (val * mem)) (ks kl : nat) : Prop :=
  ks <> kl /\ (forall args m, ext X_write args m = sys_write ks kl args m) /\
  (forall args m, ext X_ftruncate args m = sys_trunc kl args m).
Lemma sys_kernel ks kl : ks <> kl -> kernel_oracle (sys ks kl) ks kl.
Proof. intro H. split; [exact H|]. split; [apply sys_is_write|apply sys_is_trunc]. Qed.

(* write_fully against IoDefs.write_fully: the same bytes reach the file, the same schedule is left, the result is sz or -1 *)
Theorem tr_write_fully_model ext ks kl fd b o (blk : block) (p : bytes) s lg m d fuel :
  kernel_oracle ext ks kl -> world_at ks kl m s lg -> nth_error m b = Some blk -> b <> ks -> b <> kl ->
  0 <= o -> bytes_in blk (Z.to_nat o) p -> bytes_lt256 p -> Z.of_nat (length p) <= 4611686018427387904 ->
  (length s + 2 <= fuel)%nat ->
  exists ev, let '(w, ok, r) := IoDefs.write_fully p s in
    callx ext cprog fuel (S (S d)) F_lbuf_write_fully [VInt fd; VPtr b o; VInt (Z.of_nat (length p))] m
    = Ok (VInt (if ok then Z.of_nat (length p) else -1), set_world ks kl m r (lg ++ ev)) /\ reached ev = w.
Proof.
  intros (K1 & K2 & K3) Hw Hb N1 N2 Ho Hp H256 Hsz Hf.
  pose proof (tr_write_fully ext ks kl K1 K2 K3 fd b o blk p s lg m d fuel Hw Hb N1 N2 Ho Hp H256 Hsz Hf) as X.
  pose proof (wf_run_model fd p s) as Y. destruct (wf_run fd p s) as [[ev ok] r]. exists ev. rewrite Y. split; [exact X|reflexivity].
Qed.

(* lbuf_wr against IoDefs.lbuf_wr + IoDefs.write_all: the payloads of the model, written in order under the schedule;
   0 is returned iff no payload failed, and then the log ends with ftruncate(fd, wsz) *)
Theorem tr_lbuf_wr ext ks kl m lb bln lbs lines fd beg en s lg d fuel :
  kernel_oracle ext ks kl -> world_at ks kl m s lg -> lines_at ks kl m lb bln lbs lines ->
  (en <= length lines)%nat -> Z.of_nat (length lines) <= 2147483647 ->
  Z.of_nat (length (concat lines)) <= 4611686018427387904 ->
  (length s + 2 <= fuel)%nat -> (en - beg + 2 <= fuel)%nat ->
  let w := IoDefs.lbuf_wr lines beg en in
  let '(ev, ok, r) := wa_run fd (IoDefs.outp w) s in
  exists bufblk',
    callx ext cprog fuel (S (S (S d))) F_lbuf_wr [VPtr lb 0; VInt fd; VInt (Z.of_nat beg); VInt (Z.of_nat en)] m
    = Ok (VInt (if ok then 0 else 1),
          wm ks kl m bufblk' r (lg ++ ev ++ if ok then [EvTrunc fd (Z.of_nat (IoDefs.wsz w))] else [])).
Proof.
  intros (K1 & K2 & K3) Hw Hl He Hs Ht Hf Hf' w.
  destruct (lbuf_wr_out lines beg en) as [E1 E2]. unfold w. rewrite E1, E2.
  exact (tr_lbuf_wr_sec ext ks kl K1 K2 K3 m lb bln lbs lines fd beg en d fuel s lg Hw Hl He Hs Ht Hf Hf').
Qed.

(* ... and in the terms of C03: the bytes that reached the file and the unused schedule are IoDefs.write_all's, the
   return value is 0 exactly when no outcome the run consumed was an error *)
Theorem tr_lbuf_wr_faults ext ks kl m lb bln lbs lines fd beg en s lg d fuel :
  kernel_oracle ext ks kl -> world_at ks kl m s lg -> lines_at ks kl m lb bln lbs lines ->
  (en <= length lines)%nat -> Z.of_nat (length lines) <= 2147483647 ->
  Z.of_nat (length (concat lines)) <= 4611686018427387904 ->
  (length s + 2 <= fuel)%nat -> (en - beg + 2 <= fuel)%nat ->
  let w := IoDefs.lbuf_wr lines beg en in
  let '(dd, ok, r) := IoDefs.write_all (IoDefs.outp w) s in
  exists ev bufblk' used,
    callx ext cprog fuel (S (S (S d))) F_lbuf_wr [VPtr lb 0; VInt fd; VInt (Z.of_nat beg); VInt (Z.of_nat en)] m
    = Ok (VInt (if ok then 0 else 1),
          wm ks kl m bufblk' r (lg ++ ev ++ if ok then [EvTrunc fd (Z.of_nat (IoDefs.wsz w))] else [])) /\
    reached ev = dd /\ s = used ++ r /\ (ok = false <-> In IoDefs.OErr used).
Proof.
  intros K Hw Hl He Hs Ht Hf Hf' w.
  pose proof (tr_lbuf_wr ext ks kl m lb bln lbs lines fd beg en s lg d fuel K Hw Hl He Hs Ht Hf Hf') as X. cbv zeta in X. fold w in X.
  pose proof (wa_run_model fd (IoDefs.outp w) s) as Y. pose proof (wa_run_ok_iff fd (IoDefs.outp w) s) as Z.
  destruct (wa_run fd (IoDefs.outp w) s) as [[ev ok] r]. rewrite Y. destruct X as (bufblk' & X). destruct Z as (used & Z1 & Z2).
  exists ev, bufblk', used. split; [exact X|]. split; [reflexivity|]. split; assumption.
Qed.

(* the two theorems with the tie to the model spelled out in one statement (what Properties_C01.v / C03.v quote) *)
Theorem tr_write_fully_full ext ks kl fd b o (blk : block) (p : bytes) s lg m d fuel :
  kernel_oracle ext ks kl -> world_at ks kl m s lg -> nth_error m b = Some blk -> b <> ks -> b <> kl ->
  0 <= o -> bytes_in blk (Z.to_nat o) p -> bytes_lt256 p -> Z.of_nat (length p) <= 4611686018427387904 ->
  (length s + 2 <= fuel)%nat ->
  let '(ev, ok, r) := wf_run fd p s in
  callx ext cprog fuel (S (S d)) F_lbuf_write_fully [VInt fd; VPtr b o; VInt (Z.of_nat (length p))] m
  = Ok (VInt (if ok then Z.of_nat (length p) else -1), set_world ks kl m r (lg ++ ev)) /\
  IoDefs.write_fully p s = (reached ev, ok, r) /\
  exists used, s = used ++ r /\ (ok = false <-> In IoDefs.OErr used).
Proof.
  intros (K1 & K2 & K3) Hw Hb N1 N2 Ho Hp H256 Hsz Hf.
  pose proof (tr_write_fully ext ks kl K1 K2 K3 fd b o blk p s lg m d fuel Hw Hb N1 N2 Ho Hp H256 Hsz Hf) as X.
  pose proof (wf_run_model fd p s) as Y. pose proof (wf_run_ok_iff fd p s) as Z.
  destruct (wf_run fd p s) as [[ev ok] r]. split; [exact X|]. split; [exact Y|exact Z].
Qed.

(* ------------------------------------------------------------------ helpers for examples: a small memory *)
(* the log block of a memory, and a struct lbuf block whose ln field points to block bln *)
Definition log_of (m : mem) (kl : nat) : block := match nth_error m kl with Some b => b | None => [] end.
Definition lbuf_block (bln : nat) : block := repeat (VInt 0) 64 ++ [VPtr bln 0] ++ repeat (VInt 0) 10.

(* a buffer of three lines "ab\n", "c\n" and a line of 4096 bytes: block 0 the struct lbuf, block 1 the line table,
   blocks 2..4 the lines, block 5 the schedule, block 6 the log *)
Definition ex_long : bytes := repeat 120%N 4095 ++ [10%N].
Definition ex_lines : list bytes := [[97; 98; 10]; [99; 10]; ex_long]%N.
Definition ex_mem (s : sched) : mem :=
  [lbuf_block 1; [VPtr 2 0; VPtr 3 0; VPtr 4 0]; cstr_block (zb [97; 98; 10]%N); cstr_block (zb [99; 10]%N);
   cstr_block (zb ex_long); enc_sch s; []].
Lemma ex_long_nonul : nonul ex_long.
Proof.
  unfold ex_long. apply Forall_app. split; [|constructor; [split; reflexivity|constructor]].
  apply Forall_forall. intros x Hx. apply repeat_spec in Hx. subst x. split; reflexivity.
Qed.
Lemma ex_lines_at s : lines_at 5 6 (ex_mem s) 0 1 [2; 3; 4]%nat ex_lines.
Proof.
  constructor.
  - exists (lbuf_block 1). split; [reflexivity|vm_compute; reflexivity].
  - exists [VPtr 2 0; VPtr 3 0; VPtr 4 0]. split; [reflexivity|]. intros i Hi. change (length ex_lines) with 3%nat in Hi.
    destruct i as [|[|[|i]]]; [reflexivity|reflexivity|reflexivity|lia].
  - reflexivity.
  - intros i Hi. change (length ex_lines) with 3%nat in Hi.
    destruct i as [|[|[|i]]]; [reflexivity|reflexivity|reflexivity|lia].
  - constructor; [repeat constructor|constructor; [repeat constructor|constructor; [exact ex_long_nonul|constructor]]].
  - split; intros H; cbn in H; intuition discriminate.
Qed.
(* lbuf_wr(lb, 7, 0, 3) run on that buffer under schedule s: the value returned and the log block afterwards *)
Definition ex_wr (s : sched) : option (val * block) :=
  match callx (sys 5 6) cprog 10 4 F_lbuf_wr [VPtr 0 0; VInt 7; VInt 0; VInt 3] (ex_mem s) with
  | Ok (v, m') => Some (v, log_of m' 6)
  | Err _ => None
  end.
(* write_fully(5, block 0, n) run on a memory whose block 0 is blk, under schedule s *)
Definition ex_wf (blk : block) (n : Z) (s : sched) : res (val * mem) :=
  callx (sys 1 2) cprog 10 3 F_lbuf_write_fully [VInt 5; VPtr 0 0; VInt n] [blk; enc_sch s; []].
