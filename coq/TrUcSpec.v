(* TrUcSpec.v -- property C16 stated about the C TEXT: the translation theorems of TrUc.v composed with the
   code-point theorems of UcSegProps.v.  For a line that is the UTF-8 encoding of ANY list of scalar values,
   held anywhere in memory, the translated uc_slen / uc_chr / uc_off of /repo's uc.c compute the character
   count, the byte offset of the k-th character and its inverse. *)
From Coq Require Import List ZArith NArith Bool Lia.
From NV Require Import Bytes UcDefs UcSpec UcProps UcSegProps CLite CLiteProps GenCFuncs CLiteTac TrUcCode TrUc.
Import ListNotations.
Local Open Scope Z_scope.

Theorem ctext_uc_slen m b cs d fuel :
  Forall scalar cs -> str_at m b (chars cs) -> (length (chars cs) < fuel)%nat -> Z.of_nat (length (chars cs)) <= 2147483647 ->
  callf cprog fuel (S (S d)) F_uc_slen [VPtr b 0] m = Ok (VInt (Z.of_nat (length cs)), m).
Proof.
  intros Hcs Hs Hf Hmax. change 0 with (Z.of_nat 0).
  rewrite (tr_uc_slen m b (chars cs) 0 d fuel Hs (chars_nonul cs Hcs)) by (cbn; lia).
  cbn [skipn]. rewrite (uc_slen_chars cs Hcs). reflexivity.
Qed.

Theorem ctext_uc_chr m b cs k d fuel :
  Forall scalar cs -> (k <= length cs)%nat -> str_at m b (chars cs) -> (length (chars cs) < fuel)%nat ->
  Z.of_nat (length (chars cs)) <= 2147483647 ->
  callf cprog fuel (S (S (S d))) F_uc_chr [VPtr b 0; VInt (Z.of_nat k)] m = Ok (VPtr b (Z.of_nat (off_of cs k)), m).
Proof.
  intros Hcs Hk Hs Hf Hmax. change (VPtr b 0) with (VPtr b (Z.of_nat 0)).
  rewrite (tr_uc_chr m b (chars cs) 0 (Z.of_nat k) d fuel Hs (chars_nonul cs Hcs)) by (cbn; lia).
  cbn [skipn]. rewrite (uc_chr_chars cs k Hcs Hk). reflexivity.
Qed.

Theorem ctext_uc_off m b cs k d fuel :
  Forall scalar cs -> (k <= length cs)%nat -> str_at m b (chars cs) -> (length (chars cs) < fuel)%nat ->
  Z.of_nat (length (chars cs)) <= 2147483647 ->
  callf cprog fuel (S (S (S d))) F_uc_off [VPtr b 0; VInt (Z.of_nat (off_of cs k))] m = Ok (VInt (Z.of_nat k), m).
Proof.
  intros Hcs Hk Hs Hf Hmax.
  assert (off_of cs k <= length (chars cs))%nat as Hle.
  { unfold off_of. rewrite <- (firstn_skipn k cs) at 2. unfold chars. rewrite flat_map_app, app_length. lia. }
  change (VPtr b 0) with (VPtr b (Z.of_nat 0)).
  rewrite (tr_uc_off m b (chars cs) 0 (off_of cs k) d fuel Hs (chars_nonul cs Hcs)) by (cbn; lia).
  cbn [skipn]. rewrite (uc_off_chars cs k Hcs Hk). reflexivity.
Qed.
