(* CapProps4.v -- C05: replace() of ex.c reads inside the line when the group offsets are well formed (CapDefs4.v) *)
From Coq Require Import List NArith ZArith Bool Lia ZifyBool ZifyNat ZifyN.
From NV Require Import Bytes CapDefs CapDefs4.
Import ListNotations.
Local Open Scope Z_scope.

Lemma offs_ok_pair n : forall offs g so eo, offs_ok n offs = true ->
  nth_error offs (2 * g) = Some so -> nth_error offs (S (2 * g)) = Some eo -> grp_ok n so eo = true.
Proof.
  fix IH 1. intros offs g so eo H A B. destruct offs as [|a [|b r]]; cbn [offs_ok] in H.
  - destruct g; discriminate.
  - discriminate.
  - apply andb_true_iff in H. destruct H as [H1 H2]. destruct g as [|g].
    + cbn in A, B. inversion A; inversion B; subst. exact H1.
    + replace (2 * S g)%nat with (S (S (2 * g))) in A, B by lia. cbn [nth_error] in A, B. exact (IH r g so eo H2 A B).
Qed.

Lemma offs_ok_even n : forall offs, offs_ok n offs = true -> Nat.even (length offs) = true.
Proof.
  fix IH 1. intros offs H. destruct offs as [|a [|b r]]; cbn [offs_ok] in H; [reflexivity|discriminate|].
  apply andb_true_iff in H. cbn [length]. exact (IH r (proj2 H)).
Qed.

Lemma rd_range_ok ln so eo : grp_ok (Z.of_nat (length ln)) so eo = true ->
  exists seg, rd_range ln so eo = Ok seg /\ Z.of_nat (length seg) = eo - so /\ (Z.of_nat (length seg) <= Z.of_nat (length ln)).
Proof.
  intro H. unfold rd_range. destruct (eo - so =? 0) eqn:E0.
  - exists []. split; [reflexivity|]. cbn. unfold grp_ok in H. lia.
  - unfold grp_ok in H.
    assert (R : 0 <= so /\ so <= eo /\ eo <= Z.of_nat (length ln)) by lia.
    replace ((so <? 0) || (eo <? so) || (Z.of_nat (length ln) + 1 <? eo)) with false by lia.
    eexists. split; [reflexivity|]. rewrite firstn_length, skipn_length, app_length. cbn [length]. lia.
Qed.

Lemma digit_index c1 : c_digit c1 = true -> (S (2 * N.to_nat (c1 - 48)) < 20)%nat.
Proof. unfold c_digit. lia. Qed.

(* the theorem: with int offs[32] filled with well-formed offsets for the line, replace() finishes without a load outside
   offs[] or outside the line, for EVERY replacement text *)
Lemma replace_safe_n ln offs : length offs = NOFFS -> offs_ok (Z.of_nat (length ln)) offs = true ->
  forall n rep, (length rep <= n)%nat -> exists out, replace rep ln offs = Ok out /\ (length out <= length rep * (1 + length ln))%nat.
Proof.
  intros Hl Hw. induction n as [|n IH]; intros rep Hn.
  - destruct rep; [|cbn in Hn; lia]. exists []. split; [reflexivity|cbn; lia].
  - destruct rep as [|c r]; [exists []; split; [reflexivity|cbn; lia]|].
    cbn [length] in Hn. cbn [replace]. destruct (c =? 92)%N.
    + destruct r as [|c1 r'].
      * exists [c]. split; [reflexivity|cbn; lia].
      * cbn [length] in Hn. destruct (IH r' ltac:(lia)) as [t [Ht Lt]]. destruct (c_digit c1) eqn:D.
        -- pose proof (digit_index c1 D) as Hi. unfold NOFFS in Hl.
           set (g := N.to_nat (c1 - 48)) in *.
           destruct (nth_error offs (2 * g)) as [so|] eqn:A; [|apply nth_error_None in A; lia].
           destruct (nth_error offs (S (2 * g))) as [eo|] eqn:B; [|apply nth_error_None in B; lia].
           unfold ofs. rewrite A, B. cbn [bind].
           destruct (rd_range_ok ln so eo (offs_ok_pair _ offs g so eo Hw A B)) as [seg [Hs [_ Ls]]].
           rewrite Hs, Ht. cbn [bind]. exists (seg ++ t). split; [reflexivity|]. rewrite app_length. cbn [length]. nia.
        -- rewrite Ht. cbn [bind]. exists (c1 :: t). split; [reflexivity|]. cbn [length]. nia.
    + destruct (IH r ltac:(lia)) as [t [Ht Lt]]. rewrite Ht. cbn [bind]. exists (c :: t). split; [reflexivity|]. cbn [length]. nia.
Qed.

(* the theorem: with int offs[32] filled with well-formed offsets for the line, replace() finishes without a load outside
   offs[] or outside the line, for EVERY replacement text *)
Theorem replace_safe ln offs : length offs = NOFFS -> offs_ok (Z.of_nat (length ln)) offs = true ->
  forall rep, exists out, replace rep ln offs = Ok out /\ (length out <= length rep * (1 + length ln))%nat.
Proof. intros Hl Hw rep. exact (replace_safe_n ln offs Hl Hw (length rep) rep (le_n _)). Qed.

(* the hypothesis is needed: a reference to a group whose offsets are not well formed is an out-of-bounds load *)
Theorem replace_needs_ok ln offs d so eo rep' : (d < 10)%nat ->
  nth_error offs (2 * d) = Some so -> nth_error offs (S (2 * d)) = Some eo ->
  eo <> so -> (so < 0 \/ eo < so \/ Z.of_nat (length ln) + 1 < eo) ->
  replace (92%N :: (48 + N.of_nat d)%N :: rep') ln offs = OobRd.
Proof.
  intros Hd A B Hne Hbad. cbn [replace]. replace (92 =? 92)%N with true by reflexivity.
  assert (D : c_digit (48 + N.of_nat d) = true) by (unfold c_digit; lia).
  rewrite D. replace (N.to_nat (48 + N.of_nat d - 48)) with d by lia.
  unfold ofs. rewrite A, B. cbn [bind]. unfold rd_range.
  replace (eo - so =? 0) with false by lia.
  replace ((so <? 0) || (eo <? so) || (Z.of_nat (length ln) + 1 <? eo)) with true by lia. reflexivity.
Qed.
