(* SearchProps.v -- C13: proofs about coq/SearchDefs.v. *)
From Coq Require Import List NArith ZArith Bool Arith Lia.
From NV Require Import Bytes UcDefs UcSpec UcProps UcSegProps GenConsts SearchDefs.
Import ListNotations.
Local Open Scope nat_scope.

(* ---------------------------------------------------------------------------------------------- *)
(* 1. the scan only depends on the row matcher's answers on the lines of the buffer *)

Section Ext.
Variables fm1 fm2 : bytes -> nat -> option (nat * nat).

Lemma fwd_row_ext s : (forall k, fm1 s k = fm2 s k) -> forall off, fwd_row fm1 s off = fwd_row fm2 s off.
Proof. intros H off. unfold fwd_row. now rewrite H. Qed.

Lemma bwd_row_ext s : (forall k, fm1 s k = fm2 s k) ->
  forall f off lim acc, bwd_row fm1 f s off lim acc = bwd_row fm2 f s off lim acc.
Proof.
  intros H f. induction f as [|f IH]; intros off lim acc; cbn [bwd_row]; [reflexivity|].
  rewrite H. destruct (fm2 s off) as [[b e]|]; [|reflexivity].
  destruct (phantom s (off + b)); [reflexivity|].
  destruct (match lim with Some o0 => o0 <=? uc_off s (off + b) | None => false end); [reflexivity|].
  destruct (_ || _); [reflexivity|]. apply IH.
Qed.

Lemma occ_ext s : (forall k, fm1 s k = fm2 s k) -> forall f off, occ fm1 f s off = occ fm2 f s off.
Proof.
  intros H f. induction f as [|f IH]; intros off; cbn [occ]; [reflexivity|].
  rewrite H. destruct (fm2 s off) as [[b e]|]; [|reflexivity].
  destruct (phantom s (off + b)); [reflexivity|]. now rewrite IH.
Qed.

Lemma fwd_rows_ext rows : (forall s, In s rows -> forall k, fm1 s k = fm2 s k) ->
  forall i first, fwd_rows fm1 rows i first = fwd_rows fm2 rows i first.
Proof.
  induction rows as [|s rest IH]; intros H i first; cbn [fwd_rows]; [reflexivity|].
  rewrite (fwd_row_ext s) by (apply H; now left).
  destruct (fwd_row fm2 s first) as [[o l]|]; [reflexivity|]. apply IH. intros; apply H; now right.
Qed.

Lemma bwd_rows_ext rows : (forall s, In s rows -> forall k, fm1 s k = fm2 s k) ->
  forall i lim, bwd_rows fm1 rows i lim = bwd_rows fm2 rows i lim.
Proof.
  induction rows as [|s rest IH]; intros H i lim; cbn [bwd_rows]; [reflexivity|].
  rewrite (bwd_row_ext s) by (apply H; now left).
  destruct (bwd_row fm2 (S (length s)) s 0 lim None) as [[[o l]|]|]; try reflexivity.
  apply IH. intros; apply H; now right.
Qed.

Lemma lbuf_search_g_ext lb : (forall s, In s lb -> forall k, fm1 s k = fm2 s k) ->
  forall fwd r0 o0, lbuf_search_g fm1 lb fwd r0 o0 = lbuf_search_g fm2 lb fwd r0 o0.
Proof.
  intros H fwd r0 o0. unfold lbuf_search_g. destruct (nth_error lb r0) as [s|]; [|reflexivity].
  destruct fwd.
  - destruct (uc_chr s (Z.of_nat o0 + 1)); [|reflexivity]. apply fwd_rows_ext.
    intros t Ht. apply H. revert Ht. clear. revert lb. induction r0; intros lb; [now cbn|].
    destruct lb; cbn; [tauto|]. intros; right; now apply IHr0.
  - apply bwd_rows_ext. intros t Ht. apply H. apply in_rev in Ht.
    revert Ht. generalize (S r0). clear. intros n. revert lb. induction n; intros lb; cbn; [tauto|].
    destruct lb; cbn; [tauto|]. intros [->|Ht]; [now left|right; now apply IHn].
Qed.
End Ext.

Section ExtCmds.
Variables fmk1 fmk2 : bytes -> bytes -> nat -> option (nat * nat).
Variable rcomp : bytes -> bool.
Variable lb : list bytes.
Hypothesis Hfm : forall kw s, In s lb -> forall k, fmk1 kw s k = fmk2 kw s k.

Lemma lbuf_search_ext kw fwd r0 o0 :
  lbuf_search fmk1 rcomp kw lb fwd r0 o0 = lbuf_search fmk2 rcomp kw lb fwd r0 o0.
Proof. unfold lbuf_search. destruct (rcomp kw); [|reflexivity]. apply lbuf_search_g_ext. intros; now apply Hfm. Qed.

Lemma search_iter_ext cnt kw fwd : forall r o,
  search_iter fmk1 rcomp cnt kw lb fwd r o = search_iter fmk2 rcomp cnt kw lb fwd r o.
Proof.
  induction cnt as [|c IH]; intros r o; cbn [search_iter]; [reflexivity|].
  rewrite lbuf_search_ext. destruct (lbuf_search fmk2 rcomp kw lb fwd r o); try reflexivity. apply IH.
Qed.

Lemma vi_search_ext st cmd cnt row off :
  vi_search fmk1 rcomp st lb cmd cnt row off = vi_search fmk2 rcomp st lb cmd cnt row off.
Proof. unfold vi_search. now rewrite search_iter_ext. Qed.

Lemma search_cmd_ext st cmd cnt xrow xoff :
  search_cmd fmk1 rcomp st lb cmd cnt xrow xoff = search_cmd fmk2 rcomp st lb cmd cnt xrow xoff.
Proof.
  unfold search_cmd. destruct (match cmd with CWord => _ | _ => (st, true) end) as [st0 ok0].
  destruct (negb ok0); [reflexivity|]. now rewrite vi_search_ext.
Qed.

Lemma run_cmds_ext cmds : forall st xrow xoff,
  run_cmds fmk1 rcomp st lb cmds xrow xoff = run_cmds fmk2 rcomp st lb cmds xrow xoff.
Proof.
  induction cmds as [|[c n] rest IH]; intros st xrow xoff; cbn [run_cmds]; [reflexivity|].
  rewrite search_cmd_ext. destruct (search_cmd fmk2 rcomp st lb c n xrow xoff) as [[st1 ok] [r o]].
  now rewrite IH.
Qed.
End ExtCmds.

(* suffix-invariance of a matcher on the lines of a buffer *)
Definition suffix_inv (rfind : bytes -> bytes -> bool -> option (nat * nat))
                      (wfind : bytes -> bytes -> nat -> option (nat * nat)) (kw : bytes) : Prop :=
  forall s k, line_ok s -> rfind kw (skipn k s) (negb (k =? 0)) = wfind kw s k.

Theorem spec_equiv rfind wfind rcomp lb cmds st xrow xoff :
  Forall line_ok lb -> (forall kw, suffix_inv rfind wfind kw) ->
  run_cmds (fm_suffix rfind) rcomp st lb cmds xrow xoff = run_cmds wfind rcomp st lb cmds xrow xoff.
Proof.
  intros Hl Hs. apply run_cmds_ext. intros kw s Hin k. unfold fm_suffix. apply Hs.
  rewrite Forall_forall in Hl. now apply Hl.
Qed.

Theorem spec_equiv_one rfind wfind rcomp lb kw fwd cnt r0 o0 :
  Forall line_ok lb -> suffix_inv rfind wfind kw ->
  search_iter (fm_suffix rfind) rcomp cnt kw lb fwd r0 o0 = search_iter wfind rcomp cnt kw lb fwd r0 o0.
Proof.
  intros Hl Hs. revert r0 o0. induction cnt as [|c IH]; intros r0 o0; cbn [search_iter]; [reflexivity|].
  unfold lbuf_search. destruct (rcomp kw); [|reflexivity].
  rewrite (lbuf_search_g_ext (fm_suffix rfind kw) (wfind kw)).
  - destruct (lbuf_search_g (wfind kw) lb fwd r0 o0); try reflexivity. apply IH.
  - intros s Hin k. unfold fm_suffix. apply Hs. rewrite Forall_forall in Hl. now apply Hl.
Qed.

(* ---------------------------------------------------------------------------------------------- *)
(* 2. the reference matcher is suffix-invariant for patterns without \< and \> *)

Lemma clen_pos s : 1 <= clen s.
Proof. unfold clen. lia. Qed.

Lemma atom_step_pos ic a s n : atom_step ic a s = Some n -> 1 <= n.
Proof.
  unfold atom_step. destruct s as [|c s']; [discriminate|].
  pose proof (clen_pos (c :: s')).
  destruct a; try discriminate.
  - destruct (_ =? _)%N; [|discriminate]. intros [= <-]. lia.
  - destruct (_ =? _)%N; [discriminate|]. intros [= <-]. lia.
  - destruct (_ && _); [discriminate|]. destruct (xorb _ _); [|discriminate]. intros [= <-]. lia.
Qed.

Lemma lastb_pos n s p1 p2 : 1 <= n -> lastb n s p1 = lastb n s p2.
Proof. destruct n; [lia|reflexivity]. Qed.

Section Indep.
Variables ic notbol : bool.

Lemma star_loop_indep k a : forall fuel p1 p2 s,
  k p1 s = k p2 s -> star_loop ic k a fuel p1 s = star_loop ic k a fuel p2 s.
Proof.
  intros fuel p1 p2 s Hk. destruct fuel as [|f]; cbn [star_loop]; [exact Hk|].
  destruct (atom_step ic a s) as [n|] eqn:E; [|exact Hk].
  rewrite (lastb_pos n s p1 p2) by (eapply atom_step_pos; eauto). now rewrite Hk.
Qed.

Lemma mt_indep its : forallb (fun it => negb (word_atom (fst it))) its = true ->
  forall p1 p2 s, bol_ok p1 notbol s = bol_ok p2 notbol s ->
  mt ic notbol its p1 s = mt ic notbol its p2 s.
Proof.
  induction its as [|[a st] r IH]; intros Hw p1 p2 s Hb; cbn [mt]; [reflexivity|].
  cbn [forallb fst] in Hw. apply andb_true_iff in Hw. destruct Hw as [Ha Hr].
  destruct st.
  - apply star_loop_indep. now apply IH.
  - destruct (zero_width a) eqn:Z.
    + assert (atom_zero a p1 notbol s = atom_zero a p2 notbol s) as ->.
      { destruct a; cbn in *; try reflexivity; try discriminate. exact Hb. }
      destruct (atom_zero a p2 notbol s); [|reflexivity]. now apply IH.
    + destruct (atom_step ic a s) as [n|] eqn:E; [|reflexivity].
      now rewrite (lastb_pos n s p1 p2) by (eapply atom_step_pos; eauto).
Qed.

Lemma scan_indep its : forallb (fun it => negb (word_atom (fst it))) its = true ->
  forall fuel p1 p2 s j, bol_ok p1 notbol s = bol_ok p2 notbol s ->
  scan ic notbol fuel its p1 s j = scan ic notbol fuel its p2 s j.
Proof.
  intros Hw fuel p1 p2 s j Hb. destruct fuel as [|f]; cbn [scan]; [reflexivity|].
  rewrite (mt_indep its Hw p1 p2 s Hb). destruct (mt ic notbol its p2 s); [reflexivity|].
  destruct s as [|c s']; [reflexivity|].
  now rewrite (lastb_pos (clen (c :: s')) (c :: s') p1 p2) by apply clen_pos.
Qed.

Lemma rstr_loop_indep sp : wbeg sp = false -> wend sp = false ->
  forall cnt p1 p2 s r, rstr_loop ic sp p1 s r cnt = rstr_loop ic sp p2 s r cnt.
Proof.
  intros Hb He cnt. induction cnt as [|k IH]; intros p1 p2 s r; cbn [rstr_loop]; [reflexivity|].
  rewrite Hb, He. cbn [andb orb]. destruct (negb (match_case ic (skipn r s) (lit sp))); [reflexivity|]. apply IH.
Qed.
End Indep.

Lemma line_ok_prev s q : line_ok s -> nthb s q = 10%N -> skipn (S q) s = [].
Proof.
  intros [body [-> Hn]] H. unfold nthb in H.
  destruct (Nat.lt_ge_cases q (length body)) as [L|L].
  - rewrite app_nth1 in H by exact L. exfalso. apply Hn. rewrite <- H. now apply nth_In.
  - apply skipn_all2. rewrite app_length. cbn. lia.
Qed.

Theorem ref_suffix_inv ic kw : no_word_atoms kw = true -> suffix_inv (ref_rfind ic) (ref_wfind ic) kw.
Proof.
  intros Hw s k Hl. unfold ref_rfind, ref_wfind. destruct k as [|q]; [reflexivity|].
  cbn [Nat.eqb negb prev_of]. set (t := skipn (S q) s). set (p := nthb s q).
  assert (Hb : forall u, u = t -> bol_ok None true u = bol_ok (Some p) true u).
  { intros u ->. cbn [bol_ok negb]. destruct (p =? 10)%N eqn:E; [|reflexivity].
    apply N.eqb_eq in E. unfold t. rewrite (line_ok_prev s q Hl E). reflexivity. }
  unfold ref_find. unfold no_word_atoms in Hw.
  destruct (rstr_simple kw) as [sp|].
  - apply andb_true_iff in Hw. destruct Hw as [H1 H2].
    apply negb_true_iff in H1. apply negb_true_iff in H2.
    unfold rstr_find_simple. rewrite (Hb t eq_refl).
    destruct (lbeg sp && negb (bol_ok (Some p) true t)); [reflexivity|].
    destruct (length t <? length (lit sp) + 1); [reflexivity|].
    destruct (_ <? _); [reflexivity|]. now apply rstr_loop_indep.
  - destruct (ref_items kw) as [its|]; [|reflexivity].
    unfold engine_find. destruct t as [|c t'] eqn:Et; [reflexivity|].
    apply scan_indep; [exact Hw|]. apply Hb. reflexivity.
Qed.

(* ---------------------------------------------------------------------------------------------- *)
(* 3. no wrap-around, failure leaves the cursor *)

Section NoWrap.
Variable fm : bytes -> nat -> option (nat * nat).

Lemma fwd_rows_row rows : forall i first r o l, fwd_rows fm rows i first = SFound r o l ->
  i <= r < i + length rows /\
  fwd_row fm (nth (r - i) rows []) (if r =? i then first else 0) = Some (o, l) /\
  (i < r -> fwd_row fm (nth 0 rows []) first = None) /\
  (forall j, i < j < r -> fwd_row fm (nth (j - i) rows []) 0 = None).
Proof.
  induction rows as [|s rest IH]; intros i first r o l; cbn [fwd_rows]; [discriminate|].
  destruct (fwd_row fm s first) as [[o1 l1]|] eqn:E.
  - intros [= <- <- <-]. rewrite Nat.sub_diag, Nat.eqb_refl. cbn [nth length]. repeat split; try lia. exact E.
  - intros H. apply IH in H. destruct H as (Hr & Hrow & Hfirst & Hmid). cbn [length].
    assert (r =? i = false) as -> by (apply Nat.eqb_neq; lia).
    replace (r - i) with (S (r - S i)) by lia. cbn [nth].
    split; [lia|]. split.
    + destruct (r =? S i); exact Hrow.
    + split; [intros _; exact E|]. intros j Hj.
      destruct (Nat.eq_dec j (S i)) as [->|Hne].
      * replace (S i - i) with 1 by lia. cbn [nth].
        destruct (Nat.eq_dec r (S i)); [lia|]. apply Hfirst. lia.
      * replace (j - i) with (S (j - S i)) by lia. cbn [nth]. apply Hmid. lia.
Qed.

Lemma fwd_rows_none rows : forall i first, fwd_rows fm rows i first = SNotFound ->
  fwd_row fm (nth 0 rows []) first = None \/ rows = [].
Proof.
  destruct rows as [|s rest]; intros i first; cbn [fwd_rows]; [now right|].
  destruct (fwd_row fm s first) as [[o l]|] eqn:E; [discriminate|]. now left.
Qed.

Lemma bwd_row_lim f : forall s off lim acc x, bwd_row fm f s off lim acc = Some x ->
  forall o0, lim = Some o0 ->
  (forall o l, acc = Some (o, l) -> o < o0) -> forall o l, x = Some (o, l) -> o < o0.
Proof.
  induction f as [|f IH]; intros s off lim acc x; cbn [bwd_row]; [discriminate|].
  destruct (fm s off) as [[b e]|]; [|intros [= <-] o0 _ Ha; exact Ha].
  destruct (phantom s (off + b)); [intros [= <-] o0 _ Ha; exact Ha|].
  intros H o0 ->. destruct (o0 <=? uc_off s (off + b)) eqn:L; [injection H as <-; auto|].
  apply Nat.leb_gt in L. intros Ha.
  destruct (_ || _).
  - injection H as <-. unfold conv. intros o l [= <- _]. exact L.
  - eapply IH; [exact H|reflexivity|]. unfold conv. intros o l [= <- _]. exact L.
Qed.

Lemma bwd_rows_row rows : forall i lim r o l, bwd_rows fm rows i lim = SFound r o l ->
  length rows <= S i -> r <= i /\ (r = i -> forall o0, lim = Some o0 -> o < o0).
Proof.
  induction rows as [|s rest IH]; intros i lim r o l; cbn [bwd_rows]; [discriminate|].
  destruct (bwd_row fm (S (length s)) s 0 lim None) as [[[o1 l1]|]|] eqn:E; try discriminate.
  - intros [= <- <- <-] _. split; [lia|]. intros _ o0 ->.
    eapply bwd_row_lim; [exact E|reflexivity|discriminate|reflexivity].
  - intros H Hl. cbn [length] in Hl. destruct i as [|i']; [destruct rest; [discriminate H|cbn in Hl; lia]|].
    cbn [pred] in H. apply IH in H; [|lia]. destruct H as [H1 _]. split; [lia|]. intros ->. lia.
Qed.

Theorem no_wrap_rows lb fwd r0 o0 r o l : lbuf_search_g fm lb fwd r0 o0 = SFound r o l ->
  r < length lb /\ (if fwd then r0 <= r else r <= r0 /\ (r = r0 -> o < o0)).
Proof.
  unfold lbuf_search_g. destruct (nth_error lb r0) as [s|] eqn:E; [|discriminate].
  assert (r0 < length lb) by (apply nth_error_Some; congruence).
  destruct fwd.
  - destruct (uc_chr s (Z.of_nat o0 + 1)) as [off|]; [|discriminate]. intros H1.
    apply fwd_rows_row in H1. destruct H1 as (Hr & _). rewrite skipn_length in Hr. lia.
  - intros H1. apply bwd_rows_row in H1.
    + destruct H1 as [Hr Ho]. split; [lia|]. split; [exact Hr|]. intros ->. now apply (Ho eq_refl).
    + rewrite rev_length, firstn_length. lia.
Qed.

(* monotonicity of the byte -> character conversion *)
Lemma uc_off_f_mono f : forall s pos e e', e <= e' -> uc_off_f f s pos e <= uc_off_f f s pos e'.
Proof.
  induction f as [|f IH]; intros s pos e e' H; cbn [uc_off_f]; [lia|].
  destruct s as [|c s']; [lia|].
  destruct (pos <? e) eqn:L1.
  - apply Nat.ltb_lt in L1. assert (pos <? e' = true) as -> by (apply Nat.ltb_lt; lia).
    apply le_n_S. now apply IH.
  - lia.
Qed.
Lemma uc_off_mono s e e' : e <= e' -> uc_off s e <= uc_off s e'.
Proof. apply uc_off_f_mono. Qed.

(* forward on the cursor row of a valid line: strictly after the cursor character *)
Theorem fwd_after_cursor cs o0 off b e o l : Forall scalar cs -> o0 < length cs ->
  uc_chr (chars cs) (Z.of_nat o0 + 1) = Some off ->
  fm (chars cs) off = Some (b, e) -> fwd_row fm (chars cs) off = Some (o, l) -> o0 < o.
Proof.
  intros Hv Hlen Hc Hf. unfold fwd_row. rewrite Hf. destruct (phantom _ _); [discriminate|].
  unfold conv. intros [= <- _].
  replace (Z.of_nat o0 + 1)%Z with (Z.of_nat (S o0)) in Hc by lia.
  rewrite (uc_chr_chars cs (S o0) Hv) in Hc by lia. injection Hc as <-.
  pose proof (uc_off_chars cs (S o0) Hv ltac:(lia)) as Ho.
  pose proof (uc_off_mono (chars cs) (off_of cs (S o0)) (off_of cs (S o0) + b) ltac:(lia)). lia.
Qed.
End NoWrap.

Section Fail.
Variable fmk : bytes -> bytes -> nat -> option (nat * nat).
Variable rcomp : bytes -> bool.

Theorem fail_in_place st lb cmd cnt xrow xoff st' pos :
  search_cmd fmk rcomp st lb cmd cnt xrow xoff = (st', false, pos) -> pos = (xrow, xoff).
Proof.
  unfold search_cmd.
  destruct (match cmd with CWord => _ | _ => (st, true) end) as [st0 ok0].
  destruct (negb ok0); [now intros [= _ <-]|].
  destruct (vi_search fmk rcomp st0 lb _ cnt xrow _) as [st1 [[r oo]|]].
  - intros [= _ ?]. - now intros [= _ <-].
Qed.

(* iteration: rows never decrease forward / increase backward over a whole count *)
Theorem iter_no_wrap cnt kw lb fwd : forall r0 o0 r o l,
  search_iter fmk rcomp cnt kw lb fwd r0 o0 = SFound r o l -> if fwd then r0 <= r else r <= r0.
Proof.
  induction cnt as [|c IH]; intros r0 o0 r o l; cbn [search_iter].
  - intros [= <- _ _]. destruct fwd; lia.
  - unfold lbuf_search. destruct (rcomp kw); [|discriminate].
    destruct (lbuf_search_g (fmk kw) lb fwd r0 o0) as [r1 o1 l1| | |] eqn:E; try discriminate.
    intros H. apply IH in H. apply no_wrap_rows in E. destruct fwd; lia.
Qed.
End Fail.

(* ---------------------------------------------------------------------------------------------- *)
(* 4. forward = the least position with a match after the cursor; backward = the last of the
      successive matches before it (for a row matcher that is consistent: searching from a later
      start that is still before the match it found finds the same match) *)

Section Least.
Variable fm : bytes -> nat -> option (nat * nat).
Definition begins (s : bytes) (p : nat) : Prop := exists e, fm s p = Some (0, e).
Definition consistent (s : bytes) : Prop :=
  (forall k b e j, fm s k = Some (b, e) -> j <= b -> fm s (k + j) = Some (b - j, e - j)) /\
  (forall k j, fm s k = None -> fm s (k + j) = None).

Theorem fwd_row_least s off o l : consistent s -> fwd_row fm s off = Some (o, l) ->
  exists p, off <= p /\ begins s p /\ phantom s p = false /\ o = uc_off s p /\
            forall q, off <= q < p -> ~ begins s q.
Proof.
  intros [Hc _]. unfold fwd_row. destruct (fm s off) as [[b e]|] eqn:E; [|discriminate].
  destruct (phantom s (off + b)) eqn:P; [discriminate|]. unfold conv. intros [= <- _].
  exists (off + b). split; [lia|]. split.
  - exists (e - b). rewrite (Hc off b e b E (le_n _)). now rewrite Nat.sub_diag.
  - split; [exact P|]. split; [reflexivity|]. intros q Hq [e' Hb].
    rewrite <- (Nat.sub_add off q) in Hb by lia. rewrite Nat.add_comm in Hb.
    rewrite (Hc off b e (q - off) E ltac:(lia)) in Hb. injection Hb as Hb _. lia.
Qed.

Theorem fwd_row_none s off : consistent s -> fwd_row fm s off = None ->
  forall q, off <= q -> begins s q -> exists p, p <= q /\ nthb s p = 0%N.
Proof.
  intros [Hc Hn]. unfold fwd_row. destruct (fm s off) as [[b e]|] eqn:E.
  - destruct (phantom s (off + b)) eqn:P; [|discriminate]. intros _ q Hq [e' Hb].
    unfold phantom in P. apply andb_true_iff in P. destruct P as [P _].
    apply andb_true_iff in P. destruct P as [_ P]. apply N.eqb_eq in P.
    exists (off + b). split; [|exact P].
    destruct (Nat.le_gt_cases (off + b) q) as [L|L]; [exact L|].
    rewrite <- (Nat.sub_add off q) in Hb by lia. rewrite Nat.add_comm in Hb.
    rewrite (Hc off b e (q - off) E ltac:(lia)) in Hb. injection Hb as Hb _. lia.
  - intros _ q Hq [e' Hb]. rewrite <- (Nat.sub_add off q) in Hb by lia. rewrite Nat.add_comm in Hb.
    now rewrite (Hn off (q - off) E) in Hb.
Qed.

(* backward: the last of the successive matches of the row that begins before the cursor *)
Fixpoint pick (lim : option nat) (l : list (nat * nat)) (acc : option (nat * nat)) : option (nat * nat) :=
  match l with
  | [] => acc
  | (o, len) :: t => if (match lim with Some o0 => o0 <=? o | None => false end) then acc
                     else pick lim t (Some (o, len))
  end.

Lemma bwd_row_pick f : forall s off lim acc x,
  bwd_row fm f s off lim acc = Some x -> x = pick lim (occ fm f s off) acc.
Proof.
  induction f as [|f IH]; intros s off lim acc x; cbn [bwd_row occ]; [discriminate|].
  destruct (fm s off) as [[b e]|]; [|now intros [= <-]].
  destruct (phantom s (off + b)); [now intros [= <-]|].
  unfold conv. cbn [pick].
  destruct (match lim with Some o0 => o0 <=? uc_off s (off + b) | None => false end); [now intros [= <-]|].
  destruct (_ || _); [now intros [= <-]|]. apply IH.
Qed.

Lemma uc_len_b_zero c : uc_len_b c = 0 -> c = 0%N.
Proof.
  unfold uc_len_b. destruct (negb _).
  - destruct (0 <? c)%N eqn:E; [discriminate|]. intros _. apply N.ltb_ge in E. lia.
  - destruct (negb _); [discriminate|]. destruct (negb _); [discriminate|]. destruct (negb _); discriminate.
Qed.
Lemma hd0_skipn (s : bytes) p : hd0 (skipn p s) = nthb s p.
Proof. revert s. induction p; intros [|c s]; cbn; auto. apply IHp. Qed.
Lemma nthb_nonzero (s : bytes) p : nthb s p <> 0%N -> p < length s.
Proof. intros H. destruct (Nat.lt_ge_cases p (length s)); [assumption|]. unfold nthb in H. now rewrite nth_overflow in H. Qed.

Lemma bwd_row_fuel s : (forall k b e, fm s k = Some (b, e) -> b <= e) ->
  forall f off lim acc, length s - off < f -> bwd_row fm f s off lim acc <> None.
Proof.
  intros Hr f. induction f as [|f IH]; intros off lim acc Hf; [lia|]. cbn [bwd_row].
  destruct (fm s off) as [[b e]|] eqn:E; [|discriminate].
  destruct (phantom s (off + b)); [discriminate|].
  destruct (match lim with Some o0 => o0 <=? uc_off s (off + b) | None => false end); [discriminate|].
  set (off' := off + (if b <? e then e else e + uc_len (skipn (off + e) s))).
  destruct ((nthb s off' =? 0)%N || (nthb s off' =? 10)%N) eqn:C; [discriminate|].
  apply orb_false_iff in C. destruct C as [C _]. apply N.eqb_neq in C.
  pose proof (nthb_nonzero s off' C) as L. pose proof (Hr off b e E) as Hbe.
  apply IH. assert (off < off'); [|lia].
  unfold off' in *. destruct (b <? e) eqn:B; [apply Nat.ltb_lt in B; lia|].
  destruct (uc_len (skipn (off + e) s)) eqn:U; [|lia].
  exfalso. apply C. unfold uc_len in U. apply uc_len_b_zero in U. rewrite hd0_skipn in U.
  now rewrite Nat.add_0_r.
Qed.

Theorem bwd_row_last s lim : (forall k b e, fm s k = Some (b, e) -> b <= e) ->
  bwd_row fm (S (length s)) s 0 lim None = Some (pick lim (occ fm (S (length s)) s 0) None).
Proof.
  intros Hr. destruct (bwd_row fm (S (length s)) s 0 lim None) as [x|] eqn:E.
  - f_equal. now apply bwd_row_pick.
  - exfalso. revert E. apply bwd_row_fuel; [exact Hr|lia].
Qed.
End Least.
