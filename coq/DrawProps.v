(* DrawProps.v -- the scroll algebra of C19 (DESIGN.md Appendix C): emulator lemmas (insert /
   delete line as list operations on the text region), vi_drawupdate and vi_drawfix leave what a
   full repaint draws, the window follows the cursor. *)
From Coq Require Import List Arith ZArith Bool Lia ZifyBool.
From NV Require Import Bytes TermEmu DrawDefs.
Ltac Zify.zify_post_hook ::= Z.div_mod_to_equations.
Import ListNotations.

(* ---------- set_nth ---------- *)
Section SetNth.
Context {A : Type}.
Lemma set_nth_length i (x : A) l : length (set_nth i x l) = length l.
Proof.
  unfold set_nth. destruct (i <? length l) eqn:E; [|reflexivity]. apply Nat.ltb_lt in E.
  rewrite app_length, firstn_length. cbn [length]. rewrite skipn_length. lia.
Qed.
Lemma set_nth_split i (x : A) l : i < length l ->
  set_nth i x l = firstn i l ++ x :: skipn (S i) l.
Proof. intro H. unfold set_nth. apply Nat.ltb_lt in H. rewrite H. reflexivity. Qed.
Lemma set_nth_nth i k (x d : A) l : i < length l ->
  nth k (set_nth i x l) d = if k =? i then x else nth k l d.
Proof.
  intro H. rewrite set_nth_split by assumption.
  destruct (k =? i) eqn:E.
  - apply Nat.eqb_eq in E. subst. rewrite app_nth2 by (rewrite firstn_length; lia).
    rewrite firstn_length. replace (i - Nat.min i (length l)) with 0 by lia. reflexivity.
  - apply Nat.eqb_neq in E. destruct (lt_dec k i).
    + rewrite app_nth1 by (rewrite firstn_length; lia).
      rewrite <- (firstn_skipn i l) at 2. rewrite app_nth1 by (rewrite firstn_length; lia). reflexivity.
    + rewrite app_nth2 by (rewrite firstn_length; lia). rewrite firstn_length.
      replace (Nat.min i (length l)) with i by lia.
      destruct (k - i) as [|m] eqn:Ek; [lia|]. cbn [nth].
      rewrite <- (firstn_skipn (S i) l) at 2. rewrite app_nth2 by (rewrite firstn_length; lia).
      rewrite firstn_length. f_equal. lia.
Qed.
Lemma nth_skipn' n (l : list A) k d : nth k (skipn n l) d = nth (n + k) l d.
Proof.
  revert l. induction n as [|n IH]; intro l; [reflexivity|].
  destruct l as [|x l]; [destruct k; reflexivity|]. cbn [skipn plus nth]. apply IH.
Qed.
Lemma nth_firstn' n (l : list A) k d : k < n -> nth k (firstn n l) d = nth k l d.
Proof.
  revert l k. induction n as [|n IH]; intros l k H; [lia|].
  destruct l as [|x l]; [reflexivity|]. destruct k as [|k]; [reflexivity|]. cbn [firstn nth]. apply IH. lia.
Qed.
Lemma nth_repeat' (a : A) m k d : k < m -> nth k (repeat a m) d = a.
Proof.
  revert k. induction m as [|m IH]; intros k H; [lia|]. destruct k as [|k]; [reflexivity|]. cbn [repeat nth]. apply IH. lia.
Qed.
End SetNth.

(* ---------- emulator lemmas: delete / insert lines in the text region [0, h) of a screen
   `text ++ rest` (rest = the message row) act on `text` alone, as the list operations of the
   scroll algebra ---------- *)
Section EmuLemmas.
Context {A : Type}.
Variable blank : A.

Lemma del_lines_region h r n (text rest : list A) : length text = h ->
  del_lines blank 0 h r n (text ++ rest) = del_lines blank 0 h r n text ++ rest.
Proof.
  intro L. unfold del_lines. destruct ((0 <=? r) && (r <? h)) eqn:E; [|reflexivity].
  apply andb_true_iff in E. destruct E as [_ E]. apply Nat.ltb_lt in E.
  set (k := Nat.min n (h - r)).
  rewrite !firstn_app, !skipn_app, L.
  replace (r - h) with 0 by lia. replace (h - h) with 0 by lia. cbn [firstn skipn].
  rewrite app_nil_r. rewrite (firstn_all2 (n:=h) text) by lia.
  rewrite (skipn_all2 (n:=h) text) by lia. cbn [app]. rewrite app_nil_r.
  rewrite <- !app_assoc. rewrite ?skipn_nil. reflexivity.
Qed.

Lemma ins_lines_region h r n (text rest : list A) : length text = h ->
  ins_lines blank 0 h r n (text ++ rest) = ins_lines blank 0 h r n text ++ rest.
Proof.
  intro L. unfold ins_lines. destruct ((0 <=? r) && (r <? h)) eqn:E; [|reflexivity].
  apply andb_true_iff in E. destruct E as [_ E]. apply Nat.ltb_lt in E.
  set (k := Nat.min n (h - r)).
  rewrite !firstn_app, !skipn_app, L.
  replace (r - h) with 0 by lia. replace (h - h) with 0 by lia. cbn [firstn skipn].
  rewrite app_nil_r. rewrite (skipn_all2 (n:=h) text) by lia. cbn [app].
  rewrite firstn_app, skipn_length, L. replace (h - r - k - (h - r)) with 0 by lia. cbn [firstn].
  rewrite !app_nil_r. rewrite <- !app_assoc. reflexivity.
Qed.

(* DL k at row r: the rows below move up, k blank rows enter at the bottom *)
Lemma del_lines_spec h r n (text : list A) : length text = h -> r < h ->
  del_lines blank 0 h r n text =
  firstn r text ++ skipn (r + Nat.min n (h - r)) text ++ repeat blank (Nat.min n (h - r)).
Proof.
  intros L Hr. unfold del_lines. replace ((0 <=? r) && (r <? h)) with true
    by (symmetry; apply andb_true_iff; split; [reflexivity|apply Nat.ltb_lt; exact Hr]).
  rewrite (firstn_all2 (n:=h) text) by lia. rewrite (skipn_all2 (n:=h) text) by lia.
  rewrite app_nil_r. reflexivity.
Qed.
(* IL k at row r: k blank rows at r, the rows from r on move down, the last k fall off *)
Lemma ins_lines_spec h r n (text : list A) : length text = h -> r < h ->
  ins_lines blank 0 h r n text =
  firstn r text ++ repeat blank (Nat.min n (h - r)) ++ firstn (h - r - Nat.min n (h - r)) (skipn r text).
Proof.
  intros L Hr. unfold ins_lines. replace ((0 <=? r) && (r <? h)) with true
    by (symmetry; apply andb_true_iff; split; [reflexivity|apply Nat.ltb_lt; exact Hr]).
  rewrite (skipn_all2 (n:=h) text) by lia. rewrite app_nil_r. reflexivity.
Qed.
Lemma del_lines_length h r n (text : list A) : length text = h ->
  length (del_lines blank 0 h r n text) = h.
Proof.
  intro L. unfold del_lines. destruct ((0 <=? r) && (r <? h)) eqn:E; [|exact L].
  apply andb_true_iff in E. destruct E as [_ E]. apply Nat.ltb_lt in E.
  rewrite !app_length, firstn_length, skipn_length, firstn_length, repeat_length, skipn_length. lia.
Qed.
Lemma ins_lines_length h r n (text : list A) : length text = h ->
  length (ins_lines blank 0 h r n text) = h.
Proof.
  intro L. unfold ins_lines. destruct ((0 <=? r) && (r <? h)) eqn:E; [|exact L].
  apply andb_true_iff in E. destruct E as [_ E]. apply Nat.ltb_lt in E.
  rewrite !app_length, !firstn_length, repeat_length, !skipn_length. lia.
Qed.
End EmuLemmas.

Lemma emu_delete_lines (A : Type) (blank : A) h r n (text rest : list A) :
  length text = h -> r < h ->
  del_lines blank 0 h r n (text ++ rest) =
  (firstn r text ++ skipn (r + Nat.min n (h - r)) text ++ repeat blank (Nat.min n (h - r))) ++ rest.
Proof. intros. rewrite del_lines_region by assumption. rewrite del_lines_spec by assumption. reflexivity. Qed.
Lemma emu_insert_lines (A : Type) (blank : A) h r n (text rest : list A) :
  length text = h -> r < h ->
  ins_lines blank 0 h r n (text ++ rest) =
  (firstn r text ++ repeat blank (Nat.min n (h - r)) ++ firstn (h - r - Nat.min n (h - r)) (skipn r text)) ++ rest.
Proof. intros. rewrite ins_lines_region by assumption. rewrite ins_lines_spec by assumption. reflexivity. Qed.

(* ---------- windows ---------- *)
Section Scroll.
Variable R : Type.
Variable blank : R.
Notation win := (@win R).
Notation term_room := (@term_room R blank).
Notation drawrow := (@drawrow R).
Notation draw_range := (@draw_range R).
Notation drawupdate := (@drawupdate R blank).
Notation drawfix := (@drawfix R blank).
Notation drawagain := (@drawagain R).
Notation redraw_tail := (@redraw_tail R blank).

Lemma win_length f top h : length (win f top h) = h.
Proof. unfold DrawDefs.win. rewrite map_length, seq_length. reflexivity. Qed.

Lemma seq_shift_add a b : seq a b = map (fun i => a + i) (seq 0 b).
Proof.
  revert a; induction b as [|b IH]; intro a; cbn [seq map]; [reflexivity|]. rewrite Nat.add_0_r. f_equal.
  rewrite (IH (S a)), (IH 1), map_map. apply map_ext. intro; lia.
Qed.
Lemma win_app f top a b : win f top (a + b) = win f top a ++ win f (top + a) b.
Proof.
  unfold DrawDefs.win. rewrite seq_app, map_app. f_equal. cbn [plus].
  rewrite (seq_shift_add a b), map_map. apply map_ext. intro i. f_equal. lia.
Qed.
Lemma win_skipn f top h k : k <= h -> skipn k (win f top h) = win f (top + k) (h - k).
Proof.
  intro H. replace h with (k + (h - k)) at 1 by lia. rewrite win_app.
  rewrite skipn_app, win_length, Nat.sub_diag. rewrite skipn_all2 by (rewrite win_length; lia). reflexivity.
Qed.
Lemma win_firstn f top h k : k <= h -> firstn k (win f top h) = win f top k.
Proof.
  intro H. replace h with (k + (h - k)) at 1 by lia. rewrite win_app.
  rewrite firstn_app, win_length, Nat.sub_diag. cbn [firstn]. rewrite app_nil_r. apply firstn_all2. rewrite win_length. lia.
Qed.
Lemma win_nth f top h k d : k < h -> nth k (win f top h) d = f (top + k).
Proof.
  intro H. unfold DrawDefs.win. rewrite (nth_indep _ d (f (top + 0))) by (rewrite map_length, seq_length; exact H).
  rewrite (map_nth (fun i => f (top + i)) (seq 0 h) 0 k), seq_nth by exact H. reflexivity.
Qed.
Lemma win_ext f g top h : (forall i, top <= i < top + h -> f i = g i) -> win f top h = win g top h.
Proof. intro H. unfold DrawDefs.win. apply map_ext_in. intros i Hi. apply in_seq in Hi. apply H. lia. Qed.
Lemma win_1 f top : win f top 1 = [f top].
Proof. unfold DrawDefs.win. cbn. rewrite Nat.add_0_r. reflexivity. Qed.
(* a list of h rows that agrees row by row with the repaint is the repaint *)
Lemma win_pointwise f top h (l : list R) d : length l = h ->
  (forall k, k < h -> nth k l d = f (top + k)) -> l = win f top h.
Proof.
  intros L H. apply (nth_ext _ _ d d); [rewrite win_length; exact L|].
  intros k Hk. rewrite win_nth by lia. apply H. lia.
Qed.

(* ---------- drawing rows ---------- *)
Lemma drawrow_length f xtop h i rows : length (drawrow f xtop h i rows) = length rows.
Proof. unfold DrawDefs.drawrow. destruct (_ && _); [apply set_nth_length|reflexivity]. Qed.
Lemma draw_range_length f xtop h a cnt rows : length (draw_range f xtop h a cnt rows) = length rows.
Proof.
  unfold DrawDefs.draw_range. revert a rows. induction cnt as [|c IH]; intros a rows; cbn [seq fold_left]; [reflexivity|].
  rewrite IH. apply drawrow_length.
Qed.
Lemma drawrow_nth f xtop h i rows k d : length rows = h ->
  nth k (drawrow f xtop h i rows) d =
  if (xtop <=? i) && (i <? xtop + h) && (k =? i - xtop) then f i else nth k rows d.
Proof.
  intro L. unfold DrawDefs.drawrow. destruct ((xtop <=? i) && (i <? xtop + h)) eqn:E; [|reflexivity].
  cbn [andb]. apply andb_true_iff in E. destruct E as [E1 E2]. apply Nat.leb_le in E1. apply Nat.ltb_lt in E2.
  apply set_nth_nth. lia.
Qed.

(* rows a .. a+cnt-1 of the window are overwritten by the repaint's rows *)
Lemma draw_range_spec f xtop h a cnt rows : length rows = h -> xtop <= a -> a + cnt <= xtop + h ->
  draw_range f xtop h a cnt rows =
  firstn (a - xtop) rows ++ win f a cnt ++ skipn (a - xtop + cnt) rows.
Proof.
  unfold DrawDefs.draw_range. revert a rows. induction cnt as [|c IH]; intros a rows L Ha Hb.
  - cbn [seq fold_left]. unfold DrawDefs.win. cbn [seq map app]. rewrite Nat.add_0_r. symmetry. apply firstn_skipn.
  - cbn [seq fold_left]. rewrite IH; [|rewrite drawrow_length; exact L|lia|lia].
    unfold DrawDefs.drawrow. replace ((xtop <=? a) && (a <? xtop + h)) with true
      by (symmetry; apply andb_true_iff; split; [apply Nat.leb_le|apply Nat.ltb_lt]; lia).
    rewrite set_nth_split by lia.
    replace (S a - xtop) with (S (a - xtop)) by lia.
    set (j := a - xtop).
    assert (Lf : length (firstn j rows) = j) by (rewrite firstn_length; lia).
    replace (S j) with (length (firstn j rows) + 1) at 1 by lia.
    rewrite firstn_app_2. cbn [firstn].
    replace (S j + c) with (length (firstn j rows) + S c) by lia.
    rewrite skipn_app, Lf. replace (j + S c - j) with (S c) by lia.
    rewrite (skipn_all2 (firstn j rows)) by lia. cbn [app]. rewrite skipn_cons.
    rewrite skipn_skipn. replace (S j + c) with (j + S c) by lia.
    change (win f a (S c)) with (win f a (1 + c)). rewrite (win_app f a 1 c), win_1.
    replace (a + 1) with (S a) by lia. rewrite <- !app_assoc. reflexivity.
Qed.
Lemma draw_range_ext f g xtop h a cnt rows : (forall i, a <= i < a + cnt -> f i = g i) ->
  draw_range f xtop h a cnt rows = draw_range g xtop h a cnt rows.
Proof.
  unfold DrawDefs.draw_range. revert a rows. induction cnt as [|c IH]; intros a rows H; cbn [seq fold_left]; [reflexivity|].
  rewrite IH by (intros; apply H; lia). f_equal. unfold DrawDefs.drawrow. rewrite (H a) by lia. reflexivity.
Qed.
Lemma drawagain_all f xtop h rows : length rows = h -> drawagain f xtop h None rows = win f xtop h.
Proof.
  intro L. unfold DrawDefs.drawagain. rewrite draw_range_spec by lia.
  rewrite Nat.sub_diag. cbn [firstn app plus]. rewrite skipn_all2 by lia. apply app_nil_r.
Qed.

(* ---------- term_room at the top row: the E.7 forms ---------- *)
Lemma room_del_top h d rows : length rows = h -> 0 < h -> 0 < d ->
  term_room h (- Z.of_nat d) 0 rows = skipn d rows ++ repeat blank (Nat.min d h).
Proof.
  intros L Hh Hd. unfold DrawDefs.term_room. replace (- Z.of_nat d <? 0)%Z with true by (symmetry; apply Z.ltb_lt; lia).
  replace (Z.to_nat (- - Z.of_nat d)) with d by lia.
  rewrite (del_lines_spec blank h 0 d rows L Hh). cbn [firstn app plus]. rewrite Nat.sub_0_r.
  destruct (le_lt_dec d h); [replace (Nat.min d h) with d by lia; reflexivity|].
  replace (Nat.min d h) with h by lia. rewrite !skipn_all2 by lia. reflexivity.
Qed.
Lemma room_ins_top h d rows : length rows = h -> 0 < h -> 0 < d ->
  term_room h (Z.of_nat d) 0 rows = repeat blank (Nat.min d h) ++ firstn (h - d) rows.
Proof.
  intros L Hh Hd. unfold DrawDefs.term_room. replace (Z.of_nat d <? 0)%Z with false by (symmetry; apply Z.ltb_ge; lia).
  replace (0 <? Z.of_nat d)%Z with true by (symmetry; apply Z.ltb_lt; lia). rewrite Nat2Z.id.
  rewrite (ins_lines_spec blank h 0 d rows L Hh). cbn [firstn app skipn]. rewrite Nat.sub_0_r.
  f_equal. f_equal. lia.
Qed.
Lemma term_room_length h n r rows : length rows = h -> length (term_room h n r rows) = h.
Proof.
  intro L. unfold DrawDefs.term_room. destruct (n <? 0)%Z; [apply del_lines_length; exact L|].
  destruct (0 <? n)%Z; [apply ins_lines_length; exact L|exact L].
Qed.

(* ---------- vi_drawupdate ---------- *)
Theorem drawupdate_is_repaint f h otop xtop :
  drawupdate f h otop xtop (win f otop h) = win f xtop h.
Proof.
  unfold DrawDefs.drawupdate. destruct (otop =? xtop) eqn:E; [apply Nat.eqb_eq in E; subst; reflexivity|].
  apply Nat.eqb_neq in E.
  destruct h as [|h'].
  { apply length_zero_iff_nil. destruct (otop <? xtop); rewrite draw_range_length; apply term_room_length; reflexivity. }
  set (h := S h') in *. assert (Hh : 0 < h) by (unfold h; lia).
  destruct (otop <? xtop) eqn:L.
  - apply Nat.ltb_lt in L. set (d := xtop - otop).
    replace (Z.of_nat otop - Z.of_nat xtop)%Z with (- Z.of_nat d)%Z by (unfold d; lia).
    rewrite room_del_top by (try apply win_length; unfold d; lia).
    set (n := Nat.min d h).
    rewrite draw_range_spec; [|rewrite app_length, skipn_length, win_length, repeat_length; unfold d; lia|unfold n; lia|unfold n; lia].
    destruct (le_lt_dec d h) as [Hd|Hd].
    + assert (n = d) by (unfold n; lia). rewrite H. rewrite win_skipn by lia.
      replace (otop + d) with xtop by (unfold d; lia).
      replace (xtop + h - d - xtop) with (h - d) by lia.
      rewrite firstn_app, win_length, Nat.sub_diag. cbn [firstn]. rewrite app_nil_r.
      rewrite firstn_all2 by (rewrite win_length; lia).
      rewrite skipn_all2 by (rewrite app_length, win_length, repeat_length; lia). rewrite app_nil_r.
      replace (xtop + h - d) with (xtop + (h - d)) by lia. rewrite <- win_app. f_equal. lia.
    + assert (n = h) by (unfold n; lia). rewrite H.
      replace (xtop + h - h - xtop) with 0 by lia. cbn [firstn app plus].
      rewrite skipn_all2 by (rewrite app_length, skipn_length, win_length, repeat_length; lia). rewrite app_nil_r.
      f_equal. lia.
  - apply Nat.ltb_ge in L. set (d := otop - xtop).
    replace (Z.of_nat otop - Z.of_nat xtop)%Z with (Z.of_nat d) by (unfold d; lia).
    rewrite room_ins_top by (try apply win_length; unfold d; lia).
    set (n := Nat.min d h).
    rewrite draw_range_spec; [|rewrite app_length, firstn_length, win_length, repeat_length; unfold d; lia|lia|unfold n; lia].
    rewrite Nat.sub_diag. cbn [firstn app plus].
    destruct (le_lt_dec d h) as [Hd|Hd].
    + assert (n = d) by (unfold n; lia). rewrite H.
      rewrite skipn_app, repeat_length. replace (Nat.min d h) with d by lia. rewrite Nat.sub_diag.
      rewrite skipn_all2 by (rewrite repeat_length; lia). cbn [app skipn].
      rewrite win_firstn by lia. replace otop with (xtop + d) by (unfold d; lia).
      rewrite <- win_app. f_equal. lia.
    + assert (n = h) by (unfold n; lia). rewrite H.
      rewrite skipn_all2 by (rewrite app_length, repeat_length, firstn_length, win_length; lia). apply app_nil_r.
Qed.
End Scroll.

(* ---------- the window follows the cursor ---------- *)
Local Open Scope Z_scope.

(* vi_wfix: whatever xtop and xrow were, afterwards the cursor line is a line of the buffer (line
   0 of the empty buffer) and lies inside the window *)
Theorem wfix_follows xtop xrow h len : 1 <= h -> 0 <= len -> 0 <= xtop ->
  let (t, r) := wfix xtop xrow h len in
  t <= r < t + h /\ 0 <= t /\ 0 <= r /\ (0 < len -> r < len) /\ (len = 0 -> r = 0).
Proof.
  intros Hh Hl Ht. unfold wfix. cbv beta iota zeta.
  destruct ((xrow <? 0) || (len <=? xrow)) eqn:E1; destruct (0 <? len) eqn:E2;
  repeat match goal with
         | |- context [if ?b then _ else _] => destruct b eqn:?
         | H : context [if ?b then _ else _] |- _ => destruct b eqn:?
         end; lia.
Qed.
(* a cursor line already inside the window does not move it *)
Lemma wfix_stable xtop xrow h len : 0 <= xrow < len -> xtop <= xrow < xtop + h ->
  wfix xtop xrow h len = (xtop, xrow).
Proof.
  intros H1 H2. unfold wfix.
  replace ((xrow <? 0) || (len <=? xrow)) with false by lia.
  replace (xrow <? xtop) with false by lia. replace (xtop + h <=? xrow) with false by lia. reflexivity.
Qed.

(* the xleft rule: afterwards the steering column is inside [xleft, xleft + cols) *)
Theorem fix_left_follows xleft xcol cols : 1 <= cols -> 0 <= xleft -> 0 <= xcol ->
  let l := fix_left xleft xcol cols in 0 <= l /\ l <= xcol < l + cols.
Proof.
  intros Hc Hl Hx. unfold fix_left.
  repeat match goal with |- context [if ?b then _ else _] => destruct b eqn:? end; lia.
Qed.
(* ... so the cell that steers -- the cursor's own column wcol = vi_off2col(xb, xrow, xoff) -- is on the screen and
   term_pos maps it to itself (no clamping) *)
Theorem cursor_cell_visible xleft wcol cols : 1 <= cols -> 0 <= xleft -> 0 <= wcol ->
  let l := fix_left xleft wcol cols in l <= wcol < l + cols /\ term_col l cols wcol = wcol - l.
Proof.
  intros Hc Hl Hx. pose proof (fix_left_follows xleft wcol cols Hc Hl Hx) as H. cbv zeta in *.
  split; [lia|]. unfold term_col.
  replace (wcol - fix_left xleft wcol cols <? 0) with false by lia.
  replace (cols <=? wcol - fix_left xleft wcol cols) with false by lia. reflexivity.
Qed.
(* a window that already contains the column is kept *)
Lemma fix_left_stable xleft wcol cols : xleft <= wcol < xleft + cols -> fix_left xleft wcol cols = xleft.
Proof.
  intro H. unfold fix_left. replace (xleft + cols <=? wcol) with false by lia.
  replace (wcol <? xleft) with false by lia. reflexivity.
Qed.

(* ---------- vi_drawfix ---------- *)
Local Close Scope Z_scope.
Section Fix.
Variable R : Type.
Variable blank : R.
Notation win := (@win R).
Notation term_room := (@term_room R blank).
Notation draw_range := (@draw_range R).
Notation drawfix := (@drawfix R blank).

Lemma draw_range_nth f xtop h a cnt rows k d : length rows = h -> xtop <= a -> a + cnt <= xtop + h -> k < h ->
  nth k (draw_range f xtop h a cnt rows) d =
  if (a - xtop <=? k) && (k <? a - xtop + cnt) then f (xtop + k) else nth k rows d.
Proof.
  intros L Ha Hb Hk. rewrite draw_range_spec by assumption.
  assert (Lf : length (firstn (a - xtop) rows) = a - xtop) by (rewrite firstn_length; lia).
  destruct (a - xtop <=? k) eqn:E1; cbn [andb].
  - apply Nat.leb_le in E1. rewrite app_nth2 by lia. rewrite Lf.
    destruct (k <? a - xtop + cnt) eqn:E2.
    + apply Nat.ltb_lt in E2. rewrite app_nth1 by (rewrite win_length; lia).
      rewrite win_nth by lia. f_equal. lia.
    + apply Nat.ltb_ge in E2. rewrite app_nth2 by (rewrite win_length; lia). rewrite win_length.
      rewrite nth_skipn'. f_equal. lia.
  - apply Nat.leb_gt in E1. rewrite app_nth1 by lia.
    rewrite <- (firstn_skipn (a - xtop) rows) at 2. rewrite app_nth1 by lia. reflexivity.
Qed.

(* rows above the terminal cursor are not touched by term_room *)
Lemma term_room_nth_above h m r rows k d : length rows = h -> k < r ->
  nth k (term_room h m r rows) d = nth k rows d.
Proof.
  intros L Hk.
  assert (F : r < h -> forall (l : list R), nth k (firstn r rows ++ l) d = nth k rows d).
  { intros Hr l. rewrite app_nth1 by (rewrite firstn_length; lia).
    rewrite <- (firstn_skipn r rows) at 2. rewrite app_nth1 by (rewrite firstn_length; lia). reflexivity. }
  unfold DrawDefs.term_room, del_lines, ins_lines.
  destruct ((0 <=? r) && (r <? h)) eqn:E.
  - apply andb_true_iff in E. destruct E as [_ E]. apply Nat.ltb_lt in E.
    destruct (m <? 0)%Z; [apply F; exact E|]. destruct (0 <? m)%Z; [apply F; exact E|reflexivity].
  - destruct (m <? 0)%Z; [reflexivity|]. destruct (0 <? m)%Z; reflexivity.
Qed.
(* IL m at row r, seen row by row *)
Lemma term_room_ins_nth h m r rows k d : length rows = h -> r < h -> k < h -> 0 < m -> r + m <= h ->
  nth k (term_room h (Z.of_nat m) r rows) d =
  if k <? r then nth k rows d else if k <? r + m then blank else nth (k - m) rows d.
Proof.
  intros L Hr Hk Hm Hrm. unfold DrawDefs.term_room.
  replace (Z.of_nat m <? 0)%Z with false by lia. replace (0 <? Z.of_nat m)%Z with true by lia.
  rewrite Nat2Z.id. rewrite (ins_lines_spec blank h r m rows L Hr).
  replace (Nat.min m (h - r)) with m by lia.
  assert (Lf : length (firstn r rows) = r) by (rewrite firstn_length; lia).
  destruct (k <? r) eqn:E1.
  - apply Nat.ltb_lt in E1. rewrite app_nth1 by lia.
    rewrite <- (firstn_skipn r rows) at 2. rewrite app_nth1 by lia. reflexivity.
  - apply Nat.ltb_ge in E1. rewrite app_nth2 by lia. rewrite Lf.
    destruct (k <? r + m) eqn:E2.
    + apply Nat.ltb_lt in E2. rewrite app_nth1 by (rewrite repeat_length; lia).
      apply nth_repeat'. lia.
    + apply Nat.ltb_ge in E2. rewrite app_nth2 by (rewrite repeat_length; lia). rewrite repeat_length.
      rewrite nth_firstn' by lia. rewrite nth_skipn'. f_equal. lia.
Qed.

(* what the two loops of vi_drawfix leave: every row from r1c on when lines were removed (dneg),
   otherwise the n rows from r1c *)
Lemma fix_loops_nth f W h r1c n (dneg : bool) X k d : length X = h -> W <= r1c < W + h -> k < h ->
  nth k (draw_range f W h r1c (Nat.min n (W + h - r1c))
           (if dneg && (r1c + n <? W + h) then draw_range f W h (r1c + n) (W + h - (r1c + n)) X else X)) d =
  if (r1c - W <=? k) && ((k <? r1c - W + n) || dneg) then f (W + k) else nth k X d.
Proof.
  intros L Hr Hk.
  rewrite draw_range_nth; [|destruct (dneg && _); [rewrite draw_range_length|]; exact L|lia|lia|exact Hk].
  destruct (r1c - W <=? k) eqn:E1; cbn [andb].
  2:{ destruct (dneg && (r1c + n <? W + h)) eqn:E2; [|reflexivity].
      apply andb_true_iff in E2. destruct E2 as [_ E2]. apply Nat.ltb_lt in E2. apply Nat.leb_gt in E1.
      rewrite draw_range_nth by lia. replace (r1c + n - W <=? k) with false by lia. reflexivity. }
  apply Nat.leb_le in E1.
  destruct (k <? r1c - W + Nat.min n (W + h - r1c)) eqn:E2.
  - apply Nat.ltb_lt in E2. replace (k <? r1c - W + n) with true by lia. reflexivity.
  - apply Nat.ltb_ge in E2. replace (k <? r1c - W + n) with false by lia. cbn [orb].
    destruct dneg; cbn [andb]; [|reflexivity].
    destruct (r1c + n <? W + h) eqn:E3; [|apply Nat.ltb_ge in E3; lia].
    apply Nat.ltb_lt in E3. rewrite draw_range_nth by lia.
    replace (r1c + n - W <=? k) with true by lia. replace (k <? r1c + n - W + (W + h - (r1c + n))) with true by lia.
    reflexivity.
Qed.
End Fix.

Section Fix2.
Variable R : Type.
Variable blank : R.
Notation win := (@win R).
Notation term_room := (@term_room R blank).
Notation draw_range := (@draw_range R).
Notation drawfix := (@drawfix R blank).

(* where the replaced lines r1 .. e-1 (n new lines) may lie for the partial redraw to be exact:
   the change starts inside the window (a pure insertion not on its first row), or starts above
   it and either removes lines or reaches into the window (since fix 7ace771; before, only when it
   removed lines), or lies wholly below it (and is not a no-op) *)
Definition fix_pre (W h r1 e n : nat) : Prop :=
  (W <= r1 < W + h /\ (r1 < e \/ W < r1))
  \/ (r1 < W /\ (n < e - r1 \/ W < e))
  \/ (W + h <= r1 /\ (1 <= n \/ r1 < e)).

Lemma drawfix_length f W h r1 r2 n rows : length rows = h -> length (drawfix f W h r1 r2 n rows) = h.
Proof.
  intro L. unfold DrawDefs.drawfix. cbv zeta. rewrite draw_range_length.
  destruct (_ && _); [rewrite draw_range_length|]; apply term_room_length; exact L.
Qed.

(* old, new: what vi_drawrow draws for each absolute row before / after the edit.  Rows below r1
   are untouched, the rows from e on moved to r1 + n on. *)
Theorem drawfix_is_repaint old new W h r1 e n :
  1 <= h -> r1 <= e ->
  (forall i, i < r1 -> new i = old i) ->
  (forall k, new (r1 + n + k) = old (e + k)) ->
  fix_pre W h r1 e n ->
  drawfix new W h (Z.of_nat r1) (Z.of_nat e - 1) (Z.of_nat n) (win old W h) = win new W h.
Proof.
  intros Hh Hre S1 S2 Pre.
  apply (win_pointwise R new W h _ blank); [apply drawfix_length, win_length|].
  intros k Hk. unfold DrawDefs.drawfix. cbv zeta.
  set (r1c := Nat.min (Nat.max r1 W) (W + h - 1)).
  set (n' := if r1 <? W then n - (W - r1) else n).
  replace (if (Z.of_nat r1 <? Z.of_nat W)%Z then Z.max 0 (Z.of_nat n - (Z.of_nat W - Z.of_nat r1)) else Z.of_nat n)
    with (Z.of_nat n') by (unfold n'; destruct (Z.ltb_spec (Z.of_nat r1) (Z.of_nat W)); destruct (Nat.ltb_spec r1 W); lia).
  assert (Hn'def : (r1 < W /\ n' = n - (W - r1)) \/ (W <= r1 /\ n' = n)) by (unfold n'; destruct (Nat.ltb_spec r1 W); lia).
  clearbody n'.
  replace (clampZ (Z.of_nat r1) (Z.of_nat W) (Z.of_nat W + Z.of_nat h - 1)) with (Z.of_nat r1c)
    by (unfold clampZ, r1c; lia).
  set (room := (Z.of_nat r1c - clampZ (Z.of_nat e - 1) (Z.of_nat W) (Z.of_nat W + Z.of_nat h - 1) - 1 + Z.of_nat n')%Z).
  set (dneg := n <? e - r1).
  replace ((Z.of_nat n - (Z.of_nat e - 1 - Z.of_nat r1 + 1) <? 0)%Z) with dneg by (unfold dneg; lia).
  replace ((Z.of_nat r1c + Z.of_nat n' <? Z.of_nat W + Z.of_nat h)%Z) with (r1c + n' <? W + h) by lia.
  replace (Z.to_nat (Z.of_nat r1c - Z.of_nat W)) with (r1c - W) by lia.
  replace (Z.to_nat (Z.of_nat r1c + Z.of_nat n')) with (r1c + n') by lia.
  replace (Z.to_nat (Z.of_nat W + Z.of_nat h - (Z.of_nat r1c + Z.of_nat n'))) with (W + h - (r1c + n')) by lia.
  replace (Z.to_nat (Z.of_nat r1c)) with r1c by lia.
  replace (Z.to_nat (Z.min (Z.of_nat n') (Z.of_nat W + Z.of_nat h - Z.of_nat r1c))) with (Nat.min n' (W + h - r1c)) by lia.
  assert (Hr1c : W <= r1c < W + h) by (unfold r1c; lia).
  rewrite fix_loops_nth; [|apply term_room_length, win_length|exact Hr1c|exact Hk].
  destruct ((r1c - W <=? k) && ((k <? r1c - W + n') || dneg)) eqn:C; [reflexivity|].
  destruct (lt_dec k (r1c - W)) as [Hlt|Hge].
  - (* above the first touched row *)
    rewrite term_room_nth_above by (try apply win_length; exact Hlt).
    rewrite win_nth by exact Hk. symmetry. apply S1. unfold r1c in Hlt. lia.
  - (* below the redrawn rows, no lines removed: the rows were moved by insert-line *)
    assert (Hk2 : r1c - W + n' <= k /\ dneg = false).
    { replace (r1c - W <=? k) with true in C by lia. cbn [andb] in C.
      apply orb_false_iff in C. destruct C as [C1 C2]. apply Nat.ltb_ge in C1. split; assumption. }
    destruct Hk2 as [Hk2 Hd]. unfold dneg in Hd. apply Nat.ltb_ge in Hd.
    assert (Hin : (W <= r1 < W + h /\ (r1 < e \/ W < r1)) \/ (r1 < W /\ W < e)).
    { destruct Pre as [P|[P|P]]; [left; exact P|right; lia|]; unfold r1c in *; lia. }
    set (m := n - (e - r1)).
    assert (Hn' : r1c + n' = r1 + n \/ (r1 + n < W /\ n' = 0)) by (unfold r1c; lia).
    assert (Hrn : r1c + n' = r1 + n) by (destruct Hn' as [H|H]; [exact H|unfold r1c in *; lia]).
    assert (Hroom : room = Z.of_nat m).
    { unfold room, m, clampZ. lia. }
    rewrite Hroom.
    replace (W + k) with (r1 + n + (W + k - r1 - n)) by lia. rewrite S2.
    destruct (Nat.eq_dec m 0) as [Hm|Hm].
    + rewrite Hm. unfold DrawDefs.term_room. cbn. rewrite win_nth by exact Hk. f_equal. unfold m in Hm. lia.
    + rewrite term_room_ins_nth by (try apply win_length; unfold m in *; lia).
      replace (k <? r1c - W) with false by lia. replace (k <? r1c - W + m) with false by (unfold m; lia).
      rewrite win_nth by lia. f_equal. unfold m. lia.
Qed.

(* the same for buffers as lists of lines and a row image that depends on the line alone
   (img None = the filler): the edit is the splice of `ins` for lines r1 .. e-1 *)
Corollary drawfix_splice_is_repaint (line : Type) (img : option line -> R) (buf ins : list line) W h r1 e :
  1 <= h -> r1 <= e -> e <= length buf ->
  fix_pre W h r1 e (length ins) ->
  let f (b : list line) := fun i => img (nth_error b i) in
  drawfix (f (firstn r1 buf ++ ins ++ skipn e buf)) W h (Z.of_nat r1) (Z.of_nat e - 1) (Z.of_nat (length ins))
          (win (f buf) W h)
  = win (f (firstn r1 buf ++ ins ++ skipn e buf)) W h.
Proof.
  intros Hh Hre He Pre f. apply drawfix_is_repaint; try assumption.
  - intros i Hi. unfold f. f_equal. rewrite nth_error_app1 by (rewrite firstn_length; lia).
    rewrite <- (firstn_skipn r1 buf) at 2. rewrite nth_error_app1 by (rewrite firstn_length; lia). reflexivity.
  - intro k. unfold f. f_equal. rewrite nth_error_app2 by (rewrite firstn_length; lia).
    rewrite firstn_length. replace (Nat.min r1 (length buf)) with r1 by lia.
    rewrite nth_error_app2 by lia. replace (r1 + length ins + k - r1 - length ins) with k by lia.
    clear. revert buf k. induction e as [|e' IH]; intros buf k; [reflexivity|].
    destruct buf as [|x buf]; [destruct k; reflexivity|]. cbn [skipn plus nth_error]. apply IH.
Qed.
End Fix2.

(* fix_pre is needed: the call vi_drawfix(0,-1,0,0) (which vi_change made after a character-wise change on an
   empty buffer until fix 835c133, DESIGN.md section 9 row 19) is outside it and damages a correct screen *)
Theorem fix_pre_needed : exists (f : nat -> nat) h, 1 <= h /\
  drawfix nat 0 f 0 h 0%Z (-1)%Z 0%Z (win nat f 0 h) <> win nat f 0 h.
Proof. exists (fun i => S i), 3. split; [lia|]. vm_compute. discriminate. Qed.

(* ---------- the call sites: every vc_* command that edits the buffer passes vi_drawfix arguments that describe the
   splice lbuf_edit just made, inside fix_pre, given only the command's own guards and "the cursor line is in the window" ---------- *)
Section Sites.
Variable R : Type.
Variable blank : R.
Variable line : Type.
Variable img : option line -> R.
Notation win := (@win R).
Notation drawfix := (@drawfix R blank).
Definition fimg (b : list line) : nat -> R := fun i => img (nth_error b i).
(* lbuf_edit(xb, text, beg, en): lines beg .. en-1 are replaced by the lines of text *)
Definition splice (b : list line) (beg en : nat) (ins : list line) : list line := firstn beg b ++ ins ++ skipn en b.

(* the change starts on a row of the window and removes at least one line (every site but the line-wise put) *)
Lemma site_in_window buf ins W h r1 e :
  W <= r1 < W + h -> r1 < e -> e <= length buf ->
  drawfix (fimg (splice buf r1 e ins)) W h (Z.of_nat r1) (Z.of_nat e - 1) (Z.of_nat (length ins)) (win (fimg buf) W h)
  = win (fimg (splice buf r1 e ins)) W h.
Proof.
  intros Hw Hre He. apply (drawfix_splice_is_repaint R blank line img buf ins W h r1 e); try lia.
  left. split; [exact Hw|left; exact Hre].
Qed.
(* the change starts above the window and the buffer shrinks *)
Lemma site_above_shrinks buf ins W h r1 e :
  1 <= h -> r1 < W -> length ins < e - r1 -> e <= length buf ->
  drawfix (fimg (splice buf r1 e ins)) W h (Z.of_nat r1) (Z.of_nat e - 1) (Z.of_nat (length ins)) (win (fimg buf) W h)
  = win (fimg (splice buf r1 e ins)) W h.
Proof.
  intros Hh Hr Hn He. apply (drawfix_splice_is_repaint R blank line img buf ins W h r1 e); try lia.
  right. left. split; [assumption|left; assumption].
Qed.
(* the change starts above the window and reaches into it (since fix 7ace771 any line count) *)
Lemma site_above_reaches buf ins W h r1 e :
  1 <= h -> r1 < W -> W < e -> e <= length buf ->
  drawfix (fimg (splice buf r1 e ins)) W h (Z.of_nat r1) (Z.of_nat e - 1) (Z.of_nat (length ins)) (win (fimg buf) W h)
  = win (fimg (splice buf r1 e ins)) W h.
Proof.
  intros Hh Hr Hn He. apply (drawfix_splice_is_repaint R blank line img buf ins W h r1 e); try lia.
  right. left. split; [assumption|right; assumption].
Qed.

(* vi_delete, line mode: lbuf_edit(NULL, r1, r2+1); vi_drawfix(r1, r2, 0, 0).  r1 <= xrow <= r2 (the region of an operator
   contains the cursor line), the cursor line is in the window *)
Theorem site_delete_lines buf W h xrow r1 r2 :
  W <= xrow < W + h -> r1 <= xrow <= r2 -> r2 < length buf ->
  drawfix (fimg (splice buf r1 (S r2) [])) W h (Z.of_nat r1) (Z.of_nat r2) 0%Z (win (fimg buf) W h)
  = win (fimg (splice buf r1 (S r2) [])) W h.
Proof.
  intros Hw Hr Hl. replace (Z.of_nat r2) with (Z.of_nat (S r2) - 1)%Z by lia.
  change 0%Z with (Z.of_nat (@length line [])).
  destruct (le_lt_dec W r1); [apply site_in_window|apply site_above_shrinks]; cbn [length]; lia.
Qed.
(* vi_delete, character mode: the lines r1 .. r2 become the one line pref ++ post; vi_drawfix(r1, r2, 1, 0) *)
Theorem site_delete_chars buf l W h xrow r1 r2 :
  W <= xrow < W + h -> r1 <= xrow <= r2 -> r2 < length buf ->
  drawfix (fimg (splice buf r1 (S r2) [l])) W h (Z.of_nat r1) (Z.of_nat r2) 1%Z (win (fimg buf) W h)
  = win (fimg (splice buf r1 (S r2) [l])) W h.
Proof.
  intros Hw Hr Hl. replace (Z.of_nat r2) with (Z.of_nat (S r2) - 1)%Z by lia.
  change 1%Z with (Z.of_nat (length [l])).
  destruct (le_lt_dec W r1); [apply site_in_window|apply site_above_shrinks]; cbn [length]; lia.
Qed.
(* vi_case (g~ gu gU) and vi_shift (> <): r2-r1+1 lines replaced by as many; vi_drawfix(r1, r2, r2-r1+1, 0).  The region may
   start above the window (g~k, >k, <1G on the first row of a scrolled window) since fix 7ace771; before it such a call
   inserted xtop - r1 lines at row 0 (finding KF-DRAWFIX-ABOVE) *)
Theorem site_same_count buf ins W h xrow r1 r2 :
  W <= xrow < W + h -> r1 <= xrow <= r2 -> r2 < length buf -> length ins = S r2 - r1 ->
  drawfix (fimg (splice buf r1 (S r2) ins)) W h (Z.of_nat r1) (Z.of_nat r2) (Z.of_nat r2 - Z.of_nat r1 + 1)%Z (win (fimg buf) W h)
  = win (fimg (splice buf r1 (S r2) ins)) W h.
Proof.
  intros Hw Hr Hl Hi. replace (Z.of_nat r2) with (Z.of_nat (S r2) - 1)%Z at 1 by lia.
  replace (Z.of_nat r2 - Z.of_nat r1 + 1)%Z with (Z.of_nat (length ins)) by lia.
  destruct (le_lt_dec W r1); [apply site_in_window|apply site_above_reaches]; lia.
Qed.
(* vc_put, character-wise register: line xrow becomes the m >= 1 lines of pref ++ register ++ post; vi_drawfix(xrow, xrow, m, 0)
   (lncnt = linecount - 1).  vc_replace with a character is the case m = 1, with a newline m = cnt + 1 (vi_drawfix(xrow - cnt,
   xrow - cnt, cnt + 1, 0) after xrow += cnt). *)
Theorem site_replace_line buf ins W h xrow :
  W <= xrow < W + h -> xrow < length buf ->
  drawfix (fimg (splice buf xrow (S xrow) ins)) W h (Z.of_nat xrow) (Z.of_nat xrow) (Z.of_nat (length ins)) (win (fimg buf) W h)
  = win (fimg (splice buf xrow (S xrow) ins)) W h.
Proof.
  intros Hw Hl. replace (Z.of_nat xrow) with (Z.of_nat (S xrow) - 1)%Z at 2 by lia. apply site_in_window; lia.
Qed.
(* vc_join: lines xrow .. xrow+cnt-1 (cnt >= 2) become one; vi_drawfix(xrow, xrow + cnt - 1, 1, 0) *)
Theorem site_join buf l W h xrow cnt :
  W <= xrow < W + h -> 2 <= cnt -> xrow + cnt <= length buf ->
  drawfix (fimg (splice buf xrow (xrow + cnt) [l])) W h (Z.of_nat xrow) (Z.of_nat xrow + Z.of_nat cnt - 1)%Z 1%Z (win (fimg buf) W h)
  = win (fimg (splice buf xrow (xrow + cnt) [l])) W h.
Proof.
  intros Hw Hc Hl. replace (Z.of_nat xrow + Z.of_nat cnt - 1)%Z with (Z.of_nat (xrow + cnt) - 1)%Z by lia.
  change 1%Z with (Z.of_nat (length [l])). apply site_in_window; lia.
Qed.
(* vc_put, line-wise register of k >= 1 lines: lbuf_edit(text, xrow, xrow) is a pure insertion before line xrow (for `p`
   xrow was incremented first, so it may be the row just below the window or one past the last line); the call is
   vi_drawfix(xrow, xrow, k + 1, 0) -- vi.c's linecount is lines + 1: "line xrow is replaced by the k new lines and itself" *)
Theorem site_put_lines buf ins W h xrow :
  1 <= h -> W <= xrow <= W + h -> xrow <= length buf -> 1 <= length ins ->
  drawfix (fimg (splice buf xrow xrow ins)) W h (Z.of_nat xrow) (Z.of_nat xrow) (Z.of_nat (length ins) + 1)%Z (win (fimg buf) W h)
  = win (fimg (splice buf xrow xrow ins)) W h.
Proof.
  intros Hh Hw Hb Hk.
  replace (Z.of_nat xrow) with (Z.of_nat (S xrow) - 1)%Z at 2 by lia.
  replace (Z.of_nat (length ins) + 1)%Z with (Z.of_nat (S (length ins))) by lia.
  apply (drawfix_is_repaint R blank (fimg buf) (fimg (splice buf xrow xrow ins)) W h xrow (S xrow) (S (length ins))); try lia.
  - intros i Hi. unfold fimg, splice. f_equal.
    rewrite nth_error_app1 by (rewrite firstn_length; lia).
    rewrite <- (firstn_skipn xrow buf) at 2. rewrite nth_error_app1 by (rewrite firstn_length; lia). reflexivity.
  - intro j. unfold fimg, splice. f_equal.
    rewrite nth_error_app2 by (rewrite firstn_length; lia). rewrite firstn_length.
    replace (Nat.min xrow (length buf)) with xrow by lia.
    rewrite nth_error_app2 by lia.
    replace (xrow + S (length ins) + j - xrow - length ins) with (S j) by lia.
    clear. revert buf j. induction xrow as [|x IH]; intros buf j; [reflexivity|].
    destruct buf as [|y buf]; [reflexivity|]. cbn [skipn plus nth_error]. apply IH.
  - destruct (Nat.eq_dec xrow (W + h)) as [E|E].
    + right. right. split; [lia|left; lia].
    + left. split; [lia|left; lia].
Qed.
End Sites.

(* ---------- insert mode: vi_nextline and the preview of vi_change ---------- *)
Section InsertMode.
Variable R : Type.
Variable blank : R.
Notation win := (@win R).
Notation nextline := (@nextline R blank).
Notation drawfix_preview := (@drawfix_preview R blank).

(* vi_nextline on a screen that shows win g xtop h with the cursor line in the window: afterwards the cursor line is the next
   one, still in the window, its row is blank, the rows above show the same lines and the rows below show the lines that were
   one row higher -- the window of the buffer with an empty line opened after xrow *)
Theorem nextline_opens_line g h xtop xrow : 1 <= h -> xtop <= xrow < xtop + h ->
  let '(t, r, rows) := nextline h xtop xrow (win g xtop h) in
  r = S xrow /\ t <= r < t + h /\ length rows = h /\
  forall k, k < h -> nth k rows blank = if t + k =? r then blank else if t + k <? r then g (t + k) else g (t + k - 1).
Proof.
  intros Hh Hw. unfold DrawDefs.nextline. destruct (xrow =? xtop + h - 1) eqn:E.
  - apply Nat.eqb_eq in E. split; [reflexivity|]. split; [lia|].
    split; [apply del_lines_length, win_length|]. intros k Hk.
    rewrite (del_lines_spec blank h 0 1 (win g xtop h)) by (try apply win_length; lia).
    replace (Nat.min 1 (h - 0)) with 1 by lia. replace (0 + 1) with 1 by lia. cbn [firstn app].
    destruct (Nat.eq_dec k (h - 1)) as [Ek|Ek].
    + replace (S xtop + k =? S xrow) with true by lia.
      rewrite app_nth2 by (rewrite skipn_length, win_length; lia). rewrite skipn_length, win_length.
      replace (k - (h - 1)) with 0 by lia. reflexivity.
    + replace (S xtop + k =? S xrow) with false by lia. replace (S xtop + k <? S xrow) with true by lia.
      rewrite app_nth1 by (rewrite skipn_length, win_length; lia). rewrite nth_skipn', win_nth by lia. f_equal. lia.
  - apply Nat.eqb_neq in E. split; [reflexivity|]. split; [lia|].
    split; [apply term_room_length, win_length|]. intros k Hk.
    change 1%Z with (Z.of_nat 1).
    rewrite (term_room_ins_nth R blank h 1 (S xrow - xtop) (win g xtop h) k blank) by (try apply win_length; lia).
    destruct (k <? S xrow - xtop) eqn:C1.
    + apply Nat.ltb_lt in C1. replace (xtop + k =? S xrow) with false by lia. replace (xtop + k <? S xrow) with true by lia.
      apply win_nth. lia.
    + apply Nat.ltb_ge in C1. destruct (k <? S xrow - xtop + 1) eqn:C2.
      * apply Nat.ltb_lt in C2. replace (xtop + k =? S xrow) with true by lia. reflexivity.
      * apply Nat.ltb_ge in C2. replace (xtop + k =? S xrow) with false by lia. replace (xtop + k <? S xrow) with false by lia.
        rewrite win_nth by lia. f_equal. lia.
Qed.

(* vi_drawfix(r1, r2, 1, 1), the preview vi_change draws before reading the text (nothing is edited yet, g = the rows of the
   buffer as it is; r1 <= cursor line <= r2): the window moves up to r1 if the region starts above it, row r1 is a placeholder
   (led_printparts overwrites it at once), every other row shows the buffer with the lines r1+1 .. r2 removed *)
Theorem preview_is_repaint g W h xrow r1 r2 : 1 <= h -> W <= xrow < W + h -> r1 <= xrow <= r2 ->
  let '(t, rows) := drawfix_preview g W h (Z.of_nat r1) (Z.of_nat r2) 1%Z (win g W h) in
  t = Nat.min W r1 /\ t <= r1 < t + h /\ length rows = h /\
  forall k, k < h -> t + k <> r1 -> nth k rows blank = if t + k <? r1 then g (t + k) else g (t + k + (r2 - r1)).
Proof.
  intros Hh Hw Hr. unfold DrawDefs.drawfix_preview. cbv zeta.
  set (t := if (Z.of_nat r1 <? Z.of_nat W)%Z then Z.to_nat (Z.of_nat r1) else W).
  assert (Et : t = Nat.min W r1) by (unfold t; destruct (Z.of_nat r1 <? Z.of_nat W)%Z eqn:E; lia).
  assert (Ht : t <= r1 < t + h) by lia.
  replace (clampZ (Z.of_nat r1) (Z.of_nat t) (Z.of_nat t + Z.of_nat h - 1)) with (Z.of_nat r1) by (unfold clampZ; lia).
  set (r2c := clampZ (Z.of_nat r2) (Z.of_nat t) (Z.of_nat t + Z.of_nat h - 1)).
  set (room := term_room R blank h (Z.of_nat r1 - r2c - 1 + 1) (Z.to_nat (Z.of_nat r1 - Z.of_nat t)) (win g W h)).
  assert (Lroom : length room = h) by (apply term_room_length, win_length).
  set (dneg := r1 <? r2).
  replace ((1 - (Z.of_nat r2 - Z.of_nat r1 + 1) <? 0)%Z) with dneg by (unfold dneg; lia).
  replace ((Z.of_nat r1 + 1 <? Z.of_nat t + Z.of_nat h)%Z) with (r1 + 1 <? t + h) by lia.
  replace (Z.to_nat (Z.of_nat r1 + 1)) with (r1 + 1) by lia.
  replace (Z.to_nat (Z.of_nat t + Z.of_nat h - (Z.of_nat r1 + 1))) with (t + h - (r1 + 1)) by lia.
  replace (Z.to_nat (Z.of_nat r1)) with r1 by lia.
  replace (Z.to_nat (Z.min 1 (Z.of_nat t + Z.of_nat h - Z.of_nat r1))) with 1 by lia.
  replace (Z.to_nat (- (1 - (Z.of_nat r2 - Z.of_nat r1 + 1)))) with (r2 - r1) by lia.
  set (X := if dneg && (r1 + 1 <? t + h)
            then draw_range R (fun i => g (i + (r2 - r1))) t h (r1 + 1) (t + h - (r1 + 1)) room else room).
  assert (LX : length X = h) by (unfold X; destruct (dneg && _); [rewrite draw_range_length|]; exact Lroom).
  split; [exact Et|]. split; [exact Ht|]. split; [rewrite draw_range_length; exact LX|].
  intros k Hk Hne.
  rewrite (draw_range_nth R g t h r1 1 X k blank) by lia.
  replace ((r1 - t <=? k) && (k <? r1 - t + 1)) with false by lia.
  destruct (lt_dec k (r1 - t)) as [Hlt|Hge].
  - (* above the placeholder: the window did not move, the rows are untouched *)
    assert (EW : t = W) by lia.
    replace (t + k <? r1) with true by lia.
    assert (Hx : nth k X blank = nth k room blank).
    { unfold X. destruct (dneg && (r1 + 1 <? t + h)) eqn:C; [|reflexivity].
      apply andb_true_iff in C. destruct C as [_ C]. apply Nat.ltb_lt in C.
      rewrite (draw_range_nth R _ t h (r1 + 1) (t + h - (r1 + 1)) room k blank) by lia.
      replace (r1 + 1 - t <=? k) with false by lia. reflexivity. }
    rewrite Hx. unfold room. rewrite term_room_nth_above by (try apply win_length; lia).
    rewrite win_nth by lia. f_equal. lia.
  - replace (t + k <? r1) with false by lia.
    unfold X, dneg. destruct (r1 <? r2) eqn:D.
    + (* lines disappear: every row below the placeholder is drawn from further down *)
      apply Nat.ltb_lt in D. replace (r1 + 1 <? t + h) with true by lia. cbn [andb].
      rewrite (draw_range_nth R _ t h (r1 + 1) (t + h - (r1 + 1)) room k blank) by lia.
      replace ((r1 + 1 - t <=? k) && (k <? r1 + 1 - t + (t + h - (r1 + 1)))) with true by lia. reflexivity.
    + (* one line replaced by one: nothing moves *)
      apply Nat.ltb_ge in D. cbn [andb]. assert (r2 = r1) by lia. subst r2.
      assert (EW : t = W) by lia.
      unfold room. replace (Z.of_nat r1 - r2c - 1 + 1)%Z with 0%Z by (unfold r2c, clampZ; lia).
      unfold DrawDefs.term_room. cbn. rewrite win_nth by lia. f_equal. lia.
Qed.
End InsertMode.

(* ---------- the redraw decision at the tail of vi() ---------- *)
Section Tail.
Variable R : Type.
Variable blank : R.
Notation win := (@win R).
Notation drawrow := (@drawrow R).
Notation draw_range := (@draw_range R).
Notation drawupdate := (@drawupdate R blank).
Notation drawagain := (@drawagain R).
Notation redraw_tail := (@redraw_tail R blank).

Lemma drawupdate_ext f m h otop xtop rows : (forall i, ~ (otop <= i < otop + h) -> f i = m i) ->
  drawupdate f h otop xtop rows = drawupdate m h otop xtop rows.
Proof.
  intro H. unfold DrawDefs.drawupdate. destruct (otop =? xtop); [reflexivity|].
  destruct (otop <? xtop) eqn:L.
  - apply Nat.ltb_lt in L. apply draw_range_ext. intros i Hi. apply H. lia.
  - apply Nat.ltb_ge in L. apply draw_range_ext. intros i Hi. apply H. lia.
Qed.

(* g: the row images the screen shows before the tail (at the old top), f: the images now.
   A full redraw needs nothing; the one-line redraw and the scroll path need the images to agree
   except on the old and the new cursor line (which is where `hll` changes them). *)
Theorem tail_is_repaint g f h (mr mw lc hll : bool) otop xtop orow xrow :
  xtop <= xrow < xtop + h ->
  (if mr || mw || lc
   then (if mr && negb lc && (xtop =? otop) then forall i, i <> xrow -> i <> orow -> f i = g i else True)
   else forall i, (hll = true /\ xrow <> orow -> i <> xrow /\ i <> orow) -> f i = g i) ->
  redraw_tail f h mr mw lc hll otop xtop orow xrow (win g otop h) = win f xtop h.
Proof.
  intros Hx Hyp. unfold DrawDefs.redraw_tail. destruct (mr || mw || lc) eqn:M.
  - destruct (mr && negb lc && (xtop =? otop)) eqn:LO.
    + apply andb_true_iff in LO. destruct LO as [_ E]. apply Nat.eqb_eq in E. subst otop.
      apply (win_pointwise R f xtop h _ blank).
      { destruct (negb (xrow =? orow)); unfold DrawDefs.drawagain; rewrite ?drawrow_length; apply win_length. }
      intros k Hk. unfold DrawDefs.drawagain.
      destruct (xrow =? orow) eqn:E; cbn [negb].
      * apply Nat.eqb_eq in E. rewrite drawrow_nth by apply win_length. rewrite win_nth by exact Hk.
        destruct ((xtop <=? xrow) && (xrow <? xtop + h) && (k =? xrow - xtop)) eqn:C.
        -- apply andb_true_iff in C. destruct C as [_ C]. apply Nat.eqb_eq in C. f_equal. lia.
        -- symmetry. apply Hyp; subst orow; intro; subst xrow;
           replace (xtop <=? xtop + k) with true in C by lia; replace (xtop + k <? xtop + h) with true in C by lia;
           replace (k =? xtop + k - xtop) with true in C by lia; discriminate.
      * apply Nat.eqb_neq in E. rewrite !drawrow_nth by (rewrite ?drawrow_length; apply win_length).
        rewrite win_nth by exact Hk.
        destruct ((xtop <=? orow) && (orow <? xtop + h) && (k =? orow - xtop)) eqn:C1.
        { apply andb_true_iff in C1. destruct C1 as [C0 C1]. apply andb_true_iff in C0. destruct C0 as [C2 C3].
          apply Nat.eqb_eq in C1. apply Nat.leb_le in C2. f_equal. lia. }
        destruct ((xtop <=? xrow) && (xrow <? xtop + h) && (k =? xrow - xtop)) eqn:C2.
        { apply andb_true_iff in C2. destruct C2 as [_ C2]. apply Nat.eqb_eq in C2. f_equal. lia. }
        symmetry. apply Hyp.
        -- intro; subst xrow. replace (xtop <=? xtop + k) with true in C2 by lia.
           replace (xtop + k <? xtop + h) with true in C2 by lia. replace (k =? xtop + k - xtop) with true in C2 by lia. discriminate.
        -- intro; subst orow. replace (xtop <=? xtop + k) with true in C1 by lia.
           replace (xtop + k <? xtop + h) with true in C1 by lia. replace (k =? xtop + k - xtop) with true in C1 by lia. discriminate.
    + apply drawagain_all, win_length.
  - (* scroll path *)
    set (m := fun i => if (otop <=? i) && (i <? otop + h) then g i else f i).
    assert (Hm1 : win g otop h = win m otop h).
    { apply win_ext. intros i Hi. unfold m. replace ((otop <=? i) && (i <? otop + h)) with true by lia. reflexivity. }
    assert (Hm2 : forall i, ~ (otop <= i < otop + h) -> f i = m i).
    { intros i Hi. unfold m. replace ((otop <=? i) && (i <? otop + h)) with false by lia. reflexivity. }
    assert (Hrows : (if negb (xtop =? otop) then drawupdate f h otop xtop (win g otop h) else win g otop h) = win m xtop h).
    { destruct (xtop =? otop) eqn:E; cbn [negb].
      - apply Nat.eqb_eq in E. subst. exact Hm1.
      - rewrite Hm1, (drawupdate_ext f m h otop xtop _ Hm2). apply drawupdate_is_repaint. }
    rewrite Hrows. clear Hrows.
    assert (Hfm : forall i, (hll = true /\ xrow <> orow -> i <> xrow /\ i <> orow) -> m i = f i).
    { intros i Hi. unfold m. destruct ((otop <=? i) && (i <? otop + h)); [|reflexivity]. symmetry. apply Hyp, Hi. }
    apply (win_pointwise R f xtop h _ blank).
    { repeat match goal with |- context [if ?b then _ else _] => destruct b end; rewrite ?drawrow_length; apply win_length. }
    intros k Hk.
    destruct (hll && negb (xrow =? orow)) eqn:H1.
    + apply andb_true_iff in H1. destruct H1 as [Hh H1]. subst hll. apply negb_true_iff in H1. apply Nat.eqb_neq in H1.
      cbn [andb]. rewrite drawrow_nth by (destruct (_ && _); rewrite ?drawrow_length; apply win_length).
      destruct ((xtop <=? xrow) && (xrow <? xtop + h) && (k =? xrow - xtop)) eqn:C2.
      { apply andb_true_iff in C2. destruct C2 as [_ C2]. apply Nat.eqb_eq in C2. f_equal. lia. }
      assert (Nx : xtop + k <> xrow).
      { intro; subst xrow. replace (xtop <=? xtop + k) with true in C2 by lia.
        replace (xtop + k <? xtop + h) with true in C2 by lia. replace (k =? xtop + k - xtop) with true in C2 by lia. discriminate. }
      destruct ((xtop <=? orow) && (orow <? xtop + h)) eqn:C1.
      * rewrite drawrow_nth by apply win_length. rewrite C1. cbn [andb].
        destruct (k =? orow - xtop) eqn:C3.
        { apply Nat.eqb_eq in C3. apply andb_true_iff in C1. destruct C1 as [C1 _]. apply Nat.leb_le in C1. f_equal. lia. }
        apply Nat.eqb_neq in C3. rewrite win_nth by exact Hk. apply Hfm. intros _. split; [exact Nx|].
        apply andb_true_iff in C1. destruct C1 as [C1 _]. apply Nat.leb_le in C1. lia.
      * rewrite win_nth by exact Hk. apply Hfm. intros _. split; [exact Nx|]. intro; subst orow.
        replace (xtop <=? xtop + k) with true in C1 by lia. replace (xtop + k <? xtop + h) with true in C1 by lia. discriminate.
    + (* nothing else is drawn: either no highlight, or the cursor line did not change *)
      cbn [andb].
      rewrite win_nth by exact Hk. apply Hfm. intros [Hh Hne]. subst hll. cbn [andb] in H1.
      apply negb_false_iff in H1. apply Nat.eqb_eq in H1. contradiction.
Qed.
End Tail.

(* ---------- the command loop ---------- *)
Section Loop.
Variable R : Type.
Variable blank : R.
Variable h : nat.
Notation win := (@win R).

(* what the terminal shows and where the editor thinks the window and the cursor line are *)
Record vstate := mkV { s_f : nat -> R; s_top : nat; s_row : nat; s_scr : list R }.
Definition coherent (s : vstate) : Prop :=
  s_scr s = win (s_f s) (s_top s) h /\ s_top s <= s_row s < s_top s + h.

(* one iteration of the loop of vi(): the command body leaves the screen c_scr1 (it may have
   called vi_drawfix itself), the row images c_f, the redraw class (mod, xleft != oleft), the top
   the tail compares against (c_otop: the top before the command, or after its body when it
   returned VC_OK) and, after vi_wfix, the top c_top and cursor line c_row *)
Record step := mkS { c_f : nat -> R; c_g : nat -> R; c_otop : nat; c_top : nat; c_row : nat;
                     c_scr1 : list R; c_mr : bool; c_mw : bool; c_lc : bool; c_hll : bool }.
Definition do_step (s : vstate) (c : step) : vstate :=
  mkV (c_f c) (c_top c) (c_row c)
      (redraw_tail R blank (c_f c) h (c_mr c) (c_mw c) (c_lc c) (c_hll c) (c_otop c) (c_top c) (s_row s) (c_row c) (c_scr1 c)).
Fixpoint run_steps (s : vstate) (cs : list step) : vstate :=
  match cs with [] => s | c :: r => run_steps (do_step s c) r end.

(* the contract of a command body: what it leaves on the screen is a repaint (at c_otop) of row
   images c_g that differ from the final ones only where the tail redraws *)
Definition step_ok (s : vstate) (c : step) : Prop :=
  c_scr1 c = win (c_g c) (c_otop c) h /\
  c_top c <= c_row c < c_top c + h /\
  (if c_mr c || c_mw c || c_lc c
   then (if c_mr c && negb (c_lc c) && (c_top c =? c_otop c)
         then forall i, i <> c_row c -> i <> s_row s -> c_f c i = c_g c i else True)
   else forall i, (c_hll c = true /\ c_row c <> s_row s -> i <> c_row c /\ i <> s_row s) -> c_f c i = c_g c i).
Inductive steps_ok : vstate -> list step -> Prop :=
| steps_nil s : steps_ok s []
| steps_cons s c r : step_ok s c -> steps_ok (do_step s c) r -> steps_ok s (c :: r).

Theorem loop_coherent s cs : coherent s -> steps_ok s cs -> coherent (run_steps s cs).
Proof.
  intros Hs H. induction H as [s|s c r [H1 [H2 H3]] _ IH]; [exact Hs|].
  cbn [run_steps]. apply IH. unfold coherent, do_step. cbn [s_scr s_f s_top s_row]. split; [|exact H2].
  rewrite H1. apply tail_is_repaint; assumption.
Qed.

(* two ways to meet the contract.  A motion or scroll: the body draws nothing and changes no line
   (with `hll` the images of the old and new cursor line change). *)
Lemma motion_step_ok s c : coherent s ->
  c_scr1 c = s_scr s -> c_g c = s_f s -> c_otop c = s_top s ->
  c_mr c = false -> c_mw c = false -> c_lc c = false ->
  c_top c <= c_row c < c_top c + h ->
  (forall i, (c_hll c = true /\ c_row c <> s_row s -> i <> c_row c /\ i <> s_row s) -> c_f c i = s_f s i) ->
  step_ok s c.
Proof.
  intros [Hs _] E1 E2 E3 M1 M2 M3 Hw Hf. unfold step_ok. rewrite E1, E2, E3, M1, M2, M3. cbn [orb].
  split; [exact Hs|]. split; [exact Hw|exact Hf].
Qed.
(* An edit that replaces lines r1 .. e-1 by n lines, repaired by vi_drawfix(r1, e-1, n, 0) under
   fix_pre, returning VC_OK (no highlight of the current line) *)
Lemma drawfix_step_ok s c r1 e n : coherent s -> 1 <= h -> r1 <= e ->
  (forall i, i < r1 -> c_f c i = s_f s i) ->
  (forall k, c_f c (r1 + n + k) = s_f s (e + k)) ->
  fix_pre (s_top s) h r1 e n ->
  c_scr1 c = drawfix R blank (c_f c) (s_top s) h (Z.of_nat r1) (Z.of_nat e - 1) (Z.of_nat n) (s_scr s) ->
  c_g c = c_f c -> c_otop c = s_top s ->
  c_mr c = false -> c_mw c = false -> c_lc c = false -> c_hll c = false ->
  c_top c <= c_row c < c_top c + h ->
  step_ok s c.
Proof.
  intros [Hs _] Hh Hre S1 S2 Pre E1 E2 E3 M1 M2 M3 M4 Hw. unfold step_ok.
  rewrite E1, E2, E3, M1, M2, M3, M4, Hs. cbn [orb]. split; [|split; [exact Hw|reflexivity]].
  apply drawfix_is_repaint; assumption.
Qed.
End Loop.
