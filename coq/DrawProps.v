(* DrawProps.v -- the scroll algebra of C19 (DESIGN.md Appendix C): emulator lemmas (insert /
   delete line as list operations on the text region), vi_drawupdate and vi_drawfix leave what a
   full repaint draws, the window follows the cursor. *)
From Coq Require Import List Arith ZArith Bool Lia ZifyBool.
From NV Require Import Bytes TermEmu DrawDefs.
Ltac Zify.zify_post_hook ::= Z.div_mod_to_equations.
Import ListNotations.

(* ---------- set_nth ---------- *)
Section SetNth.
Context {A : Type}.
Lemma set_nth_length i (x : A) l : length (set_nth i x l) = length l.
Proof.
  unfold set_nth. destruct (i <? length l) eqn:E; [|reflexivity]. apply Nat.ltb_lt in E.
  rewrite app_length, firstn_length. cbn [length]. rewrite skipn_length. lia.
Qed.
Lemma set_nth_split i (x : A) l : i < length l ->
  set_nth i x l = firstn i l ++ x :: skipn (S i) l.
Proof. intro H. unfold set_nth. apply Nat.ltb_lt in H. rewrite H. reflexivity. Qed.
Lemma set_nth_nth i k (x d : A) l : i < length l ->
  nth k (set_nth i x l) d = if k =? i then x else nth k l d.
Proof.
  intro H. rewrite set_nth_split by assumption.
  destruct (k =? i) eqn:E.
  - apply Nat.eqb_eq in E. subst. rewrite app_nth2 by (rewrite firstn_length; lia).
    rewrite firstn_length. replace (i - Nat.min i (length l)) with 0 by lia. reflexivity.
  - apply Nat.eqb_neq in E. destruct (lt_dec k i).
    + rewrite app_nth1 by (rewrite firstn_length; lia).
      rewrite <- (firstn_skipn i l) at 2. rewrite app_nth1 by (rewrite firstn_length; lia). reflexivity.
    + rewrite app_nth2 by (rewrite firstn_length; lia). rewrite firstn_length.
      replace (Nat.min i (length l)) with i by lia.
      destruct (k - i) as [|m] eqn:Ek; [lia|]. cbn [nth].
      rewrite <- (firstn_skipn (S i) l) at 2. rewrite app_nth2 by (rewrite firstn_length; lia).
      rewrite firstn_length. f_equal. lia.
Qed.
End SetNth.

(* ---------- emulator lemmas: delete / insert lines in the text region [0, h) of a screen
   `text ++ rest` (rest = the message row) act on `text` alone, as the list operations of the
   scroll algebra ---------- *)
Section EmuLemmas.
Context {A : Type}.
Variable blank : A.

Lemma del_lines_region h r n (text rest : list A) : length text = h ->
  del_lines blank 0 h r n (text ++ rest) = del_lines blank 0 h r n text ++ rest.
Proof.
  intro L. unfold del_lines. destruct ((0 <=? r) && (r <? h)) eqn:E; [|reflexivity].
  apply andb_true_iff in E. destruct E as [_ E]. apply Nat.ltb_lt in E.
  set (k := Nat.min n (h - r)).
  rewrite !firstn_app, !skipn_app, L.
  replace (r - h) with 0 by lia. replace (h - h) with 0 by lia. cbn [firstn skipn].
  rewrite app_nil_r. rewrite (firstn_all2 (n:=h) text) by lia.
  rewrite (skipn_all2 (n:=h) text) by lia. cbn [app]. rewrite app_nil_r.
  rewrite <- !app_assoc. rewrite ?skipn_nil. reflexivity.
Qed.

Lemma ins_lines_region h r n (text rest : list A) : length text = h ->
  ins_lines blank 0 h r n (text ++ rest) = ins_lines blank 0 h r n text ++ rest.
Proof.
  intro L. unfold ins_lines. destruct ((0 <=? r) && (r <? h)) eqn:E; [|reflexivity].
  apply andb_true_iff in E. destruct E as [_ E]. apply Nat.ltb_lt in E.
  set (k := Nat.min n (h - r)).
  rewrite !firstn_app, !skipn_app, L.
  replace (r - h) with 0 by lia. replace (h - h) with 0 by lia. cbn [firstn skipn].
  rewrite app_nil_r. rewrite (skipn_all2 (n:=h) text) by lia. cbn [app].
  rewrite firstn_app, skipn_length, L. replace (h - r - k - (h - r)) with 0 by lia. cbn [firstn].
  rewrite !app_nil_r. rewrite <- !app_assoc. reflexivity.
Qed.

(* DL k at row r: the rows below move up, k blank rows enter at the bottom *)
Lemma del_lines_spec h r n (text : list A) : length text = h -> r < h ->
  del_lines blank 0 h r n text =
  firstn r text ++ skipn (r + Nat.min n (h - r)) text ++ repeat blank (Nat.min n (h - r)).
Proof.
  intros L Hr. unfold del_lines. replace ((0 <=? r) && (r <? h)) with true
    by (symmetry; apply andb_true_iff; split; [reflexivity|apply Nat.ltb_lt; exact Hr]).
  rewrite (firstn_all2 (n:=h) text) by lia. rewrite (skipn_all2 (n:=h) text) by lia.
  rewrite app_nil_r. reflexivity.
Qed.
(* IL k at row r: k blank rows at r, the rows from r on move down, the last k fall off *)
Lemma ins_lines_spec h r n (text : list A) : length text = h -> r < h ->
  ins_lines blank 0 h r n text =
  firstn r text ++ repeat blank (Nat.min n (h - r)) ++ firstn (h - r - Nat.min n (h - r)) (skipn r text).
Proof.
  intros L Hr. unfold ins_lines. replace ((0 <=? r) && (r <? h)) with true
    by (symmetry; apply andb_true_iff; split; [reflexivity|apply Nat.ltb_lt; exact Hr]).
  rewrite (skipn_all2 (n:=h) text) by lia. rewrite app_nil_r. reflexivity.
Qed.
Lemma del_lines_length h r n (text : list A) : length text = h ->
  length (del_lines blank 0 h r n text) = h.
Proof.
  intro L. unfold del_lines. destruct ((0 <=? r) && (r <? h)) eqn:E; [|exact L].
  apply andb_true_iff in E. destruct E as [_ E]. apply Nat.ltb_lt in E.
  rewrite !app_length, firstn_length, skipn_length, firstn_length, repeat_length, skipn_length. lia.
Qed.
Lemma ins_lines_length h r n (text : list A) : length text = h ->
  length (ins_lines blank 0 h r n text) = h.
Proof.
  intro L. unfold ins_lines. destruct ((0 <=? r) && (r <? h)) eqn:E; [|exact L].
  apply andb_true_iff in E. destruct E as [_ E]. apply Nat.ltb_lt in E.
  rewrite !app_length, !firstn_length, repeat_length, !skipn_length. lia.
Qed.
End EmuLemmas.

(* ---------- windows ---------- *)
Section Scroll.
Variable R : Type.
Variable blank : R.
Notation win := (@win R).
Notation term_room := (@term_room R blank).
Notation drawrow := (@drawrow R).
Notation draw_range := (@draw_range R).
Notation drawupdate := (@drawupdate R blank).
Notation drawfix := (@drawfix R blank).
Notation drawagain := (@drawagain R).
Notation redraw_tail := (@redraw_tail R blank).

Lemma win_length f top h : length (win f top h) = h.
Proof. unfold DrawDefs.win. rewrite map_length, seq_length. reflexivity. Qed.

Lemma seq_shift_add a b : seq a b = map (fun i => a + i) (seq 0 b).
Proof.
  revert a; induction b as [|b IH]; intro a; cbn [seq map]; [reflexivity|]. rewrite Nat.add_0_r. f_equal.
  rewrite (IH (S a)), (IH 1), map_map. apply map_ext. intro; lia.
Qed.
Lemma win_app f top a b : win f top (a + b) = win f top a ++ win f (top + a) b.
Proof.
  unfold DrawDefs.win. rewrite seq_app, map_app. f_equal. cbn [plus].
  rewrite (seq_shift_add a b), map_map. apply map_ext. intro i. f_equal. lia.
Qed.
Lemma win_skipn f top h k : k <= h -> skipn k (win f top h) = win f (top + k) (h - k).
Proof.
  intro H. replace h with (k + (h - k)) at 1 by lia. rewrite win_app.
  rewrite skipn_app, win_length, Nat.sub_diag. rewrite skipn_all2 by (rewrite win_length; lia). reflexivity.
Qed.
Lemma win_firstn f top h k : k <= h -> firstn k (win f top h) = win f top k.
Proof.
  intro H. replace h with (k + (h - k)) at 1 by lia. rewrite win_app.
  rewrite firstn_app, win_length, Nat.sub_diag. cbn [firstn]. rewrite app_nil_r. apply firstn_all2. rewrite win_length. lia.
Qed.
Lemma win_nth f top h k d : k < h -> nth k (win f top h) d = f (top + k).
Proof.
  intro H. unfold DrawDefs.win. rewrite (nth_indep _ d (f (top + 0))) by (rewrite map_length, seq_length; exact H).
  rewrite (map_nth (fun i => f (top + i)) (seq 0 h) 0 k), seq_nth by exact H. reflexivity.
Qed.
Lemma win_ext f g top h : (forall i, top <= i < top + h -> f i = g i) -> win f top h = win g top h.
Proof. intro H. unfold DrawDefs.win. apply map_ext_in. intros i Hi. apply in_seq in Hi. apply H. lia. Qed.
Lemma win_1 f top : win f top 1 = [f top].
Proof. unfold DrawDefs.win. cbn. rewrite Nat.add_0_r. reflexivity. Qed.
(* a list of h rows that agrees row by row with the repaint is the repaint *)
Lemma win_pointwise f top h (l : list R) d : length l = h ->
  (forall k, k < h -> nth k l d = f (top + k)) -> l = win f top h.
Proof.
  intros L H. apply (nth_ext _ _ d d); [rewrite win_length; exact L|].
  intros k Hk. rewrite win_nth by lia. apply H. lia.
Qed.

(* ---------- drawing rows ---------- *)
Lemma drawrow_length f xtop h i rows : length (drawrow f xtop h i rows) = length rows.
Proof. unfold DrawDefs.drawrow. destruct (_ && _); [apply set_nth_length|reflexivity]. Qed.
Lemma draw_range_length f xtop h a cnt rows : length (draw_range f xtop h a cnt rows) = length rows.
Proof.
  unfold DrawDefs.draw_range. revert a rows. induction cnt as [|c IH]; intros a rows; cbn [seq fold_left]; [reflexivity|].
  rewrite IH. apply drawrow_length.
Qed.
Lemma drawrow_nth f xtop h i rows k d : length rows = h ->
  nth k (drawrow f xtop h i rows) d =
  if (xtop <=? i) && (i <? xtop + h) && (k =? i - xtop) then f i else nth k rows d.
Proof.
  intro L. unfold DrawDefs.drawrow. destruct ((xtop <=? i) && (i <? xtop + h)) eqn:E; [|reflexivity].
  cbn [andb]. apply andb_true_iff in E. destruct E as [E1 E2]. apply Nat.leb_le in E1. apply Nat.ltb_lt in E2.
  apply set_nth_nth. lia.
Qed.

(* rows a .. a+cnt-1 of the window are overwritten by the repaint's rows *)
Lemma draw_range_spec f xtop h a cnt rows : length rows = h -> xtop <= a -> a + cnt <= xtop + h ->
  draw_range f xtop h a cnt rows =
  firstn (a - xtop) rows ++ win f a cnt ++ skipn (a - xtop + cnt) rows.
Proof.
  unfold DrawDefs.draw_range. revert a rows. induction cnt as [|c IH]; intros a rows L Ha Hb.
  - cbn [seq fold_left]. unfold DrawDefs.win. cbn [seq map app]. rewrite Nat.add_0_r. symmetry. apply firstn_skipn.
  - cbn [seq fold_left]. rewrite IH; [|rewrite drawrow_length; exact L|lia|lia].
    unfold DrawDefs.drawrow. replace ((xtop <=? a) && (a <? xtop + h)) with true
      by (symmetry; apply andb_true_iff; split; [apply Nat.leb_le|apply Nat.ltb_lt]; lia).
    rewrite set_nth_split by lia.
    replace (S a - xtop) with (S (a - xtop)) by lia.
    set (j := a - xtop).
    assert (Lf : length (firstn j rows) = j) by (rewrite firstn_length; lia).
    replace (S j) with (length (firstn j rows) + 1) at 1 by lia.
    rewrite firstn_app_2. cbn [firstn].
    replace (S j + c) with (length (firstn j rows) + S c) by lia.
    rewrite skipn_app, Lf. replace (j + S c - j) with (S c) by lia.
    rewrite (skipn_all2 (firstn j rows)) by lia. cbn [app]. rewrite skipn_cons.
    rewrite skipn_skipn. replace (S j + c) with (j + S c) by lia.
    change (win f a (S c)) with (win f a (1 + c)). rewrite (win_app f a 1 c), win_1.
    replace (a + 1) with (S a) by lia. rewrite <- !app_assoc. reflexivity.
Qed.
Lemma draw_range_ext f g xtop h a cnt rows : (forall i, a <= i < a + cnt -> f i = g i) ->
  draw_range f xtop h a cnt rows = draw_range g xtop h a cnt rows.
Proof.
  unfold DrawDefs.draw_range. revert a rows. induction cnt as [|c IH]; intros a rows H; cbn [seq fold_left]; [reflexivity|].
  rewrite IH by (intros; apply H; lia). f_equal. unfold DrawDefs.drawrow. rewrite (H a) by lia. reflexivity.
Qed.
Lemma drawagain_all f xtop h rows : length rows = h -> drawagain f xtop h None rows = win f xtop h.
Proof.
  intro L. unfold DrawDefs.drawagain. rewrite draw_range_spec by lia.
  rewrite Nat.sub_diag. cbn [firstn app plus]. rewrite skipn_all2 by lia. apply app_nil_r.
Qed.

(* ---------- term_room at the top row: the E.7 forms ---------- *)
Lemma room_del_top h d rows : length rows = h -> 0 < h -> 0 < d ->
  term_room h (- Z.of_nat d) 0 rows = skipn d rows ++ repeat blank (Nat.min d h).
Proof.
  intros L Hh Hd. unfold DrawDefs.term_room. replace (- Z.of_nat d <? 0)%Z with true by (symmetry; apply Z.ltb_lt; lia).
  replace (Z.to_nat (- - Z.of_nat d)) with d by lia.
  rewrite (del_lines_spec blank h 0 d rows L Hh). cbn [firstn app plus]. rewrite Nat.sub_0_r.
  destruct (le_lt_dec d h); [replace (Nat.min d h) with d by lia; reflexivity|].
  replace (Nat.min d h) with h by lia. rewrite !skipn_all2 by lia. reflexivity.
Qed.
Lemma room_ins_top h d rows : length rows = h -> 0 < h -> 0 < d ->
  term_room h (Z.of_nat d) 0 rows = repeat blank (Nat.min d h) ++ firstn (h - d) rows.
Proof.
  intros L Hh Hd. unfold DrawDefs.term_room. replace (Z.of_nat d <? 0)%Z with false by (symmetry; apply Z.ltb_ge; lia).
  replace (0 <? Z.of_nat d)%Z with true by (symmetry; apply Z.ltb_lt; lia). rewrite Nat2Z.id.
  rewrite (ins_lines_spec blank h 0 d rows L Hh). cbn [firstn app skipn]. rewrite Nat.sub_0_r.
  f_equal. f_equal. lia.
Qed.
Lemma term_room_length h n r rows : length rows = h -> length (term_room h n r rows) = h.
Proof.
  intro L. unfold DrawDefs.term_room. destruct (n <? 0)%Z; [apply del_lines_length; exact L|].
  destruct (0 <? n)%Z; [apply ins_lines_length; exact L|exact L].
Qed.

(* ---------- vi_drawupdate ---------- *)
Theorem drawupdate_is_repaint f h otop xtop :
  drawupdate f h otop xtop (win f otop h) = win f xtop h.
Proof.
  unfold DrawDefs.drawupdate. destruct (otop =? xtop) eqn:E; [apply Nat.eqb_eq in E; subst; reflexivity|].
  apply Nat.eqb_neq in E.
  destruct h as [|h'].
  { apply length_zero_iff_nil. destruct (otop <? xtop); rewrite draw_range_length; apply term_room_length; reflexivity. }
  set (h := S h') in *. assert (Hh : 0 < h) by (unfold h; lia).
  destruct (otop <? xtop) eqn:L.
  - apply Nat.ltb_lt in L. set (d := xtop - otop).
    replace (Z.of_nat otop - Z.of_nat xtop)%Z with (- Z.of_nat d)%Z by (unfold d; lia).
    rewrite room_del_top by (try apply win_length; unfold d; lia).
    set (n := Nat.min d h).
    rewrite draw_range_spec; [|rewrite app_length, skipn_length, win_length, repeat_length; unfold d; lia|unfold n; lia|unfold n; lia].
    destruct (le_lt_dec d h) as [Hd|Hd].
    + assert (n = d) by (unfold n; lia). rewrite H. rewrite win_skipn by lia.
      replace (otop + d) with xtop by (unfold d; lia).
      replace (xtop + h - d - xtop) with (h - d) by lia.
      rewrite firstn_app, win_length, Nat.sub_diag. cbn [firstn]. rewrite app_nil_r.
      rewrite firstn_all2 by (rewrite win_length; lia).
      rewrite skipn_all2 by (rewrite app_length, win_length, repeat_length; lia). rewrite app_nil_r.
      replace (xtop + h - d) with (xtop + (h - d)) by lia. rewrite <- win_app. f_equal. lia.
    + assert (n = h) by (unfold n; lia). rewrite H.
      replace (xtop + h - h - xtop) with 0 by lia. cbn [firstn app plus].
      rewrite skipn_all2 by (rewrite app_length, skipn_length, win_length, repeat_length; lia). rewrite app_nil_r.
      f_equal. lia.
  - apply Nat.ltb_ge in L. set (d := otop - xtop).
    replace (Z.of_nat otop - Z.of_nat xtop)%Z with (Z.of_nat d) by (unfold d; lia).
    rewrite room_ins_top by (try apply win_length; unfold d; lia).
    set (n := Nat.min d h).
    rewrite draw_range_spec; [|rewrite app_length, firstn_length, win_length, repeat_length; unfold d; lia|lia|unfold n; lia].
    rewrite Nat.sub_diag. cbn [firstn app plus].
    destruct (le_lt_dec d h) as [Hd|Hd].
    + assert (n = d) by (unfold n; lia). rewrite H.
      rewrite skipn_app, repeat_length. replace (Nat.min d h) with d by lia. rewrite Nat.sub_diag.
      rewrite skipn_all2 by (rewrite repeat_length; lia). cbn [app skipn].
      rewrite win_firstn by lia. replace otop with (xtop + d) by (unfold d; lia).
      rewrite <- win_app. f_equal. lia.
    + assert (n = h) by (unfold n; lia). rewrite H.
      rewrite skipn_all2 by (rewrite app_length, repeat_length, firstn_length, win_length; lia). apply app_nil_r.
Qed.
End Scroll.

(* ---------- the window follows the cursor ---------- *)
Local Open Scope Z_scope.

(* vi_wfix: whatever xtop and xrow were, afterwards the cursor line is a line of the buffer (line
   0 of the empty buffer) and lies inside the window *)
Theorem wfix_follows xtop xrow h len : 1 <= h -> 0 <= len -> 0 <= xtop ->
  let (t, r) := wfix xtop xrow h len in
  t <= r < t + h /\ 0 <= t /\ 0 <= r /\ (0 < len -> r < len) /\ (len = 0 -> r = 0).
Proof.
  intros Hh Hl Ht. unfold wfix. cbv beta iota zeta.
  destruct ((xrow <? 0) || (len <=? xrow)) eqn:E1; destruct (0 <? len) eqn:E2;
  repeat match goal with
         | |- context [if ?b then _ else _] => destruct b eqn:?
         | H : context [if ?b then _ else _] |- _ => destruct b eqn:?
         end; lia.
Qed.
(* a cursor line already inside the window does not move it *)
Lemma wfix_stable xtop xrow h len : 0 <= xrow < len -> xtop <= xrow < xtop + h ->
  wfix xtop xrow h len = (xtop, xrow).
Proof.
  intros H1 H2. unfold wfix.
  replace ((xrow <? 0) || (len <=? xrow)) with false by lia.
  replace (xrow <? xtop) with false by lia. replace (xtop + h <=? xrow) with false by lia. reflexivity.
Qed.

(* the xleft rule: afterwards the steering column is inside [xleft, xleft + cols) *)
Theorem fix_left_follows xleft xcol cols : 1 <= cols -> 0 <= xleft -> 0 <= xcol ->
  let l := fix_left xleft xcol cols in 0 <= l /\ l <= xcol < l + cols.
Proof.
  intros Hc Hl Hx. unfold fix_left.
  repeat match goal with |- context [if ?b then _ else _] => destruct b eqn:? end; lia.
Qed.
(* ... so the cursor's cell is on the screen and term_pos puts the terminal cursor exactly on it,
   provided the steering column is the column of the cursor's own cell *)
Theorem cursor_cell_visible xleft xcol cols ccol : 1 <= cols -> 0 <= xleft -> 0 <= xcol ->
  ccol = xcol ->
  let l := fix_left xleft xcol cols in l <= ccol < l + cols /\ term_col l cols ccol = ccol - l.
Proof.
  intros Hc Hl Hx ->. pose proof (fix_left_follows xleft xcol cols Hc Hl Hx) as H. cbv zeta in *.
  split; [lia|]. unfold term_col.
  replace (xcol - fix_left xleft xcol cols <? 0) with false by lia.
  replace (cols <=? xcol - fix_left xleft xcol cols) with false by lia. reflexivity.
Qed.
(* without that proviso the claim is false: a 20-column window steered by the remembered column 59
   (after `$` on a 60-character line and `k` onto a 5-character line whose last cell is 4) *)
Theorem sticky_left_refuted : exists xleft xcol cols ccol,
  1 <= cols /\ 0 <= xleft /\ 0 <= ccol <= xcol /\
  let l := fix_left xleft xcol cols in ~ (l <= ccol < l + cols) /\ term_col l cols ccol <> ccol - l.
Proof. exists 49, 59, 20, 4. vm_compute. repeat split; try discriminate; intros [H1 H2]; apply H1; reflexivity. Qed.
