(* TrSpliceModels.v -- what tr_lbuf_replace (TrSpliceAll.v) proves about the memory IS what the three hand-written models of
   lbuf_replace say: IoDefs (C01: the split and the capacity), UndoDefs (C04: the line table) and ExDefs (C15 / C06: ln_glob
   inheritance and the mark rows).  Pure list reasoning, no C semantics here. *)
From Coq Require Import List ZArith NArith Bool Lia.
From NV Require Import Bytes CLite CLiteProps TrSpliceMarks TrSpliceAll.
From NV Require IoDefs UndoDefs ExDefs.
Import ListNotations.
Local Open Scope Z_scope.
Module I := IoDefs. Module U := UndoDefs. Module E := ExDefs.

Definition txt (s : option bytes) : bytes := match s with Some b => b | None => [] end.
Definition is_null (s : option bytes) : bool := match s with Some _ => false | None => true end.

(* ---- IoDefs: lbuf_replace with the growth loop *)
Theorem splice_is_io lines cap t pos nd cap' :
  let need := Z.of_nat (length lines) + Z.of_nat (I.linecount t) - Z.of_nat nd in
  I.grow (I.grow_fuel need) need (Z.of_nat cap) = Some cap' ->
  I.lbuf_replace {| I.ln := lines; I.ln_sz := Z.of_nat cap |} t pos nd
  = Some {| I.ln := splice lines (I.split_lines t) pos nd; I.ln_sz := cap' |}.
Proof. intros need H. unfold I.lbuf_replace. cbn [I.ln I.ln_sz]. fold need. rewrite H. reflexivity. Qed.

(* ---- UndoDefs: the line table; lines_of is split_lines *)
Definition glue (p : bytes) (L : list bytes) : list bytes :=
  match L with
  | [] => match p with [] => [] | _ => [p ++ [I.NL]] end
  | l :: r => (p ++ l) :: r
  end.
Lemma glue_nil L : glue [] L = L.
Proof. destruct L; reflexivity. Qed.
Lemma io_split_aux_lines_of : forall s cur, I.split_aux cur s = glue (rev cur) (U.lines_of s).
Proof.
  induction s as [|c s IH]; intro cur.
  - cbn [I.split_aux U.lines_of glue]. destruct cur as [|x cur]; [reflexivity|].
    cbn [rev]. destruct (rev cur ++ [x]) eqn:E; [destruct (rev cur); discriminate|]. reflexivity.
  - cbn [I.split_aux U.lines_of]. unfold I.is_nl. change U.NL with I.NL. destruct (c =? I.NL)%N eqn:C.
    + rewrite IH. cbn [rev]. rewrite glue_nil. cbn [glue]. destruct (rev cur); reflexivity.
    + rewrite IH. cbn [rev]. destruct (U.lines_of s) as [|l r]; cbn [glue].
      * destruct (rev cur ++ [c]) eqn:E; [destruct (rev cur); discriminate|]. rewrite <- E, <- app_assoc. reflexivity.
      * rewrite <- app_assoc. reflexivity.
Qed.
Lemma io_split_lines_of s : I.split_lines s = U.lines_of s.
Proof. unfold I.split_lines. rewrite io_split_aux_lines_of. apply glue_nil. Qed.
Theorem splice_is_undo (lb : U.lbuf) s pos nd :
  U.ln (U.lbuf_replace lb s pos nd) = splice (U.ln lb) (I.split_lines (txt s)) pos nd
  /\ U.linecount s = I.linecount (txt s).
Proof.
  split.
  - unfold U.lbuf_replace, U.set_ln, U.replace, splice. cbn [U.ln]. destruct s as [b|]; cbn [U.lines_opt txt]; [rewrite io_split_lines_of|]; reflexivity.
  - unfold U.linecount. destruct s as [b|]; cbn [U.lines_opt txt]; [|reflexivity]. rewrite <- io_split_lines_of. apply split_len.
Qed.

(* ---- ExDefs: texts (without the newline), ln_glob bits, mark rows *)
Definition addnl (x : bytes) : bytes := x ++ [I.NL].
Lemma ex_split_aux : forall s cur, map addnl (E.split_lines_aux s cur) = I.split_aux cur s.
Proof.
  induction s as [|c s IH]; intro cur.
  - cbn [E.split_lines_aux I.split_aux]. destruct cur; reflexivity.
  - cbn [E.split_lines_aux I.split_aux]. unfold I.is_nl. change E.nl with I.NL. destruct (c =? I.NL)%N.
    + cbn [map]. rewrite IH. reflexivity.
    + apply IH.
Qed.
Lemma ex_split s : map addnl (E.split_lines s) = I.split_lines s.
Proof. apply ex_split_aux. Qed.
Lemma ex_split_len s : length (E.split_lines s) = I.linecount s.
Proof. rewrite <- split_len, <- ex_split, map_length. reflexivity. Qed.

Lemma mknew_txt : forall t old nid, map E.ltxt (E.mknew old t nid) = t.
Proof. induction t as [|x t IH]; intros old nid; [reflexivity|]. destruct old; cbn [E.mknew map E.ltxt]; rewrite IH; reflexivity. Qed.
Lemma mknew_lgl : forall t old nid, map E.lgl (E.mknew old t nid) = firstn (Nat.min (length old) (length t)) (map E.lgl old) ++ repeat 0%N (length t - length old).
Proof.
  induction t as [|x t IH]; intros old nid.
  - cbn [E.mknew map length]. rewrite Nat.min_0_r. reflexivity.
  - destruct old as [|o old]; cbn [E.mknew map E.lgl length].
    + rewrite IH. cbn [length Nat.min firstn map app Nat.sub]. rewrite Nat.sub_0_r. reflexivity.
    + rewrite IH. cbn [Nat.min firstn app Nat.sub]. reflexivity.
Qed.
Lemma exupd_upd {A} k (v : A) : forall l, (k < length l)%nat -> E.upd k v l = upd l k v.
Proof.
  induction k as [|k IH]; intros [|x l] H; cbn [length] in H; try lia; [reflexivity|].
  cbn [E.upd]. rewrite IH by lia. reflexivity.
Qed.
Lemma shift_row_mark nul pos nd ni (mk : Z * option nat) :
  fst (E.shift_mark nul pos nd ni mk) = shift_row nul pos nd ni (fst mk).
Proof.
  destruct mk as [r g]. unfold E.shift_mark, shift_row. cbn [fst].
  destruct (nul && (pos <=? r) && (r <? pos + nd)); [reflexivity|].
  destruct (pos + nd <=? r); [cbn [fst]; lia|]. destruct (pos + ni <=? r); reflexivity.
Qed.

Definition zgl (x : E.line) : Z := Z.of_N (E.lgl x).
Theorem splice_is_ex (xl : E.lbuf) s pos nd :
  (pos + nd <= length (E.lns xl))%nat -> length (E.marks xl) = 32%nat ->
  let xl' := E.lbuf_replace s pos nd xl in
  let ni := I.linecount (txt s) in
  map addnl (map E.ltxt (E.lns xl')) = splice (map addnl (map E.ltxt (E.lns xl))) (I.split_lines (txt s)) pos nd
  /\ map zgl (E.lns xl') = splice_globs (map zgl (E.lns xl)) pos nd ni
  /\ map fst (E.marks xl') = splice_marks (is_null s) pos nd ni (map fst (E.marks xl)).
Proof.
  intros Hp Hm xl' ni.
  set (tl := match s with Some b => E.split_lines b | None => [] end).
  assert (Etl : map addnl tl = I.split_lines (txt s)) by (unfold tl; destruct s; [apply ex_split|reflexivity]).
  assert (Ltl : length tl = ni) by (unfold tl, ni; destruct s; [apply ex_split_len|reflexivity]).
  set (old := firstn nd (skipn pos (E.lns xl))).
  assert (Lold : length old = nd) by (unfold old; rewrite firstn_length, skipn_length; lia).
  assert (Elns : E.lns xl' = firstn pos (E.lns xl) ++ E.mknew old tl (E.nextid xl) ++ skipn (pos + nd) (E.lns xl)).
  { unfold xl', E.lbuf_replace, E.lbuf_mark. change (E.markidx 91) with (Some 28%nat). change (E.markidx 93) with (Some 29%nat). reflexivity. }
  split; [|split].
  - rewrite Elns. unfold splice. rewrite !map_app, mknew_txt, Etl, !firstn_map, !skipn_map. reflexivity.
  - rewrite Elns. unfold splice_globs, splice, new_globs. rewrite !map_app, !firstn_map, !skipn_map. f_equal. f_equal.
    rewrite <- (map_map E.lgl Z.of_N), mknew_lgl, Lold, Ltl, map_app, <- firstn_map, map_map.
    unfold old. rewrite <- !firstn_map, <- !skipn_map. fold zgl.
    change (map (fun x => Z.of_N (E.lgl x)) (E.lns xl)) with (map zgl (E.lns xl)).
    rewrite firstn_firstn. replace (Nat.min (Nat.min nd ni) nd) with (Nat.min nd ni) by lia.
    f_equal. induction (ni - nd)%nat as [|k IH]; [reflexivity|]. cbn [repeat map]. rewrite IH. reflexivity.
  - unfold xl', E.lbuf_replace, E.lbuf_mark. change (E.markidx 91) with (Some 28%nat). change (E.markidx 93) with (Some 29%nat). cbn [E.marks E.lns].
    fold tl. rewrite Ltl.
    set (mk1 := map (E.shift_mark (is_null s) (Z.of_nat pos) (Z.of_nat nd) (Z.of_nat ni)) (E.marks xl)).
    assert (L1 : length mk1 = 32%nat) by (unfold mk1; rewrite map_length; exact Hm).
    replace (match s with Some _ => false | None => true end) with (is_null s) by (destruct s; reflexivity). fold mk1.
    rewrite !exupd_upd by (rewrite ?exupd_upd by lia; rewrite ?upd_length by lia; lia).
    rewrite !map_upd. cbn [fst]. unfold splice_marks, last_row. f_equal.
    unfold mk1. rewrite !map_map. f_equal. apply map_ext. intro a. apply shift_row_mark.
Qed.

(* ---- the theorem of TrSpliceAll.v in the vocabulary of UndoDefs (C04) *)
Theorem tr_lbuf_replace_undo (m : mem) lb blk bln bgl lbs (ul : U.lbuf) globs mk cap sv (s : option bytes) pos nd cap' d fuel :
  let n := length (U.ln ul) in let ni := U.linecount s in
  let need := Z.of_nat n + Z.of_nat ni - Z.of_nat nd in
  lbuf_at m lb blk bln bgl lbs (U.ln ul) globs mk cap ->
  s_text m (lb :: bln :: bgl :: lbs) sv (txt s) (is_null s) ->
  (pos + nd <= n)%nat ->
  Z.of_nat n + Z.of_nat ni <= 2147483647 ->
  I.grow (I.grow_fuel need) need (Z.of_nat cap) = Some cap' -> cap' <= 2147483647 ->
  Forall (row_fits (Z.of_nat pos) (Z.of_nat nd) (Z.of_nat ni)) mk ->
  (splice_fuel n ni nd <= fuel)%nat ->
  exists m' blk' bln' bgl' base,
    callf GenCFuncs.cprog fuel (S (S (S d))) GenCFuncs.F_lbuf_replace [VPtr lb 0; sv; VInt (Z.of_nat pos); VInt (Z.of_nat nd)] m = Ok (VUndef, m')
    /\ lbuf_at m' lb blk' bln' bgl' (splice lbs (seq base ni) pos nd) (U.ln (U.lbuf_replace ul s pos nd))
         (splice_globs globs pos nd ni) (splice_marks (is_null s) pos nd ni mk) (Z.to_nat cap')
    /\ need < cap'
    /\ (length m <= base)%nat /\ (length m <= length m')%nat
    /\ (forall c, (c < length m)%nat -> ~ In c (lb :: bln :: bgl :: lbs) -> nth_error m' c = nth_error m c)
    /\ (forall b, In b (firstn nd (skipn pos lbs)) -> nth_error m' b = Some [])
    /\ (forall j, (68 <= j)%nat -> nth_error blk' j = nth_error blk j).
Proof.
  destruct (splice_is_undo ul s pos nd) as [E1 E2]. cbv zeta. rewrite E1, E2.
  intros R St Hpos Hsz Hgrow Hcap' Hfit Hfuel.
  destruct (tr_lbuf_replace m lb blk bln bgl lbs (U.ln ul) globs mk cap sv (txt s) (is_null s) pos nd cap' d fuel R St Hpos Hsz Hgrow Hcap' Hfit Hfuel)
    as (m' & blk' & bln' & bgl' & base & C & Rep & P1 & P2 & P3 & P4 & P5 & P6 & P7 & P8 & P9).
  exists m', blk', bln', bgl', base. repeat (split; [assumption|]). assumption.
Qed.

(* ---- a concrete buffer (for the non-vacuity Examples of Properties_C01.v / Properties_C04.v): two lines "a\n", "b\n", capacity 3,
   ln_glob = 0, 2, no mark set; the text "x\ny" (no final newline) in a block of its own.  All blocks behind the program's globals. *)
Definition ex_G : nat := length GenCFuncs.cglobals.
Definition ex_struct (ln gl : val) (n cap : Z) : block :=
  repeat (VInt (-1)) 32 ++ repeat (VInt 0) 32 ++ [ln; gl; VInt n; VInt cap; VInt 1; VInt 0; VInt 0; VInt 0; VInt 0; VInt 0; VInt 0].
Definition ex_lines : list bytes := [[97; 10]; [98; 10]]%N.
Definition ex_text : bytes := [120; 10; 121]%N.
Definition ex_blk : block := ex_struct (VPtr (ex_G + 1) 0) (VPtr (ex_G + 2) 0) 2 3.
Definition ex_mem : mem :=
  GenCFuncs.cglobals ++ [ex_blk; [VPtr (ex_G + 3) 0; VPtr (ex_G + 4) 0; VUndef]; [VInt 0; VInt 2; VUndef];
                         cstr_block (zb [97; 10]%N); cstr_block (zb [98; 10]%N); cstr_block (zb ex_text)].
(* a buffer lbuf_make just made: ln == NULL, ln_sz == 0 *)
Definition ex_fresh : mem := GenCFuncs.cglobals ++ [ex_struct (VInt 0) (VInt 0) 0 0; cstr_block (zb ex_text)].

Lemma ex_at : lbuf_at ex_mem ex_G ex_blk (ex_G + 1) (ex_G + 2) [ex_G + 3; ex_G + 4]%nat ex_lines [0; 2] (repeat (-1) 32) 3.
Proof.
  constructor.
  - exists [VPtr (ex_G + 3) 0; VPtr (ex_G + 4) 0; VUndef], [VInt 0; VInt 2; VUndef]. split; [|split].
    + constructor; try (vm_compute; reflexivity). vm_compute. repeat split; discriminate.
    + intros i Hi. destruct i as [|[|i]]; [reflexivity|reflexivity|cbn in Hi; lia].
    + intros i Hi. destruct i as [|[|i]]; [reflexivity|reflexivity|cbn in Hi; lia].
  - reflexivity.
  - reflexivity.
  - intros i Hi. destruct i as [|[|i]]; [vm_compute; reflexivity|vm_compute; reflexivity|cbn in Hi; lia].
  - vm_compute. repeat constructor; cbn [In]; intuition discriminate.
  - cbn. lia.
  - split; [reflexivity|]. intros k Hk. do 32 (destruct k as [|k]; [reflexivity|]). lia.
Qed.
Lemma ex_s : s_text ex_mem [ex_G; ex_G + 1; ex_G + 2; ex_G + 3; ex_G + 4]%nat (VPtr (ex_G + 5) 0) ex_text false.
Proof.
  apply (st_ptr ex_mem _ (ex_G + 5) O ex_text).
  - vm_compute. reflexivity.
  - repeat constructor.
  - cbn. lia.
  - cbn. lia.
  - vm_compute. intuition discriminate.
Qed.
