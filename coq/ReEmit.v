(* ReEmit.v -- model of rnode_count, rnode_grpnum, rnode_emit / rnode_emitnorep and regcomp of
   regex.c.  Programs are lists of instructions with absolute targets.  No proofs. *)
From Coq Require Import List NArith ZArith Bool Arith.
From NV Require Import Bytes GenConsts ReSyntax ReParse.
Import ListNotations.

(* ---- rnode_count (the reservation) --------------------------------------------------------- *)
(* return n < NINST ? n : NINST;   (NINST < 0 here = the source has no such limit) *)
Definition sat (n : Z) : Z := if (NINST <? 0)%Z then n else if (n <? NINST)%Z then n else NINST.
Definition rep_raw (n mn mx : Z) : Z :=
  if ((mn =? 1) && (mx =? 1))%Z then n
  else ((if (mx <? 0)%Z then (mn + 1) * n + 1 else (mn + mx) * n + mx - mn) + (if (mn =? 0)%Z then 1 else 0))%Z.
Definition rep_count (n mn mx : Z) : Z :=
  if ((mn =? 0) && (mx =? 0))%Z then 0%Z else sat (rep_raw n mn mx).

Fixpoint count (t : node) : Z :=
  match t with
  | NNil => 0%Z
  | NAtom _ mn mx => rep_count 1 mn mx
  | NGrp x _ mn mx => rep_count (count x + 2) mn mx
  | NCat x y => rep_count (count x + count y) 1 1
  | NAlt x y => rep_count (count x + count y + 2) 1 1
  end.

(* ---- rnode_grpnum: groups are numbered in pre-order, starting from num ---------------------- *)
Fixpoint grpnum (t : node) (num : nat) : node * nat :=
  match t with
  | NNil => (NNil, 0)
  | NAtom _ _ _ => (t, 0)
  | NGrp x _ mn mx => let '(x', k) := grpnum x (num + 1) in (NGrp x' num mn mx, 1 + k)
  | NCat x y => let '(x', k1) := grpnum x num in let '(y', k2) := grpnum y (num + k1) in (NCat x' y', k1 + k2)
  | NAlt x y => let '(x', k1) := grpnum x num in let '(y', k2) := grpnum y (num + k1) in (NAlt x' y', k1 + k2)
  end.

(* ---- rnode_emit ------------------------------------------------------------------------------ *)
(* e b = the code rnode_emitnorep produces at base b, n its length *)
Fixpoint pow (e : nat -> list instr) (n : nat) (k b : nat) : list instr :=
  match k with O => [] | S k' => e b ++ pow e n k' (b + n) end.
(* j optional copies, each guarded by a fork whose second target is the common end (jmpend[]) *)
Fixpoint opt (e : nat -> list instr) (n : nat) (j b : nat) : list instr :=
  match j with O => [] | S j' => [IFork (b + 1) (b + j * (1 + n))] ++ e (b + 1) ++ opt e n j' (b + 1 + n) end.

Definition rep_len (n : nat) (mn mx : Z) : nat :=
  if ((mn =? 0) && (mx =? 0))%Z then 0
  else if ((mn =? 1) && (mx =? 1))%Z then n
  else
    let m := Z.to_nat mn in
    let c := Nat.max 1 m in
    (if Nat.eqb m 0 then 1 else 0) + c * n + (if (mx <? 0)%Z then 1 else (Z.to_nat mx - c) * (1 + n)).

Definition emit_rep (e : nat -> list instr) (n : nat) (mn mx : Z) (b : nat) : list instr :=
  if ((mn =? 0) && (mx =? 0))%Z then []
  else if ((mn =? 1) && (mx =? 1))%Z then e b
  else
    let m := Z.to_nat mn in
    let c := Nat.max 1 m in
    let b1 := if Nat.eqb m 0 then b + 1 else b in
    let after := b1 + c * n in
    let END := b + rep_len n mn mx in
    (if Nat.eqb m 0 then [IFork (b + 1) END] else [])            (* if (n->mincnt == 0): fork to the end *)
    ++ pow e n c b1                                               (* MAX(1, mincnt) copies; last = the last one *)
    ++ (if (mx <? 0)%Z then [IFork (b1 + (c - 1) * n) (after + 1)]  (* maxcnt < 0: loop back to last *)
        else opt e n (Z.to_nat mx - c) after).                    (* optional copies, all exiting to END *)

Fixpoint nlen (t : node) : nat :=
  match t with
  | NNil => 0
  | NAtom _ mn mx => rep_len 1 mn mx
  | NGrp x _ mn mx => rep_len (nlen x + 2) mn mx
  | NCat x y => nlen x + nlen y
  | NAlt x y => nlen x + nlen y + 2
  end.

(* the same length in Z (for big programs; zlen t = Z.of_nat (nlen t) for well-formed counts) *)
Definition zrep_len (n mn mx : Z) : Z :=
  if ((mn =? 0) && (mx =? 0))%Z then 0%Z
  else if ((mn =? 1) && (mx =? 1))%Z then n
  else
    let c := Z.max 1 mn in
    ((if (mn =? 0)%Z then 1 else 0) + c * n + (if (mx <? 0)%Z then 1 else Z.max 0 (mx - c) * (1 + n)))%Z.
Fixpoint zlen (t : node) : Z :=
  match t with
  | NNil => 0%Z
  | NAtom _ mn mx => zrep_len 1 mn mx
  | NGrp x _ mn mx => zrep_len (zlen x + 2) mn mx
  | NCat x y => (zlen x + zlen y)%Z
  | NAlt x y => (zlen x + zlen y + 2)%Z
  end.

Fixpoint emit_n (t : node) (b : nat) : list instr :=
  match t with
  | NNil => []
  | NAtom a mn mx => emit_rep (fun _ => [IAtom a]) 1 mn mx b
  | NGrp x g mn mx => emit_rep (fun b => [IMark (2 * g)] ++ emit_n x (b + 1) ++ [IMark (2 * g + 1)]) (nlen x + 2) mn mx b
  | NCat x y => emit_n x b ++ emit_n y (b + nlen x)
  | NAlt x y => [IFork (b + 1) (b + 2 + nlen x)] ++ emit_n x (b + 1) ++ [IJump (b + 2 + nlen x + nlen y)] ++ emit_n y (b + 2 + nlen x)
  end.

(* ---- regcomp --------------------------------------------------------------------------------- *)
Record prog := { code : list instr; reserve : Z; tree : node }.

(* None = pattern rejected (regcomp returns 1) *)
Definition regcomp (pat : bytes) : res (option prog) :=
  do r <- parse_pat pat;
  match fst r with
  | None => Ok None
  | Some t =>
    if parse_bad pat || negb (match snd r with [] => true | _ => false end) then Ok None   (* if (re_bad || *pat) reject *)
    else
    if ((0 <=? NINST) && (NINST <=? count t + 3))%Z then Ok None       (* if (n >= NINST) reject *)
    else
    let t' := fst (grpnum t 1) in
    Ok (Some {| code := [IMark 0] ++ emit_n t' 1 ++ [IMark 1; IMatch]; reserve := (count t + 3)%Z; tree := t' |})
  end.
