(* CapDefs3.v -- C05, third part: the fixed stack buffers of the insert-mode helpers.
   No proofs here.  Same conventions as CapDefs.v / CapDefs2.v: a C string is the list of its bytes
   with an implicit terminator, every store into a fixed buffer is checked against the buffer's
   size (generated from /repo into GenCap.v) and a store outside is the distinct result OobWr, a
   load past the terminator of the source OobRd, a loop that runs out of fuel NoFuel.

     vi.c    vi_help (the ^A helper of insert mode): the scan for the last word of the line typed so
             far (uc_kind / uc_next of uc.c, UcDefs.v), the cut of the word to the size of
             char tag[TAGSZ], memcpy(tag, beg, end - beg) and the terminator
     led.c   led_input / led_line: char ai[AISZ] -- the leading blanks of the prefix, ^T, ^D and the
             auto-indent carried over from one typed line to the next
     uc.c    uc_trim (a04410e): what is left of a string that snprintf cut to the size of a fixed array
             (cmp[64] of led_line, vi_msg[512] of vi.c) -- the longest prefix made of whole characters   *)
From Coq Require Import List NArith ZArith Bool.
From NV Require Import Bytes GenConsts GenCap UcDefs CapDefs CapDefs2.
Import ListNotations.
Local Open Scope Z_scope.

(* ---------------------------------------------------------------------------------------- *)
(* (1) vi_help: the tag word                                                                 *)

(* lastkind, s - ln, beg and end (None = NULL; Some k = ln + k) *)
Record hscan : Type := mkH { h_last : N; h_pos : nat; h_beg : option nat; h_end : option nat }.

(* for (s = ln; s && *s; s = uc_next(s)) {
       int kind = uc_kind(s);
       if (lastkind != 1 && kind == 1) beg = s;
       if (lastkind == 1 && kind != 1) end = s;
       lastkind = kind;
   }
   s is the suffix of the line that the pointer points at; a step that would carry the pointer past
   the terminator is OobRd *)
Fixpoint help_scan (fuel : nat) (s : bytes) (st : hscan) : res hscan :=
  match fuel with
  | O => NoFuel
  | S f =>
    match s with
    | [] => Ok st
    | _ :: _ =>
      let kind := UcDefs.uc_kind s in
      let lk := h_last st in
      let beg' := if negb (lk =? 1)%N && (kind =? 1)%N then Some (h_pos st) else h_beg st in
      let end' := if (lk =? 1)%N && negb (kind =? 1)%N then Some (h_pos st) else h_end st in
      let n := UcDefs.uc_next s in
      if (length s <? n)%nat then OobRd else
      help_scan f (skipn n s) (mkH kind (h_pos st + n) beg' end')
    end
  end.

(* what is done about a word that is too long for tag[]:
     CutBytes   the code:  if (end - beg + 1 > sizeof(tag)) end = beg + sizeof(tag) - 1;
                (the comparison is unsigned: a negative difference is a huge size_t)
     CutNone    no guard
     CutChars   a guard that counts characters -- if (uc_off(beg, end - beg) + 1 > LEN(tag))
                end = uc_chr(beg, LEN(tag) - 1); -- while the copy counts bytes
   [w] is the line from beg on, [len] = end - beg; the answer is the new end - beg *)
Inductive cutmode : Type := CutBytes | CutNone | CutChars.

Definition help_cut (m : cutmode) (w : bytes) (len : Z) : Z :=
  match m with
  | CutBytes => if (len + 1 <? 0) || (TAGSZ <? len + 1) then TAGSZ - 1 else len
  | CutNone => len
  | CutChars =>
    if TAGSZ <? Z.of_nat (UcDefs.uc_off w (Z.to_nat len)) + 1
    then match UcDefs.uc_chr w (TAGSZ - 1) with Some k => Z.of_nat k | None => len end
    else len
  end.

(* memcpy(tag, beg, n); tag[n] = '\0';   beg = ln + b.  A negative n is a huge size_t. *)
Definition tag_copy (ln : bytes) (b : nat) (n : Z) : res bytes :=
  if (n <? 0) || (TAGSZ <? n) then OobWr else
  if Z.of_nat (length ln) + 1 <? Z.of_nat b + n then OobRd else
  do _ <- ixw TAGSZ n;
  Ok (firstn (Z.to_nat n) (skipn b ln)).

(* the part of vi_help between the register test and tag_find: None = no word on the line (beg == NULL),
   Some t = the C string handed to tag_find *)
Definition vi_help_tag_gen (m : cutmode) (ln : bytes) : res (option bytes) :=
  do st <- help_scan (S (length ln)) ln (mkH 0 0 None None);
  let en := if (h_last st =? 1)%N then Some (h_pos st) else h_end st in     (* end = lastkind == 1 ? s : end; *)
  match h_beg st with
  | None => Ok None
  | Some b =>
    match en with
    | None => OobRd                                  (* end - beg with end == NULL *)
    | Some e =>
      let len := Z.of_nat e - Z.of_nat b in
      do t <- tag_copy ln b (help_cut m (skipn b ln) len);
      Ok (Some t)
    end
  end.
Definition vi_help_tag : bytes -> res (option bytes) := vi_help_tag_gen CutBytes.

(* ---------------------------------------------------------------------------------------- *)
(* (2) led_input / led_line: char ai[AISZ]; int ai_max = sizeof(ai) - 1;                     *)

Definition ai_max : Z := AISZ - 1.

(* while (n < ai_max && ( *pref == ' ' || *pref == '\t')) ai[n++] = *pref++;    k = the number of leading blanks of pref *)
Fixpoint ai_fill (fuel : nat) (k n : Z) : res Z :=
  match fuel with
  | O => NoFuel
  | S f => if (n <? ai_max) && (n <? k) then (do _ <- ixw AISZ n; ai_fill f k (n + 1)) else Ok n
  end.
(* ... ai[n] = '\0'; the state is strlen(ai) *)
Definition ai_init (k : Z) : res Z :=
  do n <- ai_fill (S (Z.to_nat k)) k 0; do _ <- ixw AISZ n; Ok n.

Inductive aiop : Type :=
| AiTab                                         (* ^T in led_line *)
| AiDel                                         (* ^D in led_line *)
| AiLine (ln_sp : Z) (pref_empty xai : bool).   (* led_line returned: ln starts with ln_sp blanks; !pref || !pref[0]; the ai option *)

Definition ai_step (len : Z) (o : aiop) : res Z :=
  match o with
  | AiTab =>          (* if (ai_len < ai_max) { ai[ai_len++] = '\t'; ai[ai_len] = '\0'; } *)
    if len <? ai_max then (do _ <- ixw AISZ len; do _ <- ixw AISZ (len + 1); Ok (len + 1)) else Ok len
  | AiDel =>          (* if (ai_len > 0) ai[--ai_len] = '\0'; *)
    if 0 <? len then (do _ <- ixw AISZ (len - 1); Ok (len - 1)) else Ok len
  | AiLine sp pe xai =>
    (* if (!pref || !pref[0]) { ai_new = ln_sp; if (ai_len + ai_new > ai_max) ai_new = ai_max - ai_len;
                                memcpy(ai + ai_len, ln, ai_new); ai[ai_len + ai_new] = '\0'; } *)
    do len1 <- (if pe then
                  let new := if ai_max <? len + sp then ai_max - len else sp in
                  if (new <? 0) || (len <? 0) || (AISZ <? len + new) then OobWr else
                  do _ <- ixw AISZ (len + new); Ok (len + new)
                else Ok len);
    (* if (!xai) ai[0] = '\0'; *)
    if xai then Ok len1 else (do _ <- ixw AISZ 0; Ok 0)
  end.

Fixpoint ai_run (len : Z) (ops : list aiop) : res Z :=
  match ops with
  | [] => Ok len
  | o :: r => do len' <- ai_step len o; ai_run len' r
  end.

Definition aiop_ok (o : aiop) : Prop := match o with AiLine sp _ _ => 0 <= sp | _ => True end.

(* the same with the bound of ^T taken as the size of the array instead of ai_max (teeth) *)
Definition ai_step_loose (len : Z) (o : aiop) : res Z :=
  match o with
  | AiTab => if len <? AISZ then (do _ <- ixw AISZ len; do _ <- ixw AISZ (len + 1); Ok (len + 1)) else Ok len
  | _ => ai_step len o
  end.

(* ---------------------------------------------------------------------------------------- *)
(* (3) uc.c uc_trim                                                                           *)

(* int n = strlen(s); int i = 0;
   while (i < n && i + uc_len(s + i) <= n) i += uc_len(s + i);
   [t] is the suffix s + i; a character of length 0 (a NUL inside the string, impossible in a C string) would keep
   the loop where it is: the fuel runs out *)
Fixpoint trim_at (fuel : nat) (t : bytes) (i : nat) : res nat :=
  match fuel with
  | O => NoFuel
  | S f =>
    match t with
    | [] => Ok i
    | _ :: _ =>
      let l := UcDefs.uc_len t in
      if (l <=? length t)%nat then trim_at f (skipn l t) (i + l) else Ok i
    end
  end.

(* ... s[i] = '\0';  the store is inside the string's own strlen + 1 bytes; the answer is the C string left in s *)
Definition uc_trim (s : bytes) : res bytes :=
  do i <- trim_at (S (length s)) s 0;
  if (i <=? length s)%nat then Ok (firstn i s) else OobWr.

(* a string made of whole characters as uc_len counts them: every lead byte is followed by all the bytes it announces *)
Inductive wholechars : bytes -> Prop :=
| wc_nil : wholechars []
| wc_cons : forall s, s <> [] -> (1 <= UcDefs.uc_len s <= length s)%nat ->
            wholechars (skipn (UcDefs.uc_len s) s) -> wholechars s.

(* snprintf(buf, size, "%s", s); uc_trim(buf);   -- cmp[64], vi_msg[512] *)
Definition cut_store (size : nat) (s : bytes) : res bytes := uc_trim (firstn (size - 1) s).
