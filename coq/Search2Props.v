(* Search2Props.v -- C13, second part: proofs about coq/Search2Defs.v. *)
From Coq Require Import List NArith ZArith Bool Arith Lia.
From NV Require Import Bytes UcDefs GenConsts SearchDefs Search2Defs.
Import ListNotations.
Local Open Scope nat_scope.

(* ---------------------------------------------------------------------------------------------- *)
(* (a) the remembered line offset *)

Lemma scmd_eq_word (c : scmd) : c = CWord \/ c <> CWord.
Proof. destruct c; try (right; discriminate). now left. Qed.

Section Off.
Variable fmk : bytes -> bytes -> nat -> option (nat * nat).
Variable rcomp : bytes -> bool.

Definition upd (st : sstate) (cmd : scmd) : sstate :=
  match cmd with
  | CSlash t => prompt_search st 47%N t
  | CQuest t => prompt_search st 63%N t
  | _ => st
  end.

Lemma vi_search_state st lb cmd cnt row off :
  fst (vi_search fmk rcomp st lb cmd cnt row off) = upd st cmd.
Proof.
  unfold vi_search. fold (upd st cmd). destruct lb as [|s lb']; [reflexivity|].
  destruct (kdir (upd st cmd) =? 0)%Z; [reflexivity|].
  destruct (search_iter _ _ _ _ _ _ _ _); try reflexivity.
  destruct (soset (upd st cmd)); [|reflexivity]. destruct (_ || _); reflexivity.
Qed.

Lemma vi_search_found st lb cmd cnt row off st1 r oo :
  vi_search fmk rcomp st lb cmd cnt row off = (st1, Some (r, oo)) ->
  st1 = upd st cmd /\
  exists r1 o1 l, search_iter fmk rcomp cnt (kwd st1) lb (cmd_fwd cmd st1) row off = SFound r1 o1 l /\
    if soset st1 then oo = None /\ Z.of_nat r = (Z.of_nat r1 + so st1)%Z /\ r < length lb
    else r = r1 /\ oo = Some o1.
Proof.
  intros H. pose proof (vi_search_state st lb cmd cnt row off) as Hs. rewrite H in Hs. cbn [fst] in Hs.
  split; [exact Hs|]. subst st1. revert H. unfold vi_search. fold (upd st cmd). unfold cmd_fwd.
  destruct lb as [|s lb']; [discriminate|].
  destruct (kdir (upd st cmd) =? 0)%Z; [discriminate|].
  destruct (search_iter _ _ _ _ _ _ _ _) as [r1 o1 l| | |]; try discriminate.
  exists r1, o1, l. split; [reflexivity|].
  destruct (soset (upd st cmd)).
  - destruct ((_ <? 0)%Z || _) eqn:B; [discriminate|]. injection H as <- <-.
    apply orb_false_iff in B. destruct B as [B1 B2]. apply Z.ltb_ge in B1. apply Z.leb_gt in B2.
    split; [reflexivity|]. rewrite Z2Nat.id by exact B1. split; [reflexivity|]. lia.
  - injection H as <- <-. split; reflexivity.
Qed.

Lemma off_prompt st delim typed : off_of (prompt_search st delim typed) = prompt_off delim typed.
Proof. unfold prompt_search, prompt_off, off_of. destruct (re_read delim typed) as [re rest]. reflexivity. Qed.

Lemma off_upd st lb cmd xrow xoff : cmd <> CWord -> off_of (upd st cmd) = off_next lb cmd xrow xoff (off_of st).
Proof. destruct cmd; cbn [upd off_next]; intros H; try reflexivity; try apply off_prompt. now elim H. Qed.

(* the state ^A hands to the search *)
Definition word_state (st : sstate) (w : bytes) : sstate :=
  {| kwd := firstn (Z.to_nat EXLEN - 1) ([92; 60]%N ++ w ++ [92; 62]%N); kdir := 1%Z; soset := false; so := so st |}.

(* search_cmd, unfolded once: the word case and the others *)
Lemma search_cmd_word st lb cnt xrow xoff :
  search_cmd fmk rcomp st lb CWord cnt xrow xoff =
  let ln := nth xrow lb [] in
  let noff := ren_noeol ln xoff in
  match vi_curword ln noff with
  | None => (st, false, (xrow, xoff))
  | Some w =>
    match snd (vi_search fmk rcomp (word_state st w) lb CNext cnt xrow noff) with
    | None => (word_state st w, false, (xrow, xoff))
    | Some (r, oo) =>
      let s := nth r lb [] in
      (word_state st w, true, (r, ren_noeol s (match oo with Some o => o | None => lbuf_indents s end)))
    end
  end.
Proof.
  unfold search_cmd. cbn zeta. destruct (vi_curword _ _) as [w|]; [|reflexivity]. cbn [negb]. fold (word_state st w).
  pose proof (vi_search_state (word_state st w) lb CNext cnt xrow (ren_noeol (nth xrow lb []) xoff)) as Hs.
  destruct (vi_search _ _ _ _ _ _ _ _) as [st1 res]. cbn [fst upd] in Hs. subst st1. cbn [snd].
  destruct res as [[r oo]|]; reflexivity.
Qed.

Lemma search_cmd_other st lb cmd cnt xrow xoff : cmd <> CWord ->
  search_cmd fmk rcomp st lb cmd cnt xrow xoff =
  let noff := ren_noeol (nth xrow lb []) xoff in
  match snd (vi_search fmk rcomp st lb cmd cnt xrow noff) with
  | None => (upd st cmd, false, (xrow, xoff))
  | Some (r, oo) =>
    let s := nth r lb [] in
    (upd st cmd, true, (r, ren_noeol s (match oo with Some o => o | None => lbuf_indents s end)))
  end.
Proof.
  intros Hc. unfold search_cmd. cbn zeta.
  assert ((match cmd with
           | CWord => match vi_curword (nth xrow lb []) (ren_noeol (nth xrow lb []) xoff) with
                      | Some w => ({| kwd := firstn (Z.to_nat EXLEN - 1) ([92; 60]%N ++ w ++ [92; 62]%N);
                                      kdir := 1%Z; soset := false; so := so st |}, true)
                      | None => (st, false)
                      end
           | _ => (st, true)
           end) = (st, true)) as -> by (destruct cmd; try reflexivity; now elim Hc).
  cbn [negb].
  assert (match cmd with CWord => CNext | c => c end = cmd) as -> by (destruct cmd; try reflexivity; now elim Hc).
  pose proof (vi_search_state st lb cmd cnt xrow (ren_noeol (nth xrow lb []) xoff)) as Hs.
  destruct (vi_search _ _ _ _ _ _ _ _) as [st1 res]. cbn [fst] in Hs. subst st1. cbn [snd].
  destruct res as [[r oo]|]; reflexivity.
Qed.

(* one command: what it does to the remembered offset *)
Theorem search_cmd_off st lb cmd cnt xrow xoff :
  off_of (fst (fst (search_cmd fmk rcomp st lb cmd cnt xrow xoff))) = off_next lb cmd xrow xoff (off_of st).
Proof.
  destruct (scmd_eq_word cmd) as [->|Hc].
  - rewrite search_cmd_word. cbn zeta. cbn [off_next]. unfold word_at.
    destruct (vi_curword _ _) as [w|]; [|reflexivity].
    destruct (snd _) as [[r oo]|]; reflexivity.
  - rewrite (search_cmd_other st lb cmd cnt xrow xoff Hc). cbn zeta.
    destruct (snd _) as [[r oo]|]; cbn [fst]; now apply off_upd.
Qed.

(* one successful command: where it lands, in terms of the offset in force after its own update *)
Theorem search_cmd_lands st lb cmd cnt xrow xoff st' r o :
  search_cmd fmk rcomp st lb cmd cnt xrow xoff = (st', true, (r, o)) ->
  exists r1 o1 l,
    search_iter fmk rcomp cnt (kwd st') lb (cmd_fwd cmd st') xrow (ren_noeol (nth xrow lb []) xoff) = SFound r1 o1 l /\
    if soset st'
    then Z.of_nat r = (Z.of_nat r1 + so st')%Z /\ r < length lb /\
         o = ren_noeol (nth r lb []) (lbuf_indents (nth r lb []))
    else r = r1 /\ o = ren_noeol (nth r1 lb []) o1.
Proof.
  destruct (scmd_eq_word cmd) as [->|Hc].
  - rewrite search_cmd_word. cbn zeta. destruct (vi_curword _ _) as [w|]; [|discriminate].
    destruct (vi_search fmk rcomp (word_state st w) lb CNext cnt xrow _) as [st1 res] eqn:E. cbn [snd].
    destruct res as [[r' oo]|]; [|discriminate]. intros [= <- <- <-].
    apply vi_search_found in E. destruct E as [-> (r1 & o1 & l & Hi & Hl)]. cbn [upd] in *.
    exists r1, o1, l. split; [exact Hi|]. cbn [soset word_state] in *. destruct Hl as [-> ->]. split; reflexivity.
  - rewrite (search_cmd_other st lb cmd cnt xrow xoff Hc). cbn zeta.
    destruct (vi_search fmk rcomp st lb cmd cnt xrow _) as [st1 res] eqn:E. cbn [snd].
    destruct res as [[r' oo]|]; [|discriminate]. intros [= <- <- <-].
    apply vi_search_found in E. destruct E as [-> (r1 & o1 & l & Hi & Hl)].
    exists r1, o1, l. split; [exact Hi|].
    destruct (soset (upd st cmd)).
    + destruct Hl as (-> & H1 & H2). repeat split; assumption.
    + destruct Hl as [-> ->]. split; reflexivity.
Qed.

(* ^A, whatever offset an earlier / or ? left behind: the offset is off afterwards and the cursor is on the
   match itself -- the count-th \<word\> forward from the cursor *)
Theorem word_lands_on_match st lb cnt xrow xoff st' r o :
  search_cmd fmk rcomp st lb CWord cnt xrow xoff = (st', true, (r, o)) ->
  let ln := nth xrow lb [] in
  exists w o1 l, vi_curword ln (ren_noeol ln xoff) = Some w /\
    st' = word_state st w /\ soset st' = false /\
    search_iter fmk rcomp cnt (kwd st') lb true xrow (ren_noeol ln xoff) = SFound r o1 l /\
    o = ren_noeol (nth r lb []) o1.
Proof.
  intros H. cbn zeta. pose proof H as H0. rewrite search_cmd_word in H0. cbn zeta in H0.
  destruct (vi_curword _ _) as [w|]; [|discriminate].
  assert (st' = word_state st w) as Hst.
  { destruct (snd _) as [[r' oo]|]; [|discriminate]. now injection H0 as <- _ _. }
  apply search_cmd_lands in H. destruct H as (r1 & o1 & l & Hi & Hl).
  subst st'. cbn [soset word_state] in Hl. destruct Hl as [-> ->].
  exists w, o1, l. repeat split; try reflexivity. exact Hi.
Qed.

(* sequences *)
Lemma run_trace_cmds lb cmds : forall st xrow xoff,
  map (fun x => (snd (fst x), snd x)) (run_trace fmk rcomp st lb cmds xrow xoff) = run_cmds fmk rcomp st lb cmds xrow xoff.
Proof.
  induction cmds as [|[c n] rest IH]; intros st xrow xoff; cbn [run_trace run_cmds]; [reflexivity|].
  destruct (search_cmd fmk rcomp st lb c n xrow xoff) as [[st1 ok] [r o]]. cbn [map fst snd]. now rewrite IH.
Qed.

(* the offsets along ANY command sequence are determined by the commands' own texts and, for ^A, by whether a
   word is under the cursor -- never by what the searches find *)
Theorem offset_trace lb cmds : forall st xrow xoff,
  let tr := run_trace fmk rcomp st lb cmds xrow xoff in
  map (fun x => off_of (fst (fst x))) tr = off_trace lb cmds ((xrow, xoff) :: map snd tr) (off_of st).
Proof.
  induction cmds as [|[c n] rest IH]; intros st xrow xoff; cbn [run_trace]; [reflexivity|].
  pose proof (search_cmd_off st lb c n xrow xoff) as Ho.
  destruct (search_cmd fmk rcomp st lb c n xrow xoff) as [[st1 ok] [r o]]. cbn [fst] in Ho.
  cbn [map fst snd off_trace]. rewrite Ho. f_equal. rewrite <- Ho. apply IH.
Qed.

(* until the next / or ?, an offset that is off stays off: n, N and ^A never switch it on *)
Theorem offset_stays_off lb cmds : forall st xrow xoff,
  forallb (fun cn => prompt_free (fst cn)) cmds = true -> soset st = false ->
  Forall (fun x => soset (fst (fst x)) = false) (run_trace fmk rcomp st lb cmds xrow xoff).
Proof.
  induction cmds as [|[c n] rest IH]; intros st xrow xoff Hp Hs; cbn [run_trace]; [constructor|].
  cbn [forallb fst] in Hp. apply andb_true_iff in Hp. destruct Hp as [Hc Hr].
  pose proof (search_cmd_off st lb c n xrow xoff) as Ho.
  destruct (search_cmd fmk rcomp st lb c n xrow xoff) as [[st1 ok] [r o]]. cbn [fst] in Ho.
  assert (soset st1 = false) as H1.
  { unfold off_of in Ho. rewrite Hs in Ho. destruct c; cbn [off_next prompt_free] in *; try discriminate.
    - now injection Ho. - now injection Ho.
    - destruct (word_at lb xrow xoff); now injection Ho. }
  constructor; [exact H1|]. now apply IH.
Qed.

(* ... so every one of them that succeeds lands on a match of the pattern in force *)
Theorem lands_on_match_until_prompt lb cmds : forall st xrow xoff,
  forallb (fun cn => prompt_free (fst cn)) cmds = true -> soset st = false ->
  forall i c n st0 ok0 pos0 st' r o,
    nth_error cmds i = Some (c, n) ->
    nth_error ((st, true, (xrow, xoff)) :: run_trace fmk rcomp st lb cmds xrow xoff) i = Some (st0, ok0, pos0) ->
    nth_error (run_trace fmk rcomp st lb cmds xrow xoff) i = Some (st', true, (r, o)) ->
    exists o1 l, search_iter fmk rcomp n (kwd st') lb (cmd_fwd c st') (fst pos0)
                   (ren_noeol (nth (fst pos0) lb []) (snd pos0)) = SFound r o1 l /\
                 o = ren_noeol (nth r lb []) o1.
Proof.
  induction cmds as [|[c0 n0] rest IH]; intros st xrow xoff Hp Hs i c n st0 ok0 pos0 st' r o Hc H0 H1.
  - destruct i; discriminate.
  - cbn [forallb fst] in Hp. apply andb_true_iff in Hp. destruct Hp as [Hpc Hr].
    pose proof (offset_stays_off lb [(c0, n0)] st xrow xoff) as Hoff. cbn [forallb fst run_trace] in Hoff.
    rewrite Hpc in Hoff. specialize (Hoff eq_refl Hs).
    cbn [run_trace] in H0, H1.
    destruct (search_cmd fmk rcomp st lb c0 n0 xrow xoff) as [[st1 ok] [r1 o1]] eqn:E.
    inversion Hoff as [|? ? Hs1 _]. cbn [fst] in Hs1.
    destruct i as [|i].
    + cbn [nth_error] in *. injection Hc as <- <-. injection H0 as <- <- <-. injection H1 as <- -> <- <-.
      apply search_cmd_lands in E. destruct E as (r2 & o2 & ll & Hi & Hl). rewrite Hs1 in Hl. destruct Hl as [-> ->].
      exists o2, ll. split; [exact Hi|reflexivity].
    + cbn [nth_error] in Hc, H1. change (nth_error ((st1, ok, (r1, o1)) :: run_trace fmk rcomp st1 lb rest r1 o1) i = Some (st0, ok0, pos0)) in H0.
      destruct i as [|i'].
      * cbn [nth_error] in H0. injection H0 as <- <- <-.
        eapply (IH st1 r1 o1 Hr Hs1 0); [exact Hc|reflexivity|exact H1].
      * eapply (IH st1 r1 o1 Hr Hs1 (S i')); [exact Hc| |exact H1]. cbn [nth_error] in *. exact H0.
Qed.
End Off.

(* ---------------------------------------------------------------------------------------------- *)
(* (b) the fast path finds occurrences of the literal, and without anchors the first one *)

(* folding identifies A..Z with a..z and nothing else *)
Lemma fold_eq_cases ic c x : fold ic c = fold ic x ->
  c = x \/ (ic = true /\ ((65 <= c <= 90 /\ x = c + 32) \/ (65 <= x <= 90 /\ c = x + 32)))%N.
Proof.
  unfold fold, c_tolower, c_isupper. destruct ic; [|now left].
  destruct ((65 <=? c)%N && (c <=? 90)%N) eqn:A; destruct ((65 <=? x)%N && (x <=? 90)%N) eqn:B; intros H;
    try (apply andb_true_iff in A; destruct A as [A1 A2]; apply N.leb_le in A1; apply N.leb_le in A2);
    try (apply andb_true_iff in B; destruct B as [B1 B2]; apply N.leb_le in B1; apply N.leb_le in B2).
  - left. lia.
  - right. split; [reflexivity|]. left. split; [lia|]. lia.
  - right. split; [reflexivity|]. right. split; [lia|]. lia.
  - now left.
Qed.

Lemma match_case_spec ic : forall r s,
  match_case ic s r = false <-> length r <= length s /\ map (fold ic) (firstn (length r) s) = map (fold ic) r.
Proof.
  induction r as [|x r IH]; intros s.
  - destruct s; cbn; split; auto; intros _; split; auto; lia.
  - destruct s as [|c s]; cbn [match_case length firstn map].
    + split; [discriminate|]. intros [H _]. lia.
    + assert ((if ic then if (c_tolower c =? c_tolower x)%N then match_case ic s r else true
               else if (c =? x)%N then match_case ic s r else true)
              = if (fold ic c =? fold ic x)%N then match_case ic s r else true) as -> by (unfold fold; now destruct ic).
      destruct (fold ic c =? fold ic x)%N eqn:E.
      * apply N.eqb_eq in E. rewrite IH. split.
        -- intros [H1 H2]. split; [lia|]. now rewrite E, H2.
        -- intros [H1 H2]. injection H2 as _ H2. split; [lia|exact H2].
      * apply N.eqb_neq in E. split; [discriminate|]. intros [_ H]. injection H as H _. contradiction.
Qed.

Lemma occurs_at_match ic l s r : occurs_at ic l s r <-> match_case ic (skipn r s) l = false.
Proof.
  rewrite match_case_spec. unfold occurs_at. rewrite skipn_length. reflexivity.
Qed.

Lemma occurs_atb_spec ic l s r : occurs_atb ic l s r = true <-> occurs_at ic l s r.
Proof.
  unfold occurs_atb, occurs_at. rewrite andb_true_iff, Nat.leb_le.
  split; intros [H1 H2]; (split; [exact H1|]).
  - assert (L : length (firstn (length l) (skipn r s)) = length l) by (rewrite firstn_length, skipn_length; lia).
    revert H2 L. generalize (firstn (length l) (skipn r s)). clear. induction l as [|x l IH]; intros [|c t]; cbn; try discriminate; auto.
    intros H L. apply andb_true_iff in H. destruct H as [E H]. apply N.eqb_eq in E. rewrite E. f_equal. apply IH; [exact H|lia].
  - assert (L : length (firstn (length l) (skipn r s)) = length l) by (rewrite firstn_length, skipn_length; lia).
    revert H2 L. generalize (firstn (length l) (skipn r s)). clear. induction l as [|x l IH]; intros [|c t]; cbn; try discriminate; auto.
    intros H L. injection H as E H. rewrite E, N.eqb_refl. cbn. apply IH; [exact H|lia].
Qed.

(* whatever the anchors: a result of the scan is an occurrence of the literal, of the literal's length *)
Theorem rstr_loop_sound ic sp prev s : forall cnt b p e,
  rstr_loop ic sp prev s b cnt = Some (p, e) ->
  b <= p < b + cnt /\ e = p + length (lit sp) /\ occurs_at ic (lit sp) s p.
Proof.
  induction cnt as [|k IH]; intros b p e; cbn [rstr_loop]; [discriminate|].
  destruct (_ || _).
  - intros H. apply IH in H. destruct H as (H1 & H2 & H3). split; [lia|]. split; assumption.
  - destruct (negb (match_case ic (skipn b s) (lit sp))) eqn:M.
    + intros [= <- <-]. apply negb_true_iff in M. apply occurs_at_match in M. split; [lia|]. split; [reflexivity|exact M].
    + intros H. apply IH in H. destruct H as (H1 & H2 & H3). split; [lia|]. split; assumption.
Qed.

(* without word anchors: the FIRST occurrence in the window, and none when the scan finds nothing *)
Theorem rstr_loop_first ic sp prev s : wbeg sp = false -> wend sp = false -> forall cnt b,
  match rstr_loop ic sp prev s b cnt with
  | Some (p, _) => forall q, b <= q < p -> ~ occurs_at ic (lit sp) s q
  | None => forall q, b <= q < b + cnt -> ~ occurs_at ic (lit sp) s q
  end.
Proof.
  intros Hb He. induction cnt as [|k IH]; intros b; cbn [rstr_loop]; [intros q Hq; lia|].
  rewrite Hb, He. cbn [andb orb].
  destruct (negb (match_case ic (skipn b s) (lit sp))) eqn:M.
  - intros q Hq. lia.
  - apply negb_false_iff in M. specialize (IH (S b)).
    assert (Hn : ~ occurs_at ic (lit sp) s b) by (rewrite occurs_at_match; congruence).
    destruct (rstr_loop ic sp prev s (S b) k) as [[p e]|].
    + intros q Hq. destruct (Nat.eq_dec q b) as [->|Hne]; [exact Hn|]. apply IH. lia.
    + intros q Hq. destruct (Nat.eq_dec q b) as [->|Hne]; [exact Hn|]. apply IH. lia.
Qed.

(* rstr_find on a purely literal pattern: the leftmost occurrence that ends before the last byte of the
   subject (the newline of the line), under ignorecase up to ASCII letter case only *)
Theorem literal_first_occurrence ic notbol sp prev s : plain sp ->
  match rstr_find_simple ic notbol sp prev s with
  | Some (p, e) => e = p + length (lit sp) /\ occurs_at ic (lit sp) s p /\
                   forall q, q < p -> ~ occurs_at ic (lit sp) s q
  | None => forall q, q + length (lit sp) < length s -> ~ occurs_at ic (lit sp) s q
  end.
Proof.
  intros (H1 & H2 & H3 & H4). unfold rstr_find_simple. rewrite H1, H4. cbn [andb].
  destruct (length s <? length (lit sp) + 1) eqn:L.
  - apply Nat.ltb_lt in L. intros q Hq. lia.
  - apply Nat.ltb_ge in L. cbn [Nat.ltb Nat.leb].
    replace (length s - length (lit sp) - 1 <? 0) with false by (symmetry; apply Nat.ltb_ge; lia).
    rewrite Nat.sub_0_r.
    pose proof (rstr_loop_first ic sp prev s H2 H3 (S (length s - length (lit sp) - 1)) 0) as F.
    destruct (rstr_loop ic sp prev s 0 _) as [[p e]|] eqn:E.
    + apply rstr_loop_sound in E. destruct E as (_ & E2 & E3). split; [exact E2|]. split; [exact E3|].
      intros q Hq. apply F. lia.
    + intros q Hq. apply F. lia.
Qed.

Theorem literal_sound ic notbol sp prev s p e :
  rstr_find_simple ic notbol sp prev s = Some (p, e) -> e = p + length (lit sp) /\ occurs_at ic (lit sp) s p.
Proof.
  unfold rstr_find_simple. destruct (_ && _); [discriminate|]. destruct (_ <? _); [discriminate|].
  destruct (_ <? _); [discriminate|]. intros H. apply rstr_loop_sound in H. tauto.
Qed.

(* the same at the level of the reference matcher: a pattern that rstr_simple accepts without anchors *)
Theorem ref_literal_first ic kw sp prev notbol s : rstr_simple kw = Some sp -> plain sp ->
  match ref_find ic kw prev notbol s with
  | Some (p, e) => e = p + length (lit sp) /\ occurs_at ic (lit sp) s p /\
                   forall q, q < p -> ~ occurs_at ic (lit sp) s q
  | None => forall q, q + length (lit sp) < length s -> ~ occurs_at ic (lit sp) s q
  end.
Proof. intros H Hp. unfold ref_find. rewrite H. now apply literal_first_occurrence. Qed.

Theorem ref_literal_sound ic kw sp prev notbol s p e : rstr_simple kw = Some sp ->
  ref_find ic kw prev notbol s = Some (p, e) -> e = p + length (lit sp) /\ occurs_at ic (lit sp) s p.
Proof. intros H. unfold ref_find. rewrite H. apply literal_sound. Qed.
