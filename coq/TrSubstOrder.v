(* TrSubstOrder.v -- C14: the ORDER of the head of ec_substitute in the translated C text (GenCFuncs.cf_ec_substitute):
     statement 4        if (ex_region(loc, &beg, &end)) return 1;           <- evaluates the searches of the address (ex_kwdset inside)
     statements 5 - 7   pat = re_read(&s); if (pat && pat[0]) ex_kwdset(pat, +1); if (pat && *s) { s--; rep = re_read(&s); }
     statement 8        if (pat || rep) snprintf(xrep, sizeof(xrep), "%s", rep ? rep : "");
     statements 9, 10   free(pat); free(rep);
     statement 11       if (ex_kwd(&pat, NULL)) return 1;                    <- the pattern that is compiled ...
     statement 12       re = rstr_make(pat, xic ? RE_ICASE : 0);            <- ... here
   This is the order SubstAddrDefs.subst_head models (address first, then the command's own ex_kwdset, then ex_kwd with nothing
   but snprintf and free in between).  The statements are written out and compared with the generated term by reflexivity:
   moving the ex_region call (or putting anything between ex_kwdset and ex_kwd) breaks this file.
   Kept apart from TrSubstArgs.v (which proves what statements 5-7 compute): only CLite and GenCFuncs are imported. *)
From Coq Require Import List NArith ZArith.
From NV Require Import CLite GenCFuncs.
Import ListNotations.

Definition nth_seq (n : nat) (s : stmt) : stmt :=
  (fix go n s := match n, s with O, SSeq a _ => a | S k, SSeq _ b => go k b | _, _ => s end) n s.

(* locals: 0 = loc, 4 = re, 6 = &beg, 7 = &end, 8 = &pat, 9 = rep, 10 = &s *)
Definition eo_region : stmt := SIf (ECall F_ex_region [ELocal 0; ELocal 6; ELocal 7]) (SReturn (Some (EConst 1))) SSkip.
Definition eo_pat : stmt := SExpr (EStore None (ELocal 8) (ECall F_re_read [ELocal 10])).
Definition eo_kwdset : stmt :=
  SIf (EAndAlso (ELoad None (ELocal 8)) (ECast I32 (ELoad (Some I8) (EPtrAdd 1 (ELoad None (ELocal 8)) (EConst 0)))))
      (SExpr (ECall X_ex_kwdset [ELoad None (ELocal 8); EConst 1])) SSkip.
Definition eo_rep : stmt :=
  SIf (EAndAlso (ELoad None (ELocal 8)) (ECast I32 (ELoad (Some I8) (ELoad None (ELocal 10)))))
      (SSeq (SExpr (EIncMem true None (-1) (ELocal 10))) (SExpr (ESetLocal 9 (ECall F_re_read [ELocal 10])))) SSkip.
Definition eo_xrep (gx gf ge : nat) : stmt :=
  SIf (EOrElse (ELoad None (ELocal 8)) (ELocal 9))
      (SExpr (ECall X_snprintf [EGlob gx; EConst 512; EGlob gf; ECond (ELocal 9) (ELocal 9) (EGlob ge)])) SSkip.
Definition eo_free1 : stmt := SExpr (EBuiltin BFree [ELoad None (ELocal 8)]).
Definition eo_free2 : stmt := SExpr (EBuiltin BFree [ELocal 9]).
Definition eo_kwd : stmt := SIf (ECall X_ex_kwd [ELocal 8; EConst 0]) (SReturn (Some (EConst 1))) SSkip.
Definition eo_make (gic : nat) : stmt :=
  SExpr (ESetLocal 4 (ECall X_rstr_make [ELoad None (ELocal 8); ECond (ELoad (Some I32) (EGlob gic)) (EConst 1) (EConst 0)])).

Theorem head_order :
  nth_seq 4 (fn_body cf_ec_substitute) = eo_region /\
  nth_seq 5 (fn_body cf_ec_substitute) = eo_pat /\
  nth_seq 6 (fn_body cf_ec_substitute) = eo_kwdset /\
  nth_seq 7 (fn_body cf_ec_substitute) = eo_rep /\
  (exists gx gf ge, nth_seq 8 (fn_body cf_ec_substitute) = eo_xrep gx gf ge) /\
  nth_seq 9 (fn_body cf_ec_substitute) = eo_free1 /\
  nth_seq 10 (fn_body cf_ec_substitute) = eo_free2 /\
  nth_seq 11 (fn_body cf_ec_substitute) = eo_kwd /\
  (exists gic, nth_seq 12 (fn_body cf_ec_substitute) = eo_make gic).
Proof.
  split; [reflexivity|]. split; [reflexivity|]. split; [reflexivity|]. split; [reflexivity|].
  split; [do 3 eexists; reflexivity|]. split; [reflexivity|]. split; [reflexivity|]. split; [reflexivity|].
  eexists; reflexivity.
Qed.
