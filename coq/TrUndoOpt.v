(* TrUndoOpt.v -- lbuf_opt and lbuf_edit of /repo/lbuf.c on the translated C text (GenCFuncs.v): the log afterwards
   represents UndoDefs.lbuf_opt of the log before.  lbuf_cp (the copy of the deleted lines, built through an sbuf) and
   lbuf_replace are oracles (X_lbuf_cp, X_lbuf_replace, CLiteExt.callx); linecount, uc_dup, lopt_done, lbuf_savepos,
   lbuf_savemark run as translated.

   * the redo branch (records hist_u .. hist_n - 1) is freed record by record through lopt_done, every block exactly once
     (the call returning Ok excludes a double free: free() of a freed block is EOob in CLite.v), and nothing else is freed;
   * hist[] grows when hist_n == hist_sz, by the model's rule (doubling; the HIST_INIT arm of the C expression is the
     hist == NULL case, which is NOT covered: its memcpy(hist, NULL, 0) is undefined by C11 7.24.1p2 and rejected by CLite.v,
     see tr_lbuf_opt_null below): fresh array, the first hist_n records copied, the old array freed, hist / hist_sz stored;
   * one record is appended with the model's fields (pos, n_del, del = lbuf_cp or NULL, n_ins = linecount, ins = a fresh
     copy of buf or NULL, seq = lb->useq), hist_n = hist_u = old hist_u + 1. *)
From Coq Require Import List ZArith NArith Bool Lia.
From NV Require Import Bytes GenConsts CLite CLiteProps GenCFuncs CLiteTac CLiteExt TrLbufBase UndoDefs TrUndoBase.
From NV Require TrLbuf TrLbufLines IoDefs.
Import ListNotations.
Local Open Scope Z_scope.

(* ------------------------------------------------------------------ linecount: the two models agree *)
Lemma lc_lines (s : list N) : IoDefs.linecount_aux false s = length (lines_of s) /\
                              IoDefs.linecount_aux true s = Nat.max 1 (length (lines_of s)).
Proof.
  induction s as [|c s [IH1 IH2]]; [split; reflexivity|]. cbn [IoDefs.linecount_aux lines_of]. unfold IoDefs.is_nl, NL, IoDefs.NL in *.
  destruct (N.eqb c 10).
  - cbn [length]. rewrite IH1. split; [reflexivity|lia].
  - rewrite IH2. destruct (lines_of s) as [|l r]; cbn [length]; split; lia.
Qed.
Lemma linecount_models (s : list N) : IoDefs.linecount s = linecount (Some s).
Proof. unfold IoDefs.linecount, linecount, lines_opt. apply (proj1 (lc_lines s)). Qed.

(* ------------------------------------------------------------------ uc_dup: malloc(strlen(s) + 1), strcpy *)
Lemma str_at_app (m : mem) x b s : str_at m b s -> str_at (m ++ [x]) b s.
Proof. unfold str_at. intro H. rewrite nth_error_app_old by (apply nth_error_Some; congruence). exact H. Qed.
Lemma cstr_block_len (t : bytes) : length (cstr_block (zb t)) = S (length t).
Proof. unfold cstr_block, zb. rewrite app_length, !map_length. cbn. lia. Qed.

Theorem tr_uc_dup (m : mem) b s o d fuel : str_at m b s -> nonul s -> (o <= length s)%nat -> Z.of_nat (length s) <= 2147483647 ->
  callf cprog fuel (S d) F_uc_dup [VPtr b (Z.of_nat o)] m = Ok (VPtr (length m) 0, m ++ [cstr_block (zb (skipn o s))]).
Proof.
  intros Hs Hn Ho Hmax. enter F_uc_dup cf_uc_dup. xstep.
  rewrite (builtin_strlen m b s o Hs Hn Ho). xstep. change (wrap U64 1) with 1.
  rewrite chk_U64 by lia. xstep. rewrite malloc_ok by lia. xstep.
  set (U := repeat VUndef (Z.to_nat (Z.of_nat (length s - o) + 1))).
  cbn [do_builtin_m]. rewrite (blk_from_str (m ++ [U]) b s o (str_at_app m U b s Hs) Ho). cbn [bind].
  rewrite scan0_cstr by (apply Forall_skipn'; exact Hn). cbn [bind Nat.add].
  set (t := skipn o s). assert (Lt : length t = (length s - o)%nat) by (apply skipn_length).
  rewrite firstn_all2 by (rewrite cstr_block_len; lia).
  rewrite (write_cells_ok (m ++ [U]) (length m) U 0 (cstr_block (zb t))); try lia.
  - cbn [bind]. xstep. rewrite upd_app_new. change (Z.to_nat 0) with 0%nat. rewrite put_cells_0.
    rewrite skipn_all2 by (unfold U; rewrite repeat_length, cstr_block_len; lia). rewrite app_nil_r. reflexivity.
  - apply nth_error_app_new.
  - unfold U. rewrite repeat_length, cstr_block_len. lia.
Qed.

(* ------------------------------------------------------------------ freeing what records own *)
Definition free_blocks (bs : list nat) (m : mem) : mem := fold_left (fun m b => upd m b []) bs m.
Definition all_live (bs : list nat) (m : mem) : Prop := forall b, In b bs -> (b < length m)%nat.
Lemma free_blocks_cons b bs (m : mem) : free_blocks (b :: bs) m = free_blocks bs (upd m b []).
Proof. reflexivity. Qed.
Lemma all_live_upd bs (m : mem) b x : (b < length m)%nat -> all_live bs m -> all_live bs (upd m b x).
Proof. intros Hb H c Hc. rewrite upd_length by exact Hb. apply H. exact Hc. Qed.
Lemma free_blocks_length bs : forall m : mem, all_live bs m -> length (free_blocks bs m) = length m.
Proof.
  induction bs as [|b bs IH]; intros m H; [reflexivity|]. rewrite free_blocks_cons.
  assert (Hb : (b < length m)%nat) by (apply H; left; reflexivity).
  rewrite IH by (apply all_live_upd; [exact Hb|intros c Hc; apply H; right; exact Hc]). apply upd_length. exact Hb.
Qed.
Lemma free_blocks_other bs : forall (m : mem) c, all_live bs m -> ~ In c bs -> nth_error (free_blocks bs m) c = nth_error m c.
Proof.
  induction bs as [|b bs IH]; intros m c H Hn; [reflexivity|]. rewrite free_blocks_cons.
  assert (Hb : (b < length m)%nat) by (apply H; left; reflexivity).
  rewrite IH; [|apply all_live_upd; [exact Hb|intros x Hx; apply H; right; exact Hx]|intro X; apply Hn; right; exact X].
  apply mem_upd_other; [exact Hb|]. intro X. apply Hn. left. auto.
Qed.
Lemma free_blocks_in bs : forall (m : mem) c, all_live bs m -> NoDup bs -> In c bs -> nth_error (free_blocks bs m) c = Some [].
Proof.
  induction bs as [|b bs IH]; intros m c H Hnd Hin; [destruct Hin|]. rewrite free_blocks_cons.
  assert (Hb : (b < length m)%nat) by (apply H; left; reflexivity).
  assert (H' : all_live bs (upd m b [])) by (apply all_live_upd; [exact Hb|intros x Hx; apply H; right; exact Hx]).
  inversion Hnd as [|? ? Hnb Hnd']; subst. destruct Hin as [<-|Hin].
  - rewrite free_blocks_other by assumption. apply mem_upd_same. exact Hb.
  - apply IH; assumption.
Qed.

Definition freeable (m : mem) (v : val) : Prop := v = VInt 0 \/ exists b blk, v = VPtr b 0 /\ nth_error m b = Some blk /\ blk <> [].
Lemma free_list_ok vs : forall m : mem, Forall (freeable m) vs -> NoDup (flat_map ptr_block vs) ->
  TrLbuf.free_list vs m = Ok (free_blocks (flat_map ptr_block vs) m).
Proof.
  induction vs as [|v vs IH]; intros m HF Hnd; [reflexivity|]. inversion HF as [|? ? Hv HF']; subst.
  cbn [TrLbuf.free_list flat_map]. destruct Hv as [->|(b & blk & -> & Hb & Hne)].
  - cbn [do_builtin_m ptr_block app]. apply IH; assumption.
  - rewrite (free_ok m b blk Hb Hne). cbn [ptr_block app] in *. rewrite free_blocks_cons.
    inversion Hnd as [|? ? Hnb Hnd']; subst. apply IH; [|exact Hnd'].
    assert (Hbl : (b < length m)%nat) by (apply nth_error_Some; congruence).
    rewrite Forall_forall in *. intros w Hw. destruct (HF' w Hw) as [->|(b' & blk' & -> & Hb' & Hne')]; [left; reflexivity|].
    right. exists b', blk'. split; [reflexivity|]. split; [|exact Hne']. rewrite mem_upd_other; [exact Hb'|exact Hbl|].
    intro X. subst b'. apply Hnb. apply in_flat_map. exists (VPtr b 0). split; [exact Hw|left; reflexivity].
Qed.

Lemma cstr_from_nonempty (m : mem) b t : cstr_from m b 0 t -> exists blk, nth_error m b = Some blk /\ blk <> [].
Proof.
  intros (blk & H & _ & E). exists blk. split; [exact H|]. intro X. subst blk. cbn in E. unfold cstr_block in E.
  destruct (map VInt (zb t)); discriminate.
Qed.
Lemma sown_freeable (m : mem) v s : sown m v s -> freeable m v.
Proof.
  destruct s as [t|]; [|intros ->; left; reflexivity]. intros (_ & b & -> & H). destruct (cstr_from_nonempty m b t H) as (blk & Hb & Hne).
  right. exists b, blk. auto.
Qed.
Lemma ent_freeable (m : mem) hblk i lo : ent_rep m hblk i lo -> Forall (freeable m) (TrLbuf.ent_ptrs hblk i).
Proof.
  intros [H0 H1 _ _ _ _ _ H7 _]. unfold TrLbuf.ent_ptrs. fold (hc hblk (9 * i)) (hc hblk (9 * i + 1)) (hc hblk (9 * i + 7)) (hc hblk (9 * i + 8)).
  repeat apply Forall_cons; try apply Forall_nil; try (eapply sown_freeable; eassumption).
  - destruct H7 as [[-> _]|(bm & bo & -> & _ & _ & mb & ob & Hm & _ & Lm & _)]; [left; reflexivity|].
    right. exists bm, mb. split; [reflexivity|]. split; [exact Hm|]. intro X; subst; discriminate.
  - destruct H7 as [[_ ->]|(bm & bo & _ & -> & _ & mb & ob & _ & Hob & _ & Lo & _)]; [left; reflexivity|].
    right. exists bo, ob. split; [reflexivity|]. split; [exact Hob|]. intro X; subst; discriminate.
Qed.
Lemma ent_blocks_live (m : mem) hblk i lo b : ent_rep m hblk i lo -> In b (ent_blocks hblk i) -> (b < length m)%nat.
Proof.
  intros E Hb. pose proof (ent_freeable m hblk i lo E) as F. unfold ent_blocks in Hb. apply in_flat_map in Hb. destruct Hb as (v & Hv & Hb).
  rewrite Forall_forall in F. destruct (F v Hv) as [->|(b' & blk & -> & Hm & _)]; [destruct Hb|].
  destruct Hb as [<-|[]]. apply nth_error_Some. congruence.
Qed.

Lemma flat_map_flat_map {A B C} (f : B -> list C) (g : A -> list B) l : flat_map f (flat_map g l) = flat_map (fun x => flat_map f (g x)) l.
Proof. induction l as [|x l IH]; [reflexivity|]. cbn [flat_map]. rewrite flat_map_app, IH. reflexivity. Qed.
Lemma ptrs_blocks hblk i k : flat_map ptr_block (TrLbuf.ptrs_from hblk i k) = log_blocks hblk i k.
Proof. unfold TrLbuf.ptrs_from, log_blocks. apply flat_map_flat_map. Qed.
Lemma log_blocks_split hblk u n : (u <= n)%nat -> log_blocks hblk 0 n = log_blocks hblk 0 u ++ log_blocks hblk u (n - u).
Proof.
  intro H. unfold log_blocks. replace n with (u + (n - u))%nat at 1 by lia. rewrite seq_app, flat_map_app. reflexivity.
Qed.
Lemma log_blocks_snoc hblk u : log_blocks hblk 0 (S u) = log_blocks hblk 0 u ++ ent_blocks hblk u.
Proof. unfold log_blocks. rewrite seq_S, flat_map_app. cbn [flat_map Nat.add]. rewrite app_nil_r. reflexivity. Qed.
Lemma log_blocks_cells hblk hblk' i k : (forall j, (j < 9 * (i + k))%nat -> hc hblk' j = hc hblk j) -> log_blocks hblk' i k = log_blocks hblk i k.
Proof.
  revert i; induction k as [|k IH]; intros i H; [reflexivity|]. unfold log_blocks. cbn [List.seq flat_map].
  fold (log_blocks hblk' (S i) k) (log_blocks hblk (S i) k). rewrite (ent_blocks_cells hblk hblk' i) by (intros j Hj; apply H; lia).
  rewrite IH by (intros j Hj; apply H; lia). reflexivity.
Qed.
Lemma ptrs_freeable (m : mem) hblk (h : list lopt) : forall k i, (forall j, (i <= j < i + k)%nat -> ent_rep m hblk j (nth j h dflt)) ->
  Forall (freeable m) (TrLbuf.ptrs_from hblk i k).
Proof.
  induction k as [|k IH]; intros i H; [apply Forall_nil|]. unfold TrLbuf.ptrs_from. cbn [List.seq flat_map].
  apply Forall_app. split; [apply (ent_freeable m hblk i (nth i h dflt)); apply H; lia|]. apply IH. intros j Hj. apply H. lia.
Qed.

(* ------------------------------------------------------------------ the newest record changes *)
Lemma NoDup_app_iff' {A} (l1 l2 : list A) : NoDup (l1 ++ l2) <-> NoDup l1 /\ NoDup l2 /\ (forall x, In x l1 -> ~ In x l2).
Proof.
  induction l1 as [|a l1 IH]; cbn [app].
  - split; [intro H; split; [constructor|split; [exact H|intros x []]]|intros (_ & H & _); exact H].
  - rewrite !NoDup_cons_iff, IH, in_app_iff. split.
    + intros (Hn & H1 & H2 & H3). split; [split; [tauto|exact H1]|]. split; [exact H2|]. intros x [<-|Hx]; [tauto|apply H3; exact Hx].
    + intros ((Hn & H1) & H2 & H3). split; [intros [X|X]; [tauto|apply (H3 a); [left; reflexivity|exact X]]|].
      split; [exact H1|]. split; [exact H2|]. intros x Hx. apply H3. right. exact Hx.
Qed.

Definition with_hist (lb : lbuf) (h : list lopt) : lbuf :=
  {| ln := ln lb; hist := h; hist_u := hist_u lb; hist_sz := hist_sz lb; useq := useq lb; useq_zero := useq_zero lb; useq_last := useq_last lb |}.

Lemma urep_last T (m m' : mem) bl (blk : block) bh (hblk hblk' : block) lb h lo lo' :
  T_frame T -> urep T m bl blk bh hblk lb -> hist lb = h ++ [lo] -> let u := length h in
  nth_error m' bh = Some hblk' -> length hblk' = length hblk ->
  (forall k, ~ (9 * u <= k < 9 * u + 9)%nat -> hc hblk' k = hc hblk k) ->
  (length m <= length m')%nat ->
  (forall b, (b < length m)%nat -> b <> bh -> ~ In b (ent_blocks hblk u) -> nth_error m' b = nth_error m b) ->
  ent_rep m' hblk' u lo' ->
  NoDup (ent_blocks hblk' u) -> (forall b, In b (ent_blocks hblk' u) -> In b (ent_blocks hblk u) \/ (length m <= b < length m')%nat) ->
  urep T m' bl blk bh hblk' (with_hist lb (h ++ [lo'])).
Proof.
  intros TF [Hb L I Cn Rn Cq Ch Csz Cnn Cu Cz Cl Rg Hh Hl He Ho (fp & Ht & Hfp)] Hh0 u Hh' Ll Hc Hlen Hk E' Nd' Hfr.
  rewrite Hh0, app_length in *. cbn [length] in *. replace (length h + 1)%nat with (S u) in * by (unfold u; lia).
  unfold owned in *. rewrite log_blocks_snoc in Ho, Hfp.
  change (bl :: bh :: log_blocks hblk 0 u ++ ent_blocks hblk u) with ([bl; bh] ++ log_blocks hblk 0 u ++ ent_blocks hblk u) in Ho.
  apply NoDup_app_iff' in Ho. destruct Ho as (Ho1 & Ho2 & Ho3). apply NoDup_app_iff' in Ho2. destruct Ho2 as (Ho2 & Ho4 & Ho5).
  assert (Hbl : (bl < length m)%nat) by (apply nth_error_Some; congruence).
  assert (Hbh : (bh < length m)%nat) by (apply nth_error_Some; congruence).
  assert (Nhl : bh <> bl) by (intro X; subst; inversion Ho1 as [|? ? Hn _]; apply Hn; left; reflexivity).
  assert (Hlog : forall i, (i < u)%nat -> forall k, (k < 9)%nat -> hc hblk' (9 * i + k) = hc hblk (9 * i + k)) by (intros i Hi k Hk'; apply Hc; lia).
  assert (Hlb : log_blocks hblk' 0 u = log_blocks hblk 0 u) by (apply log_blocks_cells; intros j Hj; apply Hc; lia).
  assert (Hlive : forall b, In b (log_blocks hblk 0 u) -> (b < length m)%nat).
  { intros b Hb'. unfold log_blocks in Hb'. apply in_flat_map in Hb'. destruct Hb' as (i & Hi & Hb'). apply in_seq in Hi.
    apply (ent_blocks_live m hblk i (nth i (h ++ [lo]) dflt)); [apply He; lia|exact Hb']. }
  assert (Hnew : forall b, In b (ent_blocks hblk' u) -> b <> bl /\ b <> bh /\ ~ In b (log_blocks hblk 0 u)).
  { intros b Hb'. destruct (Hfr b Hb') as [Old|Fresh].
    - split; [intro X; subst; apply (Ho3 bl); [left; reflexivity|apply in_or_app; right; exact Old]|].
      split; [intro X; subst; apply (Ho3 bh); [right; left; reflexivity|apply in_or_app; right; exact Old]|].
      intro X. apply (Ho5 b X Old).
    - split; [lia|]. split; [lia|]. intro X. apply Hlive in X. lia. }
  constructor; cbn [with_hist ln hist hist_u hist_sz useq useq_zero useq_last]; rewrite ?app_length; cbn [length];
    replace (length h + 1)%nat with (S u) by (unfold u; lia); try assumption.
  - rewrite Hk; [exact Hb|exact Hbl|congruence|]. intro X. apply (Ho3 bl); [left; reflexivity|apply in_or_app; right; exact X].
  - rewrite Ll. exact Hl.
  - intros i Hi. destruct (Nat.eq_dec i u) as [->|Hne].
    + unfold u. rewrite app_nth2 by lia. rewrite Nat.sub_diag. exact E'.
    + assert (Hiu : (i < u)%nat) by lia. rewrite app_nth1 by (fold u; lia).
      pose proof (He i ltac:(lia)) as Ei. rewrite app_nth1 in Ei by (fold u; lia).
      apply (ent_rep_cells m' hblk hblk' i); [|apply Hlog; exact Hiu].
      apply (ent_rep_keeps m m' hblk i _ Ei). intros b Hb'.
      assert (Hlg : In b (log_blocks hblk 0 u)) by (apply (in_log_blocks hblk i u b Hiu Hb')).
      apply Hk; [apply Hlive; exact Hlg| |].
      * intro X; subst. apply (Ho3 bh); [right; left; reflexivity|apply in_or_app; left; exact Hlg].
      * intro X. apply (Ho5 b Hlg X).
  - unfold owned. rewrite log_blocks_snoc, Hlb.
    change (bl :: bh :: log_blocks hblk 0 u ++ ent_blocks hblk' u) with ([bl; bh] ++ log_blocks hblk 0 u ++ ent_blocks hblk' u).
    apply NoDup_app_iff'. split; [exact Ho1|]. split.
    + apply NoDup_app_iff'. split; [exact Ho2|]. split; [exact Nd'|]. intros x Hx Hx'. apply (proj2 (proj2 (Hnew x Hx'))). exact Hx.
    + intros x Hx Hx'. apply in_app_or in Hx'. destruct Hx' as [Hx'|Hx'].
      * apply (Ho3 x Hx). apply in_or_app. left. exact Hx'.
      * destruct (Hnew x Hx') as (N1 & N2 & _). destruct Hx as [<-|[<-|[]]]; congruence.
  - exists fp. split.
    + apply (TF m); [exact Ht|]. intros b Hb'. destruct (Hfp b Hb') as (Hn & Hlv). apply Hk; [exact Hlv| |].
      * intro X; subst. apply Hn. right. left. reflexivity.
      * intro X. apply Hn. right. right. apply in_or_app. right. exact X.
    + intros b Hb'. destruct (Hfp b Hb') as (Hn & Hlv). split; [|lia]. unfold owned. rewrite log_blocks_snoc, Hlb.
      intros [X|[X|X]]; [apply Hn; left; exact X|apply Hn; right; left; exact X|].
      apply in_app_or in X. destruct X as [X|X]; [apply Hn; right; right; apply in_or_app; left; exact X|].
      destruct (Hfr b X) as [Old|Fresh]; [apply Hn; right; right; apply in_or_app; right; exact Old|lia].
Qed.

(* ------------------------------------------------------------------ the redo branch is gone, the array may have moved *)
Definition lbT (lb : lbuf) (sz' : nat) : lbuf :=
  {| ln := ln lb; hist := firstn (hist_u lb) (hist lb); hist_u := hist_u lb; hist_sz := sz';
     useq := useq lb; useq_zero := useq_zero lb; useq_last := useq_last lb |}.

Lemma nth_firstn_lt' {A} (l : list A) : forall n i d, (i < n)%nat -> nth i (firstn n l) d = nth i l d.
Proof. induction l as [|a l IH]; intros [|n] [|i] d H; try reflexivity; try lia. cbn [firstn nth]. apply IH. lia. Qed.

Lemma urep_trunc T (m m' : mem) bl (blk blk' : block) bh bh' (hblk hblk' : block) lb sz' :
  T_frame T -> urep T m bl blk bh hblk lb -> let u := hist_u lb in let n := length (hist lb) in
  nth_error m' bl = Some blk' -> length blk' = LBUF_CELLS -> ints_upto blk' 64 ->
  (forall j, (64 <= j)%nat -> j <> L_hist -> j <> L_hist_sz -> j <> L_hist_n -> nth_error blk' j = nth_error blk j) ->
  nth_error blk' L_hist = Some (VPtr bh' 0) -> nth_error blk' L_hist_sz = Some (VInt (Z.of_nat sz')) ->
  nth_error blk' L_hist_n = Some (VInt (Z.of_nat u)) ->
  nth_error m' bh' = Some hblk' -> length hblk' = (9 * sz')%nat -> (forall j, (j < 9 * u)%nat -> hc hblk' j = hc hblk j) ->
  (u <= sz')%nat -> (0 < sz')%nat -> i31 sz' ->
  (bh' = bh \/ (length m <= bh')%nat) -> (length m <= length m')%nat ->
  (forall b, (b < length m)%nat -> b <> bl -> b <> bh -> ~ In b (log_blocks hblk u (n - u)) -> nth_error m' b = nth_error m b) ->
  urep T m' bl blk' bh' hblk' (lbT lb sz').
Proof.
  intros TF [Hb L I Cn Rn Cq Ch Csz Cnn Cu Cz Cl Rg Hh Hl He Ho (fp & Ht & Hfp)] u n Hb' L' I' E C69 C70 C71 Hh' Ll Hc Hus Hz Hi Hbh' Hlen Hk.
  destruct Rg as (Rq & (Ru & Rs) & Rz & Rsz). fold u in Ru. fold n in Ru, Rs, He, Ho, Hfp.
  unfold owned in *. rewrite (log_blocks_split hblk u n Ru) in Ho, Hfp.
  change (bl :: bh :: log_blocks hblk 0 u ++ log_blocks hblk u (n - u)) with ([bl; bh] ++ log_blocks hblk 0 u ++ log_blocks hblk u (n - u)) in Ho.
  apply NoDup_app_iff' in Ho. destruct Ho as (Ho1 & Ho2 & Ho3). apply NoDup_app_iff' in Ho2. destruct Ho2 as (Ho2 & Ho4 & Ho5).
  assert (Hbl : (bl < length m)%nat) by (apply nth_error_Some; congruence).
  assert (Hbh : (bh < length m)%nat) by (apply nth_error_Some; congruence).
  assert (Nhl : bh <> bl) by (intro X; subst; inversion Ho1 as [|? ? Hn _]; apply Hn; left; reflexivity).
  assert (Hlb : log_blocks hblk' 0 u = log_blocks hblk 0 u) by (apply log_blocks_cells; intros j Hj; apply Hc; lia).
  assert (Hlive : forall b, In b (log_blocks hblk 0 u) -> (b < length m)%nat).
  { intros b Hb0. unfold log_blocks in Hb0. apply in_flat_map in Hb0. destruct Hb0 as (i & Hi' & Hb0). apply in_seq in Hi'.
    apply (ent_blocks_live m hblk i (nth i (hist lb) dflt)); [apply He; lia|exact Hb0]. }
  assert (Hkeep : forall b, In b (log_blocks hblk 0 u) -> nth_error m' b = nth_error m b).
  { intros b Hb0. apply Hk; [apply Hlive; exact Hb0| | |].
    - intro X; subst. apply (Ho3 bl); [left; reflexivity|apply in_or_app; left; exact Hb0].
    - intro X; subst. apply (Ho3 bh); [right; left; reflexivity|apply in_or_app; left; exact Hb0].
    - apply Ho5. exact Hb0. }
  assert (Lf : length (firstn (hist_u lb) (hist lb)) = hist_u lb) by (rewrite firstn_length; fold n u; lia).
  assert (Nbh' : bh' <> bl /\ ~ In bh' (log_blocks hblk 0 u)).
  { destruct Hbh' as [->|Fr]; [split; [exact Nhl|]; intro X; apply (Ho3 bh); [right; left; reflexivity|apply in_or_app; left; exact X]|].
    split; [lia|]. intro X. apply Hlive in X. lia. }
  constructor; cbn [lbT ln hist hist_u hist_sz useq useq_zero useq_last]; rewrite ?Lf; fold u; try assumption;
    try (rewrite E by (unfold L_hist_u, L_ln_n, L_useq, L_hist, L_hist_sz, L_hist_n, L_useq_zero, L_useq_last; lia); assumption).
  - split; [exact Rq|]. split; [split; [lia|exact Hus]|]. split; assumption.
  - intros i Hi'. rewrite nth_firstn_lt' by exact Hi'.
    apply (ent_rep_cells m' hblk hblk' i); [|intros k Hk'; apply Hc; lia].
    apply (ent_rep_keeps m m' hblk i _ (He i ltac:(lia))). intros b Hb0. apply Hkeep. apply (in_log_blocks hblk i u b Hi' Hb0).
  - unfold owned. rewrite Hlb. change (bl :: bh' :: log_blocks hblk 0 u) with ([bl; bh'] ++ log_blocks hblk 0 u).
    apply NoDup_app_iff'. split; [constructor; [intros [X|[]]; apply (proj1 Nbh'); auto|constructor; [intros []|constructor]]|].
    split; [exact Ho2|]. intros x Hx X. destruct Hx as [<-|[<-|[]]]; [apply (Ho3 bl); [left; reflexivity|apply in_or_app; left; exact X]|apply (proj2 Nbh'); exact X].
  - exists fp. split.
    + rewrite (tcells_eq blk blk' L) by (intros j Hj; apply E; unfold L_hist, L_hist_sz, L_hist_n; lia).
      apply (TF m); [exact Ht|]. intros b Hb0. destruct (Hfp b Hb0) as (Hn & Hlv). apply Hk; [exact Hlv| | |].
      * intro X; subst. apply Hn. left. reflexivity.
      * intro X; subst. apply Hn. right. left. reflexivity.
      * intro X. apply Hn. right. right. apply in_or_app. right. exact X.
    + intros b Hb0. destruct (Hfp b Hb0) as (Hn & Hlv). split; [|lia]. unfold owned. rewrite Hlb.
      intros [X|[X|X]]; [apply Hn; left; exact X| |apply Hn; right; right; apply in_or_app; left; exact X].
      destruct Hbh' as [->|Fr]; [apply Hn; right; left; exact X|lia].
Qed.

(* ------------------------------------------------------------------ a record is appended (all four pointers NULL at first) *)
Definition push (lb : lbuf) (lo : lopt) : lbuf :=
  {| ln := ln lb; hist := hist lb ++ [lo]; hist_u := S (hist_u lb); hist_sz := hist_sz lb;
     useq := useq lb; useq_zero := useq_zero lb; useq_last := useq_last lb |}.

Lemma urep_push T (m : mem) bl (blk blk' : block) bh (hblk hblk' : block) lb lo :
  T_frame T -> urep T m bl blk bh hblk lb -> hist_u lb = length (hist lb) -> (length (hist lb) < hist_sz lb)%nat ->
  let u := length (hist lb) in
  length blk' = LBUF_CELLS -> ints_upto blk' 64 ->
  (forall j, (64 <= j)%nat -> j <> L_hist_n -> j <> L_hist_u -> nth_error blk' j = nth_error blk j) ->
  nth_error blk' L_hist_n = Some (VInt (Z.of_nat (S u))) -> nth_error blk' L_hist_u = Some (VInt (Z.of_nat (S u))) ->
  length hblk' = length hblk -> (forall k, ~ (9 * u <= k < 9 * u + 9)%nat -> hc hblk' k = hc hblk k) ->
  ent_rep (upd (upd m bh hblk') bl blk') hblk' u lo -> ent_blocks hblk' u = [] ->
  urep T (upd (upd m bh hblk') bl blk') bl blk' bh hblk' (push lb lo).
Proof.
  intros TF [Hb L I Cn Rn Cq Ch Csz Cnn Cu Cz Cl Rg Hh Hl He Ho (fp & Ht & Hfp)] Hun Hroom u L' I' E C71 C72 Ll Hc E' Hnil.
  destruct Rg as (Rq & (Ru & Rs) & Rz & Rsz).
  assert (Hbl : (bl < length m)%nat) by (apply nth_error_Some; congruence).
  assert (Hbh : (bh < length m)%nat) by (apply nth_error_Some; congruence).
  assert (Nhl : bh <> bl) by (intro X; subst; inversion Ho as [|? ? Hn _]; apply Hn; left; reflexivity).
  set (m' := upd (upd m bh hblk') bl blk') in *.
  assert (Lm1 : length (upd m bh hblk') = length m) by (apply upd_length; exact Hbh).
  assert (Lm' : length m' = length m) by (unfold m'; rewrite upd_length by (rewrite Lm1; exact Hbl); exact Lm1).
  assert (Hk : forall b, b <> bl -> b <> bh -> nth_error m' b = nth_error m b).
  { intros b N1 N2. unfold m'. rewrite mem_upd_other by (rewrite ?Lm1; assumption). apply mem_upd_other; assumption. }
  assert (Hlb : log_blocks hblk' 0 u = log_blocks hblk 0 u) by (apply log_blocks_cells; intros j Hj; apply Hc; lia).
  assert (Hnl : forall b, In b (log_blocks hblk 0 u) -> b <> bl /\ b <> bh).
  { intros b Hb0. unfold owned in Ho. inversion Ho as [|? ? N1 Ho']; subst. inversion Ho' as [|? ? N2 _]; subst. fold u in N1, N2.
    split; intro X; subst; [apply N1; right; exact Hb0|apply N2; exact Hb0]. }
  constructor; cbn [push ln hist hist_u hist_sz useq useq_zero useq_last]; rewrite ?app_length; cbn [length];
    replace (length (hist lb) + 1)%nat with (S u) by (unfold u; lia); rewrite ?Hun; fold u; try assumption;
    try (rewrite E by (unfold L_hist_u, L_ln_n, L_useq, L_hist, L_hist_sz, L_hist_n, L_useq_zero, L_useq_last; lia); assumption).
  - unfold m'. apply mem_upd_same. rewrite Lm1. exact Hbl.
  - split; [exact Rq|]. split; [split; [lia|fold u in Hroom; lia]|]. split; assumption.
  - unfold m'. rewrite mem_upd_other by (rewrite ?Lm1; assumption). apply mem_upd_same. exact Hbh.
  - rewrite Ll. exact Hl.
  - intros i Hi. destruct (Nat.eq_dec i u) as [->|Hne].
    + unfold u. rewrite app_nth2 by lia. rewrite Nat.sub_diag. exact E'.
    + assert (Hiu : (i < u)%nat) by lia. rewrite app_nth1 by (fold u; lia).
      apply (ent_rep_cells m' hblk hblk' i); [|intros k Hk'; apply Hc; lia].
      apply (ent_rep_keeps m m' hblk i _ (He i Hiu)). intros b Hb0.
      destruct (Hnl b (in_log_blocks hblk i u b Hiu Hb0)) as (N1 & N2). apply Hk; assumption.
  - unfold owned. rewrite log_blocks_snoc, Hlb, Hnil, app_nil_r. exact Ho.
  - exists fp. split.
    + rewrite (tcells_eq blk blk' L) by (intros j Hj; apply E; unfold L_hist_u, L_hist_n; lia).
      apply (TF m); [exact Ht|]. intros b Hb0. destruct (Hfp b Hb0) as (Hn & Hlv). apply Hk; intro X; subst; apply Hn; [left|right; left]; reflexivity.
    + intros b Hb0. destruct (Hfp b Hb0) as (Hn & Hlv). split; [|lia]. unfold owned. rewrite log_blocks_snoc, Hlb, Hnil, app_nil_r. exact Hn.
Qed.

(* ------------------------------------------------------------------ the newest record as nine explicit cells *)
Definition R9 (h : block) (u : nat) (r : list val) : block := put_cells h (9 * u) r.
Lemma nth_put_in {A} (l : list A) o vs k d : (o + length vs <= length l)%nat -> (k < length vs)%nat -> nth (o + k) (put_cells l o vs) d = nth k vs d.
Proof.
  intros H Hk. unfold put_cells. rewrite app_nth2 by (rewrite firstn_length; lia). rewrite firstn_length, Nat.min_l by lia.
  replace (o + k - o)%nat with k by lia. apply app_nth1. exact Hk.
Qed.
Lemma nth_skipn' {A} (l : list A) : forall n i d, nth i (skipn n l) d = nth (n + i) l d.
Proof. induction l as [|a l IH]; intros [|n] i d; try reflexivity; [destruct i; reflexivity|]. cbn [skipn]. apply IH. Qed.
Lemma nth_put_out {A} (l : list A) o vs k d : (o + length vs <= length l)%nat -> ~ (o <= k < o + length vs)%nat -> nth k (put_cells l o vs) d = nth k l d.
Proof.
  intros H Hk. unfold put_cells. destruct (Nat.lt_ge_cases k o) as [L|L].
  - rewrite app_nth1 by (rewrite firstn_length; lia). apply nth_firstn_lt'. exact L.
  - rewrite app_nth2 by (rewrite firstn_length; lia). rewrite firstn_length, Nat.min_l by lia.
    rewrite app_nth2 by lia. rewrite nth_skipn'. f_equal. lia.
Qed.
Lemma put_put {A} (l : list A) o vs vs' : (o + length vs <= length l)%nat -> length vs' = length vs -> put_cells (put_cells l o vs) o vs' = put_cells l o vs'.
Proof.
  intros H E. unfold put_cells at 1 3. rewrite firstn_put_cells by lia. f_equal. f_equal.
  unfold put_cells. rewrite skipn_app, firstn_length, Nat.min_l by lia. rewrite skipn_all2 by (rewrite firstn_length; lia). cbn [app].
  replace (o + length vs' - o)%nat with (length vs') by lia. rewrite skipn_app, E. rewrite skipn_all2 by lia. cbn [app].
  rewrite Nat.sub_diag. reflexivity.
Qed.
Lemma upd_cons_S {A} (a : A) l n v : upd (a :: l) (S n) v = a :: upd l n v.
Proof. reflexivity. Qed.
Lemma upd_app_mid {A} (X B C : list A) k v : (k < length B)%nat -> upd (X ++ B ++ C) (length X + k) v = X ++ upd B k v ++ C.
Proof.
  intro Hk. induction X as [|a X IH]; cbn [app length Nat.add].
  - unfold upd. rewrite firstn_app, skipn_app. replace (k - length B)%nat with 0%nat by lia. replace (S k - length B)%nat with 0%nat by lia.
    cbn [firstn skipn]. rewrite app_nil_r, <- app_assoc. reflexivity.
  - rewrite upd_cons_S, IH. reflexivity.
Qed.
Lemma upd_put {A} (l : list A) o vs k v : (o + length vs <= length l)%nat -> (k < length vs)%nat ->
  upd (put_cells l o vs) (o + k) v = put_cells l o (upd vs k v).
Proof.
  intros H Hk. unfold put_cells. rewrite upd_length by exact Hk.
  replace (o + k)%nat with (length (firstn o l) + k)%nat by (rewrite firstn_length; lia). apply upd_app_mid. exact Hk.
Qed.
Lemma R9_length h u r : (9 * u + length r <= length h)%nat -> length (R9 h u r) = length h.
Proof. apply put_cells_length. Qed.
Lemma hc_R9_in h u r k : (9 * u + 9 <= length h)%nat -> length r = 9%nat -> (k < 9)%nat -> hc (R9 h u r) (9 * u + k) = nth k r VUndef.
Proof. intros H L Hk. unfold hc, R9. apply nth_put_in; lia. Qed.
Lemma hc_R9_out h u r k : (9 * u + 9 <= length h)%nat -> length r = 9%nat -> ~ (9 * u <= k < 9 * u + 9)%nat -> hc (R9 h u r) k = hc h k.
Proof. intros H L Hk. unfold hc, R9. apply nth_put_out; lia. Qed.
Lemma R9_R9 h u r r' : (9 * u + 9 <= length h)%nat -> length r = 9%nat -> length r' = 9%nat -> R9 (R9 h u r) u r' = R9 h u r'.
Proof. intros H L L'. unfold R9. apply put_put; lia. Qed.
Lemma upd_R9 h u r k v : (9 * u + 9 <= length h)%nat -> length r = 9%nat -> (k < 9)%nat -> upd (R9 h u r) (9 * u + k) v = R9 h u (upd r k v).
Proof. intros H L Hk. unfold R9. apply upd_put; lia. Qed.

Definition mark_cells (m : mem) (c7 c8 : val) : Prop :=
  (c7 = VInt 0 /\ c8 = VInt 0) \/ (exists bm bo, c7 = VPtr bm 0 /\ c8 = VPtr bo 0 /\ marr m bm bo).
Lemma ent_rep_R9 (m : mem) h u c0 c1 c2 c3 c4 c5 c6 c7 c8 lo : (9 * u + 9 <= length h)%nat ->
  sown m c0 (ins lo) -> sown m c1 (del lo) -> c2 = VInt (Z.of_nat (pos lo)) -> c3 = VInt (Z.of_nat (n_ins lo)) ->
  c4 = VInt (Z.of_nat (n_del lo)) -> (exists z, c5 = VInt z) -> c6 = VInt (seq lo) -> mark_cells m c7 c8 ->
  i31 (pos lo) /\ i31 (n_ins lo) /\ i31 (n_del lo) /\ i32 (seq lo) ->
  ent_rep m (R9 h u [c0; c1; c2; c3; c4; c5; c6; c7; c8]) u lo.
Proof.
  intros H H0 H1 H2 H3 H4 H5 H6 H7 H8.
  pose proof (hc_R9_in h u [c0; c1; c2; c3; c4; c5; c6; c7; c8] 0 H eq_refl ltac:(lia)) as E0. rewrite Nat.add_0_r in E0.
  constructor; unfold mark_part; rewrite ?E0, ?(hc_R9_in h u _ 1), ?(hc_R9_in h u _ 2), ?(hc_R9_in h u _ 3), ?(hc_R9_in h u _ 4),
    ?(hc_R9_in h u _ 5), ?(hc_R9_in h u _ 6), ?(hc_R9_in h u _ 7), ?(hc_R9_in h u _ 8) by (try reflexivity; lia); cbn [nth]; assumption.
Qed.
Lemma ent_blocks_R9 h u c0 c1 c2 c3 c4 c5 c6 c7 c8 : (9 * u + 9 <= length h)%nat ->
  ent_blocks (R9 h u [c0; c1; c2; c3; c4; c5; c6; c7; c8]) u = ptr_block c0 ++ ptr_block c1 ++ ptr_block c7 ++ ptr_block c8.
Proof.
  intro H. rewrite ent_blocks_eq.
  pose proof (hc_R9_in h u [c0; c1; c2; c3; c4; c5; c6; c7; c8] 0 H eq_refl ltac:(lia)) as E0. rewrite Nat.add_0_r in E0.
  rewrite E0, (hc_R9_in h u _ 1), (hc_R9_in h u _ 7), (hc_R9_in h u _ 8) by (try reflexivity; lia). reflexivity.
Qed.

Lemma ent_rep_R9_inv (m : mem) h u c0 c1 c2 c3 c4 c5 c6 c7 c8 lo : (9 * u + 9 <= length h)%nat ->
  ent_rep m (R9 h u [c0; c1; c2; c3; c4; c5; c6; c7; c8]) u lo ->
  sown m c0 (ins lo) /\ sown m c1 (del lo) /\ c2 = VInt (Z.of_nat (pos lo)) /\ c3 = VInt (Z.of_nat (n_ins lo)) /\
  c4 = VInt (Z.of_nat (n_del lo)) /\ (exists z, c5 = VInt z) /\ c6 = VInt (seq lo) /\ mark_cells m c7 c8 /\
  (i31 (pos lo) /\ i31 (n_ins lo) /\ i31 (n_del lo) /\ i32 (seq lo)).
Proof.
  intros H [H0 H1 H2 H3 H4 H5 H6 H7 H8]. unfold mark_part in H7.
  pose proof (hc_R9_in h u [c0; c1; c2; c3; c4; c5; c6; c7; c8] 0 H eq_refl ltac:(lia)) as E0. rewrite Nat.add_0_r in E0.
  rewrite ?E0, ?(hc_R9_in h u _ 1), ?(hc_R9_in h u _ 2), ?(hc_R9_in h u _ 3), ?(hc_R9_in h u _ 4),
    ?(hc_R9_in h u _ 5), ?(hc_R9_in h u _ 6), ?(hc_R9_in h u _ 7), ?(hc_R9_in h u _ 8) in * by (try reflexivity; lia).
  cbn [nth] in *. unfold mark_cells. destruct H8 as (H8a & H8b & H8c & H8d). repeat (split; [assumption|]). assumption.
Qed.
Lemma mark_cells_keeps (m m' : mem) c7 c8 : mark_cells m c7 c8 -> keeps (ptr_block c7 ++ ptr_block c8) m m' -> mark_cells m' c7 c8.
Proof.
  intros [H|(bm & bo & -> & -> & H)] K; [left; exact H|]. right. exists bm, bo. split; [reflexivity|]. split; [reflexivity|].
  apply (marr_keeps m m'); [exact H| |]; apply K; cbn; auto.
Qed.

(* the newest record (nine explicit cells) changes: the generic step of the append *)
Lemma push_upd T (m m' : mem) bl (blk : block) bh (h0 : block) lb lo lo' (r r' : list val) :
  T_frame T -> let u := length (hist lb) in urep T m bl blk bh (R9 h0 u r) (push lb lo) ->
  (9 * u + 9 <= length h0)%nat -> length r = 9%nat -> length r' = 9%nat ->
  nth_error m' bh = Some (R9 h0 u r') -> (length m <= length m')%nat ->
  (forall b, (b < length m)%nat -> b <> bh -> ~ In b (ent_blocks (R9 h0 u r) u) -> nth_error m' b = nth_error m b) ->
  ent_rep m' (R9 h0 u r') u lo' -> NoDup (ent_blocks (R9 h0 u r') u) ->
  (forall b, In b (ent_blocks (R9 h0 u r') u) -> In b (ent_blocks (R9 h0 u r) u) \/ (length m <= b < length m')%nat) ->
  urep T m' bl blk bh (R9 h0 u r') (push lb lo').
Proof.
  intros TF u R Hlen Lr Lr' Hh' Hl Hk E' Nd Hfr.
  change (push lb lo') with (with_hist (push lb lo) (hist lb ++ [lo'])).
  apply (urep_last T m m' bl blk bh (R9 h0 u r) (R9 h0 u r') (push lb lo) (hist lb) lo lo' TF R eq_refl); fold u; try assumption.
  - rewrite !R9_length by lia. reflexivity.
  - intros k Hk'. rewrite !hc_R9_out by assumption. reflexivity.
Qed.

(* what one step of the append does to the memory: the struct, the hist array, the record's own blocks and fresh blocks only *)
Definition sframe (bl bh : nat) (m m' : mem) (B B' : list nat) : Prop :=
  (length m <= length m')%nat /\
  (forall b, (b < length m)%nat -> b <> bl -> b <> bh -> ~ In b B -> nth_error m' b = nth_error m b) /\
  (forall b, In b B' -> In b B \/ (length m <= b < length m')%nat).
Lemma sframe_refl bl bh m B : sframe bl bh m m B B.
Proof. split; [lia|]. split; [reflexivity|]. intros b Hb. left. exact Hb. Qed.
Lemma sframe_trans bl bh m m' m'' B B' B'' : sframe bl bh m m' B B' -> sframe bl bh m' m'' B' B'' -> sframe bl bh m m'' B B''.
Proof.
  intros (L1 & F1 & N1) (L2 & F2 & N2). split; [lia|]. split.
  - intros b Hb N3 N4 N5. rewrite F2; [apply F1; assumption|lia|assumption|assumption|].
    intro X. destruct (N1 b X) as [Y|Y]; [contradiction|lia].
  - intros b Hb. destruct (N2 b Hb) as [Y|Y]; [|right; lia]. destruct (N1 b Y) as [Z|Z]; [left; exact Z|right; lia].
Qed.

(* the text argument of lbuf_edit: NULL, or a pointer into a block that holds exactly a C string, outside struct and hist array *)
Definition bufarg (m : mem) (bl bh : nat) (v : val) (buf : option (list N)) : Prop :=
  match buf with
  | None => v = VInt 0
  | Some t => exists bb s o, v = VPtr bb (Z.of_nat o) /\ str_at m bb s /\ nonul s /\ (o <= length s)%nat /\
                             Z.of_nat (length s) <= 2147483647 /\ t = skipn o s /\ bb <> bl /\ bb <> bh
  end.
Lemma bufarg_frame (m m' : mem) bl bh v buf : bufarg m bl bh v buf ->
  (forall b, (b < length m)%nat -> b <> bl -> b <> bh -> nth_error m' b = nth_error m b) -> bufarg m' bl bh v buf.
Proof.
  destruct buf as [t|]; [|auto]. intros (bb & s & o & -> & Hs & Hn & Ho & Hm & -> & N1 & N2) K.
  exists bb, s, o. repeat split; try assumption. unfold str_at in *. rewrite K; [exact Hs|apply nth_error_Some; congruence|exact N1|exact N2].
Qed.

(* the same step when the memory was only extended before the hist array is stored into *)
Lemma push_cells T (m m1 : mem) bl (blk : block) bh (h0 : block) lb lo lo' (r r' : list val) :
  T_frame T -> let u := length (hist lb) in let m' := upd m1 bh (R9 h0 u r') in
  urep T m bl blk bh (R9 h0 u r) (push lb lo) -> (9 * u + 9 <= length h0)%nat -> length r = 9%nat -> length r' = 9%nat ->
  (length m <= length m1)%nat -> (forall b, (b < length m)%nat -> nth_error m1 b = nth_error m b) ->
  (keeps (ent_blocks (R9 h0 u r) u) m m' -> ent_rep m' (R9 h0 u r') u lo') ->
  NoDup (ent_blocks (R9 h0 u r') u) ->
  (forall b, In b (ent_blocks (R9 h0 u r') u) -> In b (ent_blocks (R9 h0 u r) u) \/ (length m <= b < length m1)%nat) ->
  urep T m' bl blk bh (R9 h0 u r') (push lb lo') /\ sframe bl bh m m' (ent_blocks (R9 h0 u r) u) (ent_blocks (R9 h0 u r') u).
Proof.
  intros TF u m' R Hlen Lr Lr' Hl Hk1 HE Nd Hfr. pose proof R as [Hb L I Cn Rn Cq Ch Csz Cnn Cu Cz Cl Rg Hh Hl0 He Ho Ht].
  assert (Hbh : (bh < length m)%nat) by (apply nth_error_Some; congruence).
  assert (Hbh1 : (bh < length m1)%nat) by lia.
  assert (Lm' : length m' = length m1) by (unfold m'; apply upd_length; exact Hbh1).
  assert (Hu : (u < length (hist (push lb lo)))%nat) by (cbn [push hist]; rewrite app_length; cbn [length]; fold u; lia).
  pose proof (He u Hu) as E. cbn [push hist] in E. unfold u in E at 2. rewrite app_nth2 in E by lia. rewrite Nat.sub_diag in E. cbn [nth] in E.
  assert (K1 : forall b, (b < length m)%nat -> b <> bh -> nth_error m' b = nth_error m b).
  { intros b Hb0 Nb. unfold m'. rewrite mem_upd_other by (try lia; exact Nb). apply Hk1. exact Hb0. }
  assert (KE : keeps (ent_blocks (R9 h0 u r) u) m m').
  { intros b Hb0. apply K1; [apply (ent_blocks_live m (R9 h0 u r) u lo b E Hb0)|].
    intro X; subst. unfold owned in Ho. inversion Ho as [|? ? _ Ho']; subst. inversion Ho' as [|? ? Hn _]; subst. apply Hn.
    cbn [push hist]. rewrite app_length. cbn [length]. apply (in_log_blocks _ u); [fold u; lia|exact Hb0]. }
  split.
  - apply (push_upd T m m' bl blk bh h0 lb lo lo' r r' TF R Hlen Lr Lr').
    + unfold m'. apply mem_upd_same. exact Hbh1.
    + lia.
    + intros b Hb0 Nb _. apply K1; assumption.
    + apply HE. exact KE.
    + exact Nd.
    + intros b Hb0. rewrite Lm'. apply Hfr. exact Hb0.
  - split; [lia|]. split; [intros b Hb0 _ Nb _; apply K1; assumption|]. intros b Hb0. rewrite Lm'. apply Hfr. exact Hb0.
Qed.
(* the record's blocks are pairwise distinct *)
Lemma rec_nodup T (m : mem) bl (blk : block) bh (h0 : block) lb lo (r : list val) : let u := length (hist lb) in
  urep T m bl blk bh (R9 h0 u r) (push lb lo) -> NoDup (ent_blocks (R9 h0 u r) u).
Proof.
  intros u R. pose proof (u_own _ _ _ _ _ _ _ R) as Ho. unfold owned in Ho. cbn [push hist] in Ho. rewrite app_length in Ho. cbn [length] in Ho.
  replace (length (hist lb) + 1)%nat with (S u) in Ho by (unfold u; lia).
  rewrite log_blocks_snoc in Ho. inversion Ho as [|? ? _ Ho']; subst. inversion Ho' as [|? ? _ Ho'']; subst.
  apply NoDup_app_iff' in Ho''. tauto.
Qed.
Lemma rec_ent T (m : mem) bl (blk : block) bh (h0 : block) lb lo (r : list val) : let u := length (hist lb) in
  urep T m bl blk bh (R9 h0 u r) (push lb lo) -> ent_rep m (R9 h0 u r) u lo.
Proof.
  intros u R. assert (Hu : (u < length (hist (push lb lo)))%nat) by (cbn [push hist]; rewrite app_length; cbn [length]; fold u; lia).
  pose proof (u_ents _ _ _ _ _ _ _ R u Hu) as E. cbn [push hist] in E. unfold u in E at 2. rewrite app_nth2 in E by lia. rewrite Nat.sub_diag in E. exact E.
Qed.

Lemma upd_comm {A} (m : list A) : forall a b x y, a <> b -> (a < length m)%nat -> (b < length m)%nat ->
  upd (upd m a x) b y = upd (upd m b y) a x.
Proof.
  induction m as [|c m IH]; intros a b x y Hne Ha Hb; cbn [length] in *; [lia|].
  destruct a as [|a], b as [|b]; try lia; try reflexivity.
  change (upd (c :: m) (S a) x) with (c :: upd m a x). change (upd (c :: m) (S b) y) with (c :: upd m b y).
  change (upd (c :: upd m a x) (S b) y) with (c :: upd (upd m a x) b y). change (upd (c :: upd m b y) (S a) x) with (c :: upd (upd m b y) a x).
  f_equal. apply IH; lia.
Qed.
Lemma nth_error_app_new' {A} (m : list A) x n : n = length m -> nth_error (m ++ [x]) n = Some x.
Proof. intros ->. apply nth_error_app_new. Qed.

(* ------------------------------------------------------------------ the statements of lbuf_opt *)
Definition opt_body : stmt := fn_body cf_lbuf_opt.
Definition opt_drop : stmt := match opt_body with SSeq a _ => a | _ => SSkip end.
Definition opt_drop_loop : stmt := match opt_drop with SSeq _ l => l | _ => SSkip end.
Definition opt_rest1 : stmt := match opt_body with SSeq _ r => r | _ => SSkip end.          (* hist_n = hist_u; grow; append *)
Definition opt_setn : stmt := match opt_rest1 with SSeq a _ => a | _ => SSkip end.
Definition opt_rest2 : stmt := match opt_rest1 with SSeq _ r => r | _ => SSkip end.
Definition opt_grow : stmt := match opt_rest2 with SSeq a _ => a | _ => SSkip end.
Definition opt_rest3 : stmt := match opt_rest2 with SSeq _ r => r | _ => SSkip end.          (* the append *)
Lemma opt_body_eq : opt_body = SSeq opt_drop (SSeq opt_setn (SSeq opt_grow opt_rest3)). Proof. reflexivity. Qed.

Definition sD1 : stmt := match opt_rest3 with SSeq a _ => a | _ => SSkip end.
Definition opt_t1 : stmt := match opt_rest3 with SSeq _ r => r | _ => SSkip end.
Definition sD2 : stmt := match opt_t1 with SSeq a _ => a | _ => SSkip end.
Definition opt_t2 : stmt := match opt_t1 with SSeq _ r => r | _ => SSkip end.
Definition sD3 : stmt := match opt_t2 with SSeq a _ => a | _ => SSkip end.
Definition opt_t3 : stmt := match opt_t2 with SSeq _ r => r | _ => SSkip end.
Definition sE1 : stmt := match opt_t3 with SSeq a _ => a | _ => SSkip end.
Definition opt_t4 : stmt := match opt_t3 with SSeq _ r => r | _ => SSkip end.
Definition sE2 : stmt := match opt_t4 with SSeq a _ => a | _ => SSkip end.
Definition opt_t5 : stmt := match opt_t4 with SSeq _ r => r | _ => SSkip end.
Definition sE3 : stmt := match opt_t5 with SSeq a _ => a | _ => SSkip end.
Definition opt_t6 : stmt := match opt_t5 with SSeq _ r => r | _ => SSkip end.
Definition sF : stmt := match opt_t6 with SSeq a _ => a | _ => SSkip end.
Definition opt_t7 : stmt := match opt_t6 with SSeq _ r => r | _ => SSkip end.
Definition sG : stmt := match opt_t7 with SSeq a _ => a | _ => SSkip end.
Definition opt_t8 : stmt := match opt_t7 with SSeq _ r => r | _ => SSkip end.
Definition sH : stmt := match opt_t8 with SSeq a _ => a | _ => SSkip end.
Definition opt_t9 : stmt := match opt_t8 with SSeq _ r => r | _ => SSkip end.
Definition sI : stmt := match opt_t9 with SSeq a _ => a | _ => SSkip end.
Definition opt_t10 : stmt := match opt_t9 with SSeq _ r => r | _ => SSkip end.
Definition sJ : stmt := match opt_t10 with SSeq a _ => a | _ => SSkip end.
Definition opt_t11 : stmt := match opt_t10 with SSeq _ r => r | _ => SSkip end.
Definition sK : stmt := opt_t11.
Lemma opt_rest3_eq : opt_rest3 = SSeq sD1 (SSeq sD2 (SSeq sD3 (SSeq sE1 (SSeq sE2 (SSeq sE3 (SSeq sF (SSeq sG (SSeq sH (SSeq sI (SSeq sJ sK)))))))))). Proof. reflexivity. Qed.
Lemma x_lbuf_cp_none : nth_error cprog X_lbuf_cp = None. Proof. vm_compute. reflexivity. Qed.

Section Opt.
  Variable ext : nat -> list val -> mem -> res (val * mem).
  Variables (d fuel : nat).
  Let cx := callx ext cprog fuel (S (S (S d))).

  (* for (i = lb->hist_u; i < lb->hist_n; i++) lopt_done(&lb->hist[i]); *)
  Lemma opt_drop_loop_ok bl (blk : block) bh (hblk : block) n (bufv pv ndv l4 l6 l7 : val) :
    nth_error blk L_hist_n = Some (VInt (Z.of_nat n)) -> nth_error blk L_hist = Some (VPtr bh 0) ->
    (9 * n <= length hblk)%nat -> Z.of_nat n <= 2147483647 ->
    forall k i (m m1 : mem) fuel', (i + k = n)%nat -> nth_error m bl = Some blk -> nth_error m bh = Some hblk ->
    TrLbuf.avoids (TrLbuf.ptrs_from hblk i k) [bl; bh] -> TrLbuf.free_list (TrLbuf.ptrs_from hblk i k) m = Ok m1 -> (k < fuel')%nat ->
    exec cx fuel' opt_drop_loop (mkst [VPtr bl 0; bufv; pv; ndv; l4; VInt (Z.of_nat i); l6; l7] m)
    = ONormal (mkst [VPtr bl 0; bufv; pv; ndv; l4; VInt (Z.of_nat n); l6; l7] m1).
  Proof.
    intros Hn Hp Hlen Hmax. induction k as [|k IH]; intros i m m1 fuel' Hik Hb Hh Ha Hf Hfu; (destruct fuel' as [|fuel']; [lia|]);
      unfold opt_drop_loop, opt_drop, opt_body; cbn [fn_body cf_lbuf_opt]; rewrite exec_for; xstep; xfld Hb Hn;
      rewrite wrap_I32_id by lia.
    - assert (i = n) by lia. subst i. destruct (Z.ltb_spec (Z.of_nat n) (Z.of_nat n)); [lia|]. xstep.
      cbn in Hf. injection Hf as <-. reflexivity.
    - destruct (Z.ltb_spec (Z.of_nat i) (Z.of_nat n)); [|lia]. xstep. xfld Hb Hp.
      unfold TrLbuf.ptrs_from in Hf, Ha. cbn [List.seq flat_map] in Hf, Ha. fold (TrLbuf.ptrs_from hblk (S i) k) in Hf, Ha.
      rewrite TrLbuf.free_list_app in Hf. destruct (TrLbuf.free_list (TrLbuf.ent_ptrs hblk i) m) as [ma|] eqn:E; [|discriminate].
      destruct (TrLbuf.avoids_app _ _ _ Ha) as [A1 A2].
      assert (A1h : TrLbuf.avoids (TrLbuf.ent_ptrs hblk i) [bh]).
      { intros v b Hin Hv Hk. apply (A1 v b Hin Hv). destruct Hk as [<-|[]]. right; left; reflexivity. }
      replace (0 + 9 * Z.of_nat i) with (Z.of_nat (9 * i)) by lia.
      unfold cx at 1. rewrite (callx_mono ext _ _ _ _ _ _ _ (TrLbuf.tr_lopt_done m bh hblk i ma (S (S d)) fuel Hh ltac:(lia) A1h E)). xstep.
      rewrite chk_I32 by lia. xstep. replace (Z.of_nat i + 1) with (Z.of_nat (S i)) by lia.
      assert (Hb' : nth_error ma bl = Some blk) by (rewrite (TrLbuf.free_list_keeps _ m ma [bl; bh] bl E A1 (or_introl eq_refl)); exact Hb).
      assert (Hh' : nth_error ma bh = Some hblk) by (rewrite (TrLbuf.free_list_keeps _ m ma [bl; bh] bh E A1 (or_intror (or_introl eq_refl))); exact Hh).
      specialize (IH (S i) ma m1 fuel' ltac:(lia) Hb' Hh' A2 Hf ltac:(lia)).
      unfold opt_drop_loop, opt_drop, opt_body in IH; cbn [fn_body cf_lbuf_opt] in IH. exact IH.
  Qed.
  Variable T : Tpred.
  Hypothesis TF : T_frame T.

  (* the whole first statement: every block the redo branch owns is emptied, nothing else changes *)
  Lemma opt_drop_ok (m : mem) bl (blk : block) bh (hblk : block) lb (bufv pv ndv l4 l5 l6 l7 : val) :
    urep T m bl blk bh hblk lb -> (length (hist lb) - hist_u lb < fuel)%nat ->
    let D := log_blocks hblk (hist_u lb) (length (hist lb) - hist_u lb) in
    exec cx fuel opt_drop (mkst [VPtr bl 0; bufv; pv; ndv; l4; l5; l6; l7] m)
    = ONormal (mkst [VPtr bl 0; bufv; pv; ndv; l4; VInt (Z.of_nat (length (hist lb))); l6; l7] (free_blocks D m)) /\
    NoDup D /\ all_live D m /\ ~ In bl D /\ ~ In bh D.
  Proof.
    intros [Hb L I Cn Rn Cq Ch Csz Cnn Cu Cz Cl Rg Hh Hl He Ho Ht] Hf D. destruct Rg as (Rq & (Ru & Rs) & Rz & Rsz).
    set (u := hist_u lb) in *. set (n := length (hist lb)) in *.
    unfold owned in Ho. rewrite (log_blocks_split hblk u n Ru) in Ho. fold D in Ho.
    change (bl :: bh :: log_blocks hblk 0 u ++ D) with ([bl; bh] ++ log_blocks hblk 0 u ++ D) in Ho.
    apply NoDup_app_iff' in Ho. destruct Ho as (Ho1 & Ho2 & Ho3). apply NoDup_app_iff' in Ho2. destruct Ho2 as (Ho2 & Ho4 & Ho5).
    assert (NblD : ~ In bl D) by (intro X; apply (Ho3 bl); [left; reflexivity|apply in_or_app; right; exact X]).
    assert (NbhD : ~ In bh D) by (intro X; apply (Ho3 bh); [right; left; reflexivity|apply in_or_app; right; exact X]).
    assert (HF : Forall (freeable m) (TrLbuf.ptrs_from hblk u (n - u))) by (apply (ptrs_freeable m hblk (hist lb)); intros j Hj; apply He; lia).
    assert (Hfl : TrLbuf.free_list (TrLbuf.ptrs_from hblk u (n - u)) m = Ok (free_blocks D m)).
    { rewrite (free_list_ok _ m HF) by (rewrite ptrs_blocks; exact Ho4). rewrite ptrs_blocks. reflexivity. }
    assert (Hav : TrLbuf.avoids (TrLbuf.ptrs_from hblk u (n - u)) [bl; bh]).
    { intros v b Hin Hv Hk. assert (In b D).
      { unfold D. rewrite <- ptrs_blocks. apply in_flat_map. exists v. split; [exact Hin|]. destruct v; try discriminate. injection Hv as <-. left. reflexivity. }
      destruct Hk as [<-|[<-|[]]]; contradiction. }
    assert (Hlive : all_live D m).
    { intros b Hb0. unfold D, log_blocks in Hb0. apply in_flat_map in Hb0. destruct Hb0 as (i & Hi & Hb0). apply in_seq in Hi.
      apply (ent_blocks_live m hblk i (nth i (hist lb) dflt)); [apply He; lia|exact Hb0]. }
    split; [|auto].
    unfold opt_drop, opt_body; cbn [fn_body cf_lbuf_opt]. rewrite exec_seq. xstep. xfld Hb Cu. rewrite wrap_I32_id by (unfold i31 in *; lia).
    pose proof (opt_drop_loop_ok bl blk bh hblk n bufv pv ndv l4 l6 l7 Cnn Ch ltac:(lia) ltac:(unfold i31 in *; lia)
                  (n - u)%nat u m (free_blocks D m) fuel ltac:(lia) Hb Hh Hav Hfl Hf) as X.
    unfold opt_drop_loop, opt_drop, opt_body in X; cbn [fn_body cf_lbuf_opt] in X. exact X.
  Qed.
  (* lb->hist_n = lb->hist_u;  if (lb->hist_n == lb->hist_sz) { grow } *)
  Lemma opt_setn_grow_ok (m1 : mem) bl (blk : block) bh (hblk : block) u n sz (bufv pv ndv l4 l5 l6 l7 : val) :
    nth_error m1 bl = Some blk -> length blk = LBUF_CELLS -> bh <> bl -> nth_error m1 bh = Some hblk ->
    length hblk = (9 * sz)%nat -> (0 < sz)%nat -> (u <= sz)%nat -> Z.of_nat sz * 2 <= 2147483647 ->
    nth_error blk L_hist = Some (VPtr bh 0) -> nth_error blk L_hist_sz = Some (VInt (Z.of_nat sz)) ->
    nth_error blk L_hist_n = Some (VInt (Z.of_nat n)) -> nth_error blk L_hist_u = Some (VInt (Z.of_nat u)) ->
    let sz' := if Nat.eqb u sz then (sz + sz)%nat else sz in
    let blkB := upd blk L_hist_n (VInt (Z.of_nat u)) in
    exists (m' : mem) (blk' : block) bh' (hblk' : block) (v6 v7 : val),
      exec cx fuel opt_setn (mkst [VPtr bl 0; bufv; pv; ndv; l4; l5; l6; l7] m1)
        = ONormal (mkst [VPtr bl 0; bufv; pv; ndv; l4; l5; l6; l7] (upd m1 bl blkB)) /\
      exec cx fuel opt_grow (mkst [VPtr bl 0; bufv; pv; ndv; l4; l5; l6; l7] (upd m1 bl blkB))
        = ONormal (mkst [VPtr bl 0; bufv; pv; ndv; l4; l5; v6; v7] m') /\
      nth_error m' bl = Some blk' /\ length blk' = LBUF_CELLS /\
      (forall j, j <> L_hist -> j <> L_hist_sz -> j <> L_hist_n -> nth_error blk' j = nth_error blk j) /\
      nth_error blk' L_hist = Some (VPtr bh' 0) /\ nth_error blk' L_hist_sz = Some (VInt (Z.of_nat sz')) /\
      nth_error blk' L_hist_n = Some (VInt (Z.of_nat u)) /\
      nth_error m' bh' = Some hblk' /\ length hblk' = (9 * sz')%nat /\ (forall j, (j < 9 * u)%nat -> hc hblk' j = hc hblk j) /\
      (bh' = bh \/ (length m1 <= bh')%nat) /\ (length m1 <= length m')%nat /\
      (forall b, (b < length m1)%nat -> b <> bl -> b <> bh -> nth_error m' b = nth_error m1 b) /\
      (bh' <> bh -> nth_error m' bh = Some []).
  Proof.
    intros Hb L Nhl Hh Hl Hz Hus Hmax C69 C70 C71 C72 sz' blkB.
    assert (Hbl : (bl < length m1)%nat) by (apply nth_error_Some; congruence).
    assert (Hbh : (bh < length m1)%nat) by (apply nth_error_Some; congruence).
    assert (LB : length blkB = LBUF_CELLS) by (unfold blkB; rewrite upd_length; [exact L|rewrite L; unfold LBUF_CELLS, L_hist_n; lia]).
    assert (HbB : nth_error (upd m1 bl blkB) bl = Some blkB) by (apply mem_upd_same; exact Hbl).
    assert (CB : forall j, j <> L_hist_n -> nth_error blkB j = nth_error blk j).
    { intros j Hj. unfold blkB. apply nth_error_upd_other; [rewrite L; unfold LBUF_CELLS, L_hist_n; lia|exact Hj]. }
    assert (CB71 : nth_error blkB L_hist_n = Some (VInt (Z.of_nat u))) by (unfold blkB; apply nth_error_upd_same; rewrite L; unfold LBUF_CELLS, L_hist_n; lia).
    assert (Esetn : exec cx fuel opt_setn (mkst [VPtr bl 0; bufv; pv; ndv; l4; l5; l6; l7] m1)
                    = ONormal (mkst [VPtr bl 0; bufv; pv; ndv; l4; l5; l6; l7] (upd m1 bl blkB))).
    { unfold opt_setn, opt_rest1, opt_body; cbn [fn_body cf_lbuf_opt]. xstep. xfld Hb C72. rewrite !(wrap_I32_id (Z.of_nat u)) by lia.
      rewrite (fld_store m1 bl blk L_hist_n _ _ Hb) by (try reflexivity; rewrite L; unfold LBUF_CELLS, L_hist_n; lia). reflexivity. }
    unfold opt_grow, opt_rest2, opt_rest1, opt_body; cbn [fn_body cf_lbuf_opt]. rewrite exec_if. xstep.
    xfld HbB CB71. assert (CB70 : nth_error blkB L_hist_sz = Some (VInt (Z.of_nat sz))) by (rewrite CB by (unfold L_hist_sz, L_hist_n; lia); exact C70).
    xfld HbB CB70. rewrite !wrap_I32_id by lia.
    destruct (Nat.eqb_spec u sz) as [Eus|Nus].
    2:{ (* room left *)
      destruct (Z.eqb_spec (Z.of_nat u) (Z.of_nat sz)); [lia|]. xstep.
      exists (upd m1 bl blkB), blkB, bh, hblk, l6, l7. split; [exact Esetn|]. split; [reflexivity|]. split; [exact HbB|]. split; [exact LB|].
      split; [intros j _ _ Hj; apply CB; exact Hj|]. split; [rewrite CB by (unfold L_hist, L_hist_n; lia); exact C69|].
      split; [exact CB70|]. split; [exact CB71|]. split; [rewrite mem_upd_other by assumption; exact Hh|]. split; [exact Hl|].
      split; [reflexivity|]. split; [left; reflexivity|]. split; [rewrite upd_length by exact Hbl; lia|].
      split; [intros b _ Nb _; apply mem_upd_other; assumption|]. intro X. congruence. }
    subst u. rewrite Z.eqb_refl. xstep.
    xfld HbB CB70. xfld HbB CB70. rewrite !(wrap_I32_id (Z.of_nat sz)) by lia.
    replace (Z.of_nat sz =? 0) with false by (symmetry; apply Z.eqb_neq; lia). xstep.
    xfld HbB CB70. rewrite !(wrap_I32_id (Z.of_nat sz)) by lia. rewrite chk_I32 by lia. xstep.
    set (z2 := Z.of_nat sz + Z.of_nat sz).
    rewrite (wrap_U64_id z2) by (unfold z2; lia). rewrite chk_U64 by (unfold z2; lia). xstep. rewrite chk_U64 by (unfold z2; lia). xstep.
    change (56 =? 0) with false. cbv iota. replace (z2 * 56 * 9) with (z2 * 9 * 56) by lia. rewrite Z.quot_mul by lia.
    rewrite chk_U64 by (unfold z2; lia). xstep. rewrite malloc_ok by (unfold z2; lia). xstep.
    set (mB := upd m1 bl blkB) in *. set (U := repeat VUndef (Z.to_nat (z2 * 9))).
    assert (LmB : length mB = length m1) by (apply upd_length; exact Hbl).
    assert (LU : length U = (9 * (sz + sz))%nat) by (unfold U, z2; rewrite repeat_length; lia).
    assert (HhB : nth_error mB bh = Some hblk) by (unfold mB; rewrite mem_upd_other by assumption; exact Hh).
    assert (Hbl1 : nth_error (mB ++ [U]) bl = Some blkB) by (rewrite nth_error_app_old by lia; exact HbB).
    assert (CB69 : nth_error blkB L_hist = Some (VPtr bh 0)) by (rewrite CB by (unfold L_hist, L_hist_n; lia); exact C69).
    xfld Hbl1 CB69. xfld Hbl1 CB71. rewrite !(wrap_I32_id (Z.of_nat sz)) by lia. rewrite (wrap_U64_id (Z.of_nat sz)) by lia.
    rewrite chk_U64 by lia. xstep. rewrite chk_U64 by lia. xstep.
    change (56 =? 0) with false. cbv iota. replace (Z.of_nat sz * 56 * 9) with (Z.of_nat sz * 9 * 56) by lia. rewrite Z.quot_mul by lia.
    rewrite chk_U64 by lia. xstep.
    rewrite (memcpy_ok (mB ++ [U]) (length mB) 0 bh 0 (Z.of_nat sz * 9) U hblk)
      by (try lia; try (apply nth_error_app_new); try (rewrite nth_error_app_old by lia; exact HhB)).
    xstep. rewrite upd_app_new. change (Z.to_nat 0) with 0%nat. rewrite put_cells_0. cbn [skipn].
    set (newblk := firstn (Z.to_nat (Z.of_nat sz * 9)) hblk ++ skipn (length (firstn (Z.to_nat (Z.of_nat sz * 9)) hblk)) U).
    assert (Hbl2 : nth_error (mB ++ [newblk]) bl = Some blkB) by (rewrite nth_error_app_old by lia; exact HbB).
    xfld Hbl2 CB69.
    match goal with |- context [do_builtin_m BFree [VPtr bh 0] ?mm] =>
      rewrite (free_ok mm bh hblk) by (try (rewrite nth_error_app_old by lia; exact HhB); intro X; rewrite X in Hl; cbn in Hl; lia) end.
    xstep. rewrite upd_app_old by lia.
    assert (LmF : length (upd mB bh []) = length m1) by (rewrite upd_length by lia; exact LmB).
    assert (Hbl3 : nth_error (upd mB bh [] ++ [newblk]) bl = Some blkB).
    { rewrite nth_error_app_old by lia. rewrite mem_upd_other by (try lia; congruence). exact HbB. }
    rewrite (fld_store _ bl blkB L_hist _ _ Hbl3) by (try reflexivity; rewrite LB; unfold LBUF_CELLS, L_hist; lia). xstep.
    rewrite (wrap_I32_id z2) by (unfold z2; lia).
    rewrite upd_app_old by lia.
    set (blkC1 := upd blkB L_hist (VPtr (length mB) 0)).
    assert (LC1 : length blkC1 = LBUF_CELLS) by (unfold blkC1; rewrite upd_length; [exact LB|rewrite LB; unfold LBUF_CELLS, L_hist; lia]).
    rewrite (fld_store (upd (upd mB bh []) bl blkC1 ++ [newblk]) bl blkC1 L_hist_sz)
      by (try reflexivity; try (rewrite LC1; unfold LBUF_CELLS, L_hist_sz; lia); rewrite nth_error_app_old by (rewrite upd_length by lia; lia); apply mem_upd_same; lia).
    xstep. rewrite upd_app_old by (rewrite upd_length by lia; lia). rewrite upd_upd by lia.
    set (blkC := upd blkC1 L_hist_sz (VInt z2)).
    assert (LC : length blkC = LBUF_CELLS) by (unfold blkC; rewrite upd_length; [exact LC1|rewrite LC1; unfold LBUF_CELLS, L_hist_sz; lia]).
    assert (Lfn : length (firstn (Z.to_nat (Z.of_nat sz * 9)) hblk) = (9 * sz)%nat) by (rewrite firstn_length, Hl; lia).
    assert (Lnew : length newblk = (9 * (sz + sz))%nat) by (unfold newblk; rewrite app_length, skipn_length, Lfn, LU; lia).
    assert (Ln2 : length (upd (upd mB bh []) bl blkC) = length m1) by (rewrite upd_length by lia; exact LmF).
    exists (upd (upd mB bh []) bl blkC ++ [newblk]), blkC, (length mB), newblk, (VInt z2), (VPtr (length mB) 0).
    split; [exact Esetn|]. split; [reflexivity|].
    split; [rewrite nth_error_app_old by lia; apply mem_upd_same; lia|]. split; [exact LC|].
    assert (CC : forall j, j <> L_hist -> j <> L_hist_sz -> nth_error blkC j = nth_error blkB j).
    { intros j J1 J2. unfold blkC. rewrite nth_error_upd_other by (try assumption; rewrite LC1; unfold LBUF_CELLS, L_hist_sz; lia).
      unfold blkC1. apply nth_error_upd_other; [rewrite LB; unfold LBUF_CELLS, L_hist; lia|exact J1]. }
    split; [intros j J1 J2 J3; rewrite CC by assumption; apply CB; exact J3|].
    split.
    { unfold blkC. rewrite nth_error_upd_other by (try (unfold L_hist, L_hist_sz; lia); rewrite LC1; unfold LBUF_CELLS, L_hist_sz; lia).
      unfold blkC1. apply nth_error_upd_same. rewrite LB; unfold LBUF_CELLS, L_hist; lia. }
    split.
    { unfold blkC. rewrite nth_error_upd_same by (rewrite LC1; unfold LBUF_CELLS, L_hist_sz; lia). unfold sz', z2.
      rewrite ?Nat.eqb_refl. rewrite Nat2Z.inj_add. reflexivity. }
    split; [rewrite CC by (unfold L_hist, L_hist_sz, L_hist_n; lia); exact CB71|].
    split; [apply nth_error_app_new'; rewrite Ln2; exact LmB|].
    split; [unfold sz'; rewrite ?Nat.eqb_refl; exact Lnew|].
    split.
    { intros j Hj. unfold hc, newblk. rewrite app_nth1 by lia. apply nth_firstn_lt'. lia. }
    split; [right; lia|]. split; [rewrite app_length, Ln2; lia|].
    split.
    { intros b Hb0 N1 N2. rewrite nth_error_app_old by lia. rewrite mem_upd_other by (try lia; exact N1).
      rewrite mem_upd_other by (try lia; exact N2). unfold mB. apply mem_upd_other; [exact Hbl|exact N1]. }
    intros _. rewrite nth_error_app_old by lia. rewrite mem_upd_other by (try lia; congruence). apply mem_upd_same. lia.
  Qed.
  (* lo = &lb->hist[lb->hist_n]; lb->hist_n++; lb->hist_u = lb->hist_n; memset(lo, 0, sizeof lo[0]); lo->pos = pos; lo->n_del = n_del; *)
  Definition lo_init (p nd : nat) : lopt := {| pos := p; n_ins := 0; n_del := nd; del := None; ins := None; seq := 0 |}.
  Lemma opt_init_ok (m : mem) bl (blk : block) bh (hblk : block) lb (bufv : val) p nd (l4 l5 l6 l7 : val) rest :
    urep T m bl blk bh hblk lb -> hist_u lb = length (hist lb) -> (length (hist lb) < hist_sz lb)%nat -> i31 p -> i31 nd ->
    let u := length (hist lb) in
    let blkE := upd (upd blk L_hist_n (VInt (Z.of_nat (S u)))) L_hist_u (VInt (Z.of_nat (S u))) in
    let hblkE := R9 hblk u [VInt 0; VInt 0; VInt (Z.of_nat p); VInt 0; VInt (Z.of_nat nd); VInt 0; VInt 0; VInt 0; VInt 0] in
    let mE := upd (upd m bh hblkE) bl blkE in
    exec cx fuel (SSeq sD1 (SSeq sD2 (SSeq sD3 (SSeq sE1 (SSeq sE2 (SSeq sE3 rest))))))
         (mkst [VPtr bl 0; bufv; VInt (Z.of_nat p); VInt (Z.of_nat nd); l4; l5; l6; l7] m)
    = exec cx fuel rest (mkst [VPtr bl 0; bufv; VInt (Z.of_nat p); VInt (Z.of_nat nd); VPtr bh (Z.of_nat (9 * u)); l5; l6; l7] mE) /\
    urep T mE bl blkE bh hblkE (push lb (lo_init p nd)).
  Proof.
    intros R Hun Hroom Hp Hnd u blkE hblkE mE. pose proof R as [Hb L I Cn Rn Cq Ch Csz Cnn Cu Cz Cl Rg Hh Hl He Ho Ht].
    destruct Rg as (Rq & (Ru & Rs) & Rz & Rsz). fold u in Hroom, Cnn, Ru, Rs.
    assert (Hbl : (bl < length m)%nat) by (apply nth_error_Some; congruence).
    assert (Hbh : (bh < length m)%nat) by (apply nth_error_Some; congruence).
    assert (Nhl : bh <> bl) by (intro X; subst; inversion Ho as [|? ? Hn _]; apply Hn; left; reflexivity).
    assert (Hlen : (9 * u + 9 <= length hblk)%nat) by (rewrite Hl; lia).
    set (b1 := upd blk L_hist_n (VInt (Z.of_nat (S u)))) in *.
    assert (L1 : length b1 = LBUF_CELLS) by (unfold b1; rewrite upd_length; [exact L|rewrite L; unfold LBUF_CELLS, L_hist_n; lia]).
    assert (LE : length blkE = LBUF_CELLS) by (unfold blkE; rewrite upd_length; [exact L1|rewrite L1; unfold LBUF_CELLS, L_hist_u; lia]).
    assert (CE : forall j, j <> L_hist_n -> j <> L_hist_u -> nth_error blkE j = nth_error blk j).
    { intros j J1 J2. unfold blkE. rewrite nth_error_upd_other by (try assumption; rewrite L1; unfold LBUF_CELLS, L_hist_u; lia).
      unfold b1. apply nth_error_upd_other; [rewrite L; unfold LBUF_CELLS, L_hist_n; lia|exact J1]. }
    split.
    - rewrite exec_seq. unfold sD1 at 1, opt_rest3, opt_rest2, opt_rest1, opt_body; cbn [fn_body cf_lbuf_opt]. xstep.
      xfld Hb Ch. xfld Hb Cnn. rewrite wrap_I32_id by (unfold i31 in *; lia). xstep.
      unfold sD2 at 1, opt_t1, opt_rest3, opt_rest2, opt_rest1, opt_body; cbn [fn_body cf_lbuf_opt]. xstep.
      xfld Hb Cnn. rewrite wrap_I32_id by (unfold i31 in *; lia). rewrite chk_I32 by (unfold i31 in *; lia). xstep.
      replace (Z.of_nat u + 1) with (Z.of_nat (S u)) by lia.
      rewrite (fld_store m bl blk L_hist_n _ _ Hb) by (try reflexivity; rewrite L; unfold LBUF_CELLS, L_hist_n; lia). cbn [fst snd]. xstep. fold b1.
      unfold sD3 at 1, opt_t2, opt_t1, opt_rest3, opt_rest2, opt_rest1, opt_body; cbn [fn_body cf_lbuf_opt]. xstep.
      assert (C1n : nth_error b1 L_hist_n = Some (VInt (Z.of_nat (S u)))) by (unfold b1; apply nth_error_upd_same; rewrite L; unfold LBUF_CELLS, L_hist_n; lia).
      rewrite (fld_load_upd m bl b1 L_hist_n _ _ Hbl C1n) by reflexivity. xstep. rewrite !(wrap_I32_id (Z.of_nat (S u))) by (unfold i31 in *; lia).
      rewrite (fld_store_upd m bl b1 L_hist_u _ _ Hbl) by (try reflexivity; rewrite L1; unfold LBUF_CELLS, L_hist_u; lia). xstep. fold blkE.
      unfold sE1 at 1, opt_t3, opt_t2, opt_t1, opt_rest3, opt_rest2, opt_rest1, opt_body; cbn [fn_body cf_lbuf_opt]. xstep.
      change (chk U64 (56 * 9)) with (@Ok Z 504). xstep. change (if 56 =? 0 then Err EDivZero else chk U64 (504 ÷ 56)) with (@Ok Z 9). xstep.
      replace (0 + 9 * Z.of_nat u) with (Z.of_nat (9 * u)) by lia.
      assert (HhE : nth_error (upd m bl blkE) bh = Some hblk) by (rewrite mem_upd_other by assumption; exact Hh).
      rewrite (memset_ok (upd m bl blkE) bh (Z.of_nat (9 * u)) 0 9 hblk HhE) by lia. xstep.
      rewrite Nat2Z.id. change (repeat (VInt (wrap U8 0)) (Z.to_nat 9)) with [VInt 0; VInt 0; VInt 0; VInt 0; VInt 0; VInt 0; VInt 0; VInt 0; VInt 0].
      fold (R9 hblk u [VInt 0; VInt 0; VInt 0; VInt 0; VInt 0; VInt 0; VInt 0; VInt 0; VInt 0]).
      rewrite (upd_comm m bl bh) by (try assumption; congruence).
      set (h0 := R9 hblk u [VInt 0; VInt 0; VInt 0; VInt 0; VInt 0; VInt 0; VInt 0; VInt 0; VInt 0]).
      assert (Lh0 : length h0 = length hblk) by (apply R9_length; cbn [length]; lia).
      assert (Lm0 : forall x, length (upd m bh x) = length m) by (intro; apply upd_length; exact Hbh).
      unfold sE2 at 1, opt_t4, opt_t3, opt_t2, opt_t1, opt_rest3, opt_rest2, opt_rest1, opt_body; cbn [fn_body cf_lbuf_opt]. xstep.
      rewrite (wrap_I32_id (Z.of_nat p)) by (unfold i31 in *; lia).
      rewrite (fld_store _ bh h0 (9 * u + 2)) by (try lia; rewrite mem_upd_other by (rewrite ?Lm0; congruence); apply mem_upd_same; exact Hbh). xstep.
      unfold h0 at 2. rewrite upd_R9 by (try reflexivity; lia). cbn [upd firstn skipn app].
      rewrite (upd_comm _ bl bh) by (rewrite ?Lm0; try assumption; congruence). rewrite upd_upd by exact Hbh.
      set (h1 := R9 hblk u [VInt 0; VInt 0; VInt (Z.of_nat p); VInt 0; VInt 0; VInt 0; VInt 0; VInt 0; VInt 0]).
      assert (Lh1 : length h1 = length hblk) by (apply R9_length; cbn [length]; lia).
      unfold sE3 at 1, opt_t5, opt_t4, opt_t3, opt_t2, opt_t1, opt_rest3, opt_rest2, opt_rest1, opt_body; cbn [fn_body cf_lbuf_opt]. xstep.
      rewrite (wrap_I32_id (Z.of_nat nd)) by (unfold i31 in *; lia).
      rewrite (fld_store _ bh h1 (9 * u + 4)) by (try lia; rewrite mem_upd_other by (rewrite ?Lm0; congruence); apply mem_upd_same; exact Hbh). xstep.
      unfold h1 at 2. rewrite upd_R9 by (try reflexivity; lia). cbn [upd firstn skipn app].
      rewrite (upd_comm _ bl bh) by (rewrite ?Lm0; try assumption; congruence). rewrite upd_upd by exact Hbh.
      reflexivity.
    - assert (Lr : length hblkE = length hblk) by (apply R9_length; cbn [length]; lia).
      apply (urep_push T m bl blk blkE bh hblk hblkE lb (lo_init p nd) TF R Hun Hroom); fold u; try assumption.
      + intros j Hj. rewrite CE by (unfold L_hist_n, L_hist_u; lia). apply I. exact Hj.
      + intros j _ J1 J2. apply CE; assumption.
      + unfold blkE. rewrite nth_error_upd_other by (try (unfold L_hist_n, L_hist_u; lia); rewrite L1; unfold LBUF_CELLS, L_hist_u; lia).
        unfold b1. apply nth_error_upd_same. rewrite L; unfold LBUF_CELLS, L_hist_n; lia.
      + unfold blkE. apply nth_error_upd_same. rewrite L1; unfold LBUF_CELLS, L_hist_u; lia.
      + intros k Hk. apply hc_R9_out; [exact Hlen|reflexivity|exact Hk].
      + apply ent_rep_R9; cbn [lo_init ins del pos n_ins n_del seq sown]; try reflexivity; try exact Hlen.
        * exists 0. reflexivity.
        * left. split; reflexivity.
        * unfold i31, i32 in *. repeat split; try lia; cbn; lia.
      + unfold hblkE. rewrite ent_blocks_R9 by exact Hlen. reflexivity.
  Qed.
  (* ---- lo->del = n_del ? lbuf_cp(lb, pos, pos + n_del) : NULL *)
  (* the oracle for lbuf_cp: a fresh block that reads the model's copy of the lines, every older block untouched *)
  Definition cp_oracle (bl : nat) : Prop := forall (m : mem) (blk : block) bh (hblk : block) lb b e,
    urep T m bl blk bh hblk lb -> i31 e ->
    exists bd (m' : mem), ext X_lbuf_cp [VPtr bl 0; VInt (Z.of_nat b); VInt (Z.of_nat e)] m = Ok (VPtr bd 0, m') /\
      (length m <= bd < length m')%nat /\ (forall b', (b' < length m)%nat -> nth_error m' b' = nth_error m b') /\
      cstr_from m' bd 0 (lbuf_cp lb b e) /\ nonul (lbuf_cp lb b e).
  Definition set_del (lo : lopt) (x : option (list N)) : lopt :=
    {| pos := pos lo; n_ins := n_ins lo; n_del := n_del lo; del := x; ins := ins lo; seq := seq lo |}.

  Lemma opt_del_ok (m : mem) bl (blk : block) bh (h0 : block) lb lo (bufv : val) p nd c0 c2 c3 c4 c5 c6 c7 c8 (l5 l6 l7 : val) rest :
    cp_oracle bl -> let u := length (hist lb) in
    urep T m bl blk bh (R9 h0 u [c0; VInt 0; c2; c3; c4; c5; c6; c7; c8]) (push lb lo) -> (9 * u + 9 <= length h0)%nat -> i31 (p + nd) ->
    exists (m' : mem) c1,
      exec cx fuel (SSeq sF rest) (mkst [VPtr bl 0; bufv; VInt (Z.of_nat p); VInt (Z.of_nat nd); VPtr bh (Z.of_nat (9 * u)); l5; l6; l7] m)
      = exec cx fuel rest (mkst [VPtr bl 0; bufv; VInt (Z.of_nat p); VInt (Z.of_nat nd); VPtr bh (Z.of_nat (9 * u)); l5; l6; l7] m') /\
      urep T m' bl blk bh (R9 h0 u [c0; c1; c2; c3; c4; c5; c6; c7; c8])
           (push lb (set_del lo (if Nat.eqb nd 0 then None else Some (lbuf_cp lb p (p + nd))))) /\
      sframe bl bh m m' (ent_blocks (R9 h0 u [c0; VInt 0; c2; c3; c4; c5; c6; c7; c8]) u) (ent_blocks (R9 h0 u [c0; c1; c2; c3; c4; c5; c6; c7; c8]) u).
  Proof.
    intros HC u R Hlen Hpn. pose proof R as [Hb L I Cn Rn Cq Ch Csz Cnn Cu Cz Cl Rg Hh Hl He Ho Ht].
    assert (Hbh : (bh < length m)%nat) by (apply nth_error_Some; congruence).
    set (r := [c0; VInt 0; c2; c3; c4; c5; c6; c7; c8]) in *.
    assert (Hu : (u < length (hist (push lb lo)))%nat) by (cbn [push hist]; rewrite app_length; cbn [length]; fold u; lia).
    pose proof (He u Hu) as E. cbn [push hist] in E. unfold u in E at 2. rewrite app_nth2 in E by lia. rewrite Nat.sub_diag in E. cbn [nth] in E.
    destruct (ent_rep_R9_inv m h0 u _ _ _ _ _ _ _ _ _ lo Hlen E) as (S0 & S1 & E2 & E3 & E4 & E5 & E6 & E7 & E8).
    unfold sF at 1, opt_t6, opt_t5, opt_t4, opt_t3, opt_t2, opt_t1, opt_rest3, opt_rest2, opt_rest1, opt_body; cbn [fn_body cf_lbuf_opt].
    destruct nd as [|nd'].
    - (* nothing deleted: NULL *)
      exists m, (VInt 0). split.
      + xstep. change (Z.of_nat 0 =? 0) with true. xstep.
        rewrite (fld_store m bh (R9 h0 u r) (9 * u + 1)) by (try exact Hh; try lia; rewrite R9_length by (cbn [length]; lia); lia). xstep.
        rewrite upd_R9 by (try reflexivity; lia). unfold r. cbn [upd firstn skipn app]. fold r. rewrite (upd_self m bh _ Hh). reflexivity.
      + split; [|apply sframe_refl]. cbn [Nat.eqb].
        assert (X : set_del lo None = lo -> True) by auto.
        apply (push_upd T m m bl blk bh h0 lb lo (set_del lo None) r r TF R Hlen eq_refl eq_refl Hh (le_n _)); try reflexivity.
        * apply ent_rep_R9; cbn [set_del ins del pos n_ins n_del seq sown]; try assumption. reflexivity.
        * unfold owned in Ho. cbn [push hist] in Ho. rewrite app_length in Ho. cbn [length] in Ho. replace (length (hist lb) + 1)%nat with (S u) in Ho by (unfold u; lia).
          rewrite log_blocks_snoc in Ho. inversion Ho as [|? ? _ Ho']; subst. inversion Ho' as [|? ? _ Ho'']; subst.
          apply NoDup_app_iff' in Ho''. tauto.
        * intros b Hb0. left. exact Hb0.
    - (* the deleted lines are copied by lbuf_cp (oracle) *)
      set (nd := S nd') in *.
      destruct (HC m blk bh (R9 h0 u r) (push lb lo) p (p + nd)%nat R Hpn) as (bd & m1 & Hext & Hbd & Hk1 & Hcs & Hnn).
      change (lbuf_cp (push lb lo) p (p + nd)) with (lbuf_cp lb p (p + nd)) in Hcs, Hnn.
      set (r' := [c0; VPtr bd 0; c2; c3; c4; c5; c6; c7; c8]).
      assert (Hh1 : nth_error m1 bh = Some (R9 h0 u r)) by (rewrite Hk1 by exact Hbh; exact Hh).
      assert (Hbh1 : (bh < length m1)%nat) by lia.
      exists (upd m1 bh (R9 h0 u r')), (VPtr bd 0). split; [|split].
      + xstep. replace (Z.of_nat nd =? 0) with false by (symmetry; apply Z.eqb_neq; unfold nd; lia). xstep.
        rewrite chk_I32 by (unfold i31 in *; lia). xstep. replace (Z.of_nat p + Z.of_nat nd) with (Z.of_nat (p + nd)) by lia.
        unfold cx at 1. rewrite callx_S, x_lbuf_cp_none, Hext. xstep.
        rewrite (fld_store m1 bh (R9 h0 u r) (9 * u + 1)) by (try exact Hh1; try lia; rewrite R9_length by (cbn [length]; lia); lia). xstep.
        rewrite upd_R9 by (try reflexivity; lia). unfold r. cbn [upd firstn skipn app]. reflexivity.
      + cbn [Nat.eqb]. fold r'.
        assert (Hnb : ~ In bd (ent_blocks (R9 h0 u r) u)).
        { intro X. assert (bd < length m)%nat; [|lia]. apply (ent_blocks_live m (R9 h0 u r) u lo bd E X). }
        assert (K1 : forall b, (b < length m)%nat -> b <> bh -> nth_error (upd m1 bh (R9 h0 u r')) b = nth_error m b).
        { intros b Hb0 Nb. rewrite mem_upd_other by (try lia; exact Nb). apply Hk1. exact Hb0. }
        apply (push_upd T m (upd m1 bh (R9 h0 u r')) bl blk bh h0 lb lo _ r r' TF R Hlen eq_refl eq_refl).
        * apply mem_upd_same. exact Hbh1.
        * rewrite upd_length by exact Hbh1. lia.
        * intros b Hb0 Nb _. apply K1; assumption.
        * assert (KE : keeps (ent_blocks (R9 h0 u r) u) m (upd m1 bh (R9 h0 u r'))).
          { intros b Hb0. apply K1; [apply (ent_blocks_live m (R9 h0 u r) u lo b E Hb0)|].
            intro X; subst. unfold owned in Ho. inversion Ho as [|? ? _ Ho']; subst. inversion Ho' as [|? ? Hn _]; subst. apply Hn.
            cbn [push hist]. rewrite app_length. cbn [length]. apply (in_log_blocks _ u); [fold u; lia|exact Hb0]. }
          unfold r in KE. rewrite ent_blocks_R9 in KE by exact Hlen.
          unfold r'. apply ent_rep_R9; cbn [set_del ins del pos n_ins n_del seq]; try assumption.
          -- apply (sown_keeps m _ _ _ S0). intros b Hb0. apply KE. apply in_or_app. left. exact Hb0.
          -- cbn [sown]. split; [exact Hnn|]. exists bd. split; [reflexivity|].
             apply (cstr_from_keeps m1); [exact Hcs|]. apply mem_upd_other; [exact Hbh1|lia].
          -- apply (mark_cells_keeps m _ _ _ E7). intros b Hb0. apply KE. apply in_or_app. right. apply in_or_app. right. exact Hb0.
        * unfold r'. rewrite ent_blocks_R9 by exact Hlen. cbn [ptr_block app].
          unfold r in Hnb. rewrite ent_blocks_R9 in Hnb by exact Hlen. cbn [ptr_block app] in Hnb.
          assert (Nd0 : NoDup (ptr_block c0 ++ ptr_block c7 ++ ptr_block c8)).
          { unfold owned in Ho. cbn [push hist] in Ho. rewrite app_length in Ho. cbn [length] in Ho. replace (length (hist lb) + 1)%nat with (S u) in Ho by (unfold u; lia).
            rewrite log_blocks_snoc in Ho. inversion Ho as [|? ? _ Ho']; subst. inversion Ho' as [|? ? _ Ho'']; subst.
            apply NoDup_app_iff' in Ho''. destruct Ho'' as (_ & Ho3 & _). unfold r in Ho3. rewrite ent_blocks_R9 in Ho3 by exact Hlen. exact Ho3. }
          apply NoDup_app_iff' in Nd0. destruct Nd0 as (Na & Nb & Nc). apply NoDup_app_iff'. split; [exact Na|]. split.
          -- constructor; [|exact Nb]. intro X. apply Hnb. apply in_or_app. right. exact X.
          -- intros x Hx [<-|Hx']; [apply Hnb; apply in_or_app; left; exact Hx|apply (Nc x Hx Hx')].
        * intros b Hb0. unfold r' in Hb0. rewrite ent_blocks_R9 in Hb0 by exact Hlen. unfold r. rewrite ent_blocks_R9 by exact Hlen.
          cbn [ptr_block app] in *. apply in_app_or in Hb0. destruct Hb0 as [X|[<-|X]].
          -- left. apply in_or_app. left. exact X.
          -- right. rewrite upd_length by exact Hbh1. lia.
          -- left. apply in_or_app. right. exact X.
      + split; [rewrite upd_length by exact Hbh1; lia|]. split.
        * intros b Hb0 _ Nb _. rewrite mem_upd_other by (try lia; exact Nb). apply Hk1. exact Hb0.
        * intros b Hb0. fold r' in Hb0. unfold r' in Hb0. rewrite ent_blocks_R9 in Hb0 by exact Hlen. unfold r. rewrite ent_blocks_R9 by exact Hlen.
          cbn [ptr_block app] in *. apply in_app_or in Hb0. destruct Hb0 as [X|[<-|X]].
          -- left. apply in_or_app. left. exact X.
          -- right. rewrite upd_length by exact Hbh1. lia.
          -- left. apply in_or_app. right. exact X.
  Qed.
  (* ---- lo->n_ins = buf ? linecount(buf) : 0 *)
  Definition set_nins (lo : lopt) (x : nat) : lopt :=
    {| pos := pos lo; n_ins := x; n_del := n_del lo; del := del lo; ins := ins lo; seq := seq lo |}.
  Lemma lc_le (t : list N) : forall b, (IoDefs.linecount_aux b t <= length t + (if b then 1 else 0))%nat.
  Proof.
    induction t as [|c t IH]; intro b; cbn [IoDefs.linecount_aux length]; [destruct b; lia|].
    destruct (IoDefs.is_nl c); [specialize (IH false)|specialize (IH true)]; cbn iota in IH; destruct b; lia.
  Qed.
  Lemma opt_nins_ok (m : mem) bl (blk : block) bh (h0 : block) lb lo (bufv : val) buf (pv ndv : val) c0 c1 c2 c3 c4 c5 c6 c7 c8 (l5 l6 l7 : val) rest :
    let u := length (hist lb) in
    urep T m bl blk bh (R9 h0 u [c0; c1; c2; c3; c4; c5; c6; c7; c8]) (push lb lo) -> (9 * u + 9 <= length h0)%nat ->
    bufarg m bl bh bufv buf -> (linecount buf < fuel)%nat ->
    let r' := [c0; c1; c2; VInt (Z.of_nat (linecount buf)); c4; c5; c6; c7; c8] in
    let m' := upd m bh (R9 h0 u r') in
    exec cx fuel (SSeq sG rest) (mkst [VPtr bl 0; bufv; pv; ndv; VPtr bh (Z.of_nat (9 * u)); l5; l6; l7] m)
    = exec cx fuel rest (mkst [VPtr bl 0; bufv; pv; ndv; VPtr bh (Z.of_nat (9 * u)); l5; l6; l7] m') /\
    urep T m' bl blk bh (R9 h0 u r') (push lb (set_nins lo (linecount buf))) /\
    sframe bl bh m m' (ent_blocks (R9 h0 u [c0; c1; c2; c3; c4; c5; c6; c7; c8]) u) (ent_blocks (R9 h0 u r') u).
  Proof.
    intros u R Hlen Hbuf Hfu r' m'. pose proof R as [Hb L I Cn Rn Cq Ch Csz Cnn Cu Cz Cl Rg Hh Hl He Ho Ht].
    set (r := [c0; c1; c2; c3; c4; c5; c6; c7; c8]) in *.
    pose proof (rec_ent T m bl blk bh h0 lb lo r R) as E. fold u in E.
    destruct (ent_rep_R9_inv m h0 u _ _ _ _ _ _ _ _ _ lo Hlen E) as (S0 & S1 & E2 & E3 & E4 & E5 & E6 & E7 & E8a & E8b & E8c & E8d).
    assert (Lr9 : length (R9 h0 u r) = length h0) by (apply R9_length; unfold r; cbn [length]; lia).
    assert (Hi : i31 (linecount buf)).
    { destruct buf as [t|]; [|unfold i31; cbn; lia]. destruct Hbuf as (bb & s & o & _ & _ & _ & Ho' & Hm & -> & _).
      rewrite <- linecount_models. unfold IoDefs.linecount. pose proof (lc_le (skipn o s) false). rewrite skipn_length in H. unfold i31. lia. }
    assert (Eb : ent_blocks (R9 h0 u r') u = ent_blocks (R9 h0 u r) u) by (unfold r, r'; rewrite !ent_blocks_R9 by exact Hlen; reflexivity).
    split; [|apply (push_cells T m m bl blk bh h0 lb lo (set_nins lo (linecount buf)) r r' TF R Hlen eq_refl eq_refl (le_n _)); try reflexivity].
    - unfold sG at 1, opt_t7, opt_t6, opt_t5, opt_t4, opt_t3, opt_t2, opt_t1, opt_rest3, opt_rest2, opt_rest1, opt_body; cbn [fn_body cf_lbuf_opt].
      destruct buf as [t|].
      + destruct Hbuf as (bb & s & o & -> & Hs & Hn & Ho' & Hm & -> & N1 & N2). xstep.
        unfold cx at 1. rewrite (callx_mono ext _ _ _ _ _ _ _ (TrLbufLines.tr_linecount m bb s o (S d) fuel Hs Hn Ho' Hm ltac:(rewrite linecount_models; exact Hfu))).
        xstep. rewrite linecount_models. rewrite wrap_I32_id by (unfold i31 in Hi; lia).
        rewrite (fld_store m bh (R9 h0 u r) (9 * u + 3)) by (try exact Hh; try lia; rewrite Lr9; lia). xstep.
        rewrite upd_R9 by (try reflexivity; lia). unfold r. cbn [upd firstn skipn app]. reflexivity.
      + cbn [bufarg] in Hbuf. subst bufv. xstep.
        rewrite (fld_store m bh (R9 h0 u r) (9 * u + 3)) by (try exact Hh; try lia; rewrite Lr9; lia). xstep.
        rewrite upd_R9 by (try reflexivity; lia). unfold r. cbn [upd firstn skipn app]. reflexivity.
    - intro KE. unfold r in KE. rewrite ent_blocks_R9 in KE by exact Hlen.
      unfold r'. apply ent_rep_R9; cbn [set_nins ins del pos n_ins n_del seq]; try assumption; try reflexivity.
      + apply (sown_keeps m _ _ _ S0). intros b Hb0. apply KE. apply in_or_app. left. exact Hb0.
      + apply (sown_keeps m _ _ _ S1). intros b Hb0. apply KE. apply in_or_app. right. apply in_or_app. left. exact Hb0.
      + apply (mark_cells_keeps m _ _ _ E7). intros b Hb0. apply KE. apply in_or_app. right. apply in_or_app. right. exact Hb0.
      + repeat (split; [assumption|]). assumption.
    - fold u. rewrite Eb. apply (rec_nodup T m bl blk bh h0 lb lo r R).
    - fold u. intros b Hb0. left. rewrite <- Eb. exact Hb0.
  Qed.
  (* ---- lo->ins = buf ? uc_dup(buf) : NULL *)
  Definition set_ins (lo : lopt) (x : option (list N)) : lopt :=
    {| pos := pos lo; n_ins := n_ins lo; n_del := n_del lo; del := del lo; ins := x; seq := seq lo |}.
  Lemma opt_ins_ok (m : mem) bl (blk : block) bh (h0 : block) lb lo (bufv : val) buf (pv ndv : val) c1 c2 c3 c4 c5 c6 c7 c8 (l5 l6 l7 : val) rest :
    let u := length (hist lb) in
    urep T m bl blk bh (R9 h0 u [VInt 0; c1; c2; c3; c4; c5; c6; c7; c8]) (push lb lo) -> (9 * u + 9 <= length h0)%nat ->
    bufarg m bl bh bufv buf ->
    exists (m' : mem) c0,
    exec cx fuel (SSeq sH rest) (mkst [VPtr bl 0; bufv; pv; ndv; VPtr bh (Z.of_nat (9 * u)); l5; l6; l7] m)
    = exec cx fuel rest (mkst [VPtr bl 0; bufv; pv; ndv; VPtr bh (Z.of_nat (9 * u)); l5; l6; l7] m') /\
    urep T m' bl blk bh (R9 h0 u [c0; c1; c2; c3; c4; c5; c6; c7; c8]) (push lb (set_ins lo buf)) /\
    sframe bl bh m m' (ent_blocks (R9 h0 u [VInt 0; c1; c2; c3; c4; c5; c6; c7; c8]) u) (ent_blocks (R9 h0 u [c0; c1; c2; c3; c4; c5; c6; c7; c8]) u).
  Proof.
    intros u R Hlen Hbuf. pose proof R as [Hb L I Cn Rn Cq Ch Csz Cnn Cu Cz Cl Rg Hh Hl He Ho Ht].
    set (r := [VInt 0; c1; c2; c3; c4; c5; c6; c7; c8]) in *.
    assert (Hbh : (bh < length m)%nat) by (apply nth_error_Some; congruence).
    assert (Lr9 : length (R9 h0 u r) = length h0) by (apply R9_length; unfold r; cbn [length]; lia).
    pose proof (rec_ent T m bl blk bh h0 lb lo r R) as E. fold u in E.
    destruct (ent_rep_R9_inv m h0 u _ _ _ _ _ _ _ _ _ lo Hlen E) as (S0 & S1 & E2 & E3 & E4 & E5 & E6 & E7 & E8a & E8b & E8c & E8d).
    pose proof (rec_nodup T m bl blk bh h0 lb lo r R) as Nd. fold u in Nd.
    assert (Ebr : ent_blocks (R9 h0 u r) u = ptr_block c1 ++ ptr_block c7 ++ ptr_block c8) by (unfold r; rewrite ent_blocks_R9 by exact Hlen; reflexivity).
    unfold sH at 1, opt_t8, opt_t7, opt_t6, opt_t5, opt_t4, opt_t3, opt_t2, opt_t1, opt_rest3, opt_rest2, opt_rest1, opt_body; cbn [fn_body cf_lbuf_opt].
    destruct buf as [t|].
    - destruct Hbuf as (bb & s & o & -> & Hs & Hn & Ho' & Hm & -> & N1 & N2).
      set (m1 := m ++ [cstr_block (zb (skipn o s))]). set (r' := [VPtr (length m) 0; c1; c2; c3; c4; c5; c6; c7; c8]).
      assert (Lm1 : length m1 = S (length m)) by (unfold m1; rewrite app_length; cbn [length]; lia).
      assert (Ebr' : ent_blocks (R9 h0 u r') u = length m :: ent_blocks (R9 h0 u r) u) by (unfold r'; rewrite ent_blocks_R9 by exact Hlen; rewrite Ebr; reflexivity).
      assert (Hnew : ~ In (length m) (ent_blocks (R9 h0 u r) u)).
      { intro X. pose proof (ent_blocks_live m (R9 h0 u r) u lo _ E X). lia. }
      exists (upd m1 bh (R9 h0 u r')), (VPtr (length m) 0). split.
      + xstep. unfold cx at 1. rewrite (callx_mono ext _ _ _ _ _ _ _ (tr_uc_dup m bb s o (S (S d)) fuel Hs Hn Ho' Hm)). xstep. fold m1.
        rewrite (fld_store m1 bh (R9 h0 u r) (9 * u)) by (try lia; try (rewrite Lr9; lia); unfold m1; rewrite nth_error_app_old by exact Hbh; exact Hh). xstep.
        replace (9 * u)%nat with (9 * u + 0)%nat at 2 by lia. rewrite upd_R9 by (try reflexivity; lia). unfold r. cbn [upd firstn skipn app]. reflexivity.
      + fold r'. apply (push_cells T m m1 bl blk bh h0 lb lo (set_ins lo (Some (skipn o s))) r r' TF R Hlen eq_refl eq_refl); fold u.
        * lia.
        * intros b Hb0. unfold m1. apply nth_error_app_old. exact Hb0.
        * intro KE. rewrite Ebr in KE. unfold r'. apply ent_rep_R9; cbn [set_ins ins del pos n_ins n_del seq]; try assumption; try reflexivity.
          -- cbn [sown]. split; [apply Forall_skipn'; exact Hn|]. exists (length m). split; [reflexivity|].
             exists (cstr_block (zb (skipn o s))). split; [rewrite mem_upd_other by (rewrite ?Lm1; lia); unfold m1; apply nth_error_app_new|].
             split; [lia|]. cbn [Z.to_nat skipn]. apply firstn_all2. rewrite cstr_block_len. lia.
          -- apply (sown_keeps m _ _ _ S1). intros b Hb0. apply KE. apply in_or_app. left. exact Hb0.
          -- apply (mark_cells_keeps m _ _ _ E7). intros b Hb0. apply KE. apply in_or_app. right. exact Hb0.
          -- repeat (split; [assumption|]). assumption.
        * rewrite Ebr'. constructor; assumption.
        * intros b Hb0. rewrite Ebr' in Hb0. destruct Hb0 as [<-|X]; [right; lia|left; exact X].
    - cbn [bufarg] in Hbuf. subst bufv. exists (upd m bh (R9 h0 u r)), (VInt 0). split.
      + xstep. rewrite (fld_store m bh (R9 h0 u r) (9 * u)) by (try exact Hh; try lia; rewrite Lr9; lia). xstep.
        replace (9 * u)%nat with (9 * u + 0)%nat at 2 by lia. rewrite upd_R9 by (try reflexivity; lia). unfold r. cbn [upd firstn skipn app]. reflexivity.
      + fold r.
        apply (push_cells T m m bl blk bh h0 lb lo (set_ins lo None) r r TF R Hlen eq_refl eq_refl (le_n _)); fold u; try reflexivity.
        * intro KE. rewrite Ebr in KE. unfold r. apply ent_rep_R9; cbn [set_ins ins del pos n_ins n_del seq]; try assumption; try reflexivity.
          -- apply (sown_keeps m _ _ _ S1). intros b Hb0. apply KE. apply in_or_app. left. exact Hb0.
          -- apply (mark_cells_keeps m _ _ _ E7). intros b Hb0. apply KE. apply in_or_app. right. exact Hb0.
          -- repeat (split; [assumption|]). assumption.
        * exact Nd.
        * intros b Hb0. left. exact Hb0.
  Qed.

  (* ---- lo->seq = lb->useq *)
  Definition set_seq (lo : lopt) (x : Z) : lopt :=
    {| pos := pos lo; n_ins := n_ins lo; n_del := n_del lo; del := del lo; ins := ins lo; seq := x |}.
  Lemma opt_seq_ok (m : mem) bl (blk : block) bh (h0 : block) lb lo (bufv pv ndv : val) c0 c1 c2 c3 c4 c5 c6 c7 c8 (l5 l6 l7 : val) rest :
    let u := length (hist lb) in
    urep T m bl blk bh (R9 h0 u [c0; c1; c2; c3; c4; c5; c6; c7; c8]) (push lb lo) -> (9 * u + 9 <= length h0)%nat ->
    let r' := [c0; c1; c2; c3; c4; c5; VInt (useq lb); c7; c8] in
    let m' := upd m bh (R9 h0 u r') in
    exec cx fuel (SSeq sI rest) (mkst [VPtr bl 0; bufv; pv; ndv; VPtr bh (Z.of_nat (9 * u)); l5; l6; l7] m)
    = exec cx fuel rest (mkst [VPtr bl 0; bufv; pv; ndv; VPtr bh (Z.of_nat (9 * u)); l5; l6; l7] m') /\
    urep T m' bl blk bh (R9 h0 u r') (push lb (set_seq lo (useq lb))) /\
    sframe bl bh m m' (ent_blocks (R9 h0 u [c0; c1; c2; c3; c4; c5; c6; c7; c8]) u) (ent_blocks (R9 h0 u r') u).
  Proof.
    intros u R Hlen r' m'. pose proof R as [Hb L I Cn Rn Cq Ch Csz Cnn Cu Cz Cl Rg Hh Hl He Ho Ht]. destruct Rg as (Rq & _).
    set (r := [c0; c1; c2; c3; c4; c5; c6; c7; c8]) in *.
    assert (Lr9 : length (R9 h0 u r) = length h0) by (apply R9_length; unfold r; cbn [length]; lia).
    pose proof (rec_ent T m bl blk bh h0 lb lo r R) as E. fold u in E.
    destruct (ent_rep_R9_inv m h0 u _ _ _ _ _ _ _ _ _ lo Hlen E) as (S0 & S1 & E2 & E3 & E4 & E5 & E6 & E7 & E8a & E8b & E8c & E8d).
    assert (Eb : ent_blocks (R9 h0 u r') u = ent_blocks (R9 h0 u r) u) by (unfold r, r'; rewrite !ent_blocks_R9 by exact Hlen; reflexivity).
    assert (Nlh : bl <> bh) by (intro X; subst; unfold owned in Ho; inversion Ho as [|? ? Hn _]; apply Hn; left; reflexivity).
    split; [|apply (push_cells T m m bl blk bh h0 lb lo (set_seq lo (useq lb)) r r' TF R Hlen eq_refl eq_refl (le_n _)); fold u; try reflexivity].
    - unfold sI at 1, opt_t9, opt_t8, opt_t7, opt_t6, opt_t5, opt_t4, opt_t3, opt_t2, opt_t1, opt_rest3, opt_rest2, opt_rest1, opt_body; cbn [fn_body cf_lbuf_opt].
      xstep. cbn [push useq] in Cq. xfld Hb Cq. rewrite !(wrap_I32_id (useq lb)) by exact Rq.
      rewrite (fld_store m bh (R9 h0 u r) (9 * u + 6)) by (try exact Hh; try lia; rewrite Lr9; lia). xstep.
      rewrite upd_R9 by (try reflexivity; lia). unfold r. cbn [upd firstn skipn app]. reflexivity.
    - intro KE. unfold r in KE. rewrite ent_blocks_R9 in KE by exact Hlen.
      unfold r'. apply ent_rep_R9; cbn [set_seq ins del pos n_ins n_del seq]; try assumption; try reflexivity.
      + apply (sown_keeps m _ _ _ S0). intros b Hb0. apply KE. apply in_or_app. left. exact Hb0.
      + apply (sown_keeps m _ _ _ S1). intros b Hb0. apply KE. apply in_or_app. right. apply in_or_app. left. exact Hb0.
      + apply (mark_cells_keeps m _ _ _ E7). intros b Hb0. apply KE. apply in_or_app. right. apply in_or_app. right. exact Hb0.
      + repeat (split; [assumption|]). exact Rq.
    - rewrite Eb. apply (rec_nodup T m bl blk bh h0 lb lo r R).
    - intros b Hb0. left. rewrite <- Eb. exact Hb0.
  Qed.
  (* ---- lbuf_savepos(lb, lo): lo->pos_off may change, marks of the struct change *)
  Lemma opt_savepos_ok (m : mem) bl (blk : block) bh (h0 : block) lb lo (bufv pv ndv : val) c0 c1 c2 c3 c4 c5 c6 c7 c8 (l5 l6 l7 : val) rest :
    let u := length (hist lb) in
    urep T m bl blk bh (R9 h0 u [c0; c1; c2; c3; c4; c5; c6; c7; c8]) (push lb lo) -> (9 * u + 9 <= length h0)%nat ->
    exists (m' : mem) (blk' : block) c5',
    exec cx fuel (SSeq sJ rest) (mkst [VPtr bl 0; bufv; pv; ndv; VPtr bh (Z.of_nat (9 * u)); l5; l6; l7] m)
    = exec cx fuel rest (mkst [VPtr bl 0; bufv; pv; ndv; VPtr bh (Z.of_nat (9 * u)); l5; l6; l7] m') /\
    urep T m' bl blk' bh (R9 h0 u [c0; c1; c2; c3; c4; c5'; c6; c7; c8]) (push lb lo) /\
    sframe bl bh m m' (ent_blocks (R9 h0 u [c0; c1; c2; c3; c4; c5; c6; c7; c8]) u) (ent_blocks (R9 h0 u [c0; c1; c2; c3; c4; c5'; c6; c7; c8]) u).
  Proof.
    intros u R Hlen. pose proof R as [Hb L I Cn Rn Cq Ch Csz Cnn Cu Cz Cl Rg Hh Hl He Ho Ht].
    set (r := [c0; c1; c2; c3; c4; c5; c6; c7; c8]) in *.
    assert (Hbl : (bl < length m)%nat) by (apply nth_error_Some; congruence).
    assert (Hbh : (bh < length m)%nat) by (apply nth_error_Some; congruence).
    assert (Nhl : bh <> bl) by (intro X; subst; unfold owned in Ho; inversion Ho as [|? ? Hn _]; apply Hn; left; reflexivity).
    assert (Lr9 : length (R9 h0 u r) = length h0) by (apply R9_length; unfold r; cbn [length]; lia).
    pose proof (rec_ent T m bl blk bh h0 lb lo r R) as E. fold u in E.
    destruct (ent_rep_R9_inv m h0 u _ _ _ _ _ _ _ _ _ lo Hlen E) as (S0 & S1 & E2 & E3 & E4 & E5 & E6 & E7 & E8a & E8b & E8c & E8d).
    destruct (tr_savepos m bl bh blk (R9 h0 u r) u d fuel Hb L I Nhl Hh ltac:(rewrite Lr9; lia)) as (blk' & hblk' & C & Emk & Hh').
    assert (Hr' : exists c5', hblk' = R9 h0 u [c0; c1; c2; c3; c4; c5'; c6; c7; c8] /\ exists z, c5' = VInt z).
    { destruct Hh' as [->|[z ->]]; [exists c5; split; [reflexivity|exact E5]|]. exists (VInt z). split; [|eauto].
      rewrite upd_R9 by (try reflexivity; lia). unfold r. cbn [upd firstn skipn app]. reflexivity. }
    destruct Hr' as (c5' & -> & E5').
    set (r' := [c0; c1; c2; c3; c4; c5'; c6; c7; c8]) in *.
    assert (Eb : ent_blocks (R9 h0 u r') u = ent_blocks (R9 h0 u r) u) by (unfold r, r'; rewrite !ent_blocks_R9 by exact Hlen; reflexivity).
    destruct (push_cells T m m bl blk bh h0 lb lo lo r r' TF R Hlen eq_refl eq_refl (le_n _) ltac:(reflexivity)) as (R1 & F1); fold u.
    { intro KE. unfold r in KE. rewrite ent_blocks_R9 in KE by exact Hlen.
      unfold r'. apply ent_rep_R9; try assumption; try reflexivity.
      + apply (sown_keeps m _ _ _ S0). intros b Hb0. apply KE. apply in_or_app. left. exact Hb0.
      + apply (sown_keeps m _ _ _ S1). intros b Hb0. apply KE. apply in_or_app. right. apply in_or_app. left. exact Hb0.
      + apply (mark_cells_keeps m _ _ _ E7). intros b Hb0. apply KE. apply in_or_app. right. apply in_or_app. right. exact Hb0.
      + repeat (split; [assumption|]). assumption. }
    { rewrite Eb. apply (rec_nodup T m bl blk bh h0 lb lo r R). }
    { intros b Hb0. left. rewrite <- Eb. exact Hb0. }
    fold u in R1, F1.
    exists (upd (upd m bh (R9 h0 u r')) bl blk'), blk', c5'. split; [|split].
    - unfold sJ at 1, opt_t10, opt_t9, opt_t8, opt_t7, opt_t6, opt_t5, opt_t4, opt_t3, opt_t2, opt_t1, opt_rest3, opt_rest2, opt_rest1, opt_body; cbn [fn_body cf_lbuf_opt].
      xstep. unfold cx at 1. rewrite (callx_mono ext _ _ _ _ _ _ _ C). xstep. reflexivity.
    - apply (urep_marks T _ bl blk blk' bh _ _ TF R1 Emk).
    - assert (La : length (upd m bh (R9 h0 u r')) = length m) by (apply upd_length; exact Hbh).
      apply (sframe_trans bl bh m _ _ _ _ _ F1). split; [rewrite (upd_length _ bl) by (rewrite La; exact Hbl); lia|].
      split; [intros b Hb0 N1 N2 _; apply mem_upd_other; [rewrite La; exact Hbl|exact N1]|]. intros b Hb0. left. exact Hb0.
  Qed.
  (* ---- lbuf_savemark(lb, lo, j) on the newest record keeps the representation *)
  Lemma mark_part_nodup (m : mem) hblk i : mark_part m hblk i -> NoDup (mark_blocks hblk i).
  Proof.
    unfold mark_blocks. intros [[-> ->]|(bm & bo & -> & -> & Hne & _)]; cbn [ptr_block app]; [constructor|].
    constructor; [intros [X|[]]; congruence|constructor; [intros []|constructor]].
  Qed.
  Lemma opt_savemark_ok (m : mem) bl (blk : block) bh (hblk : block) lb lo j :
    let u := length (hist lb) in
    urep T m bl blk bh hblk (push lb lo) -> (j < 32)%nat ->
    exists (m' : mem) (hblk' : block),
      callf cprog fuel (S (S (S d))) F_lbuf_savemark [VPtr bl 0; VPtr bh (Z.of_nat (9 * u)); VInt (Z.of_nat j)] m = Ok (VUndef, m') /\
      urep T m' bl blk bh hblk' (push lb lo) /\ sframe bl bh m m' (ent_blocks hblk u) (ent_blocks hblk' u).
  Proof.
    intros u R Hj. pose proof R as [Hb L I Cn Rn Cq Ch Csz Cnn Cu Cz Cl Rg Hh Hl He Ho Ht]. destruct Rg as (Rq & (Ru & Rs) & Rz & Rsz).
    cbn [push hist hist_u hist_sz] in *. rewrite app_length in *. cbn [length] in *. replace (length (hist lb) + 1)%nat with (S u) in * by (unfold u; lia).
    assert (Hbl : (bl < length m)%nat) by (apply nth_error_Some; congruence).
    assert (Hbh : (bh < length m)%nat) by (apply nth_error_Some; congruence).
    assert (Hlen : (9 * u + 9 <= length hblk)%nat) by (rewrite Hl; lia).
    pose proof (He u ltac:(lia)) as E. unfold u in E at 2. rewrite app_nth2 in E by lia. rewrite Nat.sub_diag in E. cbn [nth] in E.
    pose proof E as [S0 S1 E2 E3 E4 E5 E6 E7 E8].
    unfold owned in Ho. rewrite log_blocks_snoc in Ho.
    change (bl :: bh :: log_blocks hblk 0 u ++ ent_blocks hblk u) with ([bl; bh] ++ log_blocks hblk 0 u ++ ent_blocks hblk u) in Ho.
    apply NoDup_app_iff' in Ho. destruct Ho as (Ho1 & Ho2 & Ho3). apply NoDup_app_iff' in Ho2. destruct Ho2 as (Ho2 & Ho4 & Ho5).
    assert (Nhl : bh <> bl) by (intro X; subst; inversion Ho1 as [|? ? Hn _]; apply Hn; left; reflexivity).
    assert (Nmb : forall x, In x [bl; bh] -> ~ In x (mark_blocks hblk u)).
    { intros x Hx X. apply (Ho3 x Hx). apply in_or_app. right. apply mark_blocks_ent. exact X. }
    destruct (tr_savemark m bl bh blk hblk u j (S (S d)) fuel Hb L I Nhl Hh Hlen E7 (Nmb bl ltac:(left; reflexivity)) (Nmb bh ltac:(right; left; reflexivity)) Hj)
      as (m' & hblk' & C & Hh' & Ll & Hc & Hmp & Hlm & Hk & Hfr).
    exists m', hblk'. split; [exact C|].
    (* the record's blocks: ins, del, then the mark arrays *)
    rewrite ent_blocks_eq in Ho4. fold (mark_blocks hblk u) in Ho4.
    rewrite app_assoc in Ho4. apply NoDup_app_iff' in Ho4. destruct Ho4 as (Ho4a & Ho4b & Ho4c).
    assert (Ec0 : hc hblk' (9 * u) = hc hblk (9 * u)) by (apply Hc; lia).
    assert (Ec1 : hc hblk' (9 * u + 1) = hc hblk (9 * u + 1)) by (apply Hc; lia).
    assert (Eb' : ent_blocks hblk' u = (ptr_block (hc hblk (9 * u)) ++ ptr_block (hc hblk (9 * u + 1))) ++ mark_blocks hblk' u).
    { rewrite ent_blocks_eq, Ec0, Ec1, <- app_assoc. reflexivity. }
    assert (Eb : ent_blocks hblk u = (ptr_block (hc hblk (9 * u)) ++ ptr_block (hc hblk (9 * u + 1))) ++ mark_blocks hblk u).
    { rewrite ent_blocks_eq, <- app_assoc. reflexivity. }
    assert (Hsd : forall b, In b (ptr_block (hc hblk (9 * u)) ++ ptr_block (hc hblk (9 * u + 1))) -> nth_error m' b = nth_error m b).
    { intros b Hb0. apply Hk.
      - apply (ent_blocks_live m hblk u lo b E). rewrite Eb. apply in_or_app. left. exact Hb0.
      - intro X; subst. apply (Ho3 bh); [right; left; reflexivity|]. apply in_or_app. right. rewrite Eb. apply in_or_app. left. exact Hb0.
      - apply Ho4c. exact Hb0. }
    assert (Hfr' : forall b, In b (ent_blocks hblk' u) -> In b (ent_blocks hblk u) \/ (length m <= b < length m')%nat).
    { intros b Hb0. rewrite Eb' in Hb0. rewrite Eb. apply in_app_or in Hb0. destruct Hb0 as [X|X]; [left; apply in_or_app; left; exact X|].
      destruct (Hfr b X) as [Y|Y]; [left; apply in_or_app; right; exact Y|right; exact Y]. }
    split.
    - change (push lb lo) with (with_hist (push lb lo) (hist lb ++ [lo])).
      apply (urep_last T m m' bl blk bh hblk hblk' (push lb lo) (hist lb) lo lo TF R eq_refl); fold u; try assumption.
      + intros k Hk'. apply Hc; lia.
      + intros b Hb0 Nb Nin. apply Hk; try assumption. intro X. apply Nin. apply mark_blocks_ent. exact X.
      + constructor; try assumption; rewrite ?Ec0, ?Ec1, ?(Hc (9 * u + 2)%nat), ?(Hc (9 * u + 3)%nat), ?(Hc (9 * u + 4)%nat), ?(Hc (9 * u + 5)%nat), ?(Hc (9 * u + 6)%nat) by lia; try assumption.
        * apply (sown_keeps m _ _ _ S0). intros b Hb0. apply Hsd. apply in_or_app. left. exact Hb0.
        * apply (sown_keeps m _ _ _ S1). intros b Hb0. apply Hsd. apply in_or_app. right. exact Hb0.
      + rewrite Eb'. apply NoDup_app_iff'. split; [exact Ho4a|]. split; [apply (mark_part_nodup m'); exact Hmp|].
        intros x Hx X. destruct (Hfr x X) as [Y|Y]; [apply (Ho4c x Hx Y)|].
        assert (x < length m)%nat; [|lia]. apply (ent_blocks_live m hblk u lo x E). rewrite Eb. apply in_or_app. left. exact Hx.
    - split; [exact Hlm|]. split; [|exact Hfr']. intros b Hb0 N1 N2 Nin. apply Hk; try assumption. intro X. apply Nin. apply mark_blocks_ent. exact X.
  Qed.
  (* ---- for (i = 0; i < NMARKS_BASE; i++) if (lb->mark[i] >= pos && lb->mark[i] < pos + n_del) lbuf_savemark(lb, lo, i); *)
  Definition sK_loop : stmt := match sK with SSeq _ l => l | _ => SSkip end.
  Lemma opt_marks_loop_ok bl (blk : block) bh lb lo (bufv : val) p nd (l6 l7 : val) : let u := length (hist lb) in i31 (p + nd) ->
    forall k j (m : mem) (hblk : block) fuel', (j + k = 28)%nat -> urep T m bl blk bh hblk (push lb lo) -> (k < fuel')%nat ->
    exists (m' : mem) (hblk' : block),
      exec cx fuel' sK_loop (mkst [VPtr bl 0; bufv; VInt (Z.of_nat p); VInt (Z.of_nat nd); VPtr bh (Z.of_nat (9 * u)); VInt (Z.of_nat j); l6; l7] m)
      = ONormal (mkst [VPtr bl 0; bufv; VInt (Z.of_nat p); VInt (Z.of_nat nd); VPtr bh (Z.of_nat (9 * u)); VInt 28; l6; l7] m') /\
      urep T m' bl blk bh hblk' (push lb lo) /\ sframe bl bh m m' (ent_blocks hblk u) (ent_blocks hblk' u).
  Proof.
    intros u Hpn. induction k as [|k IH]; intros j m hblk fuel' Hjk R Hf; (destruct fuel' as [|fuel']; [lia|]);
      unfold sK_loop, sK, opt_t11, opt_t10, opt_t9, opt_t8, opt_t7, opt_t6, opt_t5, opt_t4, opt_t3, opt_t2, opt_t1, opt_rest3, opt_rest2, opt_rest1, opt_body;
      cbn [fn_body cf_lbuf_opt]; rewrite exec_for; xstep;
      change (chk I32 (122 - 97)) with (@Ok Z 25); xstep; change (chk I32 (25 + 3)) with (@Ok Z 28); xstep.
    - assert (j = 28)%nat by lia. subst j. change (Z.of_nat 28 <? 28) with false. xstep.
      exists m, hblk. split; [reflexivity|]. split; [exact R|apply sframe_refl].
    - destruct (Z.ltb_spec (Z.of_nat j) 28); [|lia]. xstep.
      pose proof R as [Hb L I Cn Rn Cq Ch Csz Cnn Cu Cz Cl Rg Hh Hl He Ho Ht].
      destruct (I j ltac:(lia)) as [z Cz0].
      rewrite (fld_load m bl blk j _ _ Hb Cz0) by lia. xstep.
      assert (Hstep : forall (m1 : mem) (h1 : block), urep T m1 bl blk bh h1 (push lb lo) -> sframe bl bh m m1 (ent_blocks hblk u) (ent_blocks h1 u) ->
                exists (m' : mem) (hblk' : block),
                  exec cx fuel' sK_loop (mkst [VPtr bl 0; bufv; VInt (Z.of_nat p); VInt (Z.of_nat nd); VPtr bh (Z.of_nat (9 * u)); VInt (Z.of_nat (S j)); l6; l7] m1)
                  = ONormal (mkst [VPtr bl 0; bufv; VInt (Z.of_nat p); VInt (Z.of_nat nd); VPtr bh (Z.of_nat (9 * u)); VInt 28; l6; l7] m') /\
                  urep T m' bl blk bh hblk' (push lb lo) /\ sframe bl bh m m' (ent_blocks hblk u) (ent_blocks hblk' u)).
      { intros m1 h1 R1 F1.
        destruct (IH (S j) m1 h1 fuel' ltac:(lia) R1 ltac:(lia)) as (m' & hblk' & C' & R' & F').
        exists m', hblk'. split; [exact C'|]. split; [exact R'|]. apply (sframe_trans bl bh m m1 m' _ _ _ F1 F'). }
      unfold sK_loop, sK, opt_t11, opt_t10, opt_t9, opt_t8, opt_t7, opt_t6, opt_t5, opt_t4, opt_t3, opt_t2, opt_t1, opt_rest3, opt_rest2, opt_rest1, opt_body in Hstep;
        cbn [fn_body cf_lbuf_opt] in Hstep.
      destruct (Z.leb_spec (Z.of_nat p) (wrap I32 z)) as [G1|G1]; xstep.
      2:{ rewrite chk_I32 by lia. xstep. replace (Z.of_nat j + 1) with (Z.of_nat (S j)) by lia. apply (Hstep m hblk R). apply sframe_refl. }
      rewrite (fld_load m bl blk j _ _ Hb Cz0) by lia. xstep. rewrite chk_I32 by (unfold i31 in Hpn; lia). xstep.
      destruct (Z.ltb_spec (wrap I32 z) (Z.of_nat p + Z.of_nat nd)) as [G2|G2]; xstep.
      2:{ rewrite chk_I32 by lia. xstep. replace (Z.of_nat j + 1) with (Z.of_nat (S j)) by lia. apply (Hstep m hblk R). apply sframe_refl. }
      destruct (opt_savemark_ok m bl blk bh hblk lb lo j R ltac:(lia)) as (m1 & h1 & C1 & R1 & F1). fold u in C1, F1.
      unfold cx at 1. rewrite (callx_mono ext _ _ _ _ _ _ _ C1). xstep.
      rewrite chk_I32 by lia. xstep. replace (Z.of_nat j + 1) with (Z.of_nat (S j)) by lia. apply (Hstep m1 h1 R1 F1).
  Qed.
  (* ------------------------------------------------------------------ lbuf_opt as a whole *)
  Lemma bufarg_keep (m m' : mem) bl bh v buf : bufarg m bl bh v buf ->
    (forall bb o, v = VPtr bb o -> nth_error m' bb = nth_error m bb) -> bufarg m' bl bh v buf.
  Proof.
    destruct buf as [t|]; [|auto]. intros (bb & s & o & -> & Hs & Hn & Ho & Hm & -> & N1 & N2) K.
    exists bb, s, o. repeat split; try assumption. unfold str_at in *. rewrite (K bb _ eq_refl). exact Hs.
  Qed.
  Definition lo_final (lb : lbuf) (buf : option (list N)) (p nd : nat) : lopt :=
    {| pos := p; n_ins := linecount buf; n_del := nd; del := if Nat.eqb nd 0 then None else Some (lbuf_cp lb p (p + nd)); ins := buf; seq := useq lb |}.
  Lemma lbuf_opt_push lb buf p nd : (0 < hist_sz lb)%nat ->
    lbuf_opt lb buf p nd = push (lbT lb (if Nat.eqb (hist_u lb) (hist_sz lb) then hist_sz lb + hist_sz lb else hist_sz lb)%nat) (lo_final lb buf p nd).
  Proof.
    intro H. unfold lbuf_opt, push, lbT, lo_final. cbn [ln hist hist_u hist_sz useq useq_zero useq_last].
    replace (Nat.eqb (hist_sz lb) 0) with false by (symmetry; apply Nat.eqb_neq; lia). reflexivity.
  Qed.

  Theorem tr_lbuf_opt (m : mem) bl (blk : block) bh (hblk : block) lb (bufv : val) buf p nd :
    cp_oracle bl -> urep T m bl blk bh hblk lb -> bufarg m bl bh bufv buf ->
    (forall bb o, bufv = VPtr bb o -> ~ In bb (log_blocks hblk 0 (length (hist lb)))) ->
    i31 (p + nd) -> Z.of_nat (hist_sz lb) * 2 <= 2147483647 ->
    (length (hist lb) - hist_u lb < fuel)%nat -> (linecount buf < fuel)%nat -> (28 < fuel)%nat ->
    exists (m' : mem) (blk' : block) bh' (hblk' : block),
      callx ext cprog fuel (S (S (S (S d)))) F_lbuf_opt [VPtr bl 0; bufv; VInt (Z.of_nat p); VInt (Z.of_nat nd)] m = Ok (VUndef, m') /\
      urep T m' bl blk' bh' hblk' (lbuf_opt lb buf p nd) /\
      (length m <= length m')%nat /\
      (forall b, (b < length m)%nat -> ~ In b (owned bl bh hblk (length (hist lb))) -> nth_error m' b = nth_error m b) /\
      (forall b, In b (log_blocks hblk (hist_u lb) (length (hist lb) - hist_u lb)) -> nth_error m' b = Some []) /\
      (bh' = bh \/ ((length m <= bh')%nat /\ nth_error m' bh = Some [])).
  Proof.
    intros HC R Hbuf Hnb Hpn Hsz2 Hf1 Hf2 Hf3.
    pose proof R as [Hb L I Cn Rn Cq Ch Csz Cnn Cu Cz Cl Rg Hh Hl He Ho Ht]. destruct Rg as (Rq & (Ru & Rs) & Rz & Rsz).
    set (u := hist_u lb) in *. set (n := length (hist lb)) in *. set (sz := hist_sz lb) in *.
    set (D := log_blocks hblk u (n - u)).
    assert (Hbl : (bl < length m)%nat) by (apply nth_error_Some; congruence).
    assert (Hbh : (bh < length m)%nat) by (apply nth_error_Some; congruence).
    assert (Nhl : bh <> bl) by (intro X; subst; unfold owned in Ho; inversion Ho as [|? ? Hn _]; apply Hn; left; reflexivity).
    (* 1: the redo branch *)
    destruct (opt_drop_ok m bl blk bh hblk lb bufv (VInt (Z.of_nat p)) (VInt (Z.of_nat nd)) VUndef VUndef VUndef VUndef R Hf1) as (C1 & ND & LD & NblD & NbhD).
    fold u n D in C1, ND, LD, NblD, NbhD. set (m1 := free_blocks D m) in *.
    assert (Lm1 : length m1 = length m) by (apply free_blocks_length; exact LD).
    assert (Hb1 : nth_error m1 bl = Some blk) by (unfold m1; rewrite free_blocks_other by assumption; exact Hb).
    assert (Hh1 : nth_error m1 bh = Some hblk) by (unfold m1; rewrite free_blocks_other by assumption; exact Hh).
    (* 2: hist_n = hist_u; growth *)
    destruct (opt_setn_grow_ok m1 bl blk bh hblk u n sz bufv (VInt (Z.of_nat p)) (VInt (Z.of_nat nd)) VUndef (VInt (Z.of_nat n)) VUndef VUndef
                Hb1 L Nhl Hh1 Hl Rz ltac:(lia) Hsz2 Ch Csz Cnn Cu)
      as (mG & blkG & bhG & hblkG & v6 & v7 & C2 & C3 & HbG & LG & EG & G69 & G70 & G71 & HhG & LhG & HcG & HbhG & LmG & HkG & HfreeG).
    set (sz' := if Nat.eqb u sz then (sz + sz)%nat else sz) in *.
    assert (Hsz' : (u <= sz')%nat /\ (0 < sz')%nat /\ i31 sz' /\ (u < sz')%nat).
    { unfold sz', i31. destruct (Nat.eqb_spec u sz); repeat split; lia. }
    destruct Hsz' as (Hus' & Hz' & Hi' & Hroom).
    assert (RT : urep T mG bl blkG bhG hblkG (lbT lb sz')).
    { apply (urep_trunc T m mG bl blk blkG bh bhG hblk hblkG lb sz' TF R); fold u n; try assumption.
      - intros j Hj. rewrite EG by (unfold L_hist, L_hist_sz, L_hist_n; lia). apply I. exact Hj.
      - intros j _ J1 J2 J3. apply EG; assumption.
      - destruct HbhG as [->|X]; [left; reflexivity|right; lia].
      - lia.
      - intros b Hb0 N1 N2 N3. rewrite HkG by (try lia; assumption). unfold m1. apply free_blocks_other; assumption. }
    assert (HbufG : bufarg mG bl bhG bufv buf).
    { destruct buf as [t|]; [|exact Hbuf]. destruct Hbuf as (bb & s & o & Ev & Hs & Hn & Ho' & Hm & Et & N1 & N2).
      assert (B1 : (bb < length m)%nat) by (apply nth_error_Some; unfold str_at in Hs; congruence).
      exists bb, s, o. repeat split; try assumption.
      - unfold str_at in *. rewrite HkG by (try lia; assumption). unfold m1. rewrite free_blocks_other; [exact Hs|exact LD|].
        intro X. apply (Hnb bb _ Ev). fold n. rewrite (log_blocks_split hblk u n Ru). apply in_or_app. right. exact X.
      - destruct HbhG as [->|Y]; [exact N2|lia]. }
    (* 3: the record *)
    assert (HunT : hist_u (lbT lb sz') = length (hist (lbT lb sz'))) by (cbn [lbT hist hist_u]; rewrite firstn_length; fold u n; lia).
    assert (LhT : length (hist (lbT lb sz')) = u) by (cbn [lbT hist]; rewrite firstn_length; fold u n; lia).
    assert (HroomT : (length (hist (lbT lb sz')) < hist_sz (lbT lb sz'))%nat) by (rewrite LhT; cbn [lbT hist_sz]; exact Hroom).
    assert (Hp : i31 p /\ i31 nd) by (unfold i31 in *; lia). destruct Hp as (Hp & Hnd).
    assert (HlenG : (9 * u + 9 <= length hblkG)%nat) by (rewrite LhG; lia).
    set (restF := SSeq sF (SSeq sG (SSeq sH (SSeq sI (SSeq sJ sK))))).
    destruct (opt_init_ok mG bl blkG bhG hblkG (lbT lb sz') bufv p nd VUndef (VInt (Z.of_nat n)) v6 v7 restF RT HunT HroomT Hp Hnd) as (C4 & R4).
    rewrite LhT in C4, R4.
    set (blkE := upd (upd blkG L_hist_n (VInt (Z.of_nat (S u)))) L_hist_u (VInt (Z.of_nat (S u)))) in *.
    set (mE := upd (upd mG bhG (R9 hblkG u [VInt 0; VInt 0; VInt (Z.of_nat p); VInt 0; VInt (Z.of_nat nd); VInt 0; VInt 0; VInt 0; VInt 0])) bl blkE) in *.
    assert (HbhGl : (bhG < length mG)%nat) by (apply nth_error_Some; congruence).
    assert (HblG : (bl < length mG)%nat) by (apply nth_error_Some; congruence).
    assert (NhlG : bhG <> bl) by (intro X; subst; pose proof (u_own _ _ _ _ _ _ _ RT) as X; unfold owned in X; inversion X as [|? ? Hn _]; apply Hn; left; reflexivity).
    assert (LmE : length mE = length mG).
    { unfold mE. rewrite (upd_length _ bl) by (rewrite upd_length by exact HbhGl; exact HblG). apply upd_length. exact HbhGl. }
    assert (KE : forall b, b <> bl -> b <> bhG -> nth_error mE b = nth_error mG b).
    { intros b N1 N2. unfold mE. rewrite mem_upd_other by (rewrite ?upd_length by exact HbhGl; assumption). apply mem_upd_other; assumption. }
    assert (HbufE : bufarg mE bl bhG bufv buf).
    { apply (bufarg_frame mG mE bl bhG bufv buf HbufG). intros b _ N1 N2. apply KE; assumption. }
    (* del *)
    assert (HlenT : (9 * length (hist (lbT lb sz')) + 9 <= length hblkG)%nat) by (rewrite LhT; exact HlenG).
    pose proof (opt_del_ok mE bl blkE bhG hblkG (lbT lb sz') (lo_init p nd) bufv p nd (VInt 0) (VInt (Z.of_nat p)) (VInt 0) (VInt (Z.of_nat nd)) (VInt 0) (VInt 0) (VInt 0) (VInt 0)
                  (VInt (Z.of_nat n)) v6 v7 (SSeq sG (SSeq sH (SSeq sI (SSeq sJ sK)))) HC) as X5. cbv zeta in X5. rewrite LhT in X5.
    destruct (X5 R4 HlenG Hpn) as (m5 & c1 & C5 & R5 & F5). clear X5.
    change (lbuf_cp (lbT lb sz') p (p + nd)) with (lbuf_cp lb p (p + nd)) in R5.
    set (lo5 := set_del (lo_init p nd) (if Nat.eqb nd 0 then None else Some (lbuf_cp lb p (p + nd)))) in *.
    assert (Hbuf5 : bufarg m5 bl bhG bufv buf).
    { apply (bufarg_keep mE m5 bl bhG bufv buf HbufE). intros bb o Ev. destruct F5 as (_ & F5 & _).
      destruct buf as [t|]; [|cbn in HbufE; congruence]. destruct HbufE as (bb' & s & o' & Ev' & Hs & _ & _ & _ & _ & N1 & N2).
      rewrite Ev in Ev'. injection Ev' as -> _. apply F5; try assumption; [apply nth_error_Some; unfold str_at in Hs; congruence|].
      rewrite ent_blocks_R9 by exact HlenG. cbn [ptr_block app]. intros []. }
    (* n_ins *)
    pose proof (opt_nins_ok m5 bl blkE bhG hblkG (lbT lb sz') lo5 bufv buf (VInt (Z.of_nat p)) (VInt (Z.of_nat nd)) (VInt 0) c1 (VInt (Z.of_nat p)) (VInt 0)
                  (VInt (Z.of_nat nd)) (VInt 0) (VInt 0) (VInt 0) (VInt 0) (VInt (Z.of_nat n)) v6 v7 (SSeq sH (SSeq sI (SSeq sJ sK)))) as X6.
    cbv zeta in X6. rewrite LhT in X6. destruct (X6 R5 HlenG Hbuf5 Hf2) as (C6 & R6 & F6). clear X6.
    set (m6 := upd m5 bhG (R9 hblkG u [VInt 0; c1; VInt (Z.of_nat p); VInt (Z.of_nat (linecount buf)); VInt (Z.of_nat nd); VInt 0; VInt 0; VInt 0; VInt 0])) in *.
    assert (Hbh5 : (bhG < length m5)%nat) by (apply nth_error_Some; rewrite (u_hblk _ _ _ _ _ _ _ R5); discriminate).
    assert (Hbuf6 : bufarg m6 bl bhG bufv buf).
    { apply (bufarg_frame m5 m6 bl bhG bufv buf Hbuf5). intros b _ _ N2. unfold m6. apply mem_upd_other; assumption. }
    (* ins *)
    pose proof (opt_ins_ok m6 bl blkE bhG hblkG (lbT lb sz') (set_nins lo5 (linecount buf)) bufv buf (VInt (Z.of_nat p)) (VInt (Z.of_nat nd)) c1 (VInt (Z.of_nat p))
                  (VInt (Z.of_nat (linecount buf))) (VInt (Z.of_nat nd)) (VInt 0) (VInt 0) (VInt 0) (VInt 0) (VInt (Z.of_nat n)) v6 v7 (SSeq sI (SSeq sJ sK))) as X7.
    cbv zeta in X7. rewrite LhT in X7. destruct (X7 R6 HlenG Hbuf6) as (m7 & c0 & C7 & R7 & F7). clear X7.
    (* seq *)
    pose proof (opt_seq_ok m7 bl blkE bhG hblkG (lbT lb sz') (set_ins (set_nins lo5 (linecount buf)) buf) bufv (VInt (Z.of_nat p)) (VInt (Z.of_nat nd)) c0 c1 (VInt (Z.of_nat p))
                  (VInt (Z.of_nat (linecount buf))) (VInt (Z.of_nat nd)) (VInt 0) (VInt 0) (VInt 0) (VInt 0) (VInt (Z.of_nat n)) v6 v7 (SSeq sJ sK)) as X8.
    cbv zeta in X8. rewrite LhT in X8. destruct (X8 R7 HlenG) as (C8 & R8 & F8). clear X8. cbn [lbT useq] in C8, R8, F8.
    set (m8 := upd m7 bhG (R9 hblkG u [c0; c1; VInt (Z.of_nat p); VInt (Z.of_nat (linecount buf)); VInt (Z.of_nat nd); VInt 0; VInt (useq lb); VInt 0; VInt 0])) in *.
    (* savepos *)
    pose proof (opt_savepos_ok m8 bl blkE bhG hblkG (lbT lb sz') (set_seq (set_ins (set_nins lo5 (linecount buf)) buf) (useq lb)) bufv (VInt (Z.of_nat p)) (VInt (Z.of_nat nd)) c0 c1
                  (VInt (Z.of_nat p)) (VInt (Z.of_nat (linecount buf))) (VInt (Z.of_nat nd)) (VInt 0) (VInt (useq lb)) (VInt 0) (VInt 0) (VInt (Z.of_nat n)) v6 v7 sK) as X9.
    cbv zeta in X9. rewrite LhT in X9. destruct (X9 R8 HlenG) as (m9 & blk9 & c5 & C9 & R9' & F9). clear X9.
    (* the marks *)
    assert (Elo : set_seq (set_ins (set_nins lo5 (linecount buf)) buf) (useq lb) = lo_final lb buf p nd) by reflexivity.
    rewrite Elo in R9'.
    pose proof (opt_marks_loop_ok bl blk9 bhG (lbT lb sz') (lo_final lb buf p nd) bufv p nd v6 v7) as X10. cbv zeta in X10. rewrite LhT in X10.
    destruct (X10 Hpn 28%nat 0%nat m9 _ fuel eq_refl R9' Hf3) as (m10 & hblk10 & C10 & R10 & F10). clear X10.
    (* the frame from the start of the append *)
    pose proof (sframe_trans _ _ _ _ _ _ _ _ (sframe_trans _ _ _ _ _ _ _ _ (sframe_trans _ _ _ _ _ _ _ _ (sframe_trans _ _ _ _ _ _ _ _ (sframe_trans _ _ _ _ _ _ _ _ F5 F6) F7) F8) F9) F10) as FA.
    rewrite ent_blocks_R9 in FA by exact HlenG. cbn [ptr_block app] in FA. destruct FA as (FA1 & FA2 & _).
    assert (KG : forall b, (b < length mG)%nat -> b <> bl -> b <> bhG -> nth_error m10 b = nth_error mG b).
    { intros b Hb0 N1 N2. rewrite FA2; [apply KE; assumption|rewrite LmE; exact Hb0|exact N1|exact N2|intros []]. }
    exists m10, blk9, bhG, hblk10. split; [|split; [rewrite (lbuf_opt_push lb buf p nd Rz); exact R10|]].
    - rewrite callx_S. cbn [nth_error cprog F_lbuf_opt cf_lbuf_opt fn_nparams fn_nlocals length Nat.eqb Nat.sub repeat app]. fold cx.
      match goal with |- context [exec cx fuel ?b ?st] => change (exec cx fuel b st) with (exec cx fuel opt_body st) end.
      rewrite opt_body_eq, exec_seq, C1, exec_seq, C2, exec_seq, C3, opt_rest3_eq. fold restF. rewrite C4. unfold restF. rewrite C5, C6, C7, C8, C9.
      unfold sK, opt_t11, opt_t10, opt_t9, opt_t8, opt_t7, opt_t6, opt_t5, opt_t4, opt_t3, opt_t2, opt_t1, opt_rest3, opt_rest2, opt_rest1, opt_body; cbn [fn_body cf_lbuf_opt].
      rewrite exec_seq. xstep.
      unfold sK_loop, sK, opt_t11, opt_t10, opt_t9, opt_t8, opt_t7, opt_t6, opt_t5, opt_t4, opt_t3, opt_t2, opt_t1, opt_rest3, opt_rest2, opt_rest1, opt_body in C10; cbn [fn_body cf_lbuf_opt] in C10.
      change (Z.of_nat 0) with 0 in C10. rewrite C10. reflexivity.
    - split; [lia|]. split; [|split].
      + intros b Hb0 Nin. unfold owned in Nin. fold n in Nin.
        assert (N1 : b <> bl) by (intro X; apply Nin; left; auto). assert (N2 : b <> bh) by (intro X; apply Nin; right; left; auto).
        assert (N3 : ~ In b D) by (intro X; apply Nin; right; right; rewrite (log_blocks_split hblk u n Ru); apply in_or_app; right; exact X).
        rewrite KG; [|lia|exact N1|destruct HbhG as [->|Y]; [exact N2|lia]].
        rewrite HkG by (try lia; assumption). unfold m1. apply free_blocks_other; assumption.
      + intros b Hb0. assert (B1 : (b < length m)%nat) by (apply LD; exact Hb0).
        assert (N1 : b <> bl) by (intro X; subst; contradiction). assert (N2 : b <> bh) by (intro X; subst; contradiction).
        rewrite KG; [|lia|exact N1|destruct HbhG as [->|Y]; [exact N2|lia]].
        rewrite HkG by (try lia; assumption). unfold m1. apply free_blocks_in; assumption.
      + destruct (Nat.eq_dec bhG bh) as [->|Nb]; [left; reflexivity|]. right. destruct HbhG as [X|X]; [contradiction|]. split; [lia|].
        rewrite KG; [apply HfreeG; exact Nb|lia|congruence|congruence].
  Qed.
End Opt.
