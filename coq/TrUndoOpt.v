(* TrUndoOpt.v -- lbuf_opt and lbuf_edit of /repo/lbuf.c on the translated C text (GenCFuncs.v): the log afterwards
   represents UndoDefs.lbuf_opt of the log before.  lbuf_cp (the copy of the deleted lines, built through an sbuf) and
   lbuf_replace are oracles (X_lbuf_cp, X_lbuf_replace, CLiteExt.callx); linecount, uc_dup, lopt_done, lbuf_savepos,
   lbuf_savemark run as translated.

   * the redo branch (records hist_u .. hist_n - 1) is freed record by record through lopt_done, every block exactly once
     (the call returning Ok excludes a double free: free() of a freed block is EOob in CLite.v), and nothing else is freed;
   * hist[] grows when hist_n == hist_sz, by the model's rule (doubling; the HIST_INIT arm of the C expression is the
     hist == NULL case, which is NOT covered: its memcpy(hist, NULL, 0) is undefined by C11 7.24.1p2 and rejected by CLite.v,
     see tr_lbuf_opt_null below): fresh array, the first hist_n records copied, the old array freed, hist / hist_sz stored;
   * one record is appended with the model's fields (pos, n_del, del = lbuf_cp or NULL, n_ins = linecount, ins = a fresh
     copy of buf or NULL, seq = lb->useq), hist_n = hist_u = old hist_u + 1. *)
From Coq Require Import List ZArith NArith Bool Lia.
From NV Require Import Bytes GenConsts CLite CLiteProps GenCFuncs CLiteTac CLiteExt TrLbufBase UndoDefs TrUndoBase.
From NV Require TrLbuf TrLbufLines IoDefs.
Import ListNotations.
Local Open Scope Z_scope.

(* ------------------------------------------------------------------ linecount: the two models agree *)
Lemma lc_lines (s : list N) : IoDefs.linecount_aux false s = length (lines_of s) /\
                              IoDefs.linecount_aux true s = Nat.max 1 (length (lines_of s)).
Proof.
  induction s as [|c s [IH1 IH2]]; [split; reflexivity|]. cbn [IoDefs.linecount_aux lines_of]. unfold IoDefs.is_nl, NL, IoDefs.NL in *.
  destruct (N.eqb c 10).
  - cbn [length]. rewrite IH1. split; [reflexivity|lia].
  - rewrite IH2. destruct (lines_of s) as [|l r]; cbn [length]; split; lia.
Qed.
Lemma linecount_models (s : list N) : IoDefs.linecount s = linecount (Some s).
Proof. unfold IoDefs.linecount, linecount, lines_opt. apply (proj1 (lc_lines s)). Qed.

(* ------------------------------------------------------------------ uc_dup: malloc(strlen(s) + 1), strcpy *)
Lemma str_at_app (m : mem) x b s : str_at m b s -> str_at (m ++ [x]) b s.
Proof. unfold str_at. intro H. rewrite nth_error_app_old by (apply nth_error_Some; congruence). exact H. Qed.
Lemma cstr_block_len (t : bytes) : length (cstr_block (zb t)) = S (length t).
Proof. unfold cstr_block, zb. rewrite app_length, !map_length. cbn. lia. Qed.

Theorem tr_uc_dup (m : mem) b s o d fuel : str_at m b s -> nonul s -> (o <= length s)%nat -> Z.of_nat (length s) <= 2147483647 ->
  callf cprog fuel (S d) F_uc_dup [VPtr b (Z.of_nat o)] m = Ok (VPtr (length m) 0, m ++ [cstr_block (zb (skipn o s))]).
Proof.
  intros Hs Hn Ho Hmax. enter F_uc_dup cf_uc_dup. xstep.
  rewrite (builtin_strlen m b s o Hs Hn Ho). xstep. change (wrap U64 1) with 1.
  rewrite chk_U64 by lia. xstep. rewrite malloc_ok by lia. xstep.
  set (U := repeat VUndef (Z.to_nat (Z.of_nat (length s - o) + 1))).
  cbn [do_builtin_m]. rewrite (blk_from_str (m ++ [U]) b s o (str_at_app m U b s Hs) Ho). cbn [bind].
  rewrite scan0_cstr by (apply Forall_skipn'; exact Hn). cbn [bind Nat.add].
  set (t := skipn o s). assert (Lt : length t = (length s - o)%nat) by (apply skipn_length).
  rewrite firstn_all2 by (rewrite cstr_block_len; lia).
  rewrite (write_cells_ok (m ++ [U]) (length m) U 0 (cstr_block (zb t))); try lia.
  - cbn [bind]. xstep. rewrite upd_app_new. change (Z.to_nat 0) with 0%nat. rewrite put_cells_0.
    rewrite skipn_all2 by (unfold U; rewrite repeat_length, cstr_block_len; lia). rewrite app_nil_r. reflexivity.
  - apply nth_error_app_new.
  - unfold U. rewrite repeat_length, cstr_block_len. lia.
Qed.

(* ------------------------------------------------------------------ freeing what records own *)
Definition free_blocks (bs : list nat) (m : mem) : mem := fold_left (fun m b => upd m b []) bs m.
Definition all_live (bs : list nat) (m : mem) : Prop := forall b, In b bs -> (b < length m)%nat.
Lemma free_blocks_cons b bs (m : mem) : free_blocks (b :: bs) m = free_blocks bs (upd m b []).
Proof. reflexivity. Qed.
Lemma all_live_upd bs (m : mem) b x : (b < length m)%nat -> all_live bs m -> all_live bs (upd m b x).
Proof. intros Hb H c Hc. rewrite upd_length by exact Hb. apply H. exact Hc. Qed.
Lemma free_blocks_length bs : forall m : mem, all_live bs m -> length (free_blocks bs m) = length m.
Proof.
  induction bs as [|b bs IH]; intros m H; [reflexivity|]. rewrite free_blocks_cons.
  assert (Hb : (b < length m)%nat) by (apply H; left; reflexivity).
  rewrite IH by (apply all_live_upd; [exact Hb|intros c Hc; apply H; right; exact Hc]). apply upd_length. exact Hb.
Qed.
Lemma free_blocks_other bs : forall (m : mem) c, all_live bs m -> ~ In c bs -> nth_error (free_blocks bs m) c = nth_error m c.
Proof.
  induction bs as [|b bs IH]; intros m c H Hn; [reflexivity|]. rewrite free_blocks_cons.
  assert (Hb : (b < length m)%nat) by (apply H; left; reflexivity).
  rewrite IH; [|apply all_live_upd; [exact Hb|intros x Hx; apply H; right; exact Hx]|intro X; apply Hn; right; exact X].
  apply mem_upd_other; [exact Hb|]. intro X. apply Hn. left. auto.
Qed.
Lemma free_blocks_in bs : forall (m : mem) c, all_live bs m -> NoDup bs -> In c bs -> nth_error (free_blocks bs m) c = Some [].
Proof.
  induction bs as [|b bs IH]; intros m c H Hnd Hin; [destruct Hin|]. rewrite free_blocks_cons.
  assert (Hb : (b < length m)%nat) by (apply H; left; reflexivity).
  assert (H' : all_live bs (upd m b [])) by (apply all_live_upd; [exact Hb|intros x Hx; apply H; right; exact Hx]).
  inversion Hnd as [|? ? Hnb Hnd']; subst. destruct Hin as [<-|Hin].
  - rewrite free_blocks_other by assumption. apply mem_upd_same. exact Hb.
  - apply IH; assumption.
Qed.

Definition freeable (m : mem) (v : val) : Prop := v = VInt 0 \/ exists b blk, v = VPtr b 0 /\ nth_error m b = Some blk /\ blk <> [].
Lemma free_list_ok vs : forall m : mem, Forall (freeable m) vs -> NoDup (flat_map ptr_block vs) ->
  TrLbuf.free_list vs m = Ok (free_blocks (flat_map ptr_block vs) m).
Proof.
  induction vs as [|v vs IH]; intros m HF Hnd; [reflexivity|]. inversion HF as [|? ? Hv HF']; subst.
  cbn [TrLbuf.free_list flat_map]. destruct Hv as [->|(b & blk & -> & Hb & Hne)].
  - cbn [do_builtin_m ptr_block app]. apply IH; assumption.
  - rewrite (free_ok m b blk Hb Hne). cbn [ptr_block app] in *. rewrite free_blocks_cons.
    inversion Hnd as [|? ? Hnb Hnd']; subst. apply IH; [|exact Hnd'].
    assert (Hbl : (b < length m)%nat) by (apply nth_error_Some; congruence).
    rewrite Forall_forall in *. intros w Hw. destruct (HF' w Hw) as [->|(b' & blk' & -> & Hb' & Hne')]; [left; reflexivity|].
    right. exists b', blk'. split; [reflexivity|]. split; [|exact Hne']. rewrite mem_upd_other; [exact Hb'|exact Hbl|].
    intro X. subst b'. apply Hnb. apply in_flat_map. exists (VPtr b 0). split; [exact Hw|left; reflexivity].
Qed.

Lemma cstr_from_nonempty (m : mem) b t : cstr_from m b 0 t -> exists blk, nth_error m b = Some blk /\ blk <> [].
Proof.
  intros (blk & H & _ & E). exists blk. split; [exact H|]. intro X. subst blk. cbn in E. unfold cstr_block in E.
  destruct (map VInt (zb t)); discriminate.
Qed.
Lemma sown_freeable (m : mem) v s : sown m v s -> freeable m v.
Proof.
  destruct s as [t|]; [|intros ->; left; reflexivity]. intros (_ & b & -> & H). destruct (cstr_from_nonempty m b t H) as (blk & Hb & Hne).
  right. exists b, blk. auto.
Qed.
Lemma ent_freeable (m : mem) hblk i lo : ent_rep m hblk i lo -> Forall (freeable m) (TrLbuf.ent_ptrs hblk i).
Proof.
  intros [H0 H1 _ _ _ _ _ H7 _]. unfold TrLbuf.ent_ptrs. fold (hc hblk (9 * i)) (hc hblk (9 * i + 1)) (hc hblk (9 * i + 7)) (hc hblk (9 * i + 8)).
  repeat apply Forall_cons; try apply Forall_nil; try (eapply sown_freeable; eassumption).
  - destruct H7 as [[-> _]|(bm & bo & -> & _ & _ & mb & ob & Hm & _ & Lm & _)]; [left; reflexivity|].
    right. exists bm, mb. split; [reflexivity|]. split; [exact Hm|]. intro X; subst; discriminate.
  - destruct H7 as [[_ ->]|(bm & bo & _ & -> & _ & mb & ob & _ & Hob & _ & Lo & _)]; [left; reflexivity|].
    right. exists bo, ob. split; [reflexivity|]. split; [exact Hob|]. intro X; subst; discriminate.
Qed.
Lemma ent_blocks_live (m : mem) hblk i lo b : ent_rep m hblk i lo -> In b (ent_blocks hblk i) -> (b < length m)%nat.
Proof.
  intros E Hb. pose proof (ent_freeable m hblk i lo E) as F. unfold ent_blocks in Hb. apply in_flat_map in Hb. destruct Hb as (v & Hv & Hb).
  rewrite Forall_forall in F. destruct (F v Hv) as [->|(b' & blk & -> & Hm & _)]; [destruct Hb|].
  destruct Hb as [<-|[]]. apply nth_error_Some. congruence.
Qed.

Lemma flat_map_flat_map {A B C} (f : B -> list C) (g : A -> list B) l : flat_map f (flat_map g l) = flat_map (fun x => flat_map f (g x)) l.
Proof. induction l as [|x l IH]; [reflexivity|]. cbn [flat_map]. rewrite flat_map_app, IH. reflexivity. Qed.
Lemma ptrs_blocks hblk i k : flat_map ptr_block (TrLbuf.ptrs_from hblk i k) = log_blocks hblk i k.
Proof. unfold TrLbuf.ptrs_from, log_blocks. apply flat_map_flat_map. Qed.
Lemma log_blocks_split hblk u n : (u <= n)%nat -> log_blocks hblk 0 n = log_blocks hblk 0 u ++ log_blocks hblk u (n - u).
Proof.
  intro H. unfold log_blocks. replace n with (u + (n - u))%nat at 1 by lia. rewrite seq_app, flat_map_app. reflexivity.
Qed.
Lemma log_blocks_snoc hblk u : log_blocks hblk 0 (S u) = log_blocks hblk 0 u ++ ent_blocks hblk u.
Proof. unfold log_blocks. rewrite seq_S, flat_map_app. cbn [flat_map Nat.add]. rewrite app_nil_r. reflexivity. Qed.
Lemma log_blocks_cells hblk hblk' i k : (forall j, (j < 9 * (i + k))%nat -> hc hblk' j = hc hblk j) -> log_blocks hblk' i k = log_blocks hblk i k.
Proof.
  revert i; induction k as [|k IH]; intros i H; [reflexivity|]. unfold log_blocks. cbn [List.seq flat_map].
  fold (log_blocks hblk' (S i) k) (log_blocks hblk (S i) k). rewrite (ent_blocks_cells hblk hblk' i) by (intros j Hj; apply H; lia).
  rewrite IH by (intros j Hj; apply H; lia). reflexivity.
Qed.
Lemma ptrs_freeable (m : mem) hblk (h : list lopt) : forall k i, (forall j, (i <= j < i + k)%nat -> ent_rep m hblk j (nth j h dflt)) ->
  Forall (freeable m) (TrLbuf.ptrs_from hblk i k).
Proof.
  induction k as [|k IH]; intros i H; [apply Forall_nil|]. unfold TrLbuf.ptrs_from. cbn [List.seq flat_map].
  apply Forall_app. split; [apply (ent_freeable m hblk i (nth i h dflt)); apply H; lia|]. apply IH. intros j Hj. apply H. lia.
Qed.

(* ------------------------------------------------------------------ the newest record changes *)
Lemma NoDup_app_iff' {A} (l1 l2 : list A) : NoDup (l1 ++ l2) <-> NoDup l1 /\ NoDup l2 /\ (forall x, In x l1 -> ~ In x l2).
Proof.
  induction l1 as [|a l1 IH]; cbn [app].
  - split; [intro H; split; [constructor|split; [exact H|intros x []]]|intros (_ & H & _); exact H].
  - rewrite !NoDup_cons_iff, IH, in_app_iff. split.
    + intros (Hn & H1 & H2 & H3). split; [split; [tauto|exact H1]|]. split; [exact H2|]. intros x [<-|Hx]; [tauto|apply H3; exact Hx].
    + intros ((Hn & H1) & H2 & H3). split; [intros [X|X]; [tauto|apply (H3 a); [left; reflexivity|exact X]]|].
      split; [exact H1|]. split; [exact H2|]. intros x Hx. apply H3. right. exact Hx.
Qed.

Definition with_hist (lb : lbuf) (h : list lopt) : lbuf :=
  {| ln := ln lb; hist := h; hist_u := hist_u lb; hist_sz := hist_sz lb; useq := useq lb; useq_zero := useq_zero lb; useq_last := useq_last lb |}.

Lemma urep_last T (m m' : mem) bl (blk : block) bh (hblk hblk' : block) lb h lo lo' :
  T_frame T -> urep T m bl blk bh hblk lb -> hist lb = h ++ [lo] -> let u := length h in
  nth_error m' bh = Some hblk' -> length hblk' = length hblk ->
  (forall k, ~ (9 * u <= k < 9 * u + 9)%nat -> hc hblk' k = hc hblk k) ->
  (length m <= length m')%nat ->
  (forall b, (b < length m)%nat -> b <> bh -> ~ In b (ent_blocks hblk u) -> nth_error m' b = nth_error m b) ->
  ent_rep m' hblk' u lo' ->
  NoDup (ent_blocks hblk' u) -> (forall b, In b (ent_blocks hblk' u) -> In b (ent_blocks hblk u) \/ (length m <= b < length m')%nat) ->
  urep T m' bl blk bh hblk' (with_hist lb (h ++ [lo'])).
Proof.
  intros TF [Hb L I Cn Rn Cq Ch Csz Cnn Cu Cz Cl Rg Hh Hl He Ho (fp & Ht & Hfp)] Hh0 u Hh' Ll Hc Hlen Hk E' Nd' Hfr.
  rewrite Hh0, app_length in *. cbn [length] in *. replace (length h + 1)%nat with (S u) in * by (unfold u; lia).
  unfold owned in *. rewrite log_blocks_snoc in Ho, Hfp.
  change (bl :: bh :: log_blocks hblk 0 u ++ ent_blocks hblk u) with ([bl; bh] ++ log_blocks hblk 0 u ++ ent_blocks hblk u) in Ho.
  apply NoDup_app_iff' in Ho. destruct Ho as (Ho1 & Ho2 & Ho3). apply NoDup_app_iff' in Ho2. destruct Ho2 as (Ho2 & Ho4 & Ho5).
  assert (Hbl : (bl < length m)%nat) by (apply nth_error_Some; congruence).
  assert (Hbh : (bh < length m)%nat) by (apply nth_error_Some; congruence).
  assert (Nhl : bh <> bl) by (intro X; subst; inversion Ho1 as [|? ? Hn _]; apply Hn; left; reflexivity).
  assert (Hlog : forall i, (i < u)%nat -> forall k, (k < 9)%nat -> hc hblk' (9 * i + k) = hc hblk (9 * i + k)) by (intros i Hi k Hk'; apply Hc; lia).
  assert (Hlb : log_blocks hblk' 0 u = log_blocks hblk 0 u) by (apply log_blocks_cells; intros j Hj; apply Hc; lia).
  assert (Hlive : forall b, In b (log_blocks hblk 0 u) -> (b < length m)%nat).
  { intros b Hb'. unfold log_blocks in Hb'. apply in_flat_map in Hb'. destruct Hb' as (i & Hi & Hb'). apply in_seq in Hi.
    apply (ent_blocks_live m hblk i (nth i (h ++ [lo]) dflt)); [apply He; lia|exact Hb']. }
  assert (Hnew : forall b, In b (ent_blocks hblk' u) -> b <> bl /\ b <> bh /\ ~ In b (log_blocks hblk 0 u)).
  { intros b Hb'. destruct (Hfr b Hb') as [Old|Fresh].
    - split; [intro X; subst; apply (Ho3 bl); [left; reflexivity|apply in_or_app; right; exact Old]|].
      split; [intro X; subst; apply (Ho3 bh); [right; left; reflexivity|apply in_or_app; right; exact Old]|].
      intro X. apply (Ho5 b X Old).
    - split; [lia|]. split; [lia|]. intro X. apply Hlive in X. lia. }
  constructor; cbn [with_hist ln hist hist_u hist_sz useq useq_zero useq_last]; rewrite ?app_length; cbn [length];
    replace (length h + 1)%nat with (S u) by (unfold u; lia); try assumption.
  - rewrite Hk; [exact Hb|exact Hbl|congruence|]. intro X. apply (Ho3 bl); [left; reflexivity|apply in_or_app; right; exact X].
  - rewrite Ll. exact Hl.
  - intros i Hi. destruct (Nat.eq_dec i u) as [->|Hne].
    + unfold u. rewrite app_nth2 by lia. rewrite Nat.sub_diag. exact E'.
    + assert (Hiu : (i < u)%nat) by lia. rewrite app_nth1 by (fold u; lia).
      pose proof (He i ltac:(lia)) as Ei. rewrite app_nth1 in Ei by (fold u; lia).
      apply (ent_rep_cells m' hblk hblk' i); [|apply Hlog; exact Hiu].
      apply (ent_rep_keeps m m' hblk i _ Ei). intros b Hb'.
      assert (Hlg : In b (log_blocks hblk 0 u)) by (apply (in_log_blocks hblk i u b Hiu Hb')).
      apply Hk; [apply Hlive; exact Hlg| |].
      * intro X; subst. apply (Ho3 bh); [right; left; reflexivity|apply in_or_app; left; exact Hlg].
      * intro X. apply (Ho5 b Hlg X).
  - unfold owned. rewrite log_blocks_snoc, Hlb.
    change (bl :: bh :: log_blocks hblk 0 u ++ ent_blocks hblk' u) with ([bl; bh] ++ log_blocks hblk 0 u ++ ent_blocks hblk' u).
    apply NoDup_app_iff'. split; [exact Ho1|]. split.
    + apply NoDup_app_iff'. split; [exact Ho2|]. split; [exact Nd'|]. intros x Hx Hx'. apply (proj2 (proj2 (Hnew x Hx'))). exact Hx.
    + intros x Hx Hx'. apply in_app_or in Hx'. destruct Hx' as [Hx'|Hx'].
      * apply (Ho3 x Hx). apply in_or_app. left. exact Hx'.
      * destruct (Hnew x Hx') as (N1 & N2 & _). destruct Hx as [<-|[<-|[]]]; congruence.
  - exists fp. split.
    + apply (TF m); [exact Ht|]. intros b Hb'. destruct (Hfp b Hb') as (Hn & Hlv). apply Hk; [exact Hlv| |].
      * intro X; subst. apply Hn. right. left. reflexivity.
      * intro X. apply Hn. right. right. apply in_or_app. right. exact X.
    + intros b Hb'. destruct (Hfp b Hb') as (Hn & Hlv). split; [|lia]. unfold owned. rewrite log_blocks_snoc, Hlb.
      intros [X|[X|X]]; [apply Hn; left; exact X|apply Hn; right; left; exact X|].
      apply in_app_or in X. destruct X as [X|X]; [apply Hn; right; right; apply in_or_app; left; exact X|].
      destruct (Hfr b X) as [Old|Fresh]; [apply Hn; right; right; apply in_or_app; right; exact Old|lia].
Qed.
