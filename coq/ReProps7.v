(* ReProps7.v -- the atom matcher never runs out of its own fuel (chr_icase: |literal|+1 steps,
   brk_loop: |bracket|+1 steps, class bodies contain no nested class), which completes
   C11_terminates: regexec's machine terminates on every accepted pattern and every line. *)
From Coq Require Import List Arith Lia Bool ZArith NArith ZifyN ZifyBool ZifyNat.
From NV Require Import Bytes GenConsts ReSyntax ReParse ReEmit ReVM ReSem RsetDefs ReProps ReProps2 ReProps3 ReProps5 ReProps6.
Import ListNotations.
Local Open Scope N_scope.

Lemma rdk_nf w s k : rdk w s k <> NoFuel.
Proof. unfold rdk. destruct (nth_error s k); [discriminate|]. destruct (Nat.eqb k (length s)); discriminate. Qed.
Lemma adv_nf w s k : adv w s k <> NoFuel.
Proof. unfold adv. destruct (Nat.leb k (length s)); discriminate. Qed.

Lemma ucdec_nf s i : re_ucdec s i <> NoFuel.
Proof.
  unfold re_ucdec.
  destruct (rdk SUcDec s i) as [c| |] eqn:R0; cbn [bind]; try discriminate; [|exfalso; eapply rdk_nf; eauto].
  destruct (negb (bit c 128 && bit c 64)); [discriminate|].
  destruct (Nat.ltb (re_uclen_at s i) (re_ucfull c)); [discriminate|].
  destruct (negb (bit c 32)).
  { destruct (rdk SUcDec s (i + 1)) eqn:R1; cbn [bind]; try discriminate. exfalso; eapply rdk_nf; eauto. }
  destruct (negb (bit c 16)).
  { destruct (rdk SUcDec s (i + 1)) eqn:R1; cbn [bind]; try discriminate; [|exfalso; eapply rdk_nf; eauto].
    destruct (rdk SUcDec s (i + 2)) eqn:R2; cbn [bind]; try discriminate. exfalso; eapply rdk_nf; eauto. }
  destruct (negb (bit c 8)); [|discriminate].
  destruct (rdk SUcDec s (i + 1)) eqn:R1; cbn [bind]; try discriminate; [|exfalso; eapply rdk_nf; eauto].
  destruct (rdk SUcDec s (i + 2)) eqn:R2; cbn [bind]; try discriminate; [|exfalso; eapply rdk_nf; eauto].
  destruct (rdk SUcDec s (i + 3)) eqn:R3; cbn [bind]; try discriminate. exfalso; eapply rdk_nf; eauto.
Qed.

Lemma hd0_skipn s i : hd0 (skipn i s) = nthb s i.
Proof. revert s; induction i as [|i IH]; intro s; destruct s; try reflexivity. cbn [skipn]. rewrite IH. reflexivity. Qed.
Lemma nthb_beyond s i : (length s <= i)%nat -> nthb s i = 0.
Proof. intro H. unfold nthb. apply nth_overflow. exact H. Qed.

Lemma chr_icase_nf flg line a p0 : forall k pos, (pos <= length a)%nat -> (length a - pos < k)%nat -> chr_icase flg line k a p0 pos <> NoFuel.
Proof.
  induction k as [|k IH]; intros pos Hp Hk; [lia|]. cbn [chr_icase].
  destruct (nthb a pos =? 0) eqn:E0.
  { destruct (Nat.leb (p0 + pos) (length line)); discriminate. }
  assert (Hlt : (pos < length a)%nat). { destruct (le_lt_dec (length a) pos); [rewrite nthb_beyond in E0 by assumption; discriminate | assumption]. }
  destruct (re_ucdec a pos) as [c1| |] eqn:D1; cbn [bind]; try discriminate; [|exfalso; eapply ucdec_nf; eauto].
  destruct (re_ucdec line (p0 + pos)) as [c2| |] eqn:D2; cbn [bind]; try discriminate; [|exfalso; eapply ucdec_nf; eauto].
  destruct ((fold (has flg REG_ICASE) c1 =? fold (has flg REG_ICASE) c2) && Nat.eqb (re_uclen_at a pos) (re_uclen_at line (p0 + pos))); [|discriminate].
  assert (1 <= re_uclen_at a pos <= length a - pos)%nat.
  { unfold re_uclen_at. split; [apply re_uclen_pos; rewrite hd0_skipn; lia|]. pose proof (re_uclen_le (skipn pos a)). rewrite skipn_length in H. exact H. }
  apply IH; lia.
Qed.

(* ---- brackets ------------------------------------------------------------------------------------ *)
Section Brk.
  Variable icase : bool.
  Variable c : N.
  Variable rec_cls : bytes -> res bool.

  Lemma cls_hit_nf cl q : (forall cc cp, In (cc, cp) cl -> rec_cls cp <> NoFuel) -> cls_hit rec_cls cl q <> NoFuel.
  Proof.
    induction cl as [|[cc cp] rest IH]; intro H; cbn [cls_hit]; [discriminate|].
    destruct (prefixb cc q); [|apply IH; intros; eapply H; right; eauto].
    destruct (rec_cls cp) as [r| |] eqn:R; cbn [bind]; [|discriminate|exfalso; eapply H; [left; reflexivity | exact R]].
    destruct (negb r); [discriminate|]. apply IH. intros; eapply H; right; eauto.
  Qed.

  (* enter = may the class branch be taken at this suffix *)
  Lemma brk_loop_nf (Hcls : forall cc cp, In (cc, cp) brk_classes -> rec_cls cp <> NoFuel) :
    forall k p isp0 nt, (length p < k)%nat -> brk_loop icase c rec_cls k p isp0 nt <> NoFuel.
  Proof.
    induction k as [|k IH]; intros p isp0 nt Hk; [lia|]. cbn [brk_loop].
    destruct ((hd0 p =? 0) || (negb isp0 && (hd0 p =? 93))) eqn:E0; [discriminate|].
    assert (Hnz : hd0 p <> 0) by (destruct (hd0 p =? 0) eqn:E; [discriminate | lia]).
    assert (Hp : p <> []) by (intro; subst; cbn in Hnz; congruence).
    destruct ((hd0 p =? 91) && (nthb p 1 =? 58)).
    - destruct (cls_hit rec_cls brk_classes (tl p)) as [hit| |] eqn:H; cbn [bind]; [|discriminate|exfalso; eapply cls_hit_nf; eauto].
      destruct hit; [discriminate|].
      destruct (adv SOther p (brk_len p)) as [p'| |] eqn:A; cbn [bind]; [|discriminate|exfalso; eapply adv_nf; eauto].
      apply IH. unfold adv in A. destruct (Nat.leb (brk_len p) (length p)) eqn:L; [|discriminate]. inversion A; subst.
      rewrite skipn_length.
      assert (1 <= brk_len p)%nat. { unfold brk_len. destruct (nthb p 1 =? 94); destruct (nthb p _ =? 93); destruct (nthb p _ =? 93); lia. }
      destruct p; [contradiction|]. cbn [length] in *. lia.
    - destruct (re_ucdec p 0) as [b| |] eqn:D; cbn [bind]; [|discriminate|exfalso; eapply ucdec_nf; eauto].
      pose proof (re_uclen_pos p Hnz) as U1. pose proof (re_uclen_le p) as U2.
      rewrite adv_in by lia. cbn [bind].
      set (p1 := skipn (re_uclen p) p). assert (L1 : (length p1 < length p)%nat) by (subst p1; rewrite skipn_length; destruct p; [contradiction | cbn [length] in *; lia]).
      destruct ((hd0 p1 =? 45) && negb (nthb p1 1 =? 0) && negb (nthb p1 1 =? 93)) eqn:R.
      + destruct (re_ucdec (tl p1) 0) as [e| |] eqn:D2; cbn [bind]; [|discriminate|exfalso; eapply ucdec_nf; eauto].
        destruct (adv SUcLen (tl p1) (re_uclen (tl p1))) as [p3| |] eqn:A; cbn [bind]; [|discriminate|exfalso; eapply adv_nf; eauto].
        destruct ((fold icase b <=? c) && (c <=? fold icase e)); [discriminate|].
        apply IH. unfold adv in A. destruct (Nat.leb (re_uclen (tl p1)) (length (tl p1))); [|discriminate]. inversion A; subst.
        rewrite skipn_length. pose proof (sfx_len _ _ (sfx_tl p1)). lia.
      + cbn [bind]. destruct ((fold icase b <=? c) && (c <=? fold icase b)); [discriminate|]. apply IH. lia.
  Qed.
End Brk.

(* no class body contains the start of a nested class, so the inner brk_match never recurses *)
Definition noclsb (cp : bytes) : bool :=
  forallb (fun k => negb ((nthb cp k =? 91) && (nthb cp (S k) =? 58))) (seq 0 (length cp)).
Lemma classes_flat : forallb (fun x => noclsb (snd x)) brk_classes = true.
Proof. vm_compute. reflexivity. Qed.

Lemma nthb_skipn s j i : nthb (skipn j s) i = nthb s (j + i).
Proof. unfold nthb. revert s; induction j as [|j IH]; intro s; [reflexivity|]. destruct s; [destruct i; reflexivity|]. cbn [skipn plus nth]. apply IH. Qed.

Lemma brk_loop_flat icase c rc cp : noclsb cp = true ->
  forall k j isp0 nt, (length (skipn j cp) < k)%nat -> brk_loop icase c rc k (skipn j cp) isp0 nt <> NoFuel.
Proof.
  intro Hf. induction k as [|k IH]; intros j isp0 nt Hk; [lia|]. cbn [brk_loop].
  set (p := skipn j cp) in *.
  destruct ((hd0 p =? 0) || (negb isp0 && (hd0 p =? 93))) eqn:E0; [discriminate|].
  assert (Hnz : hd0 p <> 0) by (destruct (hd0 p =? 0) eqn:E; [discriminate | lia]).
  assert (Hp : p <> []) by (intro H; rewrite H in Hnz; cbn in Hnz; congruence).
  assert (Hj : (j < length cp)%nat). { destruct (le_lt_dec (length cp) j); [|assumption]. exfalso. apply Hp. subst p. apply skipn_all2. assumption. }
  assert (Hno : (hd0 p =? 91) && (nthb p 1 =? 58) = false).
  { unfold noclsb in Hf. rewrite forallb_forall in Hf. specialize (Hf j ltac:(apply in_seq; lia)).
    subst p. rewrite hd0_skipn, nthb_skipn. replace (j + 1)%nat with (S j) by lia. destruct ((nthb cp j =? 91) && (nthb cp (S j) =? 58)); [discriminate | reflexivity]. }
  rewrite Hno.
  destruct (re_ucdec p 0) as [b| |] eqn:D; cbn [bind]; [|discriminate|exfalso; eapply ucdec_nf; eauto].
  pose proof (re_uclen_pos p Hnz) as U1. pose proof (re_uclen_le p) as U2.
  rewrite adv_in by lia. cbn [bind].
  assert (E1 : skipn (re_uclen p) p = skipn (j + re_uclen p) cp) by (subst p; apply skipn_skipn).
  rewrite E1. set (j1 := (j + re_uclen p)%nat). set (p1 := skipn j1 cp).
  assert (L1 : (length p1 < length p)%nat) by (subst p1 p j1; rewrite !skipn_length; lia).
  destruct ((hd0 p1 =? 45) && negb (nthb p1 1 =? 0) && negb (nthb p1 1 =? 93)) eqn:R.
  - assert (Et : tl p1 = skipn (S j1) cp). { subst p1. replace (S j1) with (j1 + 1)%nat by lia. rewrite <- skipn_skipn. destruct (skipn j1 cp); reflexivity. }
    rewrite Et. remember (skipn (S j1) cp) as q eqn:Eq.
    destruct (re_ucdec q 0) as [e| |] eqn:D2; cbn [bind]; [|discriminate|exfalso; eapply ucdec_nf; eauto].
    destruct (adv SUcLen q (re_uclen q)) as [p3| |] eqn:A; cbn [bind]; [|discriminate|exfalso; eapply adv_nf; eauto].
    destruct ((fold icase b <=? c) && (c <=? fold icase e)); [discriminate|].
    unfold adv in A. destruct (Nat.leb (re_uclen q) (length q)) eqn:LL; [|discriminate]. inversion A; subst p3.
    assert (Lp1 : (0 < length p1)%nat). { destruct p1 as [|x0 t0] eqn:Ep1; [cbn in R; discriminate | cbn; lia]. }
    assert (Lq : (length q < length p1)%nat). { rewrite Eq. unfold p1 in Lp1 |- *. rewrite !skipn_length. rewrite skipn_length in Lp1. lia. }
    rewrite Eq. rewrite skipn_skipn. apply IH. rewrite <- skipn_skipn. rewrite <- Eq. rewrite skipn_length. lia.
  - cbn [bind]. destruct ((fold icase b <=? c) && (c <=? fold icase b)); [discriminate|]. apply IH. unfold p1 in L1. lia.
Qed.

Lemma brk_match1_cls icase cp c : noclsb cp = true -> brk_match 1 icase cp c <> NoFuel.
Proof.
  intro Hf. cbn [brk_match].
  destruct (hd0 cp =? 94).
  - replace (tl cp) with (skipn 1 cp) by (destruct cp; reflexivity). apply brk_loop_flat; [exact Hf | lia].
  - pose proof (brk_loop_flat icase (fold icase c) (fun cp0 => brk_match 0 icase cp0 (fold icase c)) cp Hf (S (length cp)) 0 true false) as H.
    cbn [skipn] in H. apply H. lia.
Qed.

Lemma brk_match2_nf icase brk c : brk_match 2 icase brk c <> NoFuel.
Proof.
  cbn [brk_match]. apply brk_loop_nf; [|lia].
  intros cc cp Hin. apply brk_match1_cls.
  pose proof classes_flat as F. rewrite forallb_forall in F. apply (F (cc, cp) Hin).
Qed.

Theorem ratom_match_nf flg line a p : ratom_match flg line a p <> NoFuel.
Proof.
  destruct a; cbn [ratom_match].
  - destruct (negb (has flg REG_ICASE)); [destruct (prefixb s (skipn p line)); discriminate|]. apply chr_icase_nf; lia.
  - destruct (rdk SOther line p) eqn:R; cbn [bind]; [|discriminate|exfalso; eapply rdk_nf; eauto].
    destruct ((a =? 0) || (a =? 10) && has flg REG_NEWLINE); [discriminate|]. destruct (Nat.leb (p + re_uclen_at line p) (length line)); discriminate.
  - destruct (re_ucdec line p) as [c| |] eqn:D; cbn [bind]; [|discriminate|exfalso; eapply ucdec_nf; eauto].
    destruct ((c =? 0) || (c =? 10) && has flg REG_NEWLINE); [discriminate|].
    destruct (rdk SOther line p) eqn:R; cbn [bind]; [|discriminate|exfalso; eapply rdk_nf; eauto].
    destruct (negb (Nat.leb (p + re_uclen_at line p) (length line))); [discriminate|].
    destruct (brk_match 2 (has flg REG_ICASE) (tl s) c) as [r| |] eqn:B; cbn [bind]; [destruct r; discriminate | discriminate | exfalso; eapply brk_match2_nf; eauto].
  - destruct (Nat.eqb p 0); [destruct (has flg REG_NOTBOL); discriminate|].
    destruct (nthb line (p - 1) =? 10); [|discriminate].
    destruct (rdk SOther line p) eqn:R; cbn [bind]; [|discriminate|exfalso; eapply rdk_nf; eauto].
    destruct (has flg REG_NEWLINE && negb (a =? 0)); discriminate.
  - destruct (rdk SOther line p) eqn:R; cbn [bind]; [|discriminate|exfalso; eapply rdk_nf; eauto].
    destruct (a =? 0); [destruct (has flg REG_NOTEOL); discriminate|]. destruct (a =? 10); [destruct (has flg REG_NEWLINE); discriminate | discriminate].
  - destruct (rdk SOther line p) eqn:R; cbn [bind]; [|discriminate|exfalso; eapply rdk_nf; eauto].
    destruct ((Nat.eqb p 0 || negb (prev_isword line p)) && isword a); discriminate.
  - destruct (rdk SOther line p) eqn:R; cbn [bind]; [|discriminate|exfalso; eapply rdk_nf; eauto].
    destruct (negb (Nat.eqb p 0) && prev_isword line p && ((a =? 0) || negb (isword a))); discriminate.
Qed.

Lemma atom_step_nf flg line a s : atom_step flg line a s <> NoFuel.
Proof.
  unfold atom_step. destruct (ratom_match flg line a (fst s)) as [[q|]| |] eqn:R; cbn [bind]; try discriminate.
  exfalso; eapply ratom_match_nf; eauto.
Qed.

(* C11_terminates: on the program of every accepted pattern, for every line, flags, depth, start state:
   the machine returns Found, Fail or an out-of-bounds report -- never Abort (fuel exhausted) *)
Theorem terminates pat p flg line : regcomp pat = Ok (Some p) ->
  forall d pc s, (pc < length (code p))%nat -> fst (rec st (atom_step flg line) mark_step (code p) d pc s) <> Abort.
Proof. intro H. apply (terminates_partial st (atom_step flg line) mark_step pat p H). intros. apply atom_step_nf. Qed.
