(* UcMemDefs.v -- model of the allocating / string-level helpers of uc.c (uc_sub uc_cat uc_dup uc_trim uc_lastline), on
   top of UcDefs.v.  A C string is the list of its bytes (the terminator is implicit); a function that returns a fresh
   string returns the list.  Only definitions here (the model must stay runnable when a proof breaks); the proofs that
   these are what the translated C text computes are in TrUcMem.v. *)
From Coq Require Import List NArith ZArith Bool.
From NV Require Import Bytes UcDefs.
Import ListNotations.

(* uc.c: uc_sub(s, beg, end) for all int offsets.  UcDefs.uc_sub covers the offsets uc_chr resolves; when BOTH lie beyond the
   last character uc_chr returns the same static "" twice and the result is the empty string; when exactly one does, the C
   text compares pointers into two different objects (undefined behaviour): None *)
Definition uc_sub_t (s : bytes) (b e : Z) : option bytes :=
  match uc_chr s b, uc_chr s e with
  | Some pb, Some pe => Some (if (pb <=? pe)%nat then firstn (pe - pb) (skipn pb s) else [])
  | None, None => Some []
  | _, _ => None
  end.

(* uc.c: uc_cat, uc_dup *)
Definition uc_cat (s r : bytes) : bytes := s ++ r.
Definition uc_dup (s : bytes) : bytes := s.

(* uc.c: uc_trim (fix a04410e)
   int n = strlen(s), i = 0; while (i < n && i + uc_len(s + i) <= n) i += uc_len(s + i);   t = the suffix s + i *)
Fixpoint trim_idx_f (fuel : nat) (t : bytes) (i : nat) : nat :=
  match fuel with
  | O => i
  | S f => match t with
           | [] => i
           | _ :: _ => let l := uc_len t in if (l <=? length t)%nat then trim_idx_f f (skipn l t) (i + l) else i
           end
  end.
Definition trim_idx (s : bytes) : nat := trim_idx_f (length s) s 0.
(* ... s[i] = '\0': the C string left in s *)
Definition uc_trim (s : bytes) : bytes := firstn (trim_idx s) s.

(* uc.c: uc_lastline -- strrchr(s, '\n'): the index of the last byte c of s (positions counted from n), [last] if none *)
Fixpoint find_last (c : N) (s : bytes) (n : nat) (last : option nat) : option nat :=
  match s with
  | [] => last
  | x :: r => find_last c r (S n) (if (x =? c)%N then Some n else last)
  end.
(* uc_lastline(s) - s *)
Definition uc_lastline (s : bytes) : nat := match find_last 10 s 0 None with Some k => S k | None => 0%nat end.
