(* ReNullable.v -- a nullable analysis on the parse tree of the regex model and its soundness against the set
   semantics M (ReSem): if the analysis says "not nullable", every derivation strictly advances the position.
   Applied by computation to the generated direction marks (GenConf.dirmarks): the tree the model's parser builds of
   every mark pattern is not nullable, and the syntactic string-level analysis DirDefs.pat_nullable (C18) agrees with the
   tree-level one on them.  The implication pat_nullable p = false -> "every match advances" is FALSE for arbitrary
   pattern strings (pat_nullable_refuted: bracket classes), so it is not a theorem; what is proved is the soundness of
   the tree-level analysis for every tree and the agreement of the two analyses on the generated marks. *)
From Coq Require Import List Arith Lia Bool ZArith NArith ZifyN ZifyBool ZifyNat.
From NV Require Import Bytes GenConsts GenConf UcDefs ReSyntax ReParse ReEmit ReVM ReSem ReProps ReProps2 ReProps3 ReProps6 ReProps7 ReProps8 ReProps10 RsetDefs DirDefs.
Import ListNotations.

Definition atom_null (a : atom) : bool :=
  match a with AChr [] => true | AChr (b :: _) => (b =? 0)%N | AAny | ABrk _ => false | _ => true end.
Fixpoint rnull (r : re) : bool :=
  match r with
  | RAtom a => atom_null a
  | RCat x y => rnull x && rnull y
  | RAlt x y => rnull x || rnull y
  | RStar _ => true
  | RGrp _ x => rnull x
  | RPow O _ => true
  | RPow (S _) x => rnull x
  | RPlus x => rnull x
  | ROpt _ _ => true
  end.
(* on the tree: a repetition with min = 0 (or a negative / zero max) may match nothing *)
Definition rep_null (b : bool) (mn mx : Z) : bool := (mn <=? 0)%Z || b.
Fixpoint tnull (t : node) : bool :=
  match t with
  | NNil => true
  | NAtom a mn mx => rep_null (atom_null a) mn mx
  | NGrp x _ mn mx => rep_null (tnull x) mn mx
  | NCat x y => tnull x && tnull y
  | NAlt x y => tnull x || tnull y
  end.

Lemma rnull_rep_re x mn mx : rep_null (rnull x) mn mx = false -> rnull (rep_re x mn mx) = false.
Proof.
  unfold rep_null, rep_re. intro H. apply orb_false_iff in H. destruct H as [Hm Hx].
  replace ((mn =? 0)%Z && (mx =? 0)%Z) with false by lia.
  destruct ((mn =? 1)%Z && (mx =? 1)%Z); [exact Hx|].
  unfold normal. destruct (Z.to_nat mn) as [|m] eqn:E; [lia|].
  destruct (mx <? 0)%Z; cbn [rnull]; [destruct m; cbn [rnull]; rewrite ?Hx; try reflexivity; apply andb_false_r | rewrite Hx; reflexivity].
Qed.
Lemma rnull_tr t : tnull t = false -> rnull (tr t) = false.
Proof.
  induction t; cbn [tnull tr]; intro H; try discriminate.
  - apply rnull_rep_re. exact H.
  - apply rnull_rep_re. cbn [rnull]. unfold rep_null in *. apply orb_false_iff in H. destruct H as [A B]. rewrite A, (IHt B). reflexivity.
  - cbn [rnull]. apply andb_false_iff in H. destruct H as [H|H]; [rewrite (IHt1 H); reflexivity | rewrite (IHt2 H); apply andb_false_r].
  - cbn [rnull]. apply orb_false_iff in H. destruct H as [A B]. rewrite (IHt1 A), (IHt2 B). reflexivity.
Qed.

Section Adv.
Variable flg : Z.
Variable line : bytes.
Notation M := (ReSem.M st (atom_step flg line) mark_step).

Lemma chr_icase_adv a p0 : forall k pos q, chr_icase flg line k a p0 pos = Ok (Some q) -> nthb a pos <> 0%N -> p0 + pos < q.
Proof.
  induction k as [|k IH]; intros pos q H N; cbn [chr_icase] in H; [discriminate|].
  destruct (nthb a pos =? 0)%N eqn:E; [apply N.eqb_eq in E; contradiction|].
  destruct (re_ucdec a pos) as [c1| |]; cbn [bind] in H; try discriminate.
  destruct (re_ucdec line (p0 + pos)) as [c2| |]; cbn [bind] in H; try discriminate.
  destruct ((fold (has flg REG_ICASE) c1 =? fold (has flg REG_ICASE) c2)%N && Nat.eqb (re_uclen_at a pos) (re_uclen_at line (p0 + pos))); [|discriminate].
  assert (L : 1 <= re_uclen_at a pos) by (unfold re_uclen_at; apply re_uclen_pos; rewrite hd0_skipn; exact N).
  pose proof (chr_icase_range flg line a p0 _ _ _ H) as R. lia.
Qed.

Lemma ucdec_nz s p c : re_ucdec s p = Ok c -> c <> 0%N -> nthb s p <> 0%N.
Proof.
  unfold re_ucdec. destruct (rdk SUcDec s p) as [c0| |] eqn:R; cbn [bind]; try discriminate.
  apply rdk_val in R. destruct R as [-> _]. intros H Nz E. rewrite E in H. vm_compute in H. inversion H. congruence.
Qed.

Lemma atom_adv a s s' : atom_null a = false -> fst s <= length line -> atom_step flg line a s = Ok (Some s') -> fst s < fst s'.
Proof.
  unfold atom_step. intros An L H. destruct (ratom_match flg line a (fst s)) as [[q|]| |] eqn:E; cbn [bind] in H; try discriminate.
  inversion H; subst; clear H. cbn [fst]. destruct a as [l| |l| | | |]; cbn [atom_null] in An; try discriminate; cbn [ratom_match] in E.
  - destruct l as [|b l]; [discriminate|].
    destruct (negb (has flg REG_ICASE)).
    + destruct (prefixb (b :: l) (skipn (fst s) line)); inversion E; subst. cbn [length]. lia.
    + apply chr_icase_adv in E; [lia|]. unfold nthb. cbn [nth]. lia.
  - destruct (rdk SOther line (fst s)) as [c| |] eqn:R; cbn [bind] in E; try discriminate.
    destruct ((c =? 0)%N || (c =? 10)%N && has flg REG_NEWLINE) eqn:C; [discriminate|].
    destruct (Nat.leb (fst s + re_uclen_at line (fst s)) (length line)); inversion E; subst.
    apply rdk_val in R. destruct R as [-> _].
    assert (1 <= re_uclen_at line (fst s)) by (unfold re_uclen_at; apply re_uclen_pos; rewrite hd0_skipn; lia). lia.
  - destruct (re_ucdec line (fst s)) as [c| |] eqn:D; cbn [bind] in E; try discriminate.
    destruct ((c =? 0)%N || (c =? 10)%N && has flg REG_NEWLINE) eqn:C; [discriminate|].
    destruct (rdk SOther line (fst s)) as [c0| |] eqn:R; cbn [bind] in E; try discriminate.
    destruct (negb (Nat.leb (fst s + re_uclen_at line (fst s)) (length line))); [discriminate|].
    destruct (brk_match 2 (has flg REG_ICASE) (tl l) c) as [r| |]; cbn [bind] in E; try discriminate.
    destruct r; inversion E; subst.
    pose proof (ucdec_nz _ _ _ D ltac:(lia)) as Nz.
    assert (1 <= re_uclen_at line (fst s)) by (unfold re_uclen_at; apply re_uclen_pos; rewrite hd0_skipn; exact Nz). lia.
Qed.

(* every derivation of a non-nullable expression strictly advances (from a state inside the line) *)
Lemma M_adv r s s' : M r s s' -> Jm line s -> (rnull r = false -> fst s < fst s') .
Proof.
  intros Hm. induction Hm; intros J Hn; cbn [rnull] in Hn; try discriminate.
  - destruct J as (J1 & _). eapply atom_adv; eauto.
  - pose proof (M_Rel flg line _ _ _ Hm1 J) as (J1 & L1 & _). pose proof (M_Rel flg line _ _ _ Hm2 J1) as (J2 & L2 & _).
    apply andb_false_iff in Hn. destruct Hn as [Hn|Hn]; [specialize (IHHm1 J Hn) | specialize (IHHm2 J1 Hn)]; lia.
  - apply orb_false_iff in Hn. apply IHHm; tauto.
  - apply orb_false_iff in Hn. apply IHHm; tauto.
  - (* group: the marks do not move the position *)
    assert (Jg : Jm line (mark_step (2 * g) s)).
    { destruct J as (J1 & J2 & J3). unfold Jm, mark_step, mk in *. destruct (Z.of_nat (2 * g) <? NGRPS)%Z; cbn [fst snd]; [|tauto].
      split; [exact J1|]. split; [rewrite upd_length; exact J2|]. intro i.
      destruct (Nat.eq_dec (2 * g) i) as [<-|Ne]; [destruct (Nat.lt_ge_cases (2 * g) (length (snd s))) as [A|A]; [rewrite nth_upd_same by exact A; lia | rewrite nth_overflow by (rewrite upd_length; exact A); lia] | rewrite nth_upd_other by exact Ne; apply J3]. }
    specialize (IHHm Jg Hn).
    replace (fst (mark_step (2 * g + 1) s')) with (fst s') by (unfold mark_step; destruct (Z.of_nat (2 * g + 1) <? NGRPS)%Z; reflexivity).
    replace (fst (mark_step (2 * g) s)) with (fst s) in IHHm by (unfold mark_step; destruct (Z.of_nat (2 * g) <? NGRPS)%Z; reflexivity).
    exact IHHm.
  - pose proof (M_Rel flg line _ _ _ Hm1 J) as (J1 & L1 & _). pose proof (M_Rel flg line _ _ _ Hm2 J1) as (J2 & L2 & _).
    specialize (IHHm1 J Hn). lia.
  - apply IHHm; assumption.
  - pose proof (M_Rel flg line _ _ _ Hm1 J) as (J1 & L1 & _). pose proof (M_Rel flg line _ _ _ Hm2 J1) as (J2 & L2 & _).
    specialize (IHHm1 J Hn). lia.
Qed.
End Adv.

(* the tree-level analysis is sound for every tree *)
Theorem tnull_sound t flg line s s' : tnull t = false -> ReSem.M st (atom_step flg line) mark_step (tr t) s s' -> Jm line s -> fst s < fst s'.
Proof. intros Hn Hm J. exact (M_adv flg line _ _ _ Hm J (rnull_tr t Hn)). Qed.

(* the generated direction marks: the tree the model's parser builds of "(" mark ")" is one group around a tree that is not
   nullable, the pattern is consumed completely without setting the flag, and the string-level analysis of C18
   (DirDefs.pat_nullable) agrees with the tree-level one *)
Definition mark_tree (p : bytes) : option node :=
  match parse_pat (40%N :: p ++ [41%N]) with
  | Ok (Some (NGrp x _ _ _), []) => if parse_bad (40%N :: p ++ [41%N]) then None else Some x
  | _ => None
  end.
Theorem dirmarks_not_nullable :
  forallb (fun m : Z * Z * Z * list N =>
             match mark_tree (snd m) with
             | Some x => negb (tnull x) && Bool.eqb (pat_nullable (snd m)) (tnull x)
             | None => false
             end) dirmarks = true.
Proof. vm_compute. reflexivity. Qed.

(* hence: every derivation of a configured mark consumes at least one byte *)
Corollary dirmarks_advance : forall m x flg line s s', In m dirmarks -> mark_tree (snd m) = Some x ->
  ReSem.M st (atom_step flg line) mark_step (tr x) s s' -> Jm line s -> fst s < fst s'.
Proof.
  intros m x flg line s s' Hin Ht Hm J.
  pose proof dirmarks_not_nullable as F. rewrite forallb_forall in F. specialize (F m Hin). rewrite Ht in F.
  apply andb_prop in F. destruct F as [F _]. apply negb_true_iff in F. eapply tnull_sound; eauto.
Qed.
(* the string-level analysis itself is NOT sound for every pattern: its bracket scanner (DirDefs.skip_bracket) ends a
   bracket at the first ']' and does not know [:class:] items, so in "[[:alpha:]]*" it takes "[[:alpha:]" for the
   (non-nullable) atom and the star for the literal ']': pat_nullable says false, the engine matches the empty string.
   It is only applied to the generated dirmarks, on which it agrees with the sound tree-level analysis (above). *)
Theorem pat_nullable_refuted : exists p rs,
  pat_nullable p = false /\ option_map tnull (mark_tree p) = Some true /\
  rset_make [Some p] 0%Z = Ok (Some rs) /\ fst (rset_find_d 300 rs [49; 10]%N 1 0%Z) = Ok (0%Z, [(0%Z, 0%Z)]).
Proof. exists [91; 91; 58; 97; 108; 112; 104; 97; 58; 93; 93; 42]%N. eexists. repeat split; vm_compute; reflexivity. Qed.

Print Assumptions tnull_sound.
Print Assumptions dirmarks_not_nullable.
Print Assumptions dirmarks_advance.
Print Assumptions pat_nullable_refuted.
