(* DirtyIoProps.v -- proofs for C02 with failing writes (round e/f): a write that does not return success -- in particular
   one whose write() calls all succeed and whose final close() fails -- leaves text, undo history, undo position, ghost
   disk and the modified flag as they were; the invariant of DirtyProps.v (flag off => text = ghost disk) holds along every
   interleaving of DirtyDefs operations and writes under arbitrary fault schedules; quitting over a table. *)
From Coq Require Import List Arith NArith ZArith Lia Bool Permutation.
From NV Require Import Bytes GenConsts UndoDefs UndoProps DirtyDefs DirtyProps DirtyIoDefs.
From NV Require IoDefs IoProps IoFaultProps.
Import ListNotations.

Definition rng_of (rng : option (nat * nat)) (n : nat) : nat * nat := match rng with Some r => r | None => (0, n) end.
(* :x on a buffer that is reported unmodified writes nothing *)
Definition skipsx (isx : bool) (f : fbuf) : bool := isx && negb (dirty_flag (fe f)).
(* the buffer after the lbuf_modified call of `x` (a counter bump only) *)
Definition pre_x (isx : bool) (f : fbuf) : ebuf := if isx then fst (bufs_modified (fe f)) else fe f.

Lemma pre_x_content isx f : content (pre_x isx f) = content (fe f).
Proof. destruct isx; reflexivity. Qed.
Lemma pre_x_flag isx f : dirty_flag (pre_x isx f) = dirty_flag (fe f).
Proof. destruct isx; reflexivity. Qed.
Lemma pre_x_ln isx f : ln (lb (pre_x isx f)) = ln (lb (fe f)).
Proof. destruct isx; reflexivity. Qed.
Lemma pre_x_disk isx f : disk (pre_x isx f) = disk (fe f).
Proof. destruct isx; reflexivity. Qed.
Lemma pre_x_inv isx f : EInv (fe f) -> EInv (pre_x isx f).
Proof. destruct isx; [apply bufs_modified_inv | auto]. Qed.

Lemma write_own_ln e b en : ln (lb (write_own e b en)) = ln (lb e).
Proof. unfold write_own. destruct (_ && _); reflexivity. Qed.
(* what a successful write leaves in the file is the new ghost disk *)
Lemma write_own_disk e b en : concat (disk (write_own e b en)) = IoDefs.want (ln (lb e)) b en.
Proof.
  unfold write_own, IoDefs.want, IoDefs.slice, slice. destruct (Nat.eqb b 0 && Nat.eqb en (length (ln (lb e)))) eqn:W; cbn [disk].
  - apply andb_true_iff in W. destruct W as [W1 W2]. apply Nat.eqb_eq in W1, W2. subst b en.
    cbn [skipn]. rewrite Nat.sub_0_r, firstn_all. reflexivity.
  - reflexivity.
Qed.
Lemma write_own_whole e : dirty_flag (write_own e 0 (length (ln (lb e)))) = false /\ disk (write_own e 0 (length (ln (lb e)))) = ln (lb e).
Proof. unfold write_own. rewrite !Nat.eqb_refl. cbn [andb]. split; [apply saved_flag | reflexivity]. Qed.

(* ------------------------------------------------------------------------------------------ ec_write *)
Lemma fwrite_spec now isx force rng path f fs sch st f' fs' r :
  fwrite now isx force rng path f fs sch = (st, f', fs', r) ->
  fpath f' = fpath f /\
  ln (lb (fe f')) = ln (lb (fe f)) /\
  (EInv (fe f) -> EInv (fe f')) /\
  (st <> IoDefs.SOk -> f' = set_fe f (pre_x isx f)) /\
  (exists used, sch = used ++ r /\ (In IoDefs.OErr used <-> st = IoDefs.SFailed)) /\
  (st = IoDefs.SOk -> skipsx isx f = false -> fpath f = path ->
     IoDefs.fs_content fs' path = Some (concat (disk (fe f'))) /\ fts f' = IoDefs.fs_mtime fs' path /\
     (rng = None -> dirty_flag (fe f') = false /\ disk (fe f') = ln (lb (fe f)))) /\
  (st = IoDefs.SOk -> (skipsx isx f = true \/ fpath f <> path) -> f' = set_fe f (pre_x isx f) /\ (skipsx isx f = true -> fs' = fs)).
Proof.
  unfold fwrite. fold (pre_x isx f). fold (skipsx isx f). destruct (skipsx isx f) eqn:SK.
  - intro H. inversion H; subst. cbn [set_fe fpath fe].
    split; [reflexivity|]. split; [apply pre_x_ln|]. split; [apply pre_x_inv|]. split; [reflexivity|].
    split; [exists []; split; [reflexivity | split; [intros [] | discriminate]]|].
    split; [discriminate|]. intros _ _. split; [reflexivity | reflexivity].
  - fold (rng_of rng (length (ln (lb (pre_x isx f))))). destruct (rng_of rng (length (ln (lb (pre_x isx f))))) as [b en] eqn:RG.
    set (ts := if Nat.eqb (fpath f) path then fts f else 0%Z).
    destruct (IoDefs.lbuf_save now (ln (lb (pre_x isx f))) b en path force ts fs sch) as [[st0 fs0] r0] eqn:E.
    destruct (IoFaultProps.lbuf_save_spec _ _ _ _ _ _ _ _ _ _ _ _ E) as [_ [u [U [A [B C]]]]].
    destruct st0; intro H; inversion H; subst.
    + (* SOk *)
      destruct (Nat.eqb (fpath f) path) eqn:OWN; cbn [set_fe fpath fe fts].
      * apply Nat.eqb_eq in OWN.
        split; [reflexivity|]. split; [rewrite write_own_ln; apply pre_x_ln|].
        split; [intro I; apply write_own_inv, pre_x_inv, I|]. split; [congruence|].
        split; [exists u; split; [reflexivity | exact C]|].
        split.
        -- intros _ _ _. destruct (B eq_refl) as [_ B2]. split; [rewrite write_own_disk; exact B2|]. split; [reflexivity|].
           intros ->. cbn [rng_of] in RG. inversion RG; subst. destruct (write_own_whole (pre_x isx f)) as [W1 W2].
           split; [exact W1 | rewrite W2; apply pre_x_ln].
        -- intros _ [X|X]; [discriminate | contradiction].
      * apply Nat.eqb_neq in OWN.
        split; [reflexivity|]. split; [apply pre_x_ln|]. split; [apply pre_x_inv|]. split; [reflexivity|].
        split; [exists u; split; [reflexivity | exact C]|].
        split; [intros _ _ X; contradiction|]. intros _ _. split; [reflexivity | discriminate].
    + (* SRefused *)
      cbn [set_fe fpath fe fts].
      split; [reflexivity|]. split; [apply pre_x_ln|]. split; [apply pre_x_inv|]. split; [reflexivity|].
      split; [exists u; split; [reflexivity | exact C]|]. split; [discriminate | discriminate].
    + (* SFailed *)
      cbn [set_fe fpath fe fts].
      split; [reflexivity|]. split; [apply pre_x_ln|]. split; [apply pre_x_inv|]. split; [reflexivity|].
      split; [exists u; split; [reflexivity | exact C]|]. split; [discriminate | discriminate].
Qed.

(* a write that does not report success leaves everything the property talks about as it was *)
Theorem failed_write_unchanged now isx force rng path f fs sch st f' fs' r :
  fwrite now isx force rng path f fs sch = (st, f', fs', r) -> st <> IoDefs.SOk ->
  content (fe f') = content (fe f) /\ dirty_flag (fe f') = dirty_flag (fe f) /\ fpath f' = fpath f /\ fts f' = fts f.
Proof.
  intros H NS. destruct (fwrite_spec _ _ _ _ _ _ _ _ _ _ _ _ H) as (_ & _ & _ & K & _). rewrite (K NS). cbn [set_fe fe fpath fts].
  split; [apply pre_x_content|]. split; [apply pre_x_flag|]. split; reflexivity.
Qed.

(* the case of round f: open() succeeds, every write() call of the save succeeds (short writes are retried), the final
   close() fails: the file holds the lines, the command still reports failure and the buffer stays as it was *)
Theorem close_fault_unchanged now isx force rng path f fs o s d r' :
  let e1 := pre_x isx f in
  let be := rng_of rng (length (ln (lb e1))) in
  skipsx isx f = false ->
  IoDefs.refuses force (if Nat.eqb (fpath f) path then fts f else 0%Z) (IoDefs.fs_mtime fs path) = false ->
  o <> IoDefs.OErr ->
  IoDefs.write_all (IoDefs.outp (IoDefs.lbuf_wr (ln (lb e1)) (fst be) (snd be))) s = (d, true, IoDefs.OErr :: r') ->
  exists fs', fwrite now isx force rng path f fs (o :: s) = (IoDefs.SFailed, set_fe f e1, fs', r') /\
              IoDefs.fs_content fs' path = Some (IoDefs.want (ln (lb e1)) (fst be) (snd be)).
Proof.
  cbv zeta. intros SK RF NO WA. unfold fwrite. fold (pre_x isx f). fold (skipsx isx f). rewrite SK.
  fold (rng_of rng (length (ln (lb (pre_x isx f))))). destruct (rng_of rng (length (ln (lb (pre_x isx f))))) as [b en] eqn:RG.
  cbn [fst snd] in *.
  assert (E : exists fs', IoDefs.lbuf_save now (ln (lb (pre_x isx f))) b en path force
                (if Nat.eqb (fpath f) path then fts f else 0%Z) fs (o :: s) = (IoDefs.SFailed, fs', r') /\
              IoDefs.fs_content fs' path = Some (IoDefs.want (ln (lb (pre_x isx f))) b en)).
  { unfold IoDefs.lbuf_save. rewrite RF.
    assert (G : exists fs', IoDefs.save_opened now (ln (lb (pre_x isx f))) b en path fs s = (IoDefs.SFailed, fs', r') /\
                            IoDefs.fs_content fs' path = Some (IoDefs.want (ln (lb (pre_x isx f))) b en)).
    { unfold IoDefs.save_opened. rewrite WA.
      destruct (IoFaultProps.write_all_spec _ _ _ _ _ WA) as [u [_ [A _]]]. destruct (A eq_refl) as [-> _].
      destruct (IoProps.lbuf_wr_bytes IoDefs.BATCH (ln (lb (pre_x isx f))) b en) as [W1 W2]. fold IoDefs.lbuf_wr in W1, W2.
      eexists. split; [reflexivity|]. rewrite IoFaultProps.fs_content_set_same, W2, <- W1 at 1. rewrite W1 at 2. rewrite <- W1.
      rewrite IoFaultProps.ftrunc_overwrite. reflexivity. }
    destruct o as [| |k]; [exact G | contradiction | exact G]. }
  destruct E as (fs' & E1 & E2). rewrite E1. exists fs'. split; [reflexivity | exact E2].
Qed.

(* ------------------------------------------------------------------------------------------ histories *)
Lemma frun_op_inv s o : EInv (fe (fb s)) -> EInv (fe (fb (frun_op s o))).
Proof.
  intro I. destruct o as [d | now isx force rng path sch]; cbn [frun_op].
  - cbn [fb set_fe fe]. apply run_dop_inv, I.
  - destruct (fwrite now isx force rng path (fb s) (ffs s) sch) as [[[st f'] fs'] r] eqn:E. cbn [fb].
    destruct (fwrite_spec _ _ _ _ _ _ _ _ _ _ _ _ E) as (_ & _ & K & _). apply K, I.
Qed.
Lemma frun_inv ops : forall s, EInv (fe (fb s)) -> EInv (fe (fb (frun s ops))).
Proof. induction ops as [|o ops IH]; intros s H; [exact H|]. cbn [frun]. apply IH, frun_op_inv, H. Qed.
Lemma fopen_inv c p ts fs : EInv (fe (fb (fopen c p ts fs))).
Proof. apply open_inv. Qed.

Definition freachable (f : fbuf) : Prop := exists c p ts fs ops, f = fb (frun (fopen c p ts fs) ops).
Lemma freachable_inv f : freachable f -> EInv (fe f).
Proof. intros (c & p & ts & fs & ops & ->). apply frun_inv, fopen_inv. Qed.

(* along EVERY interleaving of edits, command boundaries, undo, redo, atomic writes, reloads and writes under ANY fault
   schedule: when the dirty test reports clean the text is the ghost disk *)
Theorem fault_history_sound c p ts fs ops :
  let s := frun (fopen c p ts fs) ops in dirty_flag (fe (fb s)) = false -> ln (lb (fe (fb s))) = disk (fe (fb s)).
Proof.
  cbv zeta. intro F. destruct (frun_inv ops _ (fopen_inv c p ts fs)) as (g0 & D). apply (clean_sound _ g0); [exact D | exact F].
Qed.

(* after ANY such history: a write that fails (whatever call failed) on a buffer whose text differs from the ghost disk
   leaves it reported modified, with the same text and the same ghost disk, and a quit over any table holding it is refused *)
Theorem failed_write_stays_dirty c p ts fs0 ops now isx force rng path sch st f' fs' r :
  let s := frun (fopen c p ts fs0) ops in
  fwrite now isx force rng path (fb s) (ffs s) sch = (st, f', fs', r) -> st <> IoDefs.SOk ->
  ln (lb (fe (fb s))) <> disk (fe (fb s)) ->
  content (fe f') = content (fe (fb s)) /\ dirty_flag (fe f') = true /\
  (forall pre post, snd (DirtyDefs.ec_quit false (pre ++ fe f' :: post)) = false) /\
  (forall rest, snd (guard_current false (fe f' :: rest)) = true).
Proof.
  cbv zeta. intros H NS ND. destruct (failed_write_unchanged _ _ _ _ _ _ _ _ _ _ _ _ H NS) as (C1 & C2 & _).
  assert (F : dirty_flag (fe f') = true).
  { rewrite C2. destruct (dirty_flag (fe (fb (frun (fopen c p ts fs0) ops)))) eqn:F; [reflexivity|].
    exfalso. apply ND. apply (fault_history_sound c p ts fs0 ops). exact F. }
  split; [exact C1|]. split; [exact F|]. split.
  - intros pre post. apply (quit_refuses (pre ++ fe f' :: post) (fe f')); [apply in_or_app; right; left; reflexivity | exact F].
  - intro rest. apply (guard_refuses (fe f') rest F).
Qed.

(* ------------------------------------------------------------------------------------------ ec_quit over the table *)
(* what must survive: text, undo history, undo position, ghost disk, path, recorded time stamp *)
Definition fkey (f : fbuf) := (content (fe f), fpath f, fts f).
Definition key_clean (k : (text * list lopt * nat * text) * nat * Z) : Prop :=
  let '(c, _, _) := k in let '(l, _, _, d) := c in l = d.
Lemma key_clean_fkey f : key_clean (fkey f) <-> ln (lb (fe f)) = disk (fe f).
Proof. reflexivity. Qed.

Lemma fbump_key f : fkey (fbump f) = fkey f.
Proof. reflexivity. Qed.
Lemma fswitch_perm pre b r : Permutation (map fkey (fswitch pre b r)) (map fkey (pre ++ b :: r)).
Proof.
  destruct pre as [|x p]; cbn [fswitch app map].
  - rewrite fbump_key. apply Permutation_refl.
  - rewrite fbump_key, !map_app. cbn [map].
    eapply Permutation_trans; [apply perm_swap|]. apply perm_skip. apply Permutation_middle.
Qed.
Lemma fswitch_head pre b r : exists cur rest, fswitch pre b r = cur :: rest /\ dirty_flag (fe cur) = dirty_flag (fe b).
Proof. destruct pre as [|x p]; cbn [fswitch]; eauto. Qed.

Lemma fquit_loop_spec now all bang : forall l pre fs sch q st t' fs' r,
  fquit_loop now all bang pre l fs sch = (q, st, t', fs', r) ->
  Permutation (map fkey t') (map fkey (rev pre ++ l)) /\
  (exists used, sch = used ++ r /\ (In IoDefs.OErr used -> q = false /\ st = IoDefs.SFailed)) /\
  (q = true -> all = false -> bang = false -> Forall (fun f => dirty_flag (fe f) = false) l) /\
  (q = false -> st <> IoDefs.SOk /\ exists cur rest, t' = cur :: rest /\ (all = false -> dirty_flag (fe cur) = true)) /\
  (all = false -> fs' = fs /\ r = sch).
Proof.
  induction l as [|f l IH]; intros pre fs sch q st t' fs' r; cbn [fquit_loop]; cbv zeta.
  - intro H. inversion H; subst. rewrite app_nil_r. split; [apply Permutation_refl|].
    split; [exists []; split; [reflexivity | intros []]|]. split; [constructor|]. split; [discriminate | auto].
  - set (chk := negb all && negb bang).
    set (f1 := if chk then set_fe f (fst (bufs_modified (fe f))) else f).
    assert (K1 : fkey f1 = fkey f) by (unfold f1; destruct chk; reflexivity).
    assert (F1 : dirty_flag (fe f1) = dirty_flag (fe f)) by (unfold f1; destruct chk; reflexivity).
    assert (PK : forall tl, map fkey (rev (f1 :: pre) ++ tl) = map fkey (rev pre ++ f :: tl)).
    { intro tl. cbn [rev]. rewrite <- app_assoc. cbn [app]. rewrite !map_app. cbn [map]. rewrite K1. reflexivity. }
    destruct (chk && dirty_flag (fe f)) eqn:CD.
    + intro H. inversion H; subst. apply andb_true_iff in CD. destruct CD as [CK DF].
      split. { eapply Permutation_trans; [apply fswitch_perm|]. rewrite !map_app. cbn [map]. rewrite K1. apply Permutation_refl. }
      split; [exists []; split; [reflexivity | intros []]|]. split; [discriminate|].
      split. { intros _. split; [discriminate|]. destruct (fswitch_head (rev pre) f1 l) as (cur & rest & E1 & E2).
               exists cur, rest. split; [exact E1|]. intros _. rewrite E2, F1. exact DF. }
      auto.
    + destruct all.
      * (* xa: save every buffer *)
        destruct (IoDefs.lbuf_save now (ln (lb (fe f1))) 0 (length (ln (lb (fe f1)))) (fpath f1) bang (fts f1) fs sch)
          as [[st0 fs0] r0] eqn:E.
        destruct (IoFaultProps.lbuf_save_spec _ _ _ _ _ _ _ _ _ _ _ _ E) as [_ [u [U [_ [_ C]]]]].
        destruct st0.
        -- intro H. destruct (IH _ _ _ _ _ _ _ _ H) as (P & (u2 & U2 & A2) & S1 & S2 & S3).
           split; [rewrite <- PK; exact P|].
           split. { exists (u ++ u2). split; [rewrite <- app_assoc, <- U2; exact U|].
                    intro X. apply in_app_or in X. destruct X as [X|X]; [apply C in X; discriminate | exact (A2 X)]. }
           split; [discriminate|]. split; [exact S2 | discriminate].
        -- intro H. inversion H; subst.
           split. { eapply Permutation_trans; [apply fswitch_perm|]. rewrite !map_app. cbn [map]. rewrite K1. apply Permutation_refl. }
           split. { exists u. split; [reflexivity|]. intro X. apply C in X. discriminate. }
           split; [discriminate|]. split; [|discriminate]. intros _. split; [discriminate|].
           destruct (fswitch_head (rev pre) f1 l) as (cur & rest & E1 & _). exists cur, rest. split; [exact E1 | discriminate].
        -- intro H. inversion H; subst.
           split. { eapply Permutation_trans; [apply fswitch_perm|]. rewrite !map_app. cbn [map]. rewrite K1. apply Permutation_refl. }
           split. { exists u. split; [reflexivity|]. intros _. split; reflexivity. }
           split; [discriminate|]. split; [|discriminate]. intros _. split; [discriminate|].
           destruct (fswitch_head (rev pre) f1 l) as (cur & rest & E1 & _). exists cur, rest. split; [exact E1 | discriminate].
      * intro H. destruct (IH _ _ _ _ _ _ _ _ H) as (P & A & S1 & S2 & S3).
        split; [rewrite <- PK; exact P|]. split; [exact A|].
        split. { intros Q _ B. constructor; [|apply S1; auto]. subst bang. unfold chk in CD. cbn [negb andb] in CD. exact CD. }
        split; [exact S2 | exact S3].
Qed.

(* q / wq / x / xa with or without ! and with or without a path argument, over any table and any fault schedule:
   a consumed error never lets the editor go; without `a` and `!` the editor goes only if every buffer's text equals its
   ghost disk; whatever happens, every buffer keeps text, undo history, undo position and path (the table is permuted, and
   only a SUCCESSFUL write of the current buffer to its own path moves its ghost disk) *)
Theorem fec_quit_spec now wr isx all bang path t fs sch q st t' fs' r :
  fec_quit now wr isx all bang path t fs sch = (q, st, t', fs', r) ->
  (exists used, sch = used ++ r /\ (In IoDefs.OErr used -> q = false /\ st = IoDefs.SFailed)) /\
  (q = false -> st <> IoDefs.SOk) /\
  Permutation (map (fun f => (ln (lb (fe f)), hist (lb (fe f)), hist_u (lb (fe f)), fpath f)) t')
              (map (fun f => (ln (lb (fe f)), hist (lb (fe f)), hist_u (lb (fe f)), fpath f)) t) /\
  (q = true -> all = false -> bang = false -> Forall (fun f => EInv (fe f)) t ->
     Forall (fun f => ln (lb (fe f)) = disk (fe f)) t').
Proof.
  set (tk := fun f : fbuf => (ln (lb (fe f)), hist (lb (fe f)), hist_u (lb (fe f)), fpath f)).
  assert (TK : forall a b, Permutation (map fkey a) (map fkey b) -> Permutation (map tk a) (map tk b)).
  { intros a b P. assert (E : forall l, map tk l = map (fun k : (text * list lopt * nat * text) * nat * Z => let '(c, p, _) := k in let '(l0, h, u0, _) := c in (l0, h, u0, p)) (map fkey l)).
    { intro l. rewrite map_map. apply map_ext. intro x. reflexivity. }
    rewrite !E. apply Permutation_map. exact P. }
  assert (CL : forall l t2, Permutation (map fkey t2) (map fkey l) -> Forall (fun f => EInv (fe f)) l ->
                            Forall (fun f => dirty_flag (fe f) = false) l -> Forall (fun f => ln (lb (fe f)) = disk (fe f)) t2).
  { intros l t2 P I D.
    assert (A : Forall key_clean (map fkey l)).
    { apply Forall_map. rewrite Forall_forall in *. intros x Hx. apply key_clean_fkey.
      destruct (I x Hx) as (g0 & DI). apply (clean_sound _ g0); [exact DI | exact (D x Hx)]. }
    rewrite Forall_forall in A. apply Forall_forall. intros x Hx. apply key_clean_fkey. apply (A (fkey x)).
    apply (Permutation_in _ P). apply in_map. exact Hx. }
  destruct t as [|f0 rest]; cbn [fec_quit].
  - intro H. inversion H; subst. split; [exists []; split; [reflexivity | intros []]|]. split; [discriminate|].
    split; [apply Permutation_refl | constructor].
  - destruct wr.
    + destruct (fwrite now isx bang None path f0 fs sch) as [[[st0 f0'] fs0] r0] eqn:W.
      destruct (fwrite_spec _ _ _ _ _ _ _ _ _ _ _ _ W) as (WP & WL & WI & WN & (u & U & C) & _ & _).
      assert (K0 : tk f0' = tk f0 \/ st0 = IoDefs.SOk).
      { destruct st0; [right; reflexivity | left | left]; rewrite WN by discriminate; unfold tk; cbn [set_fe fe fpath];
          destruct isx; reflexivity. }
      assert (K0' : tk f0' = tk f0).
      { destruct K0 as [K0|K0]; [exact K0|]. unfold tk. rewrite WP, WL.
        assert (HH : hist (lb (fe f0')) = hist (lb (fe f0)) /\ hist_u (lb (fe f0')) = hist_u (lb (fe f0))).
        { subst st0. revert W. unfold fwrite. destruct (isx && negb (dirty_flag (fe f0))).
          - intro W. inversion W; subst. destruct isx; split; reflexivity.
          - destruct (IoDefs.lbuf_save _ _ _ _ _ _ _ _ _) as [[s1 fs1] r1]. destruct s1; intro W; inversion W; subst.
            destruct (Nat.eqb (fpath f0) path); cbn [fe set_fe]; [|destruct isx; split; reflexivity].
            unfold write_own. rewrite !Nat.eqb_refl. cbn [andb lb]. destruct isx; split; reflexivity. }
        destruct HH as [-> ->]. reflexivity. }
      destruct st0.
      * intro H. destruct (fquit_loop_spec _ _ _ _ _ _ _ _ _ _ _ _ H) as (P & (u2 & U2 & A2) & S1 & S2 & _).
        cbn [rev app] in P.
        split. { exists (u ++ u2). split; [rewrite <- app_assoc, <- U2; exact U|].
                 intro X. apply in_app_or in X. destruct X as [X|X]; [apply C in X; discriminate | exact (A2 X)]. }
        split; [intro Q; exact (proj1 (S2 Q))|].
        split. { eapply Permutation_trans; [apply TK; exact P|]. cbn [map]. rewrite K0'. apply Permutation_refl. }
        intros Q NA NB I. apply (CL (f0' :: rest)); [exact P | | apply S1; auto].
        inversion I; subst. constructor; [apply WI; assumption | assumption].
      * intro H. inversion H; subst. split. { exists u. split; [reflexivity|]. intro X. apply C in X. discriminate. }
        split; [discriminate|]. split; [cbn [map]; rewrite K0'; apply Permutation_refl | discriminate].
      * intro H. inversion H; subst. split. { exists u. split; [reflexivity|]. intros _. split; reflexivity. }
        split; [discriminate|]. split; [cbn [map]; rewrite K0'; apply Permutation_refl | discriminate].
    + intro H. destruct (fquit_loop_spec _ _ _ _ _ _ _ _ _ _ _ _ H) as (P & A & S1 & S2 & _). cbn [rev app] in P.
      split; [exact A|]. split; [intro Q; exact (proj1 (S2 Q))|]. split; [apply TK; exact P|].
      intros Q NA NB I. apply (CL (f0 :: rest)); [exact P | exact I | apply S1; auto].
Qed.

(* the write part of wq / x fails (close() included): no quit, the table is as it was *)
Theorem fec_quit_write_fails now isx all bang path f0 rest fs sch st f0' fs1 r1 :
  fwrite now isx bang None path f0 fs sch = (st, f0', fs1, r1) -> st <> IoDefs.SOk ->
  fec_quit now true isx all bang path (f0 :: rest) fs sch = (false, st, set_fe f0 (pre_x isx f0) :: rest, fs1, r1).
Proof.
  intros W NS. destruct (fwrite_spec _ _ _ _ _ _ _ _ _ _ _ _ W) as (_ & _ & _ & K & _). cbn [fec_quit]. rewrite W, (K NS).
  destruct st; [contradiction | reflexivity | reflexivity].
Qed.

(* a write that reports success to the buffer's own path: the file holds exactly the new ghost disk, and after a write of
   the whole buffer the flag is off *)
Theorem successful_write_ghost now isx force rng path f fs sch f' fs' r :
  fwrite now isx force rng path f fs sch = (IoDefs.SOk, f', fs', r) -> skipsx isx f = false -> fpath f = path ->
  IoDefs.fs_content fs' path = Some (concat (disk (fe f'))) /\
  (rng = None -> dirty_flag (fe f') = false /\ disk (fe f') = ln (lb (fe f))).
Proof.
  intros H SK OWN. destruct (fwrite_spec _ _ _ _ _ _ _ _ _ _ _ _ H) as (_ & _ & _ & _ & _ & K & _).
  destruct (K eq_refl SK OWN) as (A & _ & B). split; assumption.
Qed.
