(* TrDrawBase.v -- C19 on the C text of /repo/vi.c and /repo/led.c (tools/c2clite.d/99zzzzz_draw.list): the memory picture, the
   small translated callees (ex_lbuf, lbuf_len, lbuf_get), and the TERMINAL KERNEL -- the oracle for the functions of term.c /
   led.c / syn.c the drawing code calls and that are not translated.

   The memory: the one-cell global blocks G_xrow, G_xtop, G_xoff, G_xleft, G_xhll, G_xhl; `xb` = ex_lbuf() = bufs[0].lb (cell 33 of
   G_bufs) is a struct lbuf (TrLbufBase: ln = cell 64, ln_n = cell 66) whose table ln points, at offset 0, to pairwise arbitrary blocks
   lbs holding the lines as C strings; the literals "~" and "" of vi_drawrow are the global blocks G_lit_7e_1 / G_lit__0.

   The kernel: block kl of the memory holds the LOG of the terminal calls made so far (one record per call, `enc_ev`): term_pos(r, c),
   term_room(n), led_print(s, row, left, syn) -- the kernel READS the C string s points to, every cell checked, and logs its bytes --,
   syn_context(c), vi_drawmsg(), term_record(), term_commit().  term_rows() / term_cols() / conf_hlline() answer the window height / width /
   the highlight attribute and log nothing.  What a log MEANS for the screen is the pure function `replay` over the list operations
   of DrawDefs.v (term_room = del_lines / ins_lines at the cursor row, led_print = set_nth).
   Import discipline: CLiteTac, CLiteExt, TrLbufBase only; no other Tr file. *)
From Coq Require Import List ZArith NArith Bool Lia.
From NV Require Import Bytes CLite CLiteProps GenCFuncs CLiteTac CLiteExt TrLbufBase.
From NV Require TermEmu DrawDefs DrawWinDefs.
Import ListNotations.
Local Open Scope Z_scope.

Ltac enterx f cf :=
  rewrite callx_S; cbn [nth_error cprog f cf fn_nparams fn_nlocals fn_body length Nat.eqb Nat.sub repeat app].

Lemma x_term_rows_none : nth_error cprog X_term_rows = None.      Proof. vm_compute. reflexivity. Qed.
Lemma x_term_cols_none : nth_error cprog X_term_cols = None.      Proof. vm_compute. reflexivity. Qed.
Lemma x_conf_hlline_none : nth_error cprog X_conf_hlline = None.  Proof. vm_compute. reflexivity. Qed.
Lemma x_syn_context_none : nth_error cprog X_syn_context = None.  Proof. vm_compute. reflexivity. Qed.
Lemma x_led_print_none : nth_error cprog X_led_print = None.      Proof. vm_compute. reflexivity. Qed.
Lemma x_vi_drawmsg_none : nth_error cprog X_vi_drawmsg = None.    Proof. vm_compute. reflexivity. Qed.
Lemma x_term_pos_none : nth_error cprog X_term_pos = None.        Proof. vm_compute. reflexivity. Qed.
Lemma x_term_room_none : nth_error cprog X_term_room = None.      Proof. vm_compute. reflexivity. Qed.
Lemma x_term_record_none : nth_error cprog X_term_record = None.  Proof. vm_compute. reflexivity. Qed.
Lemma x_term_commit_none : nth_error cprog X_term_commit = None.  Proof. vm_compute. reflexivity. Qed.

Definition i32b (z : Z) : Prop := -2147483648 <= z <= 2147483647.
Lemma wrap_i32b z : i32b z -> wrap I32 z = z.
Proof. intro H. apply wrap_I32_id. exact H. Qed.

(* ------------------------------------------------------------------ the buffer in memory *)
Definition BUFS_LB : nat := 33.                       (* struct buf: lb is cell 33; bufs[0] starts at cell 0 of G_bufs *)
Definition nthl (lines : list bytes) (i : nat) : bytes := nth i lines [].

Record buf_at (m : mem) (bl bln : nat) (lbs : list nat) (lines : list bytes) : Prop := mk_buf_at {
  ba_bufs : exists gbufs, nth_error m G_bufs = Some gbufs /\ nth_error gbufs BUFS_LB = Some (VPtr bl 0);
  ba_blk : exists blk, nth_error m bl = Some blk /\ nth_error blk L_ln = Some (VPtr bln 0) /\
           nth_error blk L_ln_n = Some (VInt (Z.of_nat (length lines)));
  ba_ln : exists lnblk, nth_error m bln = Some lnblk /\
          forall i, (i < length lines)%nat -> nth_error lnblk i = Some (VPtr (nth i lbs O) 0);
  ba_lbs : length lbs = length lines;
  ba_str : forall i, (i < length lines)%nat -> str_at m (nth i lbs O) (nthl lines i);
  ba_nonul : Forall nonul lines;
  ba_small : Z.of_nat (length lines) <= 2147483647
}.
(* the blocks the representation reads *)
Definition buf_blocks (bl bln : nat) (lbs : list nat) : list nat := G_bufs :: bl :: bln :: lbs.
Lemma buf_at_agree m m' bl bln lbs lines : buf_at m bl bln lbs lines ->
  (forall k, In k (buf_blocks bl bln lbs) -> nth_error m' k = nth_error m k) -> buf_at m' bl bln lbs lines.
Proof.
  intros [Hg Hb Hl Hn Hs Hz Hsm] Hk. unfold buf_blocks in Hk. constructor; try assumption.
  - destruct Hg as (g & H1 & H2). exists g. split; [|exact H2]. rewrite Hk by (left; reflexivity). exact H1.
  - destruct Hb as (blk & H1 & H2). exists blk. split; [|exact H2]. rewrite Hk by (right; left; reflexivity). exact H1.
  - destruct Hl as (lnblk & H1 & H2). exists lnblk. split; [|exact H2]. rewrite Hk by (right; right; left; reflexivity). exact H1.
  - intros i Hi. unfold str_at. rewrite Hk; [apply Hs; exact Hi|]. right; right; right. apply nth_In. lia.
Qed.

(* the row as an index: Some i = line i exists *)
Definition rowidx (lines : list bytes) (r : Z) : option nat :=
  if (0 <=? r) && (r <? Z.of_nat (length lines)) then Some (Z.to_nat r) else None.
Definition line_ptr (lbs : list nat) (lines : list bytes) (r : Z) : val :=
  match rowidx lines r with Some i => VPtr (nth i lbs O) 0 | None => VInt 0 end.
Definition blen (lines : list bytes) : Z := Z.of_nat (length lines).

Section Callees.
  Variable ext : nat -> list val -> mem -> res (val * mem).
  Variables (m : mem) (bl bln : nat) (lbs : list nat) (lines : list bytes) (d fuel : nat).
  Hypothesis Hb : buf_at m bl bln lbs lines.

  Lemma dr_ex_lbuf : callx ext cprog fuel (S d) F_ex_lbuf [] m = Ok (VPtr bl 0, m).
  Proof.
    destruct Hb as [(g & H1 & H2) _ _ _ _ _ _]. enterx F_ex_lbuf cf_ex_lbuf. xstep.
    rewrite (fld_load m G_bufs g BUFS_LB _ _ H1 H2) by reflexivity. reflexivity.
  Qed.
  Lemma dr_lbuf_len : callx ext cprog fuel (S d) F_lbuf_len [VPtr bl 0] m = Ok (VInt (blen lines), m).
  Proof.
    destruct Hb as [_ (blk & H1 & _ & H2) _ _ _ _ Hsm]. enterx F_lbuf_len cf_lbuf_len. xstep.
    rewrite (fld_load m bl blk L_ln_n _ _ H1 H2) by reflexivity. xstep. rewrite wrap_I32_id by lia. reflexivity.
  Qed.
  Lemma dr_lbuf_get r : callx ext cprog fuel (S d) F_lbuf_get [VPtr bl 0; VInt r] m = Ok (line_ptr lbs lines r, m).
  Proof.
    destruct Hb as [_ (blk & H1 & Hln & Hn) (lnblk & Hl & Hcells) _ _ _ Hsm]. enterx F_lbuf_get cf_lbuf_get. xstep.
    unfold line_ptr, rowidx.
    destruct (Z.leb_spec 0 r) as [H0|H0]; xstep; [|reflexivity].
    rewrite (fld_load m bl blk L_ln_n _ _ H1 Hn) by reflexivity. xstep. rewrite wrap_I32_id by lia.
    destruct (Z.ltb_spec r (Z.of_nat (length lines))) as [H2|H2]; xstep; [|reflexivity].
    rewrite (fld_load m bl blk L_ln _ _ H1 Hln) by reflexivity. xstep.
    rewrite (fld_load m bln lnblk (Z.to_nat r) _ _ Hl (Hcells (Z.to_nat r) ltac:(lia))) by lia. reflexivity.
  Qed.
  (* lbuf_len(xb) and lbuf_get(xb, r) as the expressions the C text writes *)
  Lemma ev_xblen (st : list val) :
    eval (callx ext cprog fuel (S d)) (ECall F_lbuf_len [ECall F_ex_lbuf []]) (mkst st m) = Ok (VInt (blen lines), mkst st m).
  Proof. xcbn. rewrite dr_ex_lbuf. xcbn. rewrite dr_lbuf_len. reflexivity. Qed.
End Callees.

(* ------------------------------------------------------------------ the terminal kernel *)
Import DrawWinDefs.
(* the C string a pointer points to, every cell read checked; bytes as unsigned chars *)
Fixpoint read0 (blk : list val) : res bytes :=
  match blk with
  | [] => Err EOob
  | VInt z :: r => if z =? 0 then Ok [] else do t <- read0 r; Ok (Z.to_N (wrap U8 z) :: t)
  | VUndef :: _ => Err EUndef
  | VPtr _ _ :: _ => Err EType
  end.
Definition kstr (m : mem) (v : val) : res bytes :=
  match v with VPtr b o => do l <- blk_from m b o; read0 l | _ => Err EType end.

Lemma read0_cstr (s : bytes) : nonul s -> read0 (cstr_block (zb s)) = Ok s.
Proof.
  induction 1 as [|c s [Hc0 Hc] Hs IH]; [reflexivity|].
  unfold cstr_block, zb in *. cbn [map app read0]. destruct (Z.eqb_spec (Z.of_N c) 0) as [E|_]; [lia|].
  rewrite IH. cbn [bind]. do 2 f_equal. unfold wrap. cbn [ity_bits ity_signed andb]. change (2 ^ 8) with 256.
  rewrite Z.mod_small by lia. apply N2Z.id.
Qed.
Lemma kstr_str_at m b s : str_at m b s -> nonul s -> kstr m (VPtr b 0) = Ok s.
Proof.
  intros H Hn. unfold kstr. change 0 with (Z.of_nat 0). rewrite (blk_from_str m b s 0 H) by lia. cbn [bind skipn].
  apply read0_cstr. exact Hn.
Qed.

Definition enc_ev (e : tev) : list val :=
  match e with
  | TPos r c => [VInt 1; VInt r; VInt c]
  | TRoom n => [VInt 2; VInt n]
  | TPrint s row lft syn =>
      VInt 3 :: VInt row :: VInt lft :: VInt (Z.of_nat (length s)) :: VInt (Z.of_nat (length syn)) :: map VInt (zb s) ++ map VInt (zb syn)
  | TCtx c => [VInt 4; VInt c]
  | TMsg => [VInt 5]
  | TRecord => [VInt 6]
  | TCommit => [VInt 7]
  end.
Definition enc_log (lg : list tev) : block := flat_map enc_ev lg.
Lemma enc_log_app a b : enc_log (a ++ b) = enc_log a ++ enc_log b.
Proof. apply flat_map_app. Qed.

Definition klog (kl : nat) (e : tev) (m : mem) : res (val * mem) :=
  match nth_error m kl with
  | Some lblk => Ok (VInt 0, upd m kl (lblk ++ enc_ev e))
  | None => Err EOob
  end.
(* the oracle: h = term_rows(), cols = term_cols(), hl = conf_hlline() *)
Definition term_kernel (kl : nat) (h cols hl : Z) : nat -> list val -> mem -> res (val * mem) :=
  fun f args m =>
  if Nat.eqb f X_term_rows then match args with [] => Ok (VInt h, m) | _ => Err EShape end
  else if Nat.eqb f X_term_cols then match args with [] => Ok (VInt cols, m) | _ => Err EShape end
  else if Nat.eqb f X_conf_hlline then match args with [] => Ok (VInt hl, m) | _ => Err EShape end
  else if Nat.eqb f X_syn_context then match args with [VInt c] => klog kl (TCtx c) m | _ => Err EShape end
  else if Nat.eqb f X_led_print then
    match args with
    | [s; VInt row; VInt lft; syn] => do t <- kstr m s; do y <- kstr m syn; klog kl (TPrint t row lft y) m
    | _ => Err EShape
    end
  else if Nat.eqb f X_vi_drawmsg then match args with [] => klog kl TMsg m | _ => Err EShape end
  else if Nat.eqb f X_term_pos then match args with [VInt r; VInt c] => klog kl (TPos r c) m | _ => Err EShape end
  else if Nat.eqb f X_term_room then match args with [VInt n] => klog kl (TRoom n) m | _ => Err EShape end
  else if Nat.eqb f X_term_record then match args with [] => klog kl TRecord m | _ => Err EShape end
  else if Nat.eqb f X_term_commit then match args with [] => klog kl TCommit m | _ => Err EShape end
  else Err EShape.
Definition kfuns : list nat :=
  [X_term_rows; X_term_cols; X_conf_hlline; X_syn_context; X_led_print; X_vi_drawmsg; X_term_pos; X_term_room; X_term_record; X_term_commit].
(* an oracle that answers the terminal functions as the kernel does (on the other untranslated functions it may answer anything) *)
Definition kernel_ok (ext : nat -> list val -> mem -> res (val * mem)) (kl : nat) (h cols hl : Z) : Prop :=
  forall f, In f kfuns -> forall args m, ext f args m = term_kernel kl h cols hl f args m.
Lemma kernel_is_ok kl h cols hl : kernel_ok (term_kernel kl h cols hl) kl h cols hl.
Proof. intros f _ args m. reflexivity. Qed.

Section Kernel.
  Variable ext : nat -> list val -> mem -> res (val * mem).
  Variables (kl : nat) (h cols hl : Z).
  Hypothesis Hk : kernel_ok ext kl h cols hl.
  Ltac kin := unfold kfuns; cbn [In]; tauto.
  Lemma k_rows m : ext X_term_rows [] m = Ok (VInt h, m).
  Proof. rewrite (Hk X_term_rows) by kin. reflexivity. Qed.
  Lemma k_cols m : ext X_term_cols [] m = Ok (VInt cols, m).
  Proof. rewrite (Hk X_term_cols) by kin. reflexivity. Qed.
  Lemma k_hlline m : ext X_conf_hlline [] m = Ok (VInt hl, m).
  Proof. rewrite (Hk X_conf_hlline) by kin. reflexivity. Qed.
  Lemma k_ctx m c : ext X_syn_context [VInt c] m = klog kl (TCtx c) m.
  Proof. rewrite (Hk X_syn_context) by kin. reflexivity. Qed.
  Lemma k_print m s row lft syn : ext X_led_print [s; VInt row; VInt lft; syn] m =
    (do t <- kstr m s; do y <- kstr m syn; klog kl (TPrint t row lft y) m).
  Proof. rewrite (Hk X_led_print) by kin. reflexivity. Qed.
  Lemma k_msg m : ext X_vi_drawmsg [] m = klog kl TMsg m.
  Proof. rewrite (Hk X_vi_drawmsg) by kin. reflexivity. Qed.
  Lemma k_pos m r c : ext X_term_pos [VInt r; VInt c] m = klog kl (TPos r c) m.
  Proof. rewrite (Hk X_term_pos) by kin. reflexivity. Qed.
  Lemma k_room m n : ext X_term_room [VInt n] m = klog kl (TRoom n) m.
  Proof. rewrite (Hk X_term_room) by kin. reflexivity. Qed.
  Lemma k_record m : ext X_term_record [] m = klog kl TRecord m.
  Proof. rewrite (Hk X_term_record) by kin. reflexivity. Qed.
  Lemma k_commit m : ext X_term_commit [] m = klog kl TCommit m.
  Proof. rewrite (Hk X_term_commit) by kin. reflexivity. Qed.
  (* term_rows() / term_cols() as the expressions the C text writes (the macros xrows / xcols) *)
  Lemma ev_rows fuel d st m : eval (callx ext cprog fuel (S d)) (ECall X_term_rows []) (mkst st m) = Ok (VInt h, mkst st m).
  Proof. xcbn. rewrite callx_S, x_term_rows_none, k_rows. reflexivity. Qed.
  Lemma ev_cols fuel d st m : eval (callx ext cprog fuel (S d)) (ECall X_term_cols []) (mkst st m) = Ok (VInt cols, mkst st m).
  Proof. xcbn. rewrite callx_S, x_term_cols_none, k_cols. reflexivity. Qed.
End Kernel.

(* ------------------------------------------------------------------ the memory the drawing code runs on *)
Record vst := mkV { v_xrow : Z; v_xtop : Z; v_xoff : Z; v_xleft : Z; v_xhll : Z; v_xhl : Z }.
Definition dglobs : list nat := [G_xrow; G_xtop; G_xoff; G_xleft; G_xhll; G_xhl; G_lit_7e_1; G_lit__0].

Record draw_mem (m : mem) (kl : nat) (v : vst) (bl bln : nat) (lbs : list nat) (lines : list bytes) (ft : bytes) : Prop := mk_draw_mem {
  dm_xrow : cell_at m G_xrow (v_xrow v);
  dm_xtop : cell_at m G_xtop (v_xtop v);
  dm_xoff : cell_at m G_xoff (v_xoff v);
  dm_xleft : cell_at m G_xleft (v_xleft v);
  dm_xhll : cell_at m G_xhll (v_xhll v);
  dm_xhl : cell_at m G_xhl (v_xhl v);
  dm_buf : buf_at m bl bln lbs lines;
  dm_tilde : str_at m G_lit_7e_1 [126%N];
  dm_empty : str_at m G_lit__0 [];
  dm_ft : kstr m (VPtr G_bufs 0) = Ok ft;
  dm_kl : (kl < length m)%nat;
  dm_sep : ~ In kl (dglobs ++ buf_blocks bl bln lbs);          (* the log is none of the blocks the code reads *)
  dm_gsep : forall g, In g dglobs -> ~ In g (buf_blocks bl bln lbs)   (* the globals are not blocks of the buffer *)
}.

Lemma kstr_agree m m' b o : nth_error m' b = nth_error m b -> kstr m' (VPtr b o) = kstr m (VPtr b o).
Proof. intro H. unfold kstr, blk_from. rewrite H. reflexivity. Qed.

(* a change of the log block keeps the picture *)
Lemma draw_mem_log m kl v bl bln lbs lines ft X : draw_mem m kl v bl bln lbs lines ft -> draw_mem (upd m kl X) kl v bl bln lbs lines ft.
Proof.
  intros [H1 H2 H3 H4 H5 H6 Hb Ht He Hf Hl Hs Hg].
  assert (Hne : forall g, In g (dglobs ++ buf_blocks bl bln lbs) -> g <> kl) by (intros g Hin E; subst g; exact (Hs Hin)).
  assert (Hd : forall g, In g dglobs -> g <> kl) by (intros g Hin; apply Hne, in_or_app; left; exact Hin).
  constructor; try assumption;
    try (apply cell_at_upd_other; [exact Hl|apply Hd; unfold dglobs; cbn [In]; tauto|assumption]);
    try (apply str_at_upd_other; [exact Hl|apply Hd; unfold dglobs; cbn [In]; tauto|assumption]).
  - apply (buf_at_agree m); [exact Hb|]. intros k Hk. apply mem_upd_other; [exact Hl|]. apply Hne, in_or_app. right; exact Hk.
  - rewrite (kstr_agree m); [exact Hf|]. apply mem_upd_other; [exact Hl|]. apply Hne, in_or_app. right. left. reflexivity.
  - rewrite upd_length by exact Hl. exact Hl.
Qed.

Definition log_at (m : mem) (kl : nat) (lg : list tev) : Prop := nth_error m kl = Some (enc_log lg).
Definition mlog (m : mem) (kl : nat) (lg : list tev) : mem := upd m kl (enc_log lg).
Lemma mlog_mlog m kl a b : (kl < length m)%nat -> mlog (mlog m kl a) kl b = mlog m kl b.
Proof. intro H. unfold mlog. apply upd_upd. exact H. Qed.
Lemma mlog_self m kl lg : log_at m kl lg -> mlog m kl lg = m.
Proof. intro H. unfold mlog. apply upd_self. exact H. Qed.
Lemma log_at_mlog m kl lg : (kl < length m)%nat -> log_at (mlog m kl lg) kl lg.
Proof. intro H. unfold log_at, mlog. apply mem_upd_same. exact H. Qed.
Lemma mlog_length m kl lg : (kl < length m)%nat -> length (mlog m kl lg) = length m.
Proof. intro H. unfold mlog. apply upd_length. exact H. Qed.
Lemma klog_ok m kl lg e : log_at m kl lg -> klog kl e m = Ok (VInt 0, mlog m kl (lg ++ [e])).
Proof.
  intro H. unfold klog, mlog. rewrite H. rewrite enc_log_app. unfold enc_log at 3. cbn [flat_map]. rewrite app_nil_r. reflexivity.
Qed.
Lemma draw_mem_mlog m kl v bl bln lbs lines ft lg : draw_mem m kl v bl bln lbs lines ft -> draw_mem (mlog m kl lg) kl v bl bln lbs lines ft.
Proof. apply draw_mem_log. Qed.

(* a store to one of the window globals *)
Definition set_xrow (v : vst) (z : Z) : vst := mkV z (v_xtop v) (v_xoff v) (v_xleft v) (v_xhll v) (v_xhl v).
Definition set_xtop (v : vst) (z : Z) : vst := mkV (v_xrow v) z (v_xoff v) (v_xleft v) (v_xhll v) (v_xhl v).
Definition set_xoff (v : vst) (z : Z) : vst := mkV (v_xrow v) (v_xtop v) z (v_xleft v) (v_xhll v) (v_xhl v).

Lemma cell_lt m b v : cell_at m b v -> (b < length m)%nat.
Proof. intro H. apply nth_error_Some. unfold cell_at in H. congruence. Qed.

Lemma draw_mem_store m kl v bl bln lbs lines ft g z v' : draw_mem m kl v bl bln lbs lines ft ->
  (g = G_xrow /\ v' = set_xrow v z) \/ (g = G_xtop /\ v' = set_xtop v z) \/ (g = G_xoff /\ v' = set_xoff v z) ->
  draw_mem (upd m g [VInt z]) kl v' bl bln lbs lines ft.
Proof.
  intros [H1 H2 H3 H4 H5 H6 Hb Ht He Hf Hl Hs Hg] Hcase.
  assert (Hgl : (g < length m)%nat) by (destruct Hcase as [[-> _]|[[-> _]|[-> _]]]; eauto using cell_lt).
  assert (Hgd : In g dglobs) by (destruct Hcase as [[-> _]|[[-> _]|[-> _]]]; unfold dglobs; cbn [In]; tauto).
  assert (Hgk : kl <> g) by (intros ->; apply Hs, in_or_app; left; exact Hgd).
  assert (Hbb : forall k, In k (buf_blocks bl bln lbs) -> nth_error (upd m g [VInt z]) k = nth_error m k).
  { intros k Hk. apply mem_upd_other; [exact Hgl|]. intros ->. exact (Hg g Hgd Hk). }
  assert (Hbuf : buf_at (upd m g [VInt z]) bl bln lbs lines) by (apply (buf_at_agree m); assumption).
  assert (Hft : kstr (upd m g [VInt z]) (VPtr G_bufs 0) = Ok ft) by (rewrite (kstr_agree m); [exact Hf|apply Hbb; left; reflexivity]).
  assert (Hlen : (kl < length (upd m g [VInt z]))%nat) by (rewrite upd_length by exact Hgl; exact Hl).
  destruct Hcase as [[-> ->]|[[-> ->]|[-> ->]]]; constructor; cbn [v_xrow v_xtop v_xoff v_xleft v_xhll v_xhl set_xrow set_xtop set_xoff];
    try assumption;
    try (apply cell_at_upd_same; exact Hgl);
    try (apply cell_at_upd_other; [exact Hgl|vm_compute; discriminate|assumption]);
    try (apply str_at_upd_other; [exact Hgl|vm_compute; discriminate|assumption]).
Qed.
