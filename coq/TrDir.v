(* TrDir.v -- dir_fix and dir_reorder of /repo/dir.c against DirDefs.v, relative to a matcher oracle (TrDirBase.v: the setting,
   oracle_ok / raw_ok, dir_context; TrDirMatch.v: tr_dir_match). *)
From Coq Require Import List ZArith NArith Bool Lia Permutation.
From NV Require Import Bytes UcDefs GenConf GenConsts DirDefs DirProps IoDefs IoProps CLite CLiteProps GenCFuncs CLiteTac CLiteExt TrUc TrRen TrSbuf TrRen2 TrRenPos TrDirBase TrDirMatch.
Import ListNotations.
Local Open Scope Z_scope.

Definition dfix_loop : stmt := match fn_body cf_dir_fix with SSeq _ (SSeq _ w) => w | _ => SSkip end.
Definition dfix_body : stmt := match dfix_loop with SWhile _ b => b | _ => SSkip end.
Definition fix_locals (cb g : nat) (dir : Z) (b e : nat) (prec prb pre pcb pce pdir : nat) : list val :=
  [VPtr cb 0; VPtr g 0; VInt dir; VInt (Z.of_nat b); VInt (Z.of_nat e); VPtr prb 0; VPtr pre 0; VPtr pcb 0; VPtr pce 0; VPtr pdir 0; VPtr prec 0].

(* what holds of the memory at the head of the loop: the world of dir_match, the order array, the six result cells *)
Record fix_inv (mi : mem) (sb : nat) (s : bytes) (cb : nat) (chrs : list nat) (rslr rsrl : val) (g : nat) (ord : list nat)
    (outs : list nat) : Prop := {
  fi_w : dir_world mi sb s cb chrs rslr rsrl;
  fi_ord : int_arr_at mi g (map Z.of_nat ord);
  fi_ints : ints_ok (map Z.of_nat ord);
  fi_gw : ~ In g (world_blocks sb cb);
  fi_go : ~ In g outs;
  fi_outs : outs_ok mi sb cb outs }.

Lemma ints_ok_perm (l l' : list nat) : Permutation l' l -> ints_ok (map Z.of_nat l) -> ints_ok (map Z.of_nat l').
Proof.
  intros P H. unfold ints_ok in *. rewrite Forall_forall in *. intros x Hx. apply H.
  apply in_map_iff in Hx. destruct Hx as [y [<- Hy]]. apply in_map. apply (Permutation_in _ P Hy).
Qed.

Lemma fix_inv_ext mi mi' bs sb s cb chrs rslr rsrl g ord ord2 outs : fix_inv mi sb s cb chrs rslr rsrl g ord outs ->
  mem_ext mi mi' bs -> (forall x, In x bs -> x = g \/ In x outs) ->
  int_arr_at mi' g (map Z.of_nat ord2) -> Permutation ord2 ord ->
  (forall p, In p outs -> exists v, nth_error mi' p = Some [v]) ->
  fix_inv mi' sb s cb chrs rslr rsrl g ord2 outs.
Proof.
  intros [W Ho Hi Hgw Hgo [Hnd Hout]] E Hbs Ho2 P Hc. constructor; try assumption.
  - apply (world_ext mi mi' bs _ _ _ _ _ _ W E). intros p Hp Hw. destruct (Hbs p Hp) as [->|Hin]; [exact (Hgw Hw)|].
    exact (proj2 (Hout p Hin) Hw).
  - exact (ints_ok_perm _ _ P Hi).
  - split; [exact Hnd|]. intros p Hp. split; [exact (Hc p Hp)|exact (proj2 (Hout p Hp))].
Qed.

(* the function-level statement at model fuel f (proved below by induction; the loop uses it for the nested call) *)
Definition fix_call_spec (ext : nat -> list val -> mem -> res (val * mem)) (FUEL f : nat) : Prop :=
  forall d (m : mem) sb s cb chrs rslr rsrl raw g ord dir b e N ord',
    dir_world m sb s cb chrs rslr rsrl -> oracle_ok ext s chrs rslr rsrl raw -> raw_ok rslr rsrl raw ->
    cm_ok (dir_match s chrs raw) N -> (e <= N)%nat -> (N < length chrs)%nat -> (N <= length ord)%nat ->
    int_arr_at m g (map Z.of_nat ord) -> ints_ok (map Z.of_nat ord) -> ~ In g (world_blocks sb cb) ->
    (f < FUEL)%nat -> (length s < FUEL)%nat -> (N < FUEL)%nat ->
    dir_fix (dir_match s chrs raw) f ord dir b e = Some ord' ->
    exists m', callx ext cprog FUEL (S (S (S (S (S (f + d)))))) F_dir_fix
                 [VPtr cb 0; VPtr g 0; VInt dir; VInt (Z.of_nat b); VInt (Z.of_nat e)] m = Ok (VUndef, m') /\
      mem_ext m m' [g] /\ int_arr_at m' g (map Z.of_nat ord').

Lemma res_cells_ext (m m' : mem) bs prec prb pre pcb pce pdir r : res_cells m prec prb pre pcb pce pdir r -> mem_ext m m' bs ->
  (forall p, In p (dm_outs prec prb pre pcb pce pdir) -> ~ In p bs) -> res_cells m' prec prb pre pcb pce pdir r.
Proof.
  intros (R1 & R2 & R3 & R4 & R5 & R6) E Hn. unfold res_cells, dm_outs in *. cbn [In] in Hn.
  repeat split; (eapply mem_ext_get; [exact E|eassumption|apply Hn; auto 10]).
Qed.

Lemma dir_match_cdir s chrs raw b e ctx r : dir_match s chrs raw b e ctx = Some r -> int_ok (c_dir r).
Proof.
  unfold dir_match. destruct (raw b e ctx (dm_flags s chrs b e)) as [[found subs]|]; [|discriminate].
  destruct (nth_error dirmarks found) as [[[[c dd] g] p]|] eqn:E; [|discriminate]. intro H. injection H as <-. cbn [c_dir].
  assert (Hf : (found < length dirmarks)%nat) by (apply nth_error_Some; congruence).
  destruct (gb_dirmarks_rows found Hf) as (_ & _ & _ & _ & I & _). unfold dm_dir, dm_row in I.
  rewrite (nth_error_nth _ _ (0, 0, 0, []) E) in I. exact I.
Qed.

(* ------------------------------------------------------------------ one iteration of the loop of dir_fix *)
Lemma rev_call_ok ext FUEL dd (mm : mem) g o x y px py loc i j :
  int_arr_at mm g (map Z.of_nat o) -> ints_ok (map Z.of_nat o) ->
  nth_error mm px = Some [VInt (Z.of_nat x)] -> nth_error mm py = Some [VInt (Z.of_nat y)] ->
  (y <= length o)%nat -> Z.of_nat x <= 2147483647 -> Z.of_nat y <= 2147483647 -> (y - x < FUEL)%nat ->
  nth_error loc 1 = Some (VPtr g 0) -> nth_error loc i = Some (VPtr px 0) -> nth_error loc j = Some (VPtr py 0) ->
  eval (callx ext cprog FUEL (S dd)) (ECall F_dir_reverse [ELocal 1; ELoad (Some I32) (ELocal i); ELoad (Some I32) (ELocal j)]) (mkst loc mm)
  = Ok (VUndef, mkst loc (upd mm g (map VInt (map Z.of_nat (dir_reverse o x y))))).
Proof.
  intros Ho Hi Hx Hy Hyl Bx By Hf L1 Li Lj.
  xstep. unfold get_local at 1. cbn [locals]. rewrite L1. cbn [bind].
  unfold get_local at 1. cbn [locals]. rewrite Li. cbn [bind memm]. rewrite (ld_cell _ _ _ Hx). cbn [bind].
  unfold get_local at 1. cbn [locals]. rewrite Lj. cbn [bind memm]. rewrite (ld_cell _ _ _ Hy). cbn [bind locals memm].
  rewrite !wrap_I32_id by lia.
  rewrite (callx_mono ext _ _ _ _ _ _ _ (tr_dir_reverse mm g o x y dd FUEL Ho Hi Bx By ltac:(lia) Hf)). reflexivity.
Qed.

Lemma dfix_body_ok ext FUEL f' d Fl (m1 : mem) sb s cb chrs rslr rsrl raw g ord dir b e N prec prb pre pcb pce pdir r ord3 :
  fix_call_spec ext FUEL f' ->
  let outs := dm_outs prec prb pre pcb pce pdir in
  let cm := dir_match s chrs raw in
  fix_inv m1 sb s cb chrs rslr rsrl g ord outs ->
  res_cells m1 prec prb pre pcb pce pdir r -> span_ok b e r -> int_ok (c_dir r) ->
  oracle_ok ext s chrs rslr rsrl raw -> raw_ok rslr rsrl raw -> cm_ok cm N ->
  (e <= N)%nat -> (N < length chrs)%nat -> (N <= length ord)%nat ->
  (f' < FUEL)%nat -> (length s < FUEL)%nat -> (N < FUEL)%nat ->
  rec_call cm f' dir r ord = Some ord3 ->
  exists m2,
    exec (callx ext cprog FUEL (S (S (S (S (S (f' + d))))))) Fl dfix_body (mkst (fix_locals cb g dir b e prec prb pre pcb pce pdir) m1)
    = ONormal (mkst (fix_locals cb g dir (r_end r) e prec prb pre pcb pce pdir) m2) /\
    fix_inv m2 sb s cb chrs rslr rsrl g ord3 outs /\ mem_ext m1 m2 (g :: outs).
Proof.
  intros Hrec outs cm FI RC Hsp Icd Hor Hraw Hcm HeN HNc HNo Hf1 Hf2 Hf3 Hrc.
  pose proof FI as [W Ho Hi Hgw Hgo [Hnd Hout]].
  pose proof (nodup6h _ _ _ _ _ _ Hnd) as HN.
  pose proof (dw_size _ _ _ _ _ _ _ W) as Hsize.
  destruct Hsp as (B1 & B2 & B3 & B4 & B5 & B6).
  destruct RC as (Rrb & Rre & Rcb & Rce & Rdir & Rrec).
  set (rb := r_beg r) in *. set (re := r_end r) in *. set (cbg := c_beg r) in *. set (ce := c_end r) in *.
  set (cdir := c_dir r) in *. set (crec := c_rec r) in *.
  assert (Og : forall p, In p outs -> p <> g) by (intros p Hp ->; exact (Hgo Hp)).
  assert (In_rec : In prec outs) by (left; reflexivity).
  assert (In_rb : In prb outs) by (right; left; reflexivity).
  assert (In_re : In pre outs) by (right; right; left; reflexivity).
  assert (In_cb : In pcb outs) by (right; right; right; left; reflexivity).
  assert (In_ce : In pce outs) by (right; right; right; right; left; reflexivity).
  assert (In_dir : In pdir outs) by (right; right; right; right; right; left; reflexivity).
  assert (Hgl : (g < length m1)%nat) by (apply nth_error_Some; unfold int_arr_at in Ho; congruence).
  set (call := callx ext cprog FUEL (S (S (S (S (S (f' + d))))))).
  set (loc := fix_locals cb g dir b e prec prb pre pcb pce pdir).
  set (o1 := step1 dir r ord). set (o2 := step2 dir r ord).
  assert (Lo1 : length o1 = length ord) by apply step1_length.
  assert (Lo2 : length o2 = length ord) by apply step2_length.
  assert (Io1 : ints_ok (map Z.of_nat o1)) by (apply (ints_ok_perm ord); [apply step1_perm|exact Hi]).
  assert (Io2 : ints_ok (map Z.of_nat o2)) by (apply (ints_ok_perm ord); [apply step2_perm|exact Hi]).
  (* if (dir < 0) dir_reverse(ord, r_beg, r_end) *)
  set (ma := upd m1 g (map VInt (map Z.of_nat o1))).
  assert (A1 : exec call Fl (seq_nth 0 dfix_body) (mkst loc m1) = ONormal (mkst loc ma)).
  { unfold dfix_body, dfix_loop, loc, fix_locals, ma, o1, step1. cbn [seq_nth fn_body cf_dir_fix]. rewrite exec_if. xs.
    destruct (dir <? 0); xs.
    - rewrite (ld_cell _ _ _ Rrb). xs. rewrite (ld_cell _ _ _ Rre). xs. rewrite !wrap_I32_id by lia. unfold call.
      rewrite (callx_mono ext _ _ _ _ _ _ _ (tr_dir_reverse m1 g ord rb re _ FUEL Ho Hi ltac:(lia) ltac:(lia) ltac:(lia) ltac:(lia))). reflexivity.
    - rewrite (int_arr_upd_self m1 g _ Ho). reflexivity. }
  assert (Hoa : int_arr_at ma g (map Z.of_nat o1)) by (apply (int_arr_at_upd m1 g _ _ Ho)).
  assert (Ea : mem_ext m1 ma [g]) by (apply mem_ext_upd; left; reflexivity).
  assert (Ga : forall p blk, In p outs -> nth_error m1 p = Some blk -> nth_error ma p = Some blk).
  { intros p blk Hp Hb. apply (mem_ext_get _ _ _ _ _ Ea Hb). intros [X|[]]. exact (Og p Hp (eq_sym X)). }
  (* if (c_dir < 0) dir_reverse(ord, c_beg, c_end) *)
  set (mb := upd m1 g (map VInt (map Z.of_nat o2))).
  assert (A2 : exec call Fl (seq_nth 1 dfix_body) (mkst loc ma) = ONormal (mkst loc mb)).
  { unfold dfix_body, dfix_loop, loc, fix_locals. cbn [seq_nth fn_body cf_dir_fix]. rewrite exec_if. xs.
    rewrite (ld_cell _ _ _ (Ga _ _ In_dir Rdir)). xs. rewrite (wrap_int_ok _ Icd).
    unfold mb, o2, step2. fold cdir o1. destruct (cdir <? 0); xs.
    - rewrite (ld_cell _ _ _ (Ga _ _ In_cb Rcb)). xs. rewrite (ld_cell _ _ _ (Ga _ _ In_ce Rce)). xs. rewrite !wrap_I32_id by lia. unfold call.
      rewrite (callx_mono ext _ _ _ _ _ _ _ (tr_dir_reverse ma g o1 cbg ce _ FUEL Hoa Io1 ltac:(lia) ltac:(lia) ltac:(lia) ltac:(lia))).
      unfold ma. rewrite (int_arr_upd_upd m1 g _ _ _ Ho). reflexivity.
    - reflexivity. }
  assert (Hob : int_arr_at mb g (map Z.of_nat o2)) by (apply (int_arr_at_upd m1 g _ _ Ho)).
  assert (Eb : mem_ext m1 mb [g]) by (apply mem_ext_upd; left; reflexivity).
  assert (Gb : forall p blk, In p outs -> nth_error m1 p = Some blk -> nth_error mb p = Some blk).
  { intros p blk Hp Hb. apply (mem_ext_get _ _ _ _ _ Eb Hb). intros [X|[]]. exact (Og p Hp (eq_sym X)). }
  assert (Hlb : length mb = length m1) by (unfold mb; apply upd_length; exact Hgl).
  (* if (c_beg == r_beg) c_beg++ *)
  set (cb' := cbeg r).
  set (mc := upd mb pcb [VInt (Z.of_nat cb')]).
  assert (Hpl : forall p, In p outs -> (p < length mb)%nat).
  { intros p Hp. destruct (proj1 (Hout p Hp)) as [v Hv]. apply nth_error_Some. rewrite (Gb _ _ Hp Hv). discriminate. }
  assert (A3 : exec call Fl (seq_nth 2 dfix_body) (mkst loc mb) = ONormal (mkst loc mc)).
  { unfold dfix_body, dfix_loop, loc, fix_locals. cbn [seq_nth fn_body cf_dir_fix]. rewrite exec_if. xs.
    rewrite (ld_cell _ _ _ (Gb _ _ In_cb Rcb)). xs. rewrite (ld_cell _ _ _ (Gb _ _ In_rb Rrb)). xs. rewrite !wrap_I32_id by lia.
    unfold mc, cb', cbeg. fold cbg rb.
    destruct (Nat.eqb_spec cbg rb) as [E|E]; (destruct (Z.eqb_spec (Z.of_nat cbg) (Z.of_nat rb)); try lia); xs.
    - rewrite (ld_cell _ _ _ (Gb _ _ In_cb Rcb)). xs. rewrite wrap_I32_id by lia. rewrite chk_I32 by lia. xs. cbn [fst snd].
      rewrite (st_cell mb pcb _ _ (Gb _ _ In_cb Rcb)). xs. replace (Z.of_nat cbg + 1) with (Z.of_nat (S cbg)) by lia. reflexivity.
    - rewrite (upd_self mb pcb _ (Gb _ _ In_cb Rcb)). reflexivity. }
  assert (Ec : mem_ext m1 mc (g :: outs)).
  { apply (mem_ext_trans m1 mb mc [g] [pcb] _ Eb); [apply mem_ext_upd; left; reflexivity| |].
    - intros x [<-|[]]. left. reflexivity.
    - intros x [<-|[]] _. right. exact In_cb. }
  assert (Ngc : g <> pcb) by (intro X; exact (Og pcb In_cb (eq_sym X))).
  assert (Hoc : int_arr_at mc g (map Z.of_nat o2)).
  { unfold int_arr_at, mc. rewrite mem_upd_other by (try apply Hpl; auto). exact Hob. }
  assert (Gc : forall p blk, In p outs -> p <> pcb -> nth_error m1 p = Some blk -> nth_error mc p = Some blk).
  { intros p blk Hp Hne Hb. unfold mc. rewrite mem_upd_other by (try apply Hpl; auto). exact (Gb _ _ Hp Hb). }
  assert (Hcbc : nth_error mc pcb = Some [VInt (Z.of_nat cb')]) by (unfold mc; apply mem_upd_same; apply Hpl; exact In_cb).
  assert (Hcells_c : forall p, In p outs -> exists v, nth_error mc p = Some [v]).
  { intros p Hp. destruct (Nat.eq_dec p pcb) as [->|Hne]; [eexists; exact Hcbc|].
    destruct (proj1 (Hout p Hp)) as [v Hv]. exists v. exact (Gc _ _ Hp Hne Hv). }
  assert (FIc : fix_inv mc sb s cb chrs rslr rsrl g o2 outs).
  { apply (fix_inv_ext m1 mc (g :: outs) _ _ _ _ _ _ _ ord o2 _ FI Ec); [|exact Hoc|apply step2_perm|exact Hcells_c].
    intros x [<-|Hx]; [left; reflexivity|right; exact Hx]. }
  (* if (c_rec) dir_fix(chrs, ord, c_dir, c_beg, c_end) *)
  assert (A4 : exists m2, exec call Fl (seq_nth 3 dfix_body) (mkst loc mc) = ONormal (mkst loc m2) /\
                 mem_ext mc m2 [g] /\ int_arr_at m2 g (map Z.of_nat ord3)).
  { unfold dfix_body, dfix_loop, loc, fix_locals. cbn [seq_nth fn_body cf_dir_fix]. rewrite exec_if. xs.
    assert (N1 : prec <> pcb) by (destruct HN as [HN']; decompose [and] HN'; auto).
    assert (N2 : pdir <> pcb) by (destruct HN as [HN']; decompose [and] HN'; auto).
    assert (N3 : pce <> pcb) by (destruct HN as [HN']; decompose [and] HN'; auto).
    rewrite (ld_cell _ _ _ (Gc _ _ In_rec N1 Rrec)). xs. fold crec.
    replace (wrap I32 (b2z crec)) with (b2z crec) by (destruct crec; reflexivity). rewrite nb2z.
    unfold rec_call in Hrc. fold crec cdir ce o2 cb' in Hrc.
    destruct crec; xs.
    - rewrite (ld_cell _ _ _ (Gc _ _ In_dir N2 Rdir)). xs. rewrite (ld_cell _ _ _ Hcbc). xs.
      rewrite (ld_cell _ _ _ (Gc _ _ In_ce N3 Rce)). xs. fold cdir ce. rewrite (wrap_int_ok _ Icd). rewrite !wrap_I32_id by (unfold cb', cbeg; fold cbg rb; destruct (cbg =? rb)%nat; lia).
      destruct (Hrec d mc sb s cb chrs rslr rsrl raw g o2 cdir cb' ce N ord3 (fi_w _ _ _ _ _ _ _ _ _ _ FIc) Hor Hraw Hcm ltac:(lia) HNc ltac:(lia)
                  Hoc Io2 Hgw Hf1 Hf2 Hf3 Hrc) as [m2 [E2 [X2 O2]]].
      unfold call. rewrite E2. xs. exists m2. auto.
    - injection Hrc as <-. exists mc. split; [reflexivity|]. split; [apply mem_ext_refl|exact Hoc]. }
  destruct A4 as [m2 [A4 [E2 O2]]].
  assert (G2 : forall p blk, In p outs -> nth_error mc p = Some blk -> nth_error m2 p = Some blk).
  { intros p blk Hp Hb. apply (mem_ext_get _ _ _ _ _ E2 Hb). intros [X|[]]. exact (Og p Hp (eq_sym X)). }
  exists m2. split.
  - unfold dfix_body, dfix_loop. cbn [fn_body cf_dir_fix].
    change (SIf (EBin OLt I32 (ELocal 2) (EConst 0)) _ _) with (seq_nth 0 dfix_body).
    change (SIf (EBin OLt I32 (ELoad (Some I32) (ELocal 9)) (EConst 0)) _ _) with (seq_nth 1 dfix_body).
    change (SIf (EBin OEq I32 _ _) _ _) with (seq_nth 2 dfix_body).
    change (SIf (ELoad (Some I32) (ELocal 10)) _ _) with (seq_nth 3 dfix_body).
    rewrite exec_seq, A1, exec_seq, A2, exec_seq, A3, exec_seq, A4.
    unfold loc, fix_locals. xs.
    assert (N4 : pre <> pcb) by (destruct HN as [HN']; decompose [and] HN'; auto).
    rewrite (ld_cell _ _ _ (G2 _ _ In_re (Gc _ _ In_re N4 Rre))). xs. rewrite wrap_I32_id by lia. reflexivity.
  - assert (P3 : Permutation ord3 ord).
    { unfold rec_call in Hrc. destruct (c_rec r).
      - etransitivity; [exact (dir_fix_perm _ _ _ _ _ _ _ Hrc)|apply step2_perm].
      - injection Hrc as <-. apply step2_perm. }
    assert (E12 : mem_ext m1 m2 (g :: outs)).
    { apply (mem_ext_trans m1 mc m2 _ [g] _ Ec E2); [apply incl_refl|]. intros x [<-|[]] _. left. reflexivity. }
    split; [|exact E12].
    apply (fix_inv_ext m1 m2 (g :: outs) _ _ _ _ _ _ _ ord ord3 _ FI E12); [|exact O2|exact P3|].
    + intros x [<-|Hx]; [left; reflexivity|right; exact Hx].
    + intros p Hp. destruct (Hcells_c p Hp) as [v Hv]. exists v. exact (G2 _ _ Hp Hv).
Qed.

(* ------------------------------------------------------------------ the loop, by induction on the model's fuel *)
Definition fix_loop_spec (ext : nat -> list val -> mem -> res (val * mem)) (FUEL f : nat) : Prop :=
  forall d Fl (mi : mem) sb s cb chrs rslr rsrl raw g ord dir b e N ord' prec prb pre pcb pce pdir,
    fix_inv mi sb s cb chrs rslr rsrl g ord (dm_outs prec prb pre pcb pce pdir) ->
    oracle_ok ext s chrs rslr rsrl raw -> raw_ok rslr rsrl raw -> cm_ok (dir_match s chrs raw) N ->
    (e <= N)%nat -> (N < length chrs)%nat -> (N <= length ord)%nat ->
    (f <= Fl)%nat -> (f < FUEL)%nat -> (length s < FUEL)%nat -> (N < FUEL)%nat ->
    dir_fix (dir_match s chrs raw) f ord dir b e = Some ord' ->
    exists mi' loc',
      exec (callx ext cprog FUEL (S (S (S (S (f + d)))))) Fl dfix_loop (mkst (fix_locals cb g dir b e prec prb pre pcb pce pdir) mi)
      = ONormal (mkst loc' mi') /\
      mem_ext mi mi' (g :: dm_outs prec prb pre pcb pce pdir) /\ int_arr_at mi' g (map Z.of_nat ord').

Lemma nth_app_chain (a : mem) x n : n = length a -> nth_error (a ++ [x]) n = Some x.
Proof. intros ->. apply nth_error_app_new. Qed.
Lemma mem_ext_app_r (m a : mem) blk bs : mem_ext m a bs -> mem_ext m (a ++ [blk]) bs.
Proof. intro H. apply (mem_ext_trans m a _ bs [] bs H (mem_ext_app a blk [])); [apply incl_refl|intros ? []]. Qed.

(* the function from the loop: the six address-taken locals are fresh one-cell blocks *)
Lemma fix_call_of_loop ext FUEL f : fix_loop_spec ext FUEL f -> fix_call_spec ext FUEL f.
Proof.
  intros HL d m sb s cb chrs rslr rsrl raw g ord dir b e N ord' W Hor Hraw Hcm HeN HNc HNo Ho Hi Hgw Hf1 Hf2 Hf3 Hfix.
  set (L := length m).
  set (m6 := (((((m ++ [[VUndef]]) ++ [[VUndef]]) ++ [[VUndef]]) ++ [[VUndef]]) ++ [[VUndef]]) ++ [[VUndef]]).
  assert (E6 : mem_ext m m6 []).
  { unfold m6. repeat apply mem_ext_app_r. apply mem_ext_refl. }
  assert (L6 : length m6 = (L + 6)%nat) by (unfold m6; rewrite !app_length; cbn [length]; fold L; lia).
  assert (Hgl : (g < L)%nat) by (apply nth_error_Some; unfold int_arr_at in Ho; congruence).
  assert (C6 : forall k, (k < 6)%nat -> nth_error m6 (L + k) = Some [VUndef]).
  { intros k Hk. unfold m6. destruct k as [|[|[|[|[|[|k]]]]]]; try lia;
      repeat (first [ apply nth_app_chain; rewrite ?app_length; cbn [length]; fold L; lia
                    | rewrite nth_error_app_old by (rewrite ?app_length; cbn [length]; fold L; lia) ]). }
  assert (Wb : forall x, In x (world_blocks sb cb) -> (x < L)%nat).
  { destruct W as [H1 _ H3 _ H5 _ H7 _ H9 _]. unfold str_at in H1. unfold world_blocks. intros x Hx. cbn [In] in Hx.
    decompose [or] Hx; subst; try tauto; apply nth_error_Some; congruence. }
  assert (FI : fix_inv m6 sb s cb chrs rslr rsrl g ord (dm_outs (L + 5) L (L + 1) (L + 2) (L + 3) (L + 4))).
  { constructor.
    - apply (world_ext m m6 [] _ _ _ _ _ _ W E6). intros ? [].
    - apply (mem_ext_get _ _ _ _ _ E6 Ho). intros [].
    - exact Hi.
    - exact Hgw.
    - unfold dm_outs. cbn [In]. lia.
    - split.
      + unfold dm_outs. repeat constructor; cbn [In]; lia.
      + intros p Hp. unfold dm_outs in Hp. cbn [In] in Hp.
        assert (Hk : exists k, (k < 6)%nat /\ p = (L + k)%nat).
        { decompose [or] Hp; subst; try tauto; [exists 5%nat|exists 0%nat|exists 1%nat|exists 2%nat|exists 3%nat|exists 4%nat]; lia. }
        destruct Hk as [k [Hk ->]]. split; [exists VUndef; apply C6; exact Hk|]. intro X. specialize (Wb _ X). lia. }
  destruct (HL d FUEL m6 sb s cb chrs rslr rsrl raw g ord dir b e N ord' _ _ _ _ _ _ FI Hor Hraw Hcm HeN HNc HNo ltac:(lia) Hf1 Hf2 Hf3 Hfix)
    as [m' [loc' [E [X O]]]].
  rewrite callx_S. change (nth_error cprog F_dir_fix) with (Some cf_dir_fix). cbv iota beta.
  change (fn_nparams cf_dir_fix) with 5%nat. change (fn_nlocals cf_dir_fix) with 11%nat. cbn [length Nat.eqb Nat.sub repeat app].
  cbn [fn_body cf_dir_fix]. change (SWhile _ _) with dfix_loop.
  xs. rewrite malloc_ok by lia. xs. rewrite malloc_ok by lia. xs. rewrite malloc_ok by lia. xs. rewrite malloc_ok by lia. xs.
  rewrite malloc_ok by lia. xs. rewrite malloc_ok by lia. xs. change (Z.to_nat 1) with 1%nat. cbn [repeat].
  rewrite !app_length. cbn [length]. fold L. fold m6.
  replace (L + 1 + 1)%nat with (L + 2)%nat by lia. replace (L + 2 + 1)%nat with (L + 3)%nat by lia.
  replace (L + 3 + 1)%nat with (L + 4)%nat by lia. replace (L + 4 + 1)%nat with (L + 5)%nat by lia.
  unfold fix_locals in E. replace (VPtr L 0) with (VPtr (L + 0) 0) in E by (f_equal; lia).
  replace (VPtr L 0) with (VPtr (L + 0) 0) by (f_equal; lia).
  rewrite E. exists m'. split; [reflexivity|]. split; [|exact O].
  apply (mem_ext_trans m m6 m' [] _ [g] E6 X); [intros ? []|].
  intros x [<-|Hx] Hl; [left; reflexivity|]. exfalso. unfold dm_outs in Hx. cbn [In] in Hx. fold L in Hl. lia.
Qed.

Lemma fix_loop_all ext FUEL : forall f, fix_loop_spec ext FUEL f.
Proof.
  induction f as [|f' IH]; intros d Fl mi sb s cb chrs rslr rsrl raw g ord dir b e N ord' prec prb pre pcb pce pdir
    FI Hor Hraw Hcm HeN HNc HNo HFl Hf1 Hf2 Hf3 Hfix.
  - rewrite dir_fix_0 in Hfix. discriminate.
  - pose proof FI as [W Ho Hi Hgw Hgo Hout].
    pose proof (dw_size _ _ _ _ _ _ _ W) as Hsize.
    destruct Fl as [|Fl']; [lia|].
    set (outs := dm_outs prec prb pre pcb pce pdir) in *.
    change (S f' + d)%nat with (S (f' + d)).
    set (call := callx ext cprog FUEL (S (S (S (S (S (f' + d))))))).
    unfold dfix_loop. cbn [fn_body cf_dir_fix]. rewrite exec_while.
    change (SWhile _ _) with dfix_loop.
    match goal with |- context [exec call (S Fl') ?bd _] => change bd with dfix_body end.
    unfold fix_locals at 1. xs.
    apply dir_fix_inv in Hfix. destruct Hfix as [[Hbe ->]|[(Hbe & Hc & ->)|(r & ord3 & Hbe & Hc & Hrc & Hfix)]].
    + (* beg >= end *)
      destruct (Z.ltb_spec (Z.of_nat b) (Z.of_nat e)); [lia|]. xs.
      eexists mi, _. split; [reflexivity|]. split; [apply mem_ext_refl|exact Ho].
    + (* no mark matches *)
      destruct (Z.ltb_spec (Z.of_nat b) (Z.of_nat e)); [|lia]. xs.
      destruct (tr_dir_match ext FUEL (S (f' + d)) mi sb s cb chrs rslr rsrl raw b e dir prec prb pre pcb pce pdir W ltac:(lia) Hout Hor Hraw Hf2)
        as [m1 [E1 X1]]. rewrite Hc in E1, X1. unfold dm_args in E1. unfold call. rewrite E1. xs.
      eexists m1, _. split; [reflexivity|]. split; [apply (mem_ext_weaken _ _ _ _ X1); intros ? []|].
      apply (mem_ext_get _ _ _ _ _ X1 Ho). intros [].
    + (* a mark: one iteration, then the loop from r_end *)
      destruct (Z.ltb_spec (Z.of_nat b) (Z.of_nat e)); [|lia]. xs.
      destruct (tr_dir_match ext FUEL (S (f' + d)) mi sb s cb chrs rslr rsrl raw b e dir prec prb pre pcb pce pdir W ltac:(lia) Hout Hor Hraw Hf2)
        as [m1 [E1 X1]]. rewrite Hc in E1, X1. destruct X1 as [X1 RC1]. unfold dm_args in E1. unfold call at 1. rewrite E1. xs.
      pose proof (Hcm b e dir r Hbe HeN Hc) as Hsp.
      assert (FI1 : fix_inv m1 sb s cb chrs rslr rsrl g ord outs).
      { apply (fix_inv_ext mi m1 outs _ _ _ _ _ _ _ ord ord _ FI X1); [intros x Hx; right; exact Hx| |reflexivity|].
        - apply (mem_ext_get _ _ _ _ _ X1 Ho). exact Hgo.
        - destruct RC1 as (R1 & R2 & R3 & R4 & R5 & R6). intros p Hp. unfold outs, dm_outs in Hp. cbn [In] in Hp.
          decompose [or] Hp; subst; try tauto; eexists; eassumption. }
      destruct (dfix_body_ok ext FUEL f' d (S Fl') m1 sb s cb chrs rslr rsrl raw g ord dir b e N prec prb pre pcb pce pdir r ord3
                  (fix_call_of_loop ext FUEL f' IH) FI1 RC1 Hsp (dir_match_cdir _ _ _ _ _ _ _ Hc) Hor Hraw Hcm HeN HNc HNo
                  ltac:(lia) Hf2 Hf3 Hrc) as [m2 [E2 [FI2 X2]]].
      fold call in E2. unfold fix_locals in E2. rewrite E2.
      assert (P3 : Permutation ord3 ord).
      { unfold rec_call in Hrc. destruct (c_rec r).
        - etransitivity; [exact (dir_fix_perm _ _ _ _ _ _ _ Hrc)|apply step2_perm].
        - injection Hrc as <-. apply step2_perm. }
      destruct Hsp as (B1 & B2 & B3 & B4 & B5 & B6).
      destruct (IH (S d) Fl' m2 sb s cb chrs rslr rsrl raw g ord3 dir (r_end r) e N ord' prec prb pre pcb pce pdir FI2 Hor Hraw Hcm HeN HNc
                  ltac:(rewrite (Permutation_length P3); exact HNo) ltac:(lia) ltac:(lia) Hf2 Hf3 Hfix) as [m3 [loc3 [E3 [X3 O3]]]].
      unfold call. replace (S (f' + d)) with (f' + S d)%nat by lia. unfold fix_locals in E3. rewrite E3.
      eexists m3, _. split; [reflexivity|]. split; [|exact O3].
      apply (mem_ext_trans mi m2 m3 (g :: outs) (g :: outs) _); [|exact X3|apply incl_refl|intros x Hx _; exact Hx].
      apply (mem_ext_trans mi m1 m2 outs (g :: outs) _ X1 X2); [apply incl_tl, incl_refl|intros x Hx _; exact Hx].
Qed.

(* dir_fix(chrs, ord, dir, beg, end), for EVERY oracle that answers rset_find as the matcher function `raw` says, every
   character-pointer array and every order array: when the model's dir_fix returns ord' within fuel f, the call returns within
   that many iterations and nested calls, the order array then holds ord', no other block that existed has changed, and every
   load and store was inside its block *)
Theorem tr_dir_fix ext FUEL f : fix_call_spec ext FUEL f.
Proof. apply fix_call_of_loop, fix_loop_all. Qed.

(* ------------------------------------------------------------------ dir_context, both paths in one statement *)
(* the oracle's answer to rset_find(dir_rsctx, s, 0, NULL, 0): the index ctxfound, no block that existed changes *)
Definition ctx_oracle_ok (ext : nat -> list val -> mem -> res (val * mem)) (rsctx : val) (sb : nat) (s : bytes) (cf : Z) : Prop :=
  int_ok cf /\ (is_null rsctx = true -> cf = -1) /\
  (is_null rsctx = false -> forall (m : mem), str_at m sb s ->
     exists m2, ext X_rset_find [rsctx; VPtr sb 0; VInt 0; VInt 0; VInt 0] m = Ok (VInt cf, m2) /\ mem_ext m m2 []).

Theorem tr_dir_context ext (m : mem) sb s xtd rsctx cf d fuel : ctx_world m sb s xtd rsctx -> ctx_oracle_ok ext rsctx sb s cf ->
  exists m', callx ext cprog fuel (S (S d)) F_dir_context [VPtr sb 0] m = Ok (VInt (dir_context s xtd cf), m') /\ mem_ext m m' [].
Proof.
  intros CW (Icf & Hnull & Hor). destruct (ctx_fast s xtd) eqn:Ef.
  - exists (m ++ [[VUndef]]). split; [apply (tr_dir_context_fast ext m sb s xtd rsctx cf (S d) fuel CW Ef)|apply mem_ext_app].
  - destruct (is_null rsctx) eqn:En.
    + apply (tr_dir_context_slow ext m sb s xtd rsctx cf m d fuel CW Ef); [intros _; apply Hnull; reflexivity|rewrite En; discriminate].
    + assert (Hs1 : str_at (m ++ [[VUndef]]) sb s).
      { destruct CW as [Hs _ _ _ _ _ _]. unfold str_at in *. rewrite nth_error_app_old; [exact Hs|]. apply nth_error_Some. congruence. }
      destruct (Hor eq_refl _ Hs1) as [m2 [E2 X2]].
      apply (tr_dir_context_slow ext m sb s xtd rsctx cf m2 d fuel CW Ef); [rewrite En; discriminate|]. intros _. auto.
Qed.

(* ------------------------------------------------------------------ uc_chop gives a chrs array as dir_match wants it *)
Lemma chop_f_length k : forall t base, length (uc_chop_f k t base) = k.
Proof. induction k as [|k IH]; intros t base; [reflexivity|]. cbn [uc_chop_f length]. rewrite IH. reflexivity. Qed.
Lemma chop_f_bounds k : forall t base i, (i < k)%nat -> (base <= nth i (uc_chop_f k t base) 0 <= base + length t)%nat.
Proof.
  induction k as [|k IH]; intros t base i Hi; [lia|]. cbn [uc_chop_f]. destruct i as [|i]; [cbn [nth]; lia|]. cbn [nth].
  pose proof (uc_next_le t). specialize (IH (skipn (uc_next t) t) (base + uc_next t)%nat i ltac:(lia)). rewrite skipn_length in IH. lia.
Qed.
Lemma chop_f_mono k : forall t base i j, (i <= j < k)%nat -> (nth i (uc_chop_f k t base) 0 <= nth j (uc_chop_f k t base) 0)%nat.
Proof.
  induction k as [|k IH]; intros t base i j Hij; [lia|]. cbn [uc_chop_f]. destruct j as [|j].
  - assert (i = 0)%nat as -> by lia. lia.
  - destruct i as [|i]; cbn [nth].
    + pose proof (chop_f_bounds k (skipn (uc_next t) t) (base + uc_next t)%nat j ltac:(lia)). lia.
    + apply IH. lia.
Qed.
Lemma uc_chop_ok s : chrs_ok s (uc_chop s) /\ length (uc_chop s) = S (uc_slen s).
Proof.
  unfold uc_chop. split; [split|apply chop_f_length].
  - intros i j Hij. rewrite chop_f_length in Hij. apply chop_f_mono. exact Hij.
  - intros i Hi. rewrite chop_f_length in Hi. pose proof (chop_f_bounds _ s 0%nat i Hi). lia.
Qed.
Lemma dirdefs_upd {A} (l : list A) i v : (i < length l)%nat -> DirDefs.upd l i v = CLiteProps.upd l i v.
Proof.
  revert i; induction l as [|x l IH]; intros i H; cbn [length] in H; [lia|]. destruct i as [|i]; [reflexivity|].
  cbn [DirDefs.upd]. rewrite IH by lia. reflexivity.
Qed.

(* ------------------------------------------------------------------ dir_reorder *)
Record reorder_world (m : mem) (sb : nat) (s : bytes) (xtd : Z) (rsctx rslr rsrl : val) : Prop := {
  rw_s : str_at m sb s;  rw_nn : nonul s;
  rw_xtd : nth_error m G_xtd = Some [VInt xtd];  rw_xtd_ok : int_ok xtd;
  rw_ctx : nth_error m G_dir_rsctx = Some [rsctx];  rw_ctx_ok : ptr_val rsctx;
  rw_ctab : nth_error m G_dircontexts = Some gb_dircontexts;
  rw_lr : nth_error m G_dir_rslr = Some [rslr];  rw_lr_ok : ptr_val rslr;
  rw_rl : nth_error m G_dir_rsrl = Some [rsrl];  rw_rl_ok : ptr_val rsrl;
  rw_tab : nth_error m G_dirmarks = Some gb_dirmarks;
  rw_size : Z.of_nat (length s) <= 1000000000 }.
Definition reorder_blocks (sb : nat) : list nat := [sb; G_xtd; G_dir_rsctx; G_dircontexts; G_dir_rslr; G_dir_rsrl; G_dirmarks].

Lemma reorder_world_ext m m' bs sb s xtd rsctx rslr rsrl : reorder_world m sb s xtd rsctx rslr rsrl -> mem_ext m m' bs ->
  (forall p, In p bs -> ~ In p (reorder_blocks sb)) -> reorder_world m' sb s xtd rsctx rslr rsrl.
Proof.
  intros [H1 H2 H3 H4 H5 H6 H7 H8 H9 H10 H11 H12 H13] E D.
  assert (G : forall x blk, nth_error m x = Some blk -> In x (reorder_blocks sb) -> nth_error m' x = Some blk).
  { intros x blk Hx Hin. apply (mem_ext_get _ _ _ _ _ E Hx). intro Hb. exact (D x Hb Hin). }
  constructor; try assumption; [unfold str_at in *| | | | | |]; apply G; try assumption; unfold reorder_blocks; cbn [In]; auto 10.
Qed.
Lemma cc_eq10 : forall c, (c < 256)%N -> (wrap I32 (wrap I8 (Z.of_N c)) =? 10) = (c =? 10)%N.
Proof. byte_fact. Qed.

Definition dr_if : stmt := seq_nth 3 (fn_body cf_dir_reorder).

(* dir_reorder(s, ord), for EVERY oracle that answers both rset_find calls as the model's parameters say (ctxfound for the context
   patterns, raw for the marks over the spans of uc_chop(s)): the order array ends as DirDefs.dir_reorder says, no other block
   that existed changes (chrs is allocated by uc_chop and freed again) *)
Theorem tr_dir_reorder ext FUEL d (m : mem) sb s xtd rsctx rslr rsrl cf raw g ord ord' :
  reorder_world m sb s xtd rsctx rslr rsrl ->
  int_arr_at m g (map Z.of_nat ord) -> ints_ok (map Z.of_nat ord) -> ~ In g (reorder_blocks sb) ->
  (uc_slen s <= length ord)%nat ->
  ctx_oracle_ok ext rsctx sb s cf -> oracle_ok ext s (uc_chop s) rslr rsrl raw -> raw_ok rslr rsrl raw ->
  cm_ok (dir_match s (uc_chop s) raw) (uc_slen s) ->
  (S (S (length s)) < FUEL)%nat ->
  dir_reorder s xtd cf raw ord = Some ord' ->
  exists m', callx ext cprog FUEL (S (S (S (S (S (S (S (uc_slen s) + d))))))) F_dir_reorder [VPtr sb 0; VPtr g 0] m = Ok (VUndef, m') /\
    mem_ext m m' [g] /\ int_arr_at m' g (map Z.of_nat ord').
Proof.
  intros RW Ho Hi Hgw Hno Hcor Hor Hraw Hcm HF Hre.
  pose proof RW as [Hs Hnn Hx Ix Hrc Prc Hct Hlr Plr Hrl Prl Htab Hsize].
  pose proof (nonul_lt256 s Hnn) as H256.
  destruct (uc_chop_ok s) as [Hcok Hcl]. pose proof (uc_slen_le s) as Hnle.
  set (n := uc_slen s) in *. set (chrs := uc_chop s) in *. set (L := length m).
  assert (Hgl : (g < L)%nat) by (apply nth_error_Some; unfold int_arr_at in Ho; congruence).
  assert (Wb : forall x, In x (reorder_blocks sb) -> (x < L)%nat).
  { unfold str_at in Hs. unfold reorder_blocks. intros x Hx'. cbn [In] in Hx'.
    decompose [or] Hx'; subst; try tauto; apply nth_error_Some; congruence. }
  set (call := callx ext cprog FUEL (S (S (S (S (S (S n + d))))))).
  (* int n; chrs = uc_chop(s, &n) *)
  set (m1 := m ++ [[VUndef]]).
  assert (Hs1 : str_at m1 sb s) by (unfold str_at, m1 in *; rewrite nth_error_app_old; [exact Hs|apply Wb; left; reflexivity]).
  assert (Hn1 : nth_error m1 L = Some [VUndef]) by (unfold m1; apply nth_error_app_new).
  assert (Lm1 : length m1 = S L) by (unfold m1; rewrite app_length; cbn [length]; fold L; lia).
  pose proof (tr_uc_chop m1 sb s L [VUndef] 0 (S (S (S n + d))) FUEL Hs1 Hnn Hn1 ltac:(cbn [length]; lia)
                ltac:(specialize (Wb sb (or_introl eq_refl)); lia) ltac:(lia) ltac:(lia)) as Echop.
  change (Z.to_nat 0) with 0%nat in Echop. change (CLiteProps.upd [VUndef] 0 (VInt (Z.of_nat (uc_slen s)))) with [VInt (Z.of_nat n)] in Echop.
  rewrite Lm1 in Echop. fold chrs in Echop.
  set (m2 := CLiteProps.upd m1 L [VInt (Z.of_nat n)] ++ [map (TrRenPos.cptr sb) chrs]) in *.
  assert (Lm2 : length m2 = S (S L)) by (unfold m2; rewrite app_length, upd_length by lia; cbn [length]; lia).
  assert (E02 : mem_ext m m2 []).
  { unfold m2. apply mem_ext_app_r. apply (mem_ext_trans m m1 _ [] [L] []); [apply mem_ext_app|apply mem_ext_upd; left; reflexivity|apply incl_refl|].
    intros x [<-|[]] Hl. exfalso. fold L in Hl. lia. }
  assert (Hc2 : nth_error m2 (S L) = Some (map (TrDirBase.cptr sb) chrs)).
  { unfold m2. apply nth_app_chain. rewrite upd_length by lia. lia. }
  assert (Hn2 : nth_error m2 L = Some [VInt (Z.of_nat n)]).
  { unfold m2. rewrite nth_error_app_old by (rewrite upd_length by lia; lia). apply mem_upd_same. lia. }
  (* dir = dir_context(s) *)
  assert (RW2 : reorder_world m2 sb s xtd rsctx rslr rsrl) by (apply (reorder_world_ext m m2 [] _ _ _ _ _ _ RW E02); intros ? []).
  assert (CW2 : ctx_world m2 sb s xtd rsctx) by (destruct RW2; constructor; assumption).
  destruct (tr_dir_context ext m2 sb s xtd rsctx cf (S (S (S (S n + d)))) FUEL CW2 Hcor) as [m3 [Ectx X23]].
  set (dir := dir_context s xtd cf) in *.
  assert (E03 : mem_ext m m3 []) by (apply (mem_ext_trans m m2 m3 [] [] [] E02 X23); [apply incl_refl|intros ? []]).
  assert (Hc3 : nth_error m3 (S L) = Some (map (TrDirBase.cptr sb) chrs)) by (apply (mem_ext_get _ _ _ _ _ X23 Hc2); intros []).
  assert (Hn3 : nth_error m3 L = Some [VInt (Z.of_nat n)]) by (apply (mem_ext_get _ _ _ _ _ X23 Hn2); intros []).
  assert (Ho3 : int_arr_at m3 g (map Z.of_nat ord)) by (apply (mem_ext_get _ _ _ _ _ E03 Ho); intros []).
  assert (RW3 : reorder_world m3 sb s xtd rsctx rslr rsrl) by (apply (reorder_world_ext m m3 [] _ _ _ _ _ _ RW E03); intros ? []).
  assert (Lm3 : (S (S L) <= length m3)%nat) by (destruct X23 as [X _]; lia).
  (* if (n && chrs[n - 1][0] == '\n') { ord[n - 1] = n - 1; n--; } *)
  set (nl := (0 <? n)%nat && (nthb s (nth (n - 1) chrs 0%nat) =? 10)%N).
  set (ord1 := if nl then DirDefs.upd ord (n - 1) (n - 1)%nat else ord).
  set (n1 := if nl then (n - 1)%nat else n).
  set (loc := [VPtr sb 0; VPtr g 0; VPtr L 0; VPtr (S L) 0; VInt dir]).
  assert (Aif : exists m5, exec call FUEL dr_if (mkst loc m3) = ONormal (mkst loc m5) /\ mem_ext m3 m5 [g; L] /\
                  int_arr_at m5 g (map Z.of_nat ord1) /\ nth_error m5 L = Some [VInt (Z.of_nat n1)] /\ length ord1 = length ord /\
                  ints_ok (map Z.of_nat ord1)).
  { unfold dr_if, loc. cbn [seq_nth fn_body cf_dir_reorder]. rewrite exec_if. xs.
    rewrite (ld_cell _ _ _ Hn3). xs. rewrite wrap_I32_id by lia.
    unfold ord1, n1, nl. destruct (Nat.ltb_spec 0 n) as [Hpos|Hpos]; (destruct (Z.eqb_spec (Z.of_nat n) 0); try lia); xs.
    - rewrite (ld_cell _ _ _ Hn3). xs. rewrite wrap_I32_id by lia. rewrite chk_I32 by lia. xs.
      replace (Z.of_nat n - 1) with (Z.of_nat (n - 1)) by lia.
      rewrite (load_chrs m3 (S L) sb chrs (n - 1) Hc3) by lia. xs.
      assert (Hs3 : str_at m3 sb s) by (destruct RW3; assumption).
      destruct Hcok as [_ Hcb]. rewrite (load_str m3 sb s _ (nth (n - 1) chrs 0%nat) Hs3) by (try lia; apply Hcb; lia). xs.
      rewrite (cc_eq10 _ (nthb_lt256 s _ H256)).
      destruct (nthb s (nth (n - 1) chrs 0%nat) =? 10)%N; xs.
      + rewrite (ld_cell _ _ _ Hn3). xs. rewrite wrap_I32_id by lia. rewrite chk_I32 by lia. xs.
        rewrite (ld_cell _ _ _ Hn3). xs. rewrite wrap_I32_id by lia. rewrite chk_I32 by lia. xs.
        replace (0 + 1 * (Z.of_nat n - 1)) with (Z.of_nat (n - 1)) by lia. replace (Z.of_nat n - 1) with (Z.of_nat (n - 1)) by lia.
        rewrite wrap_I32_id by lia.
        rewrite (store_int_arr m3 g _ _ _ Ho3) by (rewrite map_length; lia). xs. rewrite Nat2Z.id.
        set (m4 := CLiteProps.upd m3 g _).
        assert (Hn4 : nth_error m4 L = Some [VInt (Z.of_nat n)]) by (unfold m4; rewrite mem_upd_other by (try lia; destruct X23; lia); exact Hn3).
        rewrite (ld_cell _ _ _ Hn4). xs. rewrite wrap_I32_id by lia. rewrite chk_I32 by lia. xs. cbn [fst snd].
        rewrite (st_cell m4 L _ _ Hn4). xs. replace (Z.of_nat n + -1) with (Z.of_nat (n - 1)) by lia.
        eexists. split; [reflexivity|].
        assert (Hl4 : length m4 = length m3) by (unfold m4; apply upd_length; destruct X23; lia).
        split; [|split; [|split; [apply mem_upd_same; lia|]]].
        * apply (mem_ext_trans m3 m4 _ [g] [L] _); [apply mem_ext_upd; left; reflexivity|apply mem_ext_upd; left; reflexivity| |].
          -- intros x [<-|[]]. left. reflexivity.
          -- intros x [<-|[]] _. right. left. reflexivity.
        * unfold int_arr_at. rewrite mem_upd_other by lia. unfold m4. rewrite mem_upd_same by (destruct X23; lia).
          rewrite dirdefs_upd by lia. rewrite !map_upd. reflexivity.
        * rewrite dirdefs_upd by lia. split; [apply upd_length; lia|]. rewrite map_upd. apply ints_ok_upd; [exact Hi|lia].
      + eexists. split; [reflexivity|]. split; [apply mem_ext_refl|]. auto.
    - assert (n = 0)%nat by lia. eexists. split; [reflexivity|]. split; [apply mem_ext_refl|]. auto. }
  destruct Aif as (m5 & Aif & X35 & Ho5 & Hn5 & Lo1 & Io1).
  assert (E05 : mem_ext m m5 [g]).
  { apply (mem_ext_trans m m3 m5 [] [g; L] [g] E03 X35); [intros ? []|]. intros x [<-|[<-|[]]] Hl; [left; reflexivity|exfalso; fold L in Hl; lia]. }
  assert (Hc5 : nth_error m5 (S L) = Some (map (TrDirBase.cptr sb) chrs)).
  { apply (mem_ext_get _ _ _ _ _ X35 Hc3). intros [X|[X|[]]]; lia. }
  assert (RW5 : reorder_world m5 sb s xtd rsctx rslr rsrl).
  { apply (reorder_world_ext m m5 [g] _ _ _ _ _ _ RW E05). intros p [<-|[]]. exact Hgw. }
  assert (W5 : dir_world m5 sb s (S L) chrs rslr rsrl).
  { destruct RW5. constructor; try assumption. rewrite Hcl. lia. }
  (* dir_fix(chrs, ord, dir, 0, n) *)
  assert (Hn1n : (n1 <= n)%nat) by (unfold n1; destruct nl; lia).
  unfold dir_reorder in Hre. fold n chrs dir nl ord1 n1 in Hre.
  assert (Hgw5 : ~ In g (world_blocks sb (S L))).
  { unfold world_blocks. cbn [In]. intros [X|[X|X]]; [apply Hgw; left; exact X|lia|apply Hgw; unfold reorder_blocks; cbn [In]; tauto]. }
  assert (Hcm1 : cm_ok (dir_match s chrs raw) n1) by (intros b0 e0 d0 r0 Hb0 He0; apply Hcm; lia).
  assert (Efix : exists m6, call F_dir_fix [VPtr (S L) 0; VPtr g 0; VInt dir; VInt 0; VInt (Z.of_nat n1)] m5 = Ok (VUndef, m6) /\
                   mem_ext m5 m6 [g] /\ int_arr_at m6 g (map Z.of_nat ord')).
  { unfold call. replace (S n + d)%nat with (S n1 + (n - n1 + d))%nat by lia. change (VInt 0) with (VInt (Z.of_nat 0)).
    apply (tr_dir_fix ext FUEL (S n1) (n - n1 + d)%nat m5 sb s (S L) chrs rslr rsrl raw g ord1 dir 0%nat n1 n1 ord' W5 Hor Hraw Hcm1); try assumption; try lia. }
  destruct Efix as (m6 & Efix & X56 & Ho6).
  assert (Hc6 : nth_error m6 (S L) = Some (map (TrDirBase.cptr sb) chrs)).
  { apply (mem_ext_get _ _ _ _ _ X56 Hc5). intros [X|[]]. lia. }
  (* the whole body *)
  rewrite callx_S. change (nth_error cprog F_dir_reorder) with (Some cf_dir_reorder). cbv iota beta.
  change (fn_nparams cf_dir_reorder) with 2%nat. change (fn_nlocals cf_dir_reorder) with 5%nat. cbn [length Nat.eqb Nat.sub repeat app].
  fold call. cbn [fn_body cf_dir_reorder].
  change (SIf (EAndAlso (ELoad (Some I32) (ELocal 2)) _) _ _) with dr_if.
  xs. rewrite malloc_ok by lia. xs. change (Z.to_nat 1) with 1%nat. cbn [repeat]. fold L. fold m1.
  unfold call at 1. rewrite (callx_mono ext _ _ _ _ _ _ _ Echop). xs.
  unfold call at 1. rewrite Ectx. xs. fold loc. rewrite Aif. unfold loc. xs.
  rewrite (ld_cell _ _ _ Hn5). xs. rewrite wrap_I32_id by lia.
  rewrite Efix. xs.
  rewrite (free_ok m6 (S L) _ Hc6) by (unfold chrs, uc_chop; cbn [uc_chop_f map]; discriminate). xs.
  eexists. split; [reflexivity|]. split.
  - apply (mem_ext_trans m m6 _ [g] [S L] [g]); [|apply mem_ext_upd; left; reflexivity|apply incl_refl|].
    + apply (mem_ext_trans m m5 m6 [g] [g] [g] E05 X56); [apply incl_refl|intros x Hxg _; exact Hxg].
    + intros x [<-|[]] Hl. exfalso. fold L in Hl. lia.
  - unfold int_arr_at. rewrite mem_upd_other by (try lia; destruct X56, X35, X23; lia). exact Ho6.
Qed.

(* ------------------------------------------------------------------ termination and permutation, on the C text.
   With the hypothesis of C18_terminates / C18_runs_reversed on the matcher (cm_ok: spans inside the searched range, non-empty
   match) the model does not run out of fuel S (end - beg) (DirProps.dir_fix_terminates), so the translated dir_fix RETURNS, within
   that many iterations and nested calls, and what it leaves in the order array is a permutation of what it found there
   (DirProps.dir_fix_perm = C18_permutation_fix). *)
Theorem tr_dir_fix_total ext FUEL d (m : mem) sb s cb chrs rslr rsrl raw g ord dir b e N :
  dir_world m sb s cb chrs rslr rsrl -> oracle_ok ext s chrs rslr rsrl raw -> raw_ok rslr rsrl raw ->
  cm_ok (dir_match s chrs raw) N -> (e <= N)%nat -> (N < length chrs)%nat -> (N <= length ord)%nat ->
  int_arr_at m g (map Z.of_nat ord) -> ints_ok (map Z.of_nat ord) -> ~ In g (world_blocks sb cb) ->
  (S (e - b) < FUEL)%nat -> (length s < FUEL)%nat -> (N < FUEL)%nat ->
  exists ord' m',
    dir_fix (dir_match s chrs raw) (S (e - b)) ord dir b e = Some ord' /\ Permutation ord' ord /\
    callx ext cprog FUEL (S (S (S (S (S (S (e - b) + d)))))) F_dir_fix
      [VPtr cb 0; VPtr g 0; VInt dir; VInt (Z.of_nat b); VInt (Z.of_nat e)] m = Ok (VUndef, m') /\
    mem_ext m m' [g] /\ int_arr_at m' g (map Z.of_nat ord').
Proof.
  intros W Hor Hraw Hcm HeN HNc HNo Ho Hi Hgw Hf1 Hf2 Hf3.
  destruct (dir_fix_terminates _ N Hcm (S (e - b)) ord dir b e HeN ltac:(lia)) as [ord' Hfix].
  destruct (tr_dir_fix ext FUEL (S (e - b)) d m sb s cb chrs rslr rsrl raw g ord dir b e N ord' W Hor Hraw Hcm HeN HNc HNo Ho Hi Hgw Hf1 Hf2 Hf3 Hfix)
    as [m' [E [X O]]].
  exists ord', m'. split; [exact Hfix|]. split; [exact (dir_fix_perm _ _ _ _ _ _ _ Hfix)|]. auto.
Qed.

(* ------------------------------------------------------------------ a table oracle (for the Examples: the hypotheses about the
   oracle are satisfiable by a matcher that does match).  rset_find is answered by looking the string it is handed up in a table
   (string -> index of the mark, offsets); the matcher function the model is run with looks the same table up with the text
   between chrs[b] and chrs[e]. *)
Fixpoint read_cstr (blk : list val) : list Z :=
  match blk with VInt z :: r => if z =? 0 then [] else z :: read_cstr r | _ => [] end.
Fixpoint tab_lookup (k : list Z) (tab : list (list Z * rawres)) : option rawres :=
  match tab with
  | [] => None
  | (k', a) :: r => if list_eq_dec Z.eq_dec k k' then Some a else tab_lookup k r
  end.
Definition tab_ext (tab : list (list Z * rawres)) (f : nat) (args : list val) (m : mem) : res (val * mem) :=
  if negb (Nat.eqb f X_rset_find) then Err EShape else
  match args with
  | [_; VPtr sb 0; VInt 16; VPtr gb 0; VInt _] =>
      match nth_error m sb with
      | Some blk => match tab_lookup (read_cstr blk) tab with
                    | Some (found, subs) => Ok (VInt (Z.of_nat found), CLiteProps.upd m gb (map VInt (subs_cells subs)))
                    | None => Ok (VInt (-1), m)
                    end
      | None => Err EOob
      end
  | _ => Err EShape
  end.
Definition tab_raw (tab : list (list Z * rawres)) (rslr rsrl : val) (s : bytes) (chrs : list nat) (b e : nat) (ctx flg : Z) : option rawres :=
  if is_null (rs_of rslr rsrl ctx) then None else tab_lookup (zb (substr s chrs b e)) tab.
Definition tab_entry_ok (en : list Z * rawres) : Prop :=
  let '(_, (found, subs)) := en in
  (found < length dirmarks)%nat /\ Forall int_ok (subs_cells subs) /\ 0 <= nth 0 subs (-1) /\ 0 <= nth 1 subs (-1).

Lemma read_cstr_ok (t : bytes) rest : nonul t -> read_cstr (cstr_block (zb t) ++ rest) = zb t.
Proof.
  induction 1 as [|x t [Hx0 Hx] Ht IH]; [reflexivity|].
  unfold cstr_block, zb in *. cbn [map app read_cstr]. destruct (Z.eqb_spec (Z.of_N x) 0); [lia|]. rewrite IH. reflexivity.
Qed.
Lemma tab_lookup_in k tab a : tab_lookup k tab = Some a -> In (k, a) tab.
Proof.
  induction tab as [|[k' a'] r IH]; [discriminate|]. cbn [tab_lookup]. destruct (list_eq_dec Z.eq_dec k k') as [->|Hne].
  - intro H. injection H as <-. left. reflexivity.
  - intro H. right. apply IH. exact H.
Qed.

Lemma tab_oracle_ok tab s chrs rslr rsrl : nonul s -> oracle_ok (tab_ext tab) s chrs rslr rsrl (tab_raw tab rslr rsrl s chrs).
Proof.
  intros Hnn m b e ctx strb gb gblk Hbe Hnull [rest P] Hg Hlen Hne.
  unfold tab_ext, tab_raw. rewrite Nat.eqb_refl, Hnull. cbn [negb]. rewrite P.
  rewrite (read_cstr_ok _ rest (substr_nonul s chrs b e Hnn)).
  assert (Hgl : (gb < length m)%nat) by (apply nth_error_Some; congruence).
  destruct (tab_lookup (zb (substr s chrs b e)) tab) as [[found subs]|].
  - eexists. split; [reflexivity|]. split; [apply mem_ext_upd; left; reflexivity|apply mem_upd_same; exact Hgl].
  - exists m. split; [reflexivity|]. split; [apply mem_ext_refl|exact Hg].
Qed.
Lemma tab_raw_ok tab s chrs rslr rsrl : Forall tab_entry_ok tab -> raw_ok rslr rsrl (tab_raw tab rslr rsrl s chrs).
Proof.
  intros Ht b e ctx flg. unfold tab_raw. split.
  - intros ->. reflexivity.
  - intros found subs H. destruct (is_null (rs_of rslr rsrl ctx)); [discriminate|].
    apply tab_lookup_in in H. rewrite Forall_forall in Ht. exact (Ht _ H).
Qed.
