(* TrDir.v -- /repo/dir.c (the bidi reordering of C18: dir_context, dir_match, dir_fix, dir_reorder) and conf.c's table readers
   conf_dirmark / conf_dircontext, tied to the model DirDefs.v BY PROOF on the translated C text (coq/GenCFuncs.v, whitelist
   tools/c2clite.d/99zzz_dir.list; dir_reverse is proved in TrRen.v).

   rset_find (the pattern matcher over the configured marks) is NOT translated: the calls to it are answered by an oracle `ext`
   (CLiteExt.callx), exactly as the model has the matcher as a parameter (`raw b e ctx flg` = the answer of rset_find for the
   substring chrs[beg]..chrs[end]).  Every theorem is stated for EVERY oracle whose answers are described by `raw` (oracle_ok: the
   index of the mark is returned, the 2 * 16 offsets are stored into the array handed over, no other block that existed changes).

   The local objects whose address is taken (`int subs[32]`, `int grp`, and r_beg r_end c_beg c_end c_dir c_rec of dir_fix) are
   blocks of their own in CLite (a malloc at the declaration; they are never freed, like a stack frame that is never popped), so
   the memory after a call is the old memory with blocks appended: the theorems describe it by mem_ext (every block that existed,
   other than the listed ones, is unchanged). *)
From Coq Require Import List ZArith NArith Bool Lia.
From NV Require Import Bytes UcDefs GenConf GenConsts DirDefs DirProps IoDefs CLite CLiteProps GenCFuncs CLiteTac CLiteExt TrUc TrRen TrSbuf.
Import ListNotations.
Local Open Scope Z_scope.

(* ------------------------------------------------------------------ a C string at the start of a larger block
   (sbuf_buf returns the start of an allocation of s_sz cells: the string, its terminator, then unused cells).  TrUc.v states
   uc_end / uc_next / uc_off for a block that holds exactly the string (str_at); the proofs use that only through load_str, so
   they are repeated here for pstr_at (the proofs are those of TrUc.v with load_pstr for load_str). *)
Definition pstr_at (m : mem) (b : nat) (s : bytes) : Prop := exists rest, nth_error m b = Some (cstr_block (zb s) ++ rest).
Lemma str_pstr m b s : str_at m b s -> pstr_at m b s.
Proof. intro H. exists []. rewrite app_nil_r. exact H. Qed.
Lemma load_pstr m b s z (o : nat) : pstr_at m b s -> z = Z.of_nat o -> (o <= length s)%nat ->
  load m b z = Ok (VInt (Z.of_N (nthb s o))).
Proof.
  intros [rest H] -> Ho.
  assert (L : length (cstr_block (zb s)) = S (length s)) by (unfold cstr_block, zb; rewrite app_length, !map_length; cbn; lia).
  pose proof (load_str [cstr_block (zb s)] 0 s (Z.of_nat o) o eq_refl eq_refl Ho) as E.
  unfold load in *. rewrite H. cbn [nth_error] in E.
  destruct (Z.of_nat o <? 0); [exact E|]. rewrite nth_error_app1 by lia. exact E.
Qed.
Ltac xloadp Hs H256 p :=
  rewrite (load_pstr _ _ _ _ p Hs) by lia; xstep;
  rewrite ?wrap_byte_chain by (apply nthb_lt256; exact H256); rewrite ?nb2z.

Lemma uc_end_loop_okp call m b s : pstr_at m b s -> bytes_lt256 s ->
  forall n p fuel, (p <= length s)%nat -> skip_cont (skipn p s) = n -> (n < fuel)%nat ->
  exec call fuel uc_end_loop (mkst [VPtr b (Z.of_nat p)] m) = ONormal (mkst [VPtr b (Z.of_nat (p + n))] m).
Proof.
  intros Hs H256. induction n as [|n IH]; intros p fuel Hp Hn Hf; (destruct fuel as [|fuel]; [lia|]);
    unfold uc_end_loop; cbn [fn_body cf_uc_end]; rewrite exec_while; xstep;
    rewrite (load_pstr m b s _ p Hs) by lia; xstep;
    rewrite wrap_byte_chain by (apply nthb_lt256; exact H256);
    rewrite ?nb2z, (cc_cont _ (nthb_lt256 s p H256)).
  - destruct (Nat.eq_dec p (length s)) as [->|Hne].
    + rewrite nthb_end by lia. cbn. rewrite Nat.add_0_r. reflexivity.
    + rewrite skipn_cons_nthb in Hn by lia. cbn [skip_cont] in Hn.
      destruct (is_cont (nthb s p)); [discriminate|]. rewrite Nat.add_0_r. reflexivity.
  - destruct (Nat.eq_dec p (length s)) as [->|Hne].
    + rewrite skipn_end in Hn by lia. discriminate.
    + rewrite skipn_cons_nthb in Hn by lia. cbn [skip_cont] in Hn.
      destruct (is_cont (nthb s p)); [|discriminate]. injection Hn as Hn.
      replace (Z.of_nat p + 1) with (Z.of_nat (S p)) by lia.
      change (SWhile _ _) with uc_end_loop. rewrite (IH (S p) fuel ltac:(lia) Hn ltac:(lia)).
      do 4 f_equal. lia.
Qed.

Theorem tr_uc_endp m b s o d fuel :
  pstr_at m b s -> bytes_lt256 s -> (o <= length s)%nat -> (length s < fuel)%nat ->
  callf cprog fuel (S d) F_uc_end [VPtr b (Z.of_nat o)] m
  = Ok (VPtr b (Z.of_nat (o + uc_end (skipn o s))), m).
Proof.
  intros Hs H256 Ho Hf. enter F_uc_end cf_uc_end. xstep.
  pose proof (nthb_lt256 s o H256) as Hc.
  xloadp Hs H256 o. rewrite negb_involutive, (cc_z0 _ Hc).
  assert (Hsk: skipn o s = if (o <? length s)%nat then nthb s o :: skipn (S o) s else []).
  { destruct (Nat.ltb_spec o (length s)); [apply skipn_cons_nthb; lia | apply skipn_end; lia]. }
  destruct (N.eqb_spec (nthb s o) 0) as [E0|E0].
  { xstep. unfold uc_end. rewrite Hsk. destruct (o <? length s)%nat; [rewrite E0; cbn|]; rewrite Nat.add_0_r; reflexivity. }
  assert (o < length s)%nat as Hlt
    by (destruct (Nat.lt_ge_cases o (length s)); [assumption| rewrite nthb_end in E0 by lia; congruence]).
  destruct (Nat.ltb_spec o (length s)); [|lia].
  xstep. xloadp Hs H256 o. rewrite (cc_high _ Hc).
  unfold uc_end. rewrite Hsk.
  destruct (bit (nthb s o) 128) eqn:E1; cbn [negb]; xstep; [|rewrite Nat.add_0_r; reflexivity].
  xloadp Hs H256 o. rewrite (cc_lead _ Hc).
  pose proof (cc_cont_of _ Hc) as Hco. rewrite E1 in Hco. cbn [andb] in Hco.
  destruct (is_lead (nthb s o)) eqn:E2; xstep.
  - replace (Z.of_nat o + 1) with (Z.of_nat (S o)) by lia.
    change (SWhile _ _) with uc_end_loop.
    rewrite (uc_end_loop_okp _ m b s Hs H256 _ (S o) fuel ltac:(lia) eq_refl)
      by (pose proof (skip_cont_le (skipn (S o) s)); rewrite skipn_length in *; lia).
    xstep. do 3 f_equal. lia.
  - change (SWhile _ _) with uc_end_loop.
    rewrite (uc_end_loop_okp _ m b s Hs H256 _ o fuel ltac:(lia) eq_refl)
      by (pose proof (skip_cont_le (skipn o s)); rewrite skipn_length in *; lia).
    xstep. rewrite Hsk. cbn [skip_cont]. rewrite <- Hco. cbn [negb]. do 3 f_equal. lia.
Qed.

Theorem tr_uc_nextp m b s o d fuel :
  pstr_at m b s -> bytes_lt256 s -> (o <= length s)%nat -> (length s < fuel)%nat ->
  callf cprog fuel (S (S d)) F_uc_next [VPtr b (Z.of_nat o)] m
  = Ok (VPtr b (Z.of_nat (o + uc_next (skipn o s))), m).
Proof.
  intros Hs H256 Ho Hf. enter F_uc_next cf_uc_next. xstep.
  rewrite (tr_uc_endp m b s o d fuel Hs H256 Ho Hf). xstep.
  pose proof (uc_end_in (skipn o s)) as He. rewrite skipn_length in He.
  xloadp Hs H256 (o + uc_end (skipn o s))%nat.
  pose proof (nthb_lt256 s (o + uc_end (skipn o s)) H256) as Hc.
  rewrite (cc_z0i _ Hc). unfold uc_next. rewrite nthb_skipn.
  destruct (nthb s (o + uc_end (skipn o s)) =? 0)%N; xstep; do 3 f_equal; lia.
Qed.

Lemma uc_off_loop_okp F d m b s o off : pstr_at m b s -> nonul s -> (length s < F)%nat -> (o <= length s)%nat ->
  forall k p i fuel, (length s - p <= k)%nat -> (o <= p <= length s)%nat -> (k < fuel)%nat ->
  0 <= i -> i + Z.of_nat (length s - p) <= 2147483647 ->
  exists p',
  exec (callf cprog F (S (S d))) fuel uc_off_loop
       (mkst [VPtr b (Z.of_nat p); VInt (Z.of_nat off); VPtr b (Z.of_nat (o + off)); VInt i] m)
  = ONormal (mkst [VPtr b p'; VInt (Z.of_nat off); VPtr b (Z.of_nat (o + off));
                   VInt (i + Z.of_nat (uc_off_f k (skipn p s) (p - o) off))] m).
Proof.
  intros Hs Hnn HF Ho. pose proof (nonul_lt256 s Hnn) as H256.
  induction k as [|k IH]; intros p i fuel Hk Hp Hf Hi Hmax; (destruct fuel as [|fuel]; [lia|]);
    unfold uc_off_loop; cbn [fn_body cf_uc_off]; rewrite exec_for; xstep; cbn [ptr_cmp]; rewrite Nat.eqb_refl; xstep.
  - assert (p = length s) as -> by lia. cbn [uc_off_f]. rewrite Z.add_0_r.
    destruct (Z.ltb_spec (Z.of_nat (length s)) (Z.of_nat (o + off))); xstep.
    + xloadp Hs H256 (length s). rewrite nthb_end by lia. cbn. eexists; reflexivity.
    + eexists; reflexivity.
  - destruct (Nat.eq_dec p (length s)) as [->|Hne].
    + rewrite skipn_end by lia. cbn [uc_off_f]. rewrite Z.add_0_r.
      destruct (Z.ltb_spec (Z.of_nat (length s)) (Z.of_nat (o + off))); xstep.
      * xloadp Hs H256 (length s). rewrite nthb_end by lia. cbn. eexists; reflexivity.
      * eexists; reflexivity.
    + rewrite uc_off_f_step by (apply skipn_ne; lia).
      destruct (Z.ltb_spec (Z.of_nat p) (Z.of_nat (o + off))) as [Hlt|Hge]; xstep.
      * destruct (Nat.ltb_spec (p - o) off) as [_|Hx]; [|lia].
        xloadp Hs H256 p. rewrite (cc_z0i _ (nthb_lt256 s p H256)), nonul_nthb_nz by (auto; lia). xstep.
        rewrite (tr_uc_nextp m b s p d F Hs H256) by lia. xstep.
        pose proof (uc_next_nonul (skipn p s) (nonul_skipn s p Hnn) (skipn_ne s p ltac:(lia))) as Hnx.
        pose proof (uc_end_lt (skipn p s) (skipn_ne s p ltac:(lia))) as Hel. rewrite skipn_length in Hel.
        unfold chk; cbn [ity_signed].
        replace (in_range I32 (i + 1)) with true
          by (symmetry; unfold in_range, ity_min, ity_max; cbn [ity_signed ity_bits]; change (- 2 ^ (32 - 1)) with (-2147483648); change (2 ^ (32 - 1) - 1) with 2147483647; apply andb_true_intro; split; apply Z.leb_le; lia).
        xstep. change (SFor _ _ _) with uc_off_loop.
        destruct (IH (p + uc_next (skipn p s))%nat (i + 1) fuel) as [p' Hp']; try lia.
        rewrite Hp'. exists p'. rewrite skipn_skipn.
        replace (p + uc_next (skipn p s) - o)%nat with (p - o + uc_next (skipn p s))%nat by lia.
        match goal with
        | |- ONormal (mkst [_; _; _; VInt ?x] _) = ONormal (mkst [_; _; _; VInt ?y] _) =>
            replace y with x; [reflexivity|]
        end.
        rewrite Nat2Z.inj_succ. lia.
      * destruct (Nat.ltb_spec (p - o) off) as [Hx|_]; [lia|]. rewrite Z.add_0_r. eexists; reflexivity.
Qed.

(* uc_off(s, off) on a string at the start of a block: the number of characters before byte offset off *)
Theorem tr_uc_offp m b s off d fuel :
  pstr_at m b s -> nonul s -> (length s < fuel)%nat ->
  Z.of_nat (length s) <= 2147483647 -> Z.of_nat off <= 2147483647 ->
  callf cprog fuel (S (S (S d))) F_uc_off [VPtr b 0; VInt (Z.of_nat off)] m
  = Ok (VInt (Z.of_nat (uc_off s off)), m).
Proof.
  intros Hs Hnn Hf Hmax Hoff. enter F_uc_off cf_uc_off. xstep.
  replace (0 + 1 * Z.of_nat off) with (Z.of_nat (0 + off)) by lia.
  change (SFor _ _ _) with uc_off_loop.
  destruct (uc_off_loop_okp fuel d m b s 0 off Hs Hnn Hf ltac:(lia) (length s) 0 0 fuel) as [p' Hp']; try lia.
  change 0 with (Z.of_nat 0) at 1. rewrite Hp'. xstep. reflexivity.
Qed.

Lemma uc_off_f_le k : forall t pos e, (uc_off_f k t pos e <= k)%nat.
Proof.
  induction k as [|k IH]; intros t pos e; [cbn; lia|]. destruct t as [|x t]; [cbn; lia|].
  rewrite uc_off_f_step by discriminate. destruct (pos <? e)%nat; [|lia]. specialize (IH (skipn (uc_next (x :: t)) (x :: t)) (pos + uc_next (x :: t))%nat e). lia.
Qed.
Lemma uc_off_le s off : (uc_off s off <= length s)%nat.
Proof. apply uc_off_f_le. Qed.

(* ------------------------------------------------------------------ memory that only grew *)
(* every block that existed, other than the ones listed, is unchanged; new blocks may have been appended *)
Definition mem_ext (m m' : mem) (bs : list nat) : Prop :=
  (length m <= length m')%nat /\ forall b, (b < length m)%nat -> ~ In b bs -> nth_error m' b = nth_error m b.
Lemma mem_ext_refl m bs : mem_ext m m bs.
Proof. split; [lia|reflexivity]. Qed.
Lemma mem_ext_trans m1 m2 m3 bs1 bs2 bs : mem_ext m1 m2 bs1 -> mem_ext m2 m3 bs2 -> incl bs1 bs ->
  (forall b, In b bs2 -> (b < length m1)%nat -> In b bs) -> mem_ext m1 m3 bs.
Proof.
  intros [L1 F1] [L2 F2] I1 I2. split; [lia|]. intros b Hb Hn.
  rewrite F2 by (first [lia | intro X; apply Hn, I2; [exact X|exact Hb]]). apply F1; [exact Hb|]. intro X; apply Hn, I1, X.
Qed.
Lemma mem_ext_weaken m m' bs bs' : mem_ext m m' bs -> incl bs bs' -> mem_ext m m' bs'.
Proof. intros [L F] I. split; [exact L|]. intros b Hb Hn. apply F; [exact Hb|]. intro X; apply Hn, I, X. Qed.
Lemma mem_ext_app m blk bs : mem_ext m (m ++ [blk]) bs.
Proof. split; [rewrite app_length; lia|]. intros b Hb _. apply nth_error_app_old. exact Hb. Qed.
Lemma mem_ext_upd (m : mem) b blk bs : In b bs -> mem_ext m (upd m b blk) bs.
Proof.
  intro Hin. destruct (Nat.lt_ge_cases b (length m)) as [L|L].
  - split; [rewrite upd_length by exact L; lia|]. intros b' Hb Hn. apply mem_upd_other; [exact L|]. intros ->. exact (Hn Hin).
  - replace (upd m b blk) with (m ++ [blk]); [apply mem_ext_app|].
    unfold upd. rewrite firstn_all2, skipn_all2 by lia. reflexivity.
Qed.
Lemma mem_ext_get m m' bs b blk : mem_ext m m' bs -> nth_error m b = Some blk -> ~ In b bs -> nth_error m' b = Some blk.
Proof. intros [L F] H Hn. rewrite F; [exact H| |exact Hn]. apply nth_error_Some. congruence. Qed.
Lemma mem_ext_step m m' p : sbuf_step m m' p ->
  mem_ext m m' (p :: match sbuf_datab m p with Some b => [b] | None => [] end).
Proof.
  intros [L [_ F]]. split; [exact L|]. intros b Hb Hn. apply F; [exact Hb| |].
  - intros ->. apply Hn. left. reflexivity.
  - intro E. apply Hn. right. rewrite E. left. reflexivity.
Qed.

Definition ptr_val (v : val) : Prop := v = VInt 0 \/ exists b o, v = VPtr b o.
Definition is_null (v : val) : bool := match v with VInt 0 => true | _ => false end.
Lemma x_rset_find_none : nth_error cprog X_rset_find = None.
Proof. vm_compute. reflexivity. Qed.
Ltac enterx f cf :=
  rewrite callx_S; cbn [nth_error cprog f cf fn_nparams fn_nlocals fn_body length Nat.eqb Nat.sub repeat app].

(* a load from a global table at a closed offset, a store into a one-cell block *)
Lemma ld_glob (m : mem) g (blk : block) o v : nth_error m g = Some blk -> (o <? 0) = false -> nth_error blk (Z.to_nat o) = Some v ->
  load m g o = Ok v.
Proof. intros H Ho Hv. unfold load. rewrite H, Ho, Hv. reflexivity. Qed.
Lemma st_cell (m : mem) p x v : nth_error m p = Some [x] -> store m p 0 v = Ok (upd m p [v]).
Proof. intro H. rewrite (store_ok m p [x]) by (try exact H; cbn; lia). reflexivity. Qed.
Lemma ld_cell (m : mem) p v : nth_error m p = Some [v] -> load m p 0 = Ok v.
Proof. intro H. unfold load. rewrite H. reflexivity. Qed.

(* ------------------------------------------------------------------ conf_dirmark, conf_dircontext (conf.c): the table readers.
   struct dirmark = 4 cells ctx dir grp pat, struct dircontext = 2 cells dir pat; the blocks the translator read from the
   initializers are the rows of the GENERATED tables GenConf.dirmarks / GenConf.dircontexts (checked by evaluation). *)
Definition dm_row (i : nat) : Z * Z * Z * bytes := nth i dirmarks (0, 0, 0, []).
Definition dm_dir (i : nat) : Z := let '(_, d, _, _) := dm_row i in d.
Definition dm_grp (i : nat) : Z := let '(_, _, g, _) := dm_row i in g.
Definition dm_ctx (i : nat) : Z := let '(c, _, _, _) := dm_row i in c.

Lemma gb_dirmarks_rows : forall i, (i < length dirmarks)%nat ->
  nth_error gb_dirmarks (4 * i) = Some (VInt (dm_ctx i)) /\ nth_error gb_dirmarks (4 * i + 1) = Some (VInt (dm_dir i)) /\
  nth_error gb_dirmarks (4 * i + 2) = Some (VInt (dm_grp i)) /\ int_ok (dm_ctx i) /\ int_ok (dm_dir i) /\ int_ok (dm_grp i) /\
  0 <= dm_grp i <= 15.
Proof.
  intros i Hi. change (length dirmarks) with 6%nat in Hi.
  do 6 (destruct i as [|i]; [vm_compute; repeat split; discriminate|]). lia.
Qed.
Lemma gb_dircontexts_rows : forall i, (i < length dircontexts)%nat ->
  nth_error gb_dircontexts (2 * i) = Some (VInt (fst (nth i dircontexts (0, [])))) /\ int_ok (fst (nth i dircontexts (0, []))).
Proof.
  intros i Hi. change (length dircontexts) with 2%nat in Hi.
  do 2 (destruct i as [|i]; [vm_compute; repeat split; discriminate|]). lia.
Qed.

(* conf_dirmark(idx, NULL, NULL, &dir, &grp) for a row of the table *)
Theorem tr_conf_dirmark (m : mem) idx pd pg xd xg d fuel :
  nth_error m G_dirmarks = Some gb_dirmarks -> nth_error m pd = Some [xd] -> nth_error m pg = Some [xg] -> pd <> pg ->
  (idx < length dirmarks)%nat ->
  callf cprog fuel (S d) F_conf_dirmark [VInt (Z.of_nat idx); VInt 0; VInt 0; VPtr pd 0; VPtr pg 0] m
  = Ok (VInt 0, upd (upd m pd [VInt (dm_dir idx)]) pg [VInt (dm_grp idx)]).
Proof.
  intros Hg Hd Hgr Hne Hi. destruct (gb_dirmarks_rows idx Hi) as (_ & R1 & R2 & _ & I1 & I2 & _).
  change (length dirmarks) with 6%nat in Hi.
  assert (Hdl : (pd < length m)%nat) by (apply nth_error_Some; congruence).
  enter F_conf_dirmark cf_conf_dirmark. xs.
  destruct (Z.ltb_spec (Z.of_nat idx) 0); [lia|]. xs. rewrite wrap_U64_id by lia.
  destruct (Z.leb_spec 6 (Z.of_nat idx)); [lia|]. xs.
  rewrite (ld_glob m G_dirmarks gb_dirmarks _ (VInt (dm_dir idx)) Hg)
    by (try (apply Z.ltb_ge; lia); replace (Z.to_nat (0 + 4 * Z.of_nat idx + 1 * 1)) with (4 * idx + 1)%nat by lia; exact R1).
  xs. rewrite (wrap_int_ok _ I1). rewrite (wrap_int_ok _ I1). rewrite (st_cell m pd xd _ Hd). xs.
  set (m1 := upd m pd _).
  assert (Hg1 : nth_error m1 G_dirmarks = Some gb_dirmarks).
  { unfold m1. destruct (Nat.eq_dec G_dirmarks pd) as [E|E]; [|rewrite mem_upd_other by auto; exact Hg].
    exfalso. rewrite E in Hg. rewrite Hd in Hg. discriminate. }
  rewrite (ld_glob m1 G_dirmarks gb_dirmarks _ (VInt (dm_grp idx)) Hg1)
    by (try (apply Z.ltb_ge; lia); replace (Z.to_nat (0 + 4 * Z.of_nat idx + 1 * 2)) with (4 * idx + 2)%nat by lia; exact R2).
  xs. rewrite (wrap_int_ok _ I2). rewrite (wrap_int_ok _ I2).
  assert (Hgr1 : nth_error m1 pg = Some [xg]) by (unfold m1; rewrite mem_upd_other by auto; exact Hgr).
  rewrite (st_cell m1 pg xg _ Hgr1). xs. reflexivity.
Qed.

(* conf_dircontext(idx, NULL, &dir), every int idx: inside the table the row's direction is stored and 0 returned, outside
   nothing is stored and 1 returned *)
Definition dctx_row (idx : Z) : option (Z * bytes) := if idx <? 0 then None else nth_error dircontexts (Z.to_nat idx).
Theorem tr_conf_dircontext (m : mem) idx pc xc d fuel :
  nth_error m G_dircontexts = Some gb_dircontexts -> nth_error m pc = Some [xc] -> int_ok idx ->
  callf cprog fuel (S d) F_conf_dircontext [VInt idx; VInt 0; VPtr pc 0] m
  = match dctx_row idx with
    | Some (dir, _) => Ok (VInt 0, upd m pc [VInt dir])
    | None => Ok (VInt 1, m)
    end.
Proof.
  intros Hg Hc Hi. unfold dctx_row, int_ok in *.
  enter F_conf_dircontext cf_conf_dircontext. xs.
  destruct (Z.ltb_spec idx 0); xs; [reflexivity|]. rewrite wrap_U64_id by lia.
  destruct (Z.leb_spec 2 idx) as [L|L]; xs.
  - replace (nth_error dircontexts (Z.to_nat idx)) with (@None (Z * bytes)); [reflexivity|].
    symmetry. apply nth_error_None. change (length dircontexts) with 2%nat. lia.
  - assert (Hn : (Z.to_nat idx < length dircontexts)%nat) by (change (length dircontexts) with 2%nat; lia).
    destruct (gb_dircontexts_rows _ Hn) as [R I].
    rewrite (nth_error_nth' dircontexts (0, []) Hn). destruct (nth (Z.to_nat idx) dircontexts (0, [])) as [dir pat] eqn:E.
    cbn [fst] in R, I.
    rewrite (ld_glob m G_dircontexts gb_dircontexts _ (VInt dir) Hg)
      by (try (apply Z.ltb_ge; lia); replace (Z.to_nat (0 + 2 * idx)) with (2 * Z.to_nat idx)%nat by lia; exact R).
    xs. rewrite (wrap_int_ok _ I). rewrite (wrap_int_ok _ I). rewrite (st_cell m pc xc _ Hc). xs. reflexivity.
Qed.

(* ------------------------------------------------------------------ dir_context *)
Lemma cc_notbit7 : forall c, (c < 256)%N ->
  negb (Z.land (Z.lnot (wrap I32 (wrap U8 (wrap I8 (Z.of_N c))))) 128 =? 0) = negb (bit c 128).
Proof. byte_fact. Qed.
Lemma hd0_nthb (s : bytes) : hd0 s = nthb s 0.
Proof. destruct s; reflexivity. Qed.

(* the three fast paths: xtd > 1, xtd < -1, xtd == 0 and an ASCII first byte *)
Definition ctx_fast (s : bytes) (xtd : Z) : bool := (1 <? xtd) || (xtd <? -1) || ((xtd =? 0) && negb (bit (hd0 s) 128)).
Lemma dir_context_fast s xtd cf1 cf2 : ctx_fast s xtd = true -> dir_context s xtd cf1 = dir_context s xtd cf2.
Proof.
  unfold ctx_fast, dir_context. destruct (1 <? xtd); [reflexivity|]. destruct (xtd <? -1); [reflexivity|].
  cbn [orb]. intros ->. reflexivity.
Qed.

(* the memory dir_context needs: the line, the option xtd, the context rset pointer, the context table *)
Record ctx_world (m : mem) (sb : nat) (s : bytes) (xtd : Z) (rsctx : val) : Prop := {
  cw_s : str_at m sb s;  cw_256 : bytes_lt256 s;
  cw_xtd : nth_error m G_xtd = Some [VInt xtd];  cw_xtd_ok : int_ok xtd;
  cw_rs : nth_error m G_dir_rsctx = Some [rsctx];  cw_rs_ok : ptr_val rsctx;
  cw_tab : nth_error m G_dircontexts = Some gb_dircontexts }.

(* dir_context(s) when a fast path applies: for EVERY oracle (rset_find is not reached), the model's answer (which then does
   not depend on the matcher); the memory is the old one plus the block of the local `dir` *)
Theorem tr_dir_context_fast ext m sb s xtd rsctx cf d fuel : ctx_world m sb s xtd rsctx -> ctx_fast s xtd = true ->
  callx ext cprog fuel (S d) F_dir_context [VPtr sb 0] m = Ok (VInt (dir_context s xtd cf), m ++ [[VUndef]]).
Proof.
  intros [Hs H256 Hx Ix Hr Pr Ht] Hf. unfold int_ok in Ix.
  assert (Hxl : (G_xtd < length m)%nat) by (apply nth_error_Some; congruence).
  assert (Hx1 : nth_error (m ++ [[VUndef]]) G_xtd = Some [VInt xtd]) by (rewrite nth_error_app_old by exact Hxl; exact Hx).
  assert (Hs1 : str_at (m ++ [[VUndef]]) sb s).
  { unfold str_at in *. rewrite nth_error_app_old; [exact Hs|]. apply nth_error_Some. congruence. }
  enterx F_dir_context cf_dir_context. xs. rewrite malloc_ok by lia. xs. change (Z.to_nat 1) with 1%nat. cbn [repeat].
  rewrite (ld_cell _ _ _ Hx1). xs. rewrite wrap_I32_id by lia.
  unfold ctx_fast in Hf. unfold dir_context.
  destruct (Z.ltb_spec 1 xtd); xs; [reflexivity|].
  rewrite (ld_cell _ _ _ Hx1). xs. rewrite wrap_I32_id by lia.
  destruct (Z.ltb_spec xtd (-1)); xs; [reflexivity|]. cbn [orb] in Hf.
  rewrite (ld_cell _ _ _ Hx1). xs. rewrite wrap_I32_id by lia.
  destruct (Z.eqb_spec xtd 0) as [E0|E0]; [|discriminate Hf]. cbn [andb] in Hf. xs.
  rewrite (load_str _ sb s 0 0%nat Hs1) by lia. xs.
  rewrite (cc_notbit7 _ (nthb_lt256 s 0 H256)), <- hd0_nthb, Hf. xs. reflexivity.
Qed.

(* the tail of dir_context behind the rset_find step, from any memory that extends the one at that point *)
Definition ctx_tail : stmt :=
  match fn_body cf_dir_context with SSeq _ (SSeq _ (SSeq _ (SSeq _ (SSeq _ (SSeq _ t))))) => t | _ => SSkip end.
Lemma ctx_tail_ok ext fuel d (m m3 : mem) xtd cf loc0 :
  nth_error m G_xtd = Some [VInt xtd] -> int_ok xtd -> nth_error m G_dircontexts = Some gb_dircontexts ->
  mem_ext (m ++ [[VUndef]]) m3 [] -> int_ok cf ->
  exists m', exec (callx ext cprog fuel (S d)) fuel ctx_tail (mkst [loc0; VInt cf; VPtr (length m) 0] m3)
    = OReturn (VInt (match dctx_row cf with Some (dir, _) => dir | None => if xtd <? 0 then -1 else 1 end))
              (mkst [loc0; VInt cf; VPtr (length m) 0] m') /\ mem_ext m m' [].
Proof.
  intros Hx Ix Ht E13 Icf. unfold int_ok in Ix.
  assert (Hxl : (G_xtd < length m)%nat) by (apply nth_error_Some; congruence).
  assert (Htl : (G_dircontexts < length m)%nat) by (apply nth_error_Some; congruence).
  assert (Ht3 : nth_error m3 G_dircontexts = Some gb_dircontexts).
  { apply (mem_ext_get _ _ _ _ _ E13); [rewrite nth_error_app_old by exact Htl; exact Ht|intros []]. }
  assert (Hd3 : nth_error m3 (length m) = Some [VUndef]) by (apply (mem_ext_get _ _ _ _ _ E13); [apply nth_error_app_new|intros []]).
  assert (Hx3 : nth_error m3 G_xtd = Some [VInt xtd]).
  { apply (mem_ext_get _ _ _ _ _ E13); [rewrite nth_error_app_old by exact Hxl; exact Hx|intros []]. }
  assert (E03 : mem_ext m m3 []).
  { apply (mem_ext_trans m (m ++ [[VUndef]]) m3 [] [] []); [apply mem_ext_app|exact E13|apply incl_refl|intros b []]. }
  pose proof (tr_conf_dircontext m3 cf (length m) VUndef d fuel Ht3 Hd3 Icf) as Ec.
  unfold ctx_tail. cbn [fn_body cf_dir_context]. xs.
  destruct (dctx_row cf) as [[dir pat]|] eqn:Er.
  - rewrite (callx_mono ext _ _ _ _ _ _ _ Ec). xs.
    assert (Hdl : (length m < length m3)%nat) by (apply nth_error_Some; congruence).
    rewrite (ld_cell (upd m3 (length m) [VInt dir]) (length m) (VInt dir)) by (apply mem_upd_same; exact Hdl). xs.
    assert (Idir : int_ok dir).
    { unfold dctx_row in Er. destruct (cf <? 0); [discriminate|].
      assert (Hn : (Z.to_nat cf < length dircontexts)%nat) by (apply nth_error_Some; congruence).
      destruct (gb_dircontexts_rows _ Hn) as [_ I]. rewrite (nth_error_nth _ _ (0, []) Er) in I. exact I. }
    rewrite (wrap_int_ok _ Idir). eexists. split; [reflexivity|].
    apply (mem_ext_trans m m3 _ [] [length m] []); [exact E03|apply mem_ext_upd; left; reflexivity|apply incl_refl|].
    intros b [<-|[]] Hb. exfalso; lia.
  - rewrite (callx_mono ext _ _ _ _ _ _ _ Ec). xs. rewrite (ld_cell _ _ _ Hx3). xs. rewrite wrap_I32_id by lia.
    exists m3. split; [|exact E03]. destruct (xtd <? 0); xs; reflexivity.
Qed.

(* dir_context(s) on the slow path: rset_find(dir_rsctx, s, 0, NULL, 0) is the oracle's (when dir_rsctx is not NULL); whatever
   index it answers, the result is the model's dir_context for that answer (cf = -1: no pattern matched, or there is no rset) *)
Theorem tr_dir_context_slow ext m sb s xtd rsctx cf m2 d fuel : ctx_world m sb s xtd rsctx -> ctx_fast s xtd = false ->
  (is_null rsctx = true -> cf = -1) ->
  (is_null rsctx = false ->
     ext X_rset_find [rsctx; VPtr sb 0; VInt 0; VInt 0; VInt 0] (m ++ [[VUndef]]) = Ok (VInt cf, m2) /\ int_ok cf /\
     mem_ext (m ++ [[VUndef]]) m2 []) ->
  exists m', callx ext cprog fuel (S (S d)) F_dir_context [VPtr sb 0] m = Ok (VInt (dir_context s xtd cf), m') /\ mem_ext m m' [].
Proof.
  intros [Hs H256 Hx Ix Hr Pr Ht] Hf Hnull Hext. pose proof Ix as Ix'. unfold int_ok in Ix.
  assert (Hxl : (G_xtd < length m)%nat) by (apply nth_error_Some; congruence).
  assert (Hrl : (G_dir_rsctx < length m)%nat) by (apply nth_error_Some; congruence).
  set (m1 := m ++ [[VUndef]]) in *.
  assert (Hx1 : nth_error m1 G_xtd = Some [VInt xtd]) by (unfold m1; rewrite nth_error_app_old by exact Hxl; exact Hx).
  assert (Hr1 : nth_error m1 G_dir_rsctx = Some [rsctx]) by (unfold m1; rewrite nth_error_app_old by exact Hrl; exact Hr).
  assert (Hs1 : str_at m1 sb s).
  { unfold str_at, m1 in *. rewrite nth_error_app_old; [exact Hs|]. apply nth_error_Some. congruence. }
  enterx F_dir_context cf_dir_context. xs. rewrite malloc_ok by lia. xs. change (Z.to_nat 1) with 1%nat. cbn [repeat]. fold m1.
  rewrite (ld_cell _ _ _ Hx1). xs. rewrite wrap_I32_id by lia.
  unfold ctx_fast in Hf. unfold dir_context.
  destruct (Z.ltb_spec 1 xtd); [discriminate Hf|]. xs.
  rewrite (ld_cell _ _ _ Hx1). xs. rewrite wrap_I32_id by lia.
  destruct (Z.ltb_spec xtd (-1)); [discriminate Hf|]. xs. cbn [orb] in Hf.
  rewrite (ld_cell _ _ _ Hx1). xs. rewrite wrap_I32_id by lia.
  assert (Hfast3 : (if xtd =? 0 then negb (bit (hd0 s) 128) else false) = false) by (destruct (xtd =? 0); exact Hf).
  assert (Fin : forall m3, mem_ext m1 m3 [] -> int_ok cf ->
            exists m', match exec (callx ext cprog fuel (S d)) fuel ctx_tail (mkst [VPtr sb 0; VInt cf; VPtr (length m) 0] m3) with
                       | OReturn v st => Ok (v, memm st) | ONormal st => Ok (VUndef, memm st) | OErr x => Err x | _ => Err EShape end
                       = Ok (VInt (match (if cf <? 0 then None else nth_error dircontexts (Z.to_nat cf)) with
                                   | Some (dir, _) => dir | None => if xtd <? 0 then -1 else 1 end), m') /\ mem_ext m m' []).
  { intros m3 E13 Icf. destruct (ctx_tail_ok ext fuel d m m3 xtd cf (VPtr sb 0) Hx Ix' Ht E13 Icf) as [m' [E M]].
    rewrite E. exists m'. split; [reflexivity|exact M]. }
  change (SSeq (SIf (ELNot (ECall F_conf_dircontext _)) _ _) _) with ctx_tail.
  destruct (Z.eqb_spec xtd 0) as [E0|E0]; xs.
  - rewrite (load_str _ sb s 0 0%nat Hs1) by lia. xs.
    rewrite (cc_notbit7 _ (nthb_lt256 s 0 H256)), <- hd0_nthb, Hfast3. xs.
    rewrite (ld_cell _ _ _ Hr1).
    destruct Pr as [->|[rb [ro ->]]]; xs.
    + specialize (Hnull eq_refl). subst cf. apply (Fin m1); [apply mem_ext_refl|unfold int_ok; lia].
    + rewrite (ld_cell _ _ _ Hr1). xs. rewrite callx_S, x_rset_find_none.
      destruct (Hext eq_refl) as [Ex [Icf E12]]. rewrite Ex. xs. apply (Fin m2); assumption.
  - rewrite (ld_cell _ _ _ Hr1).
    destruct Pr as [->|[rb [ro ->]]]; xs.
    + specialize (Hnull eq_refl). subst cf. apply (Fin m1); [apply mem_ext_refl|unfold int_ok; lia].
    + rewrite (ld_cell _ _ _ Hr1). xs. rewrite callx_S, x_rset_find_none.
      destruct (Hext eq_refl) as [Ex [Icf E12]]. rewrite Ex. xs. apply (Fin m2); assumption.
Qed.
