(* CapProps.v -- C05: lemmas about the capacity models of CapDefs.v *)
From Coq Require Import List NArith ZArith Bool Lia ZifyBool ZifyNat ZifyN.
From NV Require Import Bytes GenConsts GenExCmds CapDefs.
Import ListNotations.

Lemma ex_exec_guard ln : (EXLEN <= Z.of_nat (cstrlen ln))%Z -> ex_exec ln = TooLong.
Proof. intro H. unfold ex_exec. destruct (Z.leb_spec EXLEN (Z.of_nat (cstrlen ln))); [reflexivity|lia]. Qed.
