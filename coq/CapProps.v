(* CapProps.v -- C05: lemmas about the capacity models of CapDefs.v *)
From Coq Require Import List NArith ZArith Bool Lia ZifyBool ZifyNat ZifyN.
From NV Require Import Bytes GenConsts GenExCmds CapDefs.
Import ListNotations.

(* ---------------------------------------------------------------------------------------- *)
(* checked memory                                                                            *)

Lemma rd_ok s i : i <= length s -> exists c, rd s i = Ok c /\ (c <> 0%N -> i < length s).
Proof.
  intro H. unfold rd. destruct (nth_error s i) eqn:E.
  - exists n. split; [reflexivity|]. intros _. apply nth_error_Some. congruence.
  - apply nth_error_None in E. assert (i = length s) as -> by lia. rewrite Nat.eqb_refl.
    exists 0%N. split; [reflexivity|]. intro C. congruence.
Qed.

Lemma rd_oob s i : length s < i -> rd s i = OobRd.
Proof.
  intro H. unfold rd. destruct (nth_error s i) eqn:E.
  - assert (i < length s) by (apply nth_error_Some; congruence). lia.
  - destruct (Nat.eqb_spec i (length s)); [lia|reflexivity].
Qed.

Lemma wr_ok w b : 0 < wroom w ->
  exists w', wr w b = Ok w' /\ wroom w = S (wroom w') /\ wcap w' = wcap w /\ wlen w' = S (wlen w).
Proof.
  destruct w as [l r]. unfold wroom, wcap, wlen, wr. cbn [fst snd]. intro H. destruct r as [|r]; [lia|].
  exists (b :: l, r). unfold wroom, wcap, wlen. cbn [fst snd length]. repeat split; lia.
Qed.

(* the read position moved from i to i' inside s and every byte written was paid for by a byte read *)
Definition adv (s : bytes) (i : nat) (w : W) (i' : nat) (w' : W) : Prop :=
  i <= i' /\ i' <= length s /\ i + wroom w <= i' + wroom w' /\ wcap w' = wcap w.

Lemma adv_refl s i w : i <= length s -> adv s i w i w.
Proof. unfold adv. lia. Qed.
Lemma adv_trans s i w i1 w1 i2 w2 : adv s i w i1 w1 -> adv s i1 w1 i2 w2 -> adv s i w i2 w2.
Proof. unfold adv. lia. Qed.

Lemma copy1_spec s i w : i < length s -> 0 < wroom w ->
  exists w', copy1 s i w = Ok (S i, w') /\ wroom w = S (wroom w') /\ wcap w' = wcap w.
Proof.
  intros Hi Hw. unfold copy1. destruct (rd_ok s i) as (c & Hc & _); [lia|]. rewrite Hc. cbn [bind].
  destruct (wr_ok w c Hw) as (w' & E & H1 & H2 & _). rewrite E. cbn [bind]. exists w'. auto.
Qed.

Lemma esc_spec s i w : i < length s -> length s < i + wroom w ->
  exists i' w', esc s i w = Ok (i', w') /\ i' < length s /\ adv s i w i' w'.
Proof.
  intros Hi Hw. unfold esc. destruct (rd_ok s i) as (c & Hc & _); [lia|]. rewrite Hc. cbn [bind].
  destruct (c =? 92)%N.
  - destruct (rd_ok s (S i)) as (c1 & Hc1 & Hn1); [lia|]. rewrite Hc1. cbn [bind].
    destruct (N.eqb_spec c1 0).
    + exists i, w. split; [reflexivity|]. unfold adv. lia.
    + destruct (copy1_spec s i w) as (w' & E & H1 & H2); [lia..|]. rewrite E.
      exists (S i), w'. split; [reflexivity|]. specialize (Hn1 n). unfold adv. lia.
  - exists i, w. split; [reflexivity|]. unfold adv. lia.
Qed.

Lemma skip_while_spec pre : pre 0%N = false -> forall fuel s i, i <= length s -> length s < i + fuel ->
  exists i', skip_while fuel pre s i = Ok i' /\ i <= i' /\ i' <= length s /\
             exists c, rd s i' = Ok c /\ pre c = false.
Proof.
  intros P0. induction fuel as [|f IH]; intros s i Hi Hf; [lia|].
  cbn [skip_while]. destruct (rd_ok s i) as (c & Hc & Hn); [lia|]. rewrite Hc. cbn [bind].
  destruct (pre c) eqn:E.
  - assert (c <> 0%N) by (intro; subst; congruence). specialize (Hn H).
    destruct (IH s (S i)) as (i' & E' & H1 & H2 & H3); [lia..|]. exists i'. repeat split; try assumption; lia.
  - exists i. repeat split; try lia. exists c. auto.
Qed.

Lemma copy_until_spec stop : forall fuel s i w, i <= length s -> length s < i + wroom w -> length s < i + fuel ->
  exists i' w', copy_until fuel stop s i w = Ok (i', w') /\ adv s i w i' w' /\
                exists c, rd s i' = Ok c /\ ((c =? 0)%N || stop c = true).
Proof.
  induction fuel as [|f IH]; intros s i w Hi Hw Hf; [lia|].
  cbn [copy_until]. destruct (rd_ok s i) as (c & Hc & Hn); [lia|]. rewrite Hc. cbn [bind].
  destruct ((c =? 0)%N || stop c) eqn:E.
  - exists i, w. split; [reflexivity|]. split; [apply adv_refl; lia|]. exists c. auto.
  - assert (c <> 0%N) as Hc0 by lia. specialize (Hn Hc0).
    destruct (esc_spec s i w) as (i1 & w1 & E1 & L1 & A1); [lia..|]. rewrite E1. cbn [bind fst snd].
    destruct (copy1_spec s i1 w1) as (w2 & E2 & R2 & C2); [unfold adv in A1; lia..|]. rewrite E2. cbn [bind fst snd].
    destruct (IH s (S i1) w2) as (i3 & w3 & E3 & A3 & X3); [unfold adv in A1; lia..|].
    exists i3, w3. split; [assumption|]. split; [|assumption]. unfold adv in *. lia.
Qed.

(* ---------------------------------------------------------------------------------------- *)
(* ex_loc                                                                                    *)

Lemma loc_main_spec : forall fuel s i w, i <= length s -> length s < i + wroom w -> length s < i + fuel ->
  exists i' w', loc_main fuel s i w = Ok (i', w') /\ adv s i w i' w'.
Proof.
  induction fuel as [|f IH]; intros s i w Hi Hw Hf; [lia|].
  cbn [loc_main]. destruct (rd_ok s i) as (c & Hc & Hn); [lia|]. rewrite Hc. cbn [bind].
  destruct ((c =? 0)%N || negb (mem c exloc_set)) eqn:E.
  { exists i, w. split; [reflexivity|]. apply adv_refl; lia. }
  assert (c <> 0%N) as Hc0 by lia. specialize (Hn Hc0).
  (* the quote *)
  assert (exists i1 w1, (if (c =? 39)%N then copy1 s i w else Ok (i, w)) = Ok (i1, w1) /\ adv s i w i1 w1 /\
                        (i1 = S i \/ i1 = i)) as (i1 & w1 & E1 & A1 & P1).
  { destruct (c =? 39)%N.
    - destruct (copy1_spec s i w) as (w1 & E1 & R1 & C1); [lia..|]. exists (S i), w1. rewrite E1.
      split; [reflexivity|]. split; [unfold adv; lia|]. left; reflexivity.
    - exists i, w. split; [reflexivity|]. split; [apply adv_refl; lia|]. right; reflexivity. }
  rewrite E1. cbn [bind fst snd].
  destruct (rd_ok s i1) as (c2 & Hc2 & Hn2); [unfold adv in A1; lia|]. rewrite Hc2. cbn [bind].
  assert (i1 = i -> c2 = c) as Q2 by (intros ->; congruence).
  (* the search pattern *)
  assert (exists i2 w2, (if (c2 =? 47)%N || (c2 =? 63)%N
                         then (do iw <- copy1 s i1 w1; copy_until (S (length s)) (N.eqb c2) s (fst iw) (snd iw))
                         else Ok (i1, w1)) = Ok (i2, w2) /\ adv s i1 w1 i2 w2 /\ (i1 < i2 \/ i2 = i1))
    as (i2 & w2 & E2 & A2 & P2).
  { destruct ((c2 =? 47)%N || (c2 =? 63)%N) eqn:E2.
    - assert (c2 <> 0%N) as Hc20 by lia. specialize (Hn2 Hc20).
      destruct (copy1_spec s i1 w1) as (w' & E' & R' & C'); [unfold adv in A1; lia..|]. rewrite E'. cbn [bind fst snd].
      destruct (copy_until_spec (N.eqb c2) (S (length s)) s (S i1) w') as (i2 & w2 & E3 & A3 & _); [unfold adv in A1; lia..|].
      exists i2, w2. split; [assumption|]. unfold adv in *. split; lia.
    - exists i1, w1. split; [reflexivity|]. split; [apply adv_refl; unfold adv in A1; lia|]. right; reflexivity. }
  rewrite E2. cbn [bind fst snd].
  destruct (rd_ok s i2) as (c3 & Hc3 & Hn3); [unfold adv in A2; lia|]. rewrite Hc3. cbn [bind].
  assert (i2 = i -> c3 = c) as Q3 by (intros ->; congruence).
  destruct (N.eqb_spec c3 0) as [Z3|Z3]; cbn [bind fst snd].
  - assert (i < i2) by (destruct (Nat.eq_dec i2 i) as [e|e]; [specialize (Q3 e); congruence|unfold adv in *; lia]).
    destruct (IH s i2 w2) as (i' & w' & E' & A'); [unfold adv in *; lia..|].
    exists i', w'. split; [assumption|]. eapply adv_trans; [exact A1|]. eapply adv_trans; eassumption.
  - specialize (Hn3 Z3).
    destruct (copy1_spec s i2 w2) as (w3 & E3 & R3 & C3); [unfold adv in *; lia..|]. rewrite E3. cbn [bind fst snd].
    destruct (IH s (S i2) w3) as (i' & w' & E' & A'); [unfold adv in *; lia..|].
    exists i', w'. split; [assumption|]. unfold adv in *. lia.
Qed.

Lemma is_colon_blank_0 : is_colon_blank 0%N = false. Proof. reflexivity. Qed.
Lemma is_blank_0 : is_blank 0%N = false. Proof. reflexivity. Qed.

(* ex_loc: consumed i' - i bytes, wrote at most that many plus the terminator *)
Lemma ex_loc_spec s i w : i <= length s -> length s < i + wroom w ->
  exists i' w', ex_loc s i w = Ok (i', w') /\ i <= i' /\ i' <= length s /\
                wlen w' <= wlen w + (i' - i) + 1 /\ wcap w' = wcap w.
Proof.
  intros Hi Hw. unfold ex_loc.
  destruct (skip_while_spec is_colon_blank is_colon_blank_0 (S (length s)) s i) as (i1 & E1 & L1 & L1' & _); [lia..|].
  rewrite E1. cbn [bind].
  destruct (loc_main_spec (S (length s)) s i1 w) as (i2 & w2 & E2 & A2); [lia..|]. rewrite E2. cbn [bind fst snd].
  destruct (wr_ok w2 0%N) as (w3 & E3 & R3 & C3 & N3); [unfold adv in A2; lia|]. rewrite E3. cbn [bind].
  exists i2, w3. split; [reflexivity|]. unfold adv, wcap in *. lia.
Qed.

(* ---------------------------------------------------------------------------------------- *)
(* ex_cmd                                                                                    *)

Lemma cmd_loop_spec : forall fuel s i w n, i <= length s -> length s < i + wroom w -> length s < i + fuel -> n <= 16 ->
  exists i' w', cmd_loop fuel s i w n = Ok (i', w') /\ adv s i w i' w' /\ wlen w' + n <= wlen w + 16.
Proof.
  induction fuel as [|f IH]; intros s i w n Hi Hw Hf Hn16; [lia|].
  cbn [cmd_loop]. destruct (rd_ok s i) as (c & Hc & Hn); [lia|]. rewrite Hc. cbn [bind].
  destruct (c_isalpha c && (n <? 16)) eqn:E.
  - assert (c <> 0%N) as Hc0 by (unfold c_isalpha in E; lia). specialize (Hn Hc0).
    destruct (wr_ok w c) as (w1 & E1 & R1 & C1 & N1); [lia|]. rewrite E1. cbn [bind].
    destruct ((c =? 107)%N && (S n =? 1)).
    + exists (S i), w1. split; [reflexivity|]. unfold adv. lia.
    + destruct (IH s (S i) w1 (S n)) as (i' & w' & E' & A' & B'); [lia..|].
      exists i', w'. split; [assumption|]. unfold adv in *. lia.
  - exists i, w. split; [reflexivity|]. split; [apply adv_refl; lia|lia].
Qed.

Lemma ex_cmd_spec s i w : i <= length s -> length s < i + wroom w ->
  exists i' w', ex_cmd s i w = Ok (i', w') /\ i <= i' /\ i' <= length s /\
                wlen w' <= wlen w + (i' - i) + 1 /\ wlen w' <= wlen w + 18 /\ wcap w' = wcap w.
Proof.
  intros Hi Hw. unfold ex_cmd.
  destruct (skip_while_spec is_blank is_blank_0 (S (length s)) s i) as (i1 & E1 & L1 & L1' & _); [lia..|].
  rewrite E1. cbn [bind].
  destruct (cmd_loop_spec (S (length s)) s i1 w 0) as (i2 & w2 & E2 & A2 & B2); [lia..|]. rewrite E2. cbn [bind fst snd].
  destruct (rd_ok s i2) as (c & Hc & Hn); [unfold adv in A2; lia|]. rewrite Hc. cbn [bind].
  assert (exists i3 w3, (if (c =? 33)%N || (c =? 61)%N || (c =? 64)%N then copy1 s i2 w2 else Ok (i2, w2)) = Ok (i3, w3) /\
                        adv s i2 w2 i3 w3 /\ i3 <= S i2) as (i3 & w3 & E3 & A3 & B3).
  { destruct ((c =? 33)%N || (c =? 61)%N || (c =? 64)%N) eqn:E.
    - assert (c <> 0%N) as Hc0 by lia. specialize (Hn Hc0).
      destruct (copy1_spec s i2 w2) as (w3 & E3 & R3 & C3); [unfold adv in A2; lia..|].
      exists (S i2), w3. split; [assumption|]. unfold adv in *. lia.
    - exists i2, w2. split; [reflexivity|]. split; [apply adv_refl; unfold adv in A2; lia|lia]. }
  rewrite E3. cbn [bind fst snd].
  destruct (wr_ok w3 0%N) as (w4 & E4 & R4 & C4 & N4); [unfold adv in *; lia|]. rewrite E4. cbn [bind].
  exists i3, w4. split; [reflexivity|]. unfold adv, wcap in *. lia.
Qed.

(* ---------------------------------------------------------------------------------------- *)
(* ex_arg                                                                                    *)

Lemma arg_sub_spec : forall fuel s d i w cnt, i <= length s -> length s < i + wroom w -> length s < i + fuel ->
  exists i' w', arg_sub fuel s d i w cnt = Ok (i', w') /\ adv s i w i' w'.
Proof.
  induction fuel as [|f IH]; intros s d i w cnt Hi Hw Hf; [lia|].
  cbn [arg_sub]. destruct (rd_ok s i) as (c & Hc & Hn); [lia|]. rewrite Hc. cbn [bind].
  destruct ((c =? 0)%N || (c =? 10)%N || (cnt =? 0)) eqn:E.
  - exists i, w. split; [reflexivity|]. apply adv_refl; lia.
  - assert (c <> 0%N) as Hc0 by lia. specialize (Hn Hc0).
    destruct (esc_spec s i w) as (i1 & w1 & E1 & L1 & A1); [lia..|]. rewrite E1. cbn [bind fst snd].
    destruct (copy1_spec s i1 w1) as (w2 & E2 & R2 & C2); [unfold adv in A1; lia..|]. rewrite E2. cbn [bind fst snd].
    destruct (IH s d (S i1) w2 (if (c =? d)%N then Nat.pred cnt else cnt)) as (i3 & w3 & E3 & A3); [unfold adv in A1; lia..|].
    exists i3, w3. split; [assumption|]. unfold adv in *. lia.
Qed.

Lemma not_nl_0 : not_nl 0%N = false. Proof. reflexivity. Qed.

Lemma ex_arg_spec s i w c0 c1 : i <= length s -> length s < i + wroom w ->
  exists i' w', ex_arg s i w c0 c1 = Ok (i', w') /\ i <= i' /\ i' <= length s /\
                wlen w' <= wlen w + (i' - i) + 1 /\ wcap w' = wcap w /\
                (forall c, rd s i = Ok c -> c <> 0%N -> i < i').
Proof.
  intros Hi Hw. unfold ex_arg.
  destruct (skip_while_spec is_blank is_blank_0 (S (length s)) s i) as (i1 & E1 & L1 & L1' & _); [lia..|].
  rewrite E1. cbn [bind].
  destruct (rd_ok s i1) as (c & Hc & Hn); [lia|]. rewrite Hc. cbn [bind].
  match goal with |- context [bind (if ?b then ?x else ?y) _] =>
    assert (exists i2 w2, (if b then x else y) = Ok (i2, w2) /\ adv s i1 w i2 w2) as (i2 & w2 & E2 & A2) end.
  { match goal with |- context [if ?b then _ else _] => destruct b end.
    - destruct (copy_until_spec stop_nl (S (length s)) s i1 w) as (i2 & w2 & E2 & A2 & _); [lia..|]. eauto.
    - match goal with |- context [if ?b then _ else _] => destruct b end.
      + match goal with |- context [if ?b then _ else _] => destruct b eqn:Eb end.
        * assert (c <> 0%N) as Hc0 by lia. specialize (Hn Hc0).
          destruct (copy1_spec s i1 w) as (w' & E' & R' & C'); [lia..|]. rewrite E'. cbn [bind fst snd].
          destruct (arg_sub_spec (S (length s)) s c (S i1) w' 2) as (i2 & w2 & E2 & A2); [lia..|].
          exists i2, w2. split; [assumption|]. unfold adv in *. lia.
        * exists i1, w. split; [reflexivity|]. apply adv_refl; lia.
      + exists i1, w. split; [reflexivity|]. apply adv_refl; lia. }
  rewrite E2. cbn [bind fst snd].
  destruct (copy_until_spec stop_tail (S (length s)) s i2 w2) as (i3 & w3 & E3 & A3 & (c2' & Hc2' & X2)); [unfold adv in A2; lia..|].
  rewrite E3. cbn [bind fst snd]. rewrite Hc2'. cbn [bind].
  assert (exists i4, (if (c2' =? 34)%N then skip_while (S (length s)) not_nl s i3 else Ok i3) = Ok i4 /\ i3 <= i4 /\ i4 <= length s /\
                     exists c3, rd s i4 = Ok c3 /\ (c3 = 0 \/ c3 = 10 \/ c3 = 124)%N) as (i4 & E4 & L4 & L4' & c3 & Hc3 & X3).
  { destruct (c2' =? 34)%N eqn:E34.
    - destruct (skip_while_spec not_nl not_nl_0 (S (length s)) s i3) as (i4 & E4 & L4 & L4' & c3 & Hc3 & X3); [unfold adv in A3; lia..|].
      exists i4. repeat split; try assumption. exists c3. split; [assumption|]. unfold not_nl in X3. lia.
    - exists i3. split; [reflexivity|]. split; [lia|]. split; [unfold adv in A3; lia|]. exists c2'. split; [assumption|].
      unfold stop_tail in X2. lia. }
  rewrite E4. cbn [bind]. rewrite Hc3. cbn [bind].
  destruct (wr_ok w3 0%N) as (w5 & E5 & R5 & C5 & N5); [unfold adv in *; lia|]. rewrite E5. cbn [bind].
  destruct (rd_ok s i4) as (c3' & Hc3' & Hn3); [lia|]. assert (c3' = c3) by congruence. subst c3'.
  eexists _, w5. split; [reflexivity|].
  destruct ((c3 =? 10)%N || (c3 =? 124)%N) eqn:E6.
  - assert (c3 <> 0%N) as H30 by lia. specialize (Hn3 H30). unfold adv, wcap in *. repeat split; try lia.
  - assert (c3 = 0%N) by lia. subst c3. unfold adv, wcap in *. repeat split; try lia.
    intros c' Hc' Hc'0. destruct (Nat.eq_dec i4 i) as [e|e]; [subst; congruence|lia].
Qed.

(* ---------------------------------------------------------------------------------------- *)
(* ex_txt (the scan of "rs"), one command, the loop of ex_exec                               *)

Lemma txt_rs_spec : forall fuel s i, i <= length s -> length s < i + fuel ->
  exists j, txt_rs fuel s i = Ok j /\ i <= j /\ j <= length s /\
            exists b, rd s j = Ok b /\ (b <> 0%N -> j + 3 <= length s).
Proof.
  induction fuel as [|f IH]; intros s i Hi Hf; [lia|].
  cbn [txt_rs]. destruct (rd_ok s i) as (a & Ha & Hn); [lia|]. rewrite Ha. cbn [bind].
  assert (a <> 0%N -> exists j, txt_rs f s (S i) = Ok j /\ i <= j /\ j <= length s /\
                                exists b, rd s j = Ok b /\ (b <> 0%N -> j + 3 <= length s)) as REC.
  { intro Ha0. specialize (Hn Ha0). destruct (IH s (S i)) as (j & E & L1 & L2 & X); [lia..|].
    exists j. repeat split; try assumption; lia. }
  destruct (N.eqb_spec a 0) as [Z|Z].
  { exists i. repeat split; try lia. exists a. split; [assumption|]. intro; congruence. }
  specialize (Hn Z).
  destruct (N.eqb_spec a 10) as [T|T]; [|apply REC; assumption].
  destruct (rd_ok s (S i)) as (b & Hb & Hnb); [lia|]. rewrite Hb. cbn [bind].
  destruct (N.eqb_spec b 46) as [D|D]; [|apply REC; assumption].
  assert (b <> 0%N) as Hb0 by lia. specialize (Hnb Hb0).
  destruct (rd_ok s (S (S i))) as (c & Hc & Hnc); [lia|]. rewrite Hc. cbn [bind].
  destruct (N.eqb_spec c 10) as [U|U]; [|apply REC; assumption].
  assert (c <> 0%N) as Hc0 by lia. specialize (Hnc Hc0).
  exists i. repeat split; try lia. exists a. split; [assumption|]. intros _. lia.
Qed.

Lemma ex_txt_src_spec s i c0 c1 : i <= length s ->
  exists j, ex_txt_src s i c0 c1 = Ok j /\ i <= j /\ j <= length s.
Proof.
  intro Hi. unfold ex_txt_src. destruct ((c0 =? 114)%N && (c1 =? 115)%N).
  - destruct (rd_ok s i) as (a & Ha & Hn); [lia|]. rewrite Ha. cbn [bind].
    destruct (N.eqb_spec a 0); [exists i; repeat split; lia|].
    destruct (txt_rs_spec (S (length s)) s i) as (j & E & L1 & L2 & b & Hb & X); [lia..|]. rewrite E. cbn [bind].
    rewrite Hb. cbn [bind]. destruct (N.eqb_spec b 0).
    + exists j. repeat split; lia.
    + specialize (X n0). exists (j + 3). repeat split; lia.
  - exists i. repeat split; lia.
Qed.

Lemma newbuf_room cap : wroom (newbuf cap) = cap /\ wlen (newbuf cap) = 0 /\ wcap (newbuf cap) = cap.
Proof. unfold newbuf, wroom, wlen, wcap. cbn. lia. Qed.

Lemma parse_one_spec s i c : length s < excap -> i <= length s -> rd s i = Ok c -> c <> 0%N ->
  exists p, parse_one s i = Ok p /\ i < p_next p /\ p_next p <= length s.
Proof.
  intros Hcap Hi Hc Hc0. unfold parse_one. destruct (newbuf_room excap) as (NR & NL & NC).
  destruct (ex_loc_spec s i (newbuf excap)) as (i1 & w1 & E1 & L1 & L1' & _); [lia..|]. rewrite E1. cbn [bind fst snd].
  destruct (ex_cmd_spec s i1 (newbuf excap)) as (i2 & w2 & E2 & L2 & L2' & _); [lia..|]. rewrite E2. cbn [bind fst snd].
  destruct (ex_arg_spec s i2 (newbuf excap) (ch0 (excmd_of (wstr w2))) (ch1 (excmd_of (wstr w2))))
    as (i3 & w3 & E3 & L3 & L3' & _ & _ & P3); [lia..|]. rewrite E3. cbn [bind fst snd].
  destruct (ex_txt_src_spec s i3 (ch0 (excmd_of (wstr w2))) (ch1 (excmd_of (wstr w2)))) as (j & E4 & L4 & L4'); [lia|].
  rewrite E4. cbn [bind]. eexists. split; [reflexivity|]. cbn [p_next].
  split; [|assumption].
  (* progress: ex_arg always moves when the command starts on a byte *)
  destruct (Nat.eq_dec i2 i) as [e|e].
  - subst i2. specialize (P3 c Hc Hc0). lia.
  - lia.
Qed.

Lemma exec_loop_spec : forall fuel s i, length s < excap -> i <= length s -> length s < i + fuel ->
  exists l, exec_loop fuel s i = Ok l.
Proof.
  induction fuel as [|f IH]; intros s i Hcap Hi Hf; [lia|].
  cbn [exec_loop]. destruct (rd_ok s i) as (c & Hc & Hn); [lia|]. rewrite Hc. cbn [bind].
  destruct (N.eqb_spec c 0) as [Z|Z]; [eauto|].
  destruct (parse_one_spec s i c Hcap Hi Hc Z) as (p & E & L1 & L2). rewrite E. cbn [bind].
  destruct (IH s (p_next p)) as (l & El); [lia..|]. rewrite El. cbn [bind]. eauto.
Qed.

Lemma cstrlen_le s : cstrlen s <= length s.
Proof. induction s as [|b r IH]; cbn [cstrlen length]; [lia|]. destruct (b =? 0)%N; lia. Qed.
Lemma cstrlen_nonul s : nonul s -> cstrlen s = length s.
Proof.
  induction 1 as [|b r Hb _ IH]; cbn [cstrlen length]; [reflexivity|].
  unfold byte_ok in Hb. destruct (N.eqb_spec b 0); [lia|]. rewrite IH. reflexivity.
Qed.

Lemma excap_EXLEN : Z.of_nat excap = EXLEN.
Proof. reflexivity. Qed.

(* the three scanners, each into a fresh EXLEN-byte buffer, from any position of any line shorter
   than EXLEN, for any command name handed to ex_arg *)
Lemma ex_parts_fit ln i c0 c1 : (Z.of_nat (length ln) < EXLEN)%Z -> i <= length ln ->
  (exists i' w, ex_loc ln i (newbuf excap) = Ok (i', w) /\ i <= i' /\ i' <= length ln /\
                wlen w <= i' - i + 1 /\ (Z.of_nat (wlen w) <= EXLEN)%Z) /\
  (exists i' w, ex_cmd ln i (newbuf excap) = Ok (i', w) /\ i <= i' /\ i' <= length ln /\
                wlen w <= i' - i + 1 /\ wlen w <= 18 /\ (Z.of_nat (wlen w) <= EXLEN)%Z) /\
  (exists i' w, ex_arg ln i (newbuf excap) c0 c1 = Ok (i', w) /\ i <= i' /\ i' <= length ln /\
                wlen w <= i' - i + 1 /\ (Z.of_nat (wlen w) <= EXLEN)%Z).
Proof.
  intros Hlen Hi. rewrite <- excap_EXLEN in *. destruct (newbuf_room excap) as (NR & NL & NC).
  split; [|split].
  - destruct (ex_loc_spec ln i (newbuf excap)) as (i' & w & E & L1 & L2 & B & _); [lia..|].
    exists i', w. repeat split; try assumption; lia.
  - destruct (ex_cmd_spec ln i (newbuf excap)) as (i' & w & E & L1 & L2 & B & B' & _); [lia..|].
    exists i', w. repeat split; try assumption; lia.
  - destruct (ex_arg_spec ln i (newbuf excap) c0 c1) as (i' & w & E & L1 & L2 & B & _); [lia..|].
    exists i', w. repeat split; try assumption; lia.
Qed.

(* the whole of ex_exec on a C string: too long and not parsed, or parsed to the end without an
   out-of-bounds access and without running out of fuel (the loop terminates) *)
Lemma ex_exec_safe ln : nonul ln ->
  match ex_exec ln with
  | TooLong => (EXLEN <= Z.of_nat (length ln))%Z
  | Parsed r => (Z.of_nat (length ln) < EXLEN)%Z /\ exists l, r = Ok l
  end.
Proof.
  intro Hn. unfold ex_exec. rewrite (cstrlen_nonul ln Hn).
  destruct (Z.leb_spec EXLEN (Z.of_nat (length ln))); [assumption|].
  split; [assumption|]. apply exec_loop_spec; rewrite <- excap_EXLEN in *; lia.
Qed.

Lemma ex_exec_guard ln : (EXLEN <= Z.of_nat (cstrlen ln))%Z -> ex_exec ln = TooLong.
Proof. intro H. unfold ex_exec. destruct (Z.leb_spec EXLEN (Z.of_nat (cstrlen ln))); [reflexivity|lia]. Qed.

(* ---------------------------------------------------------------------------------------- *)
(* term.c: ibuf / icmd                                                                       *)

Local Open Scope Z_scope.

Definition tinv (t : tstate) : Prop :=
  0 <= ibuf_pos t /\ ibuf_pos t <= ibuf_cnt t /\ ibuf_cnt t <= IBUFSZ /\ 0 <= icmd_pos t /\ icmd_pos t <= ICMDSZ.
(* what the callers guarantee: a push has a non-negative length; read(0, ibuf, 1) returns at most 1 *)
Definition op_ok (o : top) : Prop :=
  match o with TPush n => 0 <= n | TRead (Some n) => n <= 1 | _ => True end.

Lemma sizes_pos : 1 <= IBUFSZ /\ 1 <= ICMDSZ.
Proof. split; now vm_compute. Qed.

Lemma t_step_inv t o : tinv t -> op_ok o -> exists t', t_step t o = Ok t' /\ tinv t'.
Proof.
  destruct sizes_pos as [SI SC]. destruct t as [p c k]. unfold tinv, op_ok. cbn [ibuf_pos ibuf_cnt icmd_pos].
  intros (H1 & H2 & H3 & H4 & H5) Ho. destruct o as [n|[n|]|]; unfold t_step; cbn [ibuf_pos ibuf_cnt icmd_pos].
  - destruct (Z.ltb_spec (Z.min n (IBUFSZ - c)) 0); [lia|]. destruct (Z.ltb_spec (c - p) 0); [lia|].
    destruct (Z.ltb_spec p 0); [lia|]. destruct (Z.ltb_spec IBUFSZ (p + (c - p))); [lia|]. cbn [orb].
    destruct (Z.ltb_spec IBUFSZ (p + Z.min n (IBUFSZ - c) + (c - p))); [lia|].
    eexists. split; [reflexivity|]. cbn [ibuf_pos ibuf_cnt icmd_pos]. lia.
  - destruct (Z.leb_spec c p).
    + destruct (Z.leb_spec n 0); [eexists; split; [reflexivity|cbn [ibuf_pos ibuf_cnt icmd_pos]; lia]|].
      cbn [ibuf_pos ibuf_cnt icmd_pos].
      destruct (Z.ltb_spec 0 n); [|lia]. destruct (Z.ltb_spec 0 0); [lia|]. destruct (Z.leb_spec IBUFSZ 0); [lia|].
      cbn [orb andb ibuf_pos ibuf_cnt icmd_pos].
      destruct (Z.ltb_spec k ICMDSZ).
      * destruct (Z.ltb_spec k 0); [lia|]. eexists. split; [reflexivity|]. cbn [ibuf_pos ibuf_cnt icmd_pos]. lia.
      * eexists. split; [reflexivity|]. cbn [ibuf_pos ibuf_cnt icmd_pos]. lia.
    + cbn [ibuf_pos ibuf_cnt icmd_pos]. destruct (Z.ltb_spec p c); [|lia]. destruct (Z.ltb_spec p 0); [lia|].
      destruct (Z.leb_spec IBUFSZ p); [lia|]. cbn [orb andb ibuf_pos ibuf_cnt icmd_pos].
      destruct (Z.ltb_spec k ICMDSZ).
      * destruct (Z.ltb_spec k 0); [lia|]. eexists. split; [reflexivity|]. cbn [ibuf_pos ibuf_cnt icmd_pos]. lia.
      * eexists. split; [reflexivity|]. cbn [ibuf_pos ibuf_cnt icmd_pos]. lia.
  - destruct (Z.leb_spec c p).
    + eexists. split; [reflexivity|]. cbn [ibuf_pos ibuf_cnt icmd_pos]. lia.
    + cbn [ibuf_pos ibuf_cnt icmd_pos]. destruct (Z.ltb_spec p c); [|lia]. destruct (Z.ltb_spec p 0); [lia|].
      destruct (Z.leb_spec IBUFSZ p); [lia|]. cbn [orb andb ibuf_pos ibuf_cnt icmd_pos].
      destruct (Z.ltb_spec k ICMDSZ).
      * destruct (Z.ltb_spec k 0); [lia|]. eexists. split; [reflexivity|]. cbn [ibuf_pos ibuf_cnt icmd_pos]. lia.
      * eexists. split; [reflexivity|]. cbn [ibuf_pos ibuf_cnt icmd_pos]. lia.
  - eexists. split; [reflexivity|]. cbn [ibuf_pos ibuf_cnt icmd_pos]. lia.
Qed.

Lemma t_run_inv : forall ops t, tinv t -> Forall op_ok ops -> exists t', t_run t ops = Ok t' /\ tinv t'.
Proof.
  induction ops as [|o r IH]; intros t Ht Ho; cbn [t_run]; [eauto|].
  inversion Ho as [|? ? Ho1 Ho2]; subst.
  destruct (t_step_inv t o Ht Ho1) as (t1 & E1 & I1). rewrite E1. cbn [bind]. apply IH; assumption.
Qed.

Lemma t_init_inv : tinv t_init.
Proof. destruct sizes_pos. unfold tinv, t_init. cbn. lia. Qed.

(* for every sequence of pushes, reads and term_cmd calls from the initial state: no store outside
   ibuf[IBUFSZ] / icmd[ICMDSZ], no load outside the filled part of ibuf *)
Lemma term_bounded ops : Forall op_ok ops ->
  exists t, t_run t_init ops = Ok t /\ 0 <= ibuf_pos t <= ibuf_cnt t /\ ibuf_cnt t <= IBUFSZ /\ 0 <= icmd_pos t <= ICMDSZ.
Proof.
  intro H. destruct (t_run_inv ops t_init t_init_inv H) as (t & E & I). exists t. unfold tinv in I. split; [assumption|lia].
Qed.

(* a push keeps the read position and adds exactly min(n, room left) bytes *)
Lemma term_push_clipped t n t' : tinv t -> 0 <= n -> t_step t (TPush n) = Ok t' ->
  ibuf_pos t' = ibuf_pos t /\ ibuf_cnt t' = ibuf_cnt t + Z.min n (IBUFSZ - ibuf_cnt t) /\
  ibuf_cnt t' <= IBUFSZ /\ icmd_pos t' = icmd_pos t.
Proof.
  destruct t as [p c k]. cbv beta iota zeta delta [tinv t_step ibuf_pos ibuf_cnt icmd_pos]. intros I Hn.
  destruct ((Z.min n (IBUFSZ - c) <? 0) || (c - p <? 0) || (p <? 0) || (IBUFSZ <? p + (c - p))) eqn:C1; [discriminate|].
  destruct (IBUFSZ <? p + Z.min n (IBUFSZ - c) + (c - p)) eqn:C2; [discriminate|]. intro E.
  assert (t' = mkT p (c + Z.min n (IBUFSZ - c)) k) as -> by congruence.
  repeat split; lia.
Qed.

(* ---------------------------------------------------------------------------------------- *)
(* ex_region                                                                                 *)

Section RegionProps.
  Variable len : Z.
  Hypothesis len_nonneg : 0 <= len.
  Variable lineno : Z -> bytes -> nat -> res (Z * nat).

  (* whatever ex_lineno returns: a region that is not refused lies inside the buffer *)
  Lemma ex_region_range loc xrow b e x : ex_region len lineno loc xrow = Ok (ROk b e, x) -> 0 <= b /\ b <= e /\ e <= len.
  Proof.
    unfold ex_region. destruct (bytes_eqb loc [37%N]).
    { intro E. inversion E. lia. }
    destruct (rd loc 0) as [c| | |]; cbn [bind]; try discriminate.
    destruct (c =? 0)%N.
    { destruct (Z.ltb_spec xrow 0); [cbn [orb]; intro E; inversion E|]. destruct (Z.ltb_spec len xrow); cbn [orb]; intro E; inversion E.
      subst. destruct (Z.eqb_spec x len); lia. }
    destruct (region_loop lineno (S (length loc)) loc 0 xrow 0 0 0) as [[[[b0 e0]|] x0]| | |]; cbn [bind fst snd]; try discriminate.
    set (b1 := if (b0 <? 0) && (e0 =? 0) then 0 else b0).
    destruct (Z.ltb_spec b1 0); cbn [orb]; [discriminate|].
    destruct (Z.leb_spec len b1); [discriminate|].
    destruct (Z.ltb_spec e0 b1); cbn [orb]; [discriminate|].
    destruct (Z.ltb_spec len e0); [discriminate|].
    intro E. inversion E. subst. lia.
  Qed.

  (* reads of the address string stay inside it provided ex_lineno leaves the position inside it *)
  Hypothesis lineno_ok : forall xrow s i, (i <= length s)%nat ->
    exists n j, lineno xrow s i = Ok (n, j) /\ (i <= j)%nat /\ (j <= length s)%nat.

  Lemma region_loop_spec : forall fuel s i xrow naddr b e, (i <= length s)%nat -> (length s < i + fuel)%nat ->
    exists r, region_loop lineno fuel s i xrow naddr b e = Ok r.
  Proof.
    induction fuel as [|f IH]; intros s i xrow naddr b e Hi Hf; [lia|].
    cbn [region_loop]. destruct (rd_ok s i) as (c & Hc & Hn); [lia|]. rewrite Hc. cbn [bind].
    destruct (c =? 0)%N; [eauto|].
    destruct (lineno_ok xrow s i Hi) as (n & j & E & L1 & L2). rewrite E. cbn [bind fst snd].
    destruct (n + 1 <? 0); [eauto|].
    destruct (skip_while_spec (fun c => negb (c =? 0)%N && negb (c =? 59)%N && negb (c =? 44)%N) eq_refl (S (length s)) s j)
      as (j' & E' & L3 & L4 & c2 & Hc2 & _); [lia..|].
    rewrite E'. cbn [bind]. rewrite Hc2. cbn [bind].
    destruct (N.eqb_spec c2 0); [eauto|].
    destruct (rd_ok s j') as (c2' & Hc2' & Hn2); [lia|]. assert (c2' = c2) by congruence. subst c2'. specialize (Hn2 n0).
    apply IH; lia.
  Qed.

  Lemma ex_region_total loc xrow : exists r, ex_region len lineno loc xrow = Ok r.
  Proof.
    unfold ex_region. destruct (bytes_eqb loc [37%N]); [eauto|].
    destruct (rd_ok loc 0) as (c & Hc & _); [lia|]. rewrite Hc. cbn [bind].
    destruct (c =? 0)%N; [eauto|].
    destruct (region_loop_spec (S (length loc)) loc 0 xrow 0 0 0) as (r & E); [lia..|]. rewrite E. cbn [bind].
    destruct (fst r) as [[b e]|]; [|eauto].
    repeat match goal with |- context [if ?b then _ else _] => destruct b end; eauto.
  Qed.
End RegionProps.

(* ex_lineno itself leaves the position inside the address string, provided no mark is stored
   under the terminator (markidx(0) = -1) and a search reports a position inside the string *)
Lemma digits_val_spec : forall fuel s i acc, (i <= length s)%nat -> (length s < i + fuel)%nat ->
  exists v j, digits_val fuel s i acc = Ok (v, j) /\ (i <= j)%nat /\ (j <= length s)%nat.
Proof.
  induction fuel as [|f IH]; intros s i acc Hi Hf; [lia|].
  cbn [digits_val]. destruct (rd_ok s i) as (c & Hc & Hn); [lia|]. rewrite Hc. cbn [bind].
  destruct (c_isdigit c) eqn:E.
  - assert (c <> 0%N) as Hc0 by (unfold c_isdigit in E; lia). specialize (Hn Hc0).
    destruct (IH s (S i) (acc * 10 + (Z.of_N c - 48))) as (v & j & E' & L1 & L2); [lia..|].
    exists v, j. repeat split; try assumption; lia.
  - exists acc, i. repeat split; lia.
Qed.

Lemma offsets_spec : forall fuel s i n, (i <= length s)%nat -> (length s < i + fuel)%nat ->
  exists v j, offsets fuel s i n = Ok (v, j) /\ (i <= j)%nat /\ (j <= length s)%nat.
Proof.
  induction fuel as [|f IH]; intros s i n Hi Hf; [lia|].
  cbn [offsets]. destruct (rd_ok s i) as (c & Hc & Hn); [lia|]. rewrite Hc. cbn [bind].
  destruct ((c =? 45)%N || (c =? 43)%N) eqn:E.
  - assert (c <> 0%N) as Hc0 by lia. specialize (Hn Hc0).
    destruct (digits_val_spec (S (length s)) s (S i) 0) as (v & j & E' & L1 & L2); [lia..|]. rewrite E'. cbn [bind fst snd].
    destruct (IH s j (if (c =? 45)%N then n - v else n + v)) as (v2 & j2 & E2 & L3 & L4); [lia..|].
    exists v2, j2. repeat split; try assumption; lia.
  - exists n, i. repeat split; lia.
Qed.

Lemma ex_lineno_ok len mark search : mark 0%N = None ->
  (forall xrow s i, (i < length s)%nat -> (i <= snd (search xrow s i))%nat /\ (snd (search xrow s i) <= length s)%nat) ->
  forall xrow s i, (i <= length s)%nat ->
  exists n j, ex_lineno len mark search xrow s i = Ok (n, j) /\ (i <= j)%nat /\ (j <= length s)%nat.
Proof.
  intros M0 SR xrow s i Hi. unfold ex_lineno.
  destruct (rd_ok s i) as (c & Hc & Hn); [lia|]. rewrite Hc. cbn [bind].
  assert (forall n j, (i <= j)%nat -> (j <= length s)%nat ->
            exists n' j', offsets (S (length s)) s j n = Ok (n', j') /\ (i <= j')%nat /\ (j' <= length s)%nat) as OFF.
  { intros n j L1 L2. destruct (offsets_spec (S (length s)) s j n) as (v & j' & E & L3 & L4); [lia..|].
    exists v, j'. repeat split; try assumption; lia. }
  assert (exists n j, Ok (A := Z * nat) (-2, i) = Ok (n, j) /\ (i <= j)%nat /\ (j <= length s)%nat) as FAILS
    by (exists (-2), i; repeat split; lia).
  destruct (N.eqb_spec c 46). { cbn [bind]. assert (c <> 0%N) as Hc0 by lia. specialize (Hn Hc0). apply OFF; lia. }
  destruct (N.eqb_spec c 36). { cbn [bind]. assert (c <> 0%N) as Hc0 by lia. specialize (Hn Hc0). apply OFF; lia. }
  destruct (N.eqb_spec c 39).
  { assert (c <> 0%N) as Hc0 by lia. specialize (Hn Hc0).
    destruct (rd_ok s (S i)) as (m & Hm & Hnm); [lia|]. rewrite Hm. cbn [bind].
    destruct (mark m) as [v|] eqn:Em; cbn [bind]; [|exact FAILS].
    assert (m <> 0%N) as Hm0 by (intro; subst; congruence). specialize (Hnm Hm0). apply OFF; lia. }
  destruct ((c =? 47)%N || (c =? 63)%N) eqn:E.
  { assert (c <> 0%N) as Hc0 by lia. specialize (Hn Hc0). destruct (SR xrow s i Hn) as [S1 S2].
    destruct (search xrow s i) as [[v|] j]; cbn [bind snd] in *; [|exact FAILS].
    destruct (v <? 0); cbn [bind]; [exact FAILS|]. apply OFF; lia. }
  destruct (c_isdigit c) eqn:D.
  { destruct (digits_val_spec (S (length s)) s i 0) as (v & j & E' & L1 & L2); [lia..|]. rewrite E'. cbn [bind fst snd].
    apply OFF; lia. }
  cbn [bind]. apply OFF; lia.
Qed.

(* ---------------------------------------------------------------------------------------- *)
(* cutword / ec_set (tok[EXLEN], opt[EXLEN]) and ex_plus (pls[EXLEN])                         *)

Local Close Scope Z_scope.

Lemma c_isspace_0 : c_isspace 0%N = false. Proof. reflexivity. Qed.

Lemma cut_copy_spec : forall fuel s i w, i <= length s -> length s < i + wroom w -> length s < i + fuel ->
  exists i' w', cut_copy fuel s i w = Ok (i', w') /\ adv s i w i' w'.
Proof.
  induction fuel as [|f IH]; intros s i w Hi Hw Hf; [lia|].
  cbn [cut_copy]. destruct (rd_ok s i) as (c & Hc & Hn); [lia|]. rewrite Hc. cbn [bind].
  destruct ((c =? 0)%N || c_isspace c) eqn:E.
  - exists i, w. split; [reflexivity|]. apply adv_refl; lia.
  - assert (c <> 0%N) as Hc0 by lia. specialize (Hn Hc0).
    destruct (copy1_spec s i w) as (w1 & E1 & R1 & C1); [lia..|]. rewrite E1. cbn [bind fst snd].
    destruct (IH s (S i) w1) as (i' & w' & E' & A'); [lia..|].
    exists i', w'. split; [assumption|]. unfold adv in *. lia.
Qed.

Lemma cutword_spec s i w : i <= length s -> length s < i + wroom w ->
  exists i' w', cutword s i w = Ok (i', w') /\ i <= i' /\ i' <= length s /\
                wlen w' <= wlen w + (i' - i) + 1 /\ wcap w' = wcap w.
Proof.
  intros Hi Hw. unfold cutword.
  destruct (skip_while_spec c_isspace c_isspace_0 (S (length s)) s i) as (i1 & E1 & L1 & L1' & _); [lia..|]. rewrite E1. cbn [bind].
  destruct (cut_copy_spec (S (length s)) s i1 w) as (i2 & w2 & E2 & A2); [lia..|]. rewrite E2. cbn [bind fst snd].
  destruct (skip_while_spec c_isspace c_isspace_0 (S (length s)) s i2) as (i3 & E3 & L3 & L3' & _); [unfold adv in A2; lia..|].
  rewrite E3. cbn [bind].
  destruct (wr_ok w2 0%N) as (w3 & E4 & R4 & C4 & N4); [unfold adv in A2; lia|]. rewrite E4. cbn [bind].
  exists i3, w3. split; [reflexivity|]. unfold adv, wcap in *. lia.
Qed.

Lemma wstr_length w : length (wstr w) = Nat.pred (wlen w).
Proof. destruct w as [[|b l] r]; unfold wstr, wlen; cbn [fst length]; [reflexivity|]. rewrite rev_length. reflexivity. Qed.

Lemma strcpy_from_spec : forall fuel s i w, i <= length s -> length s < i + wroom w -> length s < i + fuel ->
  exists w', strcpy_from fuel s i w = Ok w'.
Proof.
  induction fuel as [|f IH]; intros s i w Hi Hw Hf; [lia|].
  cbn [strcpy_from]. destruct (rd_ok s i) as (c & Hc & Hn); [lia|]. rewrite Hc. cbn [bind].
  destruct (wr_ok w c) as (w1 & E1 & R1 & _); [lia|]. rewrite E1. cbn [bind].
  destruct (N.eqb_spec c 0); [eauto|]. specialize (Hn n). apply IH; lia.
Qed.

Lemma index_of_lt c : forall s k, index_of c s = Some k -> k < length s.
Proof.
  induction s as [|b r IH]; intros k; cbn [index_of length]; [discriminate|].
  destruct (b =? c)%N; [intro E; inversion E; lia|].
  destruct (index_of c r) as [k'|]; cbn [option_map]; [|discriminate]. intro E. inversion E. specialize (IH k' eq_refl). lia.
Qed.

Lemma nthb_nonzero s k : nthb s k <> 0%N -> k < length s.
Proof.
  unfold nthb. intro H. destruct (Nat.lt_ge_cases k (length s)); [assumption|]. rewrite nth_overflow in H by assumption. congruence.
Qed.

(* ec_set: the word cut from an argument shorter than EXLEN fits tok[EXLEN], and each of the three
   strcpy calls fits opt[EXLEN] *)
Lemma ec_set_bufs_spec arg : length arg < excap -> exists r, ec_set_bufs arg = Ok r.
Proof.
  intro Hcap. unfold ec_set_bufs. destruct (newbuf_room excap) as (NR & NL & NC).
  destruct (rd_ok arg 0) as (c & Hc & _); [lia|]. rewrite Hc. cbn [bind].
  destruct (c =? 0)%N; [eauto|].
  destruct (cutword_spec arg 0 (newbuf excap)) as (i' & w' & E & L1 & L2 & B & _); [lia..|]. rewrite E. cbn [bind fst snd].
  pose proof (wstr_length w') as TL. set (tok := wstr w') in *.
  assert (length tok < excap) as Htok by lia.
  destruct ((nthb tok 0 =? 110)%N && (nthb tok 1 =? 111)%N) eqn:NO.
  - assert (1 < length tok) by (apply nthb_nonzero; lia).
    destruct (strcpy_from_spec (S (length tok)) tok 2 (newbuf excap)) as (o & Eo); [lia..|]. rewrite Eo. cbn [bind]. eauto.
  - destruct (index_of 61%N tok) as [k|] eqn:IX.
    + pose proof (index_of_lt _ _ _ IX). pose proof (firstn_length k tok) as FL.
      destruct (strcpy_from_spec (S k) (firstn k tok) 0 (newbuf excap)) as (o & Eo); [lia..|]. rewrite Eo. cbn [bind]. eauto.
    + destruct (strcpy_from_spec (S (length tok)) tok 0 (newbuf excap)) as (o & Eo); [lia..|]. rewrite Eo. cbn [bind]. eauto.
Qed.

Lemma plus_loop_spec : forall fuel s i w, i <= length s -> length s < i + wroom w -> length s < i + fuel ->
  exists i' w', plus_loop fuel s i w = Ok (i', w') /\ adv s i w i' w'.
Proof.
  induction fuel as [|f IH]; intros s i w Hi Hw Hf; [lia|].
  cbn [plus_loop]. destruct (rd_ok s i) as (c & Hc & Hn); [lia|]. rewrite Hc. cbn [bind].
  destruct ((c =? 0)%N || (c =? 32)%N) eqn:E.
  - exists i, w. split; [reflexivity|]. apply adv_refl; lia.
  - assert (c <> 0%N) as Hc0 by lia. specialize (Hn Hc0).
    assert (exists i1, (if (c =? 92)%N then (do b <- rd s (S i); Ok (if (b =? 0)%N then i else S i)) else Ok i) = Ok i1 /\
                       i <= i1 /\ i1 < length s) as (i1 & E1 & L1 & L1').
    { destruct (c =? 92)%N.
      - destruct (rd_ok s (S i)) as (b & Hb & Hnb); [lia|]. rewrite Hb. cbn [bind].
        destruct (N.eqb_spec b 0); [exists i; repeat split; lia|]. specialize (Hnb n). exists (S i). repeat split; lia.
      - exists i. repeat split; lia. }
    rewrite E1. cbn [bind].
    destruct (copy1_spec s i1 w) as (w1 & E2 & R2 & C2); [lia..|]. rewrite E2. cbn [bind fst snd].
    destruct (IH s (S i1) w1) as (i' & w' & E' & A'); [lia..|].
    exists i', w'. split; [assumption|]. unfold adv in *. lia.
Qed.

Lemma ex_plus_spec s i w : i <= length s -> length s < i + wroom w ->
  exists i' w', ex_plus s i w = Ok (i', w') /\ i <= i' /\ i' <= length s /\ wlen w' <= wlen w + (i' - i) + 1.
Proof.
  intros Hi Hw. unfold ex_plus.
  destruct (skip_while_spec (fun c => (c =? 32)%N) eq_refl (S (length s)) s i) as (i1 & E1 & L1 & L1' & _); [lia..|]. rewrite E1. cbn [bind].
  destruct (Nat.eqb_spec (wroom w) 0); [lia|].
  destruct (rd_ok s i1) as (c & Hc & Hn); [lia|]. rewrite Hc. cbn [bind].
  destruct (negb (c =? 43)%N).
  { exists i1, w. repeat split; try lia. }
  destruct (plus_loop_spec (S (length s)) s i1 w) as (i2 & w2 & E2 & A2); [lia..|]. rewrite E2. cbn [bind fst snd].
  destruct (wr_ok w2 0%N) as (w3 & E3 & R3 & C3 & N3); [unfold adv in A2; lia|]. rewrite E3. cbn [bind].
  destruct (skip_while_spec is_blank is_blank_0 (S (length s)) s i2) as (i3 & E4 & L4 & L4' & _); [unfold adv in A2; lia..|].
  rewrite E4. cbn [bind]. exists i3, w3. split; [reflexivity|]. unfold adv, wcap in *. lia.
Qed.

Lemma term_push_bounded ops : Forall op_ok ops ->
  exists t, t_run t_init ops = Ok t /\ (0 <= ibuf_pos t)%Z /\ (ibuf_pos t <= ibuf_cnt t)%Z /\ (ibuf_cnt t <= IBUFSZ)%Z.
Proof. intro H. destruct (term_bounded ops H) as (t & E & B). exists t. split; [assumption|lia]. Qed.
Lemma icmd_bounded ops : Forall op_ok ops ->
  exists t, t_run t_init ops = Ok t /\ (0 <= icmd_pos t)%Z /\ (icmd_pos t <= ICMDSZ)%Z.
Proof. intro H. destruct (term_bounded ops H) as (t & E & B). exists t. split; [assumption|lia]. Qed.
